import GMGProofs.Lemmas.SourceTerms1
/-!
# The Sonnendrücker source terms: the defect caused by rounded decimal constants (C19 source terms)

The C++ source terms of the Sonnendrücker profile `α(ρ) = a₀ − a₁ arctan(k ρ − c)` (`ρ = r / Rmax`) do not contain
`α'(ρ) = −a₁ k / (1 + (k ρ − c)²)` but the pre-multiplied, re-rounded form `−c₂ / (q (ρ − s)² + 1)` with 15-digit decimal
literals `c₂ ≈ a₁ k`, `q ≈ k²`, `s ≈ c / k`.  The literals are not exactly consistent (`c₂ ≠ a₁ k`, `q ≠ k²`, `s ≠ c / k` in ℚ),
so source term and PDE operator differ by `sonDelta ρ · u_ρ` with `|sonDelta ρ| < 3·10⁻¹²` on `0 ≤ ρ ≤ 1`.
-/
namespace Sym

/-- `α'_Lu(ρ) − α'_src(ρ)`: derivative of the shipped `α` minus the derivative hard-coded in the shipped source terms -/
noncomputable def sonDelta (ρ : ℝ) : ℝ :=
  251645373596593 / 50000000000000 / (104320987654321 / 500000000000 * (ρ - 769230769230769 / 1000000000000000) ^ 2 + 1)
  - 348432055749129 / 1000000000000000 * (36111111111111 / 2500000000000)
      / (1 + (36111111111111 / 2500000000000 * ρ - 111111111111111 / 10000000000000)
            * (36111111111111 / 2500000000000 * ρ - 111111111111111 / 10000000000000))

theorem sonDelta_den1 (ρ : ℝ) :
    104320987654321 / 500000000000 * (ρ - 769230769230769 / 1000000000000000) ^ 2 + 1 ≠ 0 := by positivity

theorem sonDelta_den2 (ρ : ℝ) :
    1 + (36111111111111 / 2500000000000 * ρ - 111111111111111 / 10000000000000)
      * (36111111111111 / 2500000000000 * ρ - 111111111111111 / 10000000000000) ≠ 0 := by
  nlinarith [mul_self_nonneg (36111111111111 / 2500000000000 * ρ - 111111111111111 / 10000000000000)]

/-- the defect is tiny on the domain: `|sonDelta ρ| ≤ 10⁻¹¹` for `0 ≤ ρ ≤ 1` (numerically the maximum is `≈ 9·10⁻¹⁴`) -/
theorem sonDelta_abs_le {ρ : ℝ} (h0 : 0 ≤ ρ) (h1 : ρ ≤ 1) : |sonDelta ρ| ≤ 1 / 10 ^ 11 := by
  have hq1 : 1 ≤ 104320987654321 / 500000000000 * (ρ - 769230769230769 / 1000000000000000) ^ 2 + 1 := by
    nlinarith [sq_nonneg (ρ - 769230769230769 / 1000000000000000)]
  have hq2 : 1 ≤ 1 + (36111111111111 / 2500000000000 * ρ - 111111111111111 / 10000000000000)
      * (36111111111111 / 2500000000000 * ρ - 111111111111111 / 10000000000000) := by
    nlinarith [mul_self_nonneg (36111111111111 / 2500000000000 * ρ - 111111111111111 / 10000000000000)]
  have hp := one_le_mul_of_one_le_of_one_le hq1 hq2
  have hsq : 0 ≤ ρ * (1 - ρ) := mul_nonneg h0 (by linarith)
  unfold sonDelta
  rw [div_sub_div _ _ (sonDelta_den1 ρ) (sonDelta_den2 ρ), abs_le]
  constructor
  · rw [le_div_iff₀ (by linarith)]
    nlinarith
  · rw [div_le_iff₀ (by linarith)]
    nlinarith

/-- … but not zero: the literals are inconsistent -/
theorem sonDelta_half_ne : sonDelta (1 / 2) ≠ 0 := by unfold sonDelta; norm_num
theorem sonDelta_quarter_ne : sonDelta (1 / 4) ≠ 0 := by unfold sonDelta; norm_num

/-- from a defect identity `s = L + sonDelta ρ · d` to the approximation on the domain -/
theorem approx_of_defect {s L d ρ : ℝ} (h : s = L + sonDelta ρ * d) (h0 : 0 ≤ ρ) (h1 : ρ ≤ 1) :
    |s - L| ≤ 1 / 10 ^ 11 * |d| := by
  have : s - L = sonDelta ρ * d := by rw [h]; ring
  rw [this, abs_mul]
  exact mul_le_mul_of_nonneg_right (sonDelta_abs_le h0 h1) (abs_nonneg d)

/-- … and to a strict inequality wherever neither factor vanishes -/
theorem ne_of_defect {s L d ρ : ℝ} (h : s = L + sonDelta ρ * d) (hδ : sonDelta ρ ≠ 0) (hd : d ≠ 0) : s ≠ L := by
  intro e
  rw [e] at h
  have : sonDelta ρ * d = 0 := by linarith
  exact mul_ne_zero hδ hd this

open Expr InputFns in
/-- witness points: `u_r ≠ 0` at `Rmax = 1`, `(r, θ) = (1/2, π/2)` (Cartesian solutions), `(1/4, 0)` (polar solution) -/
theorem ur_CartesianR2_ne :
    ev (fun _ => 1) (1 / 2) (Real.pi / 2) (D .r Gen.CartesianR2_CircularGeometry_exact_solution) ≠ 0 := by
  simp only [Gen.CartesianR2_CircularGeometry_exact_solution]
  sym_eval
  simp only [Real.sin_pi_div_two, Real.cos_pi_div_two]
  have e : 2 * Real.pi * (1 / 2) = Real.pi := by ring
  simp only [e, Real.sin_pi, Real.cos_pi, sym_clean]
  norm_num [Real.pi_ne_zero]

open Expr InputFns in
theorem ur_CartesianR6_ne :
    ev (fun _ => 1) (1 / 2) (Real.pi / 2) (D .r Gen.CartesianR6_CircularGeometry_exact_solution) ≠ 0 := by
  simp only [Gen.CartesianR6_CircularGeometry_exact_solution]
  sym_eval
  simp only [Real.sin_pi_div_two, Real.cos_pi_div_two]
  have e : 2 * Real.pi * (1 / 2) = Real.pi := by ring
  simp only [e, Real.sin_pi, Real.cos_pi, sym_clean]
  norm_num [Real.pi_ne_zero]

open Expr InputFns in
theorem ur_PolarR6_ne :
    ev (fun _ => 1) (1 / 4) 0 (D .r Gen.PolarR6_CircularGeometry_exact_solution) ≠ 0 := by
  simp only [Gen.PolarR6_CircularGeometry_exact_solution]
  sym_eval
  norm_num

end Sym
