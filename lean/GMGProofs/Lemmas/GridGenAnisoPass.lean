import GMGProofs.Lemmas.GridGenAnisoFold
/-!
# `anisoDivision`: the refinement passes never run past the set and never merge
-/
namespace GridGenL
open GridGen

/-- `y` lies on the lattice `c + ℤ h` -/
def Lat (c h y : Rat) : Prop := ∃ z : Int, y = c + (z : Rat) * h

theorem Lat.refine {c h y : Rat} (hy : Lat c (2 * h) y) : Lat c h y := by
  obtain ⟨z, rfl⟩ := hy
  exact ⟨2 * z, by push_cast; ring⟩

theorem lat_odd_not (c h : Rat) (hh : h ≠ 0) (w : Int) : ¬ Lat c (2 * h) (c + ((2 * w + 1 : Int) : Rat) * h) := by
  rintro ⟨z, hz⟩
  have h1 : ((2 * w + 1 : Int) : Rat) * h = ((2 * z : Int) : Rat) * h := by
    push_cast at hz ⊢; linarith
  have h2 := mul_right_cancel₀ hh h1
  have h3 : 2 * w + 1 = 2 * z := by exact_mod_cast h2
  omega

/-- one iteration of the loop body of `refinePass` -/
def passStep (half : Rat) (keep : Bool) (st et : Int) (p1 : List Rat) (i : Nat)
    (x : List Rat × List Rat × Int) : Out (List Rat × List Rat × Int) :=
  match x with
  | (rs, tmp, cnt) =>
    if i < p1.length then
      if keep = true ∧ st ≤ (i : Int) ∧ (i : Int) < et then
        pure (sins (p1.getD i 0 + half) rs, sins (p1.getD i 0 + half) (sins (p1.getD i 0) tmp), cnt + 2)
      else pure (sins (p1.getD i 0 + half) rs, tmp, cnt)
    else .ub s!"dereference of r_set_p1 iterator at position {i} of {p1.length}"

theorem refinePass_eq (half : Rat) (keep : Bool) (st et : Int) (p1 : List Rat) (rsize : Int) (rset : List Rat) :
    refinePass half keep st et p1 rsize rset
      = (List.range (rsize - 1).toNat).foldl (fun acc i => acc >>= passStep half keep st et p1 i)
          (.ok (rset, [], 0)) := rfl

theorem refinePass_zero (half : Rat) (keep : Bool) (st et : Int) (p1 : List Rat) (rset : List Rat) :
    refinePass half keep st et p1 0 rset = .ok (rset, [], 0) := by
  rw [refinePass_eq]; rfl

/-- kept pairs after `i` iterations -/
def keptN (keep : Bool) (st et i : Nat) : Nat := if keep = true then min i et - min i st else 0

theorem refinePass_spec (half s c : Rat) (keep : Bool) (st et m : Nat) (rset : List Rat)
    (hh : 0 < half) (hs : Lat c (2 * half) s) (hst : st ≤ et) (het : et + 1 ≤ m)
    (hlat : ∀ y ∈ rset, Lat c (2 * half) y) :
    ∃ rs', refinePass half keep (st : Int) (et : Int) (ap s (2 * half) m) (m : Int) rset
        = .ok (rs', ap (s + (st : Rat) * (2 * half)) half (2 * keptN keep st et (m - 1)),
            ((2 * keptN keep st et (m - 1) : Nat) : Int))
      ∧ rs'.length = rset.length + (m - 1) ∧ ∀ y ∈ rs', Lat c half y := by
  rw [refinePass_eq]
  have hn : ((m : Int) - 1).toNat = m - 1 := by omega
  rw [hn]
  obtain ⟨⟨rs, tmp, cnt⟩, hfold, h1, h2, h3, h4⟩ := foldl_range_inv (σ := List Rat × List Rat × Int) _
    (passStep half keep (st : Int) (et : Int) (ap s (2 * half) m)) (fun _ _ => rfl)
    (fun i x => x.1.length = rset.length + i
      ∧ (∀ y ∈ x.1, Lat c half y ∧ (Lat c (2 * half) y ∨ y < s + (i : Rat) * (2 * half)))
      ∧ x.2.1 = ap (s + (st : Rat) * (2 * half)) half (2 * keptN keep st et i)
      ∧ x.2.2 = ((2 * keptN keep st et i : Nat) : Int))
    (m - 1) (rset, [], 0)
    ⟨by simp, fun y hy => ⟨(hlat y hy).refine, Or.inl (hlat y hy)⟩, by simp [keptN, ap], by simp [keptN]⟩
    (by
      rintro i hi ⟨rs, tmp, cnt⟩ ⟨h1, h2, h3, h4⟩
      simp only at h1 h2 h3 h4
      have hx : (ap s (2 * half) m).getD i 0 = s + (i : Rat) * (2 * half) := ap_getD _ _ _ _ (by omega)
      obtain ⟨z0, hz0⟩ := hs
      have hxh : s + (i : Rat) * (2 * half) + half = c + ((2 * (z0 + i) + 1 : Int) : Rat) * half := by
        rw [hz0]; push_cast; ring
      have hnot : s + (i : Rat) * (2 * half) + half ∉ rs := by
        intro hm
        rcases (h2 _ hm).2 with hl | hl
        · rw [hxh] at hl; exact lat_odd_not c half (ne_of_gt hh) _ hl
        · linarith
      have hrs : (sins (s + (i : Rat) * (2 * half) + half) rs).length = rset.length + (i + 1) := by
        rw [sins_length_of_not_mem _ _ hnot, h1]; omega
      have hrs2 : ∀ y ∈ sins (s + (i : Rat) * (2 * half) + half) rs,
          Lat c half y ∧ (Lat c (2 * half) y ∨ y < s + ((i + 1 : Nat) : Rat) * (2 * half)) := by
        intro y hy
        rcases (mem_sins _ _ _).mp hy with rfl | hy
        · refine ⟨⟨_, hxh⟩, Or.inr ?_⟩
          push_cast; linarith
        · refine ⟨(h2 y hy).1, ?_⟩
          rcases (h2 y hy).2 with hl | hl
          · exact Or.inl hl
          · right; push_cast; linarith
      unfold passStep
      simp only [ap_length]
      rw [if_pos (by omega), hx]
      by_cases hc : keep = true ∧ (st : Int) ≤ (i : Int) ∧ (i : Int) < (et : Int)
      · rw [if_pos hc]
        refine ⟨_, rfl, hrs, hrs2, ?_, ?_⟩
        · simp only
          have hk : keptN keep st et (i + 1) = keptN keep st et i + 1 := by
            simp only [keptN, hc.1, if_true]; omega
          have hk0 : keptN keep st et i = i - st := by
            simp only [keptN, hc.1, if_true]; omega
          have e2 : 2 * (keptN keep st et i + 1) = 2 * keptN keep st et i + 1 + 1 := by ring
          rw [hk, e2, ap_succ, ap_succ, h3]
          have hi_st : ((i - st : Nat) : Rat) = (i : Rat) - (st : Rat) := by
            rw [Nat.cast_sub (by omega)]
          have ex : s + (i : Rat) * (2 * half)
              = s + (st : Rat) * (2 * half) + ((2 * keptN keep st et i : Nat) : Rat) * half := by
            rw [hk0]; push_cast; rw [hi_st]; ring
          have ex2 : s + (i : Rat) * (2 * half) + half
              = s + (st : Rat) * (2 * half) + ((2 * keptN keep st et i + 1 : Nat) : Rat) * half := by
            rw [hk0]; push_cast; rw [hi_st]; ring
          rw [sins_append (s + (i : Rat) * (2 * half)), sins_append, ← ex, ← ex2]
          · intro y hy
            rcases List.mem_append.mp hy with hy | hy
            · have := ap_mem_lt _ _ _ hh y hy
              rw [← ex] at this; linarith
            · simp only [List.mem_singleton] at hy; rw [hy]; linarith
          · intro y hy
            have := ap_mem_lt _ _ _ hh y hy
            rw [← ex] at this; exact this
        · simp only
          have hk : keptN keep st et (i + 1) = keptN keep st et i + 1 := by
            simp only [keptN, hc.1, if_true]; omega
          rw [h4, hk]; push_cast; ring
      · rw [if_neg hc]
        have hk : keptN keep st et (i + 1) = keptN keep st et i := by
          unfold keptN
          by_cases hkeep : keep = true
          · rw [if_pos hkeep, if_pos hkeep]
            have : ¬ ((st : Int) ≤ (i : Int) ∧ (i : Int) < (et : Int)) := fun h => hc ⟨hkeep, h⟩
            omega
          · rw [if_neg hkeep, if_neg hkeep]
        refine ⟨_, rfl, hrs, hrs2, ?_, ?_⟩
        · simp only; rw [hk]; exact h3
        · simp only; rw [hk]; exact h4)
  simp only at h1 h2 h3 h4
  refine ⟨rs, ?_, h1, fun y hy => (h2 y hy).1⟩
  rw [hfold, h3, h4]

end GridGenL
