import GMGProofs.Lemmas.DirectCode2
/-!
# Code-level direct solver, lemmas 3 — the dense meaning of a stored row, and the operator's entries

* `den_nodeRow`: a row of stores to pairwise distinct grid nodes reads, at column `(s, t)`, the sum of
  `value · oneHot s t node`;
* `writes_nodes`: the nodes a grid node stores to are pairwise distinct grid columns (`4 ≤ nt`, `nt` even: the antipode
  `ja j` of the across-origin row differs from `j`, `jm j`, `jp j`);
* `row_entries`: the dense row of node `(i, j)` is the operator's row.
-/
set_option linter.unusedSectionVars false
set_option linter.unusedVariables false
namespace DirectCode
open Stencil SparseLU Direct
variable {K : Type} [_root_.Field K]

theorem idx_inj {nt a b s t : Nat} (hb : b < nt) (ht : t < nt) (h : a * nt + b = s * nt + t) : a = s ∧ b = t := by
  have hpos : 0 < nt := by omega
  have h1 : ∀ x y, y < nt → (x * nt + y) / nt = x := fun x y hy => by
    rw [Nat.mul_comm, Nat.mul_add_div hpos, Nat.div_eq_of_lt hy, Nat.add_zero]
  have h2 : ∀ x y, y < nt → (x * nt + y) % nt = y := fun x y hy => by
    rw [Nat.mul_comm, Nat.mul_add_mod, Nat.mod_eq_of_lt hy]
  exact ⟨by rw [← h1 a b hb, h, h1 s t ht], by rw [← h2 a b hb, h, h2 s t ht]⟩

/-- the nodes a list of stores addresses -/
def nodes (ws : List (Pos × (Nat × Nat) × K)) : List (Nat × Nat) := ws.map (·.2.1)

theorem uniq_nodeRow (o : Op K) (ws : List (Pos × (Nat × Nat) × K))
    (hlt : ∀ w ∈ ws, w.2.1.2 < o.nt) (hnd : (nodes ws).Nodup) : Uniq (nodeRow o ws) := by
  unfold Uniq keys nodeRow
  rw [List.map_map]
  have : ((fun x : Nat × K => x.1) ∘ fun w : Pos × (Nat × Nat) × K => (w.2.1.1 * o.nt + w.2.1.2, w.2.2))
      = (fun c : Nat × Nat => c.1 * o.nt + c.2) ∘ (·.2.1) := rfl
  rw [this, ← List.map_map]
  apply List.Nodup.map_on _ hnd
  intro c hc c' hc' h
  obtain ⟨w, hw, rfl⟩ := List.mem_map.mp hc
  obtain ⟨w', hw', rfl⟩ := List.mem_map.mp hc'
  have := idx_inj (hlt w hw) (hlt w' hw') h
  exact Prod.ext this.1 this.2

theorem den_nodeRow (o : Op K) (s t : Nat) (ht : t < o.nt) (ws : List (Pos × (Nat × Nat) × K))
    (hlt : ∀ w ∈ ws, w.2.1.2 < o.nt) (hnd : (nodes ws).Nodup) :
    den (nodeRow o ws) (s * o.nt + t) = (ws.map fun w => w.2.2 * oneHot s t w.2.1.1 w.2.1.2).sum := by
  induction ws with
  | nil => simp [nodeRow]
  | cons w ws ih =>
    have hnd' : w.2.1 ∉ nodes ws ∧ (nodes ws).Nodup := List.nodup_cons.mp hnd
    have ih' := ih (fun q hq => hlt q (List.mem_cons_of_mem _ hq)) hnd'.2
    show den ((w.2.1.1 * o.nt + w.2.1.2, w.2.2) :: nodeRow o ws) (s * o.nt + t) = _
    rw [den_cons, List.map_cons, List.sum_cons]
    by_cases hc : w.2.1.1 * o.nt + w.2.1.2 = s * o.nt + t
    · rw [if_pos hc]
      have hst := idx_inj (hlt w (List.mem_cons_self ..)) ht hc
      have hz : (ws.map fun w => w.2.2 * oneHot s t w.2.1.1 w.2.1.2).sum = 0 := by
        apply List.sum_eq_zero
        intro x hx
        obtain ⟨q, hq, rfl⟩ := List.mem_map.mp hx
        have : ¬ (q.2.1.1 = s ∧ q.2.1.2 = t) := by
          rintro ⟨h1, h2⟩
          apply hnd'.1
          have : w.2.1 = q.2.1 := Prod.ext (by rw [hst.1, h1]) (by rw [hst.2, h2])
          rw [this]; exact List.mem_map.mpr ⟨q, hq, rfl⟩
        simp only [oneHot, if_neg this, mul_zero]
      rw [hz]
      simp only [oneHot, if_pos hst, mul_one, add_zero]
    · rw [if_neg hc, ih']
      have : ¬ (w.2.1.1 = s ∧ w.2.1.2 = t) := by rintro ⟨h1, h2⟩; exact hc (by rw [h1, h2])
      simp only [oneHot, if_neg this, mul_zero, zero_add]

section
variable (o : Op K)

/-- `jm j`, `j`, `jp j` are pairwise distinct grid indices when `3 ≤ nt` -/
theorem jmp_distinct (hnt : 3 ≤ o.nt) {j : Nat} (hj : j < o.nt) :
    jm o j < o.nt ∧ jp o j < o.nt ∧ jm o j ≠ j ∧ jp o j ≠ j ∧ jm o j ≠ jp o j := by
  rw [jm_eq o hj, jp_eq o hj]
  split <;> split <;> omega

/-- … and the antipode differs from all three when `4 ≤ nt`, `nt` even -/
theorem ja_distinct (hnt : 4 ≤ o.nt) (heven : o.nt % 2 = 0) {j : Nat} (hj : j < o.nt) :
    ja o j < o.nt ∧ ja o j ≠ j ∧ ja o j ≠ jm o j ∧ ja o j ≠ jp o j := by
  rw [jm_eq o hj, jp_eq o hj, ja_eq o heven hj]
  split <;> split <;> split <;> omega

/-- the stores of a grid node address pairwise distinct grid columns -/
theorem writes_nodes (hnr : 4 ≤ o.nr) (hnt : 4 ≤ o.nt) (heven : o.nt % 2 = 0) {i j : Nat} (hi : i < o.nr)
    (hj : j < o.nt) : (∀ w ∈ writes o i j, w.2.1.2 < o.nt) ∧ (nodes (writes o i j)).Nodup := by
  obtain ⟨hm, hp, h1, h2, h3⟩ := jmp_distinct o (by omega) hj
  obtain ⟨ha, h4, h5, h6⟩ := ja_distinct o hnt heven hj
  by_cases hint : 0 < i ∧ i + 1 < o.nr
  · rw [writes_int o j hint]
    constructor
    · intro w hw
      simp only [List.mem_cons, List.not_mem_nil, or_false] at hw
      rcases hw with rfl | rfl | rfl | rfl | rfl | rfl | rfl | rfl | rfl <;> assumption
    · generalize jm o j = x at *
      generalize jp o j = y at *
      simp only [nodes, List.map_cons, List.map_nil, List.nodup_cons, List.mem_cons, List.not_mem_nil,
        Prod.mk.injEq, or_false, not_or, List.nodup_nil, and_true, true_and, not_false_eq_true]
      omega
  · by_cases h0 : i = 0
    · subst h0
      by_cases hb : o.bc = true
      · rw [writes_inner_db o j hb]
        exact ⟨by intro w hw; simp only [List.mem_singleton] at hw; subst hw; exact hj, by simp [nodes]⟩
      · have hb' : o.bc = false := by simpa using hb
        rw [writes_origin o j (by omega) hb']
        constructor
        · intro w hw
          simp only [List.mem_cons, List.not_mem_nil, or_false] at hw
          rcases hw with rfl | rfl | rfl | rfl | rfl | rfl | rfl <;> assumption
        · generalize jm o j = x at *
          generalize jp o j = y at *
          generalize ja o j = z at *
          simp only [nodes, List.map_cons, List.map_nil, List.nodup_cons, List.mem_cons, List.not_mem_nil,
            Prod.mk.injEq, or_false, not_or, List.nodup_nil, and_true, true_and, not_false_eq_true]
          omega
    · rw [writes_outer o j (by omega) (by omega)]
      exact ⟨by intro w hw; simp only [List.mem_singleton] at hw; subst hw; exact hj, by simp [nodes]⟩

/-- **the dense row of node `(i, j)` is the operator's row** -/
theorem row_entries (hnr : 4 ≤ o.nr) (hnt : 4 ≤ o.nt) (heven : o.nt % 2 = 0) {i j s t : Nat} (hi : i < o.nr)
    (hj : j < o.nt) (ht : t < o.nt) :
    den (nodeRow o (writes o i j)) (s * o.nt + t) = opEntry o i j s t := by
  obtain ⟨hlt, hnd⟩ := writes_nodes o hnr hnt heven hi hj
  rw [den_nodeRow o s t ht _ hlt hnd]
  unfold opEntry A take
  by_cases hint : 0 < i ∧ i + 1 < o.nr
  · rw [writes_int o j hint, if_pos hint]
    simp only [List.map_cons, List.map_nil, List.sum_cons, List.sum_nil, takeInterior, centerValueD,
      SmootherCode.leftValue, SmootherCode.rightValue, SmootherCode.bottomValue, SmootherCode.topValue,
      SmootherCode.coeff1, SmootherCode.coeff2, SmootherCode.coeff3, SmootherCode.coeff4, SmootherCode.h1,
      if_neg (Nat.pos_iff_ne_zero.mp hint.1)]
    ring
  · rw [if_neg hint]
    by_cases h0 : i = 0
    · subst h0
      rw [if_pos rfl]
      by_cases hb : o.bc = true
      · rw [writes_inner_db o j hb, if_pos hb]
        simp only [List.map_cons, List.map_nil, List.sum_cons, List.sum_nil, Scalar.n_one]
        ring
      · have hb' : o.bc = false := by simpa using hb
        rw [writes_origin o j (by omega) hb', if_neg hb]
        simp only [List.map_cons, List.map_nil, List.sum_cons, List.sum_nil, takeOrigin, centerValueD,
          SmootherCode.leftValue, SmootherCode.rightValue, SmootherCode.bottomValue, SmootherCode.topValue,
          SmootherCode.coeff1, SmootherCode.coeff2, SmootherCode.coeff3, SmootherCode.coeff4, SmootherCode.h1,
          if_pos]
        ring
    · rw [if_neg h0, writes_outer o j (by omega) (by omega)]
      simp only [List.map_cons, List.map_nil, List.sum_cons, List.sum_nil, Scalar.n_one]
      ring

end
end DirectCode
