import GMGProofs.Lemmas.GridGenBasic
/-!
# `divideVector`: closed form, nesting, uniform subdivision
-/
namespace GridGenL
open GridGen

/-- closed form of entry `k` of `divideVector v d` with `pw = 2^d` -/
def dv (v : List Rat) (pw k : Nat) : Rat :=
  v.getD (k / pw) 0 + ((k % pw : Nat) : Rat) * (v.getD (k / pw + 1) 0 - v.getD (k / pw) 0) / (pw : Rat)

theorem flatMap_range (n m : Nat) (g : Nat → Nat → Rat) :
    ((List.range n).flatMap fun i => (List.range m).map (g i))
      = (List.range (n * m)).map fun k => g (k / m) (k % m) := by
  induction n with
  | zero => simp
  | succ n ih =>
    rw [List.range_succ, List.flatMap_append, ih, Nat.succ_mul, List.range_add, List.map_append]
    congr 1
    simp only [List.flatMap_cons, List.flatMap_nil, List.append_nil, List.map_map]
    apply List.map_congr_left
    intro x hx
    have hx : x < m := List.mem_range.mp hx
    have hm : 0 < m := by omega
    simp only [Function.comp]
    rw [Nat.mul_comm n m, Nat.mul_add_div hm, Nat.div_eq_of_lt hx, Nat.mul_add_mod, Nat.mod_eq_of_lt hx]
    simp

theorem divideVector_eq (v : List Rat) (d : Nat) (hv : 0 < v.length) :
    divideVector v d = (List.range ((v.length - 1) * 2 ^ d + 1)).map (dv v (2 ^ d)) := by
  have hp : 0 < 2 ^ d := Nat.pos_of_ne_zero (by positivity)
  unfold divideVector
  cases v with
  | nil => simp at hv
  | cons a t =>
    simp only
    rw [List.range_succ, List.map_append]
    congr 1
    · rw [flatMap_range]
      apply List.map_congr_left
      intro k _
      unfold dv
      simp only [Int.cast_natCast]
    · simp only [List.map_cons, List.map_nil, List.cons.injEq, and_true]
      unfold dv
      rw [Nat.mul_div_cancel _ hp, Nat.mul_mod_left, getLastD_eq_getD _ (by simp)]
      simp

theorem divideVector_length (v : List Rat) (d : Nat) (hv : 0 < v.length) :
    (divideVector v d).length = (v.length - 1) * 2 ^ d + 1 := by
  rw [divideVector_eq v d hv]; simp

theorem divideVector_getD (v : List Rat) (d k : Nat) (hv : 0 < v.length) (hk : k ≤ (v.length - 1) * 2 ^ d) :
    (divideVector v d).getD k 0 = dv v (2 ^ d) k := by
  rw [divideVector_eq v d hv, getD_map_range _ _ _ (by omega)]

/-- `dv` in (interval, offset) coordinates; the offset may be the right end `j = pw` -/
theorem dv_split (v : List Rat) (pw i j : Nat) (hp : 0 < pw) (hj : j ≤ pw) :
    dv v pw (i * pw + j) = v.getD i 0 + (j : Rat) * (v.getD (i + 1) 0 - v.getD i 0) / (pw : Rat) := by
  have hpq : (pw : Rat) ≠ 0 := by positivity
  rcases Nat.lt_or_ge j pw with h | h
  · unfold dv
    rw [Nat.mul_comm i pw, Nat.mul_add_div hp, Nat.div_eq_of_lt h, Nat.mul_add_mod, Nat.mod_eq_of_lt h]
    simp
  · have : j = pw := by omega
    subst this
    have e : i * j + j = (i + 1) * j := by ring
    unfold dv
    rw [e, Nat.mul_div_cancel _ hp, Nat.mul_mod_left]
    field_simp
    simp only [List.getD_eq_getElem?_getD, Nat.cast_zero, zero_mul, add_zero]
    ring

/-- coarse entries: entry `2^d * i` is `v[i]` -/
theorem divideVector_coarse (v : List Rat) (d i : Nat) (hi : i < v.length) :
    (divideVector v d).getD (2 ^ d * i) 0 = v.getD i 0 := by
  have hp : 0 < 2 ^ d := Nat.pos_of_ne_zero (by positivity)
  rw [divideVector_getD v d _ (by omega) (by rw [Nat.mul_comm]; exact Nat.mul_le_mul_right _ (by omega))]
  have := dv_split v (2 ^ d) i 0 hp (by omega)
  rw [Nat.mul_comm]
  simpa using this

theorem divideVector_zero (v : List Rat) : divideVector v 0 = v := by
  cases v with
  | nil => simp [divideVector]
  | cons a t =>
    apply ext_getD
    · rw [divideVector_length _ _ (by simp)]; simp
    · intro i hi
      rw [divideVector_length _ _ (by simp)] at hi
      have := divideVector_coarse (a :: t) 0 i (by simpa using hi)
      simpa using this

theorem split_div (q P : Nat) (hP : 0 < P) : ∃ A r, r < P ∧ q = A * P + r :=
  ⟨q / P, q % P, Nat.mod_lt _ hP, by rw [Nat.mul_comm]; exact (Nat.div_add_mod q P).symm⟩

theorem dv_even (v : List Rat) (P k : Nat) (hP : 0 < P) : dv v (P * 2) (2 * k) = dv v P k := by
  obtain ⟨A, r, hr, rfl⟩ := split_div k P hP
  have hpq : (P : Rat) ≠ 0 := by positivity
  have e : 2 * (A * P + r) = A * (P * 2) + 2 * r := by ring
  rw [e, dv_split v _ _ _ (by omega) (by omega), dv_split v _ _ _ hP (by omega)]
  push_cast
  field_simp

theorem dv_mid (v : List Rat) (P q : Nat) (hP : 0 < P) :
    dv v (P * 2) (2 * q + 1) = (dv v (P * 2) (2 * q) + dv v (P * 2) (2 * q + 2)) / 2 := by
  obtain ⟨A, r, hr, rfl⟩ := split_div q P hP
  have e0 : 2 * (A * P + r) = A * (P * 2) + 2 * r := by ring
  have e1 : 2 * (A * P + r) + 1 = A * (P * 2) + (2 * r + 1) := by ring
  have e2 : 2 * (A * P + r) + 2 = A * (P * 2) + (2 * r + 2) := by ring
  rw [e1, e2, e0, dv_split v _ _ _ (by omega) (by omega), dv_split v _ _ _ (by omega) (by omega),
    dv_split v _ _ _ (by omega) (by omega)]
  push_cast
  ring

/-- nesting: the even entries of the `(d+1)`-fold division are the `d`-fold division -/
theorem divideVector_even (v : List Rat) (d k : Nat) (hv : 0 < v.length) (hk : k ≤ (v.length - 1) * 2 ^ d) :
    (divideVector v (d + 1)).getD (2 * k) 0 = (divideVector v d).getD k 0 := by
  have hp : 0 < 2 ^ d := Nat.pos_of_ne_zero (by positivity)
  have hk2 : 2 * k ≤ (v.length - 1) * 2 ^ (d + 1) := by
    rw [pow_succ, ← Nat.mul_assoc]; omega
  rw [divideVector_getD v d k hv hk, divideVector_getD v (d + 1) (2 * k) hv hk2, pow_succ, dv_even v _ _ hp]

/-- uniform subdivision: odd entries of the `(d+1)`-fold division are midpoints of their neighbours -/
theorem divideVector_midpoints (v : List Rat) (d : Nat) : Midpoints (divideVector v (d + 1)) := by
  intro i hi hlen
  have hp : 0 < 2 ^ d := Nat.pos_of_ne_zero (by positivity)
  have hv : 0 < v.length := by
    cases v with
    | nil => simp [divideVector] at hlen
    | cons a t => simp
  rw [divideVector_length _ _ hv] at hlen
  obtain ⟨q, rfl⟩ : ∃ q, i = 2 * q + 1 := ⟨i / 2, by omega⟩
  rw [divideVector_getD _ _ _ hv (by omega), divideVector_getD _ _ _ hv (by omega),
    divideVector_getD _ _ _ hv (by omega), pow_succ]
  exact dv_mid v _ q hp

theorem divideVector_strictInc (v : List Rat) (d : Nat) (hv : StrictInc v) : StrictInc (divideVector v d) := by
  have hp : 0 < 2 ^ d := Nat.pos_of_ne_zero (by positivity)
  have hpq : (0 : Rat) < ((2 ^ d : Nat) : Rat) := by positivity
  cases hvl : v with
  | nil => simp [divideVector, StrictInc]
  | cons a t =>
    rw [← hvl]
    have hv0 : 0 < v.length := by rw [hvl]; simp
    apply strictInc_of_step
    intro k hk
    rw [divideVector_length _ _ hv0] at hk
    rw [divideVector_getD _ _ _ hv0 (by omega), divideVector_getD _ _ _ hv0 (by omega)]
    have hm := Nat.mod_lt k hp
    have hq : k = (k / 2 ^ d) * 2 ^ d + k % 2 ^ d := by rw [Nat.mul_comm]; exact (Nat.div_add_mod k _).symm
    have hi : k / 2 ^ d + 1 < v.length := by
      have : k / 2 ^ d < v.length - 1 := by
        rw [Nat.div_lt_iff_lt_mul hp]; omega
      omega
    have e1 : k + 1 = (k / 2 ^ d) * 2 ^ d + (k % 2 ^ d + 1) := by omega
    rw [e1, dv_split v _ _ _ hp (by omega)]
    conv_lhs => rw [hq, dv_split v _ _ _ hp (by omega)]
    have hlt := hv.lt (i := k / 2 ^ d) (j := k / 2 ^ d + 1) (by omega) hi
    have : 0 < (v.getD (k / 2 ^ d + 1) 0 - v.getD (k / 2 ^ d) 0) / ((2 ^ d : Nat) : Rat) := by
      apply div_pos <;> linarith
    push_cast at this ⊢
    have e : ((k % 2 ^ d : Nat) + 1 : Rat) * (v.getD (k / 2 ^ d + 1) 0 - v.getD (k / 2 ^ d) 0) / 2 ^ d
        = ((k % 2 ^ d : Nat) : Rat) * (v.getD (k / 2 ^ d + 1) 0 - v.getD (k / 2 ^ d) 0) / 2 ^ d
          + (v.getD (k / 2 ^ d + 1) 0 - v.getD (k / 2 ^ d) 0) / 2 ^ d := by ring
    rw [e]
    linarith

theorem divideVector_first (v : List Rat) (d : Nat) (hv : 0 < v.length) :
    (divideVector v d).getD 0 0 = v.getD 0 0 := by
  simpa using divideVector_coarse v d 0 hv

theorem divideVector_last (v : List Rat) (d : Nat) (hv : 0 < v.length) :
    (divideVector v d).getD ((divideVector v d).length - 1) 0 = v.getD (v.length - 1) 0 := by
  rw [divideVector_length _ _ hv, Nat.add_sub_cancel, Nat.mul_comm]
  exact divideVector_coarse v d _ (by omega)

end GridGenL
