import GMGProofs.Lemmas.GridGenBasic
/-!
# `chooseNumberOfLevels`
-/
namespace GridGenL
open GridGen

/-- radial size after `l` coarsenings (`n ↦ (n+1)/2`) -/
def coarsenR : Nat → Nat → Nat
  | 0, n => n
  | l + 1, n => coarsenR l ((n + 1) / 2)
/-- angular size after `l` coarsenings (`n ↦ n/2`) -/
def coarsenT : Nat → Nat → Nat
  | 0, n => n
  | l + 1, n => coarsenT l (n / 2)

theorem radialMax_pos (fuel n : Nat) : 1 ≤ radialMax fuel n := by
  cases fuel with
  | zero => simp [radialMax]
  | succ f => unfold radialMax; split <;> omega

theorem angularMax_pos (fuel n : Nat) : 1 ≤ angularMax fuel n := by
  cases fuel with
  | zero => simp [angularMax]
  | succ f => unfold angularMax; split <;> omega

theorem radialMax_spec (fuel : Nat) : ∀ n L, L ≤ radialMax fuel n → ∀ l, l + 1 < L →
    coarsenR l n % 2 = 1 ∧ 5 ≤ coarsenR (l + 1) n := by
  induction fuel with
  | zero => intro n L hL l hl; simp [radialMax] at hL; omega
  | succ f ih =>
    intro n L hL l hl
    unfold radialMax at hL
    split at hL
    · rename_i hc
      cases l with
      | zero => simp only [coarsenR]; omega
      | succ l =>
        have := ih ((n + 1) / 2) (L - 1) (by omega) l (by omega)
        simpa [coarsenR] using this
    · omega

theorem angularMax_spec (fuel : Nat) : ∀ n L, L ≤ angularMax fuel n → ∀ l, l + 1 < L →
    coarsenT l n % 4 = 0 ∧ 4 ≤ coarsenT (l + 1) n := by
  induction fuel with
  | zero => intro n L hL l hl; simp [angularMax] at hL; omega
  | succ f ih =>
    intro n L hL l hl
    unfold angularMax at hL
    split at hL
    · rename_i hc
      cases l with
      | zero => simp only [coarsenT]; omega
      | succ l =>
        have := ih (n / 2) (L - 1) (by omega) l (by omega)
        simpa [coarsenT] using this
    · omega

/-- the candidate level count before the minimum-level test -/
def lv (nr nt : Nat) (maxLevels : Int) : Nat :=
  if maxLevels > 0 then min maxLevels.toNat (min (radialMax nr nr) (angularMax nt nt))
  else min (radialMax nr nr) (angularMax nt nt)

theorem chooseLevels_def (nr nt : Nat) (maxLevels : Int) :
    chooseLevels nr nt maxLevels =
      if lv nr nt maxLevels < 2 then .throw "Number of possible levels is less than Multigrid minimum level"
      else .ok (lv nr nt maxLevels) := rfl

theorem lv_le (nr nt : Nat) (maxLevels : Int) :
    lv nr nt maxLevels ≤ radialMax nr nr ∧ lv nr nt maxLevels ≤ angularMax nt nt := by
  unfold lv; split <;> omega

theorem chooseLevels_ok {nr nt : Nat} {maxLevels : Int} {L : Nat} (h : chooseLevels nr nt maxLevels = .ok L) :
    2 ≤ L ∧ L ≤ radialMax nr nr ∧ L ≤ angularMax nt nt := by
  rw [chooseLevels_def] at h
  have := lv_le nr nt maxLevels
  by_cases hl : lv nr nt maxLevels < 2
  · rw [if_pos hl] at h; cases h
  · rw [if_neg hl] at h
    injection h with h
    subst h
    omega

theorem chooseLevels_cases (nr nt : Nat) (maxLevels : Int) :
    (∃ L, chooseLevels nr nt maxLevels = .ok L) ∨ (∃ m, chooseLevels nr nt maxLevels = .throw m) := by
  rw [chooseLevels_def]
  by_cases hl : lv nr nt maxLevels < 2
  · rw [if_pos hl]; exact Or.inr ⟨_, rfl⟩
  · rw [if_neg hl]; exact Or.inl ⟨_, rfl⟩

end GridGenL
