import GMGProofs.Lemmas.SymPde
import Mathlib.Analysis.SpecialFunctions.Trigonometric.Arctan
import Mathlib.Analysis.SpecialFunctions.Trigonometric.Bounds
import Mathlib.Analysis.Real.Pi.Bounds
/-!
# Domain facts for the shipped geometries and coefficient profiles (C19)

* `czRad` — the radicand `1 + ε(ε + 2 (r/Rmax) cos θ)` of the Czarny mapping; positive and `< 4` for `0 < ε < 1`, `|r/Rmax| ≤ 1`,
* `arctan_ten_thirds_lt` — the numeric bound behind the positivity of the Sonnendrücker profile on `r/Rmax ≤ 1`.
-/
namespace Sym

/-- radicand of the Czarny mapping, `env 0 = Rmax`, `env 1 = ε` -/
noncomputable def czRad (env : Nat → ℝ) (r th : ℝ) : ℝ := 1 + env 1 * (env 1 + 2 * (r / env 0) * Real.cos th)

theorem czRad_bounds {env : Nat → ℝ} {r th : ℝ} (he0 : 0 < env 1) (hr : |r / env 0| ≤ 1) :
    (1 - env 1) ^ 2 ≤ czRad env r th ∧ czRad env r th ≤ (1 + env 1) ^ 2 := by
  have hc : |r / env 0 * Real.cos th| ≤ 1 := by
    rw [abs_mul]
    calc |r / env 0| * |Real.cos th| ≤ 1 * 1 :=
          mul_le_mul hr (Real.abs_cos_le_one th) (abs_nonneg _) (by norm_num)
      _ = 1 := by norm_num
  obtain ⟨h1, h2⟩ := abs_le.mp hc
  unfold czRad
  constructor <;> nlinarith

theorem czRad_pos {env : Nat → ℝ} {r th : ℝ} (he0 : 0 < env 1) (he1 : env 1 < 1) (hr : |r / env 0| ≤ 1) :
    0 < czRad env r th := by
  have h := (czRad_bounds (th := th) he0 hr).1
  have : 0 < (1 - env 1) ^ 2 := by
    have : 0 < 1 - env 1 := by linarith
    positivity
  linarith

theorem sqrt_czRad_lt_two {env : Nat → ℝ} {r th : ℝ} (he0 : 0 < env 1) (he1 : env 1 < 1) (hr : |r / env 0| ≤ 1) :
    Real.sqrt (czRad env r th) < 2 := by
  have h := (czRad_bounds (th := th) he0 hr).2
  have h4 : czRad env r th < 2 ^ 2 := by nlinarith
  exact (Real.sqrt_lt' (by norm_num)).mpr h4

theorem abs_rho_le_one {r R : ℝ} (hR : 0 < R) (h0 : 0 ≤ r) (h1 : r ≤ R) : |r / R| ≤ 1 := by
  rw [abs_of_nonneg (div_nonneg h0 hR.le)]
  exact (div_le_one hR).mpr h1

/-- `arctan (10/3) < 1.2858` (true value 1.27934…): from `tan 0.285 < 3/10` and `π < 3.1416` -/
theorem arctan_ten_thirds_lt : Real.arctan (10 / 3) < 1.2858 := by
  have hpi := Real.pi_gt_three
  have hpi' := Real.pi_lt_d4
  have hc0 : (0 : ℝ) < 0.285 := by norm_num
  have hcpi : (0.285 : ℝ) < Real.pi / 2 := by linarith
  have hcos : 0 < Real.cos 0.285 := Real.cos_pos_of_mem_Ioo ⟨by linarith, hcpi⟩
  have hsin : Real.sin 0.285 < 0.285 := Real.sin_lt hc0
  have hcos' : 1 - (0.285 : ℝ) ^ 2 / 2 ≤ Real.cos 0.285 := Real.one_sub_sq_div_two_le_cos
  have htan : Real.tan 0.285 < 3 / 10 := by
    rw [Real.tan_eq_sin_div_cos, div_lt_iff₀ hcos]
    nlinarith
  have h1 : (0.285 : ℝ) < Real.arctan (3 / 10) := by
    have := Real.arctan_strictMono htan
    rwa [Real.arctan_tan (by linarith) hcpi] at this
  have h2 : Real.arctan (10 / 3) = Real.pi / 2 - Real.arctan (3 / 10) := by
    have := Real.arctan_inv_of_pos (x := 3 / 10) (by norm_num)
    rw [← this]; norm_num
  rw [h2]
  linarith

end Sym
