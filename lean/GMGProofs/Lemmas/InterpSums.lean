import Mathlib.Algebra.BigOperators.Group.Finset.Basic
import Mathlib.Algebra.BigOperators.Intervals
import Mathlib.Algebra.BigOperators.Ring.Finset
import Mathlib.Tactic.Abel
/-!
# Reindexing lemmas for the transfer operators (C08)

Parity splits of the fine index ranges (`2m+1` radial nodes, `2q` angular nodes), the one-sided shifts of the
radial direction, the cyclic shift of the angular direction, and the wrapped-index arithmetic (`% n` with a
variable modulus, which `omega` does not do).
-/
open Finset

namespace InterpSums

/-! ### wrapped indices -/

theorem mod_of_add (a r n : ℕ) (h : a = r + n) (hr : r < n) : a % n = r := by
  subst h; rw [Nat.add_mod_right, Nat.mod_eq_of_lt hr]

theorem mod_of_lt (a r n : ℕ) (h : a = r) (hr : r < n) : a % n = r := by
  subst h; exact Nat.mod_eq_of_lt hr

/-- `(j + n - 1) % n = j - 1` for `0 < j < n` -/
theorem wrap_pred (j n : ℕ) (h0 : 0 < j) (hj : j < n) : (j + n - 1) % n = j - 1 :=
  mod_of_add _ _ _ (by omega) (by omega)

/-- `(J + 1) % q` by cases -/
theorem succ_mod_cases (J q : ℕ) (hJ : J < q) :
    (J + 1 < q ∧ (J + 1) % q = J + 1) ∨ (J + 1 = q ∧ (J + 1) % q = 0) := by
  by_cases h : J + 1 < q
  · exact Or.inl ⟨h, Nat.mod_eq_of_lt h⟩
  · have : J + 1 = q := by omega
    exact Or.inr ⟨this, by rw [this, Nat.mod_self]⟩

/-- the fine node left of the (wrapped) next coarse node is `2J+1` -/
theorem wrapM1_succ (J q : ℕ) (hJ : J < q) : (2 * ((J + 1) % q) + 2 * q - 1) % (2 * q) = 2 * J + 1 := by
  rcases succ_mod_cases J q hJ with ⟨h, e⟩ | ⟨h, e⟩ <;> rw [e]
  · exact mod_of_add _ _ _ (by omega) (by omega)
  · exact mod_of_lt _ _ _ (by omega) (by omega)

theorem wrapM2_succ (J q : ℕ) (hJ : J < q) : (2 * ((J + 1) % q) + 2 * q - 2) % (2 * q) = 2 * J := by
  rcases succ_mod_cases J q hJ with ⟨h, e⟩ | ⟨h, e⟩ <;> rw [e]
  · exact mod_of_add _ _ _ (by omega) (by omega)
  · exact mod_of_lt _ _ _ (by omega) (by omega)

theorem wrapP1 (J q : ℕ) (hJ : J < q) : (2 * J + 1) % (2 * q) = 2 * J + 1 :=
  Nat.mod_eq_of_lt (by omega)

theorem wrapM1_odd (J q : ℕ) (hJ : J < q) : (2 * J + 1 + 2 * q - 1) % (2 * q) = 2 * J :=
  mod_of_add _ _ _ (by omega) (by omega)

/-! ### sums -/
variable {K : Type} [AddCommMonoid K]

theorem sum_odd_split (f : ℕ → K) : ∀ m : ℕ,
    ∑ i ∈ range (2 * m + 1), f i = ∑ I ∈ range (m + 1), f (2 * I) + ∑ I ∈ range m, f (2 * I + 1)
  | 0 => by simp
  | m + 1 => by
      have ih := sum_odd_split f m
      have e : 2 * (m + 1) + 1 = (2 * m + 1) + 1 + 1 := by omega
      rw [e, Finset.sum_range_succ, Finset.sum_range_succ, ih,
        Finset.sum_range_succ (fun I => f (2 * I)) (m + 1), Finset.sum_range_succ (fun I => f (2 * I + 1)) m]
      have a1 : 2 * m + 1 + 1 = 2 * (m + 1) := by omega
      rw [a1]
      abel

theorem sum_even_split (f : ℕ → K) : ∀ q : ℕ,
    ∑ j ∈ range (2 * q), f j = ∑ J ∈ range q, f (2 * J) + ∑ J ∈ range q, f (2 * J + 1)
  | 0 => by simp
  | q + 1 => by
      have ih := sum_even_split f q
      have e : 2 * (q + 1) = 2 * q + 1 + 1 := by omega
      rw [e, Finset.sum_range_succ, Finset.sum_range_succ, ih,
        Finset.sum_range_succ (fun I => f (2 * I)) q, Finset.sum_range_succ (fun I => f (2 * I + 1)) q]
      abel

/-- "left neighbour" part: present for `I > 0` -/
theorem sum_left (f : ℕ → K) (m : ℕ) :
    ∑ I ∈ range (m + 1), (if I > 0 then f I else 0) = ∑ I ∈ range m, f (I + 1) := by
  rw [Finset.sum_range_succ']
  simp

/-- "right neighbour" part: present for `I + 1 < nrC` -/
theorem sum_right (f : ℕ → K) (m : ℕ) :
    ∑ I ∈ range (m + 1), (if I + 1 < m + 1 then f I else 0) = ∑ I ∈ range m, f I := by
  rw [Finset.sum_range_succ]
  simp only [lt_irrefl, if_false, add_zero]
  apply Finset.sum_congr rfl
  intro I hI
  have : I + 1 < m + 1 := by simp at hI; omega
  simp [this]

/-- cyclic shift -/
theorem sum_shift (n : ℕ) (g : ℕ → K) :
    ∑ j ∈ range n, g ((j + 1) % n) = ∑ j ∈ range n, g j := by
  rcases n with _ | m
  · simp
  rw [Finset.sum_range_succ, Finset.sum_range_succ']
  have h1 : ∀ j ∈ range m, g ((j + 1) % (m + 1)) = g (j + 1) := by
    intro j hj; rw [Nat.mod_eq_of_lt]; simp at hj; omega
  rw [Finset.sum_congr rfl h1]
  simp

end InterpSums
