import GMGProofs.Lemmas.SmootherGiveCode2
/-!
# Code-level smoother (give), lemmas 3 — every stored array of the give assembly is the array of the take assembly

Summing the shares of lemmas 2 over the grid (`slotVal_allUpdates`) with the single-giver sums of lemmas 1 gives every cell in
closed form; the gather value of `SmootherCode` is the same field element because the geometric factors of neighbouring nodes
coincide (`coeff2 (i-1) = coeff1 i`, `coeff3 (j+1) = coeff4 j`; across the origin `coeff1 (antipode) = coeff1` needs the
antipodally symmetric angular spacing).
-/
set_option linter.unusedSimpArgs false
set_option linter.unusedSectionVars false
set_option linter.unusedVariables false
namespace SmootherGiveCode
open Stencil SmootherCode Finset
variable {K : Type} [_root_.Field K]

section sums
variable (o : Op K)

theorem sum_grid_congr {nr nt : Nat} (F G : Nat → Nat → K) (h : ∀ a b, a < nr → b < nt → F a b = G a b) :
    ∑ a ∈ range nr, ∑ b ∈ range nt, F a b = ∑ a ∈ range nr, ∑ b ∈ range nt, G a b :=
  Finset.sum_congr rfl fun a ha => Finset.sum_congr rfl fun b hb => h a b (mem_range.mp ha) (mem_range.mp hb)

theorem sum_sel {nr nt i : Nat} (hi : i < nr) (P : Nat → Prop) [DecidablePred P] (g : Nat → Nat → K) :
    ∑ a ∈ range nr, ∑ b ∈ range nt, (if a = i ∧ P b then g a b else 0) = ∑ b ∈ range nt, if P b then g i b else 0 := by
  have : ∀ a, ∑ b ∈ range nt, (if a = i ∧ P b then g a b else 0)
      = if a = i then ∑ b ∈ range nt, (if P b then g a b else 0) else 0 := by
    intro a
    by_cases h : a = i
    · simp [h]
    · simp [h]
  simp only [this]
  rw [sum_self hi]

theorem sum_sel_out {nr nt i : Nat} (hi : nr ≤ i) (P : Nat → Prop) [DecidablePred P] (g : Nat → Nat → K) :
    ∑ a ∈ range nr, ∑ b ∈ range nt, (if a = i ∧ P b then g a b else 0) = 0 := by
  apply Finset.sum_eq_zero; intro a ha
  apply Finset.sum_eq_zero; intro b _
  rw [if_neg]
  intro h
  have := mem_range.mp ha
  omega

theorem sum_sel_self {nr i j : Nat} (hi : i < nr) (hj : j < o.nt) (g : Nat → Nat → K) :
    ∑ a ∈ range nr, ∑ b ∈ range o.nt, (if a = i ∧ b = j then g a b else 0) = g i j := sum_node hi hj g

theorem sum_sel_jm {nr i j : Nat} (hi : i < nr) (hj : j < o.nt) (g : Nat → Nat → K) :
    ∑ a ∈ range nr, ∑ b ∈ range o.nt, (if a = i ∧ jm o b = j then g a b else 0) = g i (jp o j) := by
  rw [sum_sel hi (fun b => jm o b = j) g, sum_jm o hj]

theorem sum_sel_jp {nr i j : Nat} (hi : i < nr) (hj : j < o.nt) (g : Nat → Nat → K) :
    ∑ a ∈ range nr, ∑ b ∈ range o.nt, (if a = i ∧ jp o b = j then g a b else 0) = g i (jm o j) := by
  rw [sum_sel hi (fun b => jp o b = j) g, sum_jp o hj]

theorem sum_sel_ja (heven : o.nt % 2 = 0) {nr i j : Nat} (hi : i < nr) (hj : j < o.nt) (g : Nat → Nat → K) :
    ∑ a ∈ range nr, ∑ b ∈ range o.nt, (if a = i ∧ ja o b = j then g a b else 0) = g i (ja o j) := by
  rw [sum_sel hi (fun b => ja o b = j) g, sum_ja o heven hj]

end sums

section
variable (o : Op K) (nc : Nat)

theorem h1_pos {a : Nat} (h : a ≠ 0) : SmootherCode.h1 o a = o.h (a - 1) := by
  unfold SmootherCode.h1; rw [if_neg h]

/-- `main_diagonal` of an interior circle -/
theorem slotVal_cMain (hnc : 2 ≤ nc) (hnr : nc + 3 ≤ o.nr) (hnt : 3 ≤ o.nt) (i j : Nat) (hi0 : 0 < i) (hi : i < nc)
    (hj : j < o.nt) :
    slotVal (allUpdates o nc) (.cMain i j) = centerValue o i j (i - 1) j := by
  rw [slotVal_allUpdates o nc hnr,
    sum_grid_congr _ _ (fun a b _ hb => cval_cMain o nc hnc hnr hnt i j a b hi0 hi hb)]
  simp only [Finset.sum_add_distrib]
  rw [sum_sel_self o (by omega) hj, sum_sel_jm o (by omega) hj, sum_sel_jp o (by omega) hj, sum_sel_self o (by omega) hj,
    sum_sel_self o (by omega) hj]
  simp only [mass, diag, DirectGiveCode.massValue, DirectGiveCode.diagValue, centerValue, coeff1, coeff2, coeff3, coeff4,
    jm_jp o hj, jp_jm o hj, h1_pos o (by omega : i ≠ 0), h1_pos o (by omega : i + 1 ≠ 0), Nat.add_sub_cancel]
  ring


/-- `sub_diagonal` of an interior circle -/
theorem slotVal_cSub (hnc : 2 ≤ nc) (hnr : nc + 3 ≤ o.nr) (hnt : 3 ≤ o.nt) (i j : Nat) (hi0 : 0 < i) (hi : i < nc)
    (hj : j + 1 < o.nt) :
    slotVal (allUpdates o nc) (.cSub i j) = topValue o i j := by
  rw [slotVal_allUpdates o nc hnr,
    sum_grid_congr _ _ (fun a b _ hb => cval_cSub o nc hnc hnr hnt i j a b hi0 hi hj hb)]
  simp only [Finset.sum_add_distrib]
  rw [sum_sel_self o (by omega) (by omega), sum_sel_self o (by omega) hj]
  have e1 : jp o j = j + 1 := by rw [jp_eq o (by omega)]; rw [if_neg (by omega)]
  have e2 : jm o (j + 1) = j := by rw [jm_eq o hj]; rw [if_neg (by omega)]; omega
  simp only [topValue, coeff3, coeff4, e1, e2]
  ring

theorem sum_last {n : Nat} (hn : 0 < n) (v : Nat → K) :
    ∑ s ∈ range n, (if s + 1 = n then v s else 0) = v (n - 1) := by
  rw [← sum_self (by omega : n - 1 < n) v]
  apply Finset.sum_congr rfl
  intro s _
  by_cases h : s + 1 = n
  · rw [if_pos h, if_pos (by omega)]
  · rw [if_neg h, if_neg (by omega)]

/-- `cyclic_corner_element` of an interior circle -/
theorem slotVal_cCorner (hnc : 2 ≤ nc) (hnr : nc + 3 ≤ o.nr) (hnt : 3 ≤ o.nt) (i : Nat) (hi0 : 0 < i) (hi : i < nc) :
    slotVal (allUpdates o nc) (.cCorner i) = bottomValue o i 0 := by
  rw [slotVal_allUpdates o nc hnr,
    sum_grid_congr _ _ (fun a b _ hb => cval_cCorner o nc hnc hnr hnt i a b hi0 hi hb)]
  simp only [Finset.sum_add_distrib]
  rw [sum_sel_self o (by omega) (by omega), sum_sel (by omega) (fun b => b + 1 = o.nt), sum_last (by omega)]
  have e1 : jm o 0 = o.nt - 1 := by rw [jm_eq o (by omega)]; rw [if_pos rfl]
  have e2 : jm o (o.nt - 1) = o.nt - 2 := by rw [jm_eq o (by omega)]; rw [if_neg (by omega)]; omega
  simp only [bottomValue, coeff3, coeff4, e1, e2]
  ring

/-- `main_diagonal` of a radial line: the identity row on the outer boundary -/
theorem slotVal_rMain (hnc : 2 ≤ nc) (hnr : nc + 3 ≤ o.nr) (hnt : 3 ≤ o.nt) (j t : Nat) (hj : j < o.nt)
    (ht : t < o.nr - nc) :
    slotVal (allUpdates o nc) (.rMain j t)
      = if nc + t + 1 = o.nr then 1 else centerValue o (nc + t) j (nc + t - 1) j := by
  rw [slotVal_allUpdates o nc hnr,
    sum_grid_congr _ _ (fun a b ha hb => cval_rMain o nc hnc hnr hnt j t a b ht ha hb)]
  simp only [Finset.sum_add_distrib]
  rw [sum_sel_self o (by omega) hj, sum_sel_jm o (by omega) hj, sum_sel_jp o (by omega) hj,
    sum_sel_self o (by omega : nc + t - 1 < o.nr) hj]
  by_cases hlast : nc + t + 1 = o.nr
  · rw [sum_sel_out (by omega)]
    simp only [if_pos hlast, if_neg (by omega : ¬ nc + t - 1 + 2 < o.nr)]
    ring
  · rw [sum_sel_self o (by omega) hj]
    simp only [if_neg hlast, if_pos (by omega : nc + t - 1 + 2 < o.nr)]
    have e1 : nc + t - 1 + 1 = nc + t := by omega
    simp only [mass, diag, DirectGiveCode.massValue, DirectGiveCode.diagValue, centerValue, coeff1, coeff2, coeff3, coeff4,
      jm_jp o hj, jp_jm o hj, h1_pos o (by omega : nc + t ≠ 0), h1_pos o (by omega : nc + t + 1 ≠ 0), Nat.add_sub_cancel]
    ring

/-- `sub_diagonal` of a radial line: the coupling to the outer Dirichlet node is the initial `0.0` -/
theorem slotVal_rSub (hnc : 2 ≤ nc) (hnr : nc + 3 ≤ o.nr) (hnt : 3 ≤ o.nt) (j t : Nat) (hj : j < o.nt)
    (ht : t + 1 < o.nr - nc) :
    slotVal (allUpdates o nc) (.rSub j t) = if nc + t + 2 = o.nr then 0 else rightValue o (nc + t) j := by
  rw [slotVal_allUpdates o nc hnr,
    sum_grid_congr _ _ (fun a b _ hb => cval_rSub o nc hnc hnr hnt j t a b ht hb)]
  simp only [Finset.sum_add_distrib]
  rw [sum_sel_self o (by omega) hj, sum_sel_self o (by omega) hj]
  by_cases hlast : nc + t + 2 = o.nr
  · simp only [if_pos hlast, if_neg (by omega : ¬ nc + t + 2 < o.nr), if_neg (by omega : ¬ nc + t + 1 + 1 < o.nr)]
    ring
  · simp only [if_neg hlast, if_pos (by omega : nc + t + 2 < o.nr), if_pos (by omega : nc + t + 1 + 1 < o.nr)]
    simp only [rightValue, coeff1, coeff2, h1_pos o (by omega : nc + t + 1 ≠ 0), Nat.add_sub_cancel]
    ring

/-- the CSR cell of a Dirichlet row -/
theorem slotVal_innerD (hnc : 2 ≤ nc) (hnr : nc + 3 ≤ o.nr) (hnt : 3 ≤ o.nt) (hbc : o.bc = true) (j : Nat) (hj : j < o.nt) :
    slotVal (allUpdates o nc) (.inner j 0) = 1 := by
  rw [slotVal_allUpdates o nc hnr,
    sum_grid_congr _ _ (fun a b _ _ => cval_innerD o nc hnc hnr hbc j 0 a b)]
  simp only [and_true]
  rw [sum_sel_self o (by omega) hj]

/-- antipodally symmetric angular spacing: the geometric factor of "Left" is the same at a node and at its antipode -/
theorem coeff1_ja (hnt : 2 ≤ o.nt) (heven : o.nt % 2 = 0) (hk : ∀ j, j < o.nt → o.k (ja o j) = o.k j) {j : Nat}
    (hj : j < o.nt) : coeff1 o 0 (ja o j) = coeff1 o 0 j := by
  unfold coeff1
  rw [jm_ja o hnt heven hj, hk j hj, hk _ (jm_lt o (by omega) j)]

theorem slotVal_inner0 (hnc : 2 ≤ nc) (hnr : nc + 3 ≤ o.nr) (hnt : 3 ≤ o.nt) (heven : o.nt % 2 = 0) (hbc : o.bc = false)
    (hk : ∀ j, j < o.nt → o.k (ja o j) = o.k j) (j : Nat) (hj : j < o.nt) :
    slotVal (allUpdates o nc) (.inner j 0) = centerValue o 0 j 0 (ja o j) := by
  rw [slotVal_allUpdates o nc hnr,
    sum_grid_congr _ _ (fun a b _ _ => cval_inner0 o nc hnc hnr hbc j a b)]
  simp only [Finset.sum_add_distrib]
  rw [sum_sel_self o (by omega) hj, sum_sel_ja o heven (by omega) hj, sum_sel_jm o (by omega) hj, sum_sel_jp o (by omega) hj,
    sum_sel_self o (by omega) hj, coeff1_ja o (by omega) heven hk hj]
  simp only [mass, diag, DirectGiveCode.massValue, DirectGiveCode.diagValue, centerValue, coeff1, coeff2, coeff3, coeff4,
    jm_jp o hj, jp_jm o hj, h1_pos o (by omega : 1 ≠ 0), Nat.sub_self]
  ring

theorem slotVal_inner1 (hnc : 2 ≤ nc) (hnr : nc + 3 ≤ o.nr) (hnt : 3 ≤ o.nt) (heven : o.nt % 2 = 0) (hbc : o.bc = false)
    (hk : ∀ j, j < o.nt → o.k (ja o j) = o.k j) (j : Nat) (hj : j < o.nt) :
    slotVal (allUpdates o nc) (.inner j 1) = leftValue o 0 j 0 (ja o j) := by
  rw [slotVal_allUpdates o nc hnr,
    sum_grid_congr _ _ (fun a b _ _ => cval_inner1 o nc hnc hnr hbc j a b)]
  simp only [Finset.sum_add_distrib]
  rw [sum_sel_self o (by omega) hj, sum_sel_ja o heven (by omega) hj, coeff1_ja o (by omega) heven hk hj]
  simp only [leftValue]
  ring

theorem slotVal_inner2 (hnc : 2 ≤ nc) (hnr : nc + 3 ≤ o.nr) (hnt : 3 ≤ o.nt) (hbc : o.bc = false) (j : Nat) (hj : j < o.nt) :
    slotVal (allUpdates o nc) (.inner j 2) = bottomValue o 0 j := by
  rw [slotVal_allUpdates o nc hnr,
    sum_grid_congr _ _ (fun a b _ _ => cval_inner2 o nc hnc hnr hbc j a b)]
  simp only [Finset.sum_add_distrib]
  rw [sum_sel_self o (by omega) hj, sum_sel_jp o (by omega) hj]
  simp only [bottomValue, coeff3, coeff4]
  ring

theorem slotVal_inner3 (hnc : 2 ≤ nc) (hnr : nc + 3 ≤ o.nr) (hnt : 3 ≤ o.nt) (hbc : o.bc = false) (j : Nat) (hj : j < o.nt) :
    slotVal (allUpdates o nc) (.inner j 3) = topValue o 0 j := by
  rw [slotVal_allUpdates o nc hnr,
    sum_grid_congr _ _ (fun a b _ _ => cval_inner3 o nc hnc hnr hbc j a b)]
  simp only [Finset.sum_add_distrib]
  rw [sum_sel_self o (by omega) hj, sum_sel_jm o (by omega) hj]
  simp only [topValue, coeff3, coeff4, jm_jp o hj]
  ring

end
end SmootherGiveCode
