import GMGProofs.Lemmas.ExSmootherGiveCode9
import GMGProofs.Lemmas.StencilLemmas2
/-!
# Code-level extrapolated smoother (give), lemmas 10 — the scatter kernel of the circle section

* `cC`, `cB`, `cT`, `cL`, `cR`: what `NODE_APPLY_ASC_ORTHO_CIRCLE_GIVE` at node `(i, j)` subtracts from `temp` at the node itself, at
  its bottom / top neighbour on the circle and at its left / right neighbour (`0` where the code gives nothing);
* `recv_circleGive`: uniform description of the kernel as seen from a target `(a, b)`;
* `circle_phase_recv`: the received total of one colour phase, one giver per direction.
-/
set_option linter.unusedSectionVars false
set_option linter.unusedVariables false
set_option linter.unusedSimpArgs false
namespace ExSmootherGiveCode
open Stencil SparseLU SmootherCode Finset
variable {K : Type} [_root_.Field K]

section
variable (o : Op K) (nc : Nat) (black : Bool) (x : Stencil.Field K)

/-- "Fill temp(i-1,j)" of the outside parts -/
def leftVal (i j : Nat) : K :=
  -(coeff1 o i j) * o.arr i j * x i j - quarter * o.art i j * x i (jp o j) + quarter * o.art i j * x i (jm o j)
/-- "Fill temp(i+1,j)" of the outside parts -/
def rightVal (i j : Nat) : K :=
  -(coeff2 o i j) * o.arr i j * x i j + quarter * o.art i j * x i (jp o j) - quarter * o.art i j * x i (jm o j)

/-- to the node itself -/
def cC (i j : Nat) : K :=
  if 0 < i ∧ i < nc ∧ (circleNodeBlack nc i == black) = true then
    (if i % 2 = 1 then -(coeff1 o i j) * o.arr i j * x (i - 1) j - coeff2 o i j * o.arr i j * x (i + 1) j
     else if j % 2 = 1 then
       -(coeff1 o i j) * o.arr i j * x (i - 1) j - coeff2 o i j * o.arr i j * x (i + 1) j
         - coeff3 o i j * o.att i j * x i (jm o j) - coeff4 o i j * o.att i j * x i (jp o j)
     else 0)
  else if i = 0 ∧ o.bc = false ∧ (circleNodeBlack nc i == black) = true ∧ j % 2 = 1 then
    -(coeff2 o i j) * o.arr i j * x (i + 1) j - coeff3 o i j * o.att i j * x i (jm o j)
      - coeff4 o i j * o.att i j * x i (jp o j)
  else 0

/-- to `(i, j-1)` -/
def cB (i j : Nat) : K :=
  if 0 < i ∧ i < nc ∧ (circleNodeBlack nc i == black) = true then
    (if i % 2 = 1 then -quarter * o.art i j * x (i + 1) j + quarter * o.art i j * x (i - 1) j
     else if j % 2 = 1 then 0
     else -(coeff3 o i j) * o.att i j * x i j - quarter * o.art i j * x (i + 1) j + quarter * o.art i j * x (i - 1) j)
  else if i = 0 ∧ o.bc = false ∧ (circleNodeBlack nc i == black) = true ∧ ¬ j % 2 = 1 then
    -(coeff3 o i j) * o.att i j * x i j - quarter * o.art i j * x (i + 1) j
  else 0

/-- to `(i, j+1)` -/
def cT (i j : Nat) : K :=
  if 0 < i ∧ i < nc ∧ (circleNodeBlack nc i == black) = true then
    (if i % 2 = 1 then quarter * o.art i j * x (i + 1) j - quarter * o.art i j * x (i - 1) j
     else if j % 2 = 1 then 0
     else -(coeff4 o i j) * o.att i j * x i j + quarter * o.art i j * x (i + 1) j - quarter * o.art i j * x (i - 1) j)
  else if i = 0 ∧ o.bc = false ∧ (circleNodeBlack nc i == black) = true ∧ ¬ j % 2 = 1 then
    -(coeff4 o i j) * o.att i j * x i j + quarter * o.art i j * x (i + 1) j
  else 0

/-- to `(i-1, j)` -/
def cL (i j : Nat) : K :=
  if (0 < i ∧ i < nc ∧ ¬ (circleNodeBlack nc i == black) = true ∧ ¬ (i % 2 = 1 ∧ ¬ j % 2 = 1) ∧ (1 < i ∨ o.bc = false))
      ∨ (i = nc ∧ black = true ∧ (j % 2 = 1 ∨ ¬ i % 2 = 1)) then leftVal o x i j
  else 0

/-- to `(i+1, j)` -/
def cR (i j : Nat) : K :=
  if (0 < i ∧ i < nc ∧ ¬ (circleNodeBlack nc i == black) = true ∧ ¬ (i % 2 = 1 ∧ ¬ j % 2 = 1) ∧ i + 1 < nc)
      ∨ (i = 0 ∧ ¬ (circleNodeBlack nc i == black) = true) then rightVal o x i j
  else 0

/-- what node `(i, j)` subtracts from `temp` at `(a, b)` -/
def cRecv (i j a b : Nat) : K :=
  (if a = i ∧ b = j then cC o nc black x i j else 0)
    + (if a = i ∧ b = jm o j then cB o nc black x i j else 0)
    + (if a = i ∧ b = jp o j then cT o nc black x i j else 0)
    + (if a = i - 1 ∧ b = j then cL o nc black x i j else 0)
    + (if a = i + 1 ∧ b = j then cR o nc black x i j else 0)

set_option maxHeartbeats 4000000 in
/-- **uniform description of `NODE_APPLY_ASC_ORTHO_CIRCLE_GIVE`** -/
theorem recv_circleGive (hnc : 1 ≤ nc) (hnt : 2 ≤ o.nt) (i j a b : Nat) (hj : j < o.nt) :
    recv (circleGive o nc black x i j) a b = cRecv o nc black x i j a b := by
  have n1 : ¬ jm o j = j := jm_ne o hnt hj
  have n2 : ¬ jp o j = j := jp_ne o hnt hj
  unfold circleGive
  simp only []
  split_ifs
  all_goals try (exfalso; omega)
  all_goals (
    harvest (0 < i)
    harvest (i < nc)
    harvest (i = 0)
    harvest (i = nc)
    harvest (i + 1 < nc)
    harvest (nc = 0)
    harvest (0 = nc)
    harvest (j % 2 = 1 ∨ i % 2 = 0)
    try subst_vars
    simp [-Nat.mod_two_ne_one, *, cRecv, cC, cB, cT, cL, cR, leftVal, rightVal, recv_mk, recv_append])
  all_goals ring

theorem add5 {a1 a2 a3 a4 a5 b1 b2 b3 b4 b5 : K} (h1 : a1 = b1) (h2 : a2 = b2) (h3 : a3 = b3) (h4 : a4 = b4)
    (h5 : a5 = b5) : a1 + a2 + a3 + a4 + a5 = b1 + b2 + b3 + b4 + b5 := by
  rw [h1, h2, h3, h4, h5]

theorem cL_zero (hnc : 1 ≤ nc) (j : Nat) : cL o nc black x 0 j = 0 := by
  unfold cL
  rw [if_neg]
  rintro (h | h) <;> omega

/-- **the received total of `for i_r in [0, last): applyAscOrthoCircleSection(i_r, color)`**: one giver per direction -/
theorem circle_phase_recv (hnc : 1 ≤ nc) (hnt : 2 ≤ o.nt) (last a b : Nat) (hb : b < o.nt) :
    recv (circlePhase o nc black last x) a b =
      (if a < last then cC o nc black x a b else 0) + (if a < last then cB o nc black x a (jp o b) else 0)
        + (if a < last then cT o nc black x a (jm o b) else 0) + (if a + 1 < last then cL o nc black x (a + 1) b else 0)
        + (if 0 < a ∧ a - 1 < last then cR o nc black x (a - 1) b else 0) := by
  have hpos : 0 < o.nt := by omega
  unfold circlePhase
  rw [recv_flatMap, list_range_sum]
  have e : ∀ i ∈ range last, recv ((List.range o.nt).flatMap fun j => circleGive o nc black x i j) a b
      = ∑ j ∈ range o.nt, cRecv o nc black x i j a b := by
    intro i _
    rw [recv_flatMap, list_range_sum]
    apply Finset.sum_congr rfl
    intro j hj
    exact recv_circleGive o nc black x hnc hnt i j a b (by simpa using hj)
  rw [Finset.sum_congr rfl e]
  unfold cRecv
  simp only [Finset.sum_add_distrib]
  refine add5 ?_ ?_ ?_ ?_ ?_
  · by_cases h : a < last
    · rw [if_pos h]
      exact sum2_single last o.nt a b (fun i j => a = i ∧ b = j) (cC o nc black x) ⟨rfl, rfl⟩ h hb
        (fun i j _ _ hp => ⟨hp.1.symm, hp.2.symm⟩)
    · rw [if_neg h]
      exact sum2_none last o.nt (fun i j => a = i ∧ b = j) (cC o nc black x) (fun i j hi _ hp => by omega)
  · by_cases h : a < last
    · rw [if_pos h]
      exact sum2_single last o.nt a (jp o b) (fun i j => a = i ∧ b = jm o j) (cB o nc black x)
        ⟨rfl, (jm_jp o hb).symm⟩ h (jp_lt o hpos b) (fun i j _ hj hp => ⟨hp.1.symm, by rw [hp.2, jp_jm o hj]⟩)
    · rw [if_neg h]
      exact sum2_none last o.nt (fun i j => a = i ∧ b = jm o j) (cB o nc black x) (fun i j hi _ hp => by omega)
  · by_cases h : a < last
    · rw [if_pos h]
      exact sum2_single last o.nt a (jm o b) (fun i j => a = i ∧ b = jp o j) (cT o nc black x)
        ⟨rfl, (jp_jm o hb).symm⟩ h (jm_lt o hpos b) (fun i j _ hj hp => ⟨hp.1.symm, by rw [hp.2, jm_jp o hj]⟩)
    · rw [if_neg h]
      exact sum2_none last o.nt (fun i j => a = i ∧ b = jp o j) (cT o nc black x) (fun i j hi _ hp => by omega)
  · have e2 : ∀ i j, (if a = i - 1 ∧ b = j then cL o nc black x i j else 0)
        = (if i = a + 1 ∧ j = b then cL o nc black x i j else 0) := by
      intro i j
      by_cases h0 : i = 0
      · subst h0
        rw [cL_zero o nc black x hnc]; simp
      · have : (a = i - 1 ∧ b = j) ↔ (i = a + 1 ∧ j = b) := by constructor <;> rintro ⟨h1, h2⟩ <;> constructor <;> omega
        simp only [this]
    simp only [e2]
    by_cases h : a + 1 < last
    · rw [if_pos h]
      exact sum2_single last o.nt (a + 1) b (fun i j => i = a + 1 ∧ j = b) (cL o nc black x) ⟨rfl, rfl⟩ h hb
        (fun _ _ _ _ hp => hp)
    · rw [if_neg h]
      exact sum2_none last o.nt (fun i j => i = a + 1 ∧ j = b) (cL o nc black x) (fun i j hi _ hp => by omega)
  · by_cases h : 0 < a ∧ a - 1 < last
    · rw [if_pos h]
      exact sum2_single last o.nt (a - 1) b (fun i j => a = i + 1 ∧ b = j) (cR o nc black x) ⟨by omega, rfl⟩ h.2 hb
        (fun i j _ _ hp => ⟨by omega, hp.2.symm⟩)
    · rw [if_neg h]
      exact sum2_none last o.nt (fun i j => a = i + 1 ∧ b = j) (cR o nc black x) (fun i j hi _ hp => by omega)

end
end ExSmootherGiveCode
