import GMGModel.SmootherGiveCode
import GMGProofs.Lemmas.DirectGiveCode5
import GMGProofs.Lemmas.SmootherCode3
/-!
# Code-level smoother (give), lemmas 1 — accumulating stores as sums

* `cval s l`: the total of the values the stores of `l` address to cell `s`; `slotVal_eq_cval`: over a field the content of a
  cell after the assembly is this total (the order of the `+=` does not matter);
* `cval_tri`, `cval_csr`, …: the total of one `UPDATE_MATRIX_ELEMENT` / `COO_CSR_UPDATE`;
* `triSlot_cMain … triSlot_rSub`: which `(matrix, row, column)` triples the macro sends to which cell;
* `slotVal_allUpdates`: the content of a cell as a double sum over the giving nodes.
-/
set_option linter.unusedSectionVars false
set_option linter.unusedVariables false
set_option linter.unusedSimpArgs false
namespace SmootherGiveCode
open Stencil SmootherCode Finset
variable {K : Type} [_root_.Field K]

/-- total of the values addressed to cell `s` -/
def cval (s : Slot) (l : List (AUpd K)) : K := (l.map fun u => if u.1 = s then u.2.2 else 0).sum

theorem slotVal_eq_cval (us : List (AUpd K)) (s : Slot) : slotVal us s = cval s us := by
  unfold slotVal cval
  have : ∀ (e : K), us.foldl (fun acc u => if u.1 = s then acc + u.2.2 else acc) e
      = e + (us.map fun u => if u.1 = s then u.2.2 else 0).sum := by
    induction us with
    | nil => intro e; simp
    | cons u us ih =>
      intro e
      rw [List.foldl_cons, ih, List.map_cons, List.sum_cons]
      by_cases h : u.1 = s
      · simp only [if_pos h]; ring
      · simp only [if_neg h]; ring
  rw [this]
  simp

@[simp] theorem cval_nil (s : Slot) : cval s ([] : List (AUpd K)) = 0 := rfl

@[simp] theorem cval_append (s : Slot) (l l' : List (AUpd K)) : cval s (l ++ l') = cval s l + cval s l' := by
  simp [cval]

@[simp] theorem cval_ite (s : Slot) (p : Prop) [Decidable p] (l : List (AUpd K)) :
    cval s (if p then l else []) = if p then cval s l else 0 := by
  split <;> simp

theorem cval_flatMap {β : Type} (s : Slot) (l : List β) (g : β → List (AUpd K)) :
    cval s (l.flatMap g) = (l.map fun p => cval s (g p)).sum := by
  unfold cval
  rw [sum_map_flatMap]

section
variable (o : Op K) (nc : Nat)

@[simp] theorem cval_tri (s : Slot) (M : Mat) (row col : Nat) (v : K) :
    cval s (tri o nc M row col v) = if triSlot (matCols o nc M) M row col = some s then v else 0 := by
  unfold tri
  cases h : triSlot (matCols o nc M) M row col with
  | none => simp
  | some s' =>
    simp only [cval, List.map_cons, List.map_nil, List.sum_cons, List.sum_nil, add_zero, Option.some.injEq]

@[simp] theorem cval_csr (s : Slot) (row off col : Nat) (v : K) :
    cval s (csr row off col v) = if Slot.inner row off = s then v else 0 := by
  simp [csr, cval]

end

/-! ### the cell an `UPDATE_MATRIX_ELEMENT` addresses -/

theorem triSlot_cMain (cols : Nat) (M : Mat) (r c i j : Nat) :
    triSlot cols M r c = some (.cMain i j) ↔ M = .circle i ∧ r = j ∧ r = c := by
  unfold triSlot
  cases M <;> split_ifs <;> simp_all

theorem triSlot_cSub (cols : Nat) (M : Mat) (r c i j : Nat) :
    triSlot cols M r c = some (.cSub i j) ↔ M = .circle i ∧ r = j ∧ r + 1 = c := by
  unfold triSlot
  cases M <;> split_ifs <;> simp_all

theorem triSlot_cCorner (cols : Nat) (M : Mat) (r c i : Nat) :
    triSlot cols M r c = some (.cCorner i) ↔ M = .circle i ∧ r ≠ c ∧ r + 1 ≠ c ∧ r = 0 ∧ c + 1 = cols := by
  unfold triSlot
  cases M <;> split_ifs <;> simp_all

theorem triSlot_rMain (cols : Nat) (M : Mat) (r c j t : Nat) :
    triSlot cols M r c = some (.rMain j t) ↔ M = .radial j ∧ r = t ∧ r = c := by
  unfold triSlot
  cases M <;> split_ifs <;> simp_all

theorem triSlot_rSub (cols : Nat) (M : Mat) (r c j t : Nat) :
    triSlot cols M r c = some (.rSub j t) ↔ M = .radial j ∧ r = t ∧ r + 1 = c := by
  unfold triSlot
  cases M <;> split_ifs <;> simp_all

theorem triSlot_inner (cols : Nat) (M : Mat) (r c a q : Nat) : triSlot cols M r c = some (.inner a q) ↔ False := by
  unfold triSlot
  cases M <;> split_ifs <;> simp

/-! ### the assembly as a double sum over the giving nodes -/

theorem nodeUpdates_out (o : Op K) (nc : Nat) (hnr : nc + 3 ≤ o.nr) {a : Nat} (b : Nat) (h : o.nr ≤ a) :
    nodeUpdates o nc a b = [] := by
  unfold nodeUpdates
  rw [if_neg (by omega), if_neg (by omega), if_neg (by omega), if_neg (by omega), if_neg (by omega), if_neg (by omega)]

/-- **the content of a cell after `buildAscMatrices()`**: the shares of all nodes, in any order -/
theorem slotVal_allUpdates (o : Op K) (nc : Nat) (hnr : nc + 3 ≤ o.nr) (s : Slot) :
    slotVal (allUpdates o nc) s = ∑ a ∈ range o.nr, ∑ b ∈ range o.nt, cval s (nodeUpdates o nc a b) := by
  rw [slotVal_eq_cval]
  unfold allUpdates
  rw [cval_flatMap]
  exact DirectGiveCode.nodeOrder_sum o nc (fun a b => cval s (nodeUpdates o nc a b)) (by
    intro a b ha
    rw [nodeUpdates_out o nc hnr b ha]
    rfl)

/-! ### single-giver sums in the forms the case analysis produces -/

section sums
variable (o : Op K)

theorem sum_self {n t : Nat} (ht : t < n) (v : Nat → K) :
    ∑ s ∈ range n, (if s = t then v s else 0) = v t := by
  rw [Finset.sum_ite_eq' (range n) t v, if_pos (by simpa using ht)]

theorem sum_jm {t : Nat} (ht : t < o.nt) (v : Nat → K) :
    ∑ s ∈ range o.nt, (if jm o s = t then v s else 0) = v (jp o t) := by
  rw [← sum_ite_jm o ht v]
  apply Finset.sum_congr rfl
  intro s _
  by_cases h : jm o s = t
  · rw [if_pos h, if_pos h.symm]
  · rw [if_neg h, if_neg (fun h' => h h'.symm)]

theorem sum_jp {t : Nat} (ht : t < o.nt) (v : Nat → K) :
    ∑ s ∈ range o.nt, (if jp o s = t then v s else 0) = v (jm o t) := by
  rw [← sum_ite_jp o ht v]
  apply Finset.sum_congr rfl
  intro s _
  by_cases h : jp o s = t
  · rw [if_pos h, if_pos h.symm]
  · rw [if_neg h, if_neg (fun h' => h h'.symm)]

theorem sum_ja (heven : o.nt % 2 = 0) {t : Nat} (ht : t < o.nt) (v : Nat → K) :
    ∑ s ∈ range o.nt, (if ja o s = t then v s else 0) = v (ja o t) := by
  rw [← sum_ite_ja o heven ht v]
  apply Finset.sum_congr rfl
  intro s _
  by_cases h : ja o s = t
  · rw [if_pos h, if_pos h.symm]
  · rw [if_neg h, if_neg (fun h' => h h'.symm)]

/-- a double sum with a node selector -/
theorem sum_node {nr nt i j : Nat} (hi : i < nr) (hj : j < nt) (g : Nat → Nat → K) :
    ∑ a ∈ range nr, ∑ b ∈ range nt, (if a = i ∧ b = j then g a b else 0) = g i j := by
  have : ∀ a, ∑ b ∈ range nt, (if a = i ∧ b = j then g a b else 0) = if a = i then g a j else 0 := by
    intro a
    by_cases h : a = i
    · simp only [h, true_and, if_true]; exact sum_self hj _
    · simp [h]
  simp only [this]
  exact sum_self hi _

end sums

end SmootherGiveCode
