import GMGModel.Stencil
import GMGProofs.Lemmas.FieldScalar
import Mathlib.Algebra.BigOperators.Group.Finset.Basic
import Mathlib.Algebra.BigOperators.Intervals
import Mathlib.Algebra.BigOperators.Ring.Finset
import Mathlib.Tactic.Ring
/-!
# Stencil lemmas 1 — periodic indices, single-giver sums, and the scatter fold

* `jp`, `jm` are mutually inverse bijections of `range nt`; `ja` is an involution when `nt` is even,
  and commutes with `jm`/`jp`.
* `sum_ite_of_inv`: `Σ_s [t = φ s] v s = v (ψ t)` for mutually inverse `φ, ψ` on `range n`.
* `foldl_applyUpd`: folding `applyUpd` over any list subtracts, at every target, the sum of the values
  addressed to it (`recv`).
* `give_eq_sum`: `give o f x a b = f a b - Σ_{i<nr} Σ_{j<nt} recv (giveNode o x i j) a b`.
-/
set_option linter.unusedSectionVars false
namespace Stencil
open Finset
variable {K : Type} [_root_.Field K]

/-! ### periodic successor / predecessor / antipode -/
section idx
variable (o : Op K)

theorem jp_lt (hn : 0 < o.nt) (j : Nat) : jp o j < o.nt := Nat.mod_lt _ hn
theorem jm_lt (hn : 0 < o.nt) (j : Nat) : jm o j < o.nt := Nat.mod_lt _ hn
theorem ja_lt (hn : 0 < o.nt) (j : Nat) : ja o j < o.nt := Nat.mod_lt _ hn

theorem jp_eq {j : Nat} (hj : j < o.nt) : jp o j = if j + 1 = o.nt then 0 else j + 1 := by
  unfold jp; split
  · rename_i h; rw [h]; exact Nat.mod_self _
  · exact Nat.mod_eq_of_lt (by omega)

theorem jm_eq {j : Nat} (hj : j < o.nt) : jm o j = if j = 0 then o.nt - 1 else j - 1 := by
  unfold jm; split
  · rename_i h; subst h; rw [Nat.zero_add]; exact Nat.mod_eq_of_lt (by omega)
  · have : j + o.nt - 1 = (j - 1) + o.nt := by omega
    rw [this, Nat.add_mod_right]; exact Nat.mod_eq_of_lt (by omega)

theorem ja_eq (heven : o.nt % 2 = 0) {j : Nat} (hj : j < o.nt) :
    ja o j = if j < o.nt / 2 then j + o.nt / 2 else j - o.nt / 2 := by
  unfold ja; split
  · exact Nat.mod_eq_of_lt (by omega)
  · have : j + o.nt / 2 = (j - o.nt / 2) + o.nt := by omega
    rw [this, Nat.add_mod_right]; exact Nat.mod_eq_of_lt (by omega)

theorem jp_jm {j : Nat} (hj : j < o.nt) : jp o (jm o j) = j := by
  rw [jm_eq o hj]; split
  · rw [jp_eq o (by omega)]; split <;> omega
  · rw [jp_eq o (by omega)]; split <;> omega

theorem jm_jp {j : Nat} (hj : j < o.nt) : jm o (jp o j) = j := by
  rw [jp_eq o hj]; split
  · rw [jm_eq o (by omega)]; split <;> omega
  · rw [jm_eq o (by omega)]; split <;> omega

theorem ja_ja (heven : o.nt % 2 = 0) {j : Nat} (hj : j < o.nt) : ja o (ja o j) = j := by
  rw [ja_eq o heven hj]; split
  · rw [ja_eq o heven (by omega)]; split <;> omega
  · rw [ja_eq o heven (by omega)]; split <;> omega

/-- the antipode commutes with the predecessor -/
theorem jm_ja (hnt : 2 ≤ o.nt) (heven : o.nt % 2 = 0) {j : Nat} (hj : j < o.nt) :
    jm o (ja o j) = ja o (jm o j) := by
  have h1 : ja o j < o.nt := ja_lt o (by omega) j
  have h2 : jm o j < o.nt := jm_lt o (by omega) j
  rw [jm_eq o h1, ja_eq o heven h2, ja_eq o heven hj, jm_eq o hj]
  split <;> split <;> split <;> split <;> omega

end idx

/-! ### the giver of a target in a fixed direction is unique -/

/-- `Σ_{s<n} [t = φ s] v s = v (ψ t)` when `ψ` inverts `φ` on `range n` -/
theorem sum_ite_of_inv (n t : Nat) (_ht : t < n) (φ ψ : Nat → Nat) (hψ : ψ t < n)
    (h1 : φ (ψ t) = t) (h2 : ∀ s, s < n → ψ (φ s) = s) (v : Nat → K) :
    ∑ s ∈ range n, (if t = φ s then v s else 0) = v (ψ t) := by
  rw [Finset.sum_eq_single (ψ t)]
  · rw [if_pos h1.symm]
  · intro s hs hne
    rw [if_neg]
    intro h; apply hne; rw [h, h2 s (by simpa using hs)]
  · intro h; exact absurd (by simpa using hψ) h

section sums
variable (o : Op K)

theorem sum_ite_jp {t : Nat} (ht : t < o.nt) (v : Nat → K) :
    ∑ s ∈ range o.nt, (if t = jp o s then v s else 0) = v (jm o t) :=
  sum_ite_of_inv o.nt t ht (jp o) (jm o) (jm_lt o (by omega) t) (jp_jm o ht) (fun _ hs => jm_jp o hs) v

theorem sum_ite_jm {t : Nat} (ht : t < o.nt) (v : Nat → K) :
    ∑ s ∈ range o.nt, (if t = jm o s then v s else 0) = v (jp o t) :=
  sum_ite_of_inv o.nt t ht (jm o) (jp o) (jp_lt o (by omega) t) (jm_jp o ht) (fun _ hs => jp_jm o hs) v

theorem sum_ite_ja (heven : o.nt % 2 = 0) {t : Nat} (ht : t < o.nt) (v : Nat → K) :
    ∑ s ∈ range o.nt, (if t = ja o s then v s else 0) = v (ja o t) :=
  sum_ite_of_inv o.nt t ht (ja o) (ja o) (ja_lt o (by omega) t) (ja_ja o heven ht)
    (fun _ hs => ja_ja o heven hs) v

theorem sum_ite_self {n t : Nat} (ht : t < n) (v : Nat → K) :
    ∑ s ∈ range n, (if t = s then v s else 0) = v t := by
  rw [Finset.sum_ite_eq (range n) t v, if_pos (by simpa using ht)]

end sums

/-- double sum with a row selector `r = i`: only row `r` survives -/
theorem sum_row (nr nt r : Nat) (Q : Nat → Prop) [DecidablePred Q] (g : Nat → Nat → K) :
    ∑ i ∈ range nr, ∑ j ∈ range nt, (if r = i ∧ Q j then g i j else 0)
      = if r < nr then ∑ j ∈ range nt, (if Q j then g r j else 0) else 0 := by
  have : ∀ i, ∑ j ∈ range nt, (if r = i ∧ Q j then g i j else 0)
      = if r = i then ∑ j ∈ range nt, (if Q j then g r j else 0) else 0 := by
    intro i
    by_cases h : r = i
    · subst h; simp
    · simp [h]
  simp only [this]
  rw [Finset.sum_ite_eq (range nr) r]
  simp

/-- double sum with a row selector `a = i + 1` -/
theorem sum_row_succ (nr nt a : Nat) (ha : a ≤ nr) (Q : Nat → Prop) [DecidablePred Q] (g : Nat → Nat → K) :
    ∑ i ∈ range nr, ∑ j ∈ range nt, (if a = i + 1 ∧ Q j then g i j else 0)
      = if 0 < a then ∑ j ∈ range nt, (if Q j then g (a - 1) j else 0) else 0 := by
  cases a with
  | zero => simp
  | succ a' =>
    have := sum_row nr nt a' Q g
    simp only [Nat.add_right_cancel_iff, Nat.add_sub_cancel, Nat.zero_lt_succ, if_true]
    rw [this, if_pos (by omega)]

/-! ### the scatter fold -/

/-- total value the updates of `l` address to target `(a, b)` -/
def recv (l : List (Upd K)) (a b : Nat) : K :=
  (l.map fun u => if a = u.ti ∧ b = u.tj then u.v else 0).sum

@[simp] theorem recv_nil (a b : Nat) : recv ([] : List (Upd K)) a b = 0 := rfl
@[simp] theorem recv_cons (u : Upd K) (l : List (Upd K)) (a b : Nat) :
    recv (u :: l) a b = (if a = u.ti ∧ b = u.tj then u.v else 0) + recv l a b := by
  simp [recv]
theorem recv_append (l l' : List (Upd K)) (a b : Nat) :
    recv (l ++ l') a b = recv l a b + recv l' a b := by
  simp [recv]

/-- `fold_scatter`: the fold subtracts at each target exactly what was addressed to it -/
theorem foldl_applyUpd (l : List (Upd K)) (f : Field K) (a b : Nat) :
    (l.foldl applyUpd f) a b = f a b - recv l a b := by
  induction l generalizing f with
  | nil => simp
  | cons u l ih =>
    rw [List.foldl_cons, ih, recv_cons]
    unfold applyUpd
    split <;> ring

theorem recv_flatMap {β : Type} (l : List β) (g : β → List (Upd K)) (a b : Nat) :
    recv (l.flatMap g) a b = (l.map fun p => recv (g p) a b).sum := by
  induction l with
  | nil => simp
  | cons p l ih => simp [List.flatMap_cons, recv_append, ih]

theorem list_range_sum (n : Nat) (g : Nat → K) :
    ((List.range n).map g).sum = ∑ i ∈ range n, g i := by
  induction n with
  | zero => simp
  | succ n ih => simp [List.range_succ, Finset.sum_range_succ, ih]

theorem sum_map_flatMap {β γ : Type} (l : List β) (g : β → List γ) (h : γ → K) :
    ((l.flatMap g).map h).sum = (l.map fun i => ((g i).map h).sum).sum := by
  induction l with
  | nil => simp
  | cons p l ih => simp [List.flatMap_cons, ih]

/-- the scatter form as a double sum over the giving nodes -/
theorem give_eq_sum (o : Op K) (f x : Field K) (a b : Nat) :
    give o f x a b = f a b - ∑ i ∈ range o.nr, ∑ j ∈ range o.nt, recv (giveNode o x i j) a b := by
  unfold give
  rw [foldl_applyUpd, recv_flatMap]
  congr 1
  unfold allNodes
  rw [sum_map_flatMap, list_range_sum]
  apply Finset.sum_congr rfl
  intro i _
  rw [List.map_map, list_range_sum]
  rfl

end Stencil
