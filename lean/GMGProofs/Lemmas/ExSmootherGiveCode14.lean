import GMGProofs.Lemmas.ExSmootherGiveCode13
/-!
# Code-level extrapolated smoother (give), lemmas 14 — the sequential sweep simulates the gather sweep

* `orthoCircle_congr`, `orthoRadial_congr`: the gather kernel at a node only reads the iterate on the node's own and the two
  adjacent circles / radial lines;
* `circle_fold_sim`, `radial_fold_sim`: line by line both strategies solve the same system with the same right-hand side, as
  long as `temp` of the lines still to be solved holds the gather kernel's value for the current iterate.
-/
set_option linter.unusedSectionVars false
set_option linter.unusedVariables false
set_option linter.unusedSimpArgs false
namespace ExSmootherGiveCode
open Stencil SparseLU SmootherCode Finset
variable {K : Type} [_root_.Field K]

section
variable (o : Op K) (nc : Nat) (f : Stencil.Field K)

/-- the gather kernel of the circle section reads the iterate on circles `i - 1`, `i`, `i + 1` only -/
theorem orthoCircle_congr (u u' : Stencil.Field K) (i j : Nat) (hj : j < o.nt)
    (h : ∀ p q, p ≤ i + 1 → i ≤ p + 1 → q < o.nt → u p q = u' p q) :
    ExSmootherCode.orthoCircle o nc f u i j = ExSmootherCode.orthoCircle o nc f u' i j := by
  have hpos : 0 < o.nt := by omega
  have hm := jm_lt o hpos j
  have hp := jp_lt o hpos j
  have e1 := h (i - 1) j (by omega) (by omega) hj
  have e2 := h (i + 1) j (by omega) (by omega) hj
  have e3 := h i (jm o j) (by omega) (by omega) hm
  have e4 := h i (jp o j) (by omega) (by omega) hp
  have e5 := h (i - 1) (jm o j) (by omega) (by omega) hm
  have e6 := h (i + 1) (jm o j) (by omega) (by omega) hm
  have e7 := h (i - 1) (jp o j) (by omega) (by omega) hp
  have e8 := h (i + 1) (jp o j) (by omega) (by omega) hp
  have e9 := h i j (by omega) (by omega) hj
  have f1 := h 1 j
  have f2 := h 0 (jm o j)
  have f3 := h 0 (jp o j)
  have f4 := h 1 (jm o j)
  have f5 := h 1 (jp o j)
  have f6 := h 0 j
  unfold ExSmootherCode.orthoCircle
  by_cases h0 : i = 0
  · subst h0
    simp only [Nat.lt_irrefl, false_and, if_false, if_true]
    rw [f1 (by omega) (by omega) hj, f2 (by omega) (by omega) hm, f3 (by omega) (by omega) hp,
      f4 (by omega) (by omega) hm, f5 (by omega) (by omega) hp, f6 (by omega) (by omega) hj]
  · simp only [diagTerms, ExSmootherCode.crossTerms, e1, e2, e3, e4, e5, e6, e7, e8, e9, h0, if_false]

/-- the gather kernel of the radial section reads the iterate on the radial lines `j - 1`, `j`, `j + 1` only -/
theorem orthoRadial_congr (hnr : nc + 3 ≤ o.nr) (u u' : Stencil.Field K) (i j : Nat) (hi : i < o.nr)
    (h : ∀ p q, p < o.nr → (q = j ∨ q = jm o j ∨ q = jp o j) → u p q = u' p q) :
    ExSmootherCode.orthoRadial o nc f u i j = ExSmootherCode.orthoRadial o nc f u' i j := by
  have e9 := h i j (by omega) (Or.inl rfl)
  by_cases hlast : i + 1 < o.nr
  · have e1 := h (i - 1) j (by omega) (Or.inl rfl)
    have e2 := h (i + 1) j (by omega) (Or.inl rfl)
    have e3 := h i (jm o j) (by omega) (Or.inr (Or.inl rfl))
    have e4 := h i (jp o j) (by omega) (Or.inr (Or.inr rfl))
    have e5 := h (i - 1) (jm o j) (by omega) (Or.inr (Or.inl rfl))
    have e6 := h (i + 1) (jm o j) (by omega) (Or.inr (Or.inl rfl))
    have e7 := h (i - 1) (jp o j) (by omega) (Or.inr (Or.inr rfl))
    have e8 := h (i + 1) (jp o j) (by omega) (Or.inr (Or.inr rfl))
    simp only [ExSmootherCode.orthoRadial, diagTerms, ExSmootherCode.crossTerms, e1, e2, e3, e4, e5, e6, e7, e8, e9]
  · have c1 : ¬ (nc < i ∧ i + 2 < o.nr) := by omega
    have c2 : ¬ i = nc := by omega
    have c3 : ¬ i + 2 = o.nr := by omega
    have c4 : i + 1 = o.nr := by omega
    simp only [ExSmootherCode.orthoRadial, c1, c2, c3, c4, if_false, if_true, e9]

/-! ### the folds over the lines of one colour -/

variable (mf : Mem K) (tiny : K → Bool)

theorem give_circleStep_none (l : List Nat) : l.foldl (circleStep o mf tiny) none = none :=
  foldl_bind_none (fun (st : SwState K) i => (solveCircle o mf tiny st.2 i).map fun v =>
    (writeCircle o.nt st.1 i v, fun a b => if a = i then v.getD b (Scalar.n 0) else st.2 a b)) l

/-- what the two circle folds have in common -/
def CircleSim (l : List Nat) (a : Array K) (t : Stencil.Field K) : Prop :=
  (∃ a' t', l.foldl (circleStep o mf tiny) (some (a, t)) = some (a', t') ∧
      l.foldl (ExSmootherCode.circleStep o tiny nc f) (some a) = some a' ∧ a'.size = a.size ∧
      (∀ p q, p ∉ l → t' p q = t p q) ∧
      (∀ p q, p ∉ l → p < o.nr → q < o.nt → fld o.nt a' p q = fld o.nt a p q)) ∨
    (l.foldl (circleStep o mf tiny) (some (a, t)) = none ∧
      l.foldl (ExSmootherCode.circleStep o tiny nc f) (some a) = none)

/-- the line matrices of the circle section agree -/
structure CircleMats : Prop where
  inner : innerCSR o mf = ExSmootherCode.innerCSR o
  tri : ∀ i, 0 < i → i < nc → i % 2 = 1 → circleTriSolver mf i = ExSmootherCode.circleTriSolver o i
  diag : ∀ i, 0 < i → i < nc → ¬ i % 2 = 1 → circleDiag mf i = ExSmootherCode.circleDiag o i

/-- one line solve: same matrix, same right-hand side -/
theorem solveCircle_eq (M : CircleMats o nc mf) (t u : Stencil.Field K) (i : Nat) (hi : i < nc)
    (ht : ∀ b, b < o.nt → t i b = ExSmootherCode.orthoCircle o nc f u i b) :
    solveCircle o mf tiny t i = ExSmootherCode.solveCircle o tiny nc f u i := by
  have hline : circleLine o t i = ExSmootherCode.circleTemp o nc f u i := by
    unfold circleLine ExSmootherCode.circleTemp
    apply List.map_congr_left
    intro b hb
    exact ht b (List.mem_range.mp hb)
  unfold solveCircle ExSmootherCode.solveCircle
  by_cases h0 : i = 0
  · subst h0
    rw [if_pos rfl, if_pos rfl, M.inner, hline]
  · rw [if_neg h0, if_neg h0]
    by_cases hio : i % 2 = 1
    · rw [if_pos hio, if_pos hio, M.tri i (by omega) hi hio, hline]
    · rw [if_neg hio, if_neg hio, M.diag i (by omega) hi hio, hline]

/-- **the circle folds of both strategies run in lockstep** over a list of pairwise non-adjacent circles -/
theorem circle_fold_sim (M : CircleMats o nc mf) (hncr : nc < o.nr) : ∀ (l : List Nat),
    (∀ i ∈ l, i < nc) → l.Pairwise (fun i i' => i ≠ i' ∧ i + 1 ≠ i' ∧ i' + 1 ≠ i) →
    ∀ (a : Array K) (t : Stencil.Field K), a.size = o.nr * o.nt →
      (∀ i ∈ l, ∀ b, b < o.nt → t i b = ExSmootherCode.orthoCircle o nc f (fld o.nt a) i b) →
      CircleSim o nc f mf tiny l a t := by
  intro l
  induction l with
  | nil =>
    intro _ _ a t _ _
    exact Or.inl ⟨a, t, rfl, rfl, rfl, fun _ _ _ => rfl, fun _ _ _ _ _ => rfl⟩
  | cons i l ih =>
    intro hl hp a t hs ht
    have hi : i < nc := hl i (List.mem_cons_self ..)
    obtain ⟨hp1, hp2⟩ := List.pairwise_cons.mp hp
    have hsol := solveCircle_eq o nc f mf tiny M t (fld o.nt a) i hi (ht i (List.mem_cons_self ..))
    cases hv : ExSmootherCode.solveCircle o tiny nc f (fld o.nt a) i with
    | none =>
      right
      constructor
      · rw [List.foldl_cons]
        have : circleStep o mf tiny (some (a, t)) i = none := by
          unfold circleStep; simp only [Option.bind_some]; rw [hsol, hv]; rfl
        rw [this, give_circleStep_none]
      · rw [List.foldl_cons]
        have : ExSmootherCode.circleStep o tiny nc f (some a) i = none := by
          unfold ExSmootherCode.circleStep; simp only [Option.bind_some]; rw [hv]; rfl
        rw [this, ExSmootherCode.circleStep_none]
    | some v =>
      have hg : circleStep o mf tiny (some (a, t)) i
          = some (writeCircle o.nt a i v, fun p q => if p = i then v.getD q (Scalar.n 0) else t p q) := by
        unfold circleStep; simp only [Option.bind_some]; rw [hsol, hv]; rfl
      have htk : ExSmootherCode.circleStep o tiny nc f (some a) i = some (writeCircle o.nt a i v) := by
        unfold ExSmootherCode.circleStep; simp only [Option.bind_some]; rw [hv]; rfl
      have hs1 : (writeCircle o.nt a i v).size = o.nr * o.nt := by rw [size_writeCircle]; exact hs
      have hfld : ∀ p q, p ≠ i → p < o.nr → q < o.nt → fld o.nt (writeCircle o.nt a i v) p q = fld o.nt a p q := by
        intro p q hpi hpn hq
        rw [fld_writeCircle o.nr o.nt a hs i v p q hpn hq, if_neg hpi]
      have ht1 : ∀ i' ∈ l, ∀ b, b < o.nt →
          (fun p q => if p = i then v.getD q (Scalar.n 0) else t p q) i' b
            = ExSmootherCode.orthoCircle o nc f (fld o.nt (writeCircle o.nt a i v)) i' b := by
        intro i' hi' b hb
        obtain ⟨n1, n2, n3⟩ := hp1 i' hi'
        have hi'nc : i' < nc := hl i' (List.mem_cons_of_mem _ hi')
        simp only [if_neg (Ne.symm n1)]
        rw [ht i' (List.mem_cons_of_mem _ hi') b hb]
        apply orthoCircle_congr o nc f _ _ i' b hb
        intro p q h1 h2 hq
        exact (hfld p q (by omega) (by omega) hq).symm
      rcases ih (fun k hk => hl k (List.mem_cons_of_mem _ hk)) hp2 _ _ hs1 ht1 with
        ⟨a', t', h1, h2, h3, h4, h5⟩ | ⟨h1, h2⟩
      · left
        refine ⟨a', t', by rw [List.foldl_cons, hg]; exact h1, by rw [List.foldl_cons, htk]; exact h2,
          by rw [h3, size_writeCircle], ?_, ?_⟩
        · intro p q hpl
          have hpi : p ≠ i := fun h => hpl (by rw [h]; exact List.mem_cons_self ..)
          rw [h4 p q (fun h => hpl (List.mem_cons_of_mem _ h))]
          simp only [if_neg hpi]
        · intro p q hpl hpn hq
          have hpi : p ≠ i := fun h => hpl (by rw [h]; exact List.mem_cons_self ..)
          rw [h5 p q (fun h => hpl (List.mem_cons_of_mem _ h)) hpn hq, hfld p q hpi hpn hq]
      · right
        exact ⟨by rw [List.foldl_cons, hg]; exact h1, by rw [List.foldl_cons, htk]; exact h2⟩

/-- the line matrices of the radial section agree -/
structure RadialMats : Prop where
  tri : ∀ j, j < o.nt → j % 2 = 1 → radialTriSolver mf j = ExSmootherCode.radialTriSolver o nc j
  diag : ∀ j, j < o.nt → ¬ j % 2 = 1 → radialDiag mf j = ExSmootherCode.radialDiag o nc j

theorem solveRadial_eq (M : RadialMats o nc mf) (t u : Stencil.Field K) (j : Nat) (hj : j < o.nt)
    (ht : ∀ s, s < o.nr - nc → t (nc + s) j = ExSmootherCode.orthoRadial o nc f u (nc + s) j) :
    solveRadial o mf nc t j = ExSmootherCode.solveRadial o nc f u j := by
  have hline : radialLine o nc t j = ExSmootherCode.radialTemp o nc f u j := by
    unfold radialLine ExSmootherCode.radialTemp
    apply List.map_congr_left
    intro s hs
    exact ht s (List.mem_range.mp hs)
  unfold solveRadial ExSmootherCode.solveRadial
  by_cases hjo : j % 2 = 1
  · rw [if_pos hjo, if_pos hjo, M.tri j hj hjo, hline]
  · rw [if_neg hjo, if_neg hjo, M.diag j hj hjo, hline]

/-- **the radial folds of both strategies run in lockstep** over a list of pairwise non-adjacent radial lines -/
theorem radial_fold_sim (M : RadialMats o nc mf) (hnr : nc + 3 ≤ o.nr) : ∀ (l : List Nat),
    (∀ j ∈ l, j < o.nt) → l.Pairwise (fun j j' => j ≠ j' ∧ jm o j' ≠ j ∧ jp o j' ≠ j) →
    ∀ (a : Array K) (t : Stencil.Field K), a.size = o.nr * o.nt →
      (∀ j ∈ l, ∀ s, s < o.nr - nc → t (nc + s) j = ExSmootherCode.orthoRadial o nc f (fld o.nt a) (nc + s) j) →
      (l.foldl (radialStep o mf nc) (a, t)).1 = l.foldl (ExSmootherCode.radialStep o nc f) a ∧
      (∀ p q, q ∉ l → (l.foldl (radialStep o mf nc) (a, t)).2 p q = t p q) ∧
      (∀ p q, (p < nc ∨ q ∉ l) → p < o.nr → q < o.nt →
        fld o.nt (l.foldl (ExSmootherCode.radialStep o nc f) a) p q = fld o.nt a p q) := by
  intro l
  induction l with
  | nil =>
    intro _ _ a t _ _
    exact ⟨rfl, fun _ _ _ => rfl, fun _ _ _ _ _ => rfl⟩
  | cons j l ih =>
    intro hl hp a t hs ht
    have hj : j < o.nt := hl j (List.mem_cons_self ..)
    obtain ⟨hp1, hp2⟩ := List.pairwise_cons.mp hp
    have hsol := solveRadial_eq o nc f mf M t (fld o.nt a) j hj (ht j (List.mem_cons_self ..))
    have hg : radialStep o mf nc (a, t) j
        = (writeRadial o.nt nc a j (ExSmootherCode.solveRadial o nc f (fld o.nt a) j),
            fun p q => if nc ≤ p ∧ q = j then (ExSmootherCode.solveRadial o nc f (fld o.nt a) j).getD (p - nc) (Scalar.n 0)
              else t p q) := by
      unfold radialStep; simp only []; rw [hsol]
    have htk : ExSmootherCode.radialStep o nc f a j
        = writeRadial o.nt nc a j (ExSmootherCode.solveRadial o nc f (fld o.nt a) j) := rfl
    generalize ExSmootherCode.solveRadial o nc f (fld o.nt a) j = v at hg htk
    have hs1 : (writeRadial o.nt nc a j v).size = o.nr * o.nt := by rw [size_writeRadial]; exact hs
    have hfld : ∀ p q, ¬ (nc ≤ p ∧ q = j) → p < o.nr → q < o.nt →
        fld o.nt (writeRadial o.nt nc a j v) p q = fld o.nt a p q := by
      intro p q hpq hpn hq
      rw [fld_writeRadial o.nr o.nt nc a hs j v p q hpn hq, if_neg hpq]
    have ht1 : ∀ j' ∈ l, ∀ s, s < o.nr - nc →
        (fun p q => if nc ≤ p ∧ q = j then v.getD (p - nc) (Scalar.n 0) else t p q) (nc + s) j'
          = ExSmootherCode.orthoRadial o nc f (fld o.nt (writeRadial o.nt nc a j v)) (nc + s) j' := by
      intro j' hj' s hs'
      obtain ⟨n1, n2, n3⟩ := hp1 j' hj'
      have hj'nt : j' < o.nt := hl j' (List.mem_cons_of_mem _ hj')
      have hpos : 0 < o.nt := by omega
      simp only [if_neg (fun h : nc ≤ nc + s ∧ j' = j => n1 h.2.symm)]
      rw [ht j' (List.mem_cons_of_mem _ hj') s hs']
      apply orthoRadial_congr o nc f hnr _ _ (nc + s) j' (by omega)
      intro p q hpn hq
      have hqj : q ≠ j := by
        rcases hq with rfl | rfl | rfl
        · exact fun h => n1 h.symm
        · exact n2
        · exact n3
      have hqn : q < o.nt := by
        rcases hq with rfl | rfl | rfl
        · exact hj'nt
        · exact jm_lt o hpos _
        · exact jp_lt o hpos _
      exact (hfld p q (fun h => hqj h.2) hpn hqn).symm
    obtain ⟨h1, h2, h3⟩ := ih (fun k hk => hl k (List.mem_cons_of_mem _ hk)) hp2 (writeRadial o.nt nc a j v)
      (fun p q => if nc ≤ p ∧ q = j then v.getD (p - nc) (Scalar.n 0) else t p q) hs1 ht1
    refine ⟨by rw [List.foldl_cons, List.foldl_cons, hg, htk]; exact h1, ?_, ?_⟩
    · intro p q hql
      have hqj : q ≠ j := fun h => hql (by rw [h]; exact List.mem_cons_self ..)
      rw [List.foldl_cons, hg, h2 p q (fun h => hql (List.mem_cons_of_mem _ h))]
      simp only [if_neg (fun h : nc ≤ p ∧ q = j => hqj h.2)]
    · intro p q hpq hpn hq
      rw [List.foldl_cons, htk]
      have hnot : ¬ (nc ≤ p ∧ q = j) := by
        rintro ⟨h1', h2'⟩
        rcases hpq with hpq | hpq
        · omega
        · exact hpq (by rw [h2']; exact List.mem_cons_self ..)
      rw [h3 p q (by
        rcases hpq with hpq | hpq
        · exact Or.inl hpq
        · exact Or.inr (fun h => hpq (List.mem_cons_of_mem _ h))) hpn hq, hfld p q hnot hpn hq]

end
end ExSmootherGiveCode
