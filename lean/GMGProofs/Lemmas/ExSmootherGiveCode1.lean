import GMGModel.ExSmootherGiveCode
import GMGProofs.Lemmas.DirectGiveCode5
import GMGProofs.Lemmas.ExSmootherCode2
/-!
# Code-level extrapolated smoother (give), lemmas 1 — accumulating stores into the solver objects' memory

Generic part, independent of the node classes: a memory maps every array (`Arr`) to its slots `(column, value)`; one store
either hits no branch of its macro (`skip`), or addresses slot `q` of an array (column overwritten, value accumulated), or is
out of bounds.
* `run_spec`: if every store of a list fits the memory's shape, the fold succeeds, keeps the shape, and every slot evolves
  independently (`slotFold`);
* `slotFold_snd`, `slotFold_fst`: a slot's final value is its initial value plus the sum of the values addressed to it
  (`slotSum`); its column is the common column of these stores (if there is at least one);
* `vals_eq`: the values of an array as a table.
-/
set_option linter.unusedSectionVars false
set_option linter.unusedVariables false
namespace ExSmootherGiveCode
open Stencil SparseLU
variable {K : Type} [_root_.Field K]

section mem
variable (o : Op K) (nc : Nat)

/-- all stores of a list, in order -/
def runStores (m0 : Mem K) (us : List (Upd K)) : Option (Mem K) :=
  us.foldl (fun st u => st.bind fun m => applyUpd o nc m u) (some m0)

/-- what happens to one slot -/
def slotFold (a : Arr) (q : Nat) (e : Nat × K) (us : List (Upd K)) : Nat × K :=
  us.foldl (fun e u => if target o nc u = .slot a q then (u.col, e.2 + u.val) else e) e

/-- the sum of the values addressed to a slot -/
def slotSum (us : List (Upd K)) (a : Arr) (q : Nat) : K :=
  (us.map fun u => if target o nc u = .slot a q then u.val else 0).sum

/-- a store fits a memory: it hits no branch, or its slot exists -/
def Fits (m : Mem K) (u : Upd K) : Prop :=
  target o nc u = .skip ∨ ∃ a q, target o nc u = .slot a q ∧ q < (m a).length

theorem applyUpd_spec (m : Mem K) (u : Upd K) (h : Fits o nc m u) :
    ∃ m', applyUpd o nc m u = some m' ∧ (∀ a, (m' a).length = (m a).length) ∧
      ∀ a q, (m' a).getD q (0, Scalar.n 0)
        = if target o nc u = .slot a q then (u.col, ((m a).getD q (0, Scalar.n 0)).2 + u.val)
          else (m a).getD q (0, Scalar.n 0) := by
  rcases h with h | ⟨a0, q0, h, hq⟩
  · refine ⟨m, by unfold applyUpd; rw [h], fun _ => rfl, fun a q => ?_⟩
    rw [h, if_neg (by simp)]
  · refine ⟨_, by unfold applyUpd; rw [h]; simp only; rw [if_pos hq], ?_, ?_⟩
    · intro a
      by_cases ha : a = a0
      · subst ha; simp
      · simp [ha]
    · intro a q
      rw [h]
      by_cases ha : a = a0
      · subst ha
        simp only [if_true]
        rw [DirectGiveCode.getD_set']
        by_cases hqq : q0 = q
        · subst hqq
          rw [if_pos ⟨rfl, hq⟩, if_pos rfl]
        · rw [if_neg (fun hh => hqq hh.1), if_neg (by simp; exact fun h' => hqq h')]
      · simp only [ha, if_false]
        rw [if_neg (by simp; exact fun h' _ => ha h'.symm)]

theorem run_cons_some (m0 m1 : Mem K) (u : Upd K) (us : List (Upd K)) (h : applyUpd o nc m0 u = some m1) :
    runStores o nc m0 (u :: us) = runStores o nc m1 us := by
  unfold runStores
  rw [List.foldl_cons]
  show List.foldl _ (applyUpd o nc m0 u) us = _
  rw [h]

/-- **stores that fit succeed, keep the shape, and act slot by slot** -/
theorem run_spec : ∀ (us : List (Upd K)) (m0 : Mem K), (∀ u ∈ us, Fits o nc m0 u) →
    ∃ mf, runStores o nc m0 us = some mf ∧ (∀ a, (mf a).length = (m0 a).length) ∧
      ∀ a q, (mf a).getD q (0, Scalar.n 0) = slotFold o nc a q ((m0 a).getD q (0, Scalar.n 0)) us := by
  intro us
  induction us with
  | nil => intro m0 _; exact ⟨m0, rfl, fun _ => rfl, fun _ _ => rfl⟩
  | cons u us ih =>
    intro m0 hin
    obtain ⟨m1, h1, hl1, hd1⟩ := applyUpd_spec o nc m0 u (hin u (List.mem_cons_self ..))
    obtain ⟨mf, h2, hl2, hd2⟩ := ih m1 (fun w hw => by
      rcases hin w (List.mem_cons_of_mem _ hw) with h | ⟨a, q, h, hq⟩
      · exact Or.inl h
      · exact Or.inr ⟨a, q, h, by rw [hl1]; exact hq⟩)
    refine ⟨mf, by rw [run_cons_some o nc m0 m1 u us h1]; exact h2, fun a => by rw [hl2, hl1], ?_⟩
    intro a q
    rw [hd2, hd1]
    rfl

theorem slotFold_cons (a : Arr) (q : Nat) (e : Nat × K) (u : Upd K) (us : List (Upd K)) :
    slotFold o nc a q e (u :: us)
      = slotFold o nc a q (if target o nc u = .slot a q then (u.col, e.2 + u.val) else e) us := rfl

/-- the value of a slot: initial value plus everything addressed to it -/
theorem slotFold_snd (a : Arr) (q : Nat) : ∀ (us : List (Upd K)) (e : Nat × K),
    (slotFold o nc a q e us).2 = e.2 + slotSum o nc us a q := by
  intro us
  induction us with
  | nil => intro e; simp [slotFold, slotSum]
  | cons u us ih =>
    intro e
    rw [slotFold_cons, ih]
    unfold slotSum
    rw [List.map_cons, List.sum_cons]
    by_cases h : target o nc u = .slot a q
    · simp only [if_pos h]; ring
    · simp only [if_neg h]; ring

/-- the column of a slot that received at least one store, all of them with column `C` -/
theorem slotFold_fst (a : Arr) (q : Nat) (C : Nat) : ∀ (us : List (Upd K)) (e : Nat × K),
    (∀ u ∈ us, target o nc u = .slot a q → u.col = C) → ((∃ u ∈ us, target o nc u = .slot a q) ∨ e.1 = C) →
    (slotFold o nc a q e us).1 = C := by
  intro us
  induction us with
  | nil =>
    intro e _ h
    rcases h with ⟨u, hu, _⟩ | h
    · cases hu
    · exact h
  | cons u us ih =>
    intro e hC h
    rw [slotFold_cons]
    apply ih _ (fun w hw => hC w (List.mem_cons_of_mem _ hw))
    by_cases hu : target o nc u = .slot a q
    · right; rw [if_pos hu]; exact hC u (List.mem_cons_self ..) hu
    · rw [if_neg hu]
      rcases h with ⟨w, hw, hw'⟩ | h
      · rcases List.mem_cons.mp hw with rfl | hw
        · exact absurd hw' hu
        · exact Or.inl ⟨w, hw, hw'⟩
      · exact Or.inr h

theorem slotSum_append (us vs : List (Upd K)) (a : Arr) (q : Nat) :
    slotSum o nc (us ++ vs) a q = slotSum o nc us a q + slotSum o nc vs a q := by
  simp [slotSum]

theorem slotSum_flatMap {β : Type} (l : List β) (g : β → List (Upd K)) (a : Arr) (q : Nat) :
    slotSum o nc (l.flatMap g) a q = (l.map fun p => slotSum o nc (g p) a q).sum := by
  induction l with
  | nil => simp [slotSum]
  | cons p l ih => simp [List.flatMap_cons, slotSum_append, ih]

end mem

/-- the values of an array as a table -/
theorem vals_eq (m : Mem K) (a : Arr) :
    vals m a = (List.range (m a).length).map fun q => ((m a).getD q (0, Scalar.n 0)).2 := by
  unfold vals
  apply List.ext_getElem
  · simp
  · intro i h1 h2
    simp only [List.getElem_map, List.getElem_range]
    rw [List.getD_eq_getElem?_getD, List.getElem?_eq_getElem (by simpa using h1)]
    rfl

end ExSmootherGiveCode
