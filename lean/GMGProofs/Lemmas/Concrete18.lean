import GMGProofs.Lemmas.Concrete6
/-!
# The implicitly extrapolated cycle respects a relation between iterates (abstract operators)
core Lean only.
* `excyc_shift`: the analogue of `MGCycle.cyc_shift` for `MGCycle.excyc`: a relation `S` between iterates ("shifted by `w`") that the
  level-0 smoother of the extrapolated cycle respects (with the pairs of right-hand sides `f`, `f'`), under which the right-hand
  sides of the extrapolated coarse problem (`lin43 (exRestrict (resid₀ …)) (resid₁ … (inject …))`) are EQUAL, and that the
  correction step respects, is respected by one extrapolated cycle.
-/
namespace MGCycle
variable {V : Type}

/-- the right-hand side of the coarse problem of the implicitly extrapolated cycle -/
def exRhs (o : Ops V) (f f1 x : V) : V := o.lin43 (o.exRestrict 0 (o.resid 0 f x)) (o.resid 1 f1 (o.inject 0 x))

theorem excyc_eq (o : Ops V) (c : Cfg) (k : Kind) (fgs : Bool) (u f f1 : V) :
    excyc o c k fgs u f f1 =
      iter (exSmF o fgs f) c.nu2 (o.add (iter (exSmF o fgs f) c.nu1 u)
        (o.exProlong 1 (coarseOrSolve o c k (c.levels - 2) 1 (exRhs o f f1 (iter (exSmF o fgs f) c.nu1 u))))) := rfl

/-- one implicitly extrapolated cycle respects a relation `S` between iterates that the level-0 smoother (with right-hand sides
    `f`, `f'`) respects, under which the two coarse right-hand sides are EQUAL, and that the correction step respects for
    corrections in `G` -/
theorem excyc_shift (o : Ops V) (c : Cfg) (k : Kind) (fgs : Bool) (f f' f1 f1' : V) (S : V → V → Prop) (G : V → Prop)
    (hs : ∀ x x', S x x' → S (exSmF o fgs f x) (exSmF o fgs f' x'))
    (hrhs : ∀ x x', S x x' → exRhs o f' f1' x' = exRhs o f f1 x)
    (hG : ∀ x x', S x x' → G (o.exProlong 1 (coarseOrSolve o c k (c.levels - 2) 1 (exRhs o f f1 x))))
    (hadd : ∀ x x' e, S x x' → G e → S (o.add x e) (o.add x' e))
    (u u' : V) (h : S u u') : S (excyc o c k fgs u f f1) (excyc o c k fgs u' f' f1') := by
  rw [excyc_eq, excyc_eq]
  have h1 : S (iter (exSmF o fgs f) c.nu1 u) (iter (exSmF o fgs f') c.nu1 u') := iter_rel _ _ S hs _ _ _ h
  generalize iter (exSmF o fgs f) c.nu1 u = u1 at h1 ⊢
  generalize iter (exSmF o fgs f') c.nu1 u' = u1' at h1 ⊢
  rw [hrhs u1 u1' h1]
  exact iter_rel _ _ S hs _ _ _ (hadd _ _ _ h1 (hG u1 u1' h1))

end MGCycle
