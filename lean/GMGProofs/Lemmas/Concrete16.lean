import GMGProofs.Lemmas.Concrete12
import GMGProofs.Lemmas.CycleFmg
/-!
# Invariants and agreement of nested iteration (`MGCycle.fmgSpec`) over abstract operators
core Lean only.
* `excyc_inv`: the implicitly extrapolated cycle on level 0 preserves the invariant (`ExOpsInvR`: as `ExOpsInv`, with a predicate
  `R` on the level-1 right-hand side — "present" for the totality proofs, `True` for "right-sized if present");
* `cycleSpec_inv`, `fmgSpec_inv`: if the operators preserve per-level predicates (`OpsInv`) and the FMG interpolation maps
  `P (l + 1)` to `P l`, nested iteration from level `cur` maps `P cur` to `P 0`;
* `cycleSpec_agree`, `fmgSpec_agree`: two operator families that agree on invariant arguments (`OpsAgree`, `ExOpsAgree`) and share
  the FMG interpolation compute the same nested iteration.
-/
namespace MGCycle
variable {V : Type}

/-- what the extra steps of the implicitly extrapolated cycle on level 0 have to preserve; `R`: what is known about the level-1
    right-hand side -/
structure ExOpsInvR (o : Ops V) (fgs : Bool) (P Q : Nat → V → Prop) (R : V → Prop) : Prop where
  exSm : ∀ x f, P 0 x → Q 0 f → P 0 (exSmF o fgs f x)
  exRhs : ∀ f f1 x, Q 0 f → R f1 → P 0 x →
    Q 1 (o.lin43 (o.exRestrict 0 (o.resid 0 f x)) (o.resid 1 f1 (o.inject 0 x)))
  add_exProlong : ∀ x e, P 0 x → P 1 e → P 0 (o.add x (o.exProlong 1 e))

theorem ExOpsInv.toR {o : Ops V} {fgs : Bool} {P Q : Nat → V → Prop} (E : ExOpsInv o fgs P Q) :
    ExOpsInvR o fgs P Q (fun _ => True) :=
  ⟨E.exSm, fun f f1 x hf _ hx => E.exRhs f f1 x hf hx, E.add_exProlong⟩

/-- the implicitly extrapolated cycle preserves the invariant on level 0 -/
theorem excyc_inv (o : Ops V) (c : Cfg) (P Q : Nat → V → Prop) (R : V → Prop) (I : OpsInv o c P Q) (fgs : Bool)
    (EI : ExOpsInvR o fgs P Q R) (hL : 1 ≤ c.levels - 1) (k : Kind) (u f f1 : V) (hu : P 0 u) (hf : Q 0 f) (hf1 : R f1) :
    P 0 (excyc o c k fgs u f f1) := by
  unfold excyc
  show P 0 (iter (exSmF o fgs f) c.nu2 (o.add (iter (exSmF o fgs f) c.nu1 u) (o.exProlong 1 (coarseOrSolve o c k (c.levels - 2) 1
      (o.lin43 (o.exRestrict 0 (o.resid 0 f (iter (exSmF o fgs f) c.nu1 u)))
        (o.resid 1 f1 (o.inject 0 (iter (exSmF o fgs f) c.nu1 u))))))))
  have hu1 : P 0 (iter (exSmF o fgs f) c.nu1 u) := iter_inv _ (P 0) (fun v hv => EI.exSm v f hv hf) _ _ hu
  generalize iter (exSmF o fgs f) c.nu1 u = u1 at hu1 ⊢
  have hg := EI.exRhs f f1 u1 hf hf1 hu1
  generalize o.lin43 (o.exRestrict 0 (o.resid 0 f u1)) (o.resid 1 f1 (o.inject 0 u1)) = g at hg ⊢
  have he : P 1 (coarseOrSolve o c k (c.levels - 2) 1 g) := coarseOrSolve_inv o c P Q I _ k 1 g hL hg
  exact iter_inv _ (P 0) (fun v hv => EI.exSm v f hv hf) _ _ (EI.add_exProlong u1 _ hu1 he)

/-- the cycle the start-up runs on level `d` (plain, or — `ex` and `d = 0` — implicitly extrapolated) preserves the invariant -/
theorem cycleSpec_inv (o : Ops V) (c : Cfg) (P Q : Nat → V → Prop) (R : V → Prop) (I : OpsInv o c P Q) (ex fgs : Bool)
    (g : Nat → V) (hex : ex = true → ExOpsInvR o fgs P Q R ∧ R (g 1)) (k : Kind) (d : Nat) (u : V)
    (hd : d < c.levels - 1) (hu : P d u) (hg : Q d (g d)) : P d (cycleSpec o c k (exAt ex d) fgs g d u) := by
  unfold cycleSpec
  split
  · rename_i h
    have h' : ex = true ∧ d = 0 := by unfold exAt at h; exact of_decide_eq_true h
    obtain ⟨he, hd0⟩ := h'
    subst hd0
    exact excyc_inv o c P Q R I fgs (hex he).1 (by omega) k u (g 0) (g 1) hu hg (hex he).2
  · exact cyc_inv o c P Q I _ k d u (g d) hd hu hg

/-- **nested iteration preserves the invariant**: from `P cur` on level `cur` to `P 0` on level 0 -/
theorem fmgSpec_inv (o : Ops V) (c : Cfg) (P Q : Nat → V → Prop) (R : V → Prop) (I : OpsInv o c P Q) (ex fgs : Bool)
    (g : Nat → V) (hex : ex = true → ExOpsInvR o fgs P Q R ∧ R (g 1)) (fk : Kind) (fi : Nat)
    (hfi : ∀ l s, l < c.levels - 1 → P (l + 1) s → P l (o.fmgInterp (l + 1) s))
    (hg : ∀ l, l < c.levels - 1 → Q l (g l)) :
    ∀ (cur : Nat) (s : V), cur ≤ c.levels - 1 → P cur s → P 0 (fmgSpec o c fk fi ex fgs g cur s)
  | 0, _, _, hs => hs
  | cur + 1, s, hc, hs => by
      show P 0 (fmgSpec o c fk fi ex fgs g cur (iter (cycleSpec o c fk (exAt ex cur) fgs g cur) fi (o.fmgInterp (cur + 1) s)))
      have hcur : cur < c.levels - 1 := by omega
      exact fmgSpec_inv o c P Q R I ex fgs g hex fk fi hfi hg cur _ (by omega)
        (iter_inv _ (P cur) (fun v hv => cycleSpec_inv o c P Q R I ex fgs g hex fk cur v hcur hv (hg cur hcur)) fi _
          (hfi cur s hcur hs))

theorem fmgSpec_succ (o : Ops V) (c : Cfg) (fk : Kind) (fi : Nat) (ex fgs : Bool) (g : Nat → V) (cur : Nat) (s : V) :
    fmgSpec o c fk fi ex fgs g (cur + 1) s =
      fmgSpec o c fk fi ex fgs g cur (iter (cycleSpec o c fk (exAt ex cur) fgs g cur) fi (o.fmgInterp (cur + 1) s)) := rfl

/-- without FMG cycles (`fi = 0`) nested iteration does not read the level right-hand sides -/
theorem fmgSpec_zero_rhs (o : Ops V) (c : Cfg) (fk : Kind) (ex fgs : Bool) (g g' : Nat → V) :
    ∀ (cur : Nat) (s : V), fmgSpec o c fk 0 ex fgs g cur s = fmgSpec o c fk 0 ex fgs g' cur s
  | 0, _ => rfl
  | cur + 1, s => fmgSpec_zero_rhs o c fk ex fgs g g' cur (o.fmgInterp (cur + 1) s)

/-- the cycles the start-up runs over two agreeing operator families return the same value -/
theorem cycleSpec_agree (o₁ o₂ : Ops V) (c : Cfg) (P Q : Nat → V → Prop) (A : OpsAgree o₁ o₂ c P Q) (I : OpsInv o₂ c P Q)
    (ex fgs : Bool) (hex : ex = true → ExOpsAgree o₁ o₂ fgs P Q ∧ ExOpsInv o₂ fgs P Q) (g : Nat → V) (k : Kind) (d : Nat) (u : V)
    (hd : d < c.levels - 1) (hu : P d u) (hg : Q d (g d)) :
    cycleSpec o₁ c k (exAt ex d) fgs g d u = cycleSpec o₂ c k (exAt ex d) fgs g d u := by
  unfold cycleSpec
  split
  · rename_i h
    have h' : ex = true ∧ d = 0 := by unfold exAt at h; exact of_decide_eq_true h
    obtain ⟨he, hd0⟩ := h'
    subst hd0
    exact excyc_agree o₁ o₂ c P Q A I fgs (hex he).1 (hex he).2 (by omega) k u (g 0) (g 1) hu hg
  · exact cyc_agree o₁ o₂ c P Q A I _ k d u (g d) hd hu hg

/-- **nested iteration over two agreeing operator families (same FMG interpolation) returns the same value** -/
theorem fmgSpec_agree (o₁ o₂ : Ops V) (c : Cfg) (P Q : Nat → V → Prop) (A : OpsAgree o₁ o₂ c P Q) (I : OpsInv o₂ c P Q)
    (ex fgs : Bool) (hex : ex = true → ExOpsAgree o₁ o₂ fgs P Q ∧ ExOpsInv o₂ fgs P Q) (g : Nat → V) (fk : Kind) (fi : Nat)
    (hfiA : ∀ l s, o₁.fmgInterp l s = o₂.fmgInterp l s)
    (hfi : ∀ l s, l < c.levels - 1 → P (l + 1) s → P l (o₂.fmgInterp (l + 1) s))
    (hg : ∀ l, l < c.levels - 1 → Q l (g l)) :
    ∀ (cur : Nat) (s : V), cur ≤ c.levels - 1 → P cur s →
      fmgSpec o₁ c fk fi ex fgs g cur s = fmgSpec o₂ c fk fi ex fgs g cur s
  | 0, _, _, _ => rfl
  | cur + 1, s, hc, hs => by
      show fmgSpec o₁ c fk fi ex fgs g cur (iter (cycleSpec o₁ c fk (exAt ex cur) fgs g cur) fi (o₁.fmgInterp (cur + 1) s)) =
        fmgSpec o₂ c fk fi ex fgs g cur (iter (cycleSpec o₂ c fk (exAt ex cur) fgs g cur) fi (o₂.fmgInterp (cur + 1) s))
      have hcur : cur < c.levels - 1 := by omega
      have hinv : ∀ v, P cur v → P cur (cycleSpec o₂ c fk (exAt ex cur) fgs g cur v) := fun v hv =>
        cycleSpec_inv o₂ c P Q (fun _ => True) I ex fgs g (fun h => ⟨(hex h).2.toR, trivial⟩) fk cur v hcur hv (hg cur hcur)
      have ht : P cur (o₂.fmgInterp (cur + 1) s) := hfi cur s hcur hs
      rw [hfiA, iter_agree _ _ (P cur)
        (fun v hv => cycleSpec_agree o₁ o₂ c P Q A I ex fgs hex g fk cur v hcur hv (hg cur hcur)) hinv fi _ ht]
      exact fmgSpec_agree o₁ o₂ c P Q A I ex fgs hex g fk fi hfiA hfi hg cur _ (by omega)
        (iter_inv _ (P cur) hinv fi _ ht)

end MGCycle
