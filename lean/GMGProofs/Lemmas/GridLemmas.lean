import GMGModel.Grid
/-! Helper lemmas for C17 (core Lean only). -/
namespace Grid

/-- what the constructors guarantee about the shape record -/
structure Valid (g : Grid) : Prop where
  nt_pos : 0 < g.nt
  nc_le : g.nc ≤ g.nr
  flag : g.pow2 = pow2Flag g.nt
  nt_small : g.nt < 2 ^ 31

theorem pow2Flag_iff {nt : Nat} (h : 0 < nt) : pow2Flag nt = true ↔ nt.isPowerOfTwo := by
  unfold pow2Flag
  rw [beq_iff_eq]
  exact Nat.and_sub_one_eq_zero_iff_isPowerOfTwo (by omega)

theorem tmod_wrap (x n : Int) (hn : 0 < n) : Int.tmod (Int.tmod x n + n) n = x % n := by
  have h0 : 0 ≤ x % n := Int.emod_nonneg x (by omega)
  have h1 : x % n < n := Int.emod_lt_of_pos x hn
  rw [Int.tmod_eq_emod (a := x)]
  by_cases hc : 0 ≤ x ∨ n ∣ x
  · simp only [hc, if_true]
    have : 0 ≤ x % n - ((0 : Nat) : Int) + n := by omega
    rw [Int.tmod_eq_emod_of_nonneg this]
    simp [Int.add_emod_right, Int.emod_emod_of_dvd x (Int.dvd_refl n)]
  · simp only [hc, if_false]
    have hnn : ((n.natAbs : Nat) : Int) = n := by omega
    rw [hnn]
    have : 0 ≤ x % n - n + n := by omega
    rw [Int.tmod_eq_emod_of_nonneg this]
    have : x % n - n + n = x % n := by omega
    rw [this, Int.emod_emod_of_dvd x (Int.dvd_refl n)]

theorem and32_pow2 (x : Int) (k : Nat) (hk : k ≤ 32) :
    ((and32 x (2 ^ k - 1) : Nat) : Int) = x % (2 ^ k : Int) := by
  unfold and32
  rw [Nat.and_two_pow_sub_one_eq_mod]
  have hpos : (0 : Int) ≤ x % 2 ^ 32 := Int.emod_nonneg x (by decide)
  have h2 : (0 : Int) ≤ (2 : Int) ^ k := Int.le_of_lt (Int.pow_pos (by decide))
  have e : ((2 ^ k : Nat) : Int) = (2 : Int) ^ k := by simp
  have : (((x % 2 ^ 32).toNat % 2 ^ k : Nat) : Int) = (x % 2 ^ 32) % (2 : Int) ^ k := by
    rw [Int.natCast_emod, Int.toNat_of_nonneg hpos, e]
  rw [this]
  apply Int.emod_emod_of_dvd
  exact ⟨(2 : Int) ^ (32 - k), by rw [← Int.pow_add]; congr 1; omega⟩

end Grid
