import GMGModel.GridGen
import Mathlib.Tactic.Ring
import Mathlib.Tactic.Linarith
import Mathlib.Tactic.Positivity
import Mathlib.Tactic.FieldSimp
import Mathlib.Tactic.NormNum
import Mathlib.Algebra.Order.Field.Rat
/-!
# Grid generation: list-level lemmas (uniform division, midpoint refinement, `divideVector`)

Everything is phrased through `List.getD · 0`, the accessor the model itself uses.
-/
namespace GridGenL
open GridGen

/-- strictly increasing list -/
def StrictInc (l : List Rat) : Prop := List.Pairwise (· < ·) l

/-- every odd entry is the arithmetic mean of its two neighbours -/
def Midpoints (l : List Rat) : Prop :=
  ∀ i, i % 2 = 1 → i + 1 < l.length → l.getD i 0 = (l.getD (i - 1) 0 + l.getD (i + 1) 0) / 2

/-- arithmetic progression `s, s + h, …` of `n` entries -/
def ap (s h : Rat) (n : Nat) : List Rat := (List.range n).map fun (i : Nat) => s + ((i : Int) : Rat) * h

theorem getD_map_range (f : Nat → Rat) (n i : Nat) (h : i < n) :
    ((List.range n).map f).getD i 0 = f i := by
  simp [List.getD_eq_getElem?_getD, h]

theorem getD_eq_getElem (l : List Rat) (i : Nat) (h : i < l.length) : l.getD i 0 = l[i] := by
  simp [List.getD_eq_getElem?_getD, h]

theorem ext_getD (l₁ l₂ : List Rat) (hl : l₁.length = l₂.length)
    (h : ∀ i, i < l₁.length → l₁.getD i 0 = l₂.getD i 0) : l₁ = l₂ := by
  apply List.ext_getElem hl
  intro i h1 h2
  have := h i h1
  rwa [getD_eq_getElem _ _ h1, getD_eq_getElem _ _ h2] at this

theorem eq_map_range (l : List Rat) : l = (List.range l.length).map fun i => l.getD i 0 := by
  apply ext_getD
  · simp
  · intro i hi
    rw [getD_map_range _ _ _ hi]

/-- a sequence with increasing neighbours is increasing -/
theorem mono_of_step (f : Nat → Rat) (n : Nat) (h : ∀ k, k + 1 < n → f k < f (k + 1)) :
    ∀ i j, i < j → j < n → f i < f j := by
  intro i j hij
  induction j with
  | zero => omega
  | succ j ih =>
    intro hj
    by_cases hij' : i = j
    · subst hij'; exact h i hj
    · exact lt_trans (ih (by omega) (by omega)) (h j hj)

theorem strictInc_of_step (l : List Rat)
    (h : ∀ k, k + 1 < l.length → l.getD k 0 < l.getD (k + 1) 0) : StrictInc l := by
  unfold StrictInc
  rw [List.pairwise_iff_getElem]
  intro i j hi hj hij
  have : l.getD i 0 < l.getD j 0 := mono_of_step (fun k => l.getD k 0) l.length h i j hij hj
  rwa [getD_eq_getElem _ _ hi, getD_eq_getElem _ _ hj] at this

theorem StrictInc.lt {l : List Rat} (h : StrictInc l) {i j : Nat} (hij : i < j) (hj : j < l.length) :
    l.getD i 0 < l.getD j 0 := by
  unfold StrictInc at h
  rw [List.pairwise_iff_getElem] at h
  have := h i j (by omega) hj hij
  rwa [getD_eq_getElem _ _ (by omega), getD_eq_getElem _ _ hj]

theorem head?_eq_getD (l : List Rat) (h : 0 < l.length) : l.head? = some (l.getD 0 0) := by
  cases l with
  | nil => simp at h
  | cons a t => simp

theorem getLast?_eq_getD (l : List Rat) (h : 0 < l.length) : l.getLast? = some (l.getD (l.length - 1) 0) := by
  rw [List.getLast?_eq_getElem?, List.getD_eq_getElem?_getD]
  have : l.length - 1 < l.length := by omega
  simp [this]

theorem getLastD_eq_getD (l : List Rat) (h : 0 < l.length) : l.getLastD 0 = l.getD (l.length - 1) 0 := by
  have := getLast?_eq_getD l h
  cases l with
  | nil => simp at h
  | cons a t =>
    simp only [List.getLastD_cons]
    rw [List.getLast?_cons] at this
    simpa using this

/-! ## arithmetic progressions -/

@[simp] theorem ap_length (s h : Rat) (n : Nat) : (ap s h n).length = n := by simp [ap]

theorem ap_getD (s h : Rat) (n i : Nat) (hi : i < n) : (ap s h n).getD i 0 = s + (i : Rat) * h := by
  unfold ap; rw [getD_map_range _ _ _ hi]; simp

theorem ap_strictInc (s h : Rat) (n : Nat) (hh : 0 < h) : StrictInc (ap s h n) := by
  apply strictInc_of_step
  intro k hk
  simp only [ap_length] at hk
  rw [ap_getD _ _ _ _ (by omega), ap_getD _ _ _ _ hk]
  push_cast
  linarith

theorem ap_succ (s h : Rat) (n : Nat) : ap s h (n + 1) = ap s h n ++ [s + (n : Rat) * h] := by
  unfold ap; rw [List.range_succ, List.map_append]; simp

/-! ## uniform division -/

theorem uniformTemp_eq (R0 R : Rat) (nrExp : Int) (h1 : 1 ≤ nrExp) :
    uniformTemp R0 R nrExp
      = .ok (ap R0 ((R - R0) / ((2 ^ (nrExp.toNat - 1) : Nat) : Rat)) (2 ^ (nrExp.toNat - 1) + 1)) := by
  unfold uniformTemp
  rw [if_neg (by omega)]
  simp only [Nat.add_sub_cancel]
  congr 1
  rw [ap_succ]
  have : ((2 ^ (nrExp.toNat - 1) : Nat) : Rat) ≠ 0 := by positivity
  have e : R0 + ((2 ^ (nrExp.toNat - 1) : Nat) : Rat) * ((R - R0) / ((2 ^ (nrExp.toNat - 1) : Nat) : Rat)) = R := by
    field_simp
    ring
  rw [e]
  unfold ap
  simp

/-! ## midpoint refinement -/

theorem midpointRefine_length (t : List Rat) : (midpointRefine t).length = 2 * t.length - 1 := by
  simp [midpointRefine]

theorem midpointRefine_even (t : List Rat) (k : Nat) (hk : k < t.length) :
    (midpointRefine t).getD (2 * k) 0 = t.getD k 0 := by
  unfold midpointRefine
  rw [getD_map_range _ _ _ (by omega)]
  simp

theorem midpointRefine_odd (t : List Rat) (k : Nat) (hk : k + 1 < t.length) :
    (midpointRefine t).getD (2 * k + 1) 0 = (t.getD k 0 + t.getD (k + 1) 0) / 2 := by
  unfold midpointRefine
  rw [getD_map_range _ _ _ (by omega)]
  have h1 : (2 * k + 1) % 2 = 1 := by omega
  have h2 : (2 * k + 1 - 1) / 2 = k := by omega
  have h3 : (2 * k + 1 + 1) / 2 = k + 1 := by omega
  simp only [h1, h2, h3]
  norm_num
  ring

theorem midpointRefine_midpoints (t : List Rat) : Midpoints (midpointRefine t) := by
  intro i hi hlen
  rw [midpointRefine_length] at hlen
  obtain ⟨k, rfl⟩ : ∃ k, i = 2 * k + 1 := ⟨i / 2, by omega⟩
  rw [midpointRefine_odd t k (by omega)]
  have e1 : 2 * k + 1 - 1 = 2 * k := by omega
  have e2 : 2 * k + 1 + 1 = 2 * (k + 1) := by omega
  rw [e1, e2, midpointRefine_even t k (by omega), midpointRefine_even t (k + 1) (by omega)]

theorem midpointRefine_strictInc (t : List Rat) (ht : StrictInc t) : StrictInc (midpointRefine t) := by
  apply strictInc_of_step
  intro i hi
  rw [midpointRefine_length] at hi
  rcases Nat.even_or_odd' i with ⟨k, rfl | rfl⟩
  · rw [midpointRefine_even t k (by omega), midpointRefine_odd t k (by omega)]
    have := ht.lt (i := k) (j := k + 1) (by omega) (by omega)
    linarith
  · have e2 : 2 * k + 1 + 1 = 2 * (k + 1) := by omega
    rw [e2, midpointRefine_even t (k + 1) (by omega), midpointRefine_odd t k (by omega)]
    have := ht.lt (i := k) (j := k + 1) (by omega) (by omega)
    linarith

theorem midpointRefine_first (t : List Rat) (h : 0 < t.length) :
    (midpointRefine t).getD 0 0 = t.getD 0 0 := midpointRefine_even t 0 h

theorem midpointRefine_last (t : List Rat) (h : 0 < t.length) :
    (midpointRefine t).getD ((midpointRefine t).length - 1) 0 = t.getD (t.length - 1) 0 := by
  rw [midpointRefine_length]
  have : 2 * t.length - 1 - 1 = 2 * (t.length - 1) := by omega
  rw [this, midpointRefine_even t _ (by omega)]

end GridGenL
