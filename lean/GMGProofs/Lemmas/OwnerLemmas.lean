import GMGModel.Owner
/-! Separation of the loops of one barrier interval implies race freedom of an owner-computes region. -/
namespace Owner
open Sched (Shape)

theorem same_loop_disjoint (l : OLoop) (s : Shape) (t t' : Int) (h : t ≠ t') (a : String) (r c : Int) :
    ¬ (l.touches s t a r c ∧ l.touches s t' a r c) := by
  intro ⟨h1, h2⟩
  unfold OLoop.touches at h1 h2
  obtain ⟨_, h1⟩ := h1
  obtain ⟨_, h2⟩ := h2
  cases hk : l.kind <;> simp only [hk] at h1 h2
  · omega
  · omega
  · omega

theorem sep_disjoint (l l' : OLoop) (s : Shape) (hs : LoopsSep s l l') (t t' : Int) (ht : l.iter s t) (ht' : l'.iter s t')
    (a : String) (r c : Int) : ¬ (l.touches s t a r c ∧ l'.touches s t' a r c) := by
  intro ⟨h1, h2⟩
  unfold OLoop.touches at h1 h2
  obtain ⟨ha, h1⟩ := h1
  obtain ⟨ha', h2⟩ := h2
  unfold LoopsSep at hs
  rcases hs with hs | hs
  · exact hs a ha ha'
  · unfold OLoop.iter at ht ht'
    cases hk : l.kind <;> cases hk' : l'.kind <;> simp only [hk, hk'] at h1 h2 hs ht ht' <;> omega

theorem raceFree_of_separated (s : Shape) (reg : ORegion) (h : Separated s reg) : RaceFree s reg := by
  refine ⟨?_, ?_⟩
  · intro l _ t t' _ _ hne a r c
    exact same_loop_disjoint l s t t' hne a r c
  · intro p hp t t' ht ht' a r c
    exact sep_disjoint _ _ s (h p hp) t t' ht ht' a r c

end Owner
