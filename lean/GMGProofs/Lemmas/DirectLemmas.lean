import GMGProofs.Lemmas.SmootherLemmas
import GMGProofs.Lemmas.SparseLULemmas
import GMGProofs.Lemmas.StencilLemmas6
/-!
# Direct-solve lemmas — the operator `A` is linear, its matrix, and the row-major numbering

* `A_add_smul`, `A_sum_range`: every row of `A` is a fixed linear combination.
* `oneHot`, `opEntry`, `A_expand`: `A x = Σ_s Σ_t opEntry · x s t` on the grid.
* `sum_range_mul`: `Σ_{k < nr·nt} g k = Σ_s Σ_t g (s·nt + t)`.
* `solve_length`: the vector returned by `SparseLU.solve` has `rows` entries.
* `A_injective_dirichlet`: with Dirichlet inner boundary and elliptic data, `A` is injective on grid fields.
-/
set_option linter.unusedSectionVars false
namespace Direct
open Stencil Finset
variable {K : Type} [_root_.Field K]

/-- unit field of node `(s, t)` -/
def oneHot (s t : Nat) : Stencil.Field K := fun a b => if a = s ∧ b = t then 1 else 0

/-- matrix entry of the operator: row `(i, j)`, column `(s, t)` -/
def opEntry (o : Op K) (i j s t : Nat) : K := A o (oneHot s t) i j

theorem A_add_smul (o : Op K) (x y : Stencil.Field K) (c : K) (i j : Nat) :
    A o (fun a b => x a b + c * y a b) i j = A o x i j + c * A o y i j := by
  unfold A take
  split
  · simp only [takeInterior]; ring
  · split
    · rename_i h; subst h
      split
      · ring
      · simp only [takeOrigin]; ring
    · ring

theorem A_add (o : Op K) (x y : Stencil.Field K) (i j : Nat) :
    A o (fun a b => x a b + y a b) i j = A o x i j + A o y i j := by
  have := A_add_smul o x y 1 i j
  simpa using this

theorem A_smul (o : Op K) (y : Stencil.Field K) (c : K) (i j : Nat) :
    A o (fun a b => c * y a b) i j = c * A o y i j := by
  unfold A take
  split
  · simp only [takeInterior]; ring
  · split
    · rename_i h; subst h
      split
      · ring
      · simp only [takeOrigin]; ring
    · ring

theorem A_sub (o : Op K) (x y : Stencil.Field K) (i j : Nat) :
    A o (fun a b => x a b - y a b) i j = A o x i j - A o y i j := by
  have := A_add_smul o x y (-1) i j
  simp only [neg_one_mul, ← sub_eq_add_neg] at this
  exact this

theorem A_zero (o : Op K) (i j : Nat) : A o (fun _ _ => 0) i j = 0 := by
  have := A_smul o (fun _ _ => 0) 0 i j
  simpa using this

theorem A_sum_range (o : Op K) (n : Nat) (g : Nat → Stencil.Field K) (i j : Nat) :
    A o (fun a b => ∑ s ∈ range n, g s a b) i j = ∑ s ∈ range n, A o (g s) i j := by
  induction n with
  | zero => simpa using A_zero o i j
  | succ n ih =>
    simp only [sum_range_succ]
    rw [← ih]
    exact A_add o (fun a b => ∑ s ∈ range n, g s a b) (g n) i j

/-- `A x` on the grid depends only on the grid values of `x` -/
theorem A_congr_grid (o : Op K) (x x' : Stencil.Field K) (hnr : 2 ≤ o.nr) (hnt : 0 < o.nt)
    (h : ∀ a b, a < o.nr → b < o.nt → x a b = x' a b) (i j : Nat) (hi : i < o.nr) (hj : j < o.nt) :
    A o x i j = A o x' i j := by
  unfold A
  rw [Smoother.take_congr_grid o _ x x' hnr hnt h i j hi hj]

theorem oneHot_expand (nr nt : Nat) (x : Stencil.Field K) (a b : Nat) (ha : a < nr) (hb : b < nt) :
    ∑ s ∈ range nr, ∑ t ∈ range nt, x s t * oneHot s t a b = x a b := by
  have e : ∀ s t, x s t * oneHot s t a b = if s = a ∧ t = b then x s t else 0 := by
    intro s t
    unfold oneHot
    by_cases h : a = s ∧ b = t
    · obtain ⟨rfl, rfl⟩ := h; simp
    · rw [if_neg h, if_neg (by rintro ⟨rfl, rfl⟩; exact h ⟨rfl, rfl⟩)]; simp
  simp only [e]
  exact sum_pick nr nt a b ha hb x

/-- the operator is its matrix: `A x = Σ_s Σ_t opEntry · x s t` at grid nodes -/
theorem A_expand (o : Op K) (hnr : 2 ≤ o.nr) (hnt : 0 < o.nt) (x : Stencil.Field K) (i j : Nat)
    (hi : i < o.nr) (hj : j < o.nt) :
    A o x i j = ∑ s ∈ range o.nr, ∑ t ∈ range o.nt, opEntry o i j s t * x s t := by
  rw [A_congr_grid o x (fun a b => ∑ s ∈ range o.nr, ∑ t ∈ range o.nt, x s t * oneHot s t a b) hnr hnt
    (fun a b ha hb => (oneHot_expand o.nr o.nt x a b ha hb).symm) i j hi hj]
  rw [A_sum_range o o.nr (fun s a b => ∑ t ∈ range o.nt, x s t * oneHot s t a b) i j]
  apply sum_congr rfl; intro s _
  rw [A_sum_range o o.nt (fun t a b => x s t * oneHot s t a b) i j]
  apply sum_congr rfl; intro t _
  rw [A_smul]; unfold opEntry; ring

/-- row-major numbering: a sum over `nr·nt` unknowns is the double sum over the grid -/
theorem sum_range_mul (nr nt : Nat) (g : Nat → K) :
    ∑ k ∈ range (nr * nt), g k = ∑ s ∈ range nr, ∑ t ∈ range nt, g (s * nt + t) := by
  induction nr with
  | zero => simp
  | succ n ih => rw [Nat.succ_mul, sum_range_add, ih, sum_range_succ]

theorem idx_lt {nr nt i j : Nat} (hi : i < nr) (hj : j < nt) : i * nt + j < nr * nt := by
  have h1 : (i + 1) * nt ≤ nr * nt := Nat.mul_le_mul_right nt hi
  rw [Nat.succ_mul] at h1
  omega

/-- the solution vector has `rows` entries -/
theorem solve_length (tiny : K → Bool) (M : SparseLU.CSR K)
    (hp : ∀ i, i < M.rows → SparseLU.den ((SparseLU.factorRows M).2.getD i []) i ≠ 0)
    (b x : List K) (hb : b.length = M.rows)
    (hs : SparseLU.solve tiny (SparseLU.factorRows M) b = some x) : x.length = M.rows := by
  unfold SparseLU.solve at hs
  rw [(SparseLU.factorRows_length M).2] at hs
  obtain ⟨yl, _⟩ := SparseLU.fwdSolve_spec M b hb
  exact (SparseLU.bwdSolve_spec tiny M hp _ x yl hs).1

section Ordered
variable {F : Type} [_root_.Field F] [LinearOrder F] [IsStrictOrderedRing F]

/-- Dirichlet inner boundary, elliptic data: every principal block of `A` is injective — if `e` vanishes
    on the grid off a node set `S` and `A e = 0` on `S`, then `e = 0` on the grid
    (the Dirichlet rows put the grid part of `e` into `V0`; then positive definiteness) -/
theorem A_injective_on (o : Op F) (hnr : 4 ≤ o.nr) (hnt : 2 ≤ o.nt) (heven : o.nt % 2 = 0)
    (hbc : o.bc = true) (he : Elliptic o) (S : Nat → Nat → Prop) (e : Stencil.Field F)
    (hoff : ∀ i j, i < o.nr → j < o.nt → ¬ S i j → e i j = 0)
    (hA : ∀ i j, i < o.nr → j < o.nt → S i j → A o e i j = 0) :
    ∀ i j, i < o.nr → j < o.nt → e i j = 0 := by
  -- restriction to the grid
  let e' : Stencil.Field F := fun i j => if i < o.nr ∧ j < o.nt then e i j else 0
  have hee' : ∀ a b, a < o.nr → b < o.nt → e' a b = e a b := by
    intro a b ha hb; simp only [e', if_pos (And.intro ha hb)]
  have hA' : ∀ i j, i < o.nr → j < o.nt → S i j → A o e' i j = 0 := by
    intro i j hi hj hS
    rw [A_congr_grid o e' e (by omega) (by omega) hee' i j hi hj]; exact hA i j hi hj hS
  have hV : V0 o e' := by
    constructor
    · intro j
      by_cases hj : j < o.nt
      · by_cases hS : S (o.nr - 1) j
        · have := hA' (o.nr - 1) j (by omega) hj hS
          unfold A take at this
          rw [if_neg (by omega), if_neg (by omega)] at this
          simpa using this
        · rw [hee' _ _ (by omega) hj]; exact hoff _ _ (by omega) hj hS
      · simp only [e', if_neg (fun h : o.nr - 1 < o.nr ∧ j < o.nt => hj h.2)]
    · intro _ j
      by_cases hj : j < o.nt
      · by_cases hS : S 0 j
        · have := hA' 0 j (by omega) hj hS
          unfold A take at this
          rw [if_neg (by omega), if_pos rfl, if_pos hbc] at this
          simpa using this
        · rw [hee' _ _ (by omega) hj]; exact hoff _ _ (by omega) hj hS
      · simp only [e', if_neg (fun h : 0 < o.nr ∧ j < o.nt => hj h.2)]
  have hzero : inner o (A o e') e' = 0 := by
    unfold inner
    apply Finset.sum_eq_zero; intro i hi
    apply Finset.sum_eq_zero; intro j hj
    have hi' : i < o.nr := by simpa using hi
    have hj' : j < o.nt := by simpa using hj
    by_cases hS : S i j
    · rw [hA' i j hi' hj' hS]; ring
    · rw [hee' i j hi' hj', hoff i j hi' hj' hS]; ring
  intro i j hi hj
  by_contra hne
  have := A_pd_dirichlet o e' hnr hnt heven hbc he hV ⟨i, j, hi, hj, by rw [hee' i j hi hj]; exact hne⟩
  rw [hzero] at this
  exact lt_irrefl _ this

/-- the whole operator is injective on grid fields -/
theorem A_injective_dirichlet (o : Op F) (hnr : 4 ≤ o.nr) (hnt : 2 ≤ o.nt) (heven : o.nt % 2 = 0)
    (hbc : o.bc = true) (he : Elliptic o) (e : Stencil.Field F)
    (hA : ∀ i j, i < o.nr → j < o.nt → A o e i j = 0) :
    ∀ i j, i < o.nr → j < o.nt → e i j = 0 :=
  A_injective_on o hnr hnt heven hbc he (fun _ _ => True) e (fun _ _ _ _ h => absurd trivial h)
    (fun i j hi hj _ => hA i j hi hj)

/-- every line block is injective (`LineInj`) for Dirichlet inner boundary and elliptic data -/
theorem lineInj_dirichlet (o : Op F) (hnr : 4 ≤ o.nr) (hnt : 2 ≤ o.nt) (heven : o.nt % 2 = 0)
    (hbc : o.bc = true) (he : Elliptic o) (nc : Nat) (f : Stencil.Field F) : Smoother.LineInj o nc f := by
  intro w w' i j _ _ hoff hon a b ha hb _
  have := A_injective_on o hnr hnt heven hbc he (fun c d => Smoother.sameLine nc i j c d)
    (fun c d => w c d - w' c d)
    (fun c d hc hd hS => by rw [hoff c d hc hd hS]; ring)
    (fun c d hc hd hS => by
      have h1 := hon c d hc hd hS
      rw [take_eq_sub_A, take_eq_sub_A] at h1
      rw [A_sub]
      have : A o w c d = A o w' c d := by
        have h2 : f c d - A o w c d - (f c d - A o w' c d) = 0 := sub_eq_zero.mpr h1
        have h3 : A o w' c d - A o w c d = 0 := by rw [← h2]; ring
        exact (sub_eq_zero.mp h3).symm
      rw [this]; ring) a b ha hb
  exact sub_eq_zero.mp this

end Ordered

/-! ### a concrete assembled system (non-vacuity of C04) -/

/-- the 16×16 matrix of `exOpD`-like operators in CSR form, row-major numbering, zeros not stored -/
def csrOf (o : Op ℚ) : SparseLU.CSR ℚ :=
  SparseLU.CSR.ofTriplets (o.nr * o.nt) (o.nr * o.nt)
    ((List.range (o.nr * o.nt)).flatMap fun r => (List.range (o.nr * o.nt)).filterMap fun c =>
      let v := opEntry o (r / o.nt) (r % o.nt) (c / o.nt) (c % o.nt); if v = 0 then none else some (r, c, v))

/-- a right-hand side -/
def exB : List ℚ := (List.range 16).map fun r => (r : ℚ) + 1

end Direct
