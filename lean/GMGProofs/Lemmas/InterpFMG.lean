import GMGProofs.Lemmas.InterpPointwise
import Mathlib.Tactic.LinearCombination
/-!
# FMG interpolation (C09, interpolation part)

The four Lagrange weights `w0 … w3`, the angular rule `thetaRule` and the node classes of `fmgInterp`.
-/
open InterpSums

namespace Interp
variable {K : Type} [_root_.Field K]

/-- the cubic `c0 + c1 t + c2 t² + c3 t³` -/
def cubic (c0 c1 c2 c3 t : K) : K := c0 + c1 * t + c2 * t ^ 2 + c3 * t ^ 3

theorem thetaRule_mul (p : Pair K) (f g : ℕ → K) (I j : ℕ) :
    thetaRule p (fun I J => f I * g J) I j = f I * thetaRule p (fun _ J => g J) I j := by
  simp only [thetaRule]; ring

/-- consecutive nodes: two and three steps -/
theorem steps (h r : ℕ → K) (hr : ∀ i, r (i + 1) = r i + h i) (n : ℕ) :
    r (n + 2) = r n + (h n + h (n + 1)) ∧ r (n + 3) = r n + (h n + h (n + 1) + h (n + 2)) := by
  have a1 : r (n + 1) = r n + h n := hr n
  have a2 : r (n + 2) = r (n + 1) + h (n + 1) := hr (n + 1)
  have a3 : r (n + 3) = r (n + 2) + h (n + 2) := hr (n + 2)
  constructor
  · rw [a2, a1]; ring
  · rw [a3, a2, a1]; ring

section Ordered
variable [LinearOrder K] [IsStrictOrderedRing K]

/-- the weights sum to one -/
theorem w_sum (h0 h1 h2 h3 : K) (p0 : 0 < h0) (p1 : 0 < h1) (p2 : 0 < h2) (p3 : 0 < h3) :
    w0 h0 h1 h2 h3 + w1 h0 h1 h2 h3 + w2 h0 h1 h2 h3 + w3 h0 h1 h2 h3 = 1 := by
  unfold w0 w1 w2 w3
  have : h0 + h1 + h2 ≠ 0 := by positivity
  have : h0 + h1 + h2 + h3 ≠ 0 := by positivity
  have : h1 + h2 ≠ 0 := by positivity
  have : h1 + h2 + h3 ≠ 0 := by positivity
  field_simp
  ring

/-- cubic exactness: nodes at `ρ-(h0+h1), ρ-h1, ρ+h2, ρ+(h2+h3)`, evaluation at `ρ` -/
theorem w_cubic_at (h0 h1 h2 h3 c0 c1 c2 c3 ρ : K) (p0 : 0 < h0) (p1 : 0 < h1) (p2 : 0 < h2) (p3 : 0 < h3) :
    w0 h0 h1 h2 h3 * cubic c0 c1 c2 c3 (ρ - (h0 + h1)) + w1 h0 h1 h2 h3 * cubic c0 c1 c2 c3 (ρ - h1)
      + w2 h0 h1 h2 h3 * cubic c0 c1 c2 c3 (ρ + h2) + w3 h0 h1 h2 h3 * cubic c0 c1 c2 c3 (ρ + (h2 + h3))
      = cubic c0 c1 c2 c3 ρ := by
  unfold w0 w1 w2 w3 cubic
  have : h0 + h1 + h2 ≠ 0 := by positivity
  have : h0 + h1 + h2 + h3 ≠ 0 := by positivity
  have : h1 + h2 ≠ 0 := by positivity
  have : h1 + h2 + h3 ≠ 0 := by positivity
  field_simp
  ring

theorem thetaRule_const (p : Pair K) (hP : PosSpacing p) (c : K) (I j : ℕ) :
    thetaRule p (fun _ _ => c) I j = c := by
  simp only [thetaRule]
  have := w_sum (p.kC (wC p (j / 2 + ntC p - 1))) (p.kF (wF p (j + p.ntF - 1))) (p.kF j) (p.kC (wC p (j / 2 + 1)))
    (hP.kC _) (hP.kF _) (hP.kF _) (hP.kC _)
  linear_combination c * this

/-- the angular rule is exact for cubics in the local coordinate around fine node `j` (seam included:
    the hypotheses are about the four coarse values the rule reads) -/
theorem thetaRule_cubic_local (p : Pair K) (hP : PosSpacing p) (c0 c1 c2 c3 t : K) (x : Field K) (I j : ℕ)
    (hm : x I (wC p (j / 2 + ntC p - 1))
      = cubic c0 c1 c2 c3 (t - (p.kC (wC p (j / 2 + ntC p - 1)) + p.kF (wF p (j + p.ntF - 1)))))
    (h0 : x I (j / 2) = cubic c0 c1 c2 c3 (t - p.kF (wF p (j + p.ntF - 1))))
    (h1 : x I (wC p (j / 2 + 1)) = cubic c0 c1 c2 c3 (t + p.kF j))
    (h2 : x I (wC p (j / 2 + 2)) = cubic c0 c1 c2 c3 (t + (p.kF j + p.kC (wC p (j / 2 + 1))))) :
    thetaRule p x I j = cubic c0 c1 c2 c3 t := by
  simp only [thetaRule, hm, h0, h1, h2]
  exact w_cubic_at _ _ _ _ c0 c1 c2 c3 t (hP.kC _) (hP.kF _) (hP.kF _) (hP.kC _)

/-- away from the seam: `j = 2s+3` odd, `j + 3 < ntF`, angles consistent with the spacings -/
theorem thetaRule_cubic (p : Pair K) (hA : Admissible p) (hP : PosSpacing p) (c0 c1 c2 c3 : K) (θ : ℕ → K)
    (x : Field K) (I j : ℕ) (hodd : j % 2 = 1) (h3 : 3 ≤ j) (hj : j + 3 < p.ntF)
    (hθ : ∀ j, θ (j + 1) = θ j + p.kF j) (hC : ∀ J, p.kC J = p.kF (2 * J) + p.kF (2 * J + 1))
    (hx : ∀ J, x I J = cubic c0 c1 c2 c3 (θ (2 * J))) :
    thetaRule p x I j = cubic c0 c1 c2 c3 (θ j) := by
  obtain ⟨m, q, hm, hq, hnr, hnt, hc, hqc⟩ := hA.exists_mq
  obtain ⟨s, rfl⟩ : ∃ s, j = 2 * s + 3 := ⟨(j - 3) / 2, by omega⟩
  have e1 : (2 * s + 3) / 2 = s + 1 := by omega
  have e2 : wC p (s + 1 + ntC p - 1) = s := by
    unfold wC; rw [hqc]; exact mod_of_add _ _ _ (by omega) (by omega)
  have e3 : wC p (s + 1 + 1) = s + 2 := by
    unfold wC; rw [hqc]; exact Nat.mod_eq_of_lt (by omega)
  have e4 : wC p (s + 1 + 2) = s + 3 := by
    unfold wC; rw [hqc]; exact Nat.mod_eq_of_lt (by omega)
  have e5 : wF p (2 * s + 3 + p.ntF - 1) = 2 * s + 2 := by
    unfold wF; exact mod_of_add _ _ _ (by omega) (by omega)
  obtain ⟨s2, s3⟩ := steps p.kF θ hθ (2 * s)
  obtain ⟨t2, t3⟩ := steps p.kF θ hθ (2 * s + 3)
  have a1 : θ (2 * s + 3) = θ (2 * s + 2) + p.kF (2 * s + 2) := hθ (2 * s + 2)
  have a2 : θ (2 * s + 4) = θ (2 * s + 3) + p.kF (2 * s + 3) := hθ (2 * s + 3)
  have t3' : θ (2 * s + 6) = θ (2 * s + 3) + (p.kF (2 * s + 3) + p.kF (2 * s + 4) + p.kF (2 * s + 5)) := t3
  apply thetaRule_cubic_local p hP
  · rw [e1, e2, e5, hx, hC s]; congr 1; rw [s3]; ring
  · rw [e1, e5, hx]; congr 1
    have : 2 * (s + 1) = 2 * s + 2 := by ring
    rw [this, a1]; ring
  · rw [e1, e3, hx]; exact congrArg _ a2
  · rw [e1, e4, e3, hx, hC (s + 2)]; congr 1
    have : 2 * (s + 3) = 2 * s + 6 := by ring
    have u1 : 2 * (s + 2) = 2 * s + 4 := by ring
    have u2 : 2 * s + 4 + 1 = 2 * s + 5 := by ring
    rw [this, u1, u2, t3']; ring

/-- the radial four-point rule at fine node `2s+3`, applied to `g I = P(r(2I))·Θ` -/
theorem radial_rule_cubic (p : Pair K) (hP : PosSpacing p) (c0 c1 c2 c3 Θ : K) (r g : ℕ → K) (s : ℕ)
    (hr : ∀ i, r (i + 1) = r i + p.hF i) (hC : ∀ I, p.hC I = p.hF (2 * I) + p.hF (2 * I + 1))
    (hg : ∀ I, g I = cubic c0 c1 c2 c3 (r (2 * I)) * Θ) :
    w0 (p.hC s) (p.hF (2 * s + 2)) (p.hF (2 * s + 3)) (p.hC (s + 2)) * g s
      + w1 (p.hC s) (p.hF (2 * s + 2)) (p.hF (2 * s + 3)) (p.hC (s + 2)) * g (s + 1)
      + w2 (p.hC s) (p.hF (2 * s + 2)) (p.hF (2 * s + 3)) (p.hC (s + 2)) * g (s + 2)
      + w3 (p.hC s) (p.hF (2 * s + 2)) (p.hF (2 * s + 3)) (p.hC (s + 2)) * g (s + 3)
      = cubic c0 c1 c2 c3 (r (2 * s + 3)) * Θ := by
  obtain ⟨s2, s3⟩ := steps p.hF r hr (2 * s)
  obtain ⟨t2, t3⟩ := steps p.hF r hr (2 * s + 3)
  have a1 : r (2 * s + 3) = r (2 * s + 2) + p.hF (2 * s + 2) := hr (2 * s + 2)
  have a2 : r (2 * s + 4) = r (2 * s + 3) + p.hF (2 * s + 3) := hr (2 * s + 3)
  have t3' : r (2 * s + 6) = r (2 * s + 3) + (p.hF (2 * s + 3) + p.hF (2 * s + 4) + p.hF (2 * s + 5)) := t3
  have n0 : r (2 * s) = r (2 * s + 3) - (p.hC s + p.hF (2 * s + 2)) := by rw [hC s, s3]; ring
  have n1 : r (2 * (s + 1)) = r (2 * s + 3) - p.hF (2 * s + 2) := by
    have : 2 * (s + 1) = 2 * s + 2 := by ring
    rw [this, a1]; ring
  have n2 : r (2 * (s + 2)) = r (2 * s + 3) + p.hF (2 * s + 3) := by
    have : 2 * (s + 2) = 2 * s + 4 := by ring
    rw [this, a2]
  have n3 : r (2 * (s + 3)) = r (2 * s + 3) + (p.hF (2 * s + 3) + p.hC (s + 2)) := by
    have : 2 * (s + 3) = 2 * s + 6 := by ring
    have u1 : 2 * (s + 2) = 2 * s + 4 := by ring
    have u2 : 2 * s + 4 + 1 = 2 * s + 5 := by ring
    rw [this, hC (s + 2), u1, u2, t3']; ring
  rw [hg s, hg (s + 1), hg (s + 2), hg (s + 3), n0, n1, n2, n3]
  have := w_cubic_at (p.hC s) (p.hF (2 * s + 2)) (p.hF (2 * s + 3)) (p.hC (s + 2)) c0 c1 c2 c3 (r (2 * s + 3))
    (hP.hC _) (hP.hF _) (hP.hF _) (hP.hC _)
  linear_combination Θ * this

end Ordered

/-! ### node classes of `fmgInterp` -/

/-- the value the radial rule sees on coarse row `I` at fine column `j`: the angular rule for odd `j`,
    the coarse value itself for even `j` -/
def fmgRow (p : Pair K) (x : Field K) (j I : ℕ) : K := if j % 2 = 1 then thetaRule p x I j else x I (j / 2)

/-- interior odd row `i = 2s+3`, `i + 3 ≤ nrF` -/
theorem fmg_interior_odd (p : Pair K) (x : Field K) (s j : ℕ) (hi : 2 * s + 3 + 3 ≤ p.nrF) :
    fmgInterp p x (2 * s + 3) j =
      w0 (p.hC s) (p.hF (2 * s + 2)) (p.hF (2 * s + 3)) (p.hC (s + 2)) * fmgRow p x j s
      + w1 (p.hC s) (p.hF (2 * s + 2)) (p.hF (2 * s + 3)) (p.hC (s + 2)) * fmgRow p x j (s + 1)
      + w2 (p.hC s) (p.hF (2 * s + 2)) (p.hF (2 * s + 3)) (p.hC (s + 2)) * fmgRow p x j (s + 2)
      + w3 (p.hC s) (p.hF (2 * s + 2)) (p.hF (2 * s + 3)) (p.hC (s + 2)) * fmgRow p x j (s + 3) := by
  have c1 : ¬ (2 * s + 3 = 0 ∨ 2 * s + 3 + 1 = p.nrF) := by omega
  have c2 : ¬ (2 * s + 3 = 1 ∨ 2 * s + 3 + 2 = p.nrF) := by omega
  have c3 : (2 * s + 3) % 2 = 1 := by omega
  have e1 : (2 * s + 3) / 2 = s + 1 := by omega
  have e2 : 2 * s + 3 - 1 = 2 * s + 2 := by omega
  have e3 : s + 1 - 1 = s := by omega
  simp only [fmgInterp, fmgRow, c1, c2, c3, e1, e2, e3, if_true, if_false]
  split_ifs <;> rfl

/-- even rows (including both boundary rows) -/
theorem fmg_even_row (p : Pair K) (hA : Admissible p) (x : Field K) (i j : ℕ) (hi : i % 2 = 0) :
    fmgInterp p x i j = if j % 2 = 1 then thetaRule p x (i / 2) j else x (i / 2) (j / 2) := by
  obtain ⟨m, q, hm, hq, hnr, hnt, hc, hqc⟩ := hA.exists_mq
  have c2 : ¬ (i = 1 ∨ i + 2 = p.nrF) := by omega
  have c3 : ¬ i % 2 = 1 := by omega
  simp only [fmgInterp, c2, c3, if_false, ite_self]

/-- next-to-boundary rows -/
theorem fmg_near_boundary (p : Pair K) (hA : Admissible p) (x : Field K) (i j : ℕ) (hi : i = 1 ∨ i + 2 = p.nrF) :
    fmgInterp p x i j =
      if j % 2 = 1 then
        (p.hF (i - 1) * thetaRule p x (i / 2) j + p.hF i * thetaRule p x (i / 2 + 1) j) / (p.hF (i - 1) + p.hF i)
      else (p.hF (i - 1) * x (i / 2) (j / 2) + p.hF i * x (i / 2 + 1) (j / 2)) / (p.hF (i - 1) + p.hF i) := by
  obtain ⟨m, q, hm, hq, hnr, hnt, hc, hqc⟩ := hA.exists_mq
  have c1 : ¬ (i = 0 ∨ i + 1 = p.nrF) := by omega
  simp only [fmgInterp, c1, hi, if_true, if_false]

theorem fmg_fallback (p : Pair K) (hA : Admissible p) (x : Field K) (i j : ℕ) (hi : i = 1 ∨ i + 2 = p.nrF)
    (hj : j % 2 = 0) : fmgInterp p x i j = prolong p x i j := by
  obtain ⟨m, q, hm, hq, hnr, hnt, hc, hqc⟩ := hA.exists_mq
  have c3 : i % 2 = 1 := by omega
  have c4 : ¬ j % 2 = 1 := by omega
  rw [fmg_near_boundary p hA x i j hi]
  simp only [prolong, c3, c4, if_true, if_false]

theorem inject_fmg (p : Pair K) (hA : Admissible p) (x : Field K) (I J : ℕ) :
    inject (fmgInterp p x) I J = x I J := by
  have c4 : ¬ (2 * J) % 2 = 1 := by omega
  have e1 : 2 * I / 2 = I := by omega
  have e2 : 2 * J / 2 = J := by omega
  unfold inject
  rw [fmg_even_row p hA x (2 * I) (2 * J) (by omega), if_neg c4, e1, e2]

theorem fmg_local (p : Pair K) (hA : Admissible p) (x x' : Field K)
    (hx : ∀ I J, I < nrC p → J < ntC p → x I J = x' I J) (i j : ℕ) (hi : i < p.nrF) (hj : j < p.ntF) :
    fmgInterp p x i j = fmgInterp p x' i j := by
  obtain ⟨m, q, hm, hq, hnr, hnt, hc, hqc⟩ := hA.exists_mq
  have hw : ∀ a, wC p a < ntC p := fun a => Nat.mod_lt _ (by omega)
  have hjc : j / 2 < ntC p := by omega
  simp only [fmgInterp, thetaRule]
  split_ifs with h1 h2 h3 h4 h5 h6 h7
  all_goals simp (disch := first | exact hw _ | omega) only [hx]

section Ordered
variable [LinearOrder K] [IsStrictOrderedRing K]

theorem fmg_const (p : Pair K) (hP : PosSpacing p) (c : K) (i j : ℕ) :
    fmgInterp p (fun _ _ => c) i j = c := by
  have hh : p.hF (i - 1) + p.hF i ≠ 0 := by have := hP.hF (i - 1); have := hP.hF i; positivity
  have hw := w_sum (p.hC (i / 2 - 1)) (p.hF (i - 1)) (p.hF i) (p.hC (i / 2 + 1))
    (hP.hC _) (hP.hF _) (hP.hF _) (hP.hC _)
  simp only [fmgInterp, thetaRule_const p hP]
  split_ifs
  all_goals first
    | rfl
    | (rw [div_eq_iff hh]; ring)
    | linear_combination c * hw

end Ordered

end Interp
