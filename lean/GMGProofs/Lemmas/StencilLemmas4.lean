import GMGProofs.Lemmas.StencilLemmas3
/-!
# Stencil lemmas 4 — the operator `A`, the grid inner product, and `⟨A x, y⟩ = Σ_s Bn_s(x, y)`

`Bn o x y i j` pairs every update of node `(i, j)` with the test function at the update's target:
the scatter form IS the energy decomposition.
-/
set_option linter.unusedSectionVars false
namespace Stencil
open Finset
variable {K : Type} [_root_.Field K]

/-- the operator: `take o f x = f - A x` -/
def A (o : Op K) (x : Field K) : Field K := fun i j => -(take o (fun _ _ => 0) x i j)

/-- fields vanishing on the Dirichlet nodes -/
def V0 (o : Op K) (x : Field K) : Prop :=
  (∀ j, x (o.nr - 1) j = 0) ∧ (o.bc = true → ∀ j, x 0 j = 0)

/-- grid inner product -/
def inner (o : Op K) (u v : Field K) : K := ∑ i ∈ range o.nr, ∑ j ∈ range o.nt, u i j * v i j

/-- nodal bilinear form of node `(i, j)`: each update paired with `y` at its target -/
def Bn (o : Op K) (x y : Field K) (i j : Nat) : K :=
  ((giveNode o x i j).map fun u => u.v * y u.ti u.tj).sum

theorem take_eq_sub_A (o : Op K) (f x : Field K) (i j : Nat) : take o f x i j = f i j - A o x i j := by
  unfold A take
  split
  · unfold takeInterior; ring
  · split
    · rename_i h; subst h
      split
      · ring
      · unfold takeOrigin; ring
    · ring

theorem sum_pick (nr nt r c : Nat) (hr : r < nr) (hc : c < nt) (g : Nat → Nat → K) :
    ∑ a ∈ range nr, ∑ b ∈ range nt, (if a = r ∧ b = c then g a b else 0) = g r c := by
  rw [Finset.sum_eq_single r]
  · rw [Finset.sum_eq_single c]
    · simp
    · intro b _ hb; simp [hb]
    · intro h; exact absurd (by simpa using hc) h
  · intro a _ ha; simp [ha]
  · intro h; exact absurd (by simpa using hr) h

/-- pairing the received totals with `y` = pairing each update with `y` at its target -/
theorem pair_recv (nr nt : Nat) (y : Field K) (l : List (Upd K))
    (hl : ∀ u ∈ l, u.ti < nr ∧ u.tj < nt) :
    ∑ a ∈ range nr, ∑ b ∈ range nt, recv l a b * y a b = (l.map fun u => u.v * y u.ti u.tj).sum := by
  induction l with
  | nil => simp
  | cons u l ih =>
    have hu := hl u (List.mem_cons_self ..)
    have e : ∀ a b, recv (u :: l) a b * y a b
        = (if a = u.ti ∧ b = u.tj then u.v * y a b else 0) + recv l a b * y a b := by
      intro a b; rw [recv_cons]; split <;> ring
    simp only [e, Finset.sum_add_distrib]
    rw [sum_pick nr nt u.ti u.tj hu.1 hu.2 (fun a b => u.v * y a b),
      ih (fun v hv => hl v (List.mem_cons_of_mem _ hv))]
    simp

theorem sum4_comm (s t u v : Finset Nat) (G : Nat → Nat → Nat → Nat → K) :
    ∑ a ∈ s, ∑ b ∈ t, ∑ i ∈ u, ∑ j ∈ v, G a b i j = ∑ i ∈ u, ∑ j ∈ v, ∑ a ∈ s, ∑ b ∈ t, G a b i j := by
  calc ∑ a ∈ s, ∑ b ∈ t, ∑ i ∈ u, ∑ j ∈ v, G a b i j
      = ∑ a ∈ s, ∑ i ∈ u, ∑ b ∈ t, ∑ j ∈ v, G a b i j :=
        Finset.sum_congr rfl (fun a _ => Finset.sum_comm)
    _ = ∑ i ∈ u, ∑ a ∈ s, ∑ b ∈ t, ∑ j ∈ v, G a b i j := Finset.sum_comm
    _ = ∑ i ∈ u, ∑ a ∈ s, ∑ j ∈ v, ∑ b ∈ t, G a b i j :=
        Finset.sum_congr rfl (fun i _ => Finset.sum_congr rfl (fun a _ => Finset.sum_comm))
    _ = ∑ i ∈ u, ∑ j ∈ v, ∑ a ∈ s, ∑ b ∈ t, G a b i j :=
        Finset.sum_congr rfl (fun i _ => Finset.sum_comm)

section targets
variable (o : Op K) (x : Field K)

/-- every update of a grid node addresses a grid node -/
theorem giveNode_targets (hnr : 4 ≤ o.nr) (hnt : 0 < o.nt) (i j : Nat) (hi : i < o.nr) (hj : j < o.nt) :
    ∀ u ∈ giveNode o x i j, u.ti < o.nr ∧ u.tj < o.nt := by
  have hm := jm_lt o hnt j
  have hp := jp_lt o hnt j
  have hA := ja_lt o hnt j
  intro u hu
  by_cases hint : 1 < i ∧ i + 2 < o.nr
  · rw [giveNode_int o x j hint] at hu
    simp only [List.mem_cons, List.not_mem_nil, or_false] at hu
    rcases hu with rfl | rfl | rfl | rfl | rfl <;> dsimp only <;> constructor <;> omega
  · rcases (by omega : i = 0 ∨ i = 1 ∨ (1 < i ∧ i + 2 = o.nr) ∨ (1 < i ∧ i + 1 = o.nr)) with
      rfl | rfl | ⟨h1, h2⟩ | ⟨h1, h2⟩
    · by_cases hbc : o.bc = true
      · rw [giveNode_zero_bc o x j hnr hbc] at hu
        simp only [List.mem_cons, List.not_mem_nil, or_false] at hu
        rcases hu with rfl | rfl <;> dsimp only <;> constructor <;> omega
      · rw [giveNode_zero_across o x j hnr hbc] at hu
        simp only [List.mem_cons, List.not_mem_nil, or_false] at hu
        rcases hu with rfl | rfl | rfl | rfl | rfl <;> dsimp only <;> constructor <;> omega
    · by_cases hbc : o.bc = true
      · rw [giveNode_one_bc o x j hnr hbc] at hu
        simp only [List.mem_cons, List.not_mem_nil, or_false] at hu
        rcases hu with rfl | rfl | rfl | rfl <;> dsimp only <;> constructor <;> omega
      · rw [giveNode_one_across o x j hnr hbc] at hu
        simp only [List.mem_cons, List.not_mem_nil, or_false] at hu
        rcases hu with rfl | rfl | rfl | rfl | rfl <;> dsimp only <;> constructor <;> omega
    · rw [giveNode_penult o x j h1 h2] at hu
      simp only [List.mem_cons, List.not_mem_nil, or_false] at hu
      rcases hu with rfl | rfl | rfl | rfl <;> dsimp only <;> constructor <;> omega
    · rw [giveNode_last o x j h1 h2] at hu
      simp only [List.mem_cons, List.not_mem_nil, or_false] at hu
      rcases hu with rfl | rfl <;> dsimp only <;> constructor <;> omega

end targets

/-- on grid nodes `A x` is what the nodes scatter -/
theorem A_eq_sum (o : Op K) (hnr : 4 ≤ o.nr) (hnt : 2 ≤ o.nt) (heven : o.nt % 2 = 0)
    (hk : o.bc = false → ∀ j, j < o.nt → o.k (ja o j) = o.k j)
    (x : Field K) (a b : Nat) (ha : a < o.nr) (hb : b < o.nt) :
    A o x a b = ∑ i ∈ range o.nr, ∑ j ∈ range o.nt, recv (giveNode o x i j) a b := by
  unfold A
  rw [← give_eq_take' o _ x hnr hnt heven hk a b ha hb, give_eq_sum]
  ring

/-- `⟨A x, y⟩ = Σ_s Bn_s(x, y)`: the scatter form is the energy decomposition -/
theorem inner_A_eq_sum_Bn (o : Op K) (hnr : 4 ≤ o.nr) (hnt : 2 ≤ o.nt) (heven : o.nt % 2 = 0)
    (hk : o.bc = false → ∀ j, j < o.nt → o.k (ja o j) = o.k j) (x y : Field K) :
    inner o (A o x) y = ∑ i ∈ range o.nr, ∑ j ∈ range o.nt, Bn o x y i j := by
  unfold inner
  have e : ∀ a ∈ range o.nr, ∑ b ∈ range o.nt, A o x a b * y a b
      = ∑ b ∈ range o.nt, ∑ i ∈ range o.nr, ∑ j ∈ range o.nt, recv (giveNode o x i j) a b * y a b := by
    intro a ha
    apply Finset.sum_congr rfl
    intro b hb
    rw [A_eq_sum o hnr hnt heven hk x a b (by simpa using ha) (by simpa using hb), Finset.sum_mul]
    apply Finset.sum_congr rfl
    intro i _
    rw [Finset.sum_mul]
  rw [Finset.sum_congr rfl e, sum4_comm]
  apply Finset.sum_congr rfl
  intro i hi
  apply Finset.sum_congr rfl
  intro j hj
  exact pair_recv o.nr o.nt y _
    (giveNode_targets o x hnr (by omega) i j (by simpa using hi) (by simpa using hj))

end Stencil
