import GMGProofs.Lemmas.SmootherCode2
/-!
# Helper lemmas for C06c, part 3: the row-major array state
-/
namespace SmootherCode
open Stencil
variable {K : Type} [_root_.Field K]

theorem idx_lt {nr nt p q : Nat} (hp : p < nr) (hq : q < nt) : p * nt + q < nr * nt :=
  calc p * nt + q < p * nt + nt := by omega
    _ = (p + 1) * nt := by rw [Nat.add_mul, Nat.one_mul]
    _ ≤ nr * nt := Nat.mul_le_mul_right _ (by omega)

theorem idx_div {nt p q : Nat} (hq : q < nt) : (p * nt + q) / nt = p := by
  rw [Nat.add_comm, Nat.mul_comm, Nat.add_mul_div_left _ _ (by omega : 0 < nt), Nat.div_eq_of_lt hq, Nat.zero_add]

theorem idx_mod {nt p q : Nat} (hq : q < nt) : (p * nt + q) % nt = q := by
  rw [Nat.add_comm, Nat.mul_comm, Nat.add_mul_mod_self_left, Nat.mod_eq_of_lt hq]

@[simp] theorem size_writeCircle (nt : Nat) (a : Array K) (i : Nat) (v : List K) :
    (writeCircle nt a i v).size = a.size := by simp [writeCircle]

@[simp] theorem size_writeRadial (nt nc : Nat) (a : Array K) (j : Nat) (v : List K) :
    (writeRadial nt nc a j v).size = a.size := by simp [writeRadial]

/-- the state after `std::move` of a circle, on grid nodes -/
theorem fld_writeCircle (nr nt : Nat) (a : Array K) (hs : a.size = nr * nt) (i : Nat) (v : List K)
    (p q : Nat) (hp : p < nr) (hq : q < nt) :
    fld nt (writeCircle nt a i v) p q = if p = i then v.getD q 0 else fld nt a p q := by
  have hlt : p * nt + q < a.size := by rw [hs]; exact idx_lt hp hq
  unfold fld writeCircle
  simp only [Array.getD_eq_getD_getElem?, Array.getElem?_ofFn, hlt, dite_true, Option.getD_some, idx_div hq,
    idx_mod hq, Scalar.n_zero, Fin.getElem_fin, Array.getElem?_eq_getElem hlt]

/-- the state after `std::move` of a radial line, on grid nodes -/
theorem fld_writeRadial (nr nt nc : Nat) (a : Array K) (hs : a.size = nr * nt) (j : Nat) (v : List K)
    (p q : Nat) (hp : p < nr) (hq : q < nt) :
    fld nt (writeRadial nt nc a j v) p q = if nc ≤ p ∧ q = j then v.getD (p - nc) 0 else fld nt a p q := by
  have hlt : p * nt + q < a.size := by rw [hs]; exact idx_lt hp hq
  unfold fld writeRadial
  simp only [Array.getD_eq_getD_getElem?, Array.getElem?_ofFn, hlt, dite_true, Option.getD_some, idx_div hq,
    idx_mod hq, Scalar.n_zero, Fin.getElem_fin, Array.getElem?_eq_getElem hlt]

/-! ### lengths of the line solutions -/

theorem list_eq_map_range (vs : List K) (n : Nat) (h : vs.length = n) :
    vs = (List.range n).map (fun q => vs.getD q 0) := by
  apply List.ext_getElem
  · simp [h]
  · intro i h1 h2
    simp [List.getD_eq_getElem?_getD, h1]

theorem list_eq_map_range_shift (vs : List K) (n nc : Nat) (h : vs.length = n) :
    vs = (List.range n).map (fun t => (fun i => vs.getD (i - nc) 0) (nc + t)) := by
  apply List.ext_getElem
  · simp [h]
  · intro i h1 h2
    simp [List.getD_eq_getElem?_getD, h1]

theorem length_of_mulC (a b : List K) (c : K) (x : List K) (h2 : b.length + 1 = a.length)
    (h : (Tridiag.mulC a b c x).length = a.length) : x.length = a.length := by
  unfold Tridiag.mulC at h
  simp only [Tridiag.setLast_length, Tridiag.setHead_length] at h
  exact length_of_mulT_length a b x _ h2 h

theorem sparse_solve_length (tiny : K → Bool) (A : SparseLU.CSR K)
    (hp : ∀ i, i < A.rows → SparseLU.den ((SparseLU.factorRows A).2.getD i []) i ≠ 0)
    (b x : List K) (hb : b.length = A.rows) (hs : SparseLU.solve tiny (SparseLU.factorRows A) b = some x) :
    x.length = A.rows := by
  unfold SparseLU.solve at hs
  rw [(SparseLU.factorRows_length A).2] at hs
  exact (SparseLU.bwdSolve_spec tiny A hp _ x (SparseLU.fwdSolve_spec A b hb).1 hs).1

end SmootherCode
