import GMGProofs.Lemmas.SmootherCode1
/-!
# Helper lemmas for C06c, part 2: the CSR matrix of the innermost circle
-/
namespace SmootherCode
open Stencil SparseLU
variable {K : Type} [_root_.Field K]

theorem length_flatMap_range {β : Type} (G : Nat → List β) (w : Nat) (hG : ∀ j, (G j).length = w) :
    ∀ n, ((List.range n).flatMap G).length = n * w
  | 0 => by simp
  | n + 1 => by
      rw [List.range_succ, List.flatMap_append, List.length_append, length_flatMap_range G w hG n]
      simp [hG, Nat.add_mul]

/-- entry `j * w + idx` of the concatenation of blocks of constant length `w` -/
theorem getD_flatMap_range {β : Type} (G : Nat → List β) (w : Nat) (hG : ∀ j, (G j).length = w) (d : β) :
    ∀ n j idx, j < n → idx < w → ((List.range n).flatMap G).getD (j * w + idx) d = (G j).getD idx d
  | 0, j, idx, hj, _ => by omega
  | n + 1, j, idx, hj, hidx => by
      rw [List.range_succ, List.flatMap_append]
      have hlen := length_flatMap_range G w hG n
      by_cases hjn : j < n
      · have hlt : j * w + idx < ((List.range n).flatMap G).length := by
          rw [hlen]
          calc j * w + idx < j * w + w := by omega
            _ = (j + 1) * w := by rw [Nat.add_mul, Nat.one_mul]
            _ ≤ n * w := Nat.mul_le_mul_right _ (by omega)
        rw [List.getD_eq_getElem?_getD, List.getElem?_append_left hlt, ← List.getD_eq_getElem?_getD]
        exact getD_flatMap_range G w hG d n j idx hjn hidx
      · have : j = n := by omega
        subst this
        rw [List.getD_eq_getElem?_getD, List.getElem?_append_right (by rw [hlen]; omega), hlen,
          ← List.getD_eq_getElem?_getD]
        simp

theorem innerRow_length (o : Op K) (j : Nat) : (innerRow o j).length = if o.bc then 1 else 4 := by
  unfold innerRow; split <;> simp

theorem innerCSR_rows (o : Op K) : (innerCSR o).rows = o.nt := rfl

/-- the stored entries of row `j` of the CSR container are `innerRow o j` -/
theorem rowEntries_innerCSR (o : Op K) (j : Nat) (hj : j < o.nt) : rowEntries (innerCSR o) j = innerRow o j := by
  have hw : ∀ j, (innerRow o j).length = if o.bc then 1 else 4 := innerRow_length o
  unfold rowEntries innerCSR
  simp only [getD_map_range, if_pos (by omega : j < o.nt + 1), if_pos (by omega : j + 1 < o.nt + 1),
    List.flatMap_map]
  have hd : (j + 1) * (if o.bc then 1 else 4) - j * (if o.bc then 1 else 4) = if o.bc then 1 else 4 := by
    rw [Nat.add_mul, Nat.one_mul]; omega
  rw [hd]
  apply List.ext_getElem
  · simp [hw]
  · intro idx h1 h2
    have hidx : idx < if o.bc then 1 else 4 := by simpa using h1
    simp only [List.getElem_map, List.getElem_range]
    rw [getD_flatMap_range (fun a => (innerRow o a).map (·.1)) _ (by simp [hw]) 0 o.nt j idx hj hidx,
      getD_flatMap_range (fun a => (innerRow o a).map (·.2)) _ (by simp [hw]) (Scalar.n 0) o.nt j idx hj hidx]
    have h3 : idx < (innerRow o j).length := h2
    simp [List.getD_eq_getElem?_getD, h3]

theorem innerRow_uniq (o : Op K) (hnt : 4 ≤ o.nt) (heven : o.nt % 2 = 0) (j : Nat) (hj : j < o.nt) :
    Uniq (innerRow o j) := by
  unfold Uniq keys innerRow
  split
  · simp
  · have h1 := jm_eq o hj
    have h2 := jp_eq o hj
    have h3 := ja_eq o heven hj
    simp only [List.map_cons, List.map_nil, List.nodup_cons, List.mem_cons, List.not_mem_nil, or_false,
      not_or, List.nodup_nil, and_true, not_false_eq_true]
    generalize jm o j = m at *
    generalize jp o j = p at *
    generalize ja o j = a at *
    split at h1 <;> split at h2 <;> split at h3 <;> omega

theorem loadRow_innerCSR (o : Op K) (hnt : 4 ≤ o.nt) (heven : o.nt % 2 = 0) (j : Nat) (hj : j < o.nt) :
    loadRow (innerCSR o) j = innerRow o j := by
  rw [loadRow_eq_rowEntries _ _ (by rw [rowEntries_innerCSR o j hj]; exact innerRow_uniq o hnt heven j hj),
    rowEntries_innerCSR o j hj]

end SmootherCode
