import GMGProofs.Lemmas.Cache1
/-!
# Helper lemmas for C03c: sampling a filled node array at even indices (core Lean only)
-/
namespace Cache
variable {α : Type} [Scalar α]

/-- sizes of the two levels: the coarse node count vanishes whenever the fine one does -/
theorem size_cond (gF gC : Grid) (hF : gF.Valid) (hnr : gF.nr = 2 * gC.nr - 1) :
    (if gF.numNodes > 0 then gC.numNodes else 0) = gC.numNodes := by
  unfold Grid.numNodes
  by_cases h : gC.nr = 0
  · simp [h]
  · have h1 : 0 < gF.nr := by omega
    have := Nat.mul_pos h1 hF.nt_pos
    simp [this]

/-- sampling the filled fine array at the even nodes, with the fine numbering, and storing with the coarse numbering
    gives the filled coarse array -/
theorem sample_fill (gF gC : Grid) (hF : gF.Valid) (hC : gC.Valid) (hnr : gF.nr = 2 * gC.nr - 1)
    (hnt : gF.nt = 2 * gC.nt) (vF vC : Nat → Nat → α) (z : α)
    (hvv : ∀ i j, i < gC.nr → j < gC.nt → vF (2 * i) (2 * j) = vC i j) :
    fillNodes gC (if (fillNodes gF gF.numNodes vF).size > 0 then gC.numNodes else 0)
        (fun i j => (fillNodes gF gF.numNodes vF).getD (gF.fastIndex (2 * i) (2 * j)) z)
      = fillNodes gC gC.numNodes vC := by
  rw [fillNodes_size, size_cond gF gC hF hnr]
  apply fillNodes_congr gC hC
  intro i j hi hj
  rw [fillNodes_getD gF hF vF z (2 * i) (2 * j) (by omega) (by omega)]
  exact hvv i j hi hj

omit [Scalar α] in
/-- sampling an `ofFn` array at even indices -/
theorem sample_ofFn (n m : Nat) (f g : Nat → α) (z : α) (hnm : ∀ i, i < m → 2 * i < n)
    (hfg : ∀ i, i < m → f (2 * i) = g i) :
    (Array.ofFn (n := m) fun i => (Array.ofFn (n := n) fun k => f k.val).getD (2 * i.val) z)
      = Array.ofFn (n := m) fun i => g i.val := by
  congr 1; funext i
  rw [ofFn_getD n f (2 * i.val) z (hnm _ i.isLt)]
  exact hfg _ i.isLt

omit [Scalar α] in
/-- the size test of the sampling constructor on a coefficient array -/
theorem cond_ofFn (n m : Nat) (f : Fin n → α) (g : Fin m → α) (h : n = 0 → m = 0) :
    (if 0 < (Array.ofFn f).size then Array.ofFn g else #[]) = Array.ofFn g := by
  by_cases hn : 0 < n
  · simp [hn]
  · have hm : m = 0 := h (by omega)
    subst hm
    simp

end Cache
