import GMGModel.Solve
/-!
# Generic facts about `exec`: append, frame (via the syntactic `writes`), repeated instructions
core Lean only.
-/
namespace MGCycle
variable {V : Type}

/-! ## memory updates -/

@[simp] theorem upd_same (m : Mem V) (r : Ref) (v : V) : upd m r v r = v := by simp [upd]

theorem upd_ne (m : Mem V) {q r : Ref} (v : V) (h : q ≠ r) : upd m r v q = m q := by simp [upd, h]

/-- a reference of a higher level differs from one of a lower level -/
theorem ref_ne_of_lt {r q : Ref} (h : r.1 < q.1) : r ≠ q := by
  intro e; rw [e] at h; exact Nat.lt_irrefl _ h

theorem ref_ne_of_buf {l l' : Nat} {b b' : Buf} (h : b ≠ b') : ((l, b) : Ref) ≠ (l', b') := by
  intro e; exact h (congrArg Prod.snd e)

/-! ## exec -/

@[simp] theorem exec_nil (o : Ops V) (m : Mem V) : exec o [] m = m := rfl

@[simp] theorem exec_cons (o : Ops V) (i : Instr) (p : List Instr) (m : Mem V) :
    exec o (i :: p) m = exec o p (stepI o m i) := rfl

theorem exec_append (o : Ops V) (p q : List Instr) (m : Mem V) :
    exec o (p ++ q) m = exec o q (exec o p m) := by
  simp [exec, List.foldl_append]

theorem exec_replicate_succ (o : Ops V) (i : Instr) (n : Nat) (m : Mem V) :
    exec o (List.replicate (n + 1) i) m = exec o (List.replicate n i) (stepI o m i) := by
  simp [List.replicate_succ]

theorem exec_flatten_replicate_succ (o : Ops V) (p : List Instr) (n : Nat) (m : Mem V) :
    exec o (List.replicate (n + 1) p).flatten m = exec o (List.replicate n p).flatten (exec o p m) := by
  simp [List.replicate_succ, exec_append]

/-! ## iteration of a function -/

def iter (f : V → V) : Nat → V → V
  | 0, v => v
  | n + 1, v => iter f n (f v)

@[simp] theorem iter_zero (f : V → V) (v : V) : iter f 0 v = v := rfl
theorem iter_succ (f : V → V) (n : Nat) (v : V) : iter f (n + 1) v = iter f n (f v) := rfl

theorem iter_fixed (f : V → V) (v : V) (h : f v = v) : ∀ n, iter f n v = v
  | 0 => rfl
  | n + 1 => by rw [iter_succ, h]; exact iter_fixed f v h n

/-! ## what an instruction writes / reads -/

def writes : Instr → List Ref
  | .smooth _ x _ tmp => [x, tmp]
  | .exSmooth _ x _ tmp => [x, tmp]
  | .residual _ out _ _ => [out]
  | .restrict _ out _ => [out]
  | .exRestrict _ out _ => [out]
  | .inject _ out _ => [out]
  | .prolong _ out _ => [out]
  | .exProlong _ out _ => [out]
  | .fmgInterp _ out _ => [out]
  | .directSolve _ x => [x]
  | .zero x => [x]
  | .add x _ => [x]
  | .lin43 x _ => [x]
  | .copy x _ => [x]
  | .exResidual _ r _ => [r]

def reads : Instr → List Ref
  | .smooth _ x rhs tmp => [x, rhs, tmp]
  | .exSmooth _ x rhs tmp => [x, rhs, tmp]
  | .residual _ _ rhs x => [rhs, x]
  | .restrict _ _ inp => [inp]
  | .exRestrict _ _ inp => [inp]
  | .inject _ _ inp => [inp]
  | .prolong _ _ inp => [inp]
  | .exProlong _ _ inp => [inp]
  | .fmgInterp _ _ inp => [inp]
  | .directSolve _ x => [x]
  | .zero _ => []
  | .add x y => [x, y]
  | .lin43 x y => [x, y]
  | .copy _ y => [y]
  | .exResidual _ r nxt => [r, nxt]

theorem stepI_unwritten (o : Ops V) (m : Mem V) (i : Instr) (r : Ref) (h : r ∉ writes i) :
    stepI o m i r = m r := by
  cases i <;> simp_all [writes, stepI, upd]

/-- the next memory depends on the old one only through what the instruction reads (on what it writes) and is
    the old memory elsewhere -/
theorem stepI_congr (o : Ops V) (m m' : Mem V) (i : Instr) (h : ∀ r ∈ reads i, m r = m' r) :
    ∀ r ∈ writes i, stepI o m i r = stepI o m' i r := by
  cases i <;> simp_all [writes, reads, stepI, upd]

/-- every reference written by some instruction of `p` satisfies `P` -/
def WritesIn (p : List Instr) (P : Ref → Prop) : Prop := ∀ i ∈ p, ∀ w ∈ writes i, P w

theorem WritesIn.nil (P : Ref → Prop) : WritesIn [] P := by intro i hi; cases hi

theorem WritesIn.append {p q : List Instr} {P : Ref → Prop} (hp : WritesIn p P) (hq : WritesIn q P) :
    WritesIn (p ++ q) P := by
  intro i hi; rcases List.mem_append.1 hi with h | h
  · exact hp i h
  · exact hq i h

theorem WritesIn.cons {i : Instr} {p : List Instr} {P : Ref → Prop} (hi : ∀ w ∈ writes i, P w)
    (hp : WritesIn p P) : WritesIn (i :: p) P := by
  intro j hj; rcases List.mem_cons.1 hj with h | h
  · rw [h]; exact hi
  · exact hp j h

theorem WritesIn.mono {p : List Instr} {P Q : Ref → Prop} (hp : WritesIn p P) (h : ∀ w, P w → Q w) :
    WritesIn p Q := fun i hi w hw => h w (hp i hi w hw)

theorem WritesIn.replicate {i : Instr} {P : Ref → Prop} (n : Nat) (hi : ∀ w ∈ writes i, P w) :
    WritesIn (List.replicate n i) P := by
  intro j hj; rw [(List.mem_replicate.1 hj).2]; exact hi

theorem WritesIn.flatten_replicate {p : List Instr} {P : Ref → Prop} (n : Nat) (hp : WritesIn p P) :
    WritesIn (List.replicate n p).flatten P := by
  intro j hj
  obtain ⟨l, hl, hjl⟩ := List.mem_flatten.1 hj
  rw [(List.mem_replicate.1 hl).2] at hjl
  exact hp j hjl

/-- frame rule: a reference no instruction writes keeps its value -/
theorem exec_frame (o : Ops V) {P : Ref → Prop} : ∀ (p : List Instr) (m : Mem V) (r : Ref),
    WritesIn p P → ¬ P r → exec o p m r = m r
  | [], _, _, _, _ => rfl
  | i :: p, m, r, hp, hr => by
      rw [exec_cons, exec_frame o p _ r (fun j hj => hp j (List.mem_cons_of_mem _ hj)) hr]
      exact stepI_unwritten o m i r (fun hw => hr (hp i (List.mem_cons_self ..) r hw))

/-! ## a repeated instruction that updates `x` from `x` and `rhs` -/

theorem exec_replicate_val (o : Ops V) (i : Instr) (x rhs : Ref) (F : V → V → V)
    (h1 : ∀ m : Mem V, stepI o m i x = F (m x) (m rhs)) (h2 : ∀ m : Mem V, stepI o m i rhs = m rhs) :
    ∀ (n : Nat) (m : Mem V),
      exec o (List.replicate n i) m x = iter (fun v => F v (m rhs)) n (m x) ∧
      exec o (List.replicate n i) m rhs = m rhs
  | 0, m => by simp
  | n + 1, m => by
      rw [exec_replicate_succ, iter_succ]
      obtain ⟨a, b⟩ := exec_replicate_val o i x rhs F h1 h2 n (stepI o m i)
      rw [a, b, h1, h2]; exact ⟨rfl, rfl⟩

theorem stepI_smooth_x (o : Ops V) (m : Mem V) (l : Nat) (x rhs tmp : Ref) :
    stepI o m (.smooth l x rhs tmp) x = o.smooth l (m x) (m rhs) := by simp [stepI]

theorem stepI_exSmooth_x (o : Ops V) (m : Mem V) (l : Nat) (x rhs tmp : Ref) :
    stepI o m (.exSmooth l x rhs tmp) x = o.exSmooth l (m x) (m rhs) := by simp [stepI]

theorem exec_smooths (o : Ops V) (l : Nat) (x rhs tmp : Ref) (hxr : x ≠ rhs) (hrt : rhs ≠ tmp) (n : Nat) (m : Mem V) :
    exec o (List.replicate n (.smooth l x rhs tmp)) m x = iter (fun v => o.smooth l v (m rhs)) n (m x) :=
  (exec_replicate_val o _ x rhs (fun a b => o.smooth l a b) (fun m => stepI_smooth_x o m l x rhs tmp)
    (fun m => stepI_unwritten o m _ rhs (by simp [writes, hxr.symm, hrt])) n m).1

theorem exec_exSmooths (o : Ops V) (l : Nat) (x rhs tmp : Ref) (hxr : x ≠ rhs) (hrt : rhs ≠ tmp) (n : Nat) (m : Mem V) :
    exec o (List.replicate n (.exSmooth l x rhs tmp)) m x = iter (fun v => o.exSmooth l v (m rhs)) n (m x) :=
  (exec_replicate_val o _ x rhs (fun a b => o.exSmooth l a b) (fun m => stepI_exSmooth_x o m l x rhs tmp)
    (fun m => stepI_unwritten o m _ rhs (by simp [writes, hxr.symm, hrt])) n m).1

/-! ## a repeated program that updates `x` from `x` under an invariant -/

theorem exec_flatten_replicate_val (o : Ops V) (p : List Instr) (x : Ref) (F : V → V) (Inv : Mem V → Prop)
    (hI : ∀ m, Inv m → Inv (exec o p m)) (hv : ∀ m, Inv m → exec o p m x = F (m x)) :
    ∀ (n : Nat) (m : Mem V), Inv m →
      exec o (List.replicate n p).flatten m x = iter F n (m x) ∧ Inv (exec o (List.replicate n p).flatten m)
  | 0, m, h => by simpa using h
  | n + 1, m, h => by
      rw [exec_flatten_replicate_succ, iter_succ, ← hv m h]
      exact exec_flatten_replicate_val o p x F Inv hI hv n _ (hI m h)

end MGCycle
