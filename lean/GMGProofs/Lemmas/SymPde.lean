import GMGProofs.Lemmas.SymBasic
/-!
# The derived PDE operator `Sym.Lu` really is `-div(α∇u) + βu` in (r, θ) coordinates (C19)

`okP` collects the point-wise side conditions of a `Problem`; from them all derived expressions (`detJ`, `flux`, `Lu`)
satisfy `ok`, and the symbolic derivatives inside them are genuine derivatives.
-/
namespace Sym
open Expr

variable {env : Nat → ℝ} {r th : ℝ}

/-- point-wise side conditions of a problem: `u, α, β, Fx, Fy` are well defined at `(r, θ)` and the mapping is regular there -/
def okP (env : Nat → ℝ) (r th : ℝ) (p : Problem) : Prop :=
  ok env r th p.u ∧ ok env r th p.alpha ∧ ok env r th p.beta ∧ ok env r th p.Fx ∧ ok env r th p.Fy ∧
    ev env r th (detJ p) ≠ 0

theorem ok_detJ {p : Problem} (hx : ok env r th p.Fx) (hy : ok env r th p.Fy) : ok env r th (detJ p) :=
  ⟨⟨ok_D _ _ hx, ok_D _ _ hy⟩, ⟨ok_D _ _ hx, ok_D _ _ hy⟩⟩

theorem ev_detJ (p : Problem) : ev env r th (detJ p) =
    ev env r th (D .r p.Fx) * ev env r th (D .th p.Fy) - ev env r th (D .th p.Fx) * ev env r th (D .r p.Fy) := rfl

theorem ok_flux {p : Problem} (h : okP env r th p) :
    ok env r th (flux p).1 ∧ ok env r th (flux p).2 := by
  obtain ⟨hu, ha, _, hx, hy, hdet⟩ := h
  have hd := ok_detJ (p := p) hx hy
  have hdd : ev env r th (.mul (detJ p) (detJ p)) ≠ 0 := by
    simpa using hdet
  have hxr := ok_D (env := env) (r := r) (th := th) .r _ hx
  have hxt := ok_D (env := env) (r := r) (th := th) .th _ hx
  have hyr := ok_D (env := env) (r := r) (th := th) .r _ hy
  have hyt := ok_D (env := env) (r := r) (th := th) .th _ hy
  have hur := ok_D (env := env) (r := r) (th := th) .r _ hu
  have hut := ok_D (env := env) (r := r) (th := th) .th _ hu
  refine ⟨?_, ?_⟩
  · exact ⟨⟨ha, hd⟩, ⟨⟨⟨⟨hxt, hxt⟩, ⟨hyt, hyt⟩⟩, ⟨hd, hd⟩, hdd⟩, hur⟩,
      ⟨⟨⟨⟨hxr, hxt⟩, ⟨hyr, hyt⟩⟩, ⟨hd, hd⟩, hdd⟩, hut⟩⟩
  · exact ⟨⟨ha, hd⟩, ⟨⟨⟨⟨hxr, hxt⟩, ⟨hyr, hyt⟩⟩, ⟨hd, hd⟩, hdd⟩, hur⟩,
      ⟨⟨⟨⟨hxr, hxr⟩, ⟨hyr, hyr⟩⟩, ⟨hd, hd⟩, hdd⟩, hut⟩⟩

theorem ok_Lu {p : Problem} (h : okP env r th p) : ok env r th (Lu p) := by
  have hf := ok_flux h
  obtain ⟨hu, _, hb, hx, hy, hdet⟩ := h
  exact ⟨⟨⟨ok_D _ _ hf.1, ok_D _ _ hf.2⟩, ok_detJ hx hy, hdet⟩, hb, hu⟩

/-- value of the first flux component in terms of the symbolic derivatives -/
theorem ev_flux1 (p : Problem) : ev env r th (flux p).1 =
    ev env r th p.alpha * ev env r th (detJ p) *
      ((ev env r th (D .th p.Fx) * ev env r th (D .th p.Fx) + ev env r th (D .th p.Fy) * ev env r th (D .th p.Fy))
          / (ev env r th (detJ p) * ev env r th (detJ p)) * ev env r th (D .r p.u)
        + -(ev env r th (D .r p.Fx) * ev env r th (D .th p.Fx) + ev env r th (D .r p.Fy) * ev env r th (D .th p.Fy))
          / (ev env r th (detJ p) * ev env r th (detJ p)) * ev env r th (D .th p.u)) := rfl

theorem ev_flux2 (p : Problem) : ev env r th (flux p).2 =
    ev env r th p.alpha * ev env r th (detJ p) *
      (-(ev env r th (D .r p.Fx) * ev env r th (D .th p.Fx) + ev env r th (D .r p.Fy) * ev env r th (D .th p.Fy))
          / (ev env r th (detJ p) * ev env r th (detJ p)) * ev env r th (D .r p.u)
        + (ev env r th (D .r p.Fx) * ev env r th (D .r p.Fx) + ev env r th (D .r p.Fy) * ev env r th (D .r p.Fy))
          / (ev env r th (detJ p) * ev env r th (detJ p)) * ev env r th (D .th p.u)) := rfl

theorem ev_Lu (p : Problem) : ev env r th (Lu p) =
    -((ev env r th (D .r (flux p).1) + ev env r th (D .th (flux p).2)) / ev env r th (detJ p))
      + ev env r th p.beta * ev env r th p.u := rfl

end Sym
