import GMGProofs.Lemmas.ExSmootherCode1
import GMGProofs.Lemmas.SmootherCode4
/-!
# Helper lemmas for C07c, part 2: one colour phase of the EXTRAPOLATED sweep as a fold over its lines, four phases give the
equations of `IsExSweep`

As `SmootherCode.phase_fold`, with the coarse nodes taken out: a line update leaves the size, all nodes off its line and the
coarse nodes of its line alone and zeroes the residual at the other nodes of its line.
-/
namespace ExSmootherCode
open Stencil Smoother SmootherCode
variable {K : Type} [_root_.Field K]

/-! ### sizes and totality of the folds of the sweep -/

theorem circleStep_none (o : Op K) (tiny : K → Bool) (nc : Nat) (f : Stencil.Field K) (l : List Nat) :
    l.foldl (circleStep o tiny nc f) none = none :=
  foldl_bind_none (fun a i => (solveCircle o tiny nc f (fld o.nt a) i).map (writeCircle o.nt a i)) l

theorem circle_fold_size (o : Op K) (tiny : K → Bool) (nc : Nat) (f : Stencil.Field K) (l : List Nat) :
    ∀ a a' : Array K, l.foldl (circleStep o tiny nc f) (some a) = some a' → a'.size = a.size := by
  induction l with
  | nil => intro a a' h; simp only [List.foldl_nil, Option.some.injEq] at h; rw [h]
  | cons k l ih =>
    intro a a' h
    rw [List.foldl_cons] at h
    cases h1 : circleStep o tiny nc f (some a) k with
    | none => rw [h1, circleStep_none] at h; cases h
    | some a1 =>
      rw [h1] at h
      rw [ih a1 a' h]
      unfold circleStep at h1
      simp only [Option.bind_some] at h1
      obtain ⟨vs, _, rfl⟩ := Option.map_eq_some_iff.mp h1
      exact size_writeCircle _ _ _ _

theorem radial_fold_size (o : Op K) (nc : Nat) (f : Stencil.Field K) (l : List Nat) :
    ∀ a : Array K, (l.foldl (radialStep o nc f) a).size = a.size := by
  induction l with
  | nil => intro a; rfl
  | cons k l ih =>
    intro a
    rw [List.foldl_cons, ih]
    exact size_writeRadial _ _ _ _ _

theorem circle_fold_total (o : Op K) (tiny : K → Bool) (nc : Nat) (f : Stencil.Field K)
    (ht : ∀ i, i < o.nt → tiny (SparseLU.den ((SparseLU.factorRows (innerCSR o)).2.getD i []) i) = false)
    (l : List Nat) : ∀ a : Array K, ∃ a', l.foldl (circleStep o tiny nc f) (some a) = some a' := by
  induction l with
  | nil => intro a; exact ⟨a, rfl⟩
  | cons k l ih =>
    intro a
    rw [List.foldl_cons]
    have hsol : ∃ vs, solveCircle o tiny nc f (fld o.nt a) k = some vs := by
      unfold solveCircle
      split
      · cases hsv : SparseLU.solve tiny (SparseLU.factorRows (innerCSR o)) (circleTemp o nc f (fld o.nt a) 0) with
        | some vs => exact ⟨vs, rfl⟩
        | none =>
          obtain ⟨j, hj, hjt⟩ := (SparseLU.solve_none_iff tiny (innerCSR o) _).mp hsv
          rw [ht j hj] at hjt
          cases hjt
      · split
        · exact ⟨_, rfl⟩
        · exact ⟨_, rfl⟩
    obtain ⟨vs, hvs⟩ := hsol
    have : circleStep o tiny nc f (some a) k = some (writeCircle o.nt a k vs) := by
      unfold circleStep
      simp only [Option.bind_some, hvs, Option.map_some]
    rw [this]
    exact ih _

/-! ### one colour phase -/

theorem ex_phase_fold {κ : Type} (o : Op K) (nc : Nat) (f : Stencil.Field K) (hnc : 1 ≤ nc ∨ o.bc = true)
    (hnr : 2 ≤ o.nr) (hnt : 2 ≤ o.nt) (heven : o.nt % 2 = 0)
    (step : Array K → κ → Option (Array K)) (onLine : κ → Nat → Nat → Prop) (ph : Nat) (l : List κ)
    (hline : ∀ k ∈ l, ∀ p q, p < o.nr → q < o.nt → onLine k p q →
      phase nc p q = ph ∧ ∀ a b, onLine k a b ↔ sameLine nc p q a b)
    (hstep : ∀ k ∈ l, ∀ a a', a.size = o.nr * o.nt → step a k = some a' →
      a'.size = a.size ∧
      (∀ p q, p < o.nr → q < o.nt → (¬ onLine k p q ∨ coarseNode p q = true) → fld o.nt a' p q = fld o.nt a p q) ∧
      (∀ p q, p < o.nr → q < o.nt → onLine k p q → coarseNode p q = false → take o f (fld o.nt a') p q = 0)) :
    ∀ a a', a.size = o.nr * o.nt → l.foldl (fun s k => s.bind (step · k)) (some a) = some a' →
      a'.size = a.size ∧
      (∀ p q, p < o.nr → q < o.nt → ((∀ k ∈ l, ¬ onLine k p q) ∨ coarseNode p q = true) →
        fld o.nt a' p q = fld o.nt a p q) ∧
      (∀ k ∈ l, ∀ p q, p < o.nr → q < o.nt → onLine k p q → coarseNode p q = false →
        take o f (fld o.nt a') p q = 0) := by
  induction l with
  | nil =>
    intro a a' _ h
    have : a = a' := by simpa using h
    subst this
    exact ⟨rfl, fun _ _ _ _ _ => rfl, fun k hk => by simp at hk⟩
  | cons k l ih =>
    intro a a' hs h
    rw [List.foldl_cons] at h
    cases h1 : step a k with
    | none =>
      simp only [Option.bind_some, h1] at h
      rw [foldl_bind_none] at h
      cases h
    | some a1 =>
      simp only [Option.bind_some, h1] at h
      obtain ⟨hs1, hu1, hz1⟩ := hstep k (by simp) a a1 hs h1
      obtain ⟨hs2, hu2, hz2⟩ := ih (fun k' hk' => hline k' (List.mem_cons_of_mem _ hk'))
        (fun k' hk' => hstep k' (List.mem_cons_of_mem _ hk')) a1 a' (by rw [hs1, hs]) h
      refine ⟨by rw [hs2, hs1], ?_, ?_⟩
      · intro p q hp hq hno
        rcases hno with hno | hco
        · rw [hu2 p q hp hq (Or.inl fun k' hk' => hno k' (List.mem_cons_of_mem _ hk')),
            hu1 p q hp hq (Or.inl (hno k (by simp)))]
        · rw [hu2 p q hp hq (Or.inr hco), hu1 p q hp hq (Or.inr hco)]
      · intro k0 hk0 p q hp hq hon hfine
        by_cases hex : ∃ k1 ∈ l, onLine k1 p q
        · obtain ⟨k1, hk1, hon1⟩ := hex
          exact hz2 k1 hk1 p q hp hq hon1 hfine
        · have hk0' : k0 = k := by
            rcases List.mem_cons.mp hk0 with h' | h'
            · exact h'
            · exact absurd ⟨k0, h', hon⟩ hex
          subst hk0'
          rw [← hz1 p q hp hq hon hfine]
          apply decoupled o nc hnc hnr hnt heven f _ _ p q hp hq
          intro c d hc hd hcd
          apply hu2 c d hc hd
          left
          intro k1 hk1 hon1
          apply hex
          refine ⟨k1, hk1, ?_⟩
          obtain ⟨hph1, hl1⟩ := hline k1 (List.mem_cons_of_mem _ hk1) c d hc hd hon1
          obtain ⟨hph0, _⟩ := hline k0 (by simp) p q hp hq hon
          rcases hcd with hne | hsl
          · exact absurd (hph1.trans hph0.symm) hne
          · rw [hl1 p q, sameLine_congr hsl p q]
            exact sameLine_refl nc p q

/-- one colour phase: all nodes of the other phases and all coarse nodes keep their value, all other nodes of phase `ph`
    get zero residual -/
theorem ex_phase_fold' {κ : Type} (o : Op K) (nc : Nat) (f : Stencil.Field K) (hnc : 1 ≤ nc ∨ o.bc = true)
    (hnr : 2 ≤ o.nr) (hnt : 2 ≤ o.nt) (heven : o.nt % 2 = 0)
    (step : Array K → κ → Option (Array K)) (onLine : κ → Nat → Nat → Prop) (ph : Nat) (l : List κ)
    (hline : ∀ k ∈ l, ∀ p q, p < o.nr → q < o.nt → onLine k p q →
      phase nc p q = ph ∧ ∀ a b, onLine k a b ↔ sameLine nc p q a b)
    (hcover : ∀ p q, p < o.nr → q < o.nt → phase nc p q = ph → ∃ k ∈ l, onLine k p q)
    (hstep : ∀ k ∈ l, ∀ a a', a.size = o.nr * o.nt → step a k = some a' →
      a'.size = a.size ∧
      (∀ p q, p < o.nr → q < o.nt → (¬ onLine k p q ∨ coarseNode p q = true) → fld o.nt a' p q = fld o.nt a p q) ∧
      (∀ p q, p < o.nr → q < o.nt → onLine k p q → coarseNode p q = false → take o f (fld o.nt a') p q = 0))
    (a a' : Array K) (hs : a.size = o.nr * o.nt)
    (h : l.foldl (fun s k => s.bind (step · k)) (some a) = some a') :
    a'.size = o.nr * o.nt ∧
    ∀ p q, p < o.nr → q < o.nt →
      ((phase nc p q ≠ ph ∨ coarseNode p q = true) → fld o.nt a' p q = fld o.nt a p q) ∧
      (phase nc p q = ph → coarseNode p q = false → take o f (fld o.nt a') p q = 0) := by
  obtain ⟨h1, h2, h3⟩ := ex_phase_fold o nc f hnc hnr hnt heven step onLine ph l hline hstep a a' hs h
  refine ⟨by rw [h1, hs], fun p q hp hq => ⟨?_, ?_⟩⟩
  · intro hne
    rcases hne with hne | hco
    · exact h2 p q hp hq (Or.inl fun k hk hon => hne (hline k hk p q hp hq hon).1)
    · exact h2 p q hp hq (Or.inr hco)
  · intro he hfine
    obtain ⟨k, hk, hon⟩ := hcover p q hp hq he
    exact h3 k hk p q hp hq hon hfine

/-- four phases in order give the equations of the extrapolated sweep -/
theorem phases_isExSweep (o : Op K) (nc : Nat) (f : Stencil.Field K) (hnr : 2 ≤ o.nr) (hnt : 0 < o.nt)
    (S : Nat → Stencil.Field K)
    (hS : ∀ k, 1 ≤ k → k ≤ 4 → ∀ p q, p < o.nr → q < o.nt →
      ((phase nc p q ≠ k ∨ coarseNode p q = true) → S k p q = S (k - 1) p q) ∧
      (phase nc p q = k → coarseNode p q = false → take o f (S k) p q = 0)) :
    IsExSweep o nc f (S 0) (S 4) := by
  have hconst : ∀ p q, p < o.nr → q < o.nt → ∀ m n, m ≤ n → n ≤ 4 →
      (∀ k, m < k → k ≤ n → (phase nc p q ≠ k ∨ coarseNode p q = true)) → S n p q = S m p q := by
    intro p q hp hq m n hmn
    induction n, hmn using Nat.le_induction with
    | base => intro _ _; rfl
    | succ n hmn ih =>
      intro hn4 hk
      rw [(hS (n + 1) (by omega) hn4 p q hp hq).1 (hk (n + 1) (by omega) (le_refl _))]
      exact ih (by omega) (fun k h1 h2 => hk k h1 (by omega))
  intro i j hi hj
  unfold exDefect
  split
  · rename_i hco
    rw [hconst i j hi hj 0 4 (by omega) (le_refl _) (fun _ _ _ => Or.inr hco)]
    exact sub_self _
  · rename_i hco
    have hfine : coarseNode i j = false := by simpa using hco
    have h1 := one_le_phase nc i j
    have h4 := phase_le_four nc i j
    rw [take_congr_grid o f (mix nc (phase nc i j) (S 0) (S 4)) (S (phase nc i j)) hnr hnt ?_ i j hi hj]
    · exact (hS _ h1 h4 i j hi hj).2 rfl hfine
    · intro a b ha hb
      unfold mix
      split
      · rename_i hle
        exact hconst a b ha hb (phase nc i j) 4 h4 (le_refl _) (fun k h1 _ => Or.inl (by omega))
      · rename_i hlt
        exact (hconst a b ha hb 0 (phase nc i j) (by omega) h4 (fun k _ h2 => Or.inl (by omega))).symm

end ExSmootherCode
