import GMGProofs.Lemmas.Concrete4
import GMGProofs.Lemmas.Concrete6
/-!
# Totality of the concrete operators: every operator of `Concrete.ops H` maps present, right-sized arrays to present,
right-sized arrays
* the sparse LU's substitution keeps the length of the right-hand side (no hypothesis on the pivots) and returns as soon as the
  `tiny` test fires on no pivot;
* `MGCycle.OpsInv (ops H) ⟨L, ν1, ν2⟩ (PU H) (QF H)`: the invariant "the vector is present and has the size of its level"
  (`PU`, iterates) / "is present, and has the size of its level on the levels ≥ 1" (`QF`, right-hand sides: the level-0
  right-hand side is only read through `fld`, its size does not matter).
-/
namespace Concrete
open Stencil Scalar MGCycle SparseLU

section AnyField
variable {K : Type} [_root_.Field K]

/-! ### lengths through `SparseLU.solve` -/

theorem fwdRow_length (Li : Row K) (i : Nat) : ∀ b : List K,
    (Li.foldl (fun b e => b.set i (vget b i - e.2 * vget b e.1)) b).length = b.length := by
  induction Li with
  | nil => intro b; rfl
  | cons e rest ih => intro b; rw [List.foldl_cons, ih, List.length_set]

theorem fwdSolve_length (L : List (Row K)) (b : List K) : (fwdSolve L b).length = b.length := by
  unfold fwdSolve
  generalize List.range L.length = l
  induction l generalizing b with
  | nil => rfl
  | cons i rest ih => rw [List.foldl_cons, ih, fwdRow_length]

theorem bwdSolve_length (tiny : K → Bool) (U : List (Row K)) : ∀ (i : Nat) (b x : List K),
    bwdSolve tiny U i b = some x → x.length = b.length
  | 0, b, x, h => by
      simp only [bwdSolve, Option.some.injEq] at h
      rw [h]
  | i + 1, b, x, h => by
      simp only [bwdSolve] at h
      split at h
      · exact absurd h (by simp)
      · rw [bwdSolve_length tiny U i _ x h, List.length_set]

/-- `solveInPlace` keeps the length of the right-hand side -/
theorem solve_length_eq (tiny : K → Bool) (LU : List (Row K) × List (Row K)) (b x : List K)
    (h : SparseLU.solve tiny LU b = some x) : x.length = b.length := by
  unfold SparseLU.solve at h
  rw [bwdSolve_length tiny _ _ _ x h, fwdSolve_length]

/-- the sparse LU returns (no `std::exit`) whenever `tiny` fires on no pivot — for EVERY right-hand side, zero pivots included -/
theorem solve_total (tiny : K → Bool) (M : CSR K)
    (ht : ∀ r, r < M.rows → tiny (den ((factorRows M).2.getD r []) r) = false) (b : List K) :
    ∃ x, SparseLU.solve tiny (factorRows M) b = some x ∧ x.length = b.length := by
  cases hs : SparseLU.solve tiny (factorRows M) b with
  | none =>
      obtain ⟨j, hj, h⟩ := (solve_none_iff tiny M b).mp hs
      rw [ht j hj] at h
      exact absurd h (by simp)
  | some x => exact ⟨x, rfl, solve_length_eq tiny _ b x hs⟩

/-! ### the invariants -/

set_option linter.unusedSectionVars false in
theorem ofField_size (nr nt : Nat) (g : Stencil.Field K) : (SmootherCode.ofField nr nt g).size = nr * nt := by
  unfold SmootherCode.ofField
  exact Array.size_ofFn

theorem ofFld_size (H : Hier K) (l : Nat) (g : Stencil.Field K) :
    (ofFld H l g).size = (lvl H l).op.nr * (lvl H l).op.nt := ofField_size _ _ g

/-- an iterate of level `l`: present, of the level's size -/
def PU (H : Hier K) (l : Nat) (v : Option (Array K)) : Prop :=
  ∃ a, v = some a ∧ a.size = (lvl H l).op.nr * (lvl H l).op.nt

/-- a right-hand side of level `l`: present; of the level's size on the levels `≥ 1` -/
def QF (H : Hier K) (l : Nat) (v : Option (Array K)) : Prop :=
  ∃ a, v = some a ∧ (0 < l → a.size = (lvl H l).op.nr * (lvl H l).op.nt)

/-- `x += y` -/
def addArr (x y : Array K) : Array K := Array.ofFn (n := x.size) fun p => x[p] + y.getD p.val 0

theorem addArr_size (x y : Array K) : (addArr x y).size = x.size := Array.size_ofFn

theorem ops_add_some (H : Hier K) (x y : Array K) : (ops H).add (some x) (some y) = some (addArr x y) := by
  show some (Array.ofFn (n := x.size) fun p => x[p] + y.getD p.val (n 0)) = some (addArr x y)
  rw [Scalar.n_zero]
  rfl

theorem ops_resid_some (H : Hier K) (l : Nat) (f x : Array K) :
    (ops H).resid l (some f) (some x) = some (ofFld H l (take (lvl H l).op (fld H l f) (fld H l x))) := rfl

theorem ops_restrict_some (H : Hier K) (l : Nat) (a : Array K) :
    (ops H).restrict l (some a) = some (ofFld H (l + 1) (Interp.restrict (pair H l) (fld H l a))) := rfl

theorem ops_prolong_some (H : Hier K) (l : Nat) (a : Array K) :
    (ops H).prolong (l + 1) (some a) = some (ofFld H l (Interp.prolong (pair H l) (fld H (l + 1) a))) := rfl

theorem ops_smooth_some (H : Hier K) (l : Nat) (x f : Array K) :
    (ops H).smooth l (some x) (some f) = SmootherCode.sweep (lvl H l).op H.tiny (lvl H l).nc (fld H l f) x := rfl

theorem ops_solve_some (H : Hier K) (l : Nat) (b : Array K) :
    (ops H).solve l (some b) =
      (DirectCode.solve H.tables (lvl H l).op H.tiny b.toList).bind fun r => r.map fun xs => xs.toArray := rfl

/-- the coarse direct solve returns a vector of the right-hand side's size: the assembly stays in bounds and `tiny` fires on no
    pivot -/
theorem ops_solve_total (H : Hier K) (l : Nat) (M : CSR K)
    (hM : DirectCode.assemble H.tables (lvl H l).op = some M)
    (ht : ∀ r, r < M.rows → H.tiny (den ((factorRows M).2.getD r []) r) = false) (b : Array K) :
    ∃ xs : List K, DirectCode.solve H.tables (lvl H l).op H.tiny b.toList = some (some xs) ∧ xs.length = b.size ∧
      (ops H).solve l (some b) = some xs.toArray := by
  obtain ⟨xs, h1, h2⟩ := solve_total H.tiny M ht b.toList
  have h3 : DirectCode.solve H.tables (lvl H l).op H.tiny b.toList = some (some xs) := by
    unfold DirectCode.solve
    rw [hM, Option.map_some, h1]
  refine ⟨xs, h3, by rw [h2, Array.length_toList], ?_⟩
  rw [ops_solve_some, h3]
  rfl

/-- **the operators of the concrete model preserve "present and right-sized"**: Dirichlet inner boundary on the smoothing levels
    (the only way a sweep can leave is the sparse LU of the innermost circle, whose pivots are then 1), `tiny 1 = false`, the
    coarse assembly in bounds and `tiny` firing on none of the coarse pivots -/
theorem opsInv (H : Hier K) (L nu1 nu2 : Nat) (hL : 2 ≤ L)
    (hbc : ∀ l, l + 1 < L → (lvl H l).op.bc = true) (ht1 : H.tiny 1 = false)
    (M : CSR K) (hM : DirectCode.assemble H.tables (lvl H (L - 1)).op = some M)
    (ht : ∀ r, r < M.rows → H.tiny (den ((factorRows M).2.getD r []) r) = false) :
    OpsInv (ops H) ⟨L, nu1, nu2⟩ (PU H) (QF H) := by
  refine ⟨?_, ?_, ?_, ?_, ?_⟩
  · rintro l _ _ hl ⟨x, rfl, hx⟩ ⟨f, rfl, _⟩
    have hl' : l + 1 < L := by have : l < L - 1 := hl; omega
    obtain ⟨y, hy⟩ := C06d.code_sweep_total_dirichlet (lvl H l).op (lvl H l).nc H.tiny ht1 (fld H l f) x (hbc l hl')
    refine ⟨y, ?_, ?_⟩
    · rw [ops_smooth_some, hy]
    · rw [C06c.sweep_size _ _ _ _ x y hy, hx]
  · rintro l _ _ _ ⟨f, rfl, _⟩ ⟨x, rfl, _⟩
    rw [ops_resid_some, ops_restrict_some]
    exact ⟨_, rfl, fun _ => ofFld_size H (l + 1) _⟩
  · rintro _ ⟨b, rfl, hb⟩
    show PU H (L - 1) ((ops H).solve (L - 1) (some b))
    obtain ⟨xs, _, h2, h3⟩ := ops_solve_total H (L - 1) M hM ht b
    refine ⟨xs.toArray, h3, ?_⟩
    rw [List.size_toArray, h2]
    exact hb (show 0 < L - 1 by omega)
  · intro l
    refine ⟨_, rfl, ?_⟩
    exact Array.size_replicate
  · rintro l _ _ _ ⟨x, rfl, hx⟩ ⟨e, rfl, _⟩
    rw [ops_prolong_some, ops_add_some]
    exact ⟨_, rfl, by rw [addArr_size, hx]⟩

end AnyField
end Concrete
