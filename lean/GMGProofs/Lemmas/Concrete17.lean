import GMGProofs.Lemmas.Concrete16
import GMGProofs.Lemmas.Concrete13
import GMGProofs.Lemmas.Concrete10
import GMGProofs.Lemmas.Concrete5
/-!
# The FMG start-up over the code-level operators: operator-level facts

* `ops_fmg_correction`: `fmgInterp₁ (solve₁ f₁) = some y`: the coarse solve returned a vector `e` of the size of level 1 that satisfies
  the coarse system with right-hand side `f₁`, and `y` is the array of `Interp.fmgInterp (pair H 0) e`;
* the invariants of `Concrete7` / `Concrete13` with a WEAKER predicate on right-hand sides (`QFL`, `QSL`: the size is only asked for
  on the coarsest level `L - 1`, where the direct solver returns a vector of the size of its right-hand side; a sweep, a residual
  and every transfer read their arguments through `fld` and return arrays of the level's size whatever the size of the
  right-hand side is), so that the level right-hand sides of the initial memory need not be right-sized;
* `ops_start_total`: nested iteration over `Concrete.ops H` from the coarse solve never ends in `none` (plain and extrapolated);
* `ops_start_agree`: nested iteration over `Concrete.opsGive H G` returns what nested iteration over `Concrete.ops H` returns.
-/
set_option linter.unusedSectionVars false
set_option linter.unusedVariables false
namespace Concrete
open Stencil Scalar MGCycle SparseLU

section AnyField
variable {K : Type} [_root_.Field K]

theorem ops_fmgInterp_some (H : Hier K) (l : Nat) (a : Array K) :
    (ops H).fmgInterp (l + 1) (some a) = some (ofFld H l (Interp.fmgInterp (pair H l) (fld H (l + 1) a))) := rfl

theorem ops_exRestrict_some (H : Hier K) (l : Nat) (a : Array K) :
    (ops H).exRestrict l (some a) = some (ofFld H (l + 1) (Interp.exRestrict (pair H l) (fld H l a))) := rfl

theorem ops_inject_some (H : Hier K) (l : Nat) (a : Array K) :
    (ops H).inject l (some a) = some (ofFld H (l + 1) (Interp.inject (fld H l a))) := rfl

theorem ops_exProlong_some (H : Hier K) (l : Nat) (a : Array K) :
    (ops H).exProlong (l + 1) (some a) = some (ofFld H l (Interp.exProlong (pair H l) (fld H (l + 1) a))) := rfl

theorem ops_lin43_some (H : Hier K) (x y : Array K) :
    (ops H).lin43 (some x) (some y) = some (Array.ofFn (n := x.size) fun p => c43 * x[p] + cm13 * y.getD p.val (n 0)) := rfl

theorem ops_exSmooth_some (H : Hier K) (l : Nat) (x f : Array K) :
    (ops H).exSmooth l (some x) (some f) = ExSmootherCode.sweep (lvl H l).op H.tiny (lvl H l).nc (fld H l f) x := rfl

/-- the FMG interpolation is shared by both strategies -/
theorem opsGive_fmgInterp_eq (H : Hier K) (G : GiveTables) (l : Nat) (s : Option (Array K)) :
    (opsGive H G).fmgInterp l s = (ops H).fmgInterp l s := rfl

theorem opsGive_zero_eq (H : Hier K) (G : GiveTables) (l : Nat) : (opsGive H G).zero l = (ops H).zero l := rfl

/-- the FMG interpolation of a present vector (of any size) is present and has the size of the finer level -/
theorem ops_fmgInterp_PU (H : Hier K) (l : Nat) (a : Array K) : PU H l ((ops H).fmgInterp (l + 1) (some a)) :=
  ⟨_, ops_fmgInterp_some H l a, ofFld_size H l _⟩

/-- the FMG interpolation of any vector has the size of the finer level if it is present -/
theorem ops_fmgInterp_PS (H : Hier K) (l : Nat) (s : Option (Array K)) : PS H l ((ops H).fmgInterp (l + 1) s) := by
  cases s with
  | none => exact PS_none H l
  | some a =>
    rw [ops_fmgInterp_some]
    exact PS_some H l _ (ofFld_size H l _)

/-! ### right-hand sides: the size matters on the coarsest level only -/

/-- a right-hand side of level `l` of a hierarchy of `L` levels: present; of the level's size on the coarsest level -/
def QFL (H : Hier K) (L : Nat) (l : Nat) (v : Option (Array K)) : Prop :=
  ∃ a, v = some a ∧ (l = L - 1 → a.size = (lvl H l).op.nr * (lvl H l).op.nt)

/-- a right-hand side of level `l`: of the level's size if present, on the coarsest level -/
def QSL (H : Hier K) (L : Nat) (l : Nat) (v : Option (Array K)) : Prop :=
  ∀ a, v = some a → l = L - 1 → a.size = (lvl H l).op.nr * (lvl H l).op.nt

theorem QS0 (H : Hier K) (v : Option (Array K)) : QS H 0 v := fun _ _ h => absurd h (Nat.lt_irrefl 0)

/-- `Concrete.opsInv` with the weaker predicate on right-hand sides -/
theorem opsInvL (H : Hier K) (L nu1 nu2 : Nat) (hL : 2 ≤ L)
    (hbc : ∀ l, l + 1 < L → (lvl H l).op.bc = true) (ht1 : H.tiny 1 = false)
    (M : CSR K) (hM : DirectCode.assemble H.tables (lvl H (L - 1)).op = some M)
    (ht : ∀ r, r < M.rows → H.tiny (den ((factorRows M).2.getD r []) r) = false) :
    OpsInv (ops H) ⟨L, nu1, nu2⟩ (PU H) (QFL H L) := by
  have I := opsInv H L nu1 nu2 hL hbc ht1 M hM ht
  refine ⟨?_, ?_, ?_, I.zero, I.add_prolong⟩
  · rintro l _ _ hl ⟨x, rfl, hx⟩ ⟨f, rfl, _⟩
    have hl' : l + 1 < L := by have : l < L - 1 := hl; omega
    obtain ⟨y, hy⟩ := C06d.code_sweep_total_dirichlet (lvl H l).op (lvl H l).nc H.tiny ht1 (fld H l f) x (hbc l hl')
    exact ⟨y, by rw [ops_smooth_some, hy], by rw [C06c.sweep_size _ _ _ _ x y hy, hx]⟩
  · rintro l _ _ _ ⟨f, rfl, _⟩ ⟨x, rfl, _⟩
    rw [ops_resid_some, ops_restrict_some]
    exact ⟨_, rfl, fun _ => ofFld_size H (l + 1) _⟩
  · rintro _ ⟨b, rfl, hb⟩
    exact I.solve (some b) ⟨b, rfl, fun _ => hb rfl⟩

/-- the extra steps of the implicitly extrapolated cycle preserve "present and right-sized": Dirichlet inner boundary on level 0
    (both level-0 smoothers then only meet pivots 1), `tiny 1 = false`; the level-1 right-hand side has to be present -/
theorem exOpsInvU (H : Hier K) (L : Nat) (fgs : Bool) (hbc0 : (lvl H 0).op.bc = true) (ht1 : H.tiny 1 = false) :
    ExOpsInvR (ops H) fgs (PU H) (QFL H L) (fun v => ∃ a, v = some a) := by
  refine ⟨?_, ?_, ?_⟩
  · rintro _ _ ⟨x, rfl, hx⟩ ⟨f, rfl, _⟩
    cases fgs
    · show PU H 0 ((ops H).exSmooth 0 (some x) (some f))
      obtain ⟨y, hy⟩ := C07c.code_exsweep_total (lvl H 0).op (lvl H 0).nc H.tiny (fld H 0 f) x
        (fun i hi => by rw [ex_inner_pivots_dirichlet _ hbc0 i hi]; exact ht1)
      exact ⟨y, by rw [ops_exSmooth_some, hy], by rw [C07c.sweep_size _ _ _ _ x y hy, hx]⟩
    · show PU H 0 ((ops H).smooth 0 (some x) (some f))
      obtain ⟨y, hy⟩ := C06d.code_sweep_total_dirichlet (lvl H 0).op (lvl H 0).nc H.tiny ht1 (fld H 0 f) x hbc0
      exact ⟨y, by rw [ops_smooth_some, hy], by rw [C06c.sweep_size _ _ _ _ x y hy, hx]⟩
  · rintro _ _ _ ⟨f, rfl, _⟩ ⟨f1, rfl⟩ ⟨x, rfl, _⟩
    rw [ops_resid_some, ops_exRestrict_some, ops_inject_some, ops_resid_some, ops_lin43_some]
    exact ⟨_, rfl, fun _ => by rw [Array.size_ofFn]; exact ofFld_size H (0 + 1) _⟩
  · rintro _ _ ⟨x, rfl, hx⟩ ⟨e, rfl, _⟩
    show PU H 0 ((ops H).add (some x) ((ops H).exProlong (0 + 1) (some e)))
    rw [ops_exProlong_some, ops_add_some]
    exact ⟨_, rfl, by rw [addArr_size, hx]⟩

/-- nested iteration over the code-level operators is total when every level right-hand side is present (any size) -/
theorem ops_start_total_aux (H : Hier K) (L : Nat) (hL : 2 ≤ L) (fk : Kind) (fi nu1 nu2 : Nat) (ex fgs : Bool)
    (hbc : ∀ l, l + 1 < L → (lvl H l).op.bc = true) (ht1 : H.tiny 1 = false)
    (M : CSR K) (hM : DirectCode.assemble H.tables (lvl H (L - 1)).op = some M)
    (ht : ∀ r, r < M.rows → H.tiny (den ((factorRows M).2.getD r []) r) = false)
    (g : Nat → Option (Array K)) (hg : ∀ l, l < L → ∃ f, g l = some f) :
    PU H 0 (fmgSpec (ops H) ⟨L, nu1, nu2⟩ fk fi ex fgs g (L - 1) ((ops H).solve (L - 1) (g (L - 1)))) := by
  obtain ⟨n, rfl⟩ : ∃ n, L = n + 2 := ⟨L - 2, by omega⟩
  have I := opsInvL H (n + 2) nu1 nu2 hL hbc ht1 M hM ht
  have hex : ex = true →
      ExOpsInvR (ops H) fgs (PU H) (QFL H (n + 2)) (fun v => ∃ a, v = some a) ∧ ∃ a, g 1 = some a :=
    fun _ => ⟨exOpsInvU H (n + 2) fgs (hbc 0 (by omega)) ht1, hg 1 (by omega)⟩
  have hQ : ∀ l, l < (⟨n + 2, nu1, nu2⟩ : Cfg).levels - 1 → QFL H (n + 2) l (g l) := by
    intro l hl
    have hl' : l < n + 2 - 1 := hl
    obtain ⟨f, hf⟩ := hg l (by omega)
    exact ⟨f, hf, fun h => by omega⟩
  obtain ⟨b, hb⟩ := hg (n + 1) (by omega)
  obtain ⟨xs, _, _, hs⟩ := ops_solve_total H (n + 1) M hM ht b
  show PU H 0 (fmgSpec (ops H) ⟨n + 2, nu1, nu2⟩ fk fi ex fgs g (n + 1) ((ops H).solve (n + 1) (g (n + 1))))
  rw [hb, hs, fmgSpec_succ]
  have hcur : n < (⟨n + 2, nu1, nu2⟩ : Cfg).levels - 1 := show n < n + 2 - 1 by omega
  have hinv : ∀ v, PU H n v → PU H n (cycleSpec (ops H) ⟨n + 2, nu1, nu2⟩ fk (exAt ex n) fgs g n v) := fun v hv =>
    cycleSpec_inv (ops H) ⟨n + 2, nu1, nu2⟩ (PU H) (QFL H (n + 2)) _ I ex fgs g hex fk n v hcur hv (hQ n hcur)
  exact fmgSpec_inv (ops H) ⟨n + 2, nu1, nu2⟩ (PU H) (QFL H (n + 2)) _ I ex fgs g hex fk fi
    (fun l s _ hs => by obtain ⟨a, rfl, _⟩ := hs; exact ops_fmgInterp_PU H l a) hQ n _ (show n ≤ n + 2 - 1 by omega)
    (iter_inv _ (PU H n) hinv fi _ (ops_fmgInterp_PU H n _))

/-- **nested iteration over the code-level operators is total** (plain and extrapolated, any depth, any FMG cycle type and count):
    the hypotheses of `C10e.concrete_cycle_total_bc`; the right-hand side of the coarsest level present, those of the other levels
    present if FMG cycles are run (any sizes) -/
theorem ops_start_total (H : Hier K) (L : Nat) (hL : 2 ≤ L) (fk : Kind) (fi nu1 nu2 : Nat) (ex fgs : Bool)
    (hbc : ∀ l, l + 1 < L → (lvl H l).op.bc = true) (ht1 : H.tiny 1 = false)
    (M : CSR K) (hM : DirectCode.assemble H.tables (lvl H (L - 1)).op = some M)
    (ht : ∀ r, r < M.rows → H.tiny (den ((factorRows M).2.getD r []) r) = false)
    (g : Nat → Option (Array K)) (hg : ∀ l, l < L → (l + 1 < L → 0 < fi) → ∃ f, g l = some f) :
    PU H 0 (fmgSpec (ops H) ⟨L, nu1, nu2⟩ fk fi ex fgs g (L - 1) ((ops H).solve (L - 1) (g (L - 1)))) := by
  rcases Nat.eq_zero_or_pos fi with rfl | hfi
  · obtain ⟨b, hb⟩ := hg (L - 1) (by omega) (fun h => by omega)
    rw [fmgSpec_zero_rhs _ _ _ _ _ g (fun _ => some b), hb]
    exact ops_start_total_aux H L hL fk 0 nu1 nu2 ex fgs hbc ht1 M hM ht (fun _ => some b) (fun _ _ => ⟨b, rfl⟩)
  · exact ops_start_total_aux H L hL fk fi nu1 nu2 ex fgs hbc ht1 M hM ht g (fun l hl => hg l hl (fun _ => hfi))

/-! ### an absent iterate stays absent -/

theorem ops_cyc_none (H : Hier K) (c : Cfg) : ∀ (fuel : Nat) (k : Kind) (d : Nat) (f : Option (Array K)),
    cyc (ops H) c k fuel d none f = none
  | 0, k, d, f => cyc_zero _ _ _ _ _ _
  | fuel + 1, k, d, f => by
      have hs : ∀ n, iter (fun v => (ops H).smooth d v f) n none = none := fun n => iter_fixed _ _ rfl n
      have ha : ∀ e, (ops H).add none e = none := fun _ => rfl
      rw [cyc_succ, hs, ha, hs]

theorem ops_excyc_none (H : Hier K) (c : Cfg) (k : Kind) (fgs : Bool) (f f1 : Option (Array K)) :
    excyc (ops H) c k fgs none f f1 = none := by
  have hs : ∀ n, iter (exSmF (ops H) fgs f) n none = none := fun n => iter_fixed _ _ (by cases fgs <;> rfl) n
  have ha : ∀ e, (ops H).add none e = none := fun _ => rfl
  unfold excyc
  simp only [hs, ha]

/-- nested iteration started from an absent vector returns an absent vector -/
theorem ops_fmgSpec_none (H : Hier K) (c : Cfg) (fk : Kind) (fi : Nat) (ex fgs : Bool) (g : Nat → Option (Array K)) :
    ∀ cur, fmgSpec (ops H) c fk fi ex fgs g cur none = none
  | 0 => rfl
  | cur + 1 => by
      have h0 : (ops H).fmgInterp (cur + 1) none = none := rfl
      have hfix : ∀ n, iter (cycleSpec (ops H) c fk (exAt ex cur) fgs g cur) n none = none := fun n => by
        apply iter_fixed
        unfold cycleSpec
        split
        · exact ops_excyc_none H c fk fgs _ _
        · exact ops_cyc_none H c _ fk cur _
      rw [fmgSpec_succ, h0, hfix]
      exact ops_fmgSpec_none H c fk fi ex fgs g cur

/-! ### give = take -/

/-- `Concrete.opsInvS` with the weaker predicate on right-hand sides -/
theorem opsInvSL (H : Hier K) (L nu1 nu2 : Nat) (hL : 2 ≤ L) : OpsInv (ops H) ⟨L, nu1, nu2⟩ (PS H) (QSL H L) := by
  have I := opsInvS H L nu1 nu2 hL
  refine ⟨fun l x f _ hx _ => ops_smooth_PS H l x f hx, ?_, ?_, I.zero, I.add_prolong⟩
  · intro l f x _ _ _ a h _
    exact ops_restrict_size H l _ a h
  · intro g hg
    exact I.solve g (fun a ha _ => hg a ha rfl)

theorem exOpsInvSL (H : Hier K) (L : Nat) (fgs : Bool) : ExOpsInv (ops H) fgs (PS H) (QSL H L) :=
  have E := exOpsInvS H fgs
  ⟨fun x f hx _ => E.exSm x f hx (QS0 H f), fun f f1 x _ hx a h _ => E.exRhs f f1 x (QS0 H f) hx a h Nat.one_pos,
    E.add_exProlong⟩

/-- `Concrete.opsAgree` with the weaker predicate on right-hand sides (no operator of the two strategies needs it to agree) -/
theorem opsAgreeL (H : Hier K) (G : GiveTables) (hG : G.direct = C04g.genTablesGive) (htab : H.tables = C04c.genTables)
    (L nu1 nu2 : Nat) (hL : 0 < L)
    (hsm : ∀ l, l + 1 < L → 2 ≤ (lvl H l).nc ∧ (lvl H l).nc + 3 ≤ (lvl H l).op.nr)
    (hres : ∀ l, l < L → ResOK (lvl H l).op) :
    OpsAgree (opsGive H G) (ops H) ⟨L, nu1, nu2⟩ (PS H) (QSL H L) := by
  refine ⟨?_, ?_, ?_, fun _ _ => rfl, fun _ _ => rfl, fun _ => rfl, fun _ _ => rfl⟩
  · intro l x f hl hx _
    have hl' : l + 1 < L := by have : l < L - 1 := hl; omega
    obtain ⟨_, h2, h3, h4⟩ := hres l (by omega)
    exact opsGive_smooth_eq H G l (hsm l hl').1 (hsm l hl').2 h2 h3 h4 x f hx
  · intro l f x hl _ _
    have hl' : l < L := by have : l < L - 1 := hl; omega
    obtain ⟨h1, h2, h3, h4⟩ := hres l hl'
    exact opsGive_resid_eq H G l h1 (by omega) h3 h4 f x
  · intro g _
    show (opsGive H G).solve (L - 1) g = (ops H).solve (L - 1) g
    obtain ⟨h1, h2, h3, h4⟩ := hres (L - 1) (by omega)
    exact opsGive_solve_eq H G hG htab (L - 1) h1 h2 h3 h4 g

theorem exOpsAgreeL (H : Hier K) (G : GiveTables) (L : Nat) (fgs : Bool)
    (hsm : 2 ≤ (lvl H 0).nc ∧ (lvl H 0).nc + 3 ≤ (lvl H 0).op.nr)
    (hres0 : ResOK (lvl H 0).op) (hres1 : ResOK (lvl H 1).op)
    (hex : fgs = false → ExSmootherGiveCode.Admissible G.exSmoother (lvl H 0).op (lvl H 0).nc) :
    ExOpsAgree (opsGive H G) (ops H) fgs (PS H) (QSL H L) :=
  have EA := exOpsAgree H G fgs hsm hres0 hres1 hex
  ⟨fun x f hx _ => EA.exSm x f hx (QS0 H f), fun f f1 x _ hx => EA.exRhs f f1 x (QS0 H f) hx, EA.add_exProlong⟩

/-- **nested iteration over the give operators returns what nested iteration over the take operators returns** — for ANY level
    right-hand sides `g` (absent, wrong-sized: the same `none` / the same arrays on both sides) -/
theorem ops_start_agree (H : Hier K) (G : GiveTables) (hG : G.direct = C04g.genTablesGive) (htab : H.tables = C04c.genTables)
    (L : Nat) (hL : 2 ≤ L) (fk : Kind) (fi nu1 nu2 : Nat) (ex fgs : Bool)
    (hsm : ∀ l, l + 1 < L → 2 ≤ (lvl H l).nc ∧ (lvl H l).nc + 3 ≤ (lvl H l).op.nr)
    (hres : ∀ l, l < L → ResOK (lvl H l).op)
    (hex : ex = true → fgs = false → ExSmootherGiveCode.Admissible G.exSmoother (lvl H 0).op (lvl H 0).nc)
    (g : Nat → Option (Array K)) :
    fmgSpec (opsGive H G) ⟨L, nu1, nu2⟩ fk fi ex fgs g (L - 1) ((opsGive H G).solve (L - 1) (g (L - 1))) =
      fmgSpec (ops H) ⟨L, nu1, nu2⟩ fk fi ex fgs g (L - 1) ((ops H).solve (L - 1) (g (L - 1))) := by
  obtain ⟨n, rfl⟩ : ∃ n, L = n + 2 := ⟨L - 2, by omega⟩
  have A := opsAgreeL H G hG htab (n + 2) nu1 nu2 (by omega) hsm hres
  have I := opsInvSL H (n + 2) nu1 nu2 hL
  have hexA : ex = true → ExOpsAgree (opsGive H G) (ops H) fgs (PS H) (QSL H (n + 2)) ∧
      ExOpsInv (ops H) fgs (PS H) (QSL H (n + 2)) :=
    fun he => ⟨exOpsAgreeL H G (n + 2) fgs (hsm 0 (by omega)) (hres 0 (by omega)) (hres 1 (by omega)) (hex he),
      exOpsInvSL H (n + 2) fgs⟩
  have hQ : ∀ l, l < (⟨n + 2, nu1, nu2⟩ : Cfg).levels - 1 → QSL H (n + 2) l (g l) := by
    intro l hl a _ h
    have hl' : l < n + 2 - 1 := hl
    omega
  obtain ⟨h1, h2, h3, h4⟩ := hres (n + 1) (by omega)
  show fmgSpec (opsGive H G) ⟨n + 2, nu1, nu2⟩ fk fi ex fgs g (n + 1) ((opsGive H G).solve (n + 1) (g (n + 1))) =
    fmgSpec (ops H) ⟨n + 2, nu1, nu2⟩ fk fi ex fgs g (n + 1) ((ops H).solve (n + 1) (g (n + 1)))
  rw [opsGive_solve_eq H G hG htab (n + 1) h1 h2 h3 h4, fmgSpec_succ, fmgSpec_succ, opsGive_fmgInterp_eq]
  have hcur : n < (⟨n + 2, nu1, nu2⟩ : Cfg).levels - 1 := show n < n + 2 - 1 by omega
  have hinv : ∀ v, PS H n v → PS H n (cycleSpec (ops H) ⟨n + 2, nu1, nu2⟩ fk (exAt ex n) fgs g n v) := fun v hv =>
    cycleSpec_inv (ops H) ⟨n + 2, nu1, nu2⟩ (PS H) (QSL H (n + 2)) (fun _ => True) I ex fgs g
      (fun h => ⟨(hexA h).2.toR, trivial⟩) fk n v hcur hv (hQ n hcur)
  have ht : PS H n ((ops H).fmgInterp (n + 1) ((ops H).solve (n + 1) (g (n + 1)))) := ops_fmgInterp_PS H n _
  rw [iter_agree _ _ (PS H n)
    (fun v hv => cycleSpec_agree (opsGive H G) (ops H) ⟨n + 2, nu1, nu2⟩ (PS H) (QSL H (n + 2)) A I ex fgs hexA g fk n v hcur hv
      (hQ n hcur)) hinv fi _ ht]
  exact fmgSpec_agree (opsGive H G) (ops H) ⟨n + 2, nu1, nu2⟩ (PS H) (QSL H (n + 2)) A I ex fgs hexA g fk fi
    (opsGive_fmgInterp_eq H G) (fun l s _ _ => ops_fmgInterp_PS H l s) hQ n _ (show n ≤ n + 2 - 1 by omega)
    (iter_inv _ (PS H n) hinv fi _ ht)

end AnyField

section Ordered
variable {K : Type} [_root_.Field K] [LinearOrder K] [IsStrictOrderedRing K]

/-- `fmgInterp₁ (solve₁ f₁)` returned `some y`: the coarse solve returned a vector `e` of the size of level 1, `e` satisfies the
    coarse system the code-level direct solver assembles with the right-hand side `f₁`, and `y` is the array of the FMG
    interpolation of `e` -/
theorem ops_fmg_correction (H : Hier K) (f1 y : Array K)
    (htab : H.tables = C04c.genTables)
    (hnr1 : 4 ≤ (lvl H 1).op.nr) (hnt1 : 4 ≤ (lvl H 1).op.nt) (heven1 : (lvl H 1).op.nt % 2 = 0)
    (hbc1 : (lvl H 1).op.bc = true) (he1 : Elliptic (lvl H 1).op)
    (hf1 : f1.size = (lvl H 1).op.nr * (lvl H 1).op.nt)
    (hy : (ops H).fmgInterp 1 ((ops H).solve 1 (some f1)) = some y) :
    ∃ e : Array K, e.size = (lvl H 1).op.nr * (lvl H 1).op.nt ∧
      (∀ I J, I < (lvl H 1).op.nr → J < (lvl H 1).op.nt →
        take (lvl H 1).op (SmootherCode.fld (lvl H 1).op.nt f1) (SmootherCode.fld (lvl H 1).op.nt e) I J = 0) ∧
      y = SmootherCode.ofField (lvl H 0).op.nr (lvl H 0).op.nt
            (Interp.fmgInterp (pair H 0) (SmootherCode.fld (lvl H 1).op.nt e)) := by
  rw [ops_solve_some] at hy
  cases hs : DirectCode.solve H.tables (lvl H 1).op H.tiny f1.toList with
  | none => rw [hs] at hy; exact absurd hy (by simp [ops])
  | some r =>
    cases r with
    | none => rw [hs] at hy; exact absurd hy (by simp [ops])
    | some xs =>
      rw [hs] at hy
      have hy' : (ops H).fmgInterp (0 + 1) (some xs.toArray) = some y := hy
      rw [ops_fmgInterp_some] at hy'
      have hlen : xs.length = (lvl H 1).op.nr * (lvl H 1).op.nt := by
        rw [directSolve_length _ _ _ _ _ hs, Array.length_toList, hf1]
      refine ⟨xs.toArray, by rw [List.size_toArray, hlen], ?_, (Option.some.inj hy').symm⟩
      intro I J hI hJ
      rw [htab] at hs
      have h := C04c.code_solve_inverts_dirichlet (lvl H 1).op hnr1 hnt1 heven1 hbc1 he1 H.tiny f1.toList xs
        (by rw [Array.length_toList, hf1]) hs I J hI hJ
      rw [vget_toList, vget_toArray] at h
      exact h

end Ordered
end Concrete
