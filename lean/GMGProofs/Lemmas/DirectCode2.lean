import GMGProofs.Lemmas.DirectCode1
/-!
# Code-level direct solver, lemmas 2 — what `buildRow` / `rows` / `assemble` compute with the header's tables

`GoodTables T`: the five offset tables have the values of `directSolverTakeCustomLU.h` (checked by `rfl` against
`Generated/Stencils.lean` in `C04c.lean`).  With them every row is the list of the node's stores in code order
(`nodeRow o (writes o i j)`): no store leaves the row, no slot keeps its zero initialisation.
-/
set_option linter.unusedSectionVars false
set_option linter.unusedVariables false
namespace DirectCode
open Stencil SparseLU
variable {K : Type} [_root_.Field K]

/-- the values of the header's tables -/
structure GoodTables (T : Tables) : Prop where
  interior : T.interior = [7, 4, 8, 1, 0, 2, 5, 3, 6]
  acrossOrigin : T.acrossOrigin = [-1, 4, 6, 1, 0, 2, -1, 3, 5]
  db : T.db = [-1, -1, -1, -1, 0, -1, -1, -1, -1]
  nextInnerDB : T.nextInnerDB = [7, 4, 8, 1, 0, 2, 5, 3, 6]
  nextOuterDB : T.nextOuterDB = [7, 4, 8, 1, 0, 2, 5, 3, 6]

/-- the stores of one node as (column, value) pairs, in code order -/
def nodeRow (o : Op K) (ws : List (Pos × (Nat × Nat) × K)) : List (Nat × K) :=
  ws.map fun w => (w.2.1.1 * o.nt + w.2.1.2, w.2.2)

theorem buildRow9 (o : Op K) (c0 c1 c2 c3 c4 c5 c6 c7 c8 : Nat × Nat) (v0 v1 v2 v3 v4 v5 v6 v7 v8 : K) :
    buildRow o [7, 4, 8, 1, 0, 2, 5, 3, 6] 9
      [(.Center, c0, v0), (.Left, c1, v1), (.Right, c2, v2), (.Bottom, c3, v3), (.Top, c4, v4),
       (.BottomLeft, c5, v5), (.BottomRight, c6, v6), (.TopLeft, c7, v7), (.TopRight, c8, v8)]
    = some (nodeRow o
      [(.Center, c0, v0), (.Left, c1, v1), (.Right, c2, v2), (.Bottom, c3, v3), (.Top, c4, v4),
       (.BottomLeft, c5, v5), (.BottomRight, c6, v6), (.TopLeft, c7, v7), (.TopRight, c8, v8)]) := rfl

theorem buildRow7 (o : Op K) (c0 c1 c2 c3 c4 c5 c6 : Nat × Nat) (v0 v1 v2 v3 v4 v5 v6 : K) :
    buildRow o [-1, 4, 6, 1, 0, 2, -1, 3, 5] 7
      [(.Center, c0, v0), (.Left, c1, v1), (.Right, c2, v2), (.Bottom, c3, v3), (.Top, c4, v4),
       (.BottomRight, c5, v5), (.TopRight, c6, v6)]
    = some (nodeRow o
      [(.Center, c0, v0), (.Left, c1, v1), (.Right, c2, v2), (.Bottom, c3, v3), (.Top, c4, v4),
       (.BottomRight, c5, v5), (.TopRight, c6, v6)]) := rfl

theorem buildRow1 (o : Op K) (c0 : Nat × Nat) (v0 : K) :
    buildRow o [-1, -1, -1, -1, 0, -1, -1, -1, -1] 1 [(.Center, c0, v0)]
    = some (nodeRow o [(.Center, c0, v0)]) := rfl

section
variable (T : Tables) (o : Op K)

theorem writes_int {i : Nat} (j : Nat) (h : 0 < i ∧ i + 1 < o.nr) : writes o i j =
    [(.Center, (i, j), centerValueD o i j (i - 1) j),
     (.Left, (i - 1, j), SmootherCode.leftValue o i j (i - 1) j),
     (.Right, (i + 1, j), SmootherCode.rightValue o i j),
     (.Bottom, (i, jm o j), SmootherCode.bottomValue o i j),
     (.Top, (i, jp o j), SmootherCode.topValue o i j),
     (.BottomLeft, (i - 1, jm o j), -quarter * (o.art (i - 1) j + o.art i (jm o j))),
     (.BottomRight, (i + 1, jm o j), quarter * (o.art (i + 1) j + o.art i (jm o j))),
     (.TopLeft, (i - 1, jp o j), quarter * (o.art (i - 1) j + o.art i (jp o j))),
     (.TopRight, (i + 1, jp o j), -quarter * (o.art (i + 1) j + o.art i (jp o j)))] := by
  unfold writes; rw [if_pos h]

theorem writes_origin (j : Nat) (hnr : 2 ≤ o.nr) (hbc : o.bc = false) : writes o 0 j =
    [(.Center, (0, j), centerValueD o 0 j 0 (ja o j)),
     (.Left, (0, ja o j), SmootherCode.leftValue o 0 j 0 (ja o j)),
     (.Right, (1, j), SmootherCode.rightValue o 0 j),
     (.Bottom, (0, jm o j), SmootherCode.bottomValue o 0 j),
     (.Top, (0, jp o j), SmootherCode.topValue o 0 j),
     (.BottomRight, (1, jm o j), quarter * (o.art 1 j + o.art 0 (jm o j))),
     (.TopRight, (1, jp o j), -quarter * (o.art 1 j + o.art 0 (jp o j)))] := by
  unfold writes; rw [if_neg (by omega), if_pos rfl, hbc]; rfl

theorem writes_inner_db (j : Nat) (hbc : o.bc = true) : writes o 0 j = [(.Center, (0, j), Scalar.n 1)] := by
  unfold writes; rw [if_neg (by omega), if_pos rfl, hbc]; rfl

theorem writes_outer {i : Nat} (j : Nat) (h0 : 0 < i) (h : i + 1 = o.nr) :
    writes o i j = [(.Center, (i, j), Scalar.n 1)] := by
  unfold writes; rw [if_neg (by omega), if_neg (by omega), if_pos h]

/-- **every row is the node's stores in code order**: no store out of bounds, every allocated slot written -/
theorem row_eq (hT : GoodTables T) (hnr : 4 ≤ o.nr) {i : Nat} (hi : i < o.nr) (j : Nat) :
    row T o i j = some (nodeRow o (writes o i j)) := by
  by_cases hint : 0 < i ∧ i + 1 < o.nr
  · have h1 : stencilOf T o i = some [7, 4, 8, 1, 0, 2, 5, 3, 6] ∧ stencilSize o i = some 9 := by
      unfold stencilOf stencilSize
      rw [hT.interior, hT.nextInnerDB, hT.nextOuterDB]
      rcases (by omega : (1 < i ∧ i + 2 < o.nr) ∨ i = 1 ∨ (1 < i ∧ i + 2 = o.nr)) with h | h | h
      · constructor <;> rw [if_pos (Or.inl h)]
      · subst h
        by_cases hb : o.bc = true
        · have e1 : ¬ ((1 < 1 ∧ 1 + 2 < o.nr) ∨ (1 = 1 ∧ o.bc = false)) := by
            rintro (⟨h, _⟩ | ⟨_, h⟩)
            · omega
            · rw [hb] at h; cases h
          have e2 : ¬ (1 = 0 ∧ o.bc = false) := fun h => by omega
          have e3 : ¬ ((1 = 0 ∧ o.bc = true) ∨ 1 + 1 = o.nr) := by rintro (⟨h, _⟩ | h) <;> omega
          constructor <;> rw [if_neg e1, if_neg e2, if_neg e3, if_pos ⟨rfl, hb⟩]
        · have hb' : o.bc = false := by simpa using hb
          constructor <;> rw [if_pos (Or.inr ⟨rfl, hb'⟩)]
      · have e1 : ¬ ((1 < i ∧ i + 2 < o.nr) ∨ (i = 1 ∧ o.bc = false)) := by
          rintro (⟨_, h⟩ | ⟨h, _⟩) <;> omega
        have e2 : ¬ (i = 0 ∧ o.bc = false) := fun h => by omega
        have e3 : ¬ ((i = 0 ∧ o.bc = true) ∨ i + 1 = o.nr) := by rintro (⟨h, _⟩ | h) <;> omega
        have e4 : ¬ (i = 1 ∧ o.bc = true) := fun h => by omega
        constructor <;> rw [if_neg e1, if_neg e2, if_neg e3, if_neg e4, if_pos h.2]
    obtain ⟨h1, h2⟩ := h1
    unfold row
    rw [h1, h2, writes_int o j hint]
    exact buildRow9 o ..
  · by_cases h0 : i = 0
    · subst h0
      by_cases hb : o.bc = true
      · have h1 : stencilOf T o 0 = some [-1, -1, -1, -1, 0, -1, -1, -1, -1] := by
          unfold stencilOf; rw [hT.db]; simp [hb]
        have h2 : stencilSize o 0 = some 1 := by unfold stencilSize; simp [hb]
        unfold row
        rw [h1, h2, writes_inner_db o j hb]
        exact buildRow1 o ..
      · have hb' : o.bc = false := by simpa using hb
        have h1 : stencilOf T o 0 = some [-1, 4, 6, 1, 0, 2, -1, 3, 5] := by
          unfold stencilOf; rw [hT.acrossOrigin]; simp [hb']
        have h2 : stencilSize o 0 = some 7 := by unfold stencilSize; simp [hb']
        unfold row
        rw [h1, h2, writes_origin o j (by omega) hb']
        exact buildRow7 o ..
    · have hl : i + 1 = o.nr := by omega
      have h1 : stencilOf T o i = some [-1, -1, -1, -1, 0, -1, -1, -1, -1] := by
        unfold stencilOf; rw [hT.db]
        rw [if_neg (by omega), if_neg (by omega), if_pos (Or.inr hl)]
      have h2 : stencilSize o i = some 1 := by
        unfold stencilSize
        rw [if_neg (by omega), if_neg (by omega), if_pos (Or.inr hl)]
      unfold row
      rw [h1, h2, writes_outer o j (by omega) hl]
      exact buildRow1 o ..

/-- the stored rows, row-major -/
def rowList : List (List (Nat × K)) :=
  (List.range (o.nr * o.nt)).map fun p => nodeRow o (writes o (p / o.nt) (p % o.nt))

theorem rows_eq (hT : GoodTables T) (hnr : 4 ≤ o.nr) : rows T o = some (rowList o) := by
  unfold rows rowList
  have hl : ∀ p ∈ List.range (o.nr * o.nt), p < o.nr * o.nt := fun p hp => List.mem_range.mp hp
  generalize List.range (o.nr * o.nt) = l at hl ⊢
  induction l with
  | nil => rfl
  | cons p l ih =>
    have hp : p / o.nt < o.nr :=
      Nat.div_lt_of_lt_mul (by rw [Nat.mul_comm]; exact hl p (List.mem_cons_self ..))
    rw [List.foldr_cons, ih (fun q hq => hl q (List.mem_cons_of_mem _ hq)), row_eq T o hT hnr hp]
    rfl

theorem assemble_eq (hT : GoodTables T) (hnr : 4 ≤ o.nr) :
    assemble T o = some (csrRows (o.nr * o.nt) (o.nr * o.nt) (rowList o)) := by
  unfold assemble
  rw [rows_eq T o hT hnr]
  rfl

theorem rowList_length : (rowList o).length = o.nr * o.nt := by simp [rowList]

theorem rowList_getD {i j : Nat} (hi : i < o.nr) (hj : j < o.nt) :
    (rowList o).getD (i * o.nt + j) [] = nodeRow o (writes o i j) := by
  unfold rowList
  rw [SparseLU.getD_map_range, if_pos (Direct.idx_lt hi hj)]
  have hpos : 0 < o.nt := by omega
  have h1 : (i * o.nt + j) / o.nt = i := by
    rw [Nat.mul_comm, Nat.mul_add_div hpos, Nat.div_eq_of_lt hj, Nat.add_zero]
  have h2 : (i * o.nt + j) % o.nt = j := by
    rw [Nat.mul_comm, Nat.mul_add_mod, Nat.mod_eq_of_lt hj]
  rw [h1, h2]

end
end DirectCode
