import GMGProofs.Lemmas.Concrete8
import GMGProofs.Lemmas.Concrete11
import GMGProofs.Lemmas.Concrete12
import GMGProofs.Props.C06g
import GMGProofs.Props.C07g
import GMGProofs.Props.C03
/-!
# The operators of the GIVE strategy agree with the operators of the TAKE strategy on right-sized vectors

* `PS` / `QS`: "IF the vector is present it has the size of its level" — an invariant every operator of `Concrete.ops H`
  preserves without any hypothesis on the hierarchy (`opsInvS`, `exOpsInvS`); a take sweep may leave through the sparse LU's
  exit (`none`), which then propagates through both families alike;
* `opsGive_smooth_eq` (C06g), `opsGive_exSmooth_eq` (C07g), `opsGive_resid_eq` (C03), `opsGive_solve_eq` (C04g + `Concrete11`):
  the four operators in which `opsGive` differs from `ops` return the same value;
* `opsAgree`, `exOpsAgree`: the hypotheses of `MGCycle.cyc_agree` / `MGCycle.excyc_agree`.
-/
set_option linter.unusedSectionVars false
set_option linter.unusedVariables false
namespace Concrete
open Stencil Scalar MGCycle SparseLU

section AnyField
variable {K : Type} [_root_.Field K]

/-- an iterate of level `l`: of the level's size if present -/
def PS (H : Hier K) (l : Nat) (v : Option (Array K)) : Prop :=
  ∀ a, v = some a → a.size = (lvl H l).op.nr * (lvl H l).op.nt

/-- a right-hand side of level `l`: of the level's size if present, on the levels `≥ 1` -/
def QS (H : Hier K) (l : Nat) (v : Option (Array K)) : Prop :=
  ∀ a, v = some a → 0 < l → a.size = (lvl H l).op.nr * (lvl H l).op.nt

theorem PS_none (H : Hier K) (l : Nat) : PS H l none := fun _ h => by cases h
theorem QS_none (H : Hier K) (l : Nat) : QS H l none := fun _ h => by cases h

theorem PS_some (H : Hier K) (l : Nat) (a : Array K) (h : a.size = (lvl H l).op.nr * (lvl H l).op.nt) : PS H l (some a) :=
  fun b hb => by cases hb; exact h

/-! ### the take operators preserve "right-sized if present" -/

theorem ops_smooth_PS (H : Hier K) (l : Nat) (x f : Option (Array K)) (hx : PS H l x) : PS H l ((ops H).smooth l x f) := by
  cases x with
  | none => exact PS_none H l
  | some x =>
    cases f with
    | none => exact PS_none H l
    | some f =>
      intro a h
      rw [ops_smooth_some] at h
      rw [C06c.sweep_size _ _ _ _ x a h]
      exact hx x rfl

theorem ops_exSmooth_PS (H : Hier K) (l : Nat) (x f : Option (Array K)) (hx : PS H l x) : PS H l ((ops H).exSmooth l x f) := by
  cases x with
  | none => exact PS_none H l
  | some x =>
    cases f with
    | none => exact PS_none H l
    | some f =>
      intro a h
      have h' : ExSmootherCode.sweep (lvl H l).op H.tiny (lvl H l).nc (fld H l f) x = some a := h
      rw [C07c.sweep_size _ _ _ _ x a h']
      exact hx x rfl

theorem ops_add_PS (H : Hier K) (l : Nat) (x e : Option (Array K)) (hx : PS H l x) : PS H l ((ops H).add x e) := by
  cases x with
  | none => exact PS_none H l
  | some x =>
    cases e with
    | none => exact PS_none H l
    | some e =>
      rw [ops_add_some]
      exact PS_some H l _ (by rw [addArr_size]; exact hx x rfl)

theorem ops_restrict_size (H : Hier K) (l : Nat) (v : Option (Array K)) (a : Array K) (h : (ops H).restrict l v = some a) :
    a.size = (lvl H (l + 1)).op.nr * (lvl H (l + 1)).op.nt := by
  cases v with
  | none => cases h
  | some b =>
    rw [ops_restrict_some] at h
    cases h
    exact ofFld_size H (l + 1) _

theorem ops_exRestrict_size (H : Hier K) (l : Nat) (v : Option (Array K)) (a : Array K)
    (h : (ops H).exRestrict l v = some a) : a.size = (lvl H (l + 1)).op.nr * (lvl H (l + 1)).op.nt := by
  cases v with
  | none => cases h
  | some b =>
    have h' : some (ofFld H (l + 1) (Interp.exRestrict (pair H l) (fld H l b))) = some a := h
    cases h'
    exact ofFld_size H (l + 1) _

theorem ops_lin43_size (H : Hier K) (x y : Option (Array K)) (a : Array K) (h : (ops H).lin43 x y = some a) :
    ∃ x', x = some x' ∧ a.size = x'.size := by
  cases x with
  | none => cases h
  | some x =>
    cases y with
    | none => cases h
    | some y =>
      have h' : some (Array.ofFn (n := x.size) fun p => c43 * x[p] + cm13 * y.getD p.val (n 0)) = some a := h
      cases h'
      exact ⟨x, rfl, Array.size_ofFn⟩

/-- **the operators of the take model preserve "right-sized if present"** — no hypothesis on the hierarchy -/
theorem opsInvS (H : Hier K) (L nu1 nu2 : Nat) (hL : 2 ≤ L) : OpsInv (ops H) ⟨L, nu1, nu2⟩ (PS H) (QS H) := by
  refine ⟨?_, ?_, ?_, ?_, ?_⟩
  · intro l x f _ hx _
    exact ops_smooth_PS H l x f hx
  · intro l f x _ _ _ a h _
    exact ops_restrict_size H l _ a h
  · intro g hg
    show PS H (L - 1) ((ops H).solve (L - 1) g)
    cases g with
    | none => exact PS_none H _
    | some b =>
      intro a h
      rw [ops_solve_some] at h
      cases hs : DirectCode.solve H.tables (lvl H (L - 1)).op H.tiny b.toList with
      | none => rw [hs] at h; cases h
      | some r =>
        cases r with
        | none => rw [hs] at h; cases h
        | some xs =>
          rw [hs] at h
          have h' : some xs.toArray = some a := h
          cases h'
          rw [List.size_toArray, directSolve_length _ _ _ _ xs hs, Array.length_toList]
          exact hg b rfl (show 0 < L - 1 by omega)
  · intro l a h
    have h' : some (Array.replicate (nrOf H l * ntOf H l) (n 0)) = some a := h
    cases h'
    exact Array.size_replicate
  · intro l x e _ hx _
    cases e with
    | none =>
      cases x with
      | none => exact PS_none H l
      | some x => exact PS_none H l
    | some e =>
      rw [ops_prolong_some]
      exact ops_add_PS H l x _ hx

/-- … and so do the extra steps of the implicitly extrapolated cycle -/
theorem exOpsInvS (H : Hier K) (fgs : Bool) : ExOpsInv (ops H) fgs (PS H) (QS H) := by
  refine ⟨?_, ?_, ?_⟩
  · intro x f hx _
    cases fgs
    · exact ops_exSmooth_PS H 0 x f hx
    · exact ops_smooth_PS H 0 x f hx
  · intro f f1 x _ _ a h _
    obtain ⟨x', hx', hs⟩ := ops_lin43_size H _ _ a h
    rw [hs]
    exact ops_exRestrict_size H 0 _ x' hx'
  · intro x e hx _
    cases e with
    | none =>
      cases x with
      | none => exact PS_none H 0
      | some x => exact PS_none H 0
    | some e =>
      exact ops_add_PS H 0 x _ hx

/-! ### the four operators in which the strategies differ -/

/-- `SmootherGive` = `SmootherTake` on a right-sized iterate (C06g) -/
theorem opsGive_smooth_eq (H : Hier K) (G : GiveTables) (l : Nat) (hnc : 2 ≤ (lvl H l).nc)
    (hnr : (lvl H l).nc + 3 ≤ (lvl H l).op.nr) (hnt : 4 ≤ (lvl H l).op.nt) (heven : (lvl H l).op.nt % 2 = 0)
    (hk : (lvl H l).op.bc = false → ∀ j, j < (lvl H l).op.nt → (lvl H l).op.k (ja (lvl H l).op j) = (lvl H l).op.k j)
    (x f : Option (Array K)) (hx : PS H l x) : (opsGive H G).smooth l x f = (ops H).smooth l x f := by
  cases x with
  | none => rfl
  | some x =>
    cases f with
    | none => rfl
    | some f =>
      show SmootherGiveCode.sweep (lvl H l).op (lvl H l).nc H.tiny (fld H l f) x =
        SmootherCode.sweep (lvl H l).op H.tiny (lvl H l).nc (fld H l f) x
      exact C06g.give_sweep_eq_take_sweep _ _ hnc hnr hnt heven hk _ _ x (hx x rfl)

/-- `ExtrapolatedSmootherGive` = `ExtrapolatedSmootherTake` on a right-sized iterate (C07g): the scatter assembly stays in
    bounds and the sweeps agree -/
theorem opsGive_exSmooth_eq (H : Hier K) (G : GiveTables) (l : Nat)
    (A : ExSmootherGiveCode.Admissible G.exSmoother (lvl H l).op (lvl H l).nc)
    (x f : Option (Array K)) (hx : PS H l x) : (opsGive H G).exSmooth l x f = (ops H).exSmooth l x f := by
  cases x with
  | none => rfl
  | some x =>
    cases f with
    | none => rfl
    | some f =>
      obtain ⟨m, hm⟩ := C07g.exgive_assemble_in_bounds _ _ _ A
      show (ExSmootherGiveCode.assemble G.exSmoother (lvl H l).op (lvl H l).nc).bind (fun m =>
          ExSmootherGiveCode.sweep (lvl H l).op m H.tiny (lvl H l).nc (fld H l f) x) =
        ExSmootherCode.sweep (lvl H l).op H.tiny (lvl H l).nc (fld H l f) x
      rw [hm]
      exact C07g.exgive_sweep_eq_take_sweep _ _ _ A m hm _ _ x (hx x rfl)

/-- `ResidualGive` = `ResidualTake` (C03), any vectors -/
theorem opsGive_resid_eq (H : Hier K) (G : GiveTables) (l : Nat) (hnr : 4 ≤ (lvl H l).op.nr) (hnt : 2 ≤ (lvl H l).op.nt)
    (heven : (lvl H l).op.nt % 2 = 0)
    (hk : (lvl H l).op.bc = false → ∀ j, j < (lvl H l).op.nt → (lvl H l).op.k (ja (lvl H l).op j) = (lvl H l).op.k j)
    (f x : Option (Array K)) : (opsGive H G).resid l f x = (ops H).resid l f x := by
  cases f with
  | none => rfl
  | some f =>
    cases x with
    | none => rfl
    | some x =>
      show some (ofFld H l (give (lvl H l).op (fld H l f) (fld H l x))) =
        some (ofFld H l (take (lvl H l).op (fld H l f) (fld H l x)))
      congr 1
      exact ofField_congr _ _ _ _ (fun i j hi hj => C03.give_eq_take_weak_hk _ hnr hnt heven hk _ _ i j hi hj)

/-- `DirectSolverGiveCustomLU` = `DirectSolverTakeCustomLU` (`Concrete11`: the same CSR container), any right-hand side -/
theorem opsGive_solve_eq (H : Hier K) (G : GiveTables) (hG : G.direct = C04g.genTablesGive)
    (htab : H.tables = C04c.genTables) (l : Nat) (hnr : 4 ≤ (lvl H l).op.nr) (hnt : 4 ≤ (lvl H l).op.nt)
    (heven : (lvl H l).op.nt % 2 = 0)
    (hk : (lvl H l).op.bc = false → ∀ j, j < (lvl H l).op.nt → (lvl H l).op.k (ja (lvl H l).op j) = (lvl H l).op.k j)
    (g : Option (Array K)) : (opsGive H G).solve l g = (ops H).solve l g := by
  cases g with
  | none => rfl
  | some b =>
    show (DirectGiveCode.solve G.direct (lvl H l).op (lvl H l).nc H.tiny b.toList).bind (fun r => r.map fun xs => xs.toArray) =
      (DirectCode.solve H.tables (lvl H l).op H.tiny b.toList).bind (fun r => r.map fun xs => xs.toArray)
    rw [hG, htab, give_solve_eq_take_solve _ hnr hnt heven hk]

/-! ### the hypotheses of `MGCycle.cyc_agree` / `MGCycle.excyc_agree` -/

/-- what the residuals of both strategies need on a level -/
def ResOK (o : Op K) : Prop :=
  4 ≤ o.nr ∧ 4 ≤ o.nt ∧ o.nt % 2 = 0 ∧ (o.bc = false → ∀ j, j < o.nt → o.k (ja o j) = o.k j)

theorem opsAgree (H : Hier K) (G : GiveTables) (hG : G.direct = C04g.genTablesGive) (htab : H.tables = C04c.genTables)
    (L nu1 nu2 : Nat) (hL : 0 < L)
    (hsm : ∀ l, l + 1 < L → 2 ≤ (lvl H l).nc ∧ (lvl H l).nc + 3 ≤ (lvl H l).op.nr)
    (hres : ∀ l, l < L → ResOK (lvl H l).op) :
    OpsAgree (opsGive H G) (ops H) ⟨L, nu1, nu2⟩ (PS H) (QS H) := by
  refine ⟨?_, ?_, ?_, fun _ _ => rfl, fun _ _ => rfl, fun _ => rfl, fun _ _ => rfl⟩
  · intro l x f hl hx _
    have hl' : l + 1 < L := by have : l < L - 1 := hl; omega
    obtain ⟨_, h2, h3, h4⟩ := hres l (by omega)
    exact opsGive_smooth_eq H G l (hsm l hl').1 (hsm l hl').2 h2 h3 h4 x f hx
  · intro l f x hl _ _
    have hl' : l < L := by have : l < L - 1 := hl; omega
    obtain ⟨h1, h2, h3, h4⟩ := hres l hl'
    exact opsGive_resid_eq H G l h1 (by omega) h3 h4 f x
  · intro g _
    show (opsGive H G).solve (L - 1) g = (ops H).solve (L - 1) g
    obtain ⟨h1, h2, h3, h4⟩ := hres (L - 1) (by omega)
    exact opsGive_solve_eq H G hG htab (L - 1) h1 h2 h3 h4 g

/-- the extra steps of the implicitly extrapolated cycle: the level-0 smoother of the chosen kind (`fgs = false`: the
    extrapolated smoother, which needs `Admissible`), the residuals of the levels 0 and 1 -/
theorem exOpsAgree (H : Hier K) (G : GiveTables) (fgs : Bool)
    (hsm : 2 ≤ (lvl H 0).nc ∧ (lvl H 0).nc + 3 ≤ (lvl H 0).op.nr)
    (hres0 : ResOK (lvl H 0).op) (hres1 : ResOK (lvl H 1).op)
    (hex : fgs = false → ExSmootherGiveCode.Admissible G.exSmoother (lvl H 0).op (lvl H 0).nc) :
    ExOpsAgree (opsGive H G) (ops H) fgs (PS H) (QS H) := by
  refine ⟨?_, ?_, fun _ _ => rfl⟩
  · intro x f hx _
    cases fgs
    · exact opsGive_exSmooth_eq H G 0 (hex rfl) x f hx
    · exact opsGive_smooth_eq H G 0 hsm.1 hsm.2 hres0.2.1 hres0.2.2.1 hres0.2.2.2 x f hx
  · intro f f1 x _ _
    show (ops H).lin43 ((ops H).exRestrict 0 ((opsGive H G).resid 0 f x))
        ((opsGive H G).resid 1 f1 ((ops H).inject 0 x)) =
      (ops H).lin43 ((ops H).exRestrict 0 ((ops H).resid 0 f x)) ((ops H).resid 1 f1 ((ops H).inject 0 x))
    rw [opsGive_resid_eq H G 0 hres0.1 (by have := hres0.2.1; omega) hres0.2.2.1 hres0.2.2.2,
      opsGive_resid_eq H G 1 hres1.1 (by have := hres1.2.1; omega) hres1.2.2.1 hres1.2.2.2]

end AnyField
end Concrete
