import GMGProofs.Props.C19
import Mathlib.Tactic.LinearCombination
/-!
# The PDE operator `Sym.Lu` on the circular geometry, in closed form (C19 source terms)

For the circular mapping `x = (r/R) cos θ`, `y = (r/R) sin θ` and ANY `u, α, β`:
`Lu = -R² [ α u_rr + α_r u_r + α u_r / r + (α u_θθ + α_θ u_θ) / r² ] + β u`  (`r ≠ 0`, `R ≠ 0`),
all derivatives being the symbolic ones (`Sym.Expr.D`).
-/
namespace Sym
open Expr InputFns

variable {env : Nat → ℝ} {r th : ℝ}

/-! ### `ρ = r / Rmax`: every shipped formula is written in `ρ`; `∂ρ/∂r = 1 / Rmax` (also for `Rmax = 0`), `∂ρ/∂θ = 0` -/
@[sym_ev high] theorem ev_D_r_rho : ev env r th (D .r (.div (.v .r) (.par 0))) = 1 / env 0 := by
  simp only [sym_ev, sym_clean]
  by_cases h : env 0 = 0
  · simp [h]
  · field_simp

@[sym_ev high] theorem ev_D_th_rho : ev env r th (D .th (.div (.v .r) (.par 0))) = 0 := by
  simp only [sym_ev, sym_clean]

/-! ### `ev` of the symbolic derivative of a smart-constructor application (needed for second derivatives:
`D x (D x (mul a b))` is `D x (mkAdd …)`) -/
section evDmk
variable (x : Var) (a b : Expr)

theorem D_of_isZero {a : Expr} (h : a.isZero = true) : D x a = zero := by
  unfold Expr.isZero at h
  split at h
  · rfl
  · cases h

theorem ev_D_of_isZero {a : Expr} (h : a.isZero = true) : ev env r th (D x a) = 0 := by
  rw [D_of_isZero x h]; simp

theorem ev_D_of_isOne {a : Expr} (h : a.isOne = true) : ev env r th (D x a) = 0 := by
  unfold Expr.isOne at h
  split at h
  · simp
  · cases h

@[sym_ev] theorem ev_D_mkAdd : ev env r th (D x (mkAdd a b)) = ev env r th (D x a) + ev env r th (D x b) := by
  unfold mkAdd
  split
  · rename_i h; simp [ev_D_of_isZero x h]
  split
  · rename_i h; simp [ev_D_of_isZero x h]
  · simp

@[sym_ev] theorem ev_D_mkSub : ev env r th (D x (mkSub a b)) = ev env r th (D x a) - ev env r th (D x b) := by
  unfold mkSub
  split
  · rename_i h; simp [ev_D_of_isZero x h]
  split
  · rename_i h; simp [ev_D_of_isZero x h]
  · simp

@[sym_ev] theorem ev_D_mkMul : ev env r th (D x (mkMul a b)) =
    ev env r th (D x a) * ev env r th b + ev env r th a * ev env r th (D x b) := by
  unfold mkMul
  split
  · rename_i h
    rcases Bool.or_eq_true _ _ |>.mp h with h | h <;> simp [ev_of_isZero h, ev_D_of_isZero x h, Expr.zero]
  split
  · rename_i h; simp [ev_of_isOne h, ev_D_of_isOne x h]
  split
  · rename_i h; simp [ev_of_isOne h, ev_D_of_isOne x h]
  · simp

@[sym_ev] theorem ev_D_mkDiv : ev env r th (D x (mkDiv a b)) =
    (ev env r th (D x a) * ev env r th b - ev env r th a * ev env r th (D x b))
      / (ev env r th b * ev env r th b) := by
  unfold mkDiv
  split
  · rename_i h; simp [ev_of_isZero h, ev_D_of_isZero x h, Expr.zero]
  · simp

@[sym_ev] theorem ev_D_mkNeg : ev env r th (D x (mkNeg a)) = -ev env r th (D x a) := by
  unfold mkNeg
  split
  · rename_i h; simp [ev_D_of_isZero x h, Expr.zero]
  · simp

@[sym_ev] theorem ev_D_zero : ev env r th (D x zero) = 0 := by simp [Expr.zero]
@[sym_ev] theorem ev_D_one : ev env r th (D x one) = 0 := by simp [Expr.one]
@[sym_ev] theorem ev_D_two : ev env r th (D x two) = 0 := by simp [Expr.two]

end evDmk

theorem div_mul_self_eq (x : ℝ) : x / (x * x) = 1 / x := by
  by_cases h : x = 0
  · simp [h]
  · field_simp

/-- unfold the inner symbolic derivatives to smart-constructor trees, then evaluate -/
macro "sym_eval" : tactic =>
  `(tactic| (simp only [D, reduceCtorEq, ↓reduceIte]; simp only [sym_ev, sym_clean, div_mul_self_eq, Int.cast_natCast, Nat.cast_add, Nat.cast_one]))

section circ
variable (u a b : Expr)

theorem circ_Jrr : ev env r th (D .r Gen.CircularGeometry_Fx) = Real.cos th / env 0 := by
  simp only [Gen.CircularGeometry_Fx, sym_ev, sym_clean]; ring
theorem circ_Jtr : ev env r th (D .r Gen.CircularGeometry_Fy) = Real.sin th / env 0 := by
  simp only [Gen.CircularGeometry_Fy, sym_ev, sym_clean]; ring
theorem circ_Jrt : ev env r th (D .th Gen.CircularGeometry_Fx) = -(r / env 0 * Real.sin th) := by
  simp only [Gen.CircularGeometry_Fx, sym_ev, sym_clean]; ring
theorem circ_Jtt : ev env r th (D .th Gen.CircularGeometry_Fy) = r / env 0 * Real.cos th := by
  simp only [Gen.CircularGeometry_Fy, sym_ev, sym_clean]


theorem circ_Jrr_r : ev env r th (D .r (D .r Gen.CircularGeometry_Fx)) = 0 := by
  simp only [Gen.CircularGeometry_Fx]; sym_eval
theorem circ_Jtr_r : ev env r th (D .r (D .r Gen.CircularGeometry_Fy)) = 0 := by
  simp only [Gen.CircularGeometry_Fy]; sym_eval
theorem circ_Jrr_t : ev env r th (D .th (D .r Gen.CircularGeometry_Fx)) = -(Real.sin th / env 0) := by
  simp only [Gen.CircularGeometry_Fx]; sym_eval; ring
theorem circ_Jtr_t : ev env r th (D .th (D .r Gen.CircularGeometry_Fy)) = Real.cos th / env 0 := by
  simp only [Gen.CircularGeometry_Fy]; sym_eval; ring
theorem circ_Jrt_r : ev env r th (D .r (D .th Gen.CircularGeometry_Fx)) = -(Real.sin th / env 0) := by
  simp only [Gen.CircularGeometry_Fx]; sym_eval; ring
theorem circ_Jtt_r : ev env r th (D .r (D .th Gen.CircularGeometry_Fy)) = Real.cos th / env 0 := by
  simp only [Gen.CircularGeometry_Fy]; sym_eval; ring
theorem circ_Jrt_t : ev env r th (D .th (D .th Gen.CircularGeometry_Fx)) = -(r / env 0 * Real.cos th) := by
  simp only [Gen.CircularGeometry_Fx]; sym_eval; ring
theorem circ_Jtt_t : ev env r th (D .th (D .th Gen.CircularGeometry_Fy)) = -(r / env 0 * Real.sin th) := by
  simp only [Gen.CircularGeometry_Fy]; sym_eval; ring

/-- determinant and metric numerators of the circular mapping, as terms (exactly the sub-terms of `Sym.flux`) -/
def cDet : Expr := sub (mul (D .r Gen.CircularGeometry_Fx) (D .th Gen.CircularGeometry_Fy))
  (mul (D .th Gen.CircularGeometry_Fx) (D .r Gen.CircularGeometry_Fy))
def cA : Expr := add (mul (D .th Gen.CircularGeometry_Fx) (D .th Gen.CircularGeometry_Fx))
  (mul (D .th Gen.CircularGeometry_Fy) (D .th Gen.CircularGeometry_Fy))
def cB : Expr := neg (add (mul (D .r Gen.CircularGeometry_Fx) (D .th Gen.CircularGeometry_Fx))
  (mul (D .r Gen.CircularGeometry_Fy) (D .th Gen.CircularGeometry_Fy)))
def cC : Expr := add (mul (D .r Gen.CircularGeometry_Fx) (D .r Gen.CircularGeometry_Fx))
  (mul (D .r Gen.CircularGeometry_Fy) (D .r Gen.CircularGeometry_Fy))

macro "circ_simp" : tactic =>
  `(tactic| simp only [cDet, cA, cB, cC, sym_ev, circ_Jrr, circ_Jtr, circ_Jrt, circ_Jtt, circ_Jrr_r, circ_Jtr_r, circ_Jrr_t,
      circ_Jtr_t, circ_Jrt_r, circ_Jtt_r, circ_Jrt_t, circ_Jtt_t, sym_clean])

theorem ev_cDet (hR : env 0 ≠ 0) : ev env r th cDet = r / env 0 ^ 2 := by
  circ_simp; field_simp; linear_combination r * Real.cos_sq_add_sin_sq th
theorem ev_cDet_r (hR : env 0 ≠ 0) : ev env r th (D .r cDet) = 1 / env 0 ^ 2 := by
  circ_simp; field_simp; linear_combination Real.cos_sq_add_sin_sq th
theorem ev_cDet_t (hR : env 0 ≠ 0) : ev env r th (D .th cDet) = 0 := by
  circ_simp; field_simp; ring
theorem ev_cA (hR : env 0 ≠ 0) : ev env r th cA = r ^ 2 / env 0 ^ 2 := by
  circ_simp; field_simp; linear_combination r ^ 2 * Real.sin_sq_add_cos_sq th
theorem ev_cA_r (hR : env 0 ≠ 0) : ev env r th (D .r cA) = 2 * r / env 0 ^ 2 := by
  circ_simp; field_simp; linear_combination 2 * r * Real.sin_sq_add_cos_sq th
theorem ev_cB (hR : env 0 ≠ 0) : ev env r th cB = 0 := by
  circ_simp; field_simp; ring
theorem ev_cB_r (hR : env 0 ≠ 0) : ev env r th (D .r cB) = 0 := by
  circ_simp; field_simp; ring
theorem ev_cB_t (hR : env 0 ≠ 0) : ev env r th (D .th cB) = 0 := by
  circ_simp; field_simp; ring
theorem ev_cC (hR : env 0 ≠ 0) : ev env r th cC = 1 / env 0 ^ 2 := by
  circ_simp; field_simp; linear_combination Real.cos_sq_add_sin_sq th
theorem ev_cC_t (hR : env 0 ≠ 0) : ev env r th (D .th cC) = 0 := by
  circ_simp; field_simp; ring

/-- **the PDE operator on the circular geometry, closed form**, for any `u, α, β`:
`Lu = -R² [ α u_rr + α_r u_r + α u_r / r + (α u_θθ + α_θ u_θ) / r² ] + β u` -/
theorem Lu_circ_formula (hR : env 0 ≠ 0) (hr : r ≠ 0) :
    ev env r th (Lu ⟨u, a, b, Gen.CircularGeometry_Fx, Gen.CircularGeometry_Fy⟩) =
      -(env 0 ^ 2 * (ev env r th a * ev env r th (D .r (D .r u)) + ev env r th (D .r a) * ev env r th (D .r u)
          + ev env r th a * ev env r th (D .r u) / r
          + (ev env r th a * ev env r th (D .th (D .th u)) + ev env r th (D .th a) * ev env r th (D .th u)) / r ^ 2))
        + ev env r th b * ev env r th u := by
  have h1 : (flux ⟨u, a, b, Gen.CircularGeometry_Fx, Gen.CircularGeometry_Fy⟩).1 =
      mul (mul a cDet) (add (mul (div cA (mul cDet cDet)) (D .r u)) (mul (div cB (mul cDet cDet)) (D .th u))) := rfl
  have h2 : (flux ⟨u, a, b, Gen.CircularGeometry_Fx, Gen.CircularGeometry_Fy⟩).2 =
      mul (mul a cDet) (add (mul (div cB (mul cDet cDet)) (D .r u)) (mul (div cC (mul cDet cDet)) (D .th u))) := rfl
  rw [ev_Lu, C19.detJ_Circular, h1, h2]
  simp only [sym_ev, ev_cDet hR, ev_cDet_r hR, ev_cDet_t hR, ev_cA hR, ev_cA_r hR, ev_cB hR, ev_cB_r hR, ev_cB_t hR,
    ev_cC hR, ev_cC_t hR, sym_clean]
  field_simp
  ring

end circ
end Sym
