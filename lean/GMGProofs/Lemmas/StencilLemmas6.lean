import GMGProofs.Lemmas.StencilLemmas5
import Mathlib.Algebra.Order.BigOperators.Ring.Finset
import Mathlib.Algebra.Order.Field.Basic
import Mathlib.Tactic.FieldSimp
import Mathlib.Tactic.Linarith
import Mathlib.Tactic.Positivity
/-!
# Stencil lemmas 6 — symmetry, energy decomposition, positive semi-definiteness (Dirichlet)
-/
set_option linter.unusedSectionVars false
namespace Stencil
open Finset

section symm
variable {K : Type} [_root_.Field K]

theorem inner_comm (o : Op K) (u v : Field K) : inner o u v = inner o v u := by
  unfold inner
  apply Finset.sum_congr rfl; intro i _
  apply Finset.sum_congr rfl; intro j _
  ring

/-- `⟨A x, y⟩ = Σ_s Bform_s(x, y)` on `V0` -/
theorem inner_A_eq_sum_Bform (o : Op K) (hnr : 4 ≤ o.nr) (hnt : 2 ≤ o.nt) (heven : o.nt % 2 = 0)
    (hk : o.bc = false → ∀ j, j < o.nt → o.k (ja o j) = o.k j) (x y : Field K)
    (hx : V0 o x) (hy : V0 o y) :
    inner o (A o x) y = ∑ i ∈ range o.nr, ∑ j ∈ range o.nt, Bform o x y i j := by
  rw [inner_A_eq_sum_Bn o hnr hnt heven hk]
  apply Finset.sum_congr rfl; intro i hi
  apply Finset.sum_congr rfl; intro j _
  exact Bn_eq_Bform o x y hnr hx hy i j (by simpa using hi)

theorem A_symm (o : Op K) (hnr : 4 ≤ o.nr) (hnt : 2 ≤ o.nt) (heven : o.nt % 2 = 0)
    (hk : o.bc = false → ∀ j, j < o.nt → o.k (ja o j) = o.k j) (x y : Field K)
    (hx : V0 o x) (hy : V0 o y) :
    inner o (A o x) y = inner o x (A o y) := by
  rw [inner_comm o x (A o y), inner_A_eq_sum_Bform o hnr hnt heven hk x y hx hy,
    inner_A_eq_sum_Bform o hnr hnt heven hk y x hy hx]
  apply Finset.sum_congr rfl; intro i _
  apply Finset.sum_congr rfl; intro j _
  exact Bform_symm o x y i j

end symm

section psd
variable {K : Type} [_root_.Field K] [LinearOrder K] [IsStrictOrderedRing K]

theorem half_eq : (half : K) = 1 / 2 := by simp [half]
theorem quarter_eq : (quarter : K) = 1 / 4 := by simp [quarter]

/-- probe E4: a binary quadratic form with non-positive discriminant and positive leading coefficient -/
theorem form_nonneg (a b c X Y : K) (ha : 0 < a) (hd : b^2 ≤ 4*a*c) :
    0 ≤ a*X^2 + b*X*Y + c*Y^2 := by
  have h : a*X^2 + b*X*Y + c*Y^2 = ((2*a*X + b*Y)^2 + (4*a*c - b^2)*Y^2) / (4*a) := by
    field_simp; ring
  rw [h]
  apply div_nonneg
  · have : 0 ≤ (4*a*c - b^2) := by linarith
    positivity
  · positivity

/-- probe E4: the nodal quadratic form of the 9-point stencil on a non-uniform grid is a sum of four
    quadrant forms -/
theorem node_energy_split (arr att art h1 h2 k1 k2 dl dr db dt : K)
    (p1 : 0 < h1) (p2 : 0 < h2) (q1 : 0 < k1) (q2 : 0 < k2) :
    arr*(((k1+k2)/2)/h1*dl^2 + ((k1+k2)/2)/h2*dr^2) + att*(((h1+h2)/2)/k1*db^2 + ((h1+h2)/2)/k2*dt^2)
      + (1/2)*art*(dr - dl)*(dt - db)
    = (1/2) * ( (arr*(k2*dr)^2 + art*(k2*dr)*(h2*dt) + att*(h2*dt)^2)/(h2*k2)
              + (arr*(k1*dr)^2 + art*(k1*dr)*(-(h2*db)) + att*(h2*db)^2)/(h2*k1)
              + (arr*(k2*dl)^2 + art*(-(k2*dl))*(h1*dt) + att*(h1*dt)^2)/(h1*k2)
              + (arr*(k1*dl)^2 + art*(k1*dl)*(h1*db) + att*(h1*db)^2)/(h1*k1) ) := by
  field_simp
  ring

/-- the nodal energy (without the mass term) is non-negative -/
theorem node_energy_nonneg (arr att art h1 h2 k1 k2 dl dr db dt : K)
    (p1 : 0 < h1) (p2 : 0 < h2) (q1 : 0 < k1) (q2 : 0 < k2) (ha : 0 < arr) (hd : art^2 ≤ 4*arr*att) :
    0 ≤ arr*(((k1+k2)/2)/h1*dl^2 + ((k1+k2)/2)/h2*dr^2) + att*(((h1+h2)/2)/k1*db^2 + ((h1+h2)/2)/k2*dt^2)
      + (1/2)*art*(dr - dl)*(dt - db) := by
  rw [node_energy_split arr att art h1 h2 k1 k2 dl dr db dt p1 p2 q1 q2]
  have f1 := form_nonneg arr art att (k2*dr) (h2*dt) ha hd
  have f2 : 0 ≤ arr*(k1*dr)^2 + art*(k1*dr)*(-(h2*db)) + att*(h2*db)^2 := by
    have := form_nonneg arr art att (k1*dr) (-(h2*db)) ha hd; linarith
  have f3 : 0 ≤ arr*(k2*dl)^2 + art*(-(k2*dl))*(h1*dt) + att*(h1*dt)^2 := by
    have := form_nonneg arr art att (-(k2*dl)) (h1*dt) ha hd; linarith
  have f4 := form_nonneg arr art att (k1*dl) (h1*db) ha hd
  have g1 := div_nonneg f1 (mul_pos p2 q2).le
  have g2 := div_nonneg f2 (mul_pos p2 q1).le
  have g3 := div_nonneg f3 (mul_pos p1 q2).le
  have g4 := div_nonneg f4 (mul_pos p1 q1).le
  linarith

/-- positivity data of a level operator -/
structure Elliptic (o : Op K) : Prop where
  h_pos : ∀ i, i + 1 < o.nr → 0 < o.h i
  k_pos : ∀ j, j < o.nt → 0 < o.k j
  arr_pos : ∀ i j, i < o.nr → j < o.nt → 0 < o.arr i j
  att_pos : ∀ i j, i < o.nr → j < o.nt → 0 < o.att i j
  art_le : ∀ i j, i < o.nr → j < o.nt → o.art i j ^ 2 ≤ 4 * o.arr i j * o.att i j
  beta_nonneg : ∀ i, i < o.nr → 0 ≤ o.beta i
  det_nonneg : ∀ i j, i < o.nr → j < o.nt → 0 ≤ o.det i j

variable (o : Op K) (x : Field K)

theorem Bfull_eq_energy (i j : Nat) (h1 xL : K) (p1 : 0 < h1) (p2 : 0 < o.h i)
    (q1 : 0 < o.k (jm o j)) (q2 : 0 < o.k j) :
    Bfull o x x i j h1 xL xL =
      (1/4) * (h1 + o.h i) * (o.k (jm o j) + o.k j) * o.beta i * o.det i j * (x i j * x i j)
      + (o.arr i j * (((o.k (jm o j) + o.k j)/2)/h1*(xL - x i j)^2
            + ((o.k (jm o j) + o.k j)/2)/o.h i*(x (i+1) j - x i j)^2)
        + o.att i j * (((h1 + o.h i)/2)/o.k (jm o j)*(x i (jm o j) - x i j)^2
            + ((h1 + o.h i)/2)/o.k j*(x i (jp o j) - x i j)^2)
        + (1/2)*o.art i j*((x (i+1) j - x i j) - (xL - x i j))*((x i (jp o j) - x i j) - (x i (jm o j) - x i j))) := by
  unfold Bfull
  rw [half_eq, quarter_eq]
  field_simp
  ring

theorem Bfull_nonneg (i j : Nat) (h1 xL : K) (p1 : 0 < h1) (p2 : 0 < o.h i)
    (q1 : 0 < o.k (jm o j)) (q2 : 0 < o.k j) (ha : 0 < o.arr i j)
    (hd : o.art i j ^ 2 ≤ 4 * o.arr i j * o.att i j) (hb : 0 ≤ o.beta i) (hdet : 0 ≤ o.det i j) :
    0 ≤ Bfull o x x i j h1 xL xL := by
  rw [Bfull_eq_energy o x i j h1 xL p1 p2 q1 q2]
  apply add_nonneg
  · have := mul_self_nonneg (x i j)
    positivity
  · exact node_energy_nonneg _ _ _ _ _ _ _ _ _ _ _ p1 p2 q1 q2 ha hd

/-- every nodal energy is non-negative (Dirichlet inner boundary) -/
theorem Bform_nonneg (hnr : 4 ≤ o.nr) (hnt : 0 < o.nt) (hbc : o.bc = true) (he : Elliptic o)
    (i j : Nat) (hi : i < o.nr) (hj : j < o.nt) :
    0 ≤ Bform o x x i j := by
  have q1 := he.k_pos _ (jm_lt o hnt j)
  have q2 := he.k_pos j hj
  have ha := he.arr_pos i j hi hj
  unfold Bform
  split
  · rename_i h0; subst h0
    rw [half_eq]
    have p := he.h_pos 0 (by omega)
    have := mul_self_nonneg (x 1 j)
    positivity
  · split
    · rw [half_eq]
      have p := he.h_pos (i - 1) (by omega)
      have := mul_self_nonneg (x (i - 1) j)
      positivity
    · exact Bfull_nonneg o x i j _ _ (he.h_pos (i - 1) (by omega)) (he.h_pos i (by omega)) q1 q2 ha
        (he.art_le i j hi hj) (he.beta_nonneg i hi) (he.det_nonneg i j hi hj)

/-- **positive semi-definiteness**, Dirichlet inner boundary -/
theorem A_psd_dirichlet (hnr : 4 ≤ o.nr) (hnt : 2 ≤ o.nt) (heven : o.nt % 2 = 0) (hbc : o.bc = true)
    (he : Elliptic o) (hx : V0 o x) :
    0 ≤ inner o (A o x) x := by
  rw [inner_A_eq_sum_Bform o hnr hnt heven (fun h => by rw [hbc] at h; cases h) x x hx hx]
  apply Finset.sum_nonneg; intro i hi
  apply Finset.sum_nonneg; intro j hj
  exact Bform_nonneg o x hnr (by omega) hbc he i j (by simpa using hi) (by simpa using hj)

/-- if every nodal energy vanishes, the field vanishes row by row, from the outer boundary inwards -/
theorem rows_vanish (hnr : 4 ≤ o.nr) (hnt : 0 < o.nt) (he : Elliptic o) (hx : V0 o x)
    (hB : ∀ i j, i < o.nr → j < o.nt → Bform o x x i j = 0) :
    ∀ m, m < o.nr → ∀ j, j < o.nt → x (o.nr - 1 - m) j = 0 := by
  intro m
  induction m using Nat.strong_induction_on with
  | _ m ih =>
    intro hm j hj
    have q1 := he.k_pos _ (jm_lt o hnt j)
    have q2 := he.k_pos j hj
    rcases (by omega : m = 0 ∨ m = 1 ∨ 2 ≤ m) with rfl | rfl | h2
    · exact hx.1 j
    · have hb := hB (o.nr - 1) j (by omega) hj
      unfold Bform at hb
      rw [if_neg (by omega), if_pos (by omega)] at hb
      have c : 0 < half * (o.k (jm o j) + o.k j) / o.h (o.nr - 1 - 1) * o.arr (o.nr - 1) j := by
        rw [half_eq]
        have p := he.h_pos (o.nr - 1 - 1) (by omega)
        have a := he.arr_pos (o.nr - 1) j (by omega) hj
        positivity
      exact mul_self_eq_zero.mp ((mul_eq_zero.mp hb).resolve_left c.ne')
    · obtain ⟨i, hi⟩ : ∃ i, i = o.nr - m := ⟨_, rfl⟩
      have r0 : ∀ j', j' < o.nt → x i j' = 0 := fun j' hj' => by
        have := ih (m - 1) (by omega) (by omega) j' hj'
        rwa [show o.nr - 1 - (m - 1) = i by omega] at this
      have r1 : ∀ j', j' < o.nt → x (i + 1) j' = 0 := fun j' hj' => by
        have := ih (m - 2) (by omega) (by omega) j' hj'
        rwa [show o.nr - 1 - (m - 2) = i + 1 by omega] at this
      have hb := hB i j (by omega) hj
      unfold Bform at hb
      rw [if_neg (by omega), if_neg (by omega)] at hb
      have key : Bfull o x x i j (o.h (i - 1)) (x (i - 1) j) (x (i - 1) j)
          = half * (o.k (jm o j) + o.k j) / o.h (i - 1) * o.arr i j * (x (i - 1) j * x (i - 1) j) := by
        simp only [Bfull, r0 j hj, r1 j hj, r0 _ (jm_lt o hnt j), r0 _ (jp_lt o hnt j)]
        ring
      rw [key] at hb
      have c : 0 < half * (o.k (jm o j) + o.k j) / o.h (i - 1) * o.arr i j := by
        rw [half_eq]
        have p := he.h_pos (i - 1) (by omega)
        have a := he.arr_pos i j (by omega) hj
        positivity
      rw [show o.nr - 1 - m = i - 1 by omega]
      exact mul_self_eq_zero.mp ((mul_eq_zero.mp hb).resolve_left c.ne')

/-- **positive definiteness**, Dirichlet inner boundary: `⟨A x, x⟩ > 0` unless `x` vanishes on the grid -/
theorem A_pd_dirichlet (hnr : 4 ≤ o.nr) (hnt : 2 ≤ o.nt) (heven : o.nt % 2 = 0) (hbc : o.bc = true)
    (he : Elliptic o) (hx : V0 o x) (hne : ∃ i j, i < o.nr ∧ j < o.nt ∧ x i j ≠ 0) :
    0 < inner o (A o x) x := by
  by_contra hcon
  have h0 : inner o (A o x) x = 0 :=
    le_antisymm (not_lt.mp hcon) (A_psd_dirichlet o x hnr hnt heven hbc he hx)
  rw [inner_A_eq_sum_Bform o hnr hnt heven (fun h => by rw [hbc] at h; cases h) x x hx hx] at h0
  have nn : ∀ i ∈ range o.nr, ∀ j ∈ range o.nt, 0 ≤ Bform o x x i j := fun i hi j hj =>
    Bform_nonneg o x hnr (by omega) hbc he i j (by simpa using hi) (by simpa using hj)
  have hB : ∀ i j, i < o.nr → j < o.nt → Bform o x x i j = 0 := by
    intro i j hi hj
    have h1 := (Finset.sum_eq_zero_iff_of_nonneg
      (fun i hi => Finset.sum_nonneg (nn i hi))).mp h0 i (by simpa using hi)
    exact (Finset.sum_eq_zero_iff_of_nonneg (nn i (by simpa using hi))).mp h1 j (by simpa using hj)
  obtain ⟨i, j, hi, hj, hxij⟩ := hne
  apply hxij
  have := rows_vanish o x hnr (by omega) he hx hB (o.nr - 1 - i) (by omega) j hj
  rwa [show o.nr - 1 - (o.nr - 1 - i) = i by omega] at this

end psd
end Stencil
