import GMGProofs.Lemmas.SchedBasic
/-!
# Race freedom of the two "take" smoothers (right-hand side and solve fused per line) (C11)

One theorem per pair of loops of one barrier interval (a loop with itself: two different iterations), each proved from the
*generated* loop terms (`Sched.Gen.*`) by `race_pair`; then the region theorem.
-/
set_option linter.unusedSimpArgs false
set_option linter.unusedVariables false
namespace Sched.Lem
open Sched

theorem smootherTake_0_0 (s : Shape) (h : Admissible s) :
    LoopsRaceFree s (Gen.smootherTake.loops.getD 0 default) (Gen.smootherTake.loops.getD 0 default) (0 == 0) := by
  race_pair h [Gen.smootherTake]

theorem smootherTake_1_1 (s : Shape) (h : Admissible s) :
    LoopsRaceFree s (Gen.smootherTake.loops.getD 1 default) (Gen.smootherTake.loops.getD 1 default) (1 == 1) := by
  race_pair h [Gen.smootherTake]

theorem smootherTake_1_2 (s : Shape) (h : Admissible s) :
    LoopsRaceFree s (Gen.smootherTake.loops.getD 1 default) (Gen.smootherTake.loops.getD 2 default) (1 == 2) := by
  race_pair h [Gen.smootherTake]

theorem smootherTake_2_2 (s : Shape) (h : Admissible s) :
    LoopsRaceFree s (Gen.smootherTake.loops.getD 2 default) (Gen.smootherTake.loops.getD 2 default) (2 == 2) := by
  race_pair h [Gen.smootherTake]

theorem smootherTake_3_3 (s : Shape) (h : Admissible s) :
    LoopsRaceFree s (Gen.smootherTake.loops.getD 3 default) (Gen.smootherTake.loops.getD 3 default) (3 == 3) := by
  race_pair h [Gen.smootherTake]

/-- barrier intervals of the generated region -/
theorem smootherTake_intervals : intervals Gen.smootherTake.loops = [[0], [1, 2], [3]] := by decide

theorem smootherTake_raceFree (s : Shape) (h : Admissible s) : RegionRaceFree s Gen.smootherTake := by
  apply regionRaceFree_of_intervals _ smootherTake_intervals
  simp only [List.forall_mem_cons, List.not_mem_nil, false_imp_iff, implies_true, and_true, true_and, and_assoc, Nat.le_refl, forall_const,
    Nat.reduceLeDiff]
  exact ⟨smootherTake_0_0 s h, smootherTake_1_1 s h, smootherTake_1_2 s h, smootherTake_2_2 s h, smootherTake_3_3 s h⟩

theorem exSmootherTake_0_0 (s : Shape) (h : Admissible s) :
    LoopsRaceFree s (Gen.exSmootherTake.loops.getD 0 default) (Gen.exSmootherTake.loops.getD 0 default) (0 == 0) := by
  race_pair h [Gen.exSmootherTake]

theorem exSmootherTake_1_1 (s : Shape) (h : Admissible s) :
    LoopsRaceFree s (Gen.exSmootherTake.loops.getD 1 default) (Gen.exSmootherTake.loops.getD 1 default) (1 == 1) := by
  race_pair h [Gen.exSmootherTake]

theorem exSmootherTake_1_2 (s : Shape) (h : Admissible s) :
    LoopsRaceFree s (Gen.exSmootherTake.loops.getD 1 default) (Gen.exSmootherTake.loops.getD 2 default) (1 == 2) := by
  race_pair h [Gen.exSmootherTake]

theorem exSmootherTake_2_2 (s : Shape) (h : Admissible s) :
    LoopsRaceFree s (Gen.exSmootherTake.loops.getD 2 default) (Gen.exSmootherTake.loops.getD 2 default) (2 == 2) := by
  race_pair h [Gen.exSmootherTake]

theorem exSmootherTake_3_3 (s : Shape) (h : Admissible s) :
    LoopsRaceFree s (Gen.exSmootherTake.loops.getD 3 default) (Gen.exSmootherTake.loops.getD 3 default) (3 == 3) := by
  race_pair h [Gen.exSmootherTake]

/-- barrier intervals of the generated region -/
theorem exSmootherTake_intervals : intervals Gen.exSmootherTake.loops = [[0], [1, 2], [3]] := by decide

theorem exSmootherTake_raceFree (s : Shape) (h : Admissible s) : RegionRaceFree s Gen.exSmootherTake := by
  apply regionRaceFree_of_intervals _ exSmootherTake_intervals
  simp only [List.forall_mem_cons, List.not_mem_nil, false_imp_iff, implies_true, and_true, true_and, and_assoc, Nat.le_refl, forall_const,
    Nat.reduceLeDiff]
  exact ⟨exSmootherTake_0_0 s h, exSmootherTake_1_1 s h, exSmootherTake_1_2 s h, exSmootherTake_2_2 s h, exSmootherTake_3_3 s h⟩

end Sched.Lem
