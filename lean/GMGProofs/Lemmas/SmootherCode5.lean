import GMGProofs.Lemmas.TridiagSDD
import GMGProofs.Lemmas.TridiagCyclicSPD
/-!
# Helper lemmas for C06c, part 5: strict diagonal dominance of concrete line matrices is decidable
-/
namespace Tridiag
variable {K : Type} [Field K] [LinearOrder K] [IsStrictOrderedRing K]

def sddFromDec : (p : K) → (a b : List K) → Decidable (sddFrom p a b)
  | _, [], _ => isFalse (by simp [sddFrom])
  | p, [a], [] => decidable_of_iff (p < a) (by simp [sddFrom])
  | _, _ :: _ :: _, [] => isFalse (by simp [sddFrom])
  | p, a :: as, b :: bs =>
      have := sddFromDec |b| as bs
      decidable_of_iff (p + |b| < a ∧ sddFrom |b| as bs) (by simp [sddFrom])

instance (p : K) (a b : List K) : Decidable (sddFrom p a b) := sddFromDec p a b
instance (a b : List K) : Decidable (SDD a b) := by unfold SDD; infer_instance
instance (a b : List K) (c : K) : Decidable (SDDc a b c) := by unfold SDDc; infer_instance

end Tridiag
