import GMGProofs.Lemmas.Concrete2
import GMGProofs.Lemmas.CycleExact
import GMGProofs.Props.C06d
import GMGProofs.Props.C04c
/-!
# The operator hypotheses of `MGCycle.ExactData` for `Concrete.ops H`
* a code-level sweep started from the exact discrete solution returns the same ARRAY (Dirichlet inner boundary, elliptic data):
  totality (`C06d.code_sweep_total_dirichlet`), the sweep equations (`C06d.code_sweep_isSweep_dirichlet`), the fixed point
  (`C06.fixed_point`), uniqueness (`C06.sweep_unique_dirichlet`), size (`C06c.sweep_size`);
* residual of the exact solution, restricted: the coarse zero array; prolongated zero added: nothing changes;
* coarse direct solve of the zero array: the zero array, when the assembly stays in bounds and `tiny` does not fire on a pivot.
Everything is phrased through `lvl H l`, so that no shape relation between the levels or with the transfer pair is assumed.
-/
namespace Concrete
open Stencil Scalar MGCycle

section AnyField
variable {K : Type} [_root_.Field K]

/-- reading back a row-major array on the grid (same statement as `SmootherGiveCode.fld_ofField`, restated here so that the
    property file does not import the give-variant lemmas) -/
theorem fld_ofField_grid (nr nt : Nat) (g : Stencil.Field K) (i j : Nat) (hi : i < nr) (hj : j < nt) :
    SmootherCode.fld nt (SmootherCode.ofField nr nt g) i j = g i j := by
  have hlt : i * nt + j < nr * nt := SmootherCode.idx_lt hi hj
  unfold SmootherCode.fld SmootherCode.ofField
  simp only [Array.getD_eq_getD_getElem?, Array.getElem?_ofFn, hlt, dite_true, Option.getD_some,
    SmootherCode.idx_div hj, SmootherCode.idx_mod hj]

/-- residual of an exact solution, restricted to the next level, is that level's zero vector (any transfer pair, any shapes) -/
theorem ops_resid_restrict_zero (H : Hier K) (l : Nat) (u f : Array K)
    (hsol : ∀ i j, i < nrOf H l → j < ntOf H l → take (lvl H l).op (fld H l f) (fld H l u) i j = 0) :
    (ops H).restrict l ((ops H).resid l (some f) (some u)) = (ops H).zero (l + 1) := by
  show some (ofFld H (l + 1) (Interp.restrict (pair H l)
      (fld H l (ofFld H l (take (lvl H l).op (fld H l f) (fld H l u)))))) = some (Array.replicate _ (n 0))
  have hsol' : ∀ i j, i < nrOf H l → j < ntOf H l →
      take (lvl H l).op (SmootherCode.fld (ntOf H l) f) (SmootherCode.fld (ntOf H l) u) i j = 0 := hsol
  unfold ofFld fld
  rw [ofField_eq_replicate (nrOf H l) (ntOf H l) _ hsol', fld_replicate_zero, restrict_zero, ofField_zero, Scalar.n_zero]

/-- `x += P 0` -/
theorem ops_add_prolong_zero (H : Hier K) (l : Nat) (u : Array K) :
    (ops H).add (some u) ((ops H).prolong (l + 1) ((ops H).zero (l + 1))) = some u := by
  show some (Array.ofFn (n := u.size) fun p => u[p] +
      (ofFld H (l + 1 - 1) (Interp.prolong (pair H (l + 1 - 1))
        (fld H (l + 1) (Array.replicate (nrOf H (l + 1) * ntOf H (l + 1)) (n 0))))).getD p.val (n 0)) = some u
  unfold ofFld fld
  rw [Scalar.n_zero, fld_replicate_zero, prolong_zero, ofField_zero]
  exact congrArg some (add_zero_array u _)

/-- the coarse direct solver maps the zero right-hand side to the zero vector: the assembly returns a matrix and the `tiny`
    test fires on none of its pivots -/
theorem ops_solve_zero (H : Hier K) (l : Nat) (M : SparseLU.CSR K)
    (hM : DirectCode.assemble H.tables (lvl H l).op = some M)
    (ht : ∀ r, r < M.rows → H.tiny (SparseLU.den ((SparseLU.factorRows M).2.getD r []) r) = false) :
    (ops H).solve l ((ops H).zero l) = (ops H).zero l := by
  show ((DirectCode.solve H.tables (lvl H l).op H.tiny (Array.replicate (nrOf H l * ntOf H l) (n 0)).toList).bind
      fun r => r.map fun xs => xs.toArray) = some (Array.replicate (nrOf H l * ntOf H l) (n 0))
  unfold DirectCode.solve
  rw [hM, Scalar.n_zero, Array.toList_replicate, Option.map_some, solve_zero H.tiny M ht]
  simp

end AnyField

section Ordered
variable {K : Type} [_root_.Field K] [LinearOrder K] [IsStrictOrderedRing K]

/-- the code-level sweep returns the array of an exact discrete solution unchanged -/
theorem sweep_fixed (o : Op K) (nc : Nat) (tiny : K → Bool) (ht : tiny 1 = false)
    (hnr : nc + 3 ≤ o.nr) (hnc : 2 ≤ nc) (hnt : 4 ≤ o.nt) (heven : o.nt % 2 = 0) (hbc : o.bc = true) (he : Elliptic o)
    (f : Stencil.Field K) (u : Array K) (hu : u.size = o.nr * o.nt)
    (hsol : ∀ i j, i < o.nr → j < o.nt → take o f (SmootherCode.fld o.nt u) i j = 0) :
    SmootherCode.sweep o tiny nc f u = some u := by
  obtain ⟨y, hy⟩ := C06d.code_sweep_total_dirichlet o nc tiny ht f u hbc
  have hs := C06d.code_sweep_isSweep_dirichlet o nc tiny f u y hnr hnc hnt heven hbc he hu hy
  have hfix := C06.fixed_point o nc f (SmootherCode.fld o.nt u) hsol
  have heq := C06.sweep_unique_dirichlet o nc (by omega) (by omega) heven hbc he f _ _ _ hs hfix
  have hsz := C06c.sweep_size o nc tiny f u y hy
  rw [hy, array_eq_of_fld o.nr o.nt y u (by rw [hsz, hu]) hu heq]

/-- **`ExactData` for the concrete operators on two levels**: level 0 has a Dirichlet inner boundary and elliptic data, the
    coarse assembly stays in bounds, `tiny` fires neither on 1 nor on a coarse pivot.  Nothing is assumed about the transfer
    pair or about the shape of level 1 relative to level 0 (zero goes to zero through every link of the chain). -/
theorem exactData_twoLevel (H : Hier K) (nu1 nu2 : Nat) (u f : Array K)
    (hnt : 4 ≤ (lvl H 0).op.nt) (heven : (lvl H 0).op.nt % 2 = 0) (hnc : 2 ≤ (lvl H 0).nc)
    (hnr : (lvl H 0).nc + 3 ≤ (lvl H 0).op.nr) (hbc : (lvl H 0).op.bc = true) (he : Elliptic (lvl H 0).op)
    (ht1 : H.tiny 1 = false)
    (M : SparseLU.CSR K) (hM : DirectCode.assemble H.tables (lvl H 1).op = some M)
    (ht : ∀ r, r < M.rows → H.tiny (SparseLU.den ((SparseLU.factorRows M).2.getD r []) r) = false)
    (hu : u.size = (lvl H 0).op.nr * (lvl H 0).op.nt)
    (hsol : ∀ i j, i < (lvl H 0).op.nr → j < (lvl H 0).op.nt →
      take (lvl H 0).op (SmootherCode.fld (lvl H 0).op.nt f) (SmootherCode.fld (lvl H 0).op.nt u) i j = 0) :
    ExactData (ops H) ⟨2, nu1, nu2⟩ 0 (some u) (some f) := by
  refine ⟨?_, ?_, ?_, ⟨?_, ?_, ?_, ?_⟩⟩
  · exact sweep_fixed (lvl H 0).op (lvl H 0).nc H.tiny ht1 hnr hnc hnt heven hbc he _ u hu hsol
  · exact ops_resid_restrict_zero H 0 u f hsol
  · exact ops_add_prolong_zero H 0 u
  · intro l h1 h2
    exact absurd h2 (by simp only [Nat.add_one_sub_one]; omega)
  · intro l h1 h2
    exact absurd h2 (by simp only [Nat.add_one_sub_one]; omega)
  · intro _
    exact ops_solve_zero H 1 M hM ht
  · intro l h1 h2
    exact absurd h2 (by simp only [Nat.add_one_sub_one]; omega)

end Ordered
end Concrete
