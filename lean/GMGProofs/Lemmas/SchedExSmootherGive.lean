import GMGProofs.Lemmas.SchedBasic
/-!
# Race freedom of `ExtrapolatedSmootherGive::extrapolatedSmoothingForLoop`: 16 loops, 12 barrier intervals (C11)

One theorem per pair of loops of one barrier interval (a loop with itself: two different iterations), each proved from the
*generated* loop terms (`Sched.Gen.*`) by `race_pair`; then the region theorem.
-/
set_option linter.unusedSimpArgs false
set_option linter.unusedVariables false
namespace Sched.Lem
open Sched

theorem exSmootherGive_0_0 (s : Shape) (h : SmoothAdmissible s) :
    LoopsRaceFree s (Gen.exSmootherGive.loops.getD 0 default) (Gen.exSmootherGive.loops.getD 0 default) (0 == 0) := by
  have hA5 := h.nt4dvd; have hA := h.toAdmissible
  race_pair hA [Gen.exSmootherGive]

theorem exSmootherGive_1_1 (s : Shape) (h : SmoothAdmissible s) :
    LoopsRaceFree s (Gen.exSmootherGive.loops.getD 1 default) (Gen.exSmootherGive.loops.getD 1 default) (1 == 1) := by
  have hA5 := h.nt4dvd; have hA := h.toAdmissible
  race_pair hA [Gen.exSmootherGive]

theorem exSmootherGive_2_2 (s : Shape) (h : SmoothAdmissible s) :
    LoopsRaceFree s (Gen.exSmootherGive.loops.getD 2 default) (Gen.exSmootherGive.loops.getD 2 default) (2 == 2) := by
  have hA5 := h.nt4dvd; have hA := h.toAdmissible
  race_pair hA [Gen.exSmootherGive]

theorem exSmootherGive_3_3 (s : Shape) (h : SmoothAdmissible s) :
    LoopsRaceFree s (Gen.exSmootherGive.loops.getD 3 default) (Gen.exSmootherGive.loops.getD 3 default) (3 == 3) := by
  have hA5 := h.nt4dvd; have hA := h.toAdmissible
  race_pair hA [Gen.exSmootherGive]

theorem exSmootherGive_4_4 (s : Shape) (h : SmoothAdmissible s) :
    LoopsRaceFree s (Gen.exSmootherGive.loops.getD 4 default) (Gen.exSmootherGive.loops.getD 4 default) (4 == 4) := by
  have hA5 := h.nt4dvd; have hA := h.toAdmissible
  race_pair hA [Gen.exSmootherGive]

theorem exSmootherGive_4_5 (s : Shape) (h : SmoothAdmissible s) :
    LoopsRaceFree s (Gen.exSmootherGive.loops.getD 4 default) (Gen.exSmootherGive.loops.getD 5 default) (4 == 5) := by
  have hA5 := h.nt4dvd; have hA := h.toAdmissible
  race_pair hA [Gen.exSmootherGive]

theorem exSmootherGive_5_5 (s : Shape) (h : SmoothAdmissible s) :
    LoopsRaceFree s (Gen.exSmootherGive.loops.getD 5 default) (Gen.exSmootherGive.loops.getD 5 default) (5 == 5) := by
  have hA5 := h.nt4dvd; have hA := h.toAdmissible
  race_pair hA [Gen.exSmootherGive]

theorem exSmootherGive_6_6 (s : Shape) (h : SmoothAdmissible s) :
    LoopsRaceFree s (Gen.exSmootherGive.loops.getD 6 default) (Gen.exSmootherGive.loops.getD 6 default) (6 == 6) := by
  have hA5 := h.nt4dvd; have hA := h.toAdmissible
  race_pair hA [Gen.exSmootherGive]

theorem exSmootherGive_6_7 (s : Shape) (h : SmoothAdmissible s) :
    LoopsRaceFree s (Gen.exSmootherGive.loops.getD 6 default) (Gen.exSmootherGive.loops.getD 7 default) (6 == 7) := by
  have hA5 := h.nt4dvd; have hA := h.toAdmissible
  race_pair hA [Gen.exSmootherGive]

theorem exSmootherGive_7_7 (s : Shape) (h : SmoothAdmissible s) :
    LoopsRaceFree s (Gen.exSmootherGive.loops.getD 7 default) (Gen.exSmootherGive.loops.getD 7 default) (7 == 7) := by
  have hA5 := h.nt4dvd; have hA := h.toAdmissible
  race_pair hA [Gen.exSmootherGive]

theorem exSmootherGive_8_8 (s : Shape) (h : SmoothAdmissible s) :
    LoopsRaceFree s (Gen.exSmootherGive.loops.getD 8 default) (Gen.exSmootherGive.loops.getD 8 default) (8 == 8) := by
  have hA5 := h.nt4dvd; have hA := h.toAdmissible
  race_pair hA [Gen.exSmootherGive]

theorem exSmootherGive_8_9 (s : Shape) (h : SmoothAdmissible s) :
    LoopsRaceFree s (Gen.exSmootherGive.loops.getD 8 default) (Gen.exSmootherGive.loops.getD 9 default) (8 == 9) := by
  have hA5 := h.nt4dvd; have hA := h.toAdmissible
  race_pair hA [Gen.exSmootherGive]

theorem exSmootherGive_9_9 (s : Shape) (h : SmoothAdmissible s) :
    LoopsRaceFree s (Gen.exSmootherGive.loops.getD 9 default) (Gen.exSmootherGive.loops.getD 9 default) (9 == 9) := by
  have hA5 := h.nt4dvd; have hA := h.toAdmissible
  race_pair hA [Gen.exSmootherGive]

theorem exSmootherGive_10_10 (s : Shape) (h : SmoothAdmissible s) :
    LoopsRaceFree s (Gen.exSmootherGive.loops.getD 10 default) (Gen.exSmootherGive.loops.getD 10 default) (10 == 10) := by
  have hA5 := h.nt4dvd; have hA := h.toAdmissible
  race_pair hA [Gen.exSmootherGive]

theorem exSmootherGive_10_11 (s : Shape) (h : SmoothAdmissible s) :
    LoopsRaceFree s (Gen.exSmootherGive.loops.getD 10 default) (Gen.exSmootherGive.loops.getD 11 default) (10 == 11) := by
  have hA5 := h.nt4dvd; have hA := h.toAdmissible
  race_pair hA [Gen.exSmootherGive]

theorem exSmootherGive_11_11 (s : Shape) (h : SmoothAdmissible s) :
    LoopsRaceFree s (Gen.exSmootherGive.loops.getD 11 default) (Gen.exSmootherGive.loops.getD 11 default) (11 == 11) := by
  have hA5 := h.nt4dvd; have hA := h.toAdmissible
  race_pair hA [Gen.exSmootherGive]

theorem exSmootherGive_12_12 (s : Shape) (h : SmoothAdmissible s) :
    LoopsRaceFree s (Gen.exSmootherGive.loops.getD 12 default) (Gen.exSmootherGive.loops.getD 12 default) (12 == 12) := by
  have hA5 := h.nt4dvd; have hA := h.toAdmissible
  race_pair hA [Gen.exSmootherGive]

theorem exSmootherGive_13_13 (s : Shape) (h : SmoothAdmissible s) :
    LoopsRaceFree s (Gen.exSmootherGive.loops.getD 13 default) (Gen.exSmootherGive.loops.getD 13 default) (13 == 13) := by
  have hA5 := h.nt4dvd; have hA := h.toAdmissible
  race_pair hA [Gen.exSmootherGive]

theorem exSmootherGive_14_14 (s : Shape) (h : SmoothAdmissible s) :
    LoopsRaceFree s (Gen.exSmootherGive.loops.getD 14 default) (Gen.exSmootherGive.loops.getD 14 default) (14 == 14) := by
  have hA5 := h.nt4dvd; have hA := h.toAdmissible
  race_pair hA [Gen.exSmootherGive]

theorem exSmootherGive_15_15 (s : Shape) (h : SmoothAdmissible s) :
    LoopsRaceFree s (Gen.exSmootherGive.loops.getD 15 default) (Gen.exSmootherGive.loops.getD 15 default) (15 == 15) := by
  have hA5 := h.nt4dvd; have hA := h.toAdmissible
  race_pair hA [Gen.exSmootherGive]

/-- barrier intervals of the generated region -/
theorem exSmootherGive_intervals : intervals Gen.exSmootherGive.loops = [[0], [1], [2], [3], [4, 5], [6, 7], [8, 9], [10, 11], [12], [13], [14], [15]] := by decide

theorem exSmootherGive_raceFree (s : Shape) (h : SmoothAdmissible s) : RegionRaceFree s Gen.exSmootherGive := by
  apply regionRaceFree_of_intervals _ exSmootherGive_intervals
  simp only [List.forall_mem_cons, List.not_mem_nil, false_imp_iff, implies_true, and_true, true_and, and_assoc, Nat.le_refl, forall_const,
    Nat.reduceLeDiff]
  exact ⟨exSmootherGive_0_0 s h, exSmootherGive_1_1 s h, exSmootherGive_2_2 s h, exSmootherGive_3_3 s h, exSmootherGive_4_4 s h, exSmootherGive_4_5 s h, exSmootherGive_5_5 s h, exSmootherGive_6_6 s h, exSmootherGive_6_7 s h, exSmootherGive_7_7 s h, exSmootherGive_8_8 s h, exSmootherGive_8_9 s h, exSmootherGive_9_9 s h, exSmootherGive_10_10 s h, exSmootherGive_10_11 s h, exSmootherGive_11_11 s h, exSmootherGive_12_12 s h, exSmootherGive_13_13 s h, exSmootherGive_14_14 s h, exSmootherGive_15_15 s h⟩

end Sched.Lem
