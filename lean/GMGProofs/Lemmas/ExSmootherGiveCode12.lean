import GMGProofs.Lemmas.ExSmootherGiveCode11
/-!
# Code-level extrapolated smoother (give), lemmas 12 — the scatter kernel of the radial section

* `rC`, `rL`, `rR`, `rB`, `rT`: what `NODE_APPLY_ASC_ORTHO_RADIAL_GIVE` at node `(i, j)` subtracts from `temp` at the node itself,
  at its left / right neighbour on the radial line and at its bottom / top neighbour (`0` where the code gives nothing);
* `recv_radialGive`: uniform description of the kernel as seen from a target `(a, b)`;
* `radial_phase_recv`: the received total of one colour phase, one giver per direction.
-/
set_option linter.unusedSectionVars false
set_option linter.unusedVariables false
set_option linter.unusedSimpArgs false
namespace ExSmootherGiveCode
open Stencil SparseLU SmootherCode Finset
variable {K : Type} [_root_.Field K]

section
variable (o : Op K) (nc : Nat) (black : Bool) (f x : Stencil.Field K)

/-- the four neighbours of a fine node of a line through coarse nodes -/
def crossVal (i j : Nat) : K :=
  -(coeff1 o i j) * o.arr i j * x (i - 1) j - coeff2 o i j * o.arr i j * x (i + 1) j
    - coeff3 o i j * o.att i j * x i (jm o j) - coeff4 o i j * o.att i j * x i (jp o j)
/-- "Fill temp(i,j-1)" / "Fill temp(i,j+1)" of the outside parts -/
def bottomVal (i j : Nat) : K :=
  -(coeff3 o i j) * o.att i j * x i j - quarter * o.art i j * x (i + 1) j + quarter * o.art i j * x (i - 1) j
def topVal (i j : Nat) : K :=
  -(coeff4 o i j) * o.att i j * x i j + quarter * o.art i j * x (i + 1) j - quarter * o.art i j * x (i - 1) j

/-- to the node itself -/
def rC (i j : Nat) : K :=
  if ((!decide (j % 2 = 1)) == black) = true then
    if nc < i ∧ i + 2 < o.nr then
      (if j % 2 = 1 then -(coeff3 o i j) * o.att i j * x i (jm o j) - coeff4 o i j * o.att i j * x i (jp o j)
       else if i % 2 = 1 then crossVal o x i j else 0)
    else if i + 1 = nc then 0
    else if i = nc then
      (if j % 2 = 1 then
        -(coeff1 o i j) * o.arr i j * x (i - 1) j - coeff3 o i j * o.att i j * x i (jm o j)
          - coeff4 o i j * o.att i j * x i (jp o j)
       else if i % 2 = 1 then crossVal o x i j else 0)
    else if i + 2 = o.nr then
      (if j % 2 = 1 then
        (-(coeff3 o i j) * o.att i j * x i (jm o j) - coeff4 o i j * o.att i j * x i (jp o j))
          + (-(coeff2 o i j) * o.arr i j * f (i + 1) j)
       else crossVal o x i j)
    else 0
  else 0

/-- to `(i-1, j)` -/
def rL (i j : Nat) : K :=
  if ((!decide (j % 2 = 1)) == black) = true then
    if nc < i ∧ i + 2 < o.nr then
      (if j % 2 = 1 then -quarter * o.art i j * x i (jp o j) + quarter * o.art i j * x i (jm o j)
       else if i % 2 = 1 then 0 else leftVal o x i j)
    else if i + 1 = nc then 0
    else if i = nc then 0
    else if i + 2 = o.nr then
      (if j % 2 = 1 then -quarter * o.art i j * x i (jp o j) + quarter * o.art i j * x i (jm o j) else 0)
    else if i + 1 = o.nr then
      (if j % 2 = 1 then
        (-quarter * o.art i j * x i (jp o j) + quarter * o.art i j * x i (jm o j)) + (-(coeff1 o i j) * o.arr i j * f i j)
       else leftVal o x i j)
    else 0
  else 0

/-- to `(i+1, j)` -/
def rR (i j : Nat) : K :=
  if ((!decide (j % 2 = 1)) == black) = true then
    if nc < i ∧ i + 2 < o.nr then
      (if j % 2 = 1 then quarter * o.art i j * x i (jp o j) - quarter * o.art i j * x i (jm o j)
       else if i % 2 = 1 then 0 else rightVal o x i j)
    else if i + 1 = nc then (if ¬ i % 2 = 1 ∨ j % 2 = 1 then rightVal o x i j else 0)
    else if i = nc then
      (if j % 2 = 1 then quarter * o.art i j * x i (jp o j) - quarter * o.art i j * x i (jm o j)
       else if i % 2 = 1 then 0 else rightVal o x i j)
    else 0
  else 0

/-- to `(i, j-1)` -/
def rB (i j : Nat) : K :=
  if ((!decide (j % 2 = 1)) == black) = true then 0
  else if nc < i ∧ i + 2 < o.nr then (if j % 2 = 1 ∧ ¬ i % 2 = 1 then 0 else bottomVal o x i j)
  else if i + 1 = nc then 0
  else if i = nc then (if i % 2 = 1 ∨ ¬ j % 2 = 1 then bottomVal o x i j else 0)
  else if i + 2 = o.nr then bottomVal o x i j
  else 0

/-- to `(i, j+1)` -/
def rT (i j : Nat) : K :=
  if ((!decide (j % 2 = 1)) == black) = true then 0
  else if nc < i ∧ i + 2 < o.nr then (if j % 2 = 1 ∧ ¬ i % 2 = 1 then 0 else topVal o x i j)
  else if i + 1 = nc then 0
  else if i = nc then (if i % 2 = 1 ∨ ¬ j % 2 = 1 then topVal o x i j else 0)
  else if i + 2 = o.nr then topVal o x i j
  else 0

/-- what node `(i, j)` subtracts from `temp` at `(a, b)` -/
def rRecv (i j a b : Nat) : K :=
  (if a = i ∧ b = j then rC o nc black f x i j else 0)
    + (if a = i - 1 ∧ b = j then rL o nc black f x i j else 0)
    + (if a = i + 1 ∧ b = j then rR o nc black x i j else 0)
    + (if a = i ∧ b = jm o j then rB o nc black x i j else 0)
    + (if a = i ∧ b = jp o j then rT o nc black x i j else 0)

set_option maxHeartbeats 4000000 in
/-- **uniform description of `NODE_APPLY_ASC_ORTHO_RADIAL_GIVE`** -/
theorem recv_radialGive (hnc : 1 ≤ nc) (hnr : nc + 3 ≤ o.nr) (hnt : 2 ≤ o.nt) (i j a b : Nat) (hj : j < o.nt) :
    recv (radialGive o nc black f x i j) a b = rRecv o nc black f x i j a b := by
  have n1 : ¬ jm o j = j := jm_ne o hnt hj
  have n2 : ¬ jp o j = j := jp_ne o hnt hj
  have n3 : ¬ i - 1 = i + 1 := by omega
  have n4 : ¬ i + 1 = i - 1 := by omega
  have split2 : ∀ (P : Prop) [Decidable P] (u v : K),
      (if P then u + v else 0) = (if P then u else 0) + (if P then v else 0) := by
    intro P _ u v; split <;> simp
  cases black
  all_goals (
    unfold radialGive
    simp only []
    split_ifs)
  all_goals try (exfalso; omega)
  all_goals try (simp at *)
  all_goals try (exfalso; omega)
  all_goals (
    harvest (0 < i)
    harvest (i - 1 = i)
    harvest (i = i - 1)
    harvest (nc < i ∧ i + 2 < o.nr)
    harvest (i + 1 = nc)
    harvest (i = nc)
    harvest (i + 2 = o.nr)
    harvest (i + 1 = o.nr)
    harvest (o.nr = nc)
    harvest (i % 2 = 0)
    harvest (i % 2 = 1)
    harvest (j % 2 = 0)
    harvest (j % 2 = 1)
    try subst_vars
    simp [*, split2, rRecv, rC, rL, rR, rB, rT, leftVal, rightVal, bottomVal, topVal, crossVal, recv_mk,
      recv_append])
  all_goals (try ring)

/-- a node of the circle section other than the outermost circle takes no part in the radial kernel -/
theorem rRecv_low (hnr : nc + 3 ≤ o.nr) (i j a b : Nat) (hi : i + 1 < nc) : rRecv o nc black f x i j a b = 0 := by
  have z1 : rC o nc black f x i j = 0 := by
    unfold rC; split
    · rw [if_neg (by omega), if_neg (by omega), if_neg (by omega), if_neg (by omega)]
    · rfl
  have z2 : rL o nc black f x i j = 0 := by
    unfold rL; split
    · rw [if_neg (by omega), if_neg (by omega), if_neg (by omega), if_neg (by omega), if_neg (by omega)]
    · rfl
  have z3 : rR o nc black x i j = 0 := by
    unfold rR; split
    · rw [if_neg (by omega), if_neg (by omega), if_neg (by omega)]
    · rfl
  have z4 : rB o nc black x i j = 0 := by
    unfold rB; split
    · rfl
    · rw [if_neg (by omega), if_neg (by omega), if_neg (by omega), if_neg (by omega)]
  have z5 : rT o nc black x i j = 0 := by
    unfold rT; split
    · rfl
    · rw [if_neg (by omega), if_neg (by omega), if_neg (by omega), if_neg (by omega)]
  unfold rRecv
  rw [z1, z2, z3, z4, z5]
  simp

theorem sum_shift (m n : Nat) (hmn : m ≤ n) (g : Nat → K) (hz : ∀ i, i < m → g i = 0) :
    ∑ t ∈ range (n - m), g (m + t) = ∑ i ∈ range n, g i := by
  have : n = m + (n - m) := by omega
  conv_rhs => rw [this, Finset.sum_range_add]
  rw [Finset.sum_eq_zero (fun i hi => hz i (by simpa using hi)), zero_add]

/-- **the received total of `for i_theta: applyAscOrthoRadialSection(i_theta, color)`**: one giver per direction -/
theorem radial_phase_recv (hnc : 2 ≤ nc) (hnr : nc + 3 ≤ o.nr) (hnt : 2 ≤ o.nt) (a b : Nat) (ha : a < o.nr)
    (hb : b < o.nt) :
    recv (radialPhase o nc black f x) a b =
      rC o nc black f x a b + (if a + 1 < o.nr then rL o nc black f x (a + 1) b else 0)
        + (if 0 < a then rR o nc black x (a - 1) b else 0) + rB o nc black x a (jp o b) + rT o nc black x a (jm o b) := by
  have hpos : 0 < o.nt := by omega
  unfold radialPhase
  rw [recv_flatMap, list_range_sum]
  have e : ∀ j ∈ range o.nt,
      recv ((List.range (o.nr - (nc - 1))).flatMap fun t => radialGive o nc black f x (nc - 1 + t) j) a b
      = ∑ i ∈ range o.nr, rRecv o nc black f x i j a b := by
    intro j hj
    rw [recv_flatMap, list_range_sum]
    have e2 : ∀ t ∈ range (o.nr - (nc - 1)), recv (radialGive o nc black f x (nc - 1 + t) j) a b
        = rRecv o nc black f x (nc - 1 + t) j a b := by
      intro t _
      exact recv_radialGive o nc black f x (by omega) hnr hnt (nc - 1 + t) j a b (by simpa using hj)
    rw [Finset.sum_congr rfl e2]
    exact sum_shift (nc - 1) o.nr (by omega) (fun i => rRecv o nc black f x i j a b)
      (fun i hi => rRecv_low o nc black f x hnr i j a b (by omega))
  rw [Finset.sum_congr rfl e, Finset.sum_comm]
  unfold rRecv
  simp only [Finset.sum_add_distrib]
  refine add5 ?_ ?_ ?_ ?_ ?_
  · exact sum2_single o.nr o.nt a b (fun i j => a = i ∧ b = j) (rC o nc black f x) ⟨rfl, rfl⟩ ha hb
      (fun i j _ _ hp => ⟨hp.1.symm, hp.2.symm⟩)
  · have rL0 : ∀ j, rL o nc black f x 0 j = 0 := by
      intro j
      unfold rL; split
      · rw [if_neg (by omega), if_neg (by omega), if_neg (by omega), if_neg (by omega), if_neg (by omega)]
      · rfl
    have e2 : ∀ i j, (if a = i - 1 ∧ b = j then rL o nc black f x i j else 0)
        = (if i = a + 1 ∧ j = b then rL o nc black f x i j else 0) := by
      intro i j
      by_cases h0 : i = 0
      · subst h0
        rw [rL0]; simp
      · have : (a = i - 1 ∧ b = j) ↔ (i = a + 1 ∧ j = b) := by constructor <;> rintro ⟨h1, h2⟩ <;> constructor <;> omega
        simp only [this]
    simp only [e2]
    by_cases h : a + 1 < o.nr
    · rw [if_pos h]
      exact sum2_single o.nr o.nt (a + 1) b (fun i j => i = a + 1 ∧ j = b) (rL o nc black f x) ⟨rfl, rfl⟩ h hb
        (fun _ _ _ _ hp => hp)
    · rw [if_neg h]
      exact sum2_none o.nr o.nt (fun i j => i = a + 1 ∧ j = b) (rL o nc black f x) (fun i j hi _ hp => by omega)
  · by_cases h : 0 < a
    · rw [if_pos h]
      exact sum2_single o.nr o.nt (a - 1) b (fun i j => a = i + 1 ∧ b = j) (rR o nc black x) ⟨by omega, rfl⟩
        (by omega) hb (fun i j _ _ hp => ⟨by omega, hp.2.symm⟩)
    · rw [if_neg h]
      exact sum2_none o.nr o.nt (fun i j => a = i + 1 ∧ b = j) (rR o nc black x) (fun i j hi _ hp => by omega)
  · exact sum2_single o.nr o.nt a (jp o b) (fun i j => a = i ∧ b = jm o j) (rB o nc black x)
      ⟨rfl, (jm_jp o hb).symm⟩ ha (jp_lt o hpos b) (fun i j _ hj hp => ⟨hp.1.symm, by rw [hp.2, jp_jm o hj]⟩)
  · exact sum2_single o.nr o.nt a (jm o b) (fun i j => a = i ∧ b = jp o j) (rT o nc black x)
      ⟨rfl, (jp_jm o hb).symm⟩ ha (jm_lt o hpos b) (fun i j _ hj hp => ⟨hp.1.symm, by rw [hp.2, jm_jp o hj]⟩)

end
end ExSmootherGiveCode
