import GMGModel.DirectCode
import GMGProofs.Lemmas.DirectLemmas
/-!
# Code-level direct solver, lemmas 1 — a CSR container laid out row by row

`csrRows n m rs` is the container `DirectCode.assemble` builds from the list of stored rows `rs`
(values / column indices concatenated, `rowPtr` = prefix sums of the row lengths).
* `rowEntries_csrRows`: the stored entries of row `r` are `rs[r]`;
* `toDense_csrRows`: with pairwise distinct columns in `rs[r]` the dense row is `den rs[r]`.
-/
set_option linter.unusedSectionVars false
set_option linter.unusedVariables false
namespace DirectCode
open SparseLU
variable {K : Type} [_root_.Field K]

/-- the row-pointer fold of `assemble` -/
def ptrStep (acc : List Nat × Nat) (r : List (Nat × K)) : List Nat × Nat :=
  (acc.1 ++ [acc.2 + r.length], acc.2 + r.length)

/-- the container `assemble` lays out -/
def csrRows (n m : Nat) (rs : List (List (Nat × K))) : CSR K :=
  ⟨n, m, rs.flatMap (·.map (·.2)), rs.flatMap (·.map (·.1)), (rs.foldl ptrStep ([0], 0)).1⟩

/-- number of entries stored before row `r` -/
def offs (rs : List (List (Nat × K))) (r : Nat) : Nat := ((rs.take r).map List.length).sum

theorem offs_zero (rs : List (List (Nat × K))) : offs rs 0 = 0 := by simp [offs]

theorem offs_cons_succ (row : List (Nat × K)) (rs : List (List (Nat × K))) (r : Nat) :
    offs (row :: rs) (r + 1) = row.length + offs rs r := by simp [offs]

theorem offs_append_le (rs : List (List (Nat × K))) (row : List (Nat × K)) (r : Nat) (h : r ≤ rs.length) :
    offs (rs ++ [row]) r = offs rs r := by
  unfold offs; rw [List.take_append_of_le_length h]

theorem offs_append_last (rs : List (List (Nat × K))) (row : List (Nat × K)) :
    offs (rs ++ [row]) (rs.length + 1) = offs rs rs.length + row.length := by
  unfold offs
  rw [List.take_of_length_le (by simp), List.take_of_length_le (by simp)]
  simp

theorem offs_succ (rs : List (List (Nat × K))) (r : Nat) (h : r < rs.length) :
    offs rs (r + 1) = offs rs r + (rs.getD r []).length := by
  induction rs generalizing r with
  | nil => simp at h
  | cons row rs ih =>
    cases r with
    | zero => simp [offs]
    | succ r =>
      rw [offs_cons_succ, offs_cons_succ, ih r (by simpa using h)]
      simp [Nat.add_assoc]

/-- the row-pointer array: prefix sums -/
theorem ptr_fold (rs : List (List (Nat × K))) :
    rs.foldl ptrStep ([0], 0) = ((List.range (rs.length + 1)).map (offs rs), offs rs rs.length) := by
  induction rs using List.reverseRecOn with
  | nil => simp [offs]
  | append_singleton rs row ih =>
    rw [List.foldl_append, ih]
    simp only [List.foldl_cons, List.foldl_nil, ptrStep, List.length_append, List.length_singleton]
    rw [offs_append_last]
    congr 1
    rw [List.range_succ (n := rs.length + 1), List.map_append]
    congr 1
    · apply List.map_congr_left
      intro r hr
      rw [offs_append_le]
      have := List.mem_range.mp hr; omega
    · simp [offs_append_last]

theorem rowPtr_csrRows (n m : Nat) (rs : List (List (Nat × K))) (r : Nat) (h : r ≤ rs.length) :
    (csrRows n m rs).rowPtr.getD r 0 = offs rs r := by
  show (rs.foldl ptrStep ([0], 0)).1.getD r 0 = _
  rw [ptr_fold]
  simp only
  rw [SparseLU.getD_map_range]
  rw [if_pos (by omega)]

/-- indexing the concatenation through the prefix sums -/
theorem flat_getD {β : Type} (g : Nat × K → β) (d : β) (rs : List (List (Nat × K))) :
    ∀ r idx, r < rs.length → idx < (rs.getD r []).length →
      (rs.flatMap (·.map g)).getD (offs rs r + idx) d = ((rs.getD r []).map g).getD idx d := by
  induction rs with
  | nil => intro r idx h; simp at h
  | cons row rs ih =>
    intro r idx hr hidx
    cases r with
    | zero =>
      simp only [offs_zero, Nat.zero_add, List.flatMap_cons, List.getD_cons_zero] at hidx ⊢
      rw [List.getD_eq_getElem?_getD, List.getD_eq_getElem?_getD,
        List.getElem?_append_left (by simpa using hidx)]
    | succ r =>
      simp only [List.getD_cons_succ] at hidx ⊢
      rw [offs_cons_succ, List.flatMap_cons, Nat.add_assoc, List.getD_eq_getElem?_getD,
        List.getElem?_append_right (by simp)]
      simp only [List.length_map, Nat.add_sub_cancel_left]
      rw [← List.getD_eq_getElem?_getD]
      exact ih r idx (by simpa using hr) hidx

/-- the stored entries of row `r` are the row the assembly built -/
theorem rowEntries_csrRows (n m : Nat) (rs : List (List (Nat × K))) (r : Nat) (h : r < rs.length) :
    rowEntries (csrRows n m rs) r = rs.getD r [] := by
  unfold rowEntries
  simp only
  rw [rowPtr_csrRows n m rs r (by omega), rowPtr_csrRows n m rs (r + 1) (by omega), offs_succ rs r h,
    Nat.add_sub_cancel_left]
  apply List.ext_getElem
  · simp
  · intro idx h1 h2
    simp only [List.length_map, List.length_range] at h1
    simp only [List.getElem_map, List.getElem_range]
    show ((rs.flatMap (·.map (·.1))).getD (offs rs r + idx) 0,
      (rs.flatMap (·.map (·.2))).getD (offs rs r + idx) (Scalar.n 0)) = _
    rw [flat_getD (·.1) 0 rs r idx h h1, flat_getD (·.2) (Scalar.n 0) rs r idx h h1]
    generalize rs.getD r [] = row at h1 h2 ⊢
    rw [List.getD_eq_getElem?_getD, List.getD_eq_getElem?_getD,
      List.getElem?_eq_getElem (by simpa using h1), List.getElem?_eq_getElem (by simpa using h1)]
    simp

/-- dense meaning of a row without repeated columns -/
theorem toDense_csrRows (n m : Nat) (rs : List (List (Nat × K))) (r : Nat) (h : r < rs.length)
    (hu : Uniq (rs.getD r [])) (k : Nat) :
    toDense (csrRows n m rs) r k = den (rs.getD r []) k := by
  unfold toDense
  rw [loadRow_eq_rowEntries _ _ (by rw [rowEntries_csrRows n m rs r h]; exact hu), rowEntries_csrRows n m rs r h]

end DirectCode
