import GMGProofs.Lemmas.GridGenLevels
/-!
# The coarsening chain: the other unfolding, and the sizes on every level of an accepted hierarchy

`coarsenR` / `coarsenT` are defined by peeling the FINEST coarsening step.  Here: the unfolding that peels the COARSEST step,
monotonicity in the level, and the arithmetic facts about every level of a chain of accepted length
(`chooseLevels nr nt maxLevels = .ok L`) that the whole-cycle theorems use.
-/
namespace GridGenL
open GridGen

/-- peeling the coarsest step -/
theorem coarsenR_succ' (l : Nat) : ∀ n, coarsenR (l + 1) n = (coarsenR l n + 1) / 2 := by
  induction l with
  | zero => intro n; simp [coarsenR]
  | succ l ih =>
    intro n
    show coarsenR (l + 1) ((n + 1) / 2) = (coarsenR l ((n + 1) / 2) + 1) / 2
    exact ih _

/-- peeling the coarsest step -/
theorem coarsenT_succ' (l : Nat) : ∀ n, coarsenT (l + 1) n = coarsenT l n / 2 := by
  induction l with
  | zero => intro n; simp [coarsenT]
  | succ l ih =>
    intro n
    show coarsenT (l + 1) (n / 2) = coarsenT l (n / 2) / 2
    exact ih _

/-- the angular size never grows with the level -/
theorem coarsenT_succ_le (l n : Nat) : coarsenT (l + 1) n ≤ coarsenT l n := by
  rw [coarsenT_succ']; omega

/-- the radial size never grows with the level -/
theorem coarsenR_succ_le (l n : Nat) : coarsenR (l + 1) n ≤ coarsenR l n ∨ coarsenR l n = 0 := by
  rw [coarsenR_succ']; omega

theorem coarsenT_antitone (n : Nat) {l l' : Nat} (h : l ≤ l') : coarsenT l' n ≤ coarsenT l n := by
  induction h with
  | refl => exact Nat.le_refl _
  | step _ ih => exact Nat.le_trans (coarsenT_succ_le _ n) ih

/-- as long as a radial node is left, the radial size never grows with the level -/
theorem coarsenR_antitone (n : Nat) (hn : 1 ≤ n) {l l' : Nat} (h : l ≤ l') :
    coarsenR l' n ≤ coarsenR l n ∧ 1 ≤ coarsenR l' n := by
  have pos : ∀ k, 1 ≤ coarsenR k n := by
    intro k
    induction k with
    | zero => exact hn
    | succ k ih => rw [coarsenR_succ']; omega
  refine ⟨?_, pos _⟩
  induction h with
  | refl => exact Nat.le_refl _
  | step _ ih =>
    refine Nat.le_trans ?_ ih
    rw [coarsenR_succ']
    have := pos ‹_›
    omega

/-- **the sizes along an accepted chain**: on every smoothing level (`l + 1 < L`) the radial size is odd and at least 9, the angular
    size a multiple of 4 and at least 8; the next level has at least 5 × 4 nodes and an even angular size -/
theorem chain_sizes {nr nt : Nat} {maxLevels : Int} {L : Nat} (h : chooseLevels nr nt maxLevels = .ok L) :
    2 ≤ L ∧ ∀ l, l + 1 < L →
      coarsenR l nr % 2 = 1 ∧ 9 ≤ coarsenR l nr ∧ coarsenT l nt % 4 = 0 ∧ 8 ≤ coarsenT l nt ∧
      coarsenR (l + 1) nr = (coarsenR l nr + 1) / 2 ∧ coarsenT (l + 1) nt = coarsenT l nt / 2 ∧
      5 ≤ coarsenR (l + 1) nr ∧ 4 ≤ coarsenT (l + 1) nt ∧ coarsenT (l + 1) nt % 2 = 0 := by
  obtain ⟨h2, hr, ht⟩ := chooseLevels_ok h
  refine ⟨h2, fun l hl => ?_⟩
  obtain ⟨hR1, hR2⟩ := radialMax_spec nr nr L hr l hl
  obtain ⟨hT1, hT2⟩ := angularMax_spec nt nt L ht l hl
  have eR := coarsenR_succ' l nr
  have eT := coarsenT_succ' l nt
  refine ⟨hR1, by omega, hT1, by omega, eR, eT, hR2, hT2, by omega⟩

end GridGenL
