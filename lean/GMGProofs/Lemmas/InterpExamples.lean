import GMGProofs.Lemmas.InterpFMG
import GMGProofs.Lemmas.InterpAdjointEx
import Mathlib.Algebra.Order.Field.Rat
import Mathlib.Tactic.NormNum
/-!
# Concrete pairs over ℚ for the non-vacuity examples of C08 / C09
-/
namespace Interp

/-- non-uniform `7 × 8` fine grid: `hF i = i + 1` (radii `r i = i(i+1)/2`), `kF j = 1, 2, 1, 2, …`;
    coarse spacings are the sums of the two fine spacings they cover -/
def exPair : Pair ℚ where
  nrF := 7
  ntF := 8
  hF := fun i => (i : ℚ) + 1
  kF := fun j => if j % 2 = 0 then 1 else 2
  hC := fun I => 4 * (I : ℚ) + 3
  kC := fun _ => 3

/-- radii and angles of `exPair` -/
def exR (i : ℕ) : ℚ := (i : ℚ) * ((i : ℚ) + 1) / 2
def exTheta (j : ℕ) : ℚ := 3 * ((j / 2 : ℕ) : ℚ) + (if j % 2 = 0 then 0 else 1)

/-- uniform `5 × 6` fine grid (every fine node is the midpoint of its coarse neighbours) -/
def exPairU : Pair ℚ where
  nrF := 5
  ntF := 6
  hF := fun _ => 1
  kF := fun _ => 1
  hC := fun _ => 2
  kC := fun _ => 2

/-- the witness of `C08.not_linear_general`: fine radii `0, 1, 4, 7, …` (`hF 0 = 1`, `hF i = 3` otherwise) -/
def exPairBad : Pair ℚ where
  nrF := 3
  ntF := 4
  hF := fun i => if i = 0 then 1 else 3
  kF := fun _ => 1
  hC := fun I => if I = 0 then 4 else 6
  kC := fun _ => 2

def exRBad (i : ℕ) : ℚ := if i = 0 then 0 else 3 * (i : ℚ) - 2

theorem exPair_adm : Admissible exPair := ⟨by decide, by decide, by decide, by decide⟩
theorem exPairU_adm : Admissible exPairU := ⟨by decide, by decide, by decide, by decide⟩
theorem exPairBad_adm : Admissible exPairBad := ⟨by decide, by decide, by decide, by decide⟩

theorem exPair_pos : PosSpacing exPair := by
  refine ⟨fun i => ?_, fun j => ?_, fun I => ?_, fun J => ?_⟩
  · show (0 : ℚ) < (i : ℚ) + 1; positivity
  · show (0 : ℚ) < if j % 2 = 0 then 1 else 2; split_ifs <;> norm_num
  · show (0 : ℚ) < 4 * (I : ℚ) + 3; positivity
  · show (0 : ℚ) < 3; norm_num

theorem exPairU_pos : PosSpacing exPairU := by
  refine ⟨fun i => ?_, fun j => ?_, fun I => ?_, fun J => ?_⟩ <;> simp [exPairU]

theorem exPairBad_pos : PosSpacing exPairBad := by
  refine ⟨fun i => ?_, fun j => ?_, fun I => ?_, fun J => ?_⟩
  · show (0 : ℚ) < if i = 0 then 1 else 3; split_ifs <;> norm_num
  · show (0 : ℚ) < 1; norm_num
  · show (0 : ℚ) < if I = 0 then 4 else 6; split_ifs <;> norm_num
  · show (0 : ℚ) < 2; norm_num

theorem exR_step (i : ℕ) : exR (i + 1) = exR i + exPair.hF i := by
  simp only [exR, exPair]; push_cast; ring

theorem exPair_hC (I : ℕ) : exPair.hC I = exPair.hF (2 * I) + exPair.hF (2 * I + 1) := by
  simp only [exPair]; push_cast; ring

theorem exPair_kC (J : ℕ) : exPair.kC J = exPair.kF (2 * J) + exPair.kF (2 * J + 1) := by
  have h1 : (2 * J) % 2 = 0 := by omega
  have h2 : ¬ (2 * J + 1) % 2 = 0 := by omega
  simp only [exPair, h1, h2, if_true, if_false]; norm_num

theorem exTheta_step (j : ℕ) : exTheta (j + 1) = exTheta j + exPair.kF j := by
  rcases Nat.even_or_odd' j with ⟨t, rfl | rfl⟩
  · have a1 : (2 * t + 1) / 2 = t := by omega
    have a2 : 2 * t / 2 = t := by omega
    have a3 : ¬ (2 * t + 1) % 2 = 0 := by omega
    have a4 : (2 * t) % 2 = 0 := by omega
    simp only [exTheta, exPair, a1, a2, a3, a4, if_true, if_false]; ring
  · have a1 : (2 * t + 1 + 1) / 2 = t + 1 := by omega
    have a2 : (2 * t + 1) / 2 = t := by omega
    have a3 : ¬ (2 * t + 1) % 2 = 0 := by omega
    have a4 : (2 * t + 1 + 1) % 2 = 0 := by omega
    simp only [exTheta, exPair, a1, a2, a3, a4, if_true, if_false]; push_cast; ring

theorem exRBad_step (i : ℕ) : exRBad (i + 1) = exRBad i + exPairBad.hF i := by
  rcases i with _ | i
  · norm_num [exRBad, exPairBad]
  · simp only [exRBad, exPairBad, Nat.add_eq_zero_iff, one_ne_zero, and_false, if_false]; push_cast; ring

theorem exPairBad_hC (I : ℕ) : exPairBad.hC I = exPairBad.hF (2 * I) + exPairBad.hF (2 * I + 1) := by
  rcases I with _ | I
  · norm_num [exPairBad]
  · have h1 : ¬ 2 * (I + 1) = 0 := by omega
    have h2 : ¬ 2 * (I + 1) + 1 = 0 := by omega
    have h3 : ¬ I + 1 = 0 := by omega
    simp only [exPairBad, h1, h2, h3, if_false]; norm_num

end Interp
