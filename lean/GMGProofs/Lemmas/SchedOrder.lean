import GMGModel.Sched
import Mathlib.Data.List.Perm.Basic
import Mathlib.Algebra.BigOperators.Group.List.Basic
import Mathlib.Order.Lattice
import Mathlib.Data.Rat.Floor
import Mathlib.Algebra.Order.Field.Basic
/-!
# Order independence of non-interfering tasks, reductions, threads per level (C12)

* `perm_invariant`, `perm_invariant_pairwise`: commuting tasks give the same memory in any order (`List.Perm` induction).
* `Respects`, `NonInterfering`, `commute_of_disjoint`: the frame lemma — a task that writes only `W` and whose writes depend
  only on `R ∪ W` commutes with a task whose footprint it does not touch.  Any location type, any value type.
* `region_determinism`, `interval_determinism`: tie to the schedule model (`iterW`, `iterR`, `RegionRaceFree`).
* `sum_chunks`, `max_chunks`: what `reduction(+: …)` / `reduction(max: …)` compute, in exact arithmetic.
* `threads`: `max 1 (min maxT ⌊maxT · f^d⌋)`.

The execution model is *serialisation*: a barrier interval is executed as its work items (loop iterations) in some order.
That a data-race-free OpenMP program has only such executions is the OpenMP memory model's guarantee, not proved here.
-/
namespace Sched.Order

/-! ### 1. permutations of commuting tasks -/

/-- pairwise commuting tasks give the same memory in any order -/
theorem perm_invariant {M : Type} (ts us : List (M → M)) (m : M) (hp : ts.Perm us)
    (hc : ∀ f ∈ ts, ∀ g ∈ ts, ∀ x, f (g x) = g (f x)) :
    ts.foldl (fun acc f => f acc) m = us.foldl (fun acc f => f acc) m := by
  induction hp generalizing m with
  | nil => rfl
  | cons f _ ih =>
      simp only [List.foldl_cons]
      exact ih _ (fun a ha b hb => hc a (List.mem_cons_of_mem _ ha) b (List.mem_cons_of_mem _ hb))
  | swap f g l =>
      simp only [List.foldl_cons]
      rw [hc f (by simp) g (by simp)]
  | trans h1 _ ih1 ih2 =>
      rw [ih1 m hc]
      exact ih2 m (fun a ha b hb => hc a (h1.mem_iff.mpr ha) b (h1.mem_iff.mpr hb))

/-- the same for an indexed family of actions: only *different positions* of the list have to commute -/
theorem perm_invariant_pairwise {ι M : Type} (act : ι → M → M) (l l' : List ι) (hp : l.Perm l')
    (hc : l.Pairwise (fun i j => ∀ x, act i (act j x) = act j (act i x))) (m : M) :
    l.foldl (fun acc i => act i acc) m = l'.foldl (fun acc i => act i acc) m := by
  induction hp generalizing m with
  | nil => rfl
  | cons i _ ih =>
      simp only [List.foldl_cons]
      exact ih (List.pairwise_cons.mp hc).2 _
  | swap i j l =>
      simp only [List.foldl_cons]
      rw [(List.pairwise_cons.mp hc).1 i (by simp)]
  | trans h1 _ ih1 ih2 =>
      rw [ih1 hc m]
      exact ih2 ((h1.pairwise_iff (fun h x => (h x).symm)).mp hc) m

/-! ### 2. frame lemma -/

variable {Loc V : Type}

/-- `f` writes only locations in `W`, and what it writes depends only on the old values on `R ∪ W` -/
structure Respects (f : (Loc → V) → (Loc → V)) (R W : Loc → Prop) : Prop where
  frame : ∀ m x, ¬ W x → f m x = m x
  dep : ∀ m m', (∀ x, R x ∨ W x → m x = m' x) → ∀ x, W x → f m x = f m' x

/-- a task respects every larger footprint -/
theorem Respects.mono {f : (Loc → V) → (Loc → V)} {R W R' W' : Loc → Prop} (h : Respects f R W)
    (hR : ∀ x, R x → R' x) (hW : ∀ x, W x → W' x) : Respects f R' W' := by
  refine ⟨fun m x hx => h.frame m x (fun hw => hx (hW x hw)), fun m m' hm x hx => ?_⟩
  by_cases hw : W x
  · exact h.dep m m' (fun y hy => hm y (hy.elim (fun a => Or.inl (hR y a)) (fun a => Or.inr (hW y a)))) x hw
  · rw [h.frame m x hw, h.frame m' x hw]; exact hm x (Or.inr hx)

/-- `W_f ∩ (R_g ∪ W_g) = ∅` and `W_g ∩ (R_f ∪ W_f) = ∅` -/
def NonInterfering (Rf Wf Rg Wg : Loc → Prop) : Prop :=
  (∀ x, Wf x → ¬ (Rg x ∨ Wg x)) ∧ (∀ x, Wg x → ¬ (Rf x ∨ Wf x))

theorem NonInterfering.symm {Rf Wf Rg Wg : Loc → Prop} (h : NonInterfering Rf Wf Rg Wg) : NonInterfering Rg Wg Rf Wf :=
  ⟨h.2, h.1⟩

/-- two tasks with non-interfering footprints commute — for every value type `V` -/
theorem commute_of_disjoint {f g : (Loc → V) → (Loc → V)} {Rf Wf Rg Wg : Loc → Prop}
    (hf : Respects f Rf Wf) (hg : Respects g Rg Wg) (hd : NonInterfering Rf Wf Rg Wg) (m : Loc → V) :
    f (g m) = g (f m) := by
  funext x
  by_cases hwf : Wf x
  · -- `g` does not touch `R_f ∪ W_f`, and does not write `x`
    have hgx : ¬ Wg x := fun h => hd.1 x hwf (Or.inr h)
    rw [hg.frame (f m) x hgx]
    exact hf.dep (g m) m (fun y hy => hg.frame m y (fun h => hd.2 y h hy)) x hwf
  · rw [hf.frame (g m) x hwf]
    by_cases hwg : Wg x
    · exact hg.dep m (f m) (fun y hy => (hf.frame m y (fun h => hd.1 y h hy)).symm) x hwg
    · rw [hg.frame m x hwg, hg.frame (f m) x hwg, hf.frame m x hwf]

/-- a task with its declared footprint -/
structure Task (Loc V : Type) where
  run : (Loc → V) → (Loc → V)
  R : Loc → Prop
  W : Loc → Prop
  ok : Respects run R W

def Task.Indep (f g : Task Loc V) : Prop := NonInterfering f.R f.W g.R g.W

/-- tasks with pairwise non-interfering footprints give the same final memory in every order -/
theorem region_determinism (ts us : List (Task Loc V)) (hp : ts.Perm us) (hi : ts.Pairwise Task.Indep) (m : Loc → V) :
    ts.foldl (fun acc f => f.run acc) m = us.foldl (fun acc f => f.run acc) m :=
  perm_invariant_pairwise (fun f => f.run) ts us hp
    (hi.imp (fun {f g} h x => commute_of_disjoint f.ok g.ok h x)) m

/-! ### tie to the schedule model: the work items of one barrier interval -/

/-- locations: (shared array, r, θ) -/
abbrev Node := Arr × Int × Int

/-- nodes of the grid an iteration of a loop may write: the union over the calls of its body -/
def iterW (s : Shape) (l : Loop) (t : Int) : Node → Prop := fun x =>
  (0 ≤ x.2.1 ∧ x.2.1 < s.nr ∧ 0 ≤ x.2.2 ∧ x.2.2 < s.nt) ∧ ∃ k ∈ l.body s t, writes s k x.1 x.2.1 x.2.2
/-- … may read -/
def iterR (s : Shape) (l : Loop) (t : Int) : Node → Prop := fun x =>
  (0 ≤ x.2.1 ∧ x.2.1 < s.nr ∧ 0 ≤ x.2.2 ∧ x.2.2 < s.nt) ∧ ∃ k ∈ l.body s t, reads s k x.1 x.2.1 x.2.2

/-- `LoopsRaceFree` is exactly non-interference of the iteration footprints -/
theorem nonInterfering_of_loopsRaceFree {s : Shape} {l l' : Loop} {same : Bool} (h : LoopsRaceFree s l l' same)
    {t t' : Int} (ht : l.has s t) (ht' : l'.has s t') (hne : same = true → t ≠ t') :
    NonInterfering (iterR s l t) (iterW s l t) (iterR s l' t') (iterW s l' t') := by
  constructor
  · rintro ⟨a, r, θ⟩ ⟨⟨h0, h1, h2, h3⟩, k, hk, hw⟩ hor
    rcases hor with ⟨_, k', hk', hr'⟩ | ⟨_, k', hk', hw'⟩
    · exact h t t' ht ht' hne k hk k' hk' a r θ h0 h1 h2 h3 (Or.inl ⟨hw, Or.inr hr'⟩)
    · exact h t t' ht ht' hne k hk k' hk' a r θ h0 h1 h2 h3 (Or.inl ⟨hw, Or.inl hw'⟩)
  · rintro ⟨a, r, θ⟩ ⟨⟨h0, h1, h2, h3⟩, k', hk', hw'⟩ hor
    rcases hor with ⟨_, k, hk, hr⟩ | ⟨_, k, hk, hw⟩
    · exact h t t' ht ht' hne k hk k' hk' a r θ h0 h1 h2 h3 (Or.inr ⟨hw', hr⟩)
    · exact h t t' ht ht' hne k hk k' hk' a r θ h0 h1 h2 h3 (Or.inl ⟨hw, Or.inl hw'⟩)

/-- One barrier interval of a race-free region: if the code of every iteration respects the model footprint of that
    iteration, then every order of the work items `(loop, iteration)` of the interval gives the same memory. -/
theorem interval_determinism {s : Shape} {reg : Region} (hrf : RegionRaceFree s reg)
    (iv : List Nat) (hiv : iv ∈ intervals reg.loops)
    (run : Nat → Int → (Node → V) → (Node → V))
    (hrun : ∀ ia ∈ iv, ∀ t, (reg.loops.getD ia default).has s t →
      Respects (run ia t) (iterR s (reg.loops.getD ia default) t) (iterW s (reg.loops.getD ia default) t))
    (items items' : List (Nat × Int)) (hnd : items.Nodup)
    (hmem : ∀ p ∈ items, p.1 ∈ iv ∧ (reg.loops.getD p.1 default).has s p.2)
    (hp : items.Perm items') (m : Node → V) :
    items.foldl (fun acc p => run p.1 p.2 acc) m = items'.foldl (fun acc p => run p.1 p.2 acc) m := by
  refine perm_invariant_pairwise (fun p => run p.1 p.2) items items' hp ?_ m
  refine List.Pairwise.imp_of_mem ?_ hnd
  rintro ⟨ia, t⟩ ⟨ib, t'⟩ hp hq hpq x
  obtain ⟨hia, ht⟩ := hmem _ hp
  obtain ⟨hib, ht'⟩ := hmem _ hq
  have hni : NonInterfering (iterR s (reg.loops.getD ia default) t) (iterW s (reg.loops.getD ia default) t)
      (iterR s (reg.loops.getD ib default) t') (iterW s (reg.loops.getD ib default) t') := by
    rcases Nat.le_total ia ib with hle | hle
    · refine nonInterfering_of_loopsRaceFree (hrf iv hiv ia hia ib hib hle) ht ht' ?_
      intro he htt; exact hpq (Prod.ext (beq_iff_eq.mp he) htt)
    · refine (nonInterfering_of_loopsRaceFree (hrf iv hiv ib hib ia hia hle) ht' ht ?_).symm
      intro he htt; exact hpq (Prod.ext (beq_iff_eq.mp he).symm htt.symm)
  exact commute_of_disjoint (hrun ia hia t ht) (hrun ib hib t' ht') hni x

/-! ### 3. reductions -/

/-- `reduction(+: …)`: the sum of the partial sums of any partition into consecutive chunks, combined in any order -/
theorem sum_chunks {A : Type} [AddCommMonoid A] (chunks : List (List A)) (partials : List A)
    (hp : (chunks.map List.sum).Perm partials) : partials.sum = chunks.flatten.sum := by
  rw [← hp.sum_eq, List.sum_flatten]

/-- running maximum from a start value -/
theorem foldl_max_le_iff {A : Type} [LinearOrder A] (l : List A) (b y : A) :
    l.foldl max b ≤ y ↔ b ≤ y ∧ ∀ a ∈ l, a ≤ y := by
  induction l generalizing b with
  | nil => simp
  | cons a l ih =>
      simp only [List.foldl_cons, ih, max_le_iff, List.mem_cons, forall_eq_or_imp, and_assoc]

/-- `reduction(max: …)`: every thread starts from the incoming value `b`, the partial maxima are combined in any order -/
theorem max_chunks {A : Type} [LinearOrder A] (chunks : List (List A)) (partials : List A) (b : A)
    (hp : (chunks.map (fun c => c.foldl max b)).Perm partials) :
    partials.foldl max b = chunks.flatten.foldl max b := by
  refine eq_of_forall_ge_iff fun y => ?_
  simp only [foldl_max_le_iff, ← hp.mem_iff, List.mem_map, List.mem_flatten]
  constructor
  · rintro ⟨hb, h⟩
    refine ⟨hb, ?_⟩
    rintro a ⟨c, hc, hac⟩
    exact ((foldl_max_le_iff c b y).mp (h _ ⟨c, hc, rfl⟩)).2 a hac
  · rintro ⟨hb, h⟩
    refine ⟨hb, ?_⟩
    rintro _ ⟨c, hc, rfl⟩
    exact (foldl_max_le_iff c b y).mpr ⟨hb, fun a ha => h a ⟨c, hc, ha⟩⟩

/-! ### 4. threads per level -/

/-- `setup.cpp`: `max(1, min(maxT, (int) floor(maxT * pow(f, d))))`, in exact arithmetic -/
def threads (maxT : Int) (f : Rat) (d : Nat) : Int := max 1 (min maxT ⌊(maxT : Rat) * f ^ d⌋)

theorem one_le_threads (maxT : Int) (f : Rat) (d : Nat) : 1 ≤ threads maxT f d := le_max_left _ _

theorem threads_le (maxT : Int) (f : Rat) (d : Nat) (hT : 1 ≤ maxT) : threads maxT f d ≤ maxT :=
  max_le hT (min_le_left _ _)

theorem threads_antitone (maxT : Int) (f : Rat) (hT : 1 ≤ maxT) (hf0 : 0 < f) (hf1 : f ≤ 1) {d d' : Nat} (h : d ≤ d') :
    threads maxT f d' ≤ threads maxT f d := by
  unfold threads
  have hpow : f ^ d' ≤ f ^ d := pow_le_pow_of_le_one hf0.le hf1 h
  have hT0 : (0 : Rat) ≤ (maxT : Rat) := by exact_mod_cast (by omega : (0 : Int) ≤ maxT)
  have : ⌊(maxT : Rat) * f ^ d'⌋ ≤ ⌊(maxT : Rat) * f ^ d⌋ := Int.floor_le_floor (mul_le_mul_of_nonneg_left hpow hT0)
  exact max_le_max (le_refl _) (min_le_min (le_refl _) this)

theorem threads_zero (maxT : Int) (f : Rat) (hT : 1 ≤ maxT) : threads maxT f 0 = maxT := by
  unfold threads
  simp only [pow_zero, mul_one, Int.floor_intCast, min_self]
  exact max_eq_right hT

end Sched.Order
