import GMGModel.Build
import GMGProofs.Props.C03
import GMGProofs.Props.C03c
import GMGProofs.Lemmas.StencilLemmas6
/-!
# Helper lemmas for C10i: the caches of a nested chain, list bookkeeping of `Build.hier`, node values of `Cache.direct`
-/
namespace Concrete15
open Stencil Cache Build Concrete

section AnyScalar
variable {α : Type} [Scalar α]

/-- sampling down a nested chain from a fresh cache gives the fresh caches of all levels -/
theorem cachesFrom_fresh (E : Env α) (cc cg : Bool) (rest : List (GridData α)) :
    ∀ G : GridData α, List.IsChain C03c.Nested (G :: rest) →
      cachesFrom (fresh E G cc cg) G rest = (G :: rest).map fun G => fresh E G cc cg := by
  induction rest with
  | nil => intro G _; rfl
  | cons G' rest ih =>
      intro G hchain
      rw [List.isChain_cons_cons] at hchain
      show fresh E G cc cg :: cachesFrom (coarsen (fresh E G cc cg) G.g G'.g) G' rest = _
      rw [C03c.coarsen_fresh E G G' hchain.1 cc cg, ih G' hchain.2]
      rfl

theorem zip_map_self {β γ : Type} (f : β → γ) (l : List β) : l.zip (l.map f) = l.map fun x => (x, f x) := by
  induction l with
  | nil => rfl
  | cons a l ih => simp only [List.map_cons, List.zip_cons_cons, ih]

/-- a level of a hierarchy whose level list is a `map` -/
theorem lvl_map {β : Type} (H : Hier α) (l : List β) (f : β → LevelData α) (hH : H.levels = l.map f) (i : Nat)
    (hi : i < l.length) : lvl H i = f l[i] := by
  unfold lvl
  rw [hH, List.getD_eq_getElem?_getD, List.getElem?_map, List.getElem?_eq_getElem hi]
  rfl

/-- the node values of the direct evaluation, spelled out -/
theorem direct_eq (E : Env α) (G : GridData α) (i j : Nat) :
    direct E G i j =
      (E.sinF (G.theta j), E.cosF (G.theta j), E.beta (G.radius i),
        jacobianElements E.absF
          (E.jac (G.radius i) (G.theta j) (E.sinF (G.theta j)) (E.cosF (G.theta j))).1
          (E.jac (G.radius i) (G.theta j) (E.sinF (G.theta j)) (E.cosF (G.theta j))).2.1
          (E.jac (G.radius i) (G.theta j) (E.sinF (G.theta j)) (E.cosF (G.theta j))).2.2.1
          (E.jac (G.radius i) (G.theta j) (E.sinF (G.theta j)) (E.cosF (G.theta j))).2.2.2
          (E.alpha (G.radius i))) := rfl

end AnyScalar

end Concrete15
