import GMGProofs.Lemmas.SmootherCode2
/-!
# Helper lemmas for C06d, part 1: the LU factorisation of the innermost circle's matrix in Dirichlet mode

With `o.bc = true` every stored row of `innerCSR o` is `[(j, 1)]`; the elimination of row `j` against the rows
`0 … j-1` finds no entry to eliminate, so the working row, the U row and the pivot are those of the identity.
-/
namespace SmootherCode
open Stencil SparseLU
variable {K : Type} [_root_.Field K]

/-- a row with the single key `i` is left alone by the elimination of the columns `< i` -/
theorem elimRow_single (U : List (Row K)) (i : Nat) (v : K) :
    ∀ n, n ≤ i → elimRow U n [(i, v)] = [(i, v)]
  | 0, _ => rfl
  | n + 1, h => by
      rw [elimRow_succ, elimRow_single U i v n (by omega)]
      unfold elimStep
      have : get [(i, v)] n = none := by
        rw [get_eq_none_iff]; simp; omega
      rw [this]

/-- Dirichlet mode: the stored row `j` of the innermost circle's matrix -/
theorem loadRow_innerCSR_dirichlet (o : Op K) (hbc : o.bc = true) (j : Nat) (hj : j < o.nt) :
    loadRow (innerCSR o) j = [(j, 1)] := by
  have hrow : innerRow o j = [(j, 1)] := by
    unfold innerRow; rw [if_pos hbc, Scalar.n_one]
  have hre : rowEntries (innerCSR o) j = [(j, 1)] := by rw [rowEntries_innerCSR o j hj, hrow]
  rw [loadRow_eq_rowEntries _ _ (by rw [hre]; unfold Uniq; simp), hre]

/-- Dirichlet mode: the final working row of row `j` is the stored row -/
theorem W_innerCSR_dirichlet (o : Op K) (hbc : o.bc = true) (j : Nat) (hj : j < o.nt) :
    W (innerCSR o) j = [(j, 1)] := by
  unfold W
  rw [loadRow_innerCSR_dirichlet o hbc j hj]
  exact elimRow_single _ j 1 j (Nat.le_refl _)

/-- Dirichlet mode: row `j` of U is `[(j, 1)]` -/
theorem U_innerCSR_dirichlet (o : Op K) (hbc : o.bc = true) (j : Nat) (hj : j < o.nt) :
    (factorRows (innerCSR o)).2.getD j [] = [(j, 1)] := by
  rw [factorRows_eq, U_getD _ _ j (by rw [innerCSR_rows]; exact hj), W_innerCSR_dirichlet o hbc j hj]
  simp

end SmootherCode
