import GMGProofs.Lemmas.Setup1
/-!
# Helper lemmas for C20s — the cycle generators only touch what `setup()` provided
-/
namespace Setup
open MGCycle

/-- the recursive plain cycle on level `d` (`fuel = levels - 1 - d`): fine as soon as level `d` has a plain smoother
    (automatic for `d ≠ 0`), `x`, `tmp` are writable and `rhs` is readable -/
theorem plain_ok (c : Cfg) (cy : MGCycle.Cfg) (hl : cy.levels = c.levels) :
    ∀ (fuel : Nat) (k : Kind) (d : Nat) (x rhs tmp : Ref), d + fuel = c.levels - 1 →
      (d = 0 → (opsAt c 0).smoother = true) → wref c x → rref c rhs → wref c tmp →
      progOK c (plain cy k fuel d x rhs tmp) = true := by
  intro fuel
  induction fuel with
  | zero => intros; rfl
  | succ fuel ih =>
    intro k d x rhs tmp hd h0 hx hr ht
    have hsm : (opsAt c d).smoother = true := by
      by_cases e : d = 0
      · subst e; exact h0 rfl
      · exact ops_smoother_mid c d e (by omega)
    have hd1 : d + 1 < c.levels := by omega
    have wres : wref c (d + 1, .res) := ⟨hd1, by simp⟩
    have werr : wref c (d + 1, .err) := ⟨hd1, by simp⟩
    have wsol : wref c (d + 1, .sol) := ⟨hd1, by simp⟩
    have hrec : ∀ k', progOK c (plain cy k' fuel (d + 1) (d + 1, .res) (d + 1, .err) (d + 1, .sol)) = true :=
      fun k' => ih k' (d + 1) _ _ _ (by omega) (by omega) wres werr.rref wsol
    have hS : instrOK c (.smooth d x rhs tmp) = true := ok_smooth hsm hx hr ht
    simp only [plain, progOK_append, progOK_cons, progOK_nil, progOK_replicate _ _ _ hS,
      ok_residual ht hr hx.rref, ok_prolong ht wres.rref, ok_add hx ht.rref, Bool.and_true, Bool.true_and]
    split
    · next e =>
      simp only [progOK_cons, progOK_nil, ok_restrict wres ht.rref,
        ok_directSolve (ops_direct_last c (d + 1) (by omega) (by omega)) wres, Bool.and_true]
    · simp only [progOK_cons, progOK_nil, progOK_append, ok_restrict werr ht.rref, ok_zero wres, Bool.true_and]
      cases k <;> simp [progOK_append, hrec]

/-! ### level 0: which smoother the mode provides -/

theorem ops0_smoother_none (c : Cfg) (hm : c.extrapMode = 0) : (opsAt c 0).smoother = true := by
  simp [opsAt, hm]

theorem ops0_smoother_fgs (c : Cfg) (fgs : Bool) (hf : fgsConsistent c.extrapMode fgs = true) (h : fgs = true) :
    (opsAt c 0).smoother = true := by
  subst h
  unfold fgsConsistent at hf
  unfold opsAt
  simp only [if_true]
  generalize c.extrapMode = m at *
  match m with
  | 0 | 1 | 2 | 3 | n + 4 => simp_all

theorem ops0_exSmoother_nofgs (c : Cfg) (fgs : Bool) (hm : c.extrapMode ≠ 0)
    (hf : fgsConsistent c.extrapMode fgs = true) (h : fgs = false) : (opsAt c 0).exSmoother = true := by
  subst h
  unfold fgsConsistent at hf
  unfold opsAt
  simp only [if_true]
  generalize c.extrapMode = m at *
  match m, hm with
  | 0, hm => exact absurd rfl hm
  | 1, _ | 2, _ | 3, _ | n + 4, _ => simp_all

theorem exSm_ok (c : Cfg) (fgs : Bool) (hm : c.extrapMode ≠ 0) (hf : fgsConsistent c.extrapMode fgs = true)
    {x rhs tmp : Ref} (hx : wref c x) (hr : rref c rhs) (ht : wref c tmp) :
    instrOK c (exSm fgs 0 x rhs tmp) = true := by
  cases fgs with
  | false => simpa [exSm] using ok_exSmooth (ops0_exSmoother_nofgs c false hm hf rfl) hx hr ht
  | true => simpa [exSm] using ok_smooth (ops0_smoother_fgs c true hf rfl) hx hr ht

/-- the implicitly extrapolated cycle on level 0 with the level's own vectors -/
theorem extrap_ok (c : Cfg) (cy : MGCycle.Cfg) (hl : cy.levels = c.levels) (h2 : 2 ≤ c.levels) (k : Kind) (fgs : Bool)
    (hm : c.extrapMode ≠ 0) (hf : fgsConsistent c.extrapMode fgs = true) :
    progOK c (extrap cy k fgs 0 (0, .sol) (0, .rhs) (0, .res)) = true := by
  have hr2 := rhsLevels_two c h2 hm
  have w0s : wref c (0, .sol) := ⟨by omega, by simp⟩
  have w0r : wref c (0, .res) := ⟨by omega, by simp⟩
  have r0 : rref c (0, .rhs) := ⟨by omega, fun _ => by show 0 < rhsLevels c; omega⟩
  have r1 : rref c (1, .rhs) := ⟨by omega, fun _ => by show 1 < rhsLevels c; omega⟩
  have w1s : wref c (1, .sol) := ⟨by omega, by simp⟩
  have w1r : wref c (1, .res) := ⟨by omega, by simp⟩
  have w1e : wref c (1, .err) := ⟨by omega, by simp⟩
  have hS := exSm_ok c fgs hm hf w0s r0 w0r
  have hrec : ∀ k', progOK c (plain cy k' (cy.levels - 2) 1 (1, .res) (1, .err) (1, .sol)) = true :=
    fun k' => plain_ok c cy hl _ k' 1 _ _ _ (by omega) (by omega) w1r w1e.rref w1s
  simp only [extrap, progOK_append, progOK_cons, progOK_nil, progOK_replicate _ _ _ hS, Nat.zero_add,
    ok_exProlong w0r w1r.rref, ok_add w0s w0r.rref, Bool.and_true, Bool.true_and]
  split
  · next e =>
    simp only [progOK_cons, progOK_nil, ok_residual w0r r0 w0s.rref, ok_exRestrict w1r w0r.rref,
      ok_inject w1s w0s.rref, ok_residual w1e r1 w1s.rref, ok_lin43 w1r w1e.rref,
      ok_directSolve (ops_direct_last c 1 (by omega) (by omega)) w1r, Bool.and_true]
  · simp only [progOK_cons, progOK_nil, progOK_append, ok_residual w0r r0 w0s.rref, ok_exRestrict w1e w0r.rref,
      ok_inject w1s w0s.rref, ok_residual w1r r1 w1s.rref, ok_lin43 w1e w1r.rref, ok_zero w1r, Bool.true_and]
    cases k <;> simp [progOK_append, hrec]

/-- one top-level cycle on level 0 -/
theorem cycleAt0_ok (c : Cfg) (cy : MGCycle.Cfg) (hl : cy.levels = c.levels) (h2 : 2 ≤ c.levels) (k : Kind) (fgs : Bool)
    (hf : fgsConsistent c.extrapMode fgs = true) :
    progOK c (cycleAt cy k (c.extrapMode != 0) fgs 0) = true := by
  have h1 := rhsLevels_pos c h2
  by_cases hm : c.extrapMode = 0
  · have : (c.extrapMode != 0) = false := by simp [hm]
    rw [cycleAt, this]
    exact plain_ok c cy hl _ k 0 _ _ _ (by omega) (fun _ => ops0_smoother_none c hm) ⟨by omega, by simp⟩
      ⟨by omega, fun _ => by show 0 < rhsLevels c; omega⟩ ⟨by omega, by simp⟩
  · have : (c.extrapMode != 0) = true := by simp [hm]
    rw [cycleAt, this]
    exact extrap_ok c cy hl h2 k fgs hm hf

/-- a plain cycle on a level `d ≥ 1` inside the FMG start-up (all right-hand sides built) -/
theorem cycleAt_plain_ok (c : Cfg) (cy : MGCycle.Cfg) (hl : cy.levels = c.levels) (k : Kind) (fgs : Bool) (d : Nat)
    (hd : d + 1 < c.levels) (hr : d < rhsLevels c) (h0 : d = 0 → (opsAt c 0).smoother = true) :
    progOK c (cycleAt cy k false fgs d) = true := by
  simp only [cycleAt, Bool.false_eq_true, if_false]
  exact plain_ok c cy hl _ k d _ _ _ (by omega) h0 ⟨by omega, by simp⟩ ⟨by omega, fun _ => hr⟩ ⟨by omega, by simp⟩

/-- the prolongation loop of the FMG start-up from level `cur` down to level 0 -/
theorem fmgLoop_ok (c : Cfg) (cy : MGCycle.Cfg) (hl : cy.levels = c.levels) (h2 : 2 ≤ c.levels) (hfmg : c.fmg = true)
    (fk : Kind) (fi : Nat) (fgs : Bool) (hf : fgsConsistent c.extrapMode fgs = true) :
    ∀ cur, cur < c.levels → progOK c (fmgLoop cy fk fi (c.extrapMode != 0) fgs cur) = true := by
  have hrl := rhsLevels_fmg c hfmg
  intro cur
  induction cur with
  | zero => intro _; rfl
  | succ cur ih =>
    intro hc
    have hI : instrOK c (.fmgInterp (cur + 1) (cur, .sol) (cur + 1, .sol)) = true :=
      ok_fmgInterp ⟨by omega, by simp⟩ (wref.rref ⟨hc, by simp⟩)
    have hC : progOK c (cycleAt cy fk (decide ((c.extrapMode != 0) = true ∧ cur = 0)) fgs cur) = true := by
      by_cases e : cur = 0
      · subst e
        have e' : ∀ b : Bool, decide (b = true ∧ (0 : Nat) = 0) = b := by intro b; cases b <;> rfl
        rw [e']
        exact cycleAt0_ok c cy hl h2 fk fgs hf
      · have : decide ((c.extrapMode != 0) = true ∧ cur = 0) = false := by simp [e]
        rw [this]
        exact cycleAt_plain_ok c cy hl fk fgs cur (by omega) (by omega) (fun h => absurd h e)
    simp only [fmgLoop, progOK_append, progOK_cons, progOK_nil, hI, progOK_replicate_flatten _ _ _ hC,
      ih (by omega), Bool.and_true]

end Setup
