import GMGModel.Interp
import GMGProofs.Lemmas.FieldScalar
import GMGProofs.Lemmas.InterpSums
import Mathlib.Tactic.Ring
/-!
# Adjointness of `prolong` / `restrict` (C08)

`prolong` is the tensor product of a radial two-point rule `Pr` (non-periodic, `2m+1` fine nodes) and an
angular two-point rule `Pt` (periodic, `2q` fine nodes), `restrict` the tensor product of `Rr` and `Rt`.
Each 1-D pair is adjoint (pure field identity: every quotient appears identically on both sides, no
denominator is assumed non-zero), and the 2-D statement follows by exchanging the order of summation.
-/
open Finset InterpSums

namespace Interp

/-- standing hypotheses on a fine/coarse pair: `nrF` odd, `≥ 3`; `ntF` even, `≥ 4` -/
structure Admissible {α : Type} (p : Pair α) : Prop where
  nr_odd : p.nrF % 2 = 1
  nr_ge : 3 ≤ p.nrF
  nt_even : p.ntF % 2 = 0
  nt_ge : 4 ≤ p.ntF

theorem Admissible.exists_mq {α : Type} {p : Pair α} (h : Admissible p) :
    ∃ m q, 1 ≤ m ∧ 2 ≤ q ∧ p.nrF = 2 * m + 1 ∧ p.ntF = 2 * q ∧ nrC p = m + 1 ∧ ntC p = q := by
  obtain ⟨h1, h2, h3, h4⟩ := h
  refine ⟨p.nrF / 2, p.ntF / 2, ?_, ?_, ?_, ?_, ?_, ?_⟩ <;> (try simp only [nrC, ntC]) <;> omega

variable {K : Type} [_root_.Field K]

/-! ### the four 1-D rules -/

/-- radial prolongation with the code's weights (`h (i-1)` on the left value, `h i` on the right value) -/
def Pr (h u : ℕ → K) (i : ℕ) : K :=
  if i % 2 = 1 then (h (i - 1) * u (i / 2) + h i * u (i / 2 + 1)) / (h (i - 1) + h i) else u (i / 2)

/-- angular prolongation, periodic: `nt` fine nodes, `ntc` coarse nodes -/
def Pt (nt ntc : ℕ) (k v : ℕ → K) (j : ℕ) : K :=
  if j % 2 = 1 then
    (k ((j + nt - 1) % nt) * v (j / 2) + k j * v ((j / 2 + 1) % ntc)) / (k ((j + nt - 1) % nt) + k j)
  else v (j / 2)

/-- radial restriction: centre, left part for `I > 0`, right part for `I + 1 < nc` -/
def Rr (nc : ℕ) (h w : ℕ → K) (I : ℕ) : K :=
  w (2 * I) + (if I > 0 then h (2 * I - 1) * w (2 * I - 1) / (h (2 * I - 2) + h (2 * I - 1)) else 0)
    + (if I + 1 < nc then h (2 * I) * w (2 * I + 1) / (h (2 * I) + h (2 * I + 1)) else 0)

/-- angular restriction, periodic -/
def Rt (nt : ℕ) (k z : ℕ → K) (J : ℕ) : K :=
  z (2 * J)
    + k ((2 * J + nt - 1) % nt) * z ((2 * J + nt - 1) % nt) / (k ((2 * J + nt - 2) % nt) + k ((2 * J + nt - 1) % nt))
    + k (2 * J) * z ((2 * J + 1) % nt) / (k (2 * J) + k ((2 * J + 1) % nt))

/-! ### the model operators are the tensor products -/

theorem prolong_eq_tensor (p : Pair K) (x : Field K) (i j : ℕ) :
    prolong p x i j = Pr p.hF (fun I => Pt p.ntF (ntC p) p.kF (x I) j) i := by
  simp only [prolong, Pr, Pt, wF, wC]
  split_ifs
  all_goals try simp only [div_eq_mul_inv, mul_inv]
  all_goals try ring

theorem restrict_eq_tensor (p : Pair K) (y : Field K) (I J : ℕ) :
    restrict p y I J = Rr (nrC p) p.hF (fun i => Rt p.ntF p.kF (y i) J) I := by
  simp only [restrict, Rr, Rt, wF]
  split_ifs
  all_goals try simp only [div_eq_mul_inv, mul_inv]
  all_goals try ring

theorem Rt_Rr_comm (nt nc : ℕ) (k h : ℕ → K) (y : Field K) (I J : ℕ) :
    Rt nt k (fun j => Rr nc h (fun i => y i j) I) J = Rr nc h (fun i => Rt nt k (y i) J) I := by
  simp only [Rr, Rt]
  split_ifs <;> ring

/-! ### 1-D adjointness -/

theorem Pr_even (h u : ℕ → K) (I : ℕ) : Pr h u (2 * I) = u I := by
  have h1 : ¬ (2 * I) % 2 = 1 := by omega
  have h2 : 2 * I / 2 = I := by omega
  simp [Pr, h2]

theorem Pr_odd (h u : ℕ → K) (I : ℕ) :
    Pr h u (2 * I + 1) = (h (2 * I) * u I + h (2 * I + 1) * u (I + 1)) / (h (2 * I) + h (2 * I + 1)) := by
  have h1 : (2 * I + 1) % 2 = 1 := by omega
  have h2 : (2 * I + 1) / 2 = I := by omega
  simp [Pr, h1, h2]

/-- radial (non-periodic) adjointness, any `m` -/
theorem adjoint_r (m : ℕ) (h u w : ℕ → K) :
    ∑ i ∈ range (2 * m + 1), Pr h u i * w i = ∑ I ∈ range (m + 1), u I * Rr (m + 1) h w I := by
  rw [sum_odd_split (fun i => Pr h u i * w i) m]
  simp only [Pr_even, Pr_odd]
  simp only [Rr, mul_add, Finset.sum_add_distrib, mul_ite, mul_zero]
  rw [sum_left (fun I => u I * (h (2 * I - 1) * w (2 * I - 1) / (h (2 * I - 2) + h (2 * I - 1)))) m,
    sum_right (fun I => u I * (h (2 * I) * w (2 * I + 1) / (h (2 * I) + h (2 * I + 1)))) m,
    add_assoc, ← Finset.sum_add_distrib]
  congr 1
  apply Finset.sum_congr rfl
  intro I _
  have q1 : 2 * (I + 1) - 1 = 2 * I + 1 := by omega
  have q2 : 2 * (I + 1) - 2 = 2 * I := by omega
  rw [q1, q2]
  ring

theorem Pt_even (nt ntc : ℕ) (k v : ℕ → K) (J : ℕ) : Pt nt ntc k v (2 * J) = v J := by
  have h1 : ¬ (2 * J) % 2 = 1 := by omega
  have h2 : 2 * J / 2 = J := by omega
  simp [Pt, h2]

theorem Pt_odd (q : ℕ) (k v : ℕ → K) (J : ℕ) (hJ : J < q) :
    Pt (2 * q) q k v (2 * J + 1)
      = (k (2 * J) * v J + k (2 * J + 1) * v ((J + 1) % q)) / (k (2 * J) + k (2 * J + 1)) := by
  have h1 : (2 * J + 1) % 2 = 1 := by omega
  have h2 : (2 * J + 1) / 2 = J := by omega
  rw [Pt, if_pos h1, h2, wrapM1_odd J q hJ]

/-- angular (periodic) adjointness, any `q` -/
theorem adjoint_t (q : ℕ) (k v z : ℕ → K) :
    ∑ j ∈ range (2 * q), Pt (2 * q) q k v j * z j = ∑ J ∈ range q, v J * Rt (2 * q) k z J := by
  rw [sum_even_split (fun j => Pt (2 * q) q k v j * z j) q]
  have od : ∀ J ∈ range q, Pt (2 * q) q k v (2 * J + 1) * z (2 * J + 1)
      = (k (2 * J) * v J + k (2 * J + 1) * v ((J + 1) % q)) / (k (2 * J) + k (2 * J + 1)) * z (2 * J + 1) := by
    intro J hJ
    rw [Pt_odd q k v J (by simpa using hJ)]
  rw [Finset.sum_congr rfl od]
  simp only [Pt_even]
  -- the `θ-1` part of the restriction, as a function of the coarse index
  let G : ℕ → K := fun J => v J * (k ((2 * J + 2 * q - 1) % (2 * q)) * z ((2 * J + 2 * q - 1) % (2 * q))
      / (k ((2 * J + 2 * q - 2) % (2 * q)) + k ((2 * J + 2 * q - 1) % (2 * q))))
  have hG : ∑ J ∈ range q, G J
      = ∑ J ∈ range q, v ((J + 1) % q) * (k (2 * J + 1) * z (2 * J + 1) / (k (2 * J) + k (2 * J + 1))) := by
    rw [← sum_shift q G]
    apply Finset.sum_congr rfl
    intro J hJ
    have hJ' : J < q := by simpa using hJ
    simp only [G, wrapM1_succ J q hJ', wrapM2_succ J q hJ']
  have rhs : ∀ J ∈ range q, v J * Rt (2 * q) k z J
      = v J * z (2 * J) + G J + v J * (k (2 * J) * z (2 * J + 1) / (k (2 * J) + k (2 * J + 1))) := by
    intro J hJ
    have hJ' : J < q := by simpa using hJ
    simp only [Rt, G, wrapP1 J q hJ']
    ring
  rw [Finset.sum_congr rfl rhs, Finset.sum_add_distrib, Finset.sum_add_distrib, hG]
  simp only [← Finset.sum_add_distrib]
  apply Finset.sum_congr rfl
  intro J _
  ring

/-! ### 2-D adjointness -/

theorem adjoint_mq (p : Pair K) (m q : ℕ) (hnr : p.nrF = 2 * m + 1) (hnt : p.ntF = 2 * q) (x y : Field K) :
    ∑ i ∈ range p.nrF, ∑ j ∈ range p.ntF, prolong p x i j * y i j
      = ∑ I ∈ range (nrC p), ∑ J ∈ range (ntC p), x I J * restrict p y I J := by
  have hc : nrC p = m + 1 := by unfold nrC; omega
  have hq : ntC p = q := by unfold ntC; omega
  simp only [prolong_eq_tensor, restrict_eq_tensor, hc, hq, hnr, hnt]
  rw [Finset.sum_comm]
  have s1 : ∀ j ∈ range (2 * q),
      ∑ i ∈ range (2 * m + 1), Pr p.hF (fun I => Pt (2 * q) q p.kF (x I) j) i * y i j
        = ∑ I ∈ range (m + 1), Pt (2 * q) q p.kF (x I) j * Rr (m + 1) p.hF (fun i => y i j) I := by
    intro j _
    exact adjoint_r m p.hF (fun I => Pt (2 * q) q p.kF (x I) j) (fun i => y i j)
  rw [Finset.sum_congr rfl s1, Finset.sum_comm]
  apply Finset.sum_congr rfl
  intro I _
  rw [adjoint_t q p.kF (x I) (fun j => Rr (m + 1) p.hF (fun i => y i j) I)]
  apply Finset.sum_congr rfl
  intro J _
  rw [Rt_Rr_comm]

end Interp
