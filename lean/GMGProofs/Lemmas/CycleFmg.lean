import GMGProofs.Lemmas.CycleSpec
/-!
# FMG start-up (`initializeSolution`) refines nested iteration
core Lean only.
-/
namespace MGCycle
variable {V : Type}

/-- the extrapolated cycle is used on level 0 only -/
def exAt (ex : Bool) (cur : Nat) : Bool := decide (ex = true ∧ cur = 0)

theorem exAt_level (ex : Bool) (cur : Nat) : exAt ex cur = true → cur = 0 := by
  unfold exAt; intro h; exact (of_decide_eq_true h).2

/-- nested iteration from level `cur` (iterate `s` there) down to level 0, the right-hand sides being `g l` -/
def fmgSpec (o : Ops V) (c : Cfg) (fk : Kind) (fi : Nat) (ex fgs : Bool) (g : Nat → V) : (cur : Nat) → V → V
  | 0, s => s
  | cur + 1, s =>
      fmgSpec o c fk fi ex fgs g cur
        (iter (cycleSpec o c fk (exAt ex cur) fgs g cur) fi (o.fmgInterp (cur + 1) s))

@[simp] theorem fmgLoop_zero (c : Cfg) (fk : Kind) (fi : Nat) (ex fgs : Bool) : fmgLoop c fk fi ex fgs 0 = [] := rfl

theorem fmgLoop_succ (c : Cfg) (fk : Kind) (fi : Nat) (ex fgs : Bool) (cur : Nat) :
    fmgLoop c fk fi ex fgs (cur + 1) =
      [.fmgInterp (cur + 1) (cur, .sol) (cur + 1, .sol)] ++
      ((List.replicate fi (cycleAt c fk (exAt ex cur) fgs cur)).flatten ++ fmgLoop c fk fi ex fgs cur) := by
  simp [fmgLoop, exAt]

/-- no instruction of the start-up writes a right-hand side -/
theorem fmgLoop_writes (c : Cfg) (fk : Kind) (fi : Nat) (ex fgs : Bool) :
    ∀ cur, WritesIn (fmgLoop c fk fi ex fgs cur) (fun w => w.2 ≠ Buf.rhs)
  | 0 => WritesIn.nil _
  | cur + 1 => by
      rw [fmgLoop_succ]
      refine WritesIn.append ?_ (WritesIn.append (WritesIn.flatten_replicate _ ?_) (fmgLoop_writes c fk fi ex fgs cur))
      · intro i hi w hw; simp at hi; subst hi; simp [writes] at hw; subst hw; simp
      · refine (cycleAt_writes c fk _ fgs cur (exAt_level ex cur)).mono ?_
        rintro w (h | h | h)
        · rw [h]; simp
        · rw [h]; simp
        · exact h.2

theorem initSolution_writes (c : Cfg) (fmg : Bool) (fk : Kind) (fi : Nat) (ex fgs : Bool) (start : Nat) :
    WritesIn (initSolution c fmg fk fi ex fgs start) (fun w => w.2 ≠ Buf.rhs) := by
  unfold initSolution
  split
  · intro i hi w hw; simp at hi; subst hi; simp [writes] at hw; subst hw; simp
  · refine WritesIn.append ?_ (fmgLoop_writes c fk fi ex fgs start)
    intro i hi w hw
    simp at hi
    rcases hi with h | h <;> subst h <;> simp [writes] at hw <;> subst hw <;> simp

theorem initSolution_rhs (o : Ops V) (c : Cfg) (fmg : Bool) (fk : Kind) (fi : Nat) (ex fgs : Bool) (start : Nat)
    (m : Mem V) (l : Nat) : exec o (initSolution c fmg fk fi ex fgs start) m (l, .rhs) = m (l, .rhs) :=
  exec_frame o _ m _ (initSolution_writes c fmg fk fi ex fgs start) (by simp)

theorem cycleAt_rhs (o : Ops V) (c : Cfg) (k : Kind) (ex fgs : Bool) (d : Nat) (hd : ex = true → d = 0)
    (m : Mem V) (l : Nat) : exec o (cycleAt c k ex fgs d) m (l, .rhs) = m (l, .rhs) :=
  cycleAt_frame o c k ex fgs d hd m _ (ref_ne_of_buf (by decide)) (ref_ne_of_buf (by decide)) (Or.inr rfl)

theorem fmgLoop_val (o : Ops V) (c : Cfg) (fk : Kind) (fi : Nat) (ex fgs : Bool) :
    ∀ (cur : Nat) (m : Mem V),
      exec o (fmgLoop c fk fi ex fgs cur) m (0, .sol) =
        fmgSpec o c fk fi ex fgs (fun l => m (l, .rhs)) cur (m (cur, .sol))
  | 0, m => by simp [fmgSpec]
  | cur + 1, m => by
      rw [fmgLoop_succ]
      simp only [exec_append, fmgSpec]
      have a1 : exec o [.fmgInterp (cur + 1) (cur, .sol) (cur + 1, .sol)] m (cur, .sol) =
          o.fmgInterp (cur + 1) (m (cur + 1, .sol)) := by simp [stepI]
      have a2 : ∀ l, exec o [.fmgInterp (cur + 1) (cur, .sol) (cur + 1, .sol)] m (l, .rhs) = m (l, .rhs) := by
        intro l; simp [stepI, upd_ne _ (q := (l, Buf.rhs)) (r := (cur, Buf.sol)) _ (ref_ne_of_buf (by decide))]
      generalize exec o [.fmgInterp (cur + 1) (cur, .sol) (cur + 1, .sol)] m = m1 at a1 a2 ⊢
      obtain ⟨b1, b2⟩ := exec_flatten_replicate_val o (cycleAt c fk (exAt ex cur) fgs cur) (cur, .sol)
        (cycleSpec o c fk (exAt ex cur) fgs (fun l => m (l, .rhs)) cur)
        (fun m' => ∀ l, m' (l, .rhs) = m (l, .rhs))
        (fun m' h l => by rw [cycleAt_rhs o c fk _ fgs cur (exAt_level ex cur)]; exact h l)
        (fun m' h => by
          rw [cycleAt_val o c fk _ fgs cur (exAt_level ex cur)]
          have : (fun l => m' (l, Buf.rhs)) = fun l => m (l, Buf.rhs) := funext h
          rw [this])
        fi m1 a2
      generalize exec o (List.replicate fi (cycleAt c fk (exAt ex cur) fgs cur)).flatten m1 = m2 at b1 b2 ⊢
      rw [fmgLoop_val o c fk fi ex fgs cur m2, b1, a1]
      have : (fun l => m2 (l, Buf.rhs)) = fun l => m (l, Buf.rhs) := funext b2
      rw [this]

/-- the whole start-up with the (corrected) start level `levels - 1` -/
theorem initSolution_val (o : Ops V) (c : Cfg) (fk : Kind) (fi : Nat) (ex fgs : Bool) (m : Mem V) :
    exec o (initSolution c true fk fi ex fgs (c.levels - 1)) m (0, .sol) =
      fmgSpec o c fk fi ex fgs (fun l => m (l, .rhs)) (c.levels - 1)
        (o.solve (c.levels - 1) (m (c.levels - 1, .rhs))) := by
  simp only [initSolution, Bool.not_true, Bool.false_eq_true, if_false, exec_append]
  have a1 : exec o [.copy (c.levels - 1, .sol) (c.levels - 1, .rhs), .directSolve (c.levels - 1) (c.levels - 1, .sol)] m
      (c.levels - 1, .sol) = o.solve (c.levels - 1) (m (c.levels - 1, .rhs)) := by simp [stepI]
  have a2 : ∀ l, exec o [.copy (c.levels - 1, .sol) (c.levels - 1, .rhs), .directSolve (c.levels - 1) (c.levels - 1, .sol)] m
      (l, .rhs) = m (l, .rhs) := by
    intro l
    simp [stepI, upd_ne _ (q := (l, Buf.rhs)) (r := (c.levels - 1, Buf.sol)) _ (ref_ne_of_buf (by decide))]
  generalize exec o [.copy (c.levels - 1, .sol) (c.levels - 1, .rhs), .directSolve (c.levels - 1) (c.levels - 1, .sol)] m
    = m1 at a1 a2 ⊢
  rw [fmgLoop_val, a1]
  have : (fun l => m1 (l, Buf.rhs)) = fun l => m (l, Buf.rhs) := funext a2
  rw [this]

theorem initSolution_nofmg (o : Ops V) (c : Cfg) (fk : Kind) (fi : Nat) (ex fgs : Bool) (start : Nat) (m : Mem V) :
    exec o (initSolution c false fk fi ex fgs start) m (0, .sol) = o.zero 0 := by
  simp [initSolution, stepI]

end MGCycle
