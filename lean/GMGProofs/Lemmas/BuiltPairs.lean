import GMGModel.Build
import GMGProofs.Lemmas.InterpPointwise
import GMGProofs.Lemmas.InputsOK
/-!
# Pairs built from level grids (`Build.pairOf`): shape, and positivity of the spacings on the index range only

`Interp.PosSpacing` asks for positive spacings at EVERY index; a built pair has them only where the grid has nodes.
`prolong_convex_local` is `prolong_convex_weights` with the positivity asked only of the spacings the node `(i, j)` reads.
-/
namespace Interp
section Ordered
variable {K : Type} [_root_.Field K] [LinearOrder K] [IsStrictOrderedRing K]

/-- `prolong` at the fine node `(i, j)` is a convex combination of the four surrounding coarse values as soon as the spacings
    READ at that node are positive: `hF (i-1)`, `hF i` if `i` is odd, `kF (j-1 wrapped)`, `kF j` if `j` is odd -/
theorem prolong_convex_local (p : Pair K) (i j : ℕ)
    (hh : i % 2 = 1 → 0 < p.hF (i - 1) ∧ 0 < p.hF i)
    (hkk : j % 2 = 1 → 0 < p.kF (wF p (j + p.ntF - 1)) ∧ 0 < p.kF j) :
    ∃ w00 w10 w01 w11 : K, 0 ≤ w00 ∧ 0 ≤ w10 ∧ 0 ≤ w01 ∧ 0 ≤ w11 ∧ w00 + w10 + w01 + w11 = 1 ∧
      ∀ x : Field K, prolong p x i j = w00 * x (i / 2) (j / 2) + w10 * x (i / 2 + 1) (j / 2)
        + w01 * x (i / 2) (wC p (j / 2 + 1)) + w11 * x (i / 2 + 1) (wC p (j / 2 + 1)) := by
  by_cases ci : i % 2 = 1 <;> by_cases cj : j % 2 = 1
  · obtain ⟨h1, h2⟩ := hh ci
    obtain ⟨k1, k2⟩ := hkk cj
    have hh : p.hF (i - 1) + p.hF i ≠ 0 := by positivity
    have hk : p.kF (wF p (j + p.ntF - 1)) + p.kF j ≠ 0 := by positivity
    refine ⟨p.hF (i - 1) * p.kF (wF p (j + p.ntF - 1)) / ((p.hF (i - 1) + p.hF i) * (p.kF (wF p (j + p.ntF - 1)) + p.kF j)),
      p.hF i * p.kF (wF p (j + p.ntF - 1)) / ((p.hF (i - 1) + p.hF i) * (p.kF (wF p (j + p.ntF - 1)) + p.kF j)),
      p.hF (i - 1) * p.kF j / ((p.hF (i - 1) + p.hF i) * (p.kF (wF p (j + p.ntF - 1)) + p.kF j)),
      p.hF i * p.kF j / ((p.hF (i - 1) + p.hF i) * (p.kF (wF p (j + p.ntF - 1)) + p.kF j)),
      by positivity, by positivity, by positivity, by positivity, ?_, ?_⟩
    · field_simp; ring
    · intro x; simp only [prolong, ci, cj, if_true]; field_simp
  · obtain ⟨h1, h2⟩ := hh ci
    have hh : p.hF (i - 1) + p.hF i ≠ 0 := by positivity
    refine ⟨p.hF (i - 1) / (p.hF (i - 1) + p.hF i), p.hF i / (p.hF (i - 1) + p.hF i), 0, 0,
      by positivity, by positivity, le_refl _, le_refl _, ?_, ?_⟩
    · field_simp; ring
    · intro x; simp only [prolong, ci, cj, if_true, if_false]; field_simp; ring
  · obtain ⟨k1, k2⟩ := hkk cj
    have hk : p.kF (wF p (j + p.ntF - 1)) + p.kF j ≠ 0 := by positivity
    refine ⟨p.kF (wF p (j + p.ntF - 1)) / (p.kF (wF p (j + p.ntF - 1)) + p.kF j), 0,
      p.kF j / (p.kF (wF p (j + p.ntF - 1)) + p.kF j), 0,
      by positivity, le_refl _, by positivity, le_refl _, ?_, ?_⟩
    · field_simp; ring
    · intro x; simp only [prolong, ci, cj, if_true, if_false]; field_simp; ring
  · refine ⟨1, 0, 0, 0, zero_le_one, le_refl _, le_refl _, le_refl _, by ring, ?_⟩
    intro x; simp only [prolong, ci, cj, if_false]; ring

end Ordered
end Interp

namespace Build
open Interp Cache
section
variable {K : Type} [_root_.Field K]

theorem pairOf_admissible (GF GC : GridData K) (hodd : GF.g.nr % 2 = 1) (hnr : 3 ≤ GF.g.nr) (heven : GF.g.nt % 2 = 0)
    (hnt : 4 ≤ GF.g.nt) : Admissible (pairOf GF GC) := ⟨hodd, hnr, heven, hnt⟩

@[simp] theorem nrC_pairOf (GF GC : GridData K) : nrC (pairOf GF GC) = (GF.g.nr + 1) / 2 := rfl
@[simp] theorem ntC_pairOf (GF GC : GridData K) : ntC (pairOf GF GC) = GF.g.nt / 2 := rfl

variable [LinearOrder K] [IsStrictOrderedRing K]

/-- radial spacings of a built pair are positive on the index range of the fine grid -/
theorem pairOf_hF_pos (GF GC : GridData K) (hinc : ∀ i, i + 1 < GF.g.nr → GF.radius i < GF.radius (i + 1))
    (i : ℕ) (hi : i + 1 < GF.g.nr) : 0 < (pairOf GF GC).hF i := by
  show 0 < GF.radius (i + 1) - GF.radius i
  exact sub_pos.2 (hinc i hi)

/-- angular spacings of a built pair are positive on the index range of the fine grid (the last one is `theta nt − theta (nt−1)`) -/
theorem pairOf_kF_pos (GF GC : GridData K) (hinc : ∀ j, j < GF.g.nt → GF.theta j < GF.theta (j + 1))
    (j : ℕ) (hj : j < GF.g.nt) : 0 < (pairOf GF GC).kF j := by
  show 0 < GF.theta (j + 1) - GF.theta j
  exact sub_pos.2 (hinc j hj)

end
end Build
