import GMGProofs.Lemmas.ExSmootherGiveCode4
/-!
# Code-level extrapolated smoother (give), lemmas 5 — the off-diagonal entries

* `offEntry`, `offOf`: the matrix entry (row node, column node) an off-diagonal slot / store addresses: `sub_diagonal(q)` of an
  odd circle is the entry `((i,q),(i,q+1))`, its `cyclic_corner_element()` the entry `((i,0),(i,nt-1))`, `sub_diagonal(t)` of
  an odd radial line the entry `((nc+t,j),(nc+t+1,j))`, slot 1 of row `r` of the inner matrix the entry `((0,r),(0,ja r))`;
* `osum_node`: uniform description of the off-diagonal stores of node `(i, j)`.
-/
set_option linter.unusedSectionVars false
set_option linter.unusedVariables false
set_option linter.unusedSimpArgs false
namespace ExSmootherGiveCode
open Stencil SparseLU SmootherCode Finset
open DirectCode (Pos)
open DirectGiveCode (massValue diagValue nodeOrder)
open ExSmootherCode (innerNnz)
variable {K : Type} [_root_.Field K]

section
variable (T : Tables) (o : Op K) (nc : Nat)

/-- the off-diagonal matrix entry a slot stores: row node, column node -/
def offEntry : Arr → Nat → Option (Nat × Nat × Nat × Nat)
  | .ctSub k, q => some (2 * k + 1, q, 2 * k + 1, q + 1)
  | .ctCorner k, _ => some (2 * k + 1, 0, 2 * k + 1, o.nt - 1)
  | .rtSub k, t => some (nc + t, 2 * k + 1, nc + t + 1, 2 * k + 1)
  | .rtCorner k, _ => some (nc, 2 * k + 1, o.nr - 1, 2 * k + 1)
  | .inner r, q => if q = 1 then some (0, r, 0, ja o r) else none
  | _, _ => none

def offOf (u : Upd K) : Option (Nat × Nat × Nat × Nat) :=
  match target o nc u with
  | .slot a q => offEntry o nc a q
  | _ => none

theorem offOf_ctri (k r c : Nat) (v : K) :
    offOf o nc (.ctri k r c v) =
      if r = c then none
      else if r + 1 = c then some (2 * k + 1, r, 2 * k + 1, r + 1)
      else if r = 0 ∧ c + 1 = o.nt then some (2 * k + 1, 0, 2 * k + 1, o.nt - 1) else none := by
  have ht : target o nc (.ctri k r c v) = triTarget (.ctMain k) (.ctSub k) (.ctCorner k) o.nt r c := rfl
  unfold offOf
  rw [ht]
  unfold triTarget
  by_cases h1 : r = c
  · rw [if_pos h1, if_pos h1]; rfl
  · rw [if_neg h1, if_neg h1]
    by_cases h2 : r + 1 = c
    · rw [if_pos h2, if_pos h2]; rfl
    · rw [if_neg h2, if_neg h2]
      by_cases h3 : r = 0 ∧ c + 1 = o.nt
      · rw [if_pos h3, if_pos h3]; rfl
      · rw [if_neg h3, if_neg h3]

theorem offOf_rtri (k r c : Nat) (v : K) :
    offOf o nc (.rtri k r c v) =
      if r = c then none
      else if r + 1 = c then some (nc + r, 2 * k + 1, nc + r + 1, 2 * k + 1)
      else if r = 0 ∧ c + 1 = o.nr - nc then some (nc, 2 * k + 1, o.nr - 1, 2 * k + 1) else none := by
  have ht : target o nc (.rtri k r c v) = triTarget (.rtMain k) (.rtSub k) (.rtCorner k) (o.nr - nc) r c := rfl
  unfold offOf
  rw [ht]
  unfold triTarget
  by_cases h1 : r = c
  · rw [if_pos h1, if_pos h1]; rfl
  · rw [if_neg h1, if_neg h1]
    by_cases h2 : r + 1 = c
    · rw [if_pos h2, if_pos h2]; rfl
    · rw [if_neg h2, if_neg h2]
      by_cases h3 : r = 0 ∧ c + 1 = o.nr - nc
      · rw [if_pos h3, if_pos h3]; rfl
      · rw [if_neg h3, if_neg h3]

theorem offOf_cdiag (k r : Nat) (v : K) : offOf o nc (.cdiag k r v) = none := rfl
theorem offOf_rdiag (k r : Nat) (v : K) : offOf o nc (.rdiag k r v) = none := rfl

theorem offOf_csr (r : Nat) (off : Int) (c : Nat) (v : K) :
    offOf o nc (.csr r off c v) = if off = 1 then some (0, r, 0, ja o r) else none := by
  have ht : target o nc (.csr r off c v) = if 0 ≤ off then .slot (.inner r) off.toNat else .oob := rfl
  unfold offOf
  rw [ht]
  by_cases h : 0 ≤ off
  · rw [if_pos h]
    simp only [offEntry]
    by_cases h1 : off = 1
    · subst h1; simp
    · rw [if_neg h1, if_neg (by omega)]
  · rw [if_neg h, if_neg (by omega)]

/-- total value a list of stores addresses to the off-diagonal entry `e` -/
def osum (us : List (Upd K)) (e : Nat × Nat × Nat × Nat) : K :=
  (us.map fun u => if offOf o nc u = some e then u.val else 0).sum

@[simp] theorem osum_nil (e : Nat × Nat × Nat × Nat) : osum o nc ([] : List (Upd K)) e = 0 := rfl
@[simp] theorem osum_cons (u : Upd K) (l : List (Upd K)) (e : Nat × Nat × Nat × Nat) :
    osum o nc (u :: l) e = (if offOf o nc u = some e then u.val else 0) + osum o nc l e := by
  simp [osum]
theorem osum_append (l l' : List (Upd K)) (e : Nat × Nat × Nat × Nat) :
    osum o nc (l ++ l') e = osum o nc l e + osum o nc l' e := by
  simp [osum]

/-- the off-diagonal stores of the eight stores into the node's own odd circle -/
def cRhs (i j : Nat) (e : Nat × Nat × Nat × Nat) : K :=
  (if j = 0 ∧ (i, 0, i, o.nt - 1) = e then -(coeff3 o i j) * o.att i j else 0)
    + (if j + 1 < o.nt ∧ (i, j, i, j + 1) = e then -(coeff4 o i j) * o.att i j else 0)
    + (if 0 < j ∧ (i, j - 1, i, j) = e then -(coeff3 o i j) * o.att i j else 0)
    + (if j + 1 = o.nt ∧ (i, 0, i, o.nt - 1) = e then -(coeff4 o i j) * o.att i j else 0)

theorem osum_circleTriRows (hnt : 3 ≤ o.nt) (i j : Nat) (hj : j < o.nt) (hI : 2 * (i / 2) + 1 = i)
    (e : Nat × Nat × Nat × Nat) : osum o nc (circleTriRows o i j) e = cRhs o i j e := by
  unfold circleTriRows cRhs
  simp only [osum_cons, osum_nil, offOf_ctri, Upd.val, hI]
  rw [jm_eq o hj, jp_eq o hj]
  rcases (by omega : j = 0 ∨ (0 < j ∧ j + 1 < o.nt) ∨ (0 < j ∧ j + 1 = o.nt)) with h | h | h
  · subst h
    have e1 : ¬ (0 + 1 = o.nt) := by omega
    have e2 : ¬ (0 = o.nt - 1) := by omega
    have e3 : ¬ (0 + 1 = o.nt - 1) := by omega
    have e4 : ¬ (o.nt - 1 = 0) := by omega
    have e5 : ¬ (o.nt - 1 + 1 = 0) := by omega
    have e6 : o.nt - 1 + 1 = o.nt := by omega
    have e7 : ¬ o.nt = 0 := by omega
    have e8 : 1 < o.nt := by omega
    simp [e1, e2, e3, e4, e5, e6, e7, e8]
  · have e1 : ¬ (j = 0) := by omega
    have e2 : ¬ (j + 1 = o.nt) := by omega
    have e3 : ¬ (j = j - 1) := by omega
    have e4 : ¬ (j + 1 = j - 1) := by omega
    have e5 : j - 1 + 1 = j := by omega
    have e6 : ¬ (j - 1 = j) := by omega
    have e7 : ¬ (j + 1 + 1 = j) := by omega
    have e8 : 0 < j := h.1
    have e9 : j + 1 < o.nt := h.2
    simp [e1, e2, e3, e4, e5, e6, e7, e8, e9]
  · have e1 : ¬ (j = 0) := by omega
    have e2 : j + 1 = o.nt := h.2
    have e3 : ¬ (j = j - 1) := by omega
    have e4 : ¬ (j + 1 = j - 1) := by omega
    have e5 : j - 1 + 1 = j := by omega
    have e6 : ¬ (j - 1 = j) := by omega
    have e7 : 0 < j := h.1
    have e8 : ¬ (j + 1 < o.nt) := by omega
    have e9 : ¬ (0 + 1 = j) := by omega
    have e10 : ¬ (0 = j) := by omega
    have e11 : ¬ o.nt = j - 1 := by omega
    have e12 : ¬ o.nt = 0 := by omega
    simp [e1, e2, e3, e4, e5, e6, e7, e8, e9, e10, e11, e12]

/-- what node `(i, j)` adds to the off-diagonal entry `e` -/
def oRhs (i j : Nat) (e : Nat × Nat × Nat × Nat) : K :=
  (if (i % 2 = 1 ∧ 0 < i ∧ i < nc) ∧ j = 0 ∧ (i, 0, i, o.nt - 1) = e then -(coeff3 o i j) * o.att i j else 0)
    + (if (i % 2 = 1 ∧ 0 < i ∧ i < nc) ∧ j + 1 < o.nt ∧ (i, j, i, j + 1) = e then -(coeff4 o i j) * o.att i j else 0)
    + (if (i % 2 = 1 ∧ 0 < i ∧ i < nc) ∧ 0 < j ∧ (i, j - 1, i, j) = e then -(coeff3 o i j) * o.att i j else 0)
    + (if (i % 2 = 1 ∧ 0 < i ∧ i < nc) ∧ j + 1 = o.nt ∧ (i, 0, i, o.nt - 1) = e then -(coeff4 o i j) * o.att i j else 0)
    + (if j % 2 = 1 ∧ nc ≤ i ∧ i + 2 < o.nr ∧ (i, j, i + 1, j) = e then -(coeff2 o i j) * o.arr i j else 0)
    + (if j % 2 = 1 ∧ nc < i ∧ i + 1 < o.nr ∧ (i - 1, j, i, j) = e then -(coeff1 o i j) * o.arr i j else 0)
    + (if i = 0 ∧ o.bc = false ∧ j % 2 = 1 ∧ (0, j, 0, ja o j) = e then -(coeff1 o i j) * o.arr i j else 0)
    + (if i = 0 ∧ o.bc = false ∧ j % 2 = 1 ∧ (0, ja o j, 0, ja o (ja o j)) = e then -(coeff1 o i j) * o.arr i j else 0)

set_option maxHeartbeats 4000000 in
/-- **uniform description of the off-diagonal stores of node `(i, j)`** -/
theorem osum_node (hT : GoodTables T) (hnc : 3 ≤ nc) (hnr : nc + 3 ≤ o.nr) (hodd : o.nr % 2 = 1)
    (hnt : 3 ≤ o.nt) (heven : o.nt % 2 = 0) (i j r1 r2 c1 c2 : Nat) (hi : i < o.nr) (hj : j < o.nt) :
    osum o nc (nodeUpdates T o nc i j) (r1, r2, c1, c2) = oRhs o nc i j (r1, r2, c1, c2) := by
  have hjm : jm o j < o.nt := jm_lt o (by omega) j
  have hjp : jp o j < o.nt := jp_lt o (by omega) j
  have ol : j % 2 = 1 → o.bc = false → off T o j .Left = 1 := off_left T o hT j
  have oc : ∀ i, 2 * (i / 2) + 1 = i → osum o nc (circleTriRows o i j) (r1, r2, c1, c2) = cRhs o i j (r1, r2, c1, c2) :=
    fun i hI => osum_circleTriRows o nc hnt i j hj hI _
  have q1 : ¬ nc = o.nr := by omega
  have q2 : nc < o.nr := by omega
  have q3 : nc + 2 < o.nr := by omega
  have q4 : 2 < o.nr := by omega
  have q5 : 1 < nc := by omega
  have q6 : ¬ nc ≤ 1 := by omega
  have q7 : ¬ nc = 0 := by omega
  have q8 : 0 < nc := by omega
  unfold nodeUpdates
  simp only []
  split_ifs
  all_goals try (exfalso; omega)
  all_goals (
    first | (have : 2 * (i / 2) + 1 = i := by omega) | skip
    first | (have : 2 * (j / 2) + 1 = j := by omega) | skip
    first | (have : nc + (i - nc) = i := by omega) | skip
    first | (have : nc + (i - nc - 1) = i - 1 := by omega) | skip
    first | (have : i - 1 + 1 = i := by omega) | skip
    first | (have : i - nc - 1 + 1 = i - nc := by omega) | skip
    first | (have : ¬ (i - nc - 1 = i - nc) := by omega) | skip
    first | (have : ¬ (i - nc = i - nc - 1) := by omega) | skip
    first | (have : ¬ (i - nc + 1 + 1 = i - nc) := by omega) | skip
    first | (have : ¬ (i - nc + 1 = 0) := by omega) | skip
    first | (have : ¬ (i - nc = 0) := by omega) | skip
    first | (have : ¬ (i - nc + 1 = i - nc - 1) := by omega) | skip
    harvest (i % 2 = 1)
    harvest (0 < i)
    harvest (i < nc)
    harvest (nc ≤ i)
    harvest (nc < i)
    harvest (i + 2 < o.nr)
    harvest (i + 1 < o.nr)
    harvest (i = 0)
    simp [*, oRhs, cRhs, osum_append, offOf_ctri, offOf_rtri, offOf_cdiag, offOf_rdiag, offOf_csr,
      off_center T o hT, Upd.val])

end
end ExSmootherGiveCode
