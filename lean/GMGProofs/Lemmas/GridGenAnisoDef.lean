import GMGProofs.Lemmas.GridGenGenerate
/-!
# `anisoDivision`: the routine cut into named stages (all equations are definitional)
-/
namespace GridGenL
open GridGen

namespace An

def P (a : AnisoIn) : Rat := (a.refr - a.R0) / (a.R - a.R0)
def A (a : AnisoIn) : Nat := a.aniso.toNat
def nEqui (a : AnisoIn) : Int :=
  if A a % 2 = 1 then (2 : Int) ^ a.nrExp.toNat - (2 : Int) ^ A a + 1 else (2 : Int) ^ a.nrExp.toNat - (2 : Int) ^ A a
def nr (a : AnisoIn) : Int := nEqui a + 1
def ud (a : AnisoIn) : Rat := (a.R - a.R0) / (nEqui a : Rat)
def r2 (a : AnisoIn) : List Rat :=
  (List.range ((nr a).toNat - 1)).map (fun (i : Nat) => a.R0 + ((i : Int) : Rat) * ud a) ++ [a.R]
def fl (a : AnisoIn) : Int := min (floorRat ((nr a : Rat) * P a)) (nr a - 1)
def nRefO (a : AnisoIn) : Out Int :=
  if fl a > nr a - (2 : Int) ^ A a / 2 then
    if nr a - fl a ≤ 0 then .ub "log2 of a non-positive number converted to int"
    else .ok ((2 : Int) ^ (log2floor (nr a - fl a).toNat + 1))
  else .ok ((2 : Int) ^ A a)
def se (a : AnisoIn) (nRef : Int) : Int :=
  if clampLow = true ∧ fl a - nRef / 2 < 0 then 0 else fl a - nRef / 2
def st (nRef : Int) : Int := ceilRat ((nRef : Rat) / 4 + 1) - 1
def et (nRef : Int) : Int := floorRat (3 * ((nRef : Rat) / 4))

/-- insertion of `n` consecutive entries `r2[se + i]` into a set -/
def readFold (r2 : List Rat) (se : Int) (n : Nat) (s0 : List Rat) : Out (List Rat) :=
  (List.range n).foldl (fun acc (i : Nat) => do
      let s ← acc
      let v ← rd r2 (se + (i : Int)) "r_temp2"
      pure (sins v s)) (.ok s0)

def wr (arr : List Rat) (i : Int) (v : Rat) : Out (List Rat) :=
  if 0 ≤ i ∧ i < arr.length then .ok (arr.set i.toNat v) else .ub s!"write r_temp[{i}] of {arr.length}"

def write1 (r2 : List Rat) (n : Nat) (o0 : List Rat) : Out (List Rat) :=
  (List.range n).foldl (fun acc (i : Nat) => do
      let o ← acc
      let v ← rd r2 (i : Int) "r_temp2"
      wr o (i : Int) v) (.ok o0)
def write2 (se : Int) (rset : List Rat) (o1 : List Rat) : Out (List Rat) :=
  (List.range rset.length).foldl (fun acc (i : Nat) => do
      let o ← acc
      wr o (se + (i : Int)) (rset.getD i 0)) (.ok o1)
def write3 (r2 : List Rat) (se ee : Int) (len : Nat) (n : Nat) (o2 : List Rat) : Out (List Rat) :=
  (List.range n).foldl (fun acc (i : Nat) => do
      let o ← acc
      let v ← rd r2 (ee + (i : Int)) "r_temp2"
      wr o (se + (len : Int) + (i : Int)) v) (.ok o2)

/-- after the second insertion: resize and the three grouped copies -/
def tail3 (a : AnisoIn) (nRef : Int) (rset : List Rat) : Out (List Rat) :=
  if nEqui a - nRef + rset.length + 1 < 0 then .ub "resize to a negative length" else
  write1 (r2 a) (se a nRef).toNat (List.replicate (nEqui a - nRef + rset.length + 1).toNat 0) >>= fun out1 =>
  write2 (se a nRef) rset out1 >>= fun out2 =>
  write3 (r2 a) (se a nRef) (se a nRef + nRef) rset.length (nEqui a - (se a nRef + nRef) + 1).toNat out2

/-- after the refinement passes: the `std::advance`, re-insertion of the window -/
def tail2 (a : AnisoIn) (nRef : Int) (rset : List Rat) : Out (List Rat) :=
  if min ((nr a + rset.length) % 8 - 1) rset.length < 0 then .ub "std::advance(r_set.begin(), -1)" else
  readFold (r2 a) (se a nRef) nRef.toNat (rset.drop (min ((nr a + rset.length) % 8 - 1) (rset.length : Int)).toNat)
    >>= tail3 a nRef

def body (a : AnisoIn) (nRef : Int) : Out (List Rat) :=
  readFold (r2 a) (se a nRef) nRef.toNat [] >>= fun p1 =>
  passes (ud a) (A a) (st nRef) (et nRef) (A a) (ud a / 2) p1 nRef [] >>= tail2 a nRef

theorem anisoDivision_eq (a : AnisoIn) :
    anisoDivision a =
      if rejectOutside = true ∧ ¬ (0 ≤ P a ∧ P a ≤ 1) then .throw "refinement radius outside [R0, R]"
      else if a.aniso < 0 ∨ (2 : Int) ^ a.nrExp.toNat - (2 : Int) ^ a.aniso.toNat ≤ 0 ∨ a.nrExp < 0 then
        .throw "Please choose anisotropy factor a such that 2^fac_ani < 2^nr_exp."
      else nRefO a >>= body a := by
  unfold anisoDivision
  by_cases h1 : rejectOutside = true ∧ ¬ (0 ≤ P a ∧ P a ≤ 1)
  · rw [if_pos h1]; exact if_pos h1
  · rw [if_neg h1]
    refine (if_neg h1).trans ?_
    by_cases h2 : a.aniso < 0 ∨ (2 : Int) ^ a.nrExp.toNat - (2 : Int) ^ a.aniso.toNat ≤ 0 ∨ a.nrExp < 0
    · rw [if_pos h2, if_pos h2]
    · rw [if_neg h2, if_neg h2]
      rfl

end An
end GridGenL
