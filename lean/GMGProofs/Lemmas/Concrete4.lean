import GMGProofs.Lemmas.Concrete3
/-!
# `MGCycle.ZeroData`, `MGCycle.ExactData` (any depth) and `MGCycle.ExExactData` (full-grid smoothing) for `Concrete.ops H`
* the zero array is a fixed point of the code-level sweep with the zero right-hand side (`sweep_fixed` with `take o 0 0 = 0`),
  its residual is the zero array, restriction / prolongation / addition of zero arrays give zero arrays, the coarse solve of
  the zero array is the zero array: `ZeroData` for the intermediate and the coarsest level;
* `ExactData` on level 0 of a hierarchy of any depth;
* the extrapolated transfers map zero to zero, `4/3 · 0 - 1/3 · 0 = 0`, `take` on the grid reads grid values only:
  `ExExactData` with the standard smoother on level 0.
The per-level hypotheses are passed as a conjunction (`LevelHyp`) so that the property file can keep its own structure.
-/
namespace Concrete
open Stencil Scalar MGCycle

section AnyField
variable {K : Type} [_root_.Field K]

theorem take_zero_zero (o : Op K) (i j : Nat) : take o (fun _ _ => 0) (fun _ _ => 0) i j = 0 := by
  rw [take_eq_sub_A, Direct.A_zero, sub_self]

/-- the level-`l` zero vector of the concrete operators -/
def zeroArr (H : Hier K) (l : Nat) : Array K := Array.replicate (nrOf H l * ntOf H l) 0

theorem ops_zero_eq (H : Hier K) (l : Nat) : (ops H).zero l = some (zeroArr H l) := by
  show some (Array.replicate _ (n 0)) = some (Array.replicate _ 0)
  rw [Scalar.n_zero]

theorem zeroArr_size (H : Hier K) (l : Nat) : (zeroArr H l).size = (lvl H l).op.nr * (lvl H l).op.nt := by
  unfold zeroArr nrOf ntOf
  exact Array.size_replicate

theorem fld_zeroArr (H : Hier K) (l : Nat) (nt : Nat) : SmootherCode.fld nt (zeroArr H l) = fun _ _ => 0 :=
  fld_replicate_zero nt _

theorem take_zeroArr (H : Hier K) (l : Nat) (i j : Nat) :
    take (lvl H l).op (fld H l (zeroArr H l)) (fld H l (zeroArr H l)) i j = 0 := by
  unfold fld
  rw [fld_zeroArr]
  exact take_zero_zero _ i j

/-- residual of (zero, zero), restricted: the next level's zero vector -/
theorem ops_zero_resid_restrict (H : Hier K) (l : Nat) :
    (ops H).restrict l ((ops H).resid l ((ops H).zero l) ((ops H).zero l)) = (ops H).zero (l + 1) := by
  rw [ops_zero_eq H l]
  exact ops_resid_restrict_zero H l (zeroArr H l) (zeroArr H l) (fun i j _ _ => take_zeroArr H l i j)

/-- `0 += P 0` -/
theorem ops_zero_add_prolong (H : Hier K) (l : Nat) :
    (ops H).add ((ops H).zero l) ((ops H).prolong (l + 1) ((ops H).zero (l + 1))) = (ops H).zero l := by
  rw [ops_zero_eq H l]
  exact ops_add_prolong_zero H l (zeroArr H l)

/-! ### the extrapolated transfers and `lin43` on zero -/

theorem exRestrict_zero (p : Interp.Pair K) : Interp.exRestrict p (fun _ _ => (0 : K)) = fun _ _ => 0 := by
  funext I J
  simp [Interp.exRestrict]

theorem exProlong_zero (p : Interp.Pair K) : Interp.exProlong p (fun _ _ => (0 : K)) = fun _ _ => 0 := by
  funext i j
  simp [Interp.exProlong]

/-- `x += P_ex 0` -/
theorem ops_add_exProlong_zero (H : Hier K) (l : Nat) (u : Array K) :
    (ops H).add (some u) ((ops H).exProlong (l + 1) ((ops H).zero (l + 1))) = some u := by
  show some (Array.ofFn (n := u.size) fun p => u[p] +
      (ofFld H (l + 1 - 1) (Interp.exProlong (pair H (l + 1 - 1))
        (fld H (l + 1) (Array.replicate (nrOf H (l + 1) * ntOf H (l + 1)) (n 0))))).getD p.val (n 0)) = some u
  unfold ofFld fld
  rw [Scalar.n_zero, fld_replicate_zero, exProlong_zero, ofField_zero]
  exact congrArg some (add_zero_array u _)

/-- `4/3 · 0 - 1/3 · 0` -/
theorem lin43_zero_array (a : K) (b : K) (m k : Nat) :
    (Array.ofFn (n := (Array.replicate m (0 : K)).size) fun p =>
      a * (Array.replicate m (0 : K))[p] + b * (Array.replicate k (0 : K)).getD p.val 0) = Array.replicate m 0 := by
  apply Array.ext
  · simp
  · intro p h1 h2
    rw [Array.getElem_ofFn, Array.getElem_replicate]
    have : (Array.replicate k (0 : K)).getD p 0 = 0 := by
      rw [Array.getD_eq_getD_getElem?, Array.getElem?_replicate]
      split <;> simp
    rw [this]
    simp

/-- `take` on the grid reads grid values only — also on the degenerate grids `nr ≤ 1` when the inner boundary is Dirichlet -/
theorem take_congr_grid' (o : Op K) (f w w' : Stencil.Field K) (h01 : o.bc = true ∨ 2 ≤ o.nr)
    (h : ∀ a b, a < o.nr → b < o.nt → w a b = w' a b) (i j : Nat) (hi : i < o.nr) (hj : j < o.nt) :
    take o f w i j = take o f w' i j := by
  by_cases hnr : 2 ≤ o.nr
  · exact Smoother.take_congr_grid o f w w' hnr (by omega) h i j hi hj
  · have hbc : o.bc = true := h01.resolve_right hnr
    have hi0 : i = 0 := by omega
    subst hi0
    unfold take
    rw [if_neg (by omega), if_pos rfl, if_pos hbc, if_neg (by omega), if_pos rfl, if_pos hbc, h 0 j hi hj]

/-- level-1 residual of the injected iterate: the zero array, when the injected field solves the level-1 system -/
theorem ops_resid_inject_zero (H : Hier K) (u f1 : Array K)
    (h01 : (lvl H 1).op.bc = true ∨ 2 ≤ (lvl H 1).op.nr)
    (hsol1 : ∀ i j, i < (lvl H 1).op.nr → j < (lvl H 1).op.nt →
      take (lvl H 1).op (SmootherCode.fld (lvl H 1).op.nt f1)
        (Interp.inject (SmootherCode.fld (lvl H 0).op.nt u)) i j = 0) :
    (ops H).resid 1 (some f1) ((ops H).inject 0 (some u)) = some (zeroArr H 1) := by
  show some (ofFld H 1 (take (lvl H 1).op (fld H 1 f1) (fld H 1 (ofFld H (0 + 1) (Interp.inject (fld H 0 u))))))
    = some (zeroArr H 1)
  congr 1
  unfold ofFld zeroArr
  apply ofField_eq_replicate
  intro i j hi hj
  have hi' : i < (lvl H 1).op.nr := hi
  have hj' : j < (lvl H 1).op.nt := hj
  rw [take_congr_grid' (lvl H 1).op _ _ (Interp.inject (fld H 0 u)) h01 ?_ i j hi' hj']
  · exact hsol1 i j hi' hj'
  · intro a b ha hb
    exact fld_ofField_grid _ _ _ a b ha hb

/-- the right-hand side of the extrapolated coarse problem vanishes when the iterate is exact on level 0 and its injection
    is exact on level 1 -/
theorem ops_exrhs_zero (H : Hier K) (u f f1 : Array K)
    (hsol : ∀ i j, i < (lvl H 0).op.nr → j < (lvl H 0).op.nt →
      take (lvl H 0).op (SmootherCode.fld (lvl H 0).op.nt f) (SmootherCode.fld (lvl H 0).op.nt u) i j = 0)
    (h01 : (lvl H 1).op.bc = true ∨ 2 ≤ (lvl H 1).op.nr)
    (hsol1 : ∀ i j, i < (lvl H 1).op.nr → j < (lvl H 1).op.nt →
      take (lvl H 1).op (SmootherCode.fld (lvl H 1).op.nt f1)
        (Interp.inject (SmootherCode.fld (lvl H 0).op.nt u)) i j = 0) :
    (ops H).lin43 ((ops H).exRestrict 0 ((ops H).resid 0 (some f) (some u)))
      ((ops H).resid 1 (some f1) ((ops H).inject 0 (some u))) = (ops H).zero 1 := by
  rw [ops_resid_inject_zero H u f1 h01 hsol1, ops_zero_eq]
  have h0 : (ops H).exRestrict 0 ((ops H).resid 0 (some f) (some u)) = some (zeroArr H 1) := by
    show some (ofFld H (0 + 1) (Interp.exRestrict (pair H 0)
      (fld H 0 (ofFld H 0 (take (lvl H 0).op (fld H 0 f) (fld H 0 u)))))) = some (zeroArr H 1)
    have hsol' : ∀ i j, i < nrOf H 0 → j < ntOf H 0 →
        take (lvl H 0).op (SmootherCode.fld (ntOf H 0) f) (SmootherCode.fld (ntOf H 0) u) i j = 0 := hsol
    unfold ofFld fld zeroArr
    rw [ofField_eq_replicate (nrOf H 0) (ntOf H 0) _ hsol', fld_replicate_zero, exRestrict_zero, ofField_zero]
  rw [h0]
  show some (Array.ofFn (n := (zeroArr H 1).size) fun p =>
    c43 * (zeroArr H 1)[p] + cm13 * (zeroArr H 1).getD p.val (n 0)) = some (zeroArr H 1)
  rw [Scalar.n_zero]
  exact congrArg some (lin43_zero_array c43 cm13 _ _)

end AnyField

section Ordered
variable {K : Type} [_root_.Field K] [LinearOrder K] [IsStrictOrderedRing K]

/-- what a smoothing level has to satisfy (Dirichlet inner boundary, elliptic data, admissible sizes) -/
def LevelHyp (D : LevelData K) : Prop :=
  4 ≤ D.op.nt ∧ D.op.nt % 2 = 0 ∧ 2 ≤ D.nc ∧ D.nc + 3 ≤ D.op.nr ∧ D.op.bc = true ∧ Elliptic D.op

/-- the standard smoother of level `l` fixes the array of an exact discrete solution -/
theorem ops_smooth_fixed (H : Hier K) (l : Nat) (h : LevelHyp (lvl H l)) (ht1 : H.tiny 1 = false) (u f : Array K)
    (hu : u.size = (lvl H l).op.nr * (lvl H l).op.nt)
    (hsol : ∀ i j, i < (lvl H l).op.nr → j < (lvl H l).op.nt →
      take (lvl H l).op (SmootherCode.fld (lvl H l).op.nt f) (SmootherCode.fld (lvl H l).op.nt u) i j = 0) :
    (ops H).smooth l (some u) (some f) = some u := by
  obtain ⟨hnt, heven, hnc, hnr, hbc, he⟩ := h
  exact sweep_fixed (lvl H l).op (lvl H l).nc H.tiny ht1 hnr hnc hnt heven hbc he _ u hu hsol

/-- smoothing the zero vector with the zero right-hand side returns the zero vector -/
theorem ops_zero_smooth (H : Hier K) (l : Nat) (h : LevelHyp (lvl H l)) (ht1 : H.tiny 1 = false) :
    (ops H).smooth l ((ops H).zero l) ((ops H).zero l) = (ops H).zero l := by
  rw [ops_zero_eq H l]
  exact ops_smooth_fixed H l h ht1 (zeroArr H l) (zeroArr H l) (zeroArr_size H l)
    (fun i j _ _ => take_zeroArr H l i j)

/-- **`ZeroData` for the concrete operators**: the levels `1 … L-2` smooth, the level `L-1` solves directly -/
theorem zeroData_depth (H : Hier K) (L nu1 nu2 : Nat)
    (hlev : ∀ l, l + 1 < L → LevelHyp (lvl H l)) (ht1 : H.tiny 1 = false)
    (M : SparseLU.CSR K) (hM : DirectCode.assemble H.tables (lvl H (L - 1)).op = some M)
    (ht : ∀ r, r < M.rows → H.tiny (SparseLU.den ((SparseLU.factorRows M).2.getD r []) r) = false) :
    ZeroData (ops H) ⟨L, nu1, nu2⟩ 1 := by
  refine ⟨?_, ?_, ?_, ?_⟩
  · intro l _ h2
    have h2' : l < L - 1 := h2
    exact ops_zero_smooth H l (hlev l (by omega)) ht1
  · intro l _ _
    exact ops_zero_resid_restrict H l
  · intro _
    exact ops_solve_zero H (L - 1) M hM ht
  · intro l _ _
    exact ops_zero_add_prolong H l

/-- **`ExactData` on level 0 of a hierarchy of any depth `L ≥ 2`** -/
theorem exactData_depth (H : Hier K) (L nu1 nu2 : Nat) (hL : 2 ≤ L) (u f : Array K)
    (hlev : ∀ l, l + 1 < L → LevelHyp (lvl H l)) (ht1 : H.tiny 1 = false)
    (M : SparseLU.CSR K) (hM : DirectCode.assemble H.tables (lvl H (L - 1)).op = some M)
    (ht : ∀ r, r < M.rows → H.tiny (SparseLU.den ((SparseLU.factorRows M).2.getD r []) r) = false)
    (hu : u.size = (lvl H 0).op.nr * (lvl H 0).op.nt)
    (hsol : ∀ i j, i < (lvl H 0).op.nr → j < (lvl H 0).op.nt →
      take (lvl H 0).op (SmootherCode.fld (lvl H 0).op.nt f) (SmootherCode.fld (lvl H 0).op.nt u) i j = 0) :
    ExactData (ops H) ⟨L, nu1, nu2⟩ 0 (some u) (some f) :=
  ⟨ops_smooth_fixed H 0 (hlev 0 (by omega)) ht1 u f hu hsol, ops_resid_restrict_zero H 0 u f hsol,
    ops_add_prolong_zero H 0 u, zeroData_depth H L nu1 nu2 hlev ht1 M hM ht⟩

/-- **`ExExactData` with the standard smoother on level 0** (`fgs = true`) -/
theorem exExactData_fgs (H : Hier K) (L nu1 nu2 : Nat) (hL : 2 ≤ L) (u f f1 : Array K)
    (hlev : ∀ l, l + 1 < L → LevelHyp (lvl H l)) (ht1 : H.tiny 1 = false)
    (M : SparseLU.CSR K) (hM : DirectCode.assemble H.tables (lvl H (L - 1)).op = some M)
    (ht : ∀ r, r < M.rows → H.tiny (SparseLU.den ((SparseLU.factorRows M).2.getD r []) r) = false)
    (hu : u.size = (lvl H 0).op.nr * (lvl H 0).op.nt)
    (hsol : ∀ i j, i < (lvl H 0).op.nr → j < (lvl H 0).op.nt →
      take (lvl H 0).op (SmootherCode.fld (lvl H 0).op.nt f) (SmootherCode.fld (lvl H 0).op.nt u) i j = 0)
    (h01 : (lvl H 1).op.bc = true ∨ 2 ≤ (lvl H 1).op.nr)
    (hsol1 : ∀ i j, i < (lvl H 1).op.nr → j < (lvl H 1).op.nt →
      take (lvl H 1).op (SmootherCode.fld (lvl H 1).op.nt f1)
        (Interp.inject (SmootherCode.fld (lvl H 0).op.nt u)) i j = 0) :
    ExExactData (ops H) ⟨L, nu1, nu2⟩ true (some u) (some f) (some f1) :=
  ⟨by
    show (if true = true then (ops H).smooth 0 (some u) (some f) else _) = some u
    rw [if_pos rfl]
    exact ops_smooth_fixed H 0 (hlev 0 (by omega)) ht1 u f hu hsol,
   ops_exrhs_zero H u f f1 hsol h01 hsol1, ops_add_exProlong_zero H 0 u, zeroData_depth H L nu1 nu2 hlev ht1 M hM ht⟩

end Ordered
end Concrete
