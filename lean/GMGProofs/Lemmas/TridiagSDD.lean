import GMGProofs.Lemmas.TridiagSPD
import Mathlib.Algebra.Order.Ring.Abs
/-!
# Helper lemmas for C14, part 5: strict diagonal dominance ⇒ SPD
-/
namespace Tridiag
section Ordered
variable {K : Type} [Field K] [LinearOrder K] [IsStrictOrderedRing K]

/-- row-wise strict diagonal dominance `a_i > |b_{i-1}| + |b_i|` (which forces a positive diagonal);
    `p` is `|b_{i-1}|` of the row above (`0` for the first row) -/
def sddFrom (p : K) : List K → List K → Prop
  | [a], [] => p < a
  | a :: as, b :: bs => p + |b| < a ∧ sddFrom |b| as bs
  | _, _ => False

/-- strictly diagonally dominant symmetric tridiagonal matrix with positive diagonal -/
def SDD (a b : List K) : Prop := sddFrom 0 a b

theorem abs_quad (b x y : K) : 0 ≤ |b| * (x * x) + 2 * b * x * y + |b| * (y * y) := by
  rcases abs_cases b with ⟨h, _⟩ | ⟨h, _⟩ <;> rw [h]
  · nlinarith [mul_nonneg (show 0 ≤ b by assumption) (mul_self_nonneg (x + y))]
  · nlinarith [mul_nonneg (show 0 ≤ -b by linarith) (mul_self_nonneg (x - y))]

theorem sdd_Q (a b x : List K) (h1 : a.length = x.length) (h2 : b.length + 1 = a.length) :
    ∀ p : K, 0 ≤ p → sddFrom p a b →
      p * (x.headD 0 * x.headD 0) ≤ Q a b x ∧ (¬ allZero x → p * (x.headD 0 * x.headD 0) < Q a b x) := by
  refine tri_induction (motive := fun a b x => ∀ p : K, 0 ≤ p → sddFrom p a b →
      p * (x.headD 0 * x.headD 0) ≤ Q a b x ∧ (¬ allZero x → p * (x.headD 0 * x.headD 0) < Q a b x))
    ?_ ?_ a b x h1 h2
  · intro a x p _ hs
    simp only [sddFrom] at hs
    simp only [Q, List.headD_cons, allZero, and_true]
    have hd : 0 < a - p := by linarith
    refine ⟨?_, fun hx => ?_⟩
    · have := mul_nonneg hd.le (mul_self_nonneg x); linarith
    · have := mul_pos hd (mul_self_pos.mpr hx); linarith
  · intro a a' as b bs x x' xs _ _ ih p hp hs
    obtain ⟨hs1, hs2⟩ := hs
    obtain ⟨i1, i2⟩ := ih |b| (abs_nonneg b) hs2
    simp only [List.headD_cons] at i1 i2
    simp only [Q, List.headD_cons]
    have hd : 0 < a - p - |b| := by linarith
    have t2 := abs_quad b x x'
    have t0 : 0 ≤ |b| * (x' * x') := mul_nonneg (abs_nonneg b) (mul_self_nonneg x')
    refine ⟨?_, fun hx => ?_⟩
    · have := mul_nonneg hd.le (mul_self_nonneg x); linarith
    · by_cases h0 : x = 0
      · have hz : ¬ allZero (x' :: xs) := fun h => hx ⟨h0, h⟩
        have := i2 hz
        subst h0; linarith
      · have := mul_pos hd (mul_self_pos.mpr h0); linarith

theorem sdd_spd (a b : List K) (h2 : b.length + 1 = a.length) (h : SDD a b) : SPD a b := by
  intro x hx hnz
  have := (sdd_Q a b x hx.symm h2 0 le_rfl h).2 hnz
  simpa using this

end Ordered
end Tridiag
