import GMGProofs.Lemmas.SchedBasic
/-!
# Race freedom of `SmootherGive::smoothingForLoop`: 16 loops, 12 barrier intervals (C11)

One theorem per pair of loops of one barrier interval (a loop with itself: two different iterations), each proved from the
*generated* loop terms (`Sched.Gen.*`) by `race_pair`; then the region theorem.
-/
set_option linter.unusedSimpArgs false
set_option linter.unusedVariables false
namespace Sched.Lem
open Sched

theorem smootherGive_0_0 (s : Shape) (h : SmoothAdmissible s) :
    LoopsRaceFree s (Gen.smootherGive.loops.getD 0 default) (Gen.smootherGive.loops.getD 0 default) (0 == 0) := by
  have hA5 := h.nt4dvd; have hA := h.toAdmissible
  race_pair hA [Gen.smootherGive]

theorem smootherGive_1_1 (s : Shape) (h : SmoothAdmissible s) :
    LoopsRaceFree s (Gen.smootherGive.loops.getD 1 default) (Gen.smootherGive.loops.getD 1 default) (1 == 1) := by
  have hA5 := h.nt4dvd; have hA := h.toAdmissible
  race_pair hA [Gen.smootherGive]

theorem smootherGive_2_2 (s : Shape) (h : SmoothAdmissible s) :
    LoopsRaceFree s (Gen.smootherGive.loops.getD 2 default) (Gen.smootherGive.loops.getD 2 default) (2 == 2) := by
  have hA5 := h.nt4dvd; have hA := h.toAdmissible
  race_pair hA [Gen.smootherGive]

theorem smootherGive_3_3 (s : Shape) (h : SmoothAdmissible s) :
    LoopsRaceFree s (Gen.smootherGive.loops.getD 3 default) (Gen.smootherGive.loops.getD 3 default) (3 == 3) := by
  have hA5 := h.nt4dvd; have hA := h.toAdmissible
  race_pair hA [Gen.smootherGive]

theorem smootherGive_4_4 (s : Shape) (h : SmoothAdmissible s) :
    LoopsRaceFree s (Gen.smootherGive.loops.getD 4 default) (Gen.smootherGive.loops.getD 4 default) (4 == 4) := by
  have hA5 := h.nt4dvd; have hA := h.toAdmissible
  race_pair hA [Gen.smootherGive]

theorem smootherGive_4_5 (s : Shape) (h : SmoothAdmissible s) :
    LoopsRaceFree s (Gen.smootherGive.loops.getD 4 default) (Gen.smootherGive.loops.getD 5 default) (4 == 5) := by
  have hA5 := h.nt4dvd; have hA := h.toAdmissible
  race_pair hA [Gen.smootherGive]

theorem smootherGive_5_5 (s : Shape) (h : SmoothAdmissible s) :
    LoopsRaceFree s (Gen.smootherGive.loops.getD 5 default) (Gen.smootherGive.loops.getD 5 default) (5 == 5) := by
  have hA5 := h.nt4dvd; have hA := h.toAdmissible
  race_pair hA [Gen.smootherGive]

theorem smootherGive_6_6 (s : Shape) (h : SmoothAdmissible s) :
    LoopsRaceFree s (Gen.smootherGive.loops.getD 6 default) (Gen.smootherGive.loops.getD 6 default) (6 == 6) := by
  have hA5 := h.nt4dvd; have hA := h.toAdmissible
  race_pair hA [Gen.smootherGive]

theorem smootherGive_6_7 (s : Shape) (h : SmoothAdmissible s) :
    LoopsRaceFree s (Gen.smootherGive.loops.getD 6 default) (Gen.smootherGive.loops.getD 7 default) (6 == 7) := by
  have hA5 := h.nt4dvd; have hA := h.toAdmissible
  race_pair hA [Gen.smootherGive]

theorem smootherGive_7_7 (s : Shape) (h : SmoothAdmissible s) :
    LoopsRaceFree s (Gen.smootherGive.loops.getD 7 default) (Gen.smootherGive.loops.getD 7 default) (7 == 7) := by
  have hA5 := h.nt4dvd; have hA := h.toAdmissible
  race_pair hA [Gen.smootherGive]

theorem smootherGive_8_8 (s : Shape) (h : SmoothAdmissible s) :
    LoopsRaceFree s (Gen.smootherGive.loops.getD 8 default) (Gen.smootherGive.loops.getD 8 default) (8 == 8) := by
  have hA5 := h.nt4dvd; have hA := h.toAdmissible
  race_pair hA [Gen.smootherGive]

theorem smootherGive_8_9 (s : Shape) (h : SmoothAdmissible s) :
    LoopsRaceFree s (Gen.smootherGive.loops.getD 8 default) (Gen.smootherGive.loops.getD 9 default) (8 == 9) := by
  have hA5 := h.nt4dvd; have hA := h.toAdmissible
  race_pair hA [Gen.smootherGive]

theorem smootherGive_9_9 (s : Shape) (h : SmoothAdmissible s) :
    LoopsRaceFree s (Gen.smootherGive.loops.getD 9 default) (Gen.smootherGive.loops.getD 9 default) (9 == 9) := by
  have hA5 := h.nt4dvd; have hA := h.toAdmissible
  race_pair hA [Gen.smootherGive]

theorem smootherGive_10_10 (s : Shape) (h : SmoothAdmissible s) :
    LoopsRaceFree s (Gen.smootherGive.loops.getD 10 default) (Gen.smootherGive.loops.getD 10 default) (10 == 10) := by
  have hA5 := h.nt4dvd; have hA := h.toAdmissible
  race_pair hA [Gen.smootherGive]

theorem smootherGive_10_11 (s : Shape) (h : SmoothAdmissible s) :
    LoopsRaceFree s (Gen.smootherGive.loops.getD 10 default) (Gen.smootherGive.loops.getD 11 default) (10 == 11) := by
  have hA5 := h.nt4dvd; have hA := h.toAdmissible
  race_pair hA [Gen.smootherGive]

theorem smootherGive_11_11 (s : Shape) (h : SmoothAdmissible s) :
    LoopsRaceFree s (Gen.smootherGive.loops.getD 11 default) (Gen.smootherGive.loops.getD 11 default) (11 == 11) := by
  have hA5 := h.nt4dvd; have hA := h.toAdmissible
  race_pair hA [Gen.smootherGive]

theorem smootherGive_12_12 (s : Shape) (h : SmoothAdmissible s) :
    LoopsRaceFree s (Gen.smootherGive.loops.getD 12 default) (Gen.smootherGive.loops.getD 12 default) (12 == 12) := by
  have hA5 := h.nt4dvd; have hA := h.toAdmissible
  race_pair hA [Gen.smootherGive]

theorem smootherGive_13_13 (s : Shape) (h : SmoothAdmissible s) :
    LoopsRaceFree s (Gen.smootherGive.loops.getD 13 default) (Gen.smootherGive.loops.getD 13 default) (13 == 13) := by
  have hA5 := h.nt4dvd; have hA := h.toAdmissible
  race_pair hA [Gen.smootherGive]

theorem smootherGive_14_14 (s : Shape) (h : SmoothAdmissible s) :
    LoopsRaceFree s (Gen.smootherGive.loops.getD 14 default) (Gen.smootherGive.loops.getD 14 default) (14 == 14) := by
  have hA5 := h.nt4dvd; have hA := h.toAdmissible
  race_pair hA [Gen.smootherGive]

theorem smootherGive_15_15 (s : Shape) (h : SmoothAdmissible s) :
    LoopsRaceFree s (Gen.smootherGive.loops.getD 15 default) (Gen.smootherGive.loops.getD 15 default) (15 == 15) := by
  have hA5 := h.nt4dvd; have hA := h.toAdmissible
  race_pair hA [Gen.smootherGive]

/-- barrier intervals of the generated region -/
theorem smootherGive_intervals : intervals Gen.smootherGive.loops = [[0], [1], [2], [3], [4, 5], [6, 7], [8, 9], [10, 11], [12], [13], [14], [15]] := by decide

theorem smootherGive_raceFree (s : Shape) (h : SmoothAdmissible s) : RegionRaceFree s Gen.smootherGive := by
  apply regionRaceFree_of_intervals _ smootherGive_intervals
  simp only [List.forall_mem_cons, List.not_mem_nil, false_imp_iff, implies_true, and_true, true_and, and_assoc, Nat.le_refl, forall_const,
    Nat.reduceLeDiff]
  exact ⟨smootherGive_0_0 s h, smootherGive_1_1 s h, smootherGive_2_2 s h, smootherGive_3_3 s h, smootherGive_4_4 s h, smootherGive_4_5 s h, smootherGive_5_5 s h, smootherGive_6_6 s h, smootherGive_6_7 s h, smootherGive_7_7 s h, smootherGive_8_8 s h, smootherGive_8_9 s h, smootherGive_9_9 s h, smootherGive_10_10 s h, smootherGive_10_11 s h, smootherGive_11_11 s h, smootherGive_12_12 s h, smootherGive_13_13 s h, smootherGive_14_14 s h, smootherGive_15_15 s h⟩

end Sched.Lem
