import Mathlib.Tactic.Attr.Register
/-! simp set `sym_ev`: push `Sym.ev` through expression constructors and through the symbolic derivative `Sym.Expr.D` -/
register_simp_attr sym_ev
/-! simp set `sym_clean`: remove the `0 * x`, `x * 1`, … left behind by differentiating constants -/
register_simp_attr sym_clean
