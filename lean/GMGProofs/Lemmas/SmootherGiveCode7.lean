import GMGProofs.Lemmas.SmootherGiveCode4
import GMGProofs.Lemmas.SmootherGiveCode6
import GMGProofs.Lemmas.SmootherCode4
/-!
# Code-level smoother (give), lemmas 7 — line solves of one colour, give against take

* `fld_ofField`: `temp = rhs` on the grid;
* `orthoCircle_congr`, `orthoRadial_congr`: `rhs - A_sc^ortho x` of a line reads the iterate only off that line's colour;
* `circleSolveStep_eq`, `radialSolveStep_eq`: a give line solve whose slice of `temp` holds `SmootherCode.orthoCircle` /
  `orthoRadial` of the current iterate performs the update of `SmootherCode.circleStep` / `radialStep` (same matrices by
  lemmas 4);
* `circle_fold`, `radial_fold`: all lines of one colour.
-/
set_option linter.unusedSimpArgs false
set_option linter.unusedSectionVars false
set_option linter.unusedVariables false
namespace SmootherGiveCode
open Stencil SmootherCode Finset
variable {K : Type} [_root_.Field K]

theorem fld_ofField (nr nt : Nat) (f : Stencil.Field K) (p q : Nat) (hp : p < nr) (hq : q < nt) :
    fld nt (ofField nr nt f) p q = f p q := by
  have hlt : p * nt + q < nr * nt := idx_lt hp hq
  unfold fld ofField
  simp only [Array.getD_eq_getD_getElem?, Array.getElem?_ofFn, hlt, dite_true, Option.getD_some, idx_div hq, idx_mod hq]

@[simp] theorem size_ofField (nr nt : Nat) (f : Stencil.Field K) : (ofField nr nt f).size = nr * nt := by
  simp [ofField]

section
variable (o : Op K) (nc : Nat)

/-- the right-hand side of circle `i` reads the iterate on the two neighbouring circles only -/
theorem orthoCircle_congr (f u u' : Stencil.Field K) (i j : Nat) (hj : j < o.nt)
    (h : ∀ a b, (a + 1 = i ∨ a = i + 1) → b < o.nt → u a b = u' a b) :
    orthoCircle o nc f u i j = orthoCircle o nc f u' i j := by
  have hm := jm_lt o (by omega) j
  have hp := jp_lt o (by omega) j
  unfold orthoCircle diagTerms
  by_cases h1 : 0 < i ∧ i < nc
  · have e1 := fun b hb => h (i - 1) b (Or.inl (by omega)) hb
    have e2 := fun b hb => h (i + 1) b (Or.inr rfl) hb
    simp only [if_pos h1, e1 _ hj, e2 _ hj, e1 _ hm, e2 _ hm, e1 _ hp, e2 _ hp]
  · by_cases h0 : i = 0
    · subst h0
      have e2 := fun b hb => h 1 b (Or.inr rfl) hb
      simp only [if_neg h1, if_true, e2 _ hj, e2 _ hm, e2 _ hp]
    · simp only [if_neg h1, if_neg h0]

/-- the right-hand side of radial line `j` reads the iterate on the two neighbouring lines, and on the last circle of its
    own ray -/
theorem orthoRadial_congr (hnc : 1 ≤ nc) (hnr : nc + 3 ≤ o.nr) (f u u' : Stencil.Field K) (i j : Nat) (hi : nc ≤ i)
    (h : ∀ a b, a < o.nr → (b = jm o j ∨ b = jp o j) → u a b = u' a b)
    (h' : u (nc - 1) j = u' (nc - 1) j) :
    orthoRadial o nc f u i j = orthoRadial o nc f u' i j := by
  unfold orthoRadial diagTerms
  by_cases h1 : nc < i ∧ i + 2 < o.nr
  · simp only [if_pos h1, h (i - 1) _ (by omega) (Or.inl rfl), h (i - 1) _ (by omega) (Or.inr rfl),
      h i _ (by omega) (Or.inl rfl), h i _ (by omega) (Or.inr rfl), h (i + 1) _ (by omega) (Or.inl rfl),
      h (i + 1) _ (by omega) (Or.inr rfl)]
  · by_cases h2 : i = nc
    · subst h2
      simp only [if_neg h1, if_true, h (i - 1) _ (by omega) (Or.inl rfl), h (i - 1) _ (by omega) (Or.inr rfl),
        h i _ (by omega) (Or.inl rfl), h i _ (by omega) (Or.inr rfl), h (i + 1) _ (by omega) (Or.inl rfl),
        h (i + 1) _ (by omega) (Or.inr rfl), h']
    · by_cases h3 : i + 2 = o.nr
      · simp only [if_neg h1, if_neg h2, if_pos h3, h (i - 1) _ (by omega) (Or.inl rfl), h (i - 1) _ (by omega) (Or.inr rfl),
          h i _ (by omega) (Or.inl rfl), h i _ (by omega) (Or.inr rfl), h (i + 1) _ (by omega) (Or.inl rfl),
          h (i + 1) _ (by omega) (Or.inr rfl)]
      · simp only [if_neg h1, if_neg h2, if_neg h3]


/-! ### one line solve -/

theorem circleSeg_eq (f : Stencil.Field K) (a tg : Array K) (i : Nat)
    (hT : ∀ q, q < o.nt → fld o.nt tg i q = orthoCircle o nc f (fld o.nt a) i q) :
    circleSeg o.nt tg i = circleTemp o nc f (fld o.nt a) i := by
  unfold circleSeg circleTemp
  apply List.map_congr_left
  intro q hq
  exact hT q (List.mem_range.mp hq)

theorem radialSeg_eq (f : Stencil.Field K) (a tg : Array K) (j : Nat)
    (hT : ∀ s, s < o.nr - nc → fld o.nt tg (nc + s) j = orthoRadial o nc f (fld o.nt a) (nc + s) j) :
    radialSeg o.nr o.nt nc tg j = radialTemp o nc f (fld o.nt a) j := by
  unfold radialSeg radialTemp
  apply List.map_congr_left
  intro s hs
  exact hT s (List.mem_range.mp hs)

/-- a give circle solve on a slice of `temp` that holds `rhs - A_sc^ortho x` is the take update -/
theorem circleSolveStep_eq (hnc : 2 ≤ nc) (hnr : nc + 3 ≤ o.nr) (hnt : 3 ≤ o.nt) (heven : o.nt % 2 = 0)
    (hk : o.bc = false → ∀ j, j < o.nt → o.k (ja o j) = o.k j) (tiny : K → Bool) (f : Stencil.Field K)
    (a tg : Array K) (i : Nat) (hi : i < nc)
    (hT : ∀ q, q < o.nt → fld o.nt tg i q = orthoCircle o nc f (fld o.nt a) i q) :
    circleSolveStep o (allUpdates o nc) tiny (some (a, tg)) i
      = (solveCircle o tiny nc f (fld o.nt a) i).map fun v => (writeCircle o.nt a i v, writeCircle o.nt tg i v) := by
  unfold circleSolveStep solveCircle
  simp only [Option.bind_some]
  rw [circleSeg_eq o nc f a tg i hT]
  by_cases h0 : i = 0
  · have := innerCSR_eq o nc hnc hnr hnt heven hk
    unfold innerCSR at this
    simp only [if_pos h0, this]
    subst h0
    rfl
  · rw [if_neg h0, if_neg h0, circleSolver_eq o nc hnc hnr hnt i (by omega) hi]

/-- a give radial solve on a slice of `temp` that holds `rhs - A_sc^ortho x` is the take update -/
theorem radialSolveStep_eq (hnc : 2 ≤ nc) (hnr : nc + 3 ≤ o.nr) (hnt : 3 ≤ o.nt) (f : Stencil.Field K)
    (a tg : Array K) (j : Nat) (hj : j < o.nt)
    (hT : ∀ s, s < o.nr - nc → fld o.nt tg (nc + s) j = orthoRadial o nc f (fld o.nt a) (nc + s) j) :
    radialSolveStep o nc (allUpdates o nc) (a, tg) j
      = (radialStep o nc f a j, writeRadial o.nt nc tg j (solveRadial o nc f (fld o.nt a) j)) := by
  unfold radialSolveStep radialStep solveRadial
  simp only
  rw [radialSeg_eq o nc f a tg j hT, radialSolver_eq o nc hnc hnr hnt j hj]

end
end SmootherGiveCode
