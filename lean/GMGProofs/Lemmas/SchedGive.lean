import GMGProofs.Lemmas.SchedBasic
/-!
# Race freedom of the four "give" (scatter) regions with the six-loop structure: circles with stride 3, `nowait` overlap of circle section 2 with radial section 0, radial lines with stride 3 and the `nt % 3` remainder rule (C11)

One theorem per pair of loops of one barrier interval (a loop with itself: two different iterations), each proved from the
*generated* loop terms (`Sched.Gen.*`) by `race_pair`; then the region theorem.
-/
set_option linter.unusedSimpArgs false
set_option linter.unusedVariables false
namespace Sched.Lem
open Sched

theorem residualGive_0_0 (s : Shape) (h : Admissible s) :
    LoopsRaceFree s (Gen.residualGive.loops.getD 0 default) (Gen.residualGive.loops.getD 0 default) (0 == 0) := by
  race_pair h [Gen.residualGive]

theorem residualGive_1_1 (s : Shape) (h : Admissible s) :
    LoopsRaceFree s (Gen.residualGive.loops.getD 1 default) (Gen.residualGive.loops.getD 1 default) (1 == 1) := by
  race_pair h [Gen.residualGive]

theorem residualGive_2_2 (s : Shape) (h : Admissible s) :
    LoopsRaceFree s (Gen.residualGive.loops.getD 2 default) (Gen.residualGive.loops.getD 2 default) (2 == 2) := by
  race_pair h [Gen.residualGive]

theorem residualGive_2_3 (s : Shape) (h : Admissible s) :
    LoopsRaceFree s (Gen.residualGive.loops.getD 2 default) (Gen.residualGive.loops.getD 3 default) (2 == 3) := by
  race_pair h [Gen.residualGive]

theorem residualGive_3_3 (s : Shape) (h : Admissible s) :
    LoopsRaceFree s (Gen.residualGive.loops.getD 3 default) (Gen.residualGive.loops.getD 3 default) (3 == 3) := by
  race_pair h [Gen.residualGive]

theorem residualGive_4_4 (s : Shape) (h : Admissible s) :
    LoopsRaceFree s (Gen.residualGive.loops.getD 4 default) (Gen.residualGive.loops.getD 4 default) (4 == 4) := by
  race_pair h [Gen.residualGive]

theorem residualGive_5_5 (s : Shape) (h : Admissible s) :
    LoopsRaceFree s (Gen.residualGive.loops.getD 5 default) (Gen.residualGive.loops.getD 5 default) (5 == 5) := by
  race_pair h [Gen.residualGive]

/-- barrier intervals of the generated region -/
theorem residualGive_intervals : intervals Gen.residualGive.loops = [[0], [1], [2, 3], [4], [5]] := by decide

theorem residualGive_raceFree (s : Shape) (h : Admissible s) : RegionRaceFree s Gen.residualGive := by
  apply regionRaceFree_of_intervals _ residualGive_intervals
  simp only [List.forall_mem_cons, List.not_mem_nil, false_imp_iff, implies_true, and_true, true_and, and_assoc, Nat.le_refl, forall_const,
    Nat.reduceLeDiff]
  exact ⟨residualGive_0_0 s h, residualGive_1_1 s h, residualGive_2_2 s h, residualGive_2_3 s h, residualGive_3_3 s h, residualGive_4_4 s h, residualGive_5_5 s h⟩

theorem directGive_0_0 (s : Shape) (h : Admissible s) :
    LoopsRaceFree s (Gen.directGive.loops.getD 0 default) (Gen.directGive.loops.getD 0 default) (0 == 0) := by
  race_pair h [Gen.directGive]

theorem directGive_1_1 (s : Shape) (h : Admissible s) :
    LoopsRaceFree s (Gen.directGive.loops.getD 1 default) (Gen.directGive.loops.getD 1 default) (1 == 1) := by
  race_pair h [Gen.directGive]

theorem directGive_2_2 (s : Shape) (h : Admissible s) :
    LoopsRaceFree s (Gen.directGive.loops.getD 2 default) (Gen.directGive.loops.getD 2 default) (2 == 2) := by
  race_pair h [Gen.directGive]

theorem directGive_2_3 (s : Shape) (h : Admissible s) :
    LoopsRaceFree s (Gen.directGive.loops.getD 2 default) (Gen.directGive.loops.getD 3 default) (2 == 3) := by
  race_pair h [Gen.directGive]

theorem directGive_3_3 (s : Shape) (h : Admissible s) :
    LoopsRaceFree s (Gen.directGive.loops.getD 3 default) (Gen.directGive.loops.getD 3 default) (3 == 3) := by
  race_pair h [Gen.directGive]

theorem directGive_4_4 (s : Shape) (h : Admissible s) :
    LoopsRaceFree s (Gen.directGive.loops.getD 4 default) (Gen.directGive.loops.getD 4 default) (4 == 4) := by
  race_pair h [Gen.directGive]

theorem directGive_5_5 (s : Shape) (h : Admissible s) :
    LoopsRaceFree s (Gen.directGive.loops.getD 5 default) (Gen.directGive.loops.getD 5 default) (5 == 5) := by
  race_pair h [Gen.directGive]

/-- barrier intervals of the generated region -/
theorem directGive_intervals : intervals Gen.directGive.loops = [[0], [1], [2, 3], [4], [5]] := by decide

theorem directGive_raceFree (s : Shape) (h : Admissible s) : RegionRaceFree s Gen.directGive := by
  apply regionRaceFree_of_intervals _ directGive_intervals
  simp only [List.forall_mem_cons, List.not_mem_nil, false_imp_iff, implies_true, and_true, true_and, and_assoc, Nat.le_refl, forall_const,
    Nat.reduceLeDiff]
  exact ⟨directGive_0_0 s h, directGive_1_1 s h, directGive_2_2 s h, directGive_2_3 s h, directGive_3_3 s h, directGive_4_4 s h, directGive_5_5 s h⟩

theorem smootherGiveAsc_0_0 (s : Shape) (h : Admissible s) :
    LoopsRaceFree s (Gen.smootherGiveAsc.loops.getD 0 default) (Gen.smootherGiveAsc.loops.getD 0 default) (0 == 0) := by
  race_pair h [Gen.smootherGiveAsc]

theorem smootherGiveAsc_1_1 (s : Shape) (h : Admissible s) :
    LoopsRaceFree s (Gen.smootherGiveAsc.loops.getD 1 default) (Gen.smootherGiveAsc.loops.getD 1 default) (1 == 1) := by
  race_pair h [Gen.smootherGiveAsc]

theorem smootherGiveAsc_2_2 (s : Shape) (h : Admissible s) :
    LoopsRaceFree s (Gen.smootherGiveAsc.loops.getD 2 default) (Gen.smootherGiveAsc.loops.getD 2 default) (2 == 2) := by
  race_pair h [Gen.smootherGiveAsc]

theorem smootherGiveAsc_2_3 (s : Shape) (h : Admissible s) :
    LoopsRaceFree s (Gen.smootherGiveAsc.loops.getD 2 default) (Gen.smootherGiveAsc.loops.getD 3 default) (2 == 3) := by
  race_pair h [Gen.smootherGiveAsc]

theorem smootherGiveAsc_3_3 (s : Shape) (h : Admissible s) :
    LoopsRaceFree s (Gen.smootherGiveAsc.loops.getD 3 default) (Gen.smootherGiveAsc.loops.getD 3 default) (3 == 3) := by
  race_pair h [Gen.smootherGiveAsc]

theorem smootherGiveAsc_4_4 (s : Shape) (h : Admissible s) :
    LoopsRaceFree s (Gen.smootherGiveAsc.loops.getD 4 default) (Gen.smootherGiveAsc.loops.getD 4 default) (4 == 4) := by
  race_pair h [Gen.smootherGiveAsc]

theorem smootherGiveAsc_5_5 (s : Shape) (h : Admissible s) :
    LoopsRaceFree s (Gen.smootherGiveAsc.loops.getD 5 default) (Gen.smootherGiveAsc.loops.getD 5 default) (5 == 5) := by
  race_pair h [Gen.smootherGiveAsc]

/-- barrier intervals of the generated region -/
theorem smootherGiveAsc_intervals : intervals Gen.smootherGiveAsc.loops = [[0], [1], [2, 3], [4], [5]] := by decide

theorem smootherGiveAsc_raceFree (s : Shape) (h : Admissible s) : RegionRaceFree s Gen.smootherGiveAsc := by
  apply regionRaceFree_of_intervals _ smootherGiveAsc_intervals
  simp only [List.forall_mem_cons, List.not_mem_nil, false_imp_iff, implies_true, and_true, true_and, and_assoc, Nat.le_refl, forall_const,
    Nat.reduceLeDiff]
  exact ⟨smootherGiveAsc_0_0 s h, smootherGiveAsc_1_1 s h, smootherGiveAsc_2_2 s h, smootherGiveAsc_2_3 s h, smootherGiveAsc_3_3 s h, smootherGiveAsc_4_4 s h, smootherGiveAsc_5_5 s h⟩

theorem exSmootherGiveAsc_0_0 (s : Shape) (h : Admissible s) :
    LoopsRaceFree s (Gen.exSmootherGiveAsc.loops.getD 0 default) (Gen.exSmootherGiveAsc.loops.getD 0 default) (0 == 0) := by
  race_pair h [Gen.exSmootherGiveAsc]

theorem exSmootherGiveAsc_1_1 (s : Shape) (h : Admissible s) :
    LoopsRaceFree s (Gen.exSmootherGiveAsc.loops.getD 1 default) (Gen.exSmootherGiveAsc.loops.getD 1 default) (1 == 1) := by
  race_pair h [Gen.exSmootherGiveAsc]

theorem exSmootherGiveAsc_2_2 (s : Shape) (h : Admissible s) :
    LoopsRaceFree s (Gen.exSmootherGiveAsc.loops.getD 2 default) (Gen.exSmootherGiveAsc.loops.getD 2 default) (2 == 2) := by
  race_pair h [Gen.exSmootherGiveAsc]

theorem exSmootherGiveAsc_2_3 (s : Shape) (h : Admissible s) :
    LoopsRaceFree s (Gen.exSmootherGiveAsc.loops.getD 2 default) (Gen.exSmootherGiveAsc.loops.getD 3 default) (2 == 3) := by
  race_pair h [Gen.exSmootherGiveAsc]

theorem exSmootherGiveAsc_3_3 (s : Shape) (h : Admissible s) :
    LoopsRaceFree s (Gen.exSmootherGiveAsc.loops.getD 3 default) (Gen.exSmootherGiveAsc.loops.getD 3 default) (3 == 3) := by
  race_pair h [Gen.exSmootherGiveAsc]

theorem exSmootherGiveAsc_4_4 (s : Shape) (h : Admissible s) :
    LoopsRaceFree s (Gen.exSmootherGiveAsc.loops.getD 4 default) (Gen.exSmootherGiveAsc.loops.getD 4 default) (4 == 4) := by
  race_pair h [Gen.exSmootherGiveAsc]

theorem exSmootherGiveAsc_5_5 (s : Shape) (h : Admissible s) :
    LoopsRaceFree s (Gen.exSmootherGiveAsc.loops.getD 5 default) (Gen.exSmootherGiveAsc.loops.getD 5 default) (5 == 5) := by
  race_pair h [Gen.exSmootherGiveAsc]

/-- barrier intervals of the generated region -/
theorem exSmootherGiveAsc_intervals : intervals Gen.exSmootherGiveAsc.loops = [[0], [1], [2, 3], [4], [5]] := by decide

theorem exSmootherGiveAsc_raceFree (s : Shape) (h : Admissible s) : RegionRaceFree s Gen.exSmootherGiveAsc := by
  apply regionRaceFree_of_intervals _ exSmootherGiveAsc_intervals
  simp only [List.forall_mem_cons, List.not_mem_nil, false_imp_iff, implies_true, and_true, true_and, and_assoc, Nat.le_refl, forall_const,
    Nat.reduceLeDiff]
  exact ⟨exSmootherGiveAsc_0_0 s h, exSmootherGiveAsc_1_1 s h, exSmootherGiveAsc_2_2 s h, exSmootherGiveAsc_2_3 s h, exSmootherGiveAsc_3_3 s h, exSmootherGiveAsc_4_4 s h, exSmootherGiveAsc_5_5 s h⟩

end Sched.Lem
