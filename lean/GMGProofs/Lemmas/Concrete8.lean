import GMGProofs.Lemmas.Concrete7
/-!
# Bridges between the array form and the field form of the concrete operators
* `x += y` read as a node field; row-major arrays of fields that agree on the grid are equal;
* the list form the direct solver works on (`vget b.toList (i * nt + j)`) is `fld nt b`;
* `DirectCode.solve` keeps the length of the right-hand side;
* `Interp.restrict` at a coarse node reads fine-GRID nodes only when the shapes of the pair and of the two levels fit;
* the residual is affine: `take o (f + g) (x + w) = take o f x + take o g w`.
-/
namespace Concrete
open Stencil Scalar MGCycle SparseLU

section AnyField
variable {K : Type} [_root_.Field K]

/-! ### `addArr` -/

theorem getD_addArr (x y : Array K) (p : Nat) :
    (addArr x y).getD p 0 = if p < x.size then x.getD p 0 + y.getD p 0 else 0 := by
  unfold addArr
  simp only [Array.getD_eq_getD_getElem?, Array.getElem?_ofFn]
  split
  · rename_i h
    simp [Array.getElem?_eq_getElem h]
  · rfl

theorem fld_eq (nt : Nat) (a : Array K) (i j : Nat) : SmootherCode.fld nt a i j = a.getD (i * nt + j) 0 := by
  unfold SmootherCode.fld
  rw [Scalar.n_zero]

/-- `x += y` on the grid, as node fields -/
theorem fld_addArr_grid (nr nt : Nat) (x y : Array K) (hx : nr * nt ≤ x.size) (i j : Nat) (hi : i < nr) (hj : j < nt) :
    SmootherCode.fld nt (addArr x y) i j = SmootherCode.fld nt x i j + SmootherCode.fld nt y i j := by
  have hlt : i * nt + j < nr * nt := SmootherCode.idx_lt hi hj
  rw [fld_eq, fld_eq, fld_eq, getD_addArr, if_pos (by omega)]

theorem addArr_comm_right (a b w : Array K) : addArr (addArr a w) b = addArr (addArr a b) w := by
  apply Array.ext
  · rw [addArr_size, addArr_size, addArr_size, addArr_size]
  · intro p h1 h2
    have hp : p < a.size := by rw [addArr_size, addArr_size] at h1; exact h1
    have e1 : (addArr (addArr a w) b)[p] = (addArr (addArr a w) b).getD p 0 := by
      rw [Array.getD_eq_getD_getElem?, Array.getElem?_eq_getElem h1, Option.getD_some]
    have e2 : (addArr (addArr a b) w)[p] = (addArr (addArr a b) w).getD p 0 := by
      rw [Array.getD_eq_getD_getElem?, Array.getElem?_eq_getElem h2, Option.getD_some]
    rw [e1, e2]
    simp only [getD_addArr, addArr_size, if_pos hp]
    ring

/-! ### row-major arrays -/

set_option linter.unusedSectionVars false in
theorem ofField_congr (nr nt : Nat) (u u' : Stencil.Field K) (h : ∀ i j, i < nr → j < nt → u i j = u' i j) :
    SmootherCode.ofField nr nt u = SmootherCode.ofField nr nt u' := by
  unfold SmootherCode.ofField
  apply Array.ext
  · simp
  · intro p h1 h2
    rw [Array.getElem_ofFn, Array.getElem_ofFn]
    have hp : p < nr * nt := by simpa using h1
    have hnt : 0 < nt := by
      rcases Nat.eq_zero_or_pos nt with h0 | h0
      · rw [h0] at hp; simp at hp
      · exact h0
    exact h _ _ (Nat.div_lt_of_lt_mul (by rwa [Nat.mul_comm] at hp)) (Nat.mod_lt _ hnt)

/-- the list the direct solver reads, as a node field -/
theorem vget_toList (nt : Nat) (b : Array K) :
    (fun i j => vget b.toList (i * nt + j)) = SmootherCode.fld nt b := by
  funext i j
  unfold vget SmootherCode.fld
  rw [List.getD_eq_getElem?_getD, Array.getD_eq_getD_getElem?, Array.getElem?_toList]

/-- the list the direct solver returns, as a node field -/
theorem vget_toArray (nt : Nat) (xs : List K) :
    (fun i j => vget xs (i * nt + j)) = SmootherCode.fld nt xs.toArray := by
  funext i j
  unfold vget SmootherCode.fld
  rw [List.getD_eq_getElem?_getD, Array.getD_eq_getD_getElem?, List.getElem?_toArray]

theorem directSolve_length (T : DirectCode.Tables) (o : Op K) (tiny : K → Bool) (b xs : List K)
    (h : DirectCode.solve T o tiny b = some (some xs)) : xs.length = b.length := by
  unfold DirectCode.solve at h
  obtain ⟨M, _, hM⟩ := Option.map_eq_some_iff.mp h
  exact solve_length_eq tiny _ b xs hM

/-! ### the residual is affine, and depends on the right-hand side at the node only -/

theorem take_add (o : Op K) (f g x w : Stencil.Field K) (i j : Nat) :
    take o (fun a b => f a b + g a b) (fun a b => x a b + w a b) i j = take o f x i j + take o g w i j := by
  rw [take_eq_sub_A, take_eq_sub_A, take_eq_sub_A, Direct.A_add]
  ring

theorem take_congr_rhs (o : Op K) (f f' x : Stencil.Field K) (i j : Nat) (h : f i j = f' i j) :
    take o f x i j = take o f' x i j := by
  rw [take_eq_sub_A, take_eq_sub_A, h]

/-- the row of a Dirichlet inner boundary node -/
theorem take_dirichlet_row (o : Op K) (hbc : o.bc = true) (f x : Stencil.Field K) (j : Nat) :
    take o f x 0 j = f 0 j - x 0 j := by
  unfold take
  rw [if_neg (by omega), if_pos rfl, if_pos hbc]

/-! ### restriction reads grid nodes -/

/-- `Interp.restrict` at the coarse node `(I, J)` reads the fine nodes `(2I + {-1,0,1}, 2J + {-1,0,1} mod ntF)`; these lie on an
    `nr × nt` grid when `2I < nr`, `2I + 1 < nr` whenever the pair looks at the next fine row, `2J + 1 < nt`, `ntF ≤ nt` -/
theorem restrict_congr_grid (p : Interp.Pair K) (nr nt : Nat) (y y' : Stencil.Field K)
    (h : ∀ a b, a < nr → b < nt → y a b = y' a b) (I J : Nat)
    (hI : 2 * I < nr) (hI1 : I + 1 < Interp.nrC p → 2 * I + 1 < nr) (hJ : 2 * J + 1 < nt) (hnt : p.ntF ≤ nt) :
    Interp.restrict p y I J = Interp.restrict p y' I J := by
  have hM1 : Interp.wF p (2 * J + p.ntF - 1) < nt := by
    unfold Interp.wF
    rcases Nat.eq_zero_or_pos p.ntF with h0 | h0
    · rw [h0, Nat.mod_zero]; omega
    · exact Nat.lt_of_lt_of_le (Nat.mod_lt _ h0) hnt
  have hP1 : Interp.wF p (2 * J + 1) < nt := by
    unfold Interp.wF
    exact Nat.lt_of_le_of_lt (Nat.mod_le _ _) hJ
  have e0 : ∀ b, b < nt → y (2 * I) b = y' (2 * I) b := fun b hb => h _ _ hI hb
  have em : ∀ b, b < nt → y (2 * I - 1) b = y' (2 * I - 1) b := fun b hb => h _ _ (by omega) hb
  unfold Interp.restrict
  simp only [e0 _ (by omega : 2 * J < nt), e0 _ hM1, e0 _ hP1, em _ (by omega : 2 * J < nt), em _ hM1, em _ hP1]
  by_cases h2 : I + 1 < Interp.nrC p
  · have ep : ∀ b, b < nt → y (2 * I + 1) b = y' (2 * I + 1) b := fun b hb => h _ _ (hI1 h2) hb
    simp only [if_pos h2, ep _ (by omega : 2 * J < nt), ep _ hM1, ep _ hP1]
  · simp only [if_neg h2]

end AnyField
end Concrete
