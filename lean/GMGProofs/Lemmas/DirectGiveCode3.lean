import GMGProofs.Lemmas.DirectGiveCode2
/-!
# Code-level direct solver (give), lemmas 3 — what the stores of one node address

* `nodeUpdates_int … nodeUpdates_out`: the position classes of `NODE_BUILD_SOLVER_MATRIX_GIVE` as explicit block lists;
* `inb_node`: every store of every node goes to a grid row that accepts its position (`4 ≤ nr` only);
* `cons_node`: the column of every store is the node its position refers to in ITS ROW (`posNode`; `nt` even for the antipode);
* `hit`: every allocated slot of every row receives at least one store;
* `rows_spec`: the assembly succeeds, the rows keep the allocated sizes, every slot is the fold of the stores addressed to it.
-/
set_option linter.unusedSectionVars false
set_option linter.unusedVariables false
set_option linter.unusedSimpArgs false
namespace DirectGiveCode
open Stencil SparseLU DirectCode
variable {K : Type} [_root_.Field K]

section
variable (o : Op K)

/-- the node a position refers to in the row of node `p` -/
def posNode (p : Nat × Nat) : Pos → Nat × Nat
  | .Center => p
  | .Left => if p.1 = 0 then (0, ja o p.2) else (p.1 - 1, p.2)
  | .Right => (p.1 + 1, p.2)
  | .Bottom => (p.1, jm o p.2)
  | .Top => (p.1, jp o p.2)
  | .BottomLeft => (p.1 - 1, jm o p.2)
  | .BottomRight => (p.1 + 1, jm o p.2)
  | .TopLeft => (p.1 - 1, jp o p.2)
  | .TopRight => (p.1 + 1, jp o p.2)

/-- in bounds: the row is a grid row and accepts the position -/
def InB (u : MUpd K) : Prop := u.1.1 < o.nr ∧ u.1.2 < o.nt ∧ ValidPos o u.1.1 u.2.1
/-- consistent: the column is the node the position refers to, with a grid angle -/
def Cons (u : MUpd K) : Prop := u.2.2.1 = posNode o u.1 u.2.1 ∧ u.2.2.1.2 < o.nt

/-! ### the position classes -/

theorem nodeUpdates_int {a : Nat} (b : Nat) (h : 1 < a ∧ a + 2 < o.nr) : nodeUpdates o a b =
    fillC o a b (a - 1, b) ++ fillL o a b ++ fillR o a b ++ fillB o a b ++ fillT o a b := by
  unfold nodeUpdates; rw [if_pos h]

theorem nodeUpdates_zero_bc (b : Nat) (hnr : 4 ≤ o.nr) (hbc : o.bc = true) :
    nodeUpdates o 0 b = fillDirichlet 0 b ++ fillR o 0 b := by
  unfold nodeUpdates; rw [if_neg (by omega), if_pos rfl, if_pos hbc]

theorem nodeUpdates_zero_across (b : Nat) (hnr : 4 ≤ o.nr) (hbc : o.bc = false) : nodeUpdates o 0 b =
    fillC o 0 b (0, ja o b) ++ fillLAcross o b ++ fillR o 0 b ++ fillBAcross o b ++ fillTAcross o b := by
  unfold nodeUpdates; rw [if_neg (by omega), if_pos rfl, hbc]; rfl

theorem nodeUpdates_one_bc (b : Nat) (hnr : 4 ≤ o.nr) (hbc : o.bc = true) : nodeUpdates o 1 b =
    fillC o 1 b (1 - 1, b) ++ fillR o 1 b ++ fillB o 1 b ++ fillT o 1 b := by
  unfold nodeUpdates; rw [if_neg (by omega), if_neg (by omega), if_pos rfl, hbc]; rfl

theorem nodeUpdates_one_across (b : Nat) (hnr : 4 ≤ o.nr) (hbc : o.bc = false) : nodeUpdates o 1 b =
    fillC o 1 b (1 - 1, b) ++ fillL o 1 b ++ fillR o 1 b ++ fillB o 1 b ++ fillT o 1 b := by
  unfold nodeUpdates; rw [if_neg (by omega), if_neg (by omega), if_pos rfl, hbc]; rfl

theorem nodeUpdates_penult {a : Nat} (b : Nat) (h1 : 1 < a) (h : a + 2 = o.nr) : nodeUpdates o a b =
    fillC o a b (a - 1, b) ++ fillL o a b ++ fillB o a b ++ fillT o a b := by
  unfold nodeUpdates; rw [if_neg (by omega), if_neg (by omega), if_neg (by omega), if_pos h]

theorem nodeUpdates_last {a : Nat} (b : Nat) (h1 : 1 < a) (h : a + 1 = o.nr) : nodeUpdates o a b =
    fillDirichlet a b ++ fillL o a b := by
  unfold nodeUpdates; rw [if_neg (by omega), if_neg (by omega), if_neg (by omega), if_neg (by omega), if_pos h]

theorem nodeUpdates_out {a : Nat} (b : Nat) (hnr : 4 ≤ o.nr) (h : o.nr ≤ a) : nodeUpdates o a b = [] := by
  unfold nodeUpdates
  rw [if_neg (by omega), if_neg (by omega), if_neg (by omega), if_neg (by omega), if_neg (by omega)]

/-- the classes of a radial index -/
theorem classes (hnr : 4 ≤ o.nr) (a : Nat) :
    (1 < a ∧ a + 2 < o.nr) ∨ a = 0 ∨ a = 1 ∨ (1 < a ∧ a + 2 = o.nr) ∨ (1 < a ∧ a + 1 = o.nr) ∨ o.nr ≤ a := by omega

/-! ### in bounds -/

/-- a store into a 9-point row is in bounds whatever its position -/
theorem inb9 (i j : Nat) (P : Pos) (c : Nat × Nat) (w : K) (h : 0 < i ∧ i + 1 < o.nr) (hj : j < o.nt) :
    InB o ((i, j), P, c, w) :=
  ⟨by have := h.2; show i < o.nr; omega, hj, Or.inl h⟩

theorem inb7 (j : Nat) (P : Pos) (c : Nat × Nat) (w : K) (hnr : 4 ≤ o.nr) (hb : o.bc = false) (hj : j < o.nt)
    (hs : seven P = true) : InB o ((0, j), P, c, w) :=
  ⟨by show 0 < o.nr; omega, hj, Or.inr (Or.inl ⟨rfl, hb, hs⟩)⟩

theorem inb1 (i j : Nat) (c : Nat × Nat) (w : K) (hnr : 4 ≤ o.nr) (hi : i < o.nr)
    (h : (i = 0 ∧ o.bc = true) ∨ i + 1 = o.nr) (hj : j < o.nt) : InB o ((i, j), .Center, c, w) := by
  refine ⟨hi, hj, Or.inr (Or.inr ⟨?_, ?_, rfl⟩)⟩
  · show ¬ (0 < i ∧ i + 1 < o.nr)
    rcases h with ⟨h, _⟩ | h <;> omega
  · show ¬ (i = 0 ∧ o.bc = false)
    rintro ⟨h1, h2⟩
    rcases h with ⟨_, h⟩ | h
    · rw [h] at h2; cases h2
    · omega

/-- closes `InB o u` for an explicit store `u` -/
macro "inb_tac" : tactic => `(tactic|
  first
  | exact inb9 _ _ _ _ _ _ (by omega) (by assumption)
  | exact inb7 _ _ _ _ _ (by assumption) (by assumption) (by assumption) rfl
  | exact inb1 _ _ _ _ _ (by assumption) (by omega) (Or.inl ⟨rfl, by assumption⟩) (by assumption)
  | exact inb1 _ _ _ _ _ (by assumption) (by omega) (Or.inr (by omega)) (by assumption))

/-- **every store of every node is in bounds** -/
theorem inb_node (hnr : 4 ≤ o.nr) (a b : Nat) (hb : b < o.nt) : ∀ u ∈ nodeUpdates o a b, InB o u := by
  have hpos : 0 < o.nt := by omega
  have hm : jm o b < o.nt := jm_lt o hpos b
  have hp : jp o b < o.nt := jp_lt o hpos b
  have hA : ja o b < o.nt := ja_lt o hpos b
  rcases classes o hnr a with h | rfl | rfl | ⟨h1, h2⟩ | ⟨h1, h2⟩ | h
  · rw [nodeUpdates_int o b h]
    simp only [fillC, fillL, fillR, fillB, fillT, List.cons_append, List.nil_append, List.forall_mem_cons]
    refine ⟨?_, ?_, ?_, ?_, ?_, ?_, ?_, ?_, ?_, ?_, ?_, ?_, ?_, ?_, ?_, ?_, ?_, ?_, ?_, ?_, ?_, ?_, fun _ h => by cases h⟩
    all_goals inb_tac
  · by_cases hbc : o.bc = true
    · rw [nodeUpdates_zero_bc o b hnr hbc]
      simp only [fillDirichlet, fillR, List.cons_append, List.nil_append, List.forall_mem_cons]
      refine ⟨?_, ?_, ?_, ?_, ?_, fun _ h => by cases h⟩
      all_goals inb_tac
    · have hbc' : o.bc = false := by simpa using hbc
      rw [nodeUpdates_zero_across o b hnr hbc']
      simp only [fillC, fillLAcross, fillR, fillBAcross, fillTAcross, List.cons_append, List.nil_append,
        List.forall_mem_cons]
      refine ⟨?_, ?_, ?_, ?_, ?_, ?_, ?_, ?_, ?_, ?_, ?_, ?_, ?_, ?_, ?_, ?_, ?_, ?_, fun _ h => by cases h⟩
      all_goals inb_tac
  · by_cases hbc : o.bc = true
    · rw [nodeUpdates_one_bc o b hnr hbc]
      simp only [fillC, fillR, fillB, fillT, List.cons_append, List.nil_append, List.forall_mem_cons]
      refine ⟨?_, ?_, ?_, ?_, ?_, ?_, ?_, ?_, ?_, ?_, ?_, ?_, ?_, ?_, ?_, ?_, ?_, ?_, fun _ h => by cases h⟩
      all_goals inb_tac
    · have hbc' : o.bc = false := by simpa using hbc
      rw [nodeUpdates_one_across o b hnr hbc']
      simp only [fillC, fillL, fillR, fillB, fillT, List.cons_append, List.nil_append, List.forall_mem_cons]
      refine ⟨?_, ?_, ?_, ?_, ?_, ?_, ?_, ?_, ?_, ?_, ?_, ?_, ?_, ?_, ?_, ?_, ?_, ?_, ?_, ?_, ?_, ?_, fun _ h => by cases h⟩
      all_goals inb_tac
  · rw [nodeUpdates_penult o b h1 h2]
    simp only [fillC, fillL, fillB, fillT, List.cons_append, List.nil_append, List.forall_mem_cons]
    refine ⟨?_, ?_, ?_, ?_, ?_, ?_, ?_, ?_, ?_, ?_, ?_, ?_, ?_, ?_, ?_, ?_, ?_, ?_, fun _ h => by cases h⟩
    all_goals inb_tac
  · rw [nodeUpdates_last o b h1 h2]
    simp only [fillDirichlet, fillL, List.cons_append, List.nil_append, List.forall_mem_cons]
    refine ⟨?_, ?_, ?_, ?_, ?_, fun _ h => by cases h⟩
    all_goals inb_tac
  · rw [nodeUpdates_out o b hnr h]
    intro u hu; cases hu

/-! ### consistency of the columns -/

theorem cons_mk (r : Nat × Nat) (P : Pos) (c : Nat × Nat) (w : K) (h1 : c = posNode o r P) (h2 : c.2 < o.nt) :
    Cons o (r, P, c, w) := ⟨h1, h2⟩

/-- **the column of every store is the node its position refers to in its row** (the antipode of the antipode is the node
    itself: `nt` even, only needed across the origin) -/
theorem cons_node (hnr : 4 ≤ o.nr) (hev : o.bc = false → o.nt % 2 = 0) (a b : Nat) (hb : b < o.nt) :
    ∀ u ∈ nodeUpdates o a b, Cons o u := by
  have hpos : 0 < o.nt := by omega
  have hm : jm o b < o.nt := jm_lt o hpos b
  have hp : jp o b < o.nt := jp_lt o hpos b
  have hA : ja o b < o.nt := ja_lt o hpos b
  have e1 : jp o (jm o b) = b := jp_jm o hb
  have e2 : jm o (jp o b) = b := jm_jp o hb
  rcases classes o hnr a with h | rfl | rfl | ⟨h1, h2⟩ | ⟨h1, h2⟩ | h
  · have h0 : a ≠ 0 := by omega
    rw [nodeUpdates_int o b h]
    simp only [fillC, fillL, fillR, fillB, fillT, List.cons_append, List.nil_append, List.forall_mem_cons]
    refine ⟨?_, ?_, ?_, ?_, ?_, ?_, ?_, ?_, ?_, ?_, ?_, ?_, ?_, ?_, ?_, ?_, ?_, ?_, ?_, ?_, ?_, ?_, fun _ h => by cases h⟩
    all_goals (apply cons_mk; (try simp [posNode, h0, e1, e2]); (try omega); (try assumption))
  · by_cases hbc : o.bc = true
    · rw [nodeUpdates_zero_bc o b hnr hbc]
      simp only [fillDirichlet, fillR, List.cons_append, List.nil_append, List.forall_mem_cons]
      refine ⟨?_, ?_, ?_, ?_, ?_, fun _ h => by cases h⟩
      all_goals (apply cons_mk; (try simp [posNode, e1, e2]); (try omega); (try assumption))
    · have hbc' : o.bc = false := by simpa using hbc
      have e3 : ja o (ja o b) = b := ja_ja o (hev hbc') hb
      rw [nodeUpdates_zero_across o b hnr hbc']
      simp only [fillC, fillLAcross, fillR, fillBAcross, fillTAcross, List.cons_append, List.nil_append,
        List.forall_mem_cons]
      refine ⟨?_, ?_, ?_, ?_, ?_, ?_, ?_, ?_, ?_, ?_, ?_, ?_, ?_, ?_, ?_, ?_, ?_, ?_, fun _ h => by cases h⟩
      all_goals (apply cons_mk; (try simp [posNode, e1, e2, e3]); (try omega); (try assumption))
  · by_cases hbc : o.bc = true
    · rw [nodeUpdates_one_bc o b hnr hbc]
      simp only [fillC, fillR, fillB, fillT, List.cons_append, List.nil_append, List.forall_mem_cons]
      refine ⟨?_, ?_, ?_, ?_, ?_, ?_, ?_, ?_, ?_, ?_, ?_, ?_, ?_, ?_, ?_, ?_, ?_, ?_, fun _ h => by cases h⟩
      all_goals (apply cons_mk; (try simp [posNode, e1, e2]); (try omega); (try assumption))
    · have hbc' : o.bc = false := by simpa using hbc
      rw [nodeUpdates_one_across o b hnr hbc']
      simp only [fillC, fillL, fillR, fillB, fillT, List.cons_append, List.nil_append, List.forall_mem_cons]
      refine ⟨?_, ?_, ?_, ?_, ?_, ?_, ?_, ?_, ?_, ?_, ?_, ?_, ?_, ?_, ?_, ?_, ?_, ?_, ?_, ?_, ?_, ?_, fun _ h => by cases h⟩
      all_goals (apply cons_mk; (try simp [posNode, e1, e2]); (try omega); (try assumption))
  · have h0 : a ≠ 0 := by omega
    rw [nodeUpdates_penult o b h1 h2]
    simp only [fillC, fillL, fillB, fillT, List.cons_append, List.nil_append, List.forall_mem_cons]
    refine ⟨?_, ?_, ?_, ?_, ?_, ?_, ?_, ?_, ?_, ?_, ?_, ?_, ?_, ?_, ?_, ?_, ?_, ?_, fun _ h => by cases h⟩
    all_goals (apply cons_mk; (try simp [posNode, h0, e1, e2]); (try omega); (try assumption))
  · have h0 : a ≠ 0 := by omega
    rw [nodeUpdates_last o b h1 h2]
    simp only [fillDirichlet, fillL, List.cons_append, List.nil_append, List.forall_mem_cons]
    refine ⟨?_, ?_, ?_, ?_, ?_, fun _ h => by cases h⟩
    all_goals (apply cons_mk; (try simp [posNode, h0, e1, e2]); (try omega); (try assumption))
  · rw [nodeUpdates_out o b hnr h]
    intro u hu; cases hu

/-! ### the node order -/

theorem mem_nodeOrder (nc : Nat) {a b : Nat} (ha : a < o.nr) (hb : b < o.nt) : (a, b) ∈ nodeOrder o nc := by
  unfold nodeOrder
  by_cases h : a < nc
  · apply List.mem_append_left
    exact List.mem_flatMap.mpr ⟨a, List.mem_range.mpr h, List.mem_map.mpr ⟨b, List.mem_range.mpr hb, rfl⟩⟩
  · apply List.mem_append_right
    refine List.mem_flatMap.mpr ⟨b, List.mem_range.mpr hb, List.mem_map.mpr ⟨a - nc, List.mem_range.mpr (by omega), ?_⟩⟩
    exact Prod.ext (by show nc + (a - nc) = a; omega) rfl

theorem nodeOrder_snd (nc : Nat) : ∀ p ∈ nodeOrder o nc, p.2 < o.nt := by
  intro p hp
  unfold nodeOrder at hp
  rcases List.mem_append.mp hp with hp | hp
  · obtain ⟨a, _, hp⟩ := List.mem_flatMap.mp hp
    obtain ⟨b, hb, rfl⟩ := List.mem_map.mp hp
    exact List.mem_range.mp hb
  · obtain ⟨b, hb, hp⟩ := List.mem_flatMap.mp hp
    obtain ⟨t, _, rfl⟩ := List.mem_map.mp hp
    exact List.mem_range.mp hb

theorem mem_allUpdates (nc : Nat) {a b : Nat} (ha : a < o.nr) (hb : b < o.nt) {u : MUpd K}
    (hu : u ∈ nodeUpdates o a b) : u ∈ allUpdates o nc :=
  List.mem_flatMap.mpr ⟨(a, b), mem_nodeOrder o nc ha hb, hu⟩

theorem allUpdates_inb (hnr : 4 ≤ o.nr) (nc : Nat) : ∀ u ∈ allUpdates o nc, InB o u := by
  intro u hu
  obtain ⟨p, hp, hu⟩ := List.mem_flatMap.mp hu
  exact inb_node o hnr p.1 p.2 (nodeOrder_snd o nc p hp) u hu

theorem allUpdates_cons (hnr : 4 ≤ o.nr) (hev : o.bc = false → o.nt % 2 = 0) (nc : Nat) :
    ∀ u ∈ allUpdates o nc, Cons o u := by
  intro u hu
  obtain ⟨p, hp, hu⟩ := List.mem_flatMap.mp hu
  exact cons_node o hnr hev p.1 p.2 (nodeOrder_snd o nc p hp) u hu

/-! ### every allocated slot receives a store -/

theorem fillC_has (a b : Nat) (l : Nat × Nat) (P : Pos)
    (hP : P = .Center ∨ P = .Left ∨ P = .Right ∨ P = .Bottom ∨ P = .Top) :
    ∃ u ∈ fillC o a b l, u.1 = (a, b) ∧ u.2.1 = P := by
  rcases hP with rfl | rfl | rfl | rfl | rfl <;> simp [fillC]

theorem fillT_has (a b : Nat) (P : Pos) (hP : P = .BottomRight ∨ P = .BottomLeft) :
    ∃ u ∈ fillT o a b, u.1 = (a, jp o b) ∧ u.2.1 = P := by
  rcases hP with rfl | rfl <;> simp [fillT]

theorem fillB_has (a b : Nat) (P : Pos) (hP : P = .TopRight ∨ P = .TopLeft) :
    ∃ u ∈ fillB o a b, u.1 = (a, jm o b) ∧ u.2.1 = P := by
  rcases hP with rfl | rfl <;> simp [fillB]

theorem fillTAcross_has (b : Nat) : ∃ u ∈ fillTAcross o b, u.1 = (0, jp o b) ∧ u.2.1 = .BottomRight := by
  simp [fillTAcross]

theorem fillBAcross_has (b : Nat) : ∃ u ∈ fillBAcross o b, u.1 = (0, jm o b) ∧ u.2.1 = .TopRight := by
  simp [fillBAcross]

/-- the blocks every node of a 9-point row performs -/
theorem sub9 (hnr : 4 ≤ o.nr) {a : Nat} (b : Nat) (h : 0 < a ∧ a + 1 < o.nr) (u : MUpd K)
    (hu : u ∈ fillC o a b (a - 1, b) ∨ u ∈ fillB o a b ∨ u ∈ fillT o a b) : u ∈ nodeUpdates o a b := by
  rcases (by omega : (1 < a ∧ a + 2 < o.nr) ∨ a = 1 ∨ (1 < a ∧ a + 2 = o.nr)) with h' | rfl | ⟨h1, h2⟩
  · rw [nodeUpdates_int o b h']; simp only [List.mem_append]; tauto
  · by_cases hbc : o.bc = true
    · rw [nodeUpdates_one_bc o b hnr hbc]; simp only [List.mem_append]; tauto
    · rw [nodeUpdates_one_across o b hnr (by simpa using hbc)]; simp only [List.mem_append]; tauto
  · rw [nodeUpdates_penult o b h1 h2]; simp only [List.mem_append]; tauto

/-- **every position a row accepts is stored at least once** -/
theorem hit_pos (hnr : 4 ≤ o.nr) (nc : Nat) {i j : Nat} (hi : i < o.nr) (hj : j < o.nt) (P : Pos)
    (hv : ValidPos o i P) : ∃ u ∈ allUpdates o nc, u.1 = (i, j) ∧ u.2.1 = P := by
  have hpos : 0 < o.nt := by omega
  have hm : jm o j < o.nt := jm_lt o hpos j
  have hp : jp o j < o.nt := jp_lt o hpos j
  have e1 : jp o (jm o j) = j := jp_jm o hj
  have e2 : jm o (jp o j) = j := jm_jp o hj
  rcases hv with h | ⟨rfl, hb, hs⟩ | ⟨h1, h2, rfl⟩
  · -- 9-point row
    rcases (by cases P <;> simp :
        (P = .Center ∨ P = .Left ∨ P = .Right ∨ P = .Bottom ∨ P = .Top) ∨ (P = .BottomRight ∨ P = .BottomLeft)
          ∨ (P = .TopRight ∨ P = .TopLeft)) with hP | hP | hP
    · obtain ⟨u, hu, h1, h2⟩ := fillC_has o i j (i - 1, j) P hP
      exact ⟨u, mem_allUpdates o nc hi hj (sub9 o hnr j h u (Or.inl hu)), h1, h2⟩
    · obtain ⟨u, hu, h1, h2⟩ := fillT_has o i (jm o j) P hP
      exact ⟨u, mem_allUpdates o nc hi hm (sub9 o hnr _ h u (Or.inr (Or.inr hu))), by rw [h1, e1], h2⟩
    · obtain ⟨u, hu, h1, h2⟩ := fillB_has o i (jp o j) P hP
      exact ⟨u, mem_allUpdates o nc hi hp (sub9 o hnr _ h u (Or.inr (Or.inl hu))), by rw [h1, e2], h2⟩
  · -- across the origin
    have hmem : ∀ b (u : MUpd K), (u ∈ fillC o 0 b (0, ja o b) ∨ u ∈ fillBAcross o b ∨ u ∈ fillTAcross o b) →
        u ∈ nodeUpdates o 0 b := by
      intro b u hu
      rw [nodeUpdates_zero_across o b hnr hb]; simp only [List.mem_append]; tauto
    rcases (by cases P <;> simp_all [seven] :
        (P = .Center ∨ P = .Left ∨ P = .Right ∨ P = .Bottom ∨ P = .Top) ∨ P = .BottomRight ∨ P = .TopRight) with
      hP | rfl | rfl
    · obtain ⟨u, hu, h1, h2⟩ := fillC_has o 0 j (0, ja o j) P hP
      exact ⟨u, mem_allUpdates o nc hi hj (hmem j u (Or.inl hu)), h1, h2⟩
    · obtain ⟨u, hu, h1, h2⟩ := fillTAcross_has o (jm o j)
      exact ⟨u, mem_allUpdates o nc hi hm (hmem _ u (Or.inr (Or.inr hu))), by rw [h1, e1], h2⟩
    · obtain ⟨u, hu, h1, h2⟩ := fillBAcross_has o (jp o j)
      exact ⟨u, mem_allUpdates o nc hi hp (hmem _ u (Or.inr (Or.inl hu))), by rw [h1, e2], h2⟩
  · -- Dirichlet row
    refine ⟨((i, j), .Center, (i, j), Scalar.n 1), mem_allUpdates o nc hi hj ?_, rfl, rfl⟩
    rcases classes o hnr i with h | rfl | rfl | ⟨h3, h4⟩ | ⟨h3, h4⟩ | h
    · omega
    · have hbc : o.bc = true := by
        cases hb : o.bc with
        | true => rfl
        | false => exact absurd ⟨rfl, hb⟩ h2
      rw [nodeUpdates_zero_bc o j hnr hbc]; simp [fillDirichlet]
    · omega
    · omega
    · rw [nodeUpdates_last o j h3 h4]; simp [fillDirichlet]
    · omega

theorem slotPos_valid {i : Nat} (hi : i < o.nr) {q : Nat} (hq : q < rowSize o i) : ValidPos o i (slotPos o i q) := by
  by_cases h : 0 < i ∧ i + 1 < o.nr
  · exact Or.inl h
  · by_cases h0 : i = 0 ∧ o.bc = false
    · obtain ⟨rfl, hb⟩ := h0
      rw [rowSize_origin o hb] at hq
      rw [slotPos_origin o hb]
      refine Or.inr (Or.inl ⟨rfl, hb, ?_⟩)
      have : ∀ q, q < 7 → seven (pos7 q) = true := by decide
      exact this q hq
    · exact Or.inr (Or.inr ⟨h, h0, slotPos_db o h h0 q⟩)

theorem slotPos_inj {i q q' : Nat} (hq : q < rowSize o i) (hq' : q' < rowSize o i)
    (h : slotPos o i q = slotPos o i q') : q = q' := by
  by_cases hc : 0 < i ∧ i + 1 < o.nr
  · rw [rowSize_int o hc] at hq hq'
    rw [slotPos_int o hc, slotPos_int o hc] at h
    have : ∀ q, q < 9 → ∀ q', q' < 9 → pos9 q = pos9 q' → q = q' := by decide
    exact this q hq q' hq' h
  · by_cases h0 : i = 0 ∧ o.bc = false
    · obtain ⟨rfl, hb⟩ := h0
      rw [rowSize_origin o hb] at hq hq'
      rw [slotPos_origin o hb, slotPos_origin o hb] at h
      have : ∀ q, q < 7 → ∀ q', q' < 7 → pos7 q = pos7 q' → q = q' := by decide
      exact this q hq q' hq' h
    · rw [rowSize_db o hc h0] at hq hq'
      omega

end

section
variable (T : Tables) (o : Op K)

theorem rowIdx_div {u : MUpd K} (h : u.1.2 < o.nt) : rowIdx o u / o.nt = u.1.1 := by
  unfold rowIdx
  have hpos : 0 < o.nt := by omega
  rw [Nat.mul_comm, Nat.mul_add_div hpos, Nat.div_eq_of_lt h, Nat.add_zero]

/-- every allocated slot of every row receives at least one store -/
theorem hit_slot (hT : GoodTables T) (hnr : 4 ≤ o.nr) (nc : Nat) {i j : Nat} (hi : i < o.nr) (hj : j < o.nt) {q : Nat}
    (hq : q < rowSize o i) : ∃ u ∈ allUpdates o nc, addr T o u = some (i * o.nt + j, q) := by
  obtain ⟨u, hu, h1, h2⟩ := hit_pos o hnr nc hi hj (slotPos o i q) (slotPos_valid o hi hq)
  have hin := allUpdates_inb o hnr nc u hu
  obtain ⟨q', ha, hq', hs⟩ := addr_valid T o hT hnr u hin.1 hin.2.2
  have hr : rowIdx o u = i * o.nt + j := by unfold rowIdx; rw [h1]
  have hi' : u.1.1 = i := by rw [h1]
  rw [hi'] at hq' hs
  rw [h2] at hs
  rw [slotPos_inj o hq' hq hs, hr] at ha
  exact ⟨u, hu, ha⟩

theorem rlen_init' (r : Nat) : rlen (init o) r = if r < o.nr * o.nt then rowSize o (r / o.nt) else 0 := by
  unfold rlen init
  rw [SparseLU.getD_map_range]
  split
  · rw [List.length_replicate]
  · rfl

/-- **the assembly succeeds; the rows keep the allocated sizes; every slot is the fold of the stores addressed to it** -/
theorem rows_spec (hT : GoodTables T) (hnr : 4 ≤ o.nr) (nc : Nat) :
    ∃ rsf, rows T o nc = some rsf ∧ rsf.length = o.nr * o.nt ∧
      (∀ r, rlen rsf r = if r < o.nr * o.nt then rowSize o (r / o.nt) else 0) ∧
      ∀ r q, rd rsf r q = slotFold (addr T o) (colIdx o) val (r, q) (0, Scalar.n 0) (allUpdates o nc) := by
  rw [rows_eq_run T o nc (init o) (initRows_eq o hnr)]
  obtain ⟨rsf, h1, h2, h3, h4⟩ := run_spec (addr T o) (colIdx o) val (allUpdates o nc) (init o) (by
    intro u hu
    have hin := allUpdates_inb o hnr nc u hu
    obtain ⟨q, ha, hq, _⟩ := addr_valid T o hT hnr u hin.1 hin.2.2
    refine ⟨_, ha, ?_⟩
    show q < rlen (init o) (rowIdx o u)
    rw [rlen_init', rowIdx_div o hin.2.1, if_pos]
    · exact hq
    · unfold rowIdx; exact Direct.idx_lt hin.1 hin.2.1)
  refine ⟨rsf, h1, by rw [h2, init_length], fun r => by rw [h3, rlen_init'], fun r q => ?_⟩
  rw [h4, rd_init]

end
end DirectGiveCode
