import GMGProofs.Lemmas.Setup1
/-!
# Helper lemmas for C20s — no cycle writes a level right-hand side (no hypothesis on the level count)
-/
namespace Setup
open MGCycle

/-- no instruction of the program writes a `.rhs` buffer -/
def noRhsWrite (p : List Instr) : Bool := p.all fun i => (writes i).all fun r => r.2 != Buf.rhs

theorem noRhsWrite_append (p q : List Instr) : noRhsWrite (p ++ q) = (noRhsWrite p && noRhsWrite q) := by
  simp [noRhsWrite, List.all_append]

theorem noRhsWrite_cons (i : Instr) (p : List Instr) :
    noRhsWrite (i :: p) = ((writes i).all (fun r => r.2 != Buf.rhs) && noRhsWrite p) := rfl

theorem noRhsWrite_replicate (n : Nat) (i : Instr) (h : (writes i).all (fun r => r.2 != Buf.rhs) = true) :
    noRhsWrite (List.replicate n i) = true := by
  induction n with
  | zero => rfl
  | succ n ih => rw [List.replicate_succ, noRhsWrite_cons, h, ih]; rfl

theorem plain_noRhsWrite (cy : MGCycle.Cfg) :
    ∀ (fuel : Nat) (k : Kind) (d : Nat) (x rhs tmp : Ref), x.2 ≠ Buf.rhs → tmp.2 ≠ Buf.rhs →
      noRhsWrite (plain cy k fuel d x rhs tmp) = true := by
  intro fuel
  induction fuel with
  | zero => intros; rfl
  | succ fuel ih =>
    intro k d x rhs tmp hx ht
    have hrec : ∀ k', noRhsWrite (plain cy k' fuel (d + 1) (d + 1, .res) (d + 1, .err) (d + 1, .sol)) = true :=
      fun k' => ih k' (d + 1) _ _ _ (by simp) (by simp)
    have hS : (writes (.smooth d x rhs tmp)).all (fun r => r.2 != Buf.rhs) = true := by simp [writes, hx, ht]
    simp only [plain, noRhsWrite_append, noRhsWrite_replicate _ _ hS, Bool.true_and, Bool.and_true]
    split
    · simp [noRhsWrite, writes, hx, ht]
    · cases k <;> simp [noRhsWrite_append, noRhsWrite_cons, hrec, writes, hx, ht] <;> simp [noRhsWrite]

theorem exSm_write (fgs : Bool) (d : Nat) (x rhs tmp : Ref) (hx : x.2 ≠ Buf.rhs) (ht : tmp.2 ≠ Buf.rhs) :
    (writes (exSm fgs d x rhs tmp)).all (fun r => r.2 != Buf.rhs) = true := by
  unfold exSm; split <;> simp [writes, hx, ht]

theorem extrap_noRhsWrite (cy : MGCycle.Cfg) (k : Kind) (fgs : Bool) (d : Nat) (x rhs tmp : Ref) (hx : x.2 ≠ Buf.rhs)
    (ht : tmp.2 ≠ Buf.rhs) : noRhsWrite (extrap cy k fgs d x rhs tmp) = true := by
  have hrec : ∀ k' f, noRhsWrite (plain cy k' f (d + 1) (d + 1, .res) (d + 1, .err) (d + 1, .sol)) = true :=
    fun k' f => plain_noRhsWrite cy f k' (d + 1) _ _ _ (by simp) (by simp)
  simp only [extrap, noRhsWrite_append, noRhsWrite_replicate _ _ (exSm_write fgs d x rhs tmp hx ht), Bool.true_and,
    Bool.and_true]
  split
  · simp [noRhsWrite, writes, hx, ht]
  · cases k <;> simp [noRhsWrite_append, noRhsWrite_cons, hrec, writes, hx, ht] <;> simp [noRhsWrite]

theorem cycleAt_noRhsWrite (cy : MGCycle.Cfg) (k : Kind) (ex fgs : Bool) (d : Nat) :
    noRhsWrite (cycleAt cy k ex fgs d) = true := by
  unfold cycleAt
  split
  · exact extrap_noRhsWrite cy k fgs d _ _ _ (by simp) (by simp)
  · exact plain_noRhsWrite cy _ k d _ _ _ (by simp) (by simp)

end Setup
