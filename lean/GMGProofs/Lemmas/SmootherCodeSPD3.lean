import GMGProofs.Lemmas.SmootherCodeSPD2
/-!
# Helper lemmas for C06d, part 3: the quadratic form of a stored radial matrix

The last entry of the line vector belongs to the outer Dirichlet node (identity row, coupling stored as zero):
`Q (radial matrix) xs = ⟨A e, e⟩ + xs_last²` for the field `e` carrying all but the last entry of `xs` on the line.
-/
set_option linter.unusedSectionVars false
namespace SmootherCode
open Stencil Tridiag C06c Finset
variable {K : Type} [_root_.Field K]

/-- the field carrying `xs` (without its last entry) on the nodes `nc ≤ a < nr - 1` of radial line `j` -/
def radialField (o : Op K) (nc j : Nat) (xs : List K) : Stencil.Field K :=
  withRadial nc (fun _ _ => 0) j (fun a => if a + 1 < o.nr then xs.getD (a - nc) 0 else 0)

theorem radialField_apply (o : Op K) (nc j : Nat) (xs : List K) (a b : Nat) :
    radialField o nc j xs a b = if nc ≤ a ∧ a + 1 < o.nr ∧ b = j then xs.getD (a - nc) 0 else 0 := by
  unfold radialField withRadial
  by_cases h1 : nc ≤ a <;> by_cases h2 : a + 1 < o.nr <;> by_cases h3 : b = j <;> simp [h1, h2, h3]

/-- the rows below the Dirichlet row do not see the entry of the Dirichlet node (its coupling is stored as zero) -/
theorem radialRow_trunc (o : Op K) (nc j : Nat) (xs : List K) (i : Nat) (hir : i + 1 < o.nr) :
    radialRow o nc j (fun a => if a + 1 < o.nr then xs.getD (a - nc) 0 else 0) i
      = radialRow o nc j (fun a => xs.getD (a - nc) 0) i := by
  simp only [radialRow, if_neg (by omega : ¬ i + 1 = o.nr), if_pos hir]
  by_cases h1 : i = nc
  · by_cases h2 : i + 2 = o.nr
    · simp only [if_pos h1, if_pos h2]
    · simp only [if_pos h1, if_neg h2, if_pos (by omega : i + 1 + 1 < o.nr)]
  · by_cases h2 : i + 2 = o.nr
    · simp only [if_neg h1, if_pos h2, if_pos (by omega : i - 1 + 1 < o.nr)]
    · simp only [if_neg h1, if_neg h2, if_pos (by omega : i + 1 + 1 < o.nr), if_pos (by omega : i - 1 + 1 < o.nr)]

/-- the operator row on the line is the row of the stored matrix -/
theorem A_radialField (o : Op K) (nc j : Nat) (xs : List K) (i : Nat) (hnc : 2 ≤ nc) (hnr : nc + 3 ≤ o.nr)
    (hnt : 2 ≤ o.nt) (hi : nc ≤ i) (hir : i + 1 < o.nr) :
    A o (radialField o nc j xs) i j = radialRow o nc j (fun a => xs.getD (a - nc) 0) i := by
  unfold A radialField
  have hv : (fun a => if a + 1 < o.nr then xs.getD (a - nc) 0 else (0 : K)) (o.nr - 1)
      = (fun _ _ => (0 : K)) (o.nr - 1) j := by
    show (if o.nr - 1 + 1 < o.nr then xs.getD (o.nr - 1 - nc) 0 else (0 : K)) = 0
    rw [if_neg (by omega)]
  rw [radial_split o nc _ _ _ i j hnc hnr hnt hi (by omega) hv, orthoRadial_zero,
    radialRow_trunc o nc j xs i hir]
  ring

/-- the quadratic form of the stored radial matrix as a sum over its rows -/
theorem radial_Q_eq_sum (o : Op K) (nc j : Nat) (hnc : 1 ≤ nc) (hnr : nc + 3 ≤ o.nr) (hj : j < o.nt)
    (xs : List K) (hxs : xs.length = o.nr - nc) :
    Q (radialMain o nc j) (radialSub o nc j) xs
      = ∑ t ∈ range (o.nr - nc), xs.getD t 0 * radialRow o nc j (fun a => xs.getD (a - nc) 0) (nc + t) := by
  have hmain : (radialMain o nc j).length = o.nr - nc := by simp [radialMain]
  have hsub : (radialSub o nc j).length + 1 = (radialMain o nc j).length := by
    simp [radialMain, radialSub]; omega
  have h := dot_mulT (radialMain o nc j) (radialSub o nc j) xs (by rw [hmain, hxs]) hsub 0
  rw [zero_mul, zero_add] at h
  rw [← h, dot_eq_sum xs _ (o.nr - nc) (by omega)]
  apply Finset.sum_congr rfl; intro t ht
  have := radial_matrix_rows o nc j (fun i => xs.getD (i - nc) 0) hnr hnc hj t (by simpa using ht)
  rw [← list_eq_map_range_shift xs (o.nr - nc) nc hxs] at this
  rw [this]

/-- the energy of the field supported on the line as a sum over the rows below the Dirichlet row -/
theorem radial_inner_eq_sum (o : Op K) (nc j : Nat) (hnc : 2 ≤ nc) (hnr : nc + 3 ≤ o.nr) (hnt : 2 ≤ o.nt)
    (hj : j < o.nt) (xs : List K) :
    inner o (A o (radialField o nc j xs)) (radialField o nc j xs)
      = ∑ t ∈ range (o.nr - nc - 1), xs.getD t 0 * radialRow o nc j (fun a => xs.getD (a - nc) 0) (nc + t) := by
  unfold inner
  have hcol : ∀ a, ∑ b ∈ range o.nt, A o (radialField o nc j xs) a b * radialField o nc j xs a b
      = A o (radialField o nc j xs) a j * radialField o nc j xs a j := by
    intro a
    rw [Finset.sum_eq_single j]
    · intro b _ hb
      rw [radialField_apply, if_neg (by intro h; exact hb h.2.2)]; ring
    · intro h; exfalso; apply h; simp only [Finset.mem_range]; exact hj
  simp only [hcol]
  have e1 : o.nr = nc + (o.nr - nc - 1 + 1) := by omega
  conv_lhs => rw [e1]
  rw [Finset.sum_range_add, Finset.sum_range_succ]
  have z1 : ∑ a ∈ range nc, A o (radialField o nc j xs) a j * radialField o nc j xs a j = 0 := by
    apply Finset.sum_eq_zero; intro a ha
    have : a < nc := by simpa using ha
    rw [radialField_apply, if_neg (by omega)]; ring
  have z2 : radialField o nc j xs (nc + (o.nr - nc - 1)) j = 0 := by
    rw [radialField_apply, if_neg (by omega)]
  rw [z1, z2, zero_add, mul_zero, add_zero]
  apply Finset.sum_congr rfl; intro t ht
  have ht' : t < o.nr - nc - 1 := by simpa using ht
  rw [A_radialField o nc j xs (nc + t) hnc hnr hnt (by omega) (by omega), radialField_apply,
    if_pos ⟨by omega, by omega, rfl⟩, Nat.add_sub_cancel_left]
  ring

/-- `Q = energy + (entry of the Dirichlet node)²` -/
theorem radial_Q_eq_inner (o : Op K) (nc j : Nat) (hnc : 2 ≤ nc) (hnr : nc + 3 ≤ o.nr) (hnt : 2 ≤ o.nt)
    (hj : j < o.nt) (xs : List K) (hxs : xs.length = o.nr - nc) :
    Q (radialMain o nc j) (radialSub o nc j) xs
      = inner o (A o (radialField o nc j xs)) (radialField o nc j xs)
        + xs.getD (o.nr - nc - 1) 0 * xs.getD (o.nr - nc - 1) 0 := by
  rw [radial_Q_eq_sum o nc j (by omega) hnr hj xs hxs, radial_inner_eq_sum o nc j hnc hnr hnt hj xs]
  have e1 : o.nr - nc = o.nr - nc - 1 + 1 := by omega
  conv_lhs => rw [e1]
  rw [Finset.sum_range_succ]
  congr 1
  unfold radialRow
  rw [if_pos (by omega)]
  have : nc + (o.nr - nc - 1) - nc = o.nr - nc - 1 := by omega
  simp only [this]

/-- the field supported on a radial line vanishes on the Dirichlet nodes -/
theorem radialField_V0 (o : Op K) (nc j : Nat) (xs : List K) (hnc : 1 ≤ nc) : V0 o (radialField o nc j xs) := by
  constructor
  · intro b; rw [radialField_apply, if_neg (by omega)]
  · intro _ b; rw [radialField_apply, if_neg (by omega)]

end SmootherCode
