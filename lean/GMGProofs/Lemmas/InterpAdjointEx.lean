import GMGProofs.Lemmas.InterpAdjoint
/-!
# Adjointness of `exProlong` / `exRestrict` (C08)

Not a tensor product (anti-diagonal pair at odd/odd nodes): the fine double sum is split into the four parity
classes, the coarse double sum into the seven stencil directions of `exRestrict`, and the directions are matched
by the one-sided radial shifts and the cyclic angular shift.
-/
open Finset InterpSums

namespace Interp
variable {K : Type} [_root_.Field K]

/-! ### node values -/

theorem exProlong_ee (p : Pair K) (x : Field K) (I J : ℕ) : exProlong p x (2 * I) (2 * J) = x I J := by
  have h1 : ¬ (2 * I) % 2 = 1 := by omega
  have h2 : ¬ (2 * J) % 2 = 1 := by omega
  have e1 : 2 * I / 2 = I := by omega
  have e2 : 2 * J / 2 = J := by omega
  simp only [exProlong, h1, h2, if_false, e1, e2]

theorem exProlong_eo (p : Pair K) (x : Field K) (I J : ℕ) :
    exProlong p x (2 * I) (2 * J + 1) = half * (x I J + x I (wC p (J + 1))) := by
  have h1 : ¬ (2 * I) % 2 = 1 := by omega
  have h2 : (2 * J + 1) % 2 = 1 := by omega
  have e1 : 2 * I / 2 = I := by omega
  have e2 : (2 * J + 1) / 2 = J := by omega
  simp only [exProlong, h1, h2, if_false, if_true, e1, e2]

theorem exProlong_oe (p : Pair K) (x : Field K) (I J : ℕ) :
    exProlong p x (2 * I + 1) (2 * J) = half * (x I J + x (I + 1) J) := by
  have h1 : (2 * I + 1) % 2 = 1 := by omega
  have h2 : ¬ (2 * J) % 2 = 1 := by omega
  have e1 : (2 * I + 1) / 2 = I := by omega
  have e2 : 2 * J / 2 = J := by omega
  simp only [exProlong, h1, h2, if_false, if_true, e1, e2]

theorem exProlong_oo (p : Pair K) (x : Field K) (I J : ℕ) :
    exProlong p x (2 * I + 1) (2 * J + 1) = half * (x (I + 1) J + x I (wC p (J + 1))) := by
  have h1 : (2 * I + 1) % 2 = 1 := by omega
  have h2 : (2 * J + 1) % 2 = 1 := by omega
  have e1 : (2 * I + 1) / 2 = I := by omega
  have e2 : (2 * J + 1) / 2 = J := by omega
  simp only [exProlong, h1, h2, if_true, e1, e2]

theorem exRestrict_eq (p : Pair K) (y : Field K) (I J : ℕ) :
    exRestrict p y I J = y (2 * I) (2 * J)
      + (if I > 0 then half * y (2 * I - 1) (2 * J) else 0)
      + (if I + 1 < nrC p then half * y (2 * I + 1) (2 * J) else 0)
      + half * y (2 * I) (wF p (2 * J + p.ntF - 1))
      + half * y (2 * I) (wF p (2 * J + 1))
      + (if I + 1 < nrC p then half * y (2 * I + 1) (wF p (2 * J + p.ntF - 1)) else 0)
      + (if I > 0 then half * y (2 * I - 1) (wF p (2 * J + 1)) else 0) := by
  simp only [exRestrict]
  split_ifs <;> ring

/-! ### sums -/

theorem sum_ite_out (c : Prop) [Decidable c] (f : ℕ → K) (s : Finset ℕ) :
    ∑ J ∈ s, (if c then f J else 0) = if c then ∑ J ∈ s, f J else 0 := by
  split_ifs <;> simp

/-- the seven directions, regrouped into full rows and shifted half rows -/
theorem sum_seven (m q : ℕ) (t1 t2 t3 t4 t5 t6 t7 : ℕ → ℕ → K) :
    ∑ I ∈ range (m + 1), ∑ J ∈ range q,
        (t1 I J + (if I > 0 then t2 I J else 0) + (if I + 1 < m + 1 then t3 I J else 0) + t4 I J + t5 I J
          + (if I + 1 < m + 1 then t6 I J else 0) + (if I > 0 then t7 I J else 0))
      = ∑ I ∈ range (m + 1), ∑ J ∈ range q, (t1 I J + t4 I J + t5 I J)
        + ∑ I ∈ range m, ∑ J ∈ range q, (t2 (I + 1) J + t3 I J + t6 I J + t7 (I + 1) J) := by
  simp only [Finset.sum_add_distrib, sum_ite_out]
  rw [sum_left (fun I => ∑ J ∈ range q, t2 I J) m, sum_left (fun I => ∑ J ∈ range q, t7 I J) m,
    sum_right (fun I => ∑ J ∈ range q, t3 I J) m, sum_right (fun I => ∑ J ∈ range q, t6 I J) m]
  ring

/-- cyclic shift of the `θ-1` direction -/
theorem sum_wrapM1 (q : ℕ) (a z : ℕ → K) :
    ∑ J ∈ range q, a J * z ((2 * J + 2 * q - 1) % (2 * q)) = ∑ J ∈ range q, a ((J + 1) % q) * z (2 * J + 1) := by
  rw [← sum_shift q (fun J => a J * z ((2 * J + 2 * q - 1) % (2 * q)))]
  apply Finset.sum_congr rfl
  intro J hJ
  have hJ' : J < q := by simpa using hJ
  simp only [wrapM1_succ J q hJ']

theorem sum_wrapP1 (q : ℕ) (a z : ℕ → K) :
    ∑ J ∈ range q, a J * z ((2 * J + 1) % (2 * q)) = ∑ J ∈ range q, a J * z (2 * J + 1) := by
  apply Finset.sum_congr rfl
  intro J hJ
  have hJ' : J < q := by simpa using hJ
  rw [wrapP1 J q hJ']

/-- even fine row -/
theorem row_even (q : ℕ) (c : K) (a z : ℕ → K) :
    ∑ J ∈ range q, (a J * z (2 * J) + a J * (c * z ((2 * J + 2 * q - 1) % (2 * q)))
        + a J * (c * z ((2 * J + 1) % (2 * q))))
      = ∑ J ∈ range q, a J * z (2 * J) + ∑ J ∈ range q, c * (a J + a ((J + 1) % q)) * z (2 * J + 1) := by
  have e1 := sum_wrapM1 q a (fun j => c * z j)
  have e2 := sum_wrapP1 q a (fun j => c * z j)
  rw [Finset.sum_add_distrib, Finset.sum_add_distrib, e1, e2, add_assoc, ← Finset.sum_add_distrib]
  congr 1
  apply Finset.sum_congr rfl
  intro J _
  ring

/-- odd fine row: `a` the coarse row below, `b` the coarse row above -/
theorem row_odd (q : ℕ) (c : K) (a b z : ℕ → K) :
    ∑ J ∈ range q, (b J * (c * z (2 * J)) + a J * (c * z (2 * J))
        + a J * (c * z ((2 * J + 2 * q - 1) % (2 * q))) + b J * (c * z ((2 * J + 1) % (2 * q))))
      = ∑ J ∈ range q, c * (a J + b J) * z (2 * J) + ∑ J ∈ range q, c * (b J + a ((J + 1) % q)) * z (2 * J + 1) := by
  have e1 := sum_wrapM1 q a (fun j => c * z j)
  have e2 := sum_wrapP1 q b (fun j => c * z j)
  rw [Finset.sum_add_distrib, Finset.sum_add_distrib, Finset.sum_add_distrib, e1, e2]
  simp only [← Finset.sum_add_distrib]
  apply Finset.sum_congr rfl
  intro J _
  ring

theorem adjoint_ex_mq (p : Pair K) (m q : ℕ) (hnr : p.nrF = 2 * m + 1) (hnt : p.ntF = 2 * q) (x y : Field K) :
    ∑ i ∈ range p.nrF, ∑ j ∈ range p.ntF, exProlong p x i j * y i j
      = ∑ I ∈ range (nrC p), ∑ J ∈ range (ntC p), x I J * exRestrict p y I J := by
  have hc : nrC p = m + 1 := by unfold nrC; omega
  have hq : ntC p = q := by unfold ntC; omega
  -- right-hand side: seven directions
  have rhs : ∀ I J, x I J * exRestrict p y I J
      = x I J * y (2 * I) (2 * J)
        + (if I > 0 then x I J * (half * y (2 * I - 1) (2 * J)) else 0)
        + (if I + 1 < m + 1 then x I J * (half * y (2 * I + 1) (2 * J)) else 0)
        + x I J * (half * y (2 * I) ((2 * J + 2 * q - 1) % (2 * q)))
        + x I J * (half * y (2 * I) ((2 * J + 1) % (2 * q)))
        + (if I + 1 < m + 1 then x I J * (half * y (2 * I + 1) ((2 * J + 2 * q - 1) % (2 * q))) else 0)
        + (if I > 0 then x I J * (half * y (2 * I - 1) ((2 * J + 1) % (2 * q))) else 0) := by
    intro I J
    rw [exRestrict_eq]
    simp only [wF, hc, hnt]
    split_ifs <;> ring
  simp only [hc, hq, rhs]
  rw [sum_seven m q (fun I J => x I J * y (2 * I) (2 * J))
    (fun I J => x I J * (half * y (2 * I - 1) (2 * J)))
    (fun I J => x I J * (half * y (2 * I + 1) (2 * J)))
    (fun I J => x I J * (half * y (2 * I) ((2 * J + 2 * q - 1) % (2 * q))))
    (fun I J => x I J * (half * y (2 * I) ((2 * J + 1) % (2 * q))))
    (fun I J => x I J * (half * y (2 * I + 1) ((2 * J + 2 * q - 1) % (2 * q))))
    (fun I J => x I J * (half * y (2 * I - 1) ((2 * J + 1) % (2 * q))))]
  -- left-hand side: four parity classes
  rw [hnr, hnt, sum_odd_split (fun i => ∑ j ∈ range (2 * q), exProlong p x i j * y i j) m]
  have inner : ∀ i, ∑ j ∈ range (2 * q), exProlong p x i j * y i j
      = ∑ J ∈ range q, exProlong p x i (2 * J) * y i (2 * J)
        + ∑ J ∈ range q, exProlong p x i (2 * J + 1) * y i (2 * J + 1) :=
    fun i => sum_even_split (fun j => exProlong p x i j * y i j) q
  simp only [inner, exProlong_ee, exProlong_eo, exProlong_oe, exProlong_oo, wC, hq]
  congr 1
  · apply Finset.sum_congr rfl
    intro I _
    exact (row_even q half (x I) (y (2 * I))).symm
  · apply Finset.sum_congr rfl
    intro I _
    have e : 2 * (I + 1) - 1 = 2 * I + 1 := by omega
    simp only [e]
    exact (row_odd q half (x I) (x (I + 1)) (y (2 * I + 1))).symm

end Interp
