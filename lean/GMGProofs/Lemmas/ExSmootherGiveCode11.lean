import GMGProofs.Lemmas.ExSmootherGiveCode10
/-!
# Code-level extrapolated smoother (give), lemmas 11 — `temp` of the circle section after one colour phase

* `circle_temp_own`: on a circle of the phase's colour `temp` is the gather kernel's `rhs - A_sc^ortho x`
  (`ExSmootherCode.orthoCircle`);
* `circle_temp_other`: everywhere else the phase leaves `temp` alone.
-/
set_option linter.unusedSectionVars false
set_option linter.unusedVariables false
set_option linter.unusedSimpArgs false
namespace ExSmootherGiveCode
open Stencil SparseLU SmootherCode Finset
variable {K : Type} [_root_.Field K]

section
variable (o : Op K) (nc : Nat)

theorem circleNodeBlack_succ (i : Nat) : circleNodeBlack nc (i + 1) = !circleNodeBlack nc i := by
  unfold circleNodeBlack
  by_cases h1 : nc % 2 = 1 <;> by_cases h2 : i % 2 = 1 <;>
    (have h3 : (i + 1) % 2 = 1 ↔ ¬ i % 2 = 1 := by omega) <;> simp [h1, h2, h3]

theorem circleNodeBlack_pred {i : Nat} (hi : 0 < i) : circleNodeBlack nc (i - 1) = !circleNodeBlack nc i := by
  have := circleNodeBlack_succ nc (i - 1)
  rw [show i - 1 + 1 = i by omega] at this
  rw [this]; simp

theorem circleNodeBlack_last (hnc : 1 ≤ nc) : circleNodeBlack nc (nc - 1) = true := by
  unfold circleNodeBlack
  by_cases h1 : nc % 2 = 1
  · have h3 : ¬ (nc - 1) % 2 = 1 := by omega
    simp [h1, h3]
  · have h3 : (nc - 1) % 2 = 1 := by omega
    simp [h1, h3]

/-- colour of a circle, as the take sweep's `blackCircles` / `whiteCircles` select it -/
theorem circleNodeBlack_iff {i : Nat} (hi : i < nc) : circleNodeBlack nc i = true ↔ (nc - 1 - i) % 2 = 0 := by
  unfold circleNodeBlack
  by_cases h1 : nc % 2 = 1 <;> by_cases h2 : i % 2 = 1 <;> simp [h1, h2] <;> omega

variable (black : Bool) (f x : Stencil.Field K)

/-- `last` of the phase: Asc-ortho(Black) runs over `i_r = 0 … nc`, Asc-ortho(White) over `i_r = 0 … nc - 1` -/
def lastOf : Nat := if black then nc + 1 else nc

/-- the right give of a node of the other colour (not next to the radial section) -/
theorem cR_eval (i j : Nat) (hi : i + 1 < nc) (hown : ¬ (circleNodeBlack nc i == black) = true) :
    cR o nc black x i j = if ¬ (i % 2 = 1 ∧ ¬ j % 2 = 1) then rightVal o x i j else 0 := by
  unfold cR
  have hc : ((0 < i ∧ i < nc ∧ ¬ (circleNodeBlack nc i == black) = true ∧ ¬ (i % 2 = 1 ∧ ¬ j % 2 = 1) ∧ i + 1 < nc)
      ∨ (i = 0 ∧ ¬ (circleNodeBlack nc i == black) = true)) ↔ ¬ (i % 2 = 1 ∧ ¬ j % 2 = 1) := by
    constructor
    · rintro (⟨_, _, _, h, _⟩ | ⟨h, _⟩)
      · exact h
      · omega
    · intro h
      by_cases h0 : i = 0
      · exact Or.inr ⟨h0, hown⟩
      · exact Or.inl ⟨by omega, by omega, hown, h, hi⟩
  rw [if_congr hc rfl rfl]

/-- the left give of a node of the other colour (`1 < i`; `i = nc`: the radial node next to the circle section, Black phase) -/
theorem cL_eval (i j : Nat) (hi1 : 1 < i) (hi : i < nc ∨ (i = nc ∧ black = true))
    (hown : ¬ (circleNodeBlack nc i == black) = true) :
    cL o nc black x i j = if ¬ (i % 2 = 1 ∧ ¬ j % 2 = 1) then leftVal o x i j else 0 := by
  unfold cL
  have hc : ((0 < i ∧ i < nc ∧ ¬ (circleNodeBlack nc i == black) = true ∧ ¬ (i % 2 = 1 ∧ ¬ j % 2 = 1) ∧ (1 < i ∨ o.bc = false))
      ∨ (i = nc ∧ black = true ∧ (j % 2 = 1 ∨ ¬ i % 2 = 1))) ↔ ¬ (i % 2 = 1 ∧ ¬ j % 2 = 1) := by
    constructor
    · rintro (⟨_, _, _, h, _⟩ | ⟨_, _, h⟩)
      · exact h
      · rintro ⟨h1, h2⟩
        rcases h with h | h
        · exact h2 h
        · exact h h1
    · intro h
      rcases hi with hi | ⟨hi, hb⟩
      · exact Or.inl ⟨by omega, hi, hown, h, Or.inl hi1⟩
      · refine Or.inr ⟨hi, hb, ?_⟩
        by_cases hj : j % 2 = 1
        · exact Or.inl hj
        · exact Or.inr (fun h1 => h ⟨h1, hj⟩)
  rw [if_congr hc rfl rfl]

/-- the gather kernel on the five classes of a circle node -/
theorem orthoCircle_zero_bc (hbc : o.bc = true) (b : Nat) :
    ExSmootherCode.orthoCircle o nc f x 0 b = if b % 2 = 1 then f 0 b else x 0 b := by
  unfold ExSmootherCode.orthoCircle
  rw [if_neg (by omega), if_pos rfl, if_pos hbc]

theorem orthoCircle_zero_across (hbc : o.bc = false) (b : Nat) :
    ExSmootherCode.orthoCircle o nc f x 0 b =
      if b % 2 = 1 then
        f 0 b -
          (-(coeff2 o 0 b) * (o.arr 0 b + o.arr 1 b) * x 1 b
            - coeff3 o 0 b * (o.att 0 b + o.att 0 (jm o b)) * x 0 (jm o b)
            - coeff4 o 0 b * (o.att 0 b + o.att 0 (jp o b)) * x 0 (jp o b)
            + quarter * (o.art 1 b + o.art 0 (jm o b)) * x 1 (jm o b)
            - quarter * (o.art 1 b + o.art 0 (jp o b)) * x 1 (jp o b))
      else x 0 b := by
  unfold ExSmootherCode.orthoCircle
  rw [if_neg (by omega), if_pos rfl, if_neg (by rw [hbc]; simp)]

theorem orthoCircle_even {a : Nat} (b : Nat) (h0 : 0 < a) (ha : a < nc) (hae : ¬ a % 2 = 1) :
    ExSmootherCode.orthoCircle o nc f x a b =
      if b % 2 = 1 then f a b - diagTerms o x a b (ExSmootherCode.crossTerms o x a b) else x a b := by
  unfold ExSmootherCode.orthoCircle
  rw [if_pos ⟨h0, ha⟩, if_neg hae]

set_option maxHeartbeats 1000000 in
/-- **on a circle of the phase's colour the scattered `temp` is the gather kernel's `rhs - A_sc^ortho x`** -/
theorem circle_temp_own (hnc : 3 ≤ nc) (hnt : 2 ≤ o.nt) (heven : o.nt % 2 = 0) (t : Stencil.Field K) (a b : Nat)
    (ha : a < nc) (hb : b < o.nt) (hcol : circleNodeBlack nc a = black) (ht : t a b = initTemp f x a b) :
    ((circlePhase o nc black (lastOf nc black) x).foldl Stencil.applyUpd t) a b
      = ExSmootherCode.orthoCircle o nc f x a b := by
  have hpos : 0 < o.nt := by omega
  have pjp := jp_parity o heven hb
  have pjm := jm_parity o heven hb
  have e1 : jm o (jp o b) = b := jm_jp o hb
  have e2 : jp o (jm o b) = b := jp_jm o hb
  have hown : (circleNodeBlack nc a == black) = true := by simp [hcol]
  have hs : ¬ (circleNodeBlack nc (a + 1) == black) = true := by
    rw [circleNodeBlack_succ, hcol]; cases black <;> simp
  have hp : 0 < a → ¬ (circleNodeBlack nc (a - 1) == black) = true := by
    intro h; rw [circleNodeBlack_pred nc h, hcol]; cases black <;> simp
  have hblk : a + 1 = nc → black = true := by
    intro h
    have := circleNodeBlack_last nc (by omega)
    rw [show nc - 1 = a by omega, hcol] at this
    exact this
  have hl1 : a < lastOf nc black := by unfold lastOf; split <;> omega
  have hl2 : a + 1 < lastOf nc black := by
    unfold lastOf
    cases hbk : black with
    | true => simp; omega
    | false =>
      simp
      by_contra hc
      have := hblk (by omega)
      rw [hbk] at this; cases this
  rw [foldl_applyUpd, circle_phase_recv o nc black x (by omega) hnt _ a b hb, ht, if_pos hl1, if_pos hl1, if_pos hl1,
    if_pos hl2]
  by_cases h0 : a = 0
  · subst h0
    have c1 : (1 : Nat) < nc := by omega
    have c2 : ¬ (1 : Nat) = nc := by omega
    have hI : initTemp f x 0 b = if b % 2 = 1 then f 0 b else x 0 b := by
      unfold initTemp; simp
    rw [hI]
    simp only [Nat.lt_irrefl, false_and, if_false, add_zero]
    by_cases hbc : o.bc = true
    · rw [orthoCircle_zero_bc o nc f x hbc]
      simp [cC, cB, cT, cL, hbc, hown, hs, c1, c2]
    · have hbc' : o.bc = false := by simpa using hbc
      rw [orthoCircle_zero_across o nc f x hbc']
      by_cases hbo : b % 2 = 1
      · have j1 : ¬ jp o b % 2 = 1 := by omega
        have j2 : ¬ jm o b % 2 = 1 := by omega
        have k1 := coeff1_succ o 0 b
        have k2 := coeff3_jp o 0 hb
        have k3 := coeff4_jm o 0 b
        simp only [Nat.zero_add] at k1
        simp [cC, cB, cT, cL, leftVal, hbc', hown, hs, c1, c2, hbo, j1, j2, e1, e2, k1, k2, k3]
        ring
      · have j1 : jp o b % 2 = 1 := by omega
        have j2 : jm o b % 2 = 1 := by omega
        simp [cC, cB, cT, cL, leftVal, hbc', hown, hs, c1, c2, hbo, j1, j2]
  · have hp0 : 0 < a := by omega
    have hp' := hp hp0
    have hcond : 0 < a ∧ a - 1 < lastOf nc black := ⟨hp0, by omega⟩
    rw [if_pos hcond, cR_eval o nc black x (a - 1) b (by omega) hp',
      cL_eval o nc black x (a + 1) b (by omega) (by
        by_cases h3 : a + 1 < nc
        · exact Or.inl h3
        · exact Or.inr ⟨by omega, hblk (by omega)⟩) hs]
    by_cases hao : a % 2 = 1
    · have q1 : ¬ (a - 1) % 2 = 1 := by omega
      have q2 : ¬ (a + 1) % 2 = 1 := by omega
      have hI : initTemp f x a b = f a b := by unfold initTemp; rw [if_pos (Or.inl hao)]
      rw [ExSmootherCode.orthoCircle_odd o nc f x a b hp0 ha hao, hI]
      have hcc : 0 < a ∧ a < nc := ⟨hp0, ha⟩
      simp only [SmootherCode.orthoCircle, hcc, if_true]
      simp only [cC, cB, cT, hp0, ha, hown, hao, q1, q2, leftVal, rightVal, true_and, and_self, if_true, false_and,
        not_false_eq_true, true_or, diagTerms, e1, e2]
      rw [coeff1_succ, coeff2_pred o b hp0]
      try simp only [Nat.add_sub_cancel, show a - 1 + 1 = a by omega]
      ring
    · have q1 : (a - 1) % 2 = 1 := by omega
      have q2 : (a + 1) % 2 = 1 := by omega
      rw [orthoCircle_even o nc f x b hp0 ha hao]
      by_cases hbo : b % 2 = 1
      · have j1 : ¬ jp o b % 2 = 1 := by omega
        have j2 : ¬ jm o b % 2 = 1 := by omega
        have hI : initTemp f x a b = f a b := by unfold initTemp; rw [if_pos (Or.inr hbo)]
        rw [hI]
        simp only [cC, cB, cT, hp0, ha, hown, hao, q1, q2, hbo, j1, j2, leftVal, rightVal, true_and, and_self, if_true,
          if_false, false_and, not_false_eq_true, true_or, not_true_eq_false, and_false, diagTerms,
          ExSmootherCode.crossTerms, e1, e2, or_true]
        rw [coeff1_succ, coeff2_pred o b hp0, coeff3_jp o a hb, coeff4_jm]
        try simp only [Nat.add_sub_cancel, show a - 1 + 1 = a by omega]
        ring
      · have j1 : jp o b % 2 = 1 := by omega
        have j2 : jm o b % 2 = 1 := by omega
        have hI : initTemp f x a b = x a b := by
          unfold initTemp; rw [if_neg (by rintro (h | h) <;> contradiction)]
        rw [hI]
        simp [cC, cB, cT, hp0, ha, hown, hao, q1, q2, hbo, j1, j2]

/-- **a colour phase of the circle section leaves every other `temp` value alone**: the circles of the other colour and the
    whole radial section -/
theorem circle_temp_other (hnc : 3 ≤ nc) (hnt : 2 ≤ o.nt) (t : Stencil.Field K) (a b : Nat) (hb : b < o.nt)
    (h : nc ≤ a ∨ ¬ circleNodeBlack nc a = black) :
    ((circlePhase o nc black (lastOf nc black) x).foldl Stencil.applyUpd t) a b = t a b := by
  rw [foldl_applyUpd, circle_phase_recv o nc black x (by omega) hnt _ a b hb]
  have hlast : lastOf nc black ≤ nc + 1 := by unfold lastOf; split <;> omega
  have z : ∀ v : K, v = 0 → t a b - v = t a b := by intro v hv; rw [hv, sub_zero]
  apply z
  rcases h with h | h
  · -- radial section
    have c1 : cC o nc black x a b = 0 := by
      unfold cC; rw [if_neg (by omega), if_neg (by omega)]
    have c2 : cB o nc black x a (jp o b) = 0 := by
      unfold cB; rw [if_neg (by omega), if_neg (by omega)]
    have c3 : cT o nc black x a (jm o b) = 0 := by
      unfold cT; rw [if_neg (by omega), if_neg (by omega)]
    have c4 : ¬ a + 1 < lastOf nc black := by omega
    have c5 : cR o nc black x (a - 1) b = 0 := by
      unfold cR; rw [if_neg]
      rintro (h' | h') <;> omega
    rw [c1, c2, c3, if_neg c4, c5]
    simp
  · -- a circle of the other colour
    have hown : ¬ (circleNodeBlack nc a == black) = true := by simpa using h
    have hs : (circleNodeBlack nc (a + 1) == black) = true := by
      rw [circleNodeBlack_succ]
      cases hc : circleNodeBlack nc a <;> cases hb' : black <;> simp_all
    have hp : 0 < a → (circleNodeBlack nc (a - 1) == black) = true := by
      intro h0
      rw [circleNodeBlack_pred nc h0]
      cases hc : circleNodeBlack nc a <;> cases hb' : black <;> simp_all
    have c1 : cC o nc black x a b = 0 := by
      unfold cC
      rw [if_neg (fun h' => hown h'.2.2), if_neg (fun h' => by
        obtain ⟨h1, _, h2, _⟩ := h'
        subst h1
        exact hown h2)]
    have c2 : cB o nc black x a (jp o b) = 0 := by
      unfold cB
      rw [if_neg (fun h' => hown h'.2.2), if_neg (fun h' => by
        obtain ⟨h1, _, h2, _⟩ := h'
        subst h1
        exact hown h2)]
    have c3 : cT o nc black x a (jm o b) = 0 := by
      unfold cT
      rw [if_neg (fun h' => hown h'.2.2), if_neg (fun h' => by
        obtain ⟨h1, _, h2, _⟩ := h'
        subst h1
        exact hown h2)]
    have c4 : cL o nc black x (a + 1) b = 0 := by
      unfold cL
      rw [if_neg]
      rintro (⟨_, _, h', _⟩ | ⟨h1, h2, _⟩)
      · exact h' hs
      · have := circleNodeBlack_last nc (by omega)
        rw [show nc - 1 = a by omega] at this
        exact h (by rw [this, h2])
    have c5 : 0 < a → cR o nc black x (a - 1) b = 0 := by
      intro h0
      unfold cR
      rw [if_neg]
      rintro (⟨_, _, h', _⟩ | ⟨_, h'⟩)
      · exact h' (hp h0)
      · exact h' (hp h0)
    rw [c1, c2, c3, c4]
    by_cases h0 : 0 < a
    · rw [c5 h0]; simp
    · have hn : ¬ (0 < a ∧ a - 1 < lastOf nc black) := fun h' => h0 h'.1
      simp only [hn, if_false, ite_self, add_zero]

end
end ExSmootherGiveCode
