import GMGProofs.Lemmas.TridiagCyclic
import GMGProofs.Lemmas.TridiagSDD
/-!
# Helper lemmas for C14, part 4: positive definite cyclic matrices

`Qc` is the quadratic form of the cyclic matrix; `Q_B = Qc + a₀ (v·x)²`, hence `B` is SPD, its
pivots are positive, and the Sherman–Morrison denominator `1 + v·B⁻¹u` is positive.
-/
namespace Tridiag

section Field
variable {K : Type} [Field K]

def dot : List K → List K → K
  | x :: xs, y :: ys => x * y + dot xs ys
  | _, _ => 0

/-- quadratic form of the cyclic matrix -/
def Qc (a b : List K) (c : K) (x : List K) : K := Q a b x + 2 * c * x.headD 0 * x.getLastD 0

theorem dot_mulT (a b x : List K) (h1 : a.length = x.length) (h2 : b.length + 1 = a.length) :
    ∀ p : K, dot x (mulT a b x p) = p * x.headD 0 + Q a b x := by
  refine tri_induction (motive := fun a b x => ∀ p : K, dot x (mulT a b x p) = p * x.headD 0 + Q a b x)
    ?_ ?_ a b x h1 h2
  · intro a x p; simp only [dot, mulT, Q, List.headD_cons]; ring
  · intro a a' as b bs x x' xs _ _ ih p
    simp only [dot, mulT, Q, ih, List.headD_cons]; ring

theorem dot_setHead_add (d : K) : ∀ (x T : List K), x.length = T.length →
    dot x (setHead T (fun v => v + d)) = dot x T + x.headD 0 * d
  | [], [], _ => by simp [dot]
  | x :: xs, t :: ts, _ => by simp only [dot, setHead, List.headD_cons]; ring
  | [], _ :: _, h => by simp at h
  | _ :: _, [], h => by simp at h

theorem dot_setLast_add (d : K) : ∀ (x T : List K), x.length = T.length →
    dot x (setLast T (fun v => v + d)) = dot x T + x.getLastD 0 * d
  | [], [], _ => by simp [dot]
  | [x], [t], _ => by simp only [dot, setLast, List.getLastD_cons, List.getLastD_nil]; ring
  | x :: x' :: xs, t :: t' :: ts, h => by
      have ih := dot_setLast_add d (x' :: xs) (t' :: ts) (by simpa using h)
      show dot (x :: x' :: xs) (t :: setLast (t' :: ts) _) = _
      rw [getLastD_cons_cons]
      simp only [dot] at ih ⊢
      rw [ih]; ring
  | [], _ :: _, h => by simp at h
  | _ :: _, [], h => by simp at h
  | [_], _ :: _ :: _, h => by simp at h
  | _ :: _ :: _, [_], h => by simp at h

theorem dot_zipWith_add (v : K) : ∀ (x T U : List K), x.length = T.length → T.length = U.length →
    dot x (List.zipWith (fun t u => t + u * v) T U) = dot x T + v * dot x U
  | [], [], [], _, _ => by simp [dot]
  | x :: xs, t :: ts, u :: us, h1, h2 => by
      have ih := dot_zipWith_add v xs ts us (by simpa using h1) (by simpa using h2)
      simp only [List.zipWith_cons_cons, dot, ih]; ring
  | [], _ :: _, _, h, _ => by simp at h
  | _ :: _, [], _, h, _ => by simp at h
  | [], [], _ :: _, _, h => by simp at h
  | _ :: _, _ :: _, [], _, h => by simp at h

theorem dot_replicate_last (c : K) : ∀ (m : Nat) (x : List K), x.length = m + 1 →
    dot x (List.replicate m 0 ++ [c]) = c * x.getLastD 0
  | 0, [x], _ => by simp [dot]; ring
  | m + 1, x :: x' :: xs, h => by
      have ih := dot_replicate_last c m (x' :: xs) (by simpa using h)
      rw [getLastD_cons_cons]
      simp only [List.replicate_succ, List.cons_append, dot, ih]; ring
  | 0, [], h => by simp at h
  | 0, _ :: _ :: _, h => by simp at h
  | _ + 1, [], h => by simp at h
  | _ + 1, [_], h => by simp at h

theorem dot_uRhs (g c : K) (x : List K) (n : Nat) (h : x.length = n) (hn : 2 ≤ n) :
    dot x (uRhs n g c) = g * x.headD 0 + c * x.getLastD 0 := by
  obtain ⟨m, rfl⟩ : ∃ m, n = m + 2 := ⟨n - 2, by omega⟩
  match x, h with
  | x0 :: x1 :: xs, h =>
    simp only [uRhs, Scalar.n_zero, dot, List.headD_cons]
    rw [dot_replicate_last c m (x1 :: xs) (by simpa using h), getLastD_cons_cons]; ring
  | [], h => simp at h
  | [_], h => simp at h

/-- `xᵀ (A x) = Qc(x)` for the code-shaped cyclic product -/
theorem dot_mulC (a b : List K) (c : K) (x : List K) (h1 : a.length = x.length)
    (h2 : b.length + 1 = a.length) : dot x (mulC a b c x) = Qc a b c x := by
  have hT : (mulT a b x 0).length = a.length := mulT_length a b x h1 h2 0
  unfold mulC Qc
  simp only [Scalar.n_zero]
  rw [dot_setLast_add _ _ _ (by simp [hT, h1]), dot_setHead_add _ _ _ (by simp [hT, h1]),
    dot_mulT a b x h1 h2]
  ring

/-- `Q_B(x) = Qc(x) - γ (v·x)²` (`= Qc(x) + (1/a₀)(-a₀x₀ + c x_{n-1})²`) -/
theorem Q_diagB (a b : List K) (c : K) (x : List K) (h1 : a.length = x.length)
    (h2 : b.length + 1 = a.length) (hn : 2 ≤ a.length) (ha : a.headD 0 ≠ 0) :
    Q (diagB a c) b x = Qc a b c x - gam a * (vdot a c x * vdot a c x) := by
  have hg : gam a ≠ 0 := by unfold gam; exact neg_ne_zero.mpr ha
  have hB : (mulT (diagB a c) b x 0).length = a.length := by
    rw [mulT_length _ _ _ (by simpa using h1) (by simpa using h2)]; simp
  have A := dot_mulC a b c x h1 h2
  rw [mulC_decomp a b c x h1 h2 hn ha,
    dot_zipWith_add _ _ _ _ (by rw [hB, h1]) (by rw [hB, uRhs_length]),
    dot_mulT _ _ _ (by simpa using h1) (by simpa using h2), dot_uRhs _ _ _ _ h1.symm hn] at A
  have e : gam a * vdot a c x = gam a * x.headD 0 + c * x.getLastD 0 := by
    unfold vdot; field_simp
  linear_combination A + vdot a c x * e

theorem Q_setHead_sub (d : K) (a b x : List K) (h1 : a.length = x.length)
    (h2 : b.length + 1 = a.length) :
    Q (setHead a (fun v => v - d)) b x = Q a b x - d * (x.headD 0 * x.headD 0) := by
  refine tri_induction (motive := fun a b x =>
    Q (setHead a (fun v => v - d)) b x = Q a b x - d * (x.headD 0 * x.headD 0)) ?_ ?_ a b x h1 h2
  · intro a x; simp only [setHead, Q, List.headD_cons]; ring
  · intro a a' as b bs x x' xs _ _ _; simp only [setHead, Q, List.headD_cons]; ring

theorem Q_setLast_sub (d : K) (a b x : List K) (h1 : a.length = x.length)
    (h2 : b.length + 1 = a.length) :
    Q (setLast a (fun v => v - d)) b x = Q a b x - d * (x.getLastD 0 * x.getLastD 0) := by
  refine tri_induction (motive := fun a b x =>
    Q (setLast a (fun v => v - d)) b x = Q a b x - d * (x.getLastD 0 * x.getLastD 0)) ?_ ?_ a b x h1 h2
  · intro a x; simp only [setLast, Q, List.getLastD_cons, List.getLastD_nil]; ring
  · intro a a' as b bs x x' xs _ _ ih
    show Q (a :: setLast (a' :: as) _) (b :: bs) (x :: x' :: xs) = _
    simp only [Q]
    rw [ih, getLastD_cons_cons]; ring

theorem allZero_headD : ∀ (x : List K), allZero x → x.headD 0 = 0
  | [], _ => rfl
  | _ :: _, h => h.1

theorem allZero_getLastD : ∀ (x : List K), allZero x → x.getLastD 0 = 0
  | [], _ => rfl
  | x :: xs, h => by
      rw [List.getLastD_cons, h.1]; exact allZero_getLastD xs h.2

end Field

section Ordered
variable {K : Type} [Field K] [LinearOrder K] [IsStrictOrderedRing K]

/-- positive definiteness of the cyclic matrix -/
def SPDc (a b : List K) (c : K) : Prop :=
  ∀ x : List K, x.length = a.length → ¬ allZero x → 0 < Qc a b c x

/-- cyclic strict diagonal dominance: the tridiagonal rows are dominant with the corner `|c|`
    counted in the first and in the last row -/
def SDDc (a b : List K) (c : K) : Prop :=
  SDD (setLast (setHead a (fun v => v - |c|)) (fun v => v - |c|)) b

theorem sddc_spdc (a b : List K) (c : K) (h2 : b.length + 1 = a.length) (h : SDDc a b c) :
    SPDc a b c := by
  intro x hx hnz
  have hx' : a.length = x.length := hx.symm
  have := sdd_spd _ b (by simpa using h2) h x (by simpa using hx) hnz
  rw [Q_setLast_sub _ _ b x (by simpa using hx') (by simpa using h2),
    Q_setHead_sub _ a b x hx' h2] at this
  have t := abs_quad c (x.headD 0) (x.getLastD 0)
  unfold Qc; linarith

theorem spdc_head_pos (a b : List K) (c : K) (h2 : b.length + 1 = a.length) (hn : 2 ≤ a.length)
    (spd : SPDc a b c) : 0 < a.headD 0 := by
  match a, b, h2, hn with
  | a0 :: a1 :: as, b0 :: bs, h2, _ =>
    obtain ⟨z, hz1, hz2⟩ := zeros_exist (K := K) (as.length + 1)
    have := spd (1 :: z) (by simp [hz1]) (by simp [allZero])
    unfold Qc at this
    rw [Q_zero_tail a0 (a1 :: as) (b0 :: bs) z (by simpa using h2) (by simpa using hz1) hz2 1] at this
    match z, hz1, hz2 with
    | z0 :: zs, _, hz2 =>
      have hl : (1 :: z0 :: zs).getLastD (0 : K) = 0 := by
        rw [getLastD_cons_cons]; exact allZero_getLastD _ hz2
      rw [hl] at this
      simpa using this
    | [], hz1, _ => simp at hz1
  | [], _, _, hn => simp at hn
  | [_], _, _, hn => simp at hn
  | _ :: _ :: _, [], h2, _ => simp at h2

/-- `B = A - u vᵀ` is SPD when `A` is -/
theorem spdc_diagB_spd (a b : List K) (c : K) (h2 : b.length + 1 = a.length) (hn : 2 ≤ a.length)
    (spd : SPDc a b c) : SPD (diagB a c) b := by
  have ha := spdc_head_pos a b c h2 hn spd
  intro x hx hnz
  have hx' : a.length = x.length := by simpa using hx.symm
  rw [Q_diagB a b c x hx' h2 hn (ne_of_gt ha)]
  have h1 := spd x hx'.symm hnz
  have h3 : 0 ≤ a.headD 0 * (vdot a c x * vdot a c x) := mul_nonneg ha.le (mul_self_nonneg _)
  unfold gam; linarith

/-- the Sherman–Morrison denominator is positive: `q = B⁻¹u`, `A` SPD ⇒ `1 + v·q > 0` -/
theorem denominator_pos (a b : List K) (c : K) (q : List K) (h1 : q.length = a.length)
    (h2 : b.length + 1 = a.length) (hn : 2 ≤ a.length) (spd : SPDc a b c)
    (hq : mulT (diagB a c) b q 0 = uRhs a.length (gam a) c) : 0 < 1 + vdot a c q := by
  have ha := spdc_head_pos a b c h2 hn spd
  have ha' : a.headD 0 ≠ 0 := ne_of_gt ha
  have hg : gam a ≠ 0 := by unfold gam; exact neg_ne_zero.mpr ha'
  by_cases hz : allZero q
  · have : vdot a c q = 0 := by unfold vdot; rw [allZero_headD q hz, allZero_getLastD q hz]; ring
    rw [this]; simp
  · have pos := spd q h1 hz
    rw [← dot_mulC a b c q h1.symm h2, mulC_decomp a b c q h1.symm h2 hn ha', hq,
      dot_zipWith_add _ _ _ _ (by rw [h1, uRhs_length]) rfl, dot_uRhs _ _ _ _ h1 hn] at pos
    have e : gam a * vdot a c q = gam a * q.headD 0 + c * q.getLastD 0 := by
      unfold vdot; field_simp
    rw [← e] at pos
    -- pos : 0 < γ t + t (γ t) with γ = -a₀ < 0
    set t := vdot a c q with ht
    have hgam : gam a = - a.headD 0 := rfl
    rw [hgam] at pos
    by_contra hneg
    rw [not_lt] at hneg
    have h3 : 0 < - a.headD 0 * t := by nlinarith
    nlinarith

end Ordered
end Tridiag
