import GMGModel.SparseLU
import GMGProofs.Lemmas.FieldScalar
import Mathlib.Algebra.BigOperators.Group.Finset.Basic
import Mathlib.Algebra.BigOperators.Intervals
import Mathlib.Algebra.BigOperators.Group.List.Basic
import Mathlib.Algebra.BigOperators.Ring.Finset
import Mathlib.Algebra.Order.Field.Basic
import Mathlib.Algebra.Order.BigOperators.Group.Finset
import Mathlib.Algebra.Order.Ring.Abs
import Mathlib.Tactic.Ring
import Mathlib.Tactic.Linarith
import Mathlib.Tactic.FieldSimp
/-!
# Helper lemmas for C16 (sparse LU without pivoting)

1. finite-map lemmas (`get`, `den`, `set`, key uniqueness), valid for every scalar type;
2. the dense recurrence `elim` of probe E12 with its row invariant;
3. the bridge map level → dense level (`elimStep`, `elimRow`, `factorRows`);
4. forward / backward substitution.
-/
set_option linter.unusedSectionVars false
set_option linter.unusedSimpArgs false
set_option linter.unusedVariables false

namespace SparseLU
open Finset

/-! ## 1. finite maps -/
section Maps
variable {α : Type} [Scalar α]

/-- the list of keys -/
def keys (r : Row α) : List Nat := r.map (·.1)

/-- no key twice (`std::unordered_map` invariant) -/
def Uniq (r : Row α) : Prop := (keys r).Nodup

@[simp] theorem keys_nil : keys ([] : Row α) = [] := rfl
@[simp] theorem keys_cons (e : Nat × α) (r : Row α) : keys (e :: r) = e.1 :: keys r := rfl
theorem uniq_nil : Uniq ([] : Row α) := List.nodup_nil

theorem uniq_cons {e : Nat × α} {r : Row α} : Uniq (e :: r) ↔ e.1 ∉ keys r ∧ Uniq r := by
  unfold Uniq; simp [List.nodup_cons]

@[simp] theorem get_nil (k : Nat) : get ([] : Row α) k = none := rfl

theorem get_cons (e : Nat × α) (r : Row α) (k : Nat) :
    get (e :: r) k = if e.1 = k then some e.2 else get r k := by
  unfold get
  by_cases h : e.1 = k
  · simp [List.find?_cons, h]
  · have : (e.1 == k) = false := by simpa using h
    simp [List.find?_cons, this, h]

@[simp] theorem den_nil (k : Nat) : den ([] : Row α) k = Scalar.n 0 := rfl

theorem den_cons (e : Nat × α) (r : Row α) (k : Nat) :
    den (e :: r) k = if e.1 = k then e.2 else den r k := by
  unfold den; rw [get_cons]; split <;> rfl

theorem get_eq_none_iff {r : Row α} {k : Nat} : get r k = none ↔ k ∉ keys r := by
  induction r with
  | nil => simp
  | cons e r ih =>
      rw [get_cons]
      by_cases h : e.1 = k
      · simp [h]
      · have h' : ¬ k = e.1 := fun h' => h h'.symm
        simp [h, h', ih]

theorem den_of_not_mem {r : Row α} {k : Nat} (h : k ∉ keys r) : den r k = Scalar.n 0 := by
  unfold den; rw [get_eq_none_iff.mpr h]; rfl

/-- under key uniqueness `find` returns exactly the stored pairs -/
theorem get_eq_some_iff {r : Row α} (hu : Uniq r) {k : Nat} {v : α} :
    get r k = some v ↔ (k, v) ∈ r := by
  induction r with
  | nil => simp
  | cons e r ih =>
      obtain ⟨hn, hu'⟩ := uniq_cons.mp hu
      rw [get_cons]
      by_cases h : e.1 = k
      · simp only [h, if_true, List.mem_cons]
        constructor
        · intro hv; left; cases e; simp_all
        · rintro (hv | hv)
          · cases e; simp_all
          · exfalso; apply hn; rw [h]; exact List.mem_map.mpr ⟨(k, v), hv, rfl⟩
      · simp only [h, if_false, List.mem_cons, ih hu']
        constructor
        · exact Or.inr
        · rintro (hv | hv)
          · exfalso; apply h; rw [← hv]
          · exact hv

/-- `set` on a non-empty list, structurally -/
theorem set_cons (e : Nat × α) (r : Row α) (k : Nat) (v : α) :
    set (e :: r) k v =
      if e.1 = k then (k, v) :: r.map (fun e => if e.1 == k then (k, v) else e) else e :: set r k v := by
  unfold set
  by_cases h : e.1 = k
  · simp [h]
  · have hb : (e.1 == k) = false := by simpa using h
    simp only [List.any_cons, hb, Bool.false_or, h, if_false, List.map_cons, Bool.false_eq_true]
    split <;> simp

theorem set_nil (k : Nat) (v : α) : set ([] : Row α) k v = [(k, v)] := rfl

theorem get_map_other (r : Row α) (k k' : Nat) (v : α) (h : k' ≠ k) :
    get (r.map (fun e => if e.1 == k then (k, v) else e)) k' = get r k' := by
  induction r with
  | nil => rfl
  | cons e r ih =>
      rw [List.map_cons, get_cons, get_cons, ih]
      by_cases he : e.1 = k
      · have : ¬ e.1 = k' := fun h' => h (by rw [← h', he])
        simp [he, this, h.symm]
      · have hb : (e.1 == k) = false := by simpa using he
        simp [hb]

/-- (a) `find` after `map[k] = v`, for every list (no uniqueness needed) -/
theorem get_set (r : Row α) (k k' : Nat) (v : α) :
    get (set r k v) k' = if k' = k then some v else get r k' := by
  induction r with
  | nil =>
      rw [set_nil, get_cons]
      by_cases h : k = k'
      · simp [h]
      · have : ¬ k' = k := fun h' => h h'.symm
        simp [h, this]
  | cons e r ih =>
      rw [set_cons]
      by_cases he : e.1 = k
      · simp only [he, if_true]
        rw [get_cons]
        by_cases h : k = k'
        · simp [h]
        · have h' : ¬ k' = k := fun h' => h h'.symm
          simp only [h, h', if_false]
          rw [get_map_other r k k' v h', get_cons]
          have : ¬ e.1 = k' := by rw [he]; exact h
          simp [this]
      · simp only [he, if_false]
        rw [get_cons, ih, get_cons]
        by_cases h : e.1 = k'
        · have : ¬ k' = k := by rw [← h]; exact he
          simp [h, this]
        · simp [h]

/-- (a) `operator[]` after `map[k] = v` -/
theorem den_set (r : Row α) (k k' : Nat) (v : α) :
    den (set r k v) k' = if k' = k then v else den r k' := by
  unfold den; rw [get_set]; split <;> rfl

theorem keys_map_set (r : Row α) (k : Nat) (v : α) :
    keys (r.map (fun e => if e.1 == k then (k, v) else e)) = keys r := by
  unfold keys
  rw [List.map_map]
  apply List.map_congr_left
  intro e _
  by_cases h : e.1 = k
  · simp [h]
  · simp [h]

/-- (a) the key set after `map[k] = v` -/
theorem keys_set (r : Row α) (k : Nat) (v : α) :
    keys (set r k v) = if k ∈ keys r then keys r else keys r ++ [k] := by
  unfold set
  have hany : r.any (fun e => e.1 == k) = true ↔ k ∈ keys r := by
    unfold keys
    simp only [List.any_eq_true, List.mem_map, beq_iff_eq]
  by_cases h : k ∈ keys r
  · rw [if_pos (hany.mpr h), if_pos h, keys_map_set]
  · have : ¬ (r.any (fun e => e.1 == k) = true) := fun h' => h (hany.mp h')
    rw [if_neg this, if_neg h]; unfold keys; simp

/-- (a) `set` keeps the keys unique -/
theorem uniq_set {r : Row α} (hu : Uniq r) (k : Nat) (v : α) : Uniq (set r k v) := by
  unfold Uniq at *
  rw [keys_set]
  split
  · exact hu
  · rename_i h
    rw [List.nodup_append]
    refine ⟨hu, List.nodup_singleton k, ?_⟩
    intro a ha b hb
    simp only [List.mem_singleton] at hb
    subst hb; intro hab; subst hab; exact h ha

theorem mem_keys_set {r : Row α} {k k' : Nat} {v : α} :
    k' ∈ keys (set r k v) ↔ k' = k ∨ k' ∈ keys r := by
  rw [keys_set]
  split
  · rename_i h; constructor
    · exact Or.inr
    · rintro (h' | h'); · rw [h']; exact h
      exact h'
  · simp [or_comm]

/-- filtering on the key -/
theorem get_filter (r : Row α) (p : Nat → Bool) (k : Nat) :
    get (r.filter (fun e => p e.1)) k = if p k then get r k else none := by
  induction r with
  | nil => simp
  | cons e r ih =>
      by_cases hp : p e.1 = true
      · rw [List.filter_cons_of_pos (by simpa using hp), get_cons, get_cons, ih]
        by_cases h : e.1 = k
        · subst h; simp [hp]
        · simp [h]
      · rw [List.filter_cons_of_neg (by simpa using hp), ih, get_cons]
        by_cases h : e.1 = k
        · have : p k = false := by rw [← h]; simpa using hp
          simp [this]
        · simp [h]

theorem den_filter (r : Row α) (p : Nat → Bool) (k : Nat) :
    den (r.filter (fun e => p e.1)) k = if p k then den r k else Scalar.n 0 := by
  unfold den; rw [get_filter]; split <;> rfl

theorem uniq_filter {r : Row α} (hu : Uniq r) (p : Nat × α → Bool) : Uniq (r.filter p) := by
  unfold Uniq keys at *
  exact hu.sublist (List.filter_sublist.map _)

theorem mem_filter_key {r : Row α} {p : Nat × α → Bool} {e : Nat × α} (h : e ∈ r.filter p) :
    p e = true := (List.mem_filter.mp h).2

theorem get_append (r s : Row α) (k : Nat) :
    get (r ++ s) k = match get r k with | some v => some v | none => get s k := by
  induction r with
  | nil => simp
  | cons e r ih =>
      rw [List.cons_append, get_cons, get_cons, ih]
      by_cases h : e.1 = k <;> simp [h]

/-- storage order is irrelevant for a map without duplicate keys -/
theorem get_perm {r r' : Row α} (hu : Uniq r) (hp : r.Perm r') (k : Nat) : get r k = get r' k := by
  have hu' : Uniq r' := by
    unfold Uniq keys at *; exact (hp.map _).nodup_iff.mp hu
  cases h : get r k with
  | none =>
      symm; rw [get_eq_none_iff] at h ⊢
      intro hk; apply h
      unfold keys at *; exact (hp.map _).mem_iff.mpr hk
  | some v =>
      symm; rw [get_eq_some_iff hu] at h; rw [get_eq_some_iff hu']
      exact hp.mem_iff.mp h

theorem den_perm {r r' : Row α} (hu : Uniq r) (hp : r.Perm r') (k : Nat) : den r k = den r' k := by
  unfold den; rw [get_perm hu hp]

end Maps

/-! ## 2. probe E12: the dense row recurrence and its invariant -/
section Dense
variable {K : Type} [Field K]

/-- eliminate columns 0..j-1 of the dense row `r` against the finished upper rows `U`
    (`sparseLUSolver.h:171-186`: `it->second /= U[j][j]`, then `row[k] -= l * U[j][k]` for k > j) -/
def elim (U : ℕ → ℕ → K) : ℕ → (ℕ → K) → (ℕ → K)
  | 0, r => r
  | j + 1, r =>
      let r' := elim U j r
      let l := r' j / U j j
      fun k => if k = j then l else if j < k then r' k - l * U j k else r' k

/-- entries below the current column are final -/
theorem elim_stable (U : ℕ → ℕ → K) (r : ℕ → K) : ∀ j m k, k < j → elim U (j + m) r k = elim U j r k
  | j, 0, k, _ => rfl
  | j, m + 1, k, hk => by
      have ih := elim_stable U r j m k hk
      show elim U (j + m + 1) r k = _
      simp only [elim]
      have h1 : k ≠ j + m := by omega
      have h2 : ¬ (j + m < k) := by omega
      simp [h1, h2, ih]

/-- the result only depends on the rows `U m`, `m < j` -/
theorem elim_congr (U U' : ℕ → ℕ → K) (r : ℕ → K) :
    ∀ j, (∀ m, m < j → U m = U' m) → elim U j r = elim U' j r
  | 0, _ => rfl
  | j + 1, h => by
      have ih := elim_congr U U' r j (fun m hm => h m (by omega))
      simp only [elim, ih, h j (by omega)]

/-- the row identity behind L·U = A: after eliminating j columns,
    r = Σ_{m<j} l_m · (upper part of U_m) + (remaining part of the working row) -/
theorem elim_invariant (U : ℕ → ℕ → K) (r : ℕ → K) :
    ∀ j, (∀ m, m < j → U m m ≠ 0) → ∀ k,
      r k = ∑ m ∈ range j, elim U j r m * (if m ≤ k then U m k else 0)
              + (if j ≤ k then elim U j r k else 0)
  | 0, _, k => by simp [elim]
  | j + 1, hU, k => by
      have ih := elim_invariant U r j (fun m hm => hU m (by omega)) k
      rw [Finset.sum_range_succ]
      have st : ∀ m ∈ range j, elim U (j + 1) r m = elim U j r m := by
        intro m hm; exact elim_stable U r j 1 m (by simpa using hm)
      rw [Finset.sum_congr rfl (fun m hm => by rw [st m hm])]
      have lj : elim U (j + 1) r j = elim U j r j / U j j := by simp [elim]
      rw [lj, ih]
      have hj := hU j (by omega)
      rcases Nat.lt_trichotomy k j with h | h | h
      · have a1 : ¬ j ≤ k := by omega
        have a2 : ¬ j + 1 ≤ k := by omega
        simp [a1, a2]
      · subst h
        have a2 : ¬ k + 1 ≤ k := by omega
        simp [a2]; field_simp
      · have a1 : j ≤ k := by omega
        have a2 : j + 1 ≤ k := by omega
        have a3 : k ≠ j := by omega
        simp [a1, a2, elim, a3, h]

end Dense

/-! ## 3. bridge: the map-level code computes the dense recurrence -/
section Bridge
variable {K : Type} [Field K]

/-- the fill-in loop `for (k, u) in U[j]: if k > j: row[k] -= l * u` -/
theorem den_fillin (Uj : Row K) (hu : Uniq Uj) (j : Nat) (l : K) : ∀ (r0 : Row K) (k : Nat),
    den (Uj.foldl (fun r e => if e.1 > j then set r e.1 (den r e.1 - l * e.2) else r) r0) k
      = if j < k then den r0 k - l * den Uj k else den r0 k := by
  induction Uj with
  | nil => intro r0 k; simp
  | cons e rest ih =>
      intro r0 k
      obtain ⟨hn, hu'⟩ := uniq_cons.mp hu
      rw [List.foldl_cons, ih hu', den_cons]
      by_cases hk : e.1 = k
      · subst hk
        have h0 : den rest e.1 = 0 := by rw [den_of_not_mem hn]; simp
        by_cases hj : j < e.1
        · have : e.1 > j := hj
          simp [hj, this, den_set, h0]
        · have : ¬ e.1 > j := hj
          simp [hj, this]
      · by_cases hj : e.1 > j
        · have hk' : ¬ k = e.1 := fun h => hk h.symm
          simp [hj, hk, hk', den_set]
        · simp [hj, hk]

theorem keys_fillin (Uj : Row K) (j : Nat) (l : K) : ∀ (r0 : Row K), Uniq r0 →
    Uniq (Uj.foldl (fun r e => if e.1 > j then set r e.1 (den r e.1 - l * e.2) else r) r0) := by
  induction Uj with
  | nil => intro r0 h; exact h
  | cons e rest ih =>
      intro r0 h
      rw [List.foldl_cons]
      apply ih
      split
      · exact uniq_set h _ _
      · exact h

/-- (b) dense semantics of one elimination step -/
theorem elimStep_den (Uj : Row K) (hu : Uniq Uj) (j : Nat) (row : Row K) (k : Nat) :
    den (elimStep Uj j row) k =
      if k = j then den row j / den Uj j
      else if j < k then den row k - (den row j / den Uj j) * den Uj k else den row k := by
  unfold elimStep
  cases hg : get row j with
  | none =>
      have h0 : den row j = 0 := by unfold den; rw [hg]; simp
      simp only [h0, zero_div, zero_mul, sub_zero]
      by_cases hk : k = j
      · simp [hk, h0]
      · simp [hk]
  | some v =>
      have hv : den row j = v := by unfold den; rw [hg]; rfl
      simp only
      rw [den_fillin Uj hu, den_set, hv]
      by_cases hk : k = j
      · subst hk; simp
      · simp [hk]

theorem uniq_elimStep (Uj : Row K) (j : Nat) (row : Row K) (h : Uniq row) : Uniq (elimStep Uj j row) := by
  unfold elimStep
  cases get row j with
  | none => exact h
  | some v => exact keys_fillin Uj j _ _ (uniq_set h _ _)

theorem elimRow_succ (U : List (Row K)) (i : Nat) (row : Row K) :
    elimRow U (i + 1) row = elimStep (U.getD i []) i (elimRow U i row) := by
  unfold elimRow; rw [List.range_succ, List.foldl_append]; rfl

theorem uniq_elimRow (U : List (Row K)) (row : Row K) (h : Uniq row) : ∀ i, Uniq (elimRow U i row)
  | 0 => h
  | i + 1 => by rw [elimRow_succ]; exact uniq_elimStep _ _ _ (uniq_elimRow U row h i)

/-- dense view of a list of map rows -/
def denU (U : List (Row K)) : ℕ → ℕ → K := fun m k => den (U.getD m []) k

/-- the map-level row elimination computes the dense recurrence `elim` -/
theorem elimRow_den (U : List (Row K)) (row : Row K) :
    ∀ i, (∀ m, m < i → Uniq (U.getD m [])) → ∀ k, den (elimRow U i row) k = elim (denU U) i (den row) k
  | 0, _, k => rfl
  | i + 1, hU, k => by
      have ih := elimRow_den U row i (fun m hm => hU m (by omega))
      rw [elimRow_succ, elimStep_den _ (hU i (by omega))]
      simp only [elim, ih, denU]

theorem elimRow_congr (U U' : List (Row K)) (row : Row K) :
    ∀ i, (∀ m, m < i → U.getD m [] = U'.getD m []) → elimRow U i row = elimRow U' i row
  | 0, _ => rfl
  | i + 1, h => by
      rw [elimRow_succ, elimRow_succ, elimRow_congr U U' row i (fun m hm => h m (by omega)), h i (by omega)]

end Bridge

/-! ## 4. the row-by-row factorisation -/
section Factor
variable {K : Type} [Field K]

/-- one pass of the outer loop of `factorRows` -/
def factorStep (A : CSR K) (LU : List (Row K) × List (Row K)) (i : Nat) : List (Row K) × List (Row K) :=
  let r := elimRow LU.2 i (loadRow A i)
  (LU.1 ++ [r.filter (fun e => e.1 < i)], LU.2 ++ [r.filter (fun e => e.1 ≥ i)])

/-- the factorisation after the first `n` rows -/
def factorUpTo (A : CSR K) (n : Nat) : List (Row K) × List (Row K) :=
  (List.range n).foldl (factorStep A) ([], [])

theorem factorRows_eq (A : CSR K) : factorRows A = factorUpTo A A.rows := rfl

theorem factorUpTo_succ (A : CSR K) (n : Nat) :
    factorUpTo A (n + 1) = factorStep A (factorUpTo A n) n := by
  unfold factorUpTo; rw [List.range_succ, List.foldl_append]; rfl

/-- the final working row of row `i` (before it is split into its L and U part) -/
def W (A : CSR K) (i : Nat) : Row K := elimRow (factorUpTo A i).2 i (loadRow A i)

theorem factorUpTo_eq (A : CSR K) : ∀ n, factorUpTo A n =
    ((List.range n).map (fun i => (W A i).filter (fun e => e.1 < i)),
     (List.range n).map (fun i => (W A i).filter (fun e => e.1 ≥ i)))
  | 0 => rfl
  | n + 1 => by
      rw [factorUpTo_succ, List.range_succ, List.map_append, List.map_append]
      have ih := factorUpTo_eq A n
      have hW : W A n = elimRow (factorUpTo A n).2 n (loadRow A n) := rfl
      unfold factorStep
      simp only [List.map_cons, List.map_nil]
      rw [hW, ih]

theorem getD_map_range {β : Type} (f : Nat → β) (n i : Nat) (d : β) :
    ((List.range n).map f).getD i d = if i < n then f i else d := by
  by_cases h : i < n <;> simp [List.getD_eq_getElem?_getD, h]

theorem getD_of_le {β : Type} {l : List β} {i : Nat} (d : β) (h : l.length ≤ i) : l.getD i d = d := by
  simp [List.getD_eq_getElem?_getD, List.getElem?_eq_none h]

theorem factorRows_length (A : CSR K) :
    (factorRows A).1.length = A.rows ∧ (factorRows A).2.length = A.rows := by
  rw [factorRows_eq, factorUpTo_eq]; simp

theorem L_getD (A : CSR K) (n i : Nat) (h : i < n) :
    (factorUpTo A n).1.getD i [] = (W A i).filter (fun e => e.1 < i) := by
  rw [factorUpTo_eq]; simp only; rw [getD_map_range, if_pos h]

theorem U_getD (A : CSR K) (n i : Nat) (h : i < n) :
    (factorUpTo A n).2.getD i [] = (W A i).filter (fun e => e.1 ≥ i) := by
  rw [factorUpTo_eq]; simp only; rw [getD_map_range, if_pos h]

theorem W_eq (A : CSR K) (i : Nat) (h : i ≤ A.rows) :
    W A i = elimRow (factorRows A).2 i (loadRow A i) := by
  unfold W
  apply elimRow_congr
  intro m hm
  rw [factorRows_eq, U_getD A i m hm, U_getD A A.rows m (by omega)]

theorem uniq_foldl_set {β : Type} (c : β → Nat) (v : β → K) (l : List β) :
    ∀ r0 : Row K, Uniq r0 → Uniq (l.foldl (fun r x => set r (c x) (v x)) r0) := by
  induction l with
  | nil => intro r0 h; exact h
  | cons x l ih => intro r0 h; exact ih _ (uniq_set h _ _)

/-- `loadRow` builds the row with `set`, so its keys are unique whatever the stored pattern -/
theorem uniq_loadRow (A : CSR K) (i : Nat) : Uniq (loadRow A i) := by
  unfold loadRow
  exact uniq_foldl_set _ _ _ _ uniq_nil

theorem uniq_W (A : CSR K) (i : Nat) : Uniq (W A i) := uniq_elimRow _ _ (uniq_loadRow A i) i

theorem uniq_U (A : CSR K) (i : Nat) : Uniq ((factorRows A).2.getD i []) := by
  by_cases h : i < A.rows
  · rw [factorRows_eq, U_getD A _ i h]; exact uniq_filter (uniq_W A i) _
  · rw [getD_of_le _ (by rw [(factorRows_length A).2]; omega)]; exact uniq_nil

theorem uniq_L (A : CSR K) (i : Nat) : Uniq ((factorRows A).1.getD i []) := by
  by_cases h : i < A.rows
  · rw [factorRows_eq, L_getD A _ i h]; exact uniq_filter (uniq_W A i) _
  · rw [getD_of_le _ (by rw [(factorRows_length A).1]; omega)]; exact uniq_nil

theorem L_keys (A : CSR K) (i : Nat) : ∀ e ∈ (factorRows A).1.getD i [], e.1 < i := by
  intro e he
  by_cases h : i < A.rows
  · rw [factorRows_eq, L_getD A _ i h] at he
    simpa using mem_filter_key he
  · rw [getD_of_le _ (by rw [(factorRows_length A).1]; omega)] at he; simp at he

/-- entry `m` of row `i` of L -/
theorem den_L (A : CSR K) (i m : Nat) (h : i < A.rows) :
    den ((factorRows A).1.getD i []) m = if m < i then den (W A i) m else 0 := by
  rw [factorRows_eq, L_getD A _ i h]
  have := den_filter (W A i) (fun k => decide (k < i)) m
  simpa using this

/-- entry `k` of row `i` of U -/
theorem den_U (A : CSR K) (i k : Nat) (h : i < A.rows) :
    den ((factorRows A).2.getD i []) k = if i ≤ k then den (W A i) k else 0 := by
  rw [factorRows_eq, U_getD A _ i h]
  have := den_filter (W A i) (fun k => decide (k ≥ i)) k
  simpa using this

/-- the working row in dense terms -/
theorem den_W (A : CSR K) (i k : Nat) (h : i ≤ A.rows) :
    den (W A i) k = elim (denU (factorRows A).2) i (den (loadRow A i)) k := by
  rw [W_eq A i h, elimRow_den _ _ i (fun m _ => uniq_U A m)]

/-- (d) row `i` of `A` is row `i` of `L·U` with `L` unit lower and `U` upper triangular -/
theorem lu_product_row (A : CSR K)
    (hp : ∀ i, i < A.rows → den ((factorRows A).2.getD i []) i ≠ 0) (i k : Nat) (hi : i < A.rows) :
    toDense A i k = ∑ m ∈ range i, den ((factorRows A).1.getD i []) m * den ((factorRows A).2.getD m []) k
        + den ((factorRows A).2.getD i []) k := by
  have inv := elim_invariant (denU (factorRows A).2) (den (loadRow A i)) i
    (fun m hm => hp m (by omega)) k
  unfold toDense
  rw [inv, den_U A i k hi, den_W A i k (by omega)]
  congr 1
  apply Finset.sum_congr rfl
  intro m hm
  have hm' : m < i := by simpa using hm
  rw [den_L A i m hi, if_pos hm', den_W A i m (by omega)]
  congr 1
  show (if m ≤ k then den ((factorRows A).2.getD m []) k else 0) = _
  rw [den_U A m k (by omega)]
  split <;> rfl

end Factor

/-! ## 5. forward and backward substitution -/
section Subst
variable {K : Type} [Field K]

theorem vget_of_le (b : List K) {k : Nat} (h : b.length ≤ k) : vget b k = 0 := by
  unfold vget; rw [getD_of_le _ h]; simp

theorem vget_set (b : List K) (i k : Nat) (v : K) :
    vget (b.set i v) k = if k = i ∧ i < b.length then v else vget b k := by
  unfold vget
  rw [List.getD_eq_getElem?_getD, List.getD_eq_getElem?_getD, List.getElem?_set]
  by_cases h : i = k
  · subst h
    by_cases h2 : i < b.length
    · simp [h2]
    · simp [h2]
  · have h' : ¬ k = i := fun h' => h h'.symm
    simp [h, h']

theorem set_vget_self (b : List K) (i : Nat) (h : i < b.length) : b.set i (vget b i) = b := by
  apply List.ext_getElem
  · simp
  · intro k h1 h2
    rw [List.getElem_set]
    split
    · rename_i hik; subst hik
      unfold vget; rw [List.getD_eq_getElem?_getD, List.getElem?_eq_getElem h]; rfl
    · rfl

theorem foldl_add_eq {β : Type} (g : β → K) (l : List β) : ∀ a : K,
    l.foldl (fun s e => s + g e) a = a + (l.map g).sum := by
  induction l with
  | nil => intro a; simp
  | cons x l ih => intro a; rw [List.foldl_cons, ih, List.map_cons, List.sum_cons, add_assoc]

/-- a sum over the stored entries of a map row is the dense dot product -/
theorem rowSum_eq (r : Row K) (hu : Uniq r) (f : ℕ → K) (n : ℕ) (hf : ∀ m, n ≤ m → f m = 0) :
    (r.map (fun e => e.2 * f e.1)).sum = ∑ m ∈ range n, den r m * f m := by
  induction r with
  | nil => simp
  | cons e rest ih =>
      obtain ⟨hn, hu'⟩ := uniq_cons.mp hu
      rw [List.map_cons, List.sum_cons, ih hu']
      have h0 : den rest e.1 = 0 := by rw [den_of_not_mem hn]; simp
      have ht : ∀ m ∈ range n, den (e :: rest) m * f m
          = den rest m * f m + (if m = e.1 then e.2 * f e.1 else 0) := by
        intro m _
        rw [den_cons]
        by_cases h : e.1 = m
        · subst h; simp [h0]
        · have : ¬ m = e.1 := fun h' => h h'.symm
          simp [h, this]
      rw [Finset.sum_congr rfl ht, Finset.sum_add_distrib, Finset.sum_ite_eq']
      by_cases hm : e.1 ∈ range n
      · simp [hm]; ring
      · have : f e.1 = 0 := hf _ (by simpa using hm)
        simp [hm, this]

theorem den_zero_of_keys_lt {r : Row K} {i k : Nat} (h : ∀ e ∈ r, e.1 < i) (hk : i ≤ k) : den r k = 0 := by
  rw [den_of_not_mem]; · simp
  intro hmem
  obtain ⟨e, he, rfl⟩ := List.mem_map.mp hmem
  have := h e he; omega

/-- the dense product computed by `mulDense` -/
theorem mulDense_length (A : CSR K) (x : List K) : (mulDense A x).length = A.rows := by
  unfold mulDense; simp

theorem vget_mulDense (A : CSR K) (x : List K) (i : Nat) (hi : i < A.rows) :
    vget (mulDense A x) i = ∑ k ∈ range x.length, toDense A i k * vget x k := by
  unfold mulDense vget
  rw [getD_map_range, if_pos hi, foldl_add_eq]
  rw [rowSum_eq (loadRow A i) (uniq_loadRow A i) (fun k => x.getD k (Scalar.n 0)) x.length
    (fun m hm => vget_of_le x hm)]
  simp [toDense]

/-- the inner loop of the forward substitution for one row -/
theorem fwdRow_eq (Li : Row K) (i : Nat) (hk : ∀ e ∈ Li, e.1 ≠ i) : ∀ (b : List K), i < b.length →
    Li.foldl (fun b e => b.set i (vget b i - e.2 * vget b e.1)) b
      = b.set i (vget b i - (Li.map (fun e => e.2 * vget b e.1)).sum) := by
  induction Li with
  | nil => intro b hb; simp [set_vget_self b i hb]
  | cons e rest ih =>
      intro b hb
      have hk' : ∀ e ∈ rest, e.1 ≠ i := fun e' he' => hk e' (List.mem_cons_of_mem _ he')
      rw [List.foldl_cons, ih hk' _ (by simpa using hb), List.set_set]
      congr 1
      rw [vget_set, if_pos ⟨rfl, hb⟩, List.map_cons, List.sum_cons]
      have : (rest.map (fun e' => e'.2 * vget (b.set i (vget b i - e.2 * vget b e.1)) e'.1))
           = rest.map (fun e' => e'.2 * vget b e'.1) := by
        apply List.map_congr_left
        intro e' he'
        rw [vget_set, if_neg (fun h => hk' e' he' h.1)]
      rw [this]; ring

/-- forward substitution over the first `m` rows -/
def fwdUpTo (L : List (Row K)) (m : Nat) (b : List K) : List K :=
  (List.range m).foldl (fun b i =>
      (L.getD i []).foldl (fun b e => b.set i (vget b i - e.2 * vget b e.1)) b) b

theorem fwdSolve_eq (L : List (Row K)) (b : List K) : fwdSolve L b = fwdUpTo L L.length b := rfl

theorem fwdUpTo_succ (L : List (Row K)) (m : Nat) (b : List K) :
    fwdUpTo L (m + 1) b =
      (L.getD m []).foldl (fun b e => b.set m (vget b m - e.2 * vget b e.1)) (fwdUpTo L m b) := by
  unfold fwdUpTo; rw [List.range_succ, List.foldl_append]; rfl

theorem fwd_spec (L : List (Row K))
    (hL : ∀ i, Uniq (L.getD i []) ∧ ∀ e ∈ L.getD i [], e.1 < i) (b : List K) :
    ∀ m, m ≤ b.length →
      (fwdUpTo L m b).length = b.length ∧
      (∀ i, m ≤ i → vget (fwdUpTo L m b) i = vget b i) ∧
      (∀ i, i < m → vget (fwdUpTo L m b) i
          + ∑ k ∈ range b.length, den (L.getD i []) k * vget (fwdUpTo L m b) k = vget b i)
  | 0, _ => ⟨rfl, fun _ _ => rfl, fun i hi => absurd hi (Nat.not_lt_zero i)⟩
  | m + 1, hm => by
      obtain ⟨ihl, ihge, ihlt⟩ := fwd_spec L hL b m (by omega)
      have hkeys : ∀ e ∈ L.getD m [], e.1 ≠ m := fun e he => by have := (hL m).2 e he; omega
      have hmy : m < (fwdUpTo L m b).length := by omega
      rw [fwdUpTo_succ, fwdRow_eq _ m hkeys _ hmy]
      rw [rowSum_eq _ (hL m).1 (vget (fwdUpTo L m b)) b.length
        (fun k hk => vget_of_le _ (by omega))]
      set y := fwdUpTo L m b with hy
      set S := ∑ k ∈ range b.length, den (L.getD m []) k * vget y k with hS
      -- the dot products with rows ≤ m do not see the new entry
      have hdot : ∀ i, i ≤ m → ∑ k ∈ range b.length, den (L.getD i []) k * vget (y.set m (vget y m - S)) k
          = ∑ k ∈ range b.length, den (L.getD i []) k * vget y k := by
        intro i hi
        apply Finset.sum_congr rfl
        intro k _
        rw [vget_set]
        by_cases hk : k = m
        · subst hk
          rw [den_zero_of_keys_lt (hL i).2 hi]; simp
        · simp [hk]
      refine ⟨by simp [ihl], ?_, ?_⟩
      · intro i hi
        rw [vget_set, if_neg (by omega)]
        exact ihge i (by omega)
      · intro i hi
        rw [hdot i (by omega)]
        by_cases him : i = m
        · subst him
          rw [vget_set, if_pos ⟨rfl, hmy⟩, ihge i (le_refl i)]
          ring
        · rw [vget_set, if_neg (fun h => him h.1)]
          exact ihlt i (by omega)

/-- the loop over one row of the backward substitution -/
theorem bwdRow_fold (i : Nat) (b : List K) (r : Row K) (hu : Uniq r) : ∀ acc : K × K,
    r.foldl (fun (acc : K × K) e =>
        if e.1 == i then (e.2, acc.2) else (acc.1, acc.2 - e.2 * vget b e.1)) acc
      = (if i ∈ keys r then den r i else acc.1,
         acc.2 - (r.map (fun e => e.2 * (if e.1 = i then 0 else vget b e.1))).sum) := by
  induction r with
  | nil => intro acc; simp
  | cons e rest ih =>
      intro acc
      obtain ⟨hn, hu'⟩ := uniq_cons.mp hu
      rw [List.foldl_cons, ih hu', List.map_cons, List.sum_cons, den_cons, keys_cons]
      by_cases he : e.1 = i
      · subst he
        simp [hn]
      · have he' : ¬ i = e.1 := fun h => he h.symm
        have hb : (e.1 == i) = false := by simpa using he
        simp only [hb, he, if_false, List.mem_cons, he', false_or, Bool.false_eq_true]
        congr 1
        ring

theorem bwdRow_eq (Ui : Row K) (hu : Uniq Ui) (i : Nat) (b : List K) :
    bwdRow Ui i b = (den Ui i,
      vget b i - ∑ k ∈ range b.length, den Ui k * (if k = i then 0 else vget b k)) := by
  unfold bwdRow
  rw [bwdRow_fold i b Ui hu]
  rw [rowSum_eq Ui hu (fun k => if k = i then 0 else vget b k) b.length
    (fun m hm => by show (if m = i then (0:K) else vget b m) = 0; split; rfl; exact vget_of_le b hm)]
  congr 1
  split
  · rfl
  · rename_i h; rw [den_of_not_mem h]

theorem bwd_spec (tiny : K → Bool) (U : List (Row K)) (n : Nat)
    (hU : ∀ j, Uniq (U.getD j []))
    (hp : ∀ j, j < n → den (U.getD j []) j ≠ 0)
    (hup : ∀ j k, k < j → den (U.getD j []) k = 0) :
    ∀ i, i ≤ n → ∀ b x : List K, b.length = n → bwdSolve tiny U i b = some x →
      x.length = n ∧ (∀ k, i ≤ k → vget x k = vget b k) ∧
      ∀ j, j < i → ∑ k ∈ range n, den (U.getD j []) k * vget x k = vget b j
  | 0, _, b, x, hb, h => by
      simp only [bwdSolve, Option.some.injEq] at h
      subst h
      exact ⟨hb, fun _ _ => rfl, fun j hj => absurd hj (Nat.not_lt_zero j)⟩
  | i + 1, hi, b, x, hb, h => by
      simp only [bwdSolve] at h
      split at h
      · exact absurd h (by simp)
      rw [bwdRow_eq _ (hU i)] at h
      simp only at h
      set d := den (U.getD i []) with hd
      set S := ∑ k ∈ range b.length, d k * (if k = i then 0 else vget b k) with hS
      set v := (vget b i - S) / d i with hv
      have hin : i < b.length := by omega
      obtain ⟨xl, xge, xlt⟩ := bwd_spec tiny U n hU hp hup i (by omega) (b.set i v) x (by simp [hb]) h
      refine ⟨xl, ?_, ?_⟩
      · intro k hk
        rw [xge k (by omega), vget_set, if_neg (by omega)]
      · intro j hj
        by_cases hji : j = i
        · subst hji
          have hdi : d j ≠ 0 := hp j (by omega)
          have h1 : ∀ k ∈ range n, d k * vget x k
              = d k * (if k = j then 0 else vget b k) + (if k = j then d j * v else 0) := by
            intro k _
            by_cases hkj : k < j
            · have : d k = 0 := hup j k hkj
              have hne : ¬ k = j := by omega
              simp [this, hne]
            · rw [xge k (by omega), vget_set]
              by_cases hkj' : k = j
              · subst hkj'; simp [hin]
              · simp [hkj']
          rw [Finset.sum_congr rfl h1, Finset.sum_add_distrib, Finset.sum_ite_eq']
          have hmem : j ∈ range n := by simp; omega
          rw [if_pos hmem, ← hb, ← hS, hv]
          field_simp
          ring
        · rw [xlt j (by omega), vget_set, if_neg (fun h => hji h.1)]

end Subst

/-! ## 6. the solve: `A x = b` -/
section Solve
variable {K : Type} [Field K]

theorem ext_vget {l1 l2 : List K} (hl : l1.length = l2.length)
    (h : ∀ i, i < l1.length → vget l1 i = vget l2 i) : l1 = l2 := by
  apply List.ext_getElem hl
  intro i h1 h2
  have := h i h1
  unfold vget at this
  rw [List.getD_eq_getElem?_getD, List.getD_eq_getElem?_getD,
    List.getElem?_eq_getElem h1, List.getElem?_eq_getElem h2] at this
  simpa using this

theorem U_upper (A : CSR K) (j k : Nat) (h : k < j) : den ((factorRows A).2.getD j []) k = 0 := by
  by_cases hj : j < A.rows
  · rw [den_U A j k hj, if_neg (by omega)]
  · rw [getD_of_le _ (by rw [(factorRows_length A).2]; omega)]; simp

theorem L_lower (A : CSR K) (i m : Nat) (h : i ≤ m) : den ((factorRows A).1.getD i []) m = 0 :=
  den_zero_of_keys_lt (L_keys A i) h

/-- forward substitution solves the unit lower triangular system `L y = b` -/
theorem fwdSolve_spec (A : CSR K) (b : List K) (hb : b.length = A.rows) :
    (fwdSolve (factorRows A).1 b).length = A.rows ∧
    ∀ i, i < A.rows → vget (fwdSolve (factorRows A).1 b) i
      + ∑ m ∈ range i, den ((factorRows A).1.getD i []) m * vget (fwdSolve (factorRows A).1 b) m
      = vget b i := by
  rw [fwdSolve_eq, (factorRows_length A).1]
  obtain ⟨hl, _, hlt⟩ := fwd_spec (factorRows A).1 (fun i => ⟨uniq_L A i, L_keys A i⟩) b A.rows (by omega)
  refine ⟨by omega, ?_⟩
  intro i hi
  rw [← hlt i hi, hb]
  congr 1
  apply Finset.sum_subset
  · intro m hm; simp at hm ⊢; omega
  · intro m _ hm
    rw [L_lower A i m (by simpa using hm)]; simp

/-- backward substitution solves the upper triangular system `U x = y` (when it does not exit) -/
theorem bwdSolve_spec (tiny : K → Bool) (A : CSR K)
    (hp : ∀ i, i < A.rows → den ((factorRows A).2.getD i []) i ≠ 0)
    (y x : List K) (hy : y.length = A.rows)
    (hs : bwdSolve tiny (factorRows A).2 A.rows y = some x) :
    x.length = A.rows ∧
    ∀ j, j < A.rows → ∑ k ∈ range A.rows, den ((factorRows A).2.getD j []) k * vget x k = vget y j := by
  obtain ⟨xl, _, xlt⟩ := bwd_spec tiny (factorRows A).2 A.rows (uniq_U A) hp (U_upper A) A.rows
    (le_refl _) y x hy hs
  exact ⟨xl, xlt⟩

/-- (e) the computed solution satisfies `A x = b` -/
theorem lu_solve_vget (tiny : K → Bool) (A : CSR K)
    (hp : ∀ i, i < A.rows → den ((factorRows A).2.getD i []) i ≠ 0)
    (b x : List K) (hb : b.length = A.rows)
    (hs : solve tiny (factorRows A) b = some x) : mulDense A x = b := by
  unfold solve at hs
  rw [(factorRows_length A).2] at hs
  obtain ⟨yl, hy⟩ := fwdSolve_spec A b hb
  obtain ⟨xl, hx⟩ := bwdSolve_spec tiny A hp _ x yl hs
  set y := fwdSolve (factorRows A).1 b with hydef
  apply ext_vget
  · rw [mulDense_length, hb]
  · intro i hi
    rw [mulDense_length] at hi
    rw [vget_mulDense A x i hi, xl, ← hy i hi]
    have h1 : ∀ k ∈ range A.rows, toDense A i k * vget x k
        = ∑ m ∈ range i, den ((factorRows A).1.getD i []) m * (den ((factorRows A).2.getD m []) k * vget x k)
          + den ((factorRows A).2.getD i []) k * vget x k := by
      intro k _
      rw [lu_product_row A hp i k hi, add_mul, Finset.sum_mul]
      congr 1
      apply Finset.sum_congr rfl
      intro m _; ring
    rw [Finset.sum_congr rfl h1, Finset.sum_add_distrib, Finset.sum_comm, hx i hi, add_comm]
    congr 1
    apply Finset.sum_congr rfl
    intro m hm
    rw [← Finset.mul_sum, hx m (by have := List.mem_range.mp (by simpa using hm); omega)]

end Solve

section Exit
variable {K : Type} [Field K]

/-- the `std::exit` branch is taken exactly when some pivot is `tiny` -/
theorem bwdSolve_none_iff (tiny : K → Bool) (U : List (Row K)) (hU : ∀ j, Uniq (U.getD j [])) :
    ∀ (i : Nat) (b : List K), bwdSolve tiny U i b = none ↔ ∃ j, j < i ∧ tiny (den (U.getD j []) j) = true
  | 0, b => by simp [bwdSolve]
  | i + 1, b => by
      simp only [bwdSolve]
      rw [bwdRow_eq _ (hU i)]
      simp only
      by_cases ht : tiny (den (U.getD i []) i) = true
      · simp only [ht, if_true, true_iff]
        exact ⟨i, by omega, ht⟩
      · simp only [ht, if_false, Bool.false_eq_true]
        rw [bwdSolve_none_iff tiny U hU i]
        constructor
        · rintro ⟨j, hj, h⟩; exact ⟨j, by omega, h⟩
        · rintro ⟨j, hj, h⟩
          by_cases hji : j = i
          · subst hji; exact absurd h ht
          · exact ⟨j, by omega, h⟩

theorem solve_none_iff (tiny : K → Bool) (A : CSR K) (b : List K) :
    solve tiny (factorRows A) b = none ↔
      ∃ j, j < A.rows ∧ tiny (den ((factorRows A).2.getD j []) j) = true := by
  unfold solve
  rw [bwdSolve_none_iff tiny _ (uniq_U A), (factorRows_length A).2]

end Exit

/-! ## 7. storage order and explicit zeros -/
section Perm
variable {K : Type} [Field K]

/-- the stored (column, value) pairs of row `i`, in storage order -/
def rowEntries (A : CSR K) (i : Nat) : Row K :=
  let lo := A.rowPtr.getD i 0
  let hi := A.rowPtr.getD (i + 1) 0
  (List.range (hi - lo)).map (fun idx => (A.colIdx.getD (lo + idx) 0, A.values.getD (lo + idx) (Scalar.n 0)))

theorem foldl_set_eq_append {β : Type} (c : β → Nat) (v : β → K) (l : List β) :
    ∀ r0 : Row K, (keys r0 ++ l.map c).Nodup →
      l.foldl (fun r x => set r (c x) (v x)) r0 = r0 ++ l.map (fun x => (c x, v x)) := by
  induction l with
  | nil => intro r0 _; simp
  | cons x l ih =>
      intro r0 h
      rw [List.foldl_cons]
      have hx : c x ∉ keys r0 := by
        intro hm
        rw [List.nodup_append] at h
        exact h.2.2 _ hm _ (by simp) rfl
      have hset : set r0 (c x) (v x) = r0 ++ [(c x, v x)] := by
        unfold set
        have : ¬ (r0.any (fun e => e.1 == c x) = true) := by
          intro h'; apply hx
          simp only [List.any_eq_true, beq_iff_eq] at h'
          obtain ⟨e, he, hk⟩ := h'
          exact List.mem_map.mpr ⟨e, he, hk⟩
        rw [if_neg this]
      rw [hset, ih]
      · simp
      · unfold keys at *
        simpa [List.append_assoc] using h

/-- without repeated columns `loadRow` is the stored list itself -/
theorem loadRow_eq_rowEntries (A : CSR K) (i : Nat) (h : Uniq (rowEntries A i)) :
    loadRow A i = rowEntries A i := by
  unfold loadRow rowEntries
  simp only
  rw [foldl_set_eq_append]
  · simp
  · unfold Uniq keys rowEntries at h
    simpa [List.map_map, Function.comp_def] using h

/-- appending entries whose value is zero does not change the dense row -/
theorem den_append_zeros (r zs : Row K) (hz : ∀ e ∈ zs, e.2 = 0) (k : Nat) :
    den (r ++ zs) k = den r k := by
  unfold den
  rw [get_append]
  cases h : get r k with
  | some v => rfl
  | none =>
      simp only
      induction zs with
      | nil => rfl
      | cons e zs ih =>
          rw [get_cons]
          split
          · have := hz e (by simp); simp [this]
          · exact ih (fun e' he' => hz e' (List.mem_cons_of_mem _ he'))

/-- (f) a row stored in another order and with extra explicit zeros has the same dense meaning -/
theorem den_perm_zeros (r r' zs : Row K) (hu : Uniq r') (hp : r'.Perm (r ++ zs))
    (hz : ∀ e ∈ zs, e.2 = 0) (k : Nat) : den r' k = den r k := by
  rw [den_perm hu hp, den_append_zeros r zs hz]

end Perm

/-! ## 8. strictly diagonally dominant rows: all pivots are non-zero -/
section SDD
variable {K : Type} [Field K] [LinearOrder K] [IsStrictOrderedRing K]

/-- `|r k|` off the diagonal position `i`, `0` on it -/
def off (i : ℕ) (r : ℕ → K) (k : ℕ) : K := if k = i then 0 else |r k|

theorem off_nonneg (i : ℕ) (r : ℕ → K) (k : ℕ) : 0 ≤ off i r k := by
  unfold off; split; exact le_refl _; exact abs_nonneg _

theorem sum_split_at (s : Finset ℕ) (i : ℕ) (hi : i ∈ s) (f : ℕ → K) :
    ∑ k ∈ s, f k = f i + ∑ k ∈ s, (if k = i then 0 else f k) := by
  have : ∀ k ∈ s, f k = (if k = i then f i else 0) + (if k = i then 0 else f k) := by
    intro k _; by_cases h : k = i <;> simp [h]
  rw [Finset.sum_congr rfl this, Finset.sum_add_distrib, Finset.sum_ite_eq', if_pos hi]

/-- one elimination step does not decrease the dominance margin of the active part of the row -/
theorem elim_dom (U : ℕ → ℕ → K) (r : ℕ → K) (N i : ℕ) (hi : i < N) : ∀ j, j ≤ i →
    (∀ m, m < j → U m m ≠ 0 ∧ ∑ k ∈ Ico (m + 1) N, |U m k| ≤ |U m m|) →
    |r i| - ∑ k ∈ Ico 0 N, off i r k ≤ |elim U j r i| - ∑ k ∈ Ico j N, off i (elim U j r) k
  | 0, _, _ => le_refl _
  | j + 1, hj, hU => by
      have ih := elim_dom U r N i hi j (by omega) (fun m hm => hU m (by omega))
      obtain ⟨hjj, hdom⟩ := hU j (by omega)
      refine le_trans ih ?_
      set r0 := elim U j r with hr0
      set l := r0 j / U j j with hl
      have hstep : ∀ k, elim U (j + 1) r k
          = if k = j then l else if j < k then r0 k - l * U j k else r0 k := fun k => rfl
      have hl' : |l| * |U j j| = |r0 j| := by
        rw [hl, abs_div, div_mul_cancel₀]; exact abs_ne_zero.mpr hjj
      -- split the old active sum
      have h1 : ∑ k ∈ Ico j N, off i r0 k = |r0 j| + ∑ k ∈ Ico (j + 1) N, off i r0 k := by
        rw [Finset.sum_eq_sum_Ico_succ_bot (by omega)]
        congr 1
        unfold off; rw [if_neg (by omega)]
      -- the new active sum
      have h2 : ∑ k ∈ Ico (j + 1) N, off i (elim U (j + 1) r) k
          ≤ ∑ k ∈ Ico (j + 1) N, off i r0 k + |l| * ∑ k ∈ Ico (j + 1) N, off i (U j) k := by
        rw [Finset.mul_sum, ← Finset.sum_add_distrib]
        apply Finset.sum_le_sum
        intro k hk
        have hk' : j < k := by have := Finset.mem_Ico.mp hk; omega
        unfold off
        by_cases hki : k = i
        · simp [hki]
        · simp only [hki, if_false]
          rw [hstep k, if_neg (by omega), if_pos hk', ← abs_mul]
          exact abs_sub _ _
      have h3 : ∑ k ∈ Ico (j + 1) N, |U j k| = |U j i| + ∑ k ∈ Ico (j + 1) N, off i (U j) k :=
        sum_split_at _ i (Finset.mem_Ico.mpr ⟨by omega, hi⟩) _
      have h4 : |r0 i| - |l| * |U j i| ≤ |elim U (j + 1) r i| := by
        rw [hstep i, if_neg (by omega), if_pos (by omega), ← abs_mul]
        exact abs_sub_abs_le_abs_sub _ _
      have h5 : |l| * (|U j i| + ∑ k ∈ Ico (j + 1) N, off i (U j) k) ≤ |r0 j| := by
        rw [← h3, ← hl']
        exact mul_le_mul_of_nonneg_left hdom (abs_nonneg _)
      rw [h1]
      have h6 := mul_add |l| |U j i| (∑ k ∈ Ico (j + 1) N, off i (U j) k)
      linarith

/-- (g) rows strictly diagonally dominant over the columns `< N` (`A.rows ≤ N`): every pivot is
    non-zero and the rows of `U` are again dominant -/
theorem sdd_pivots_aux (A : CSR K) (N : ℕ) (hN : A.rows ≤ N)
    (hsdd : ∀ i, i < A.rows → ∑ k ∈ range N, off i (toDense A i) k < |toDense A i i|) :
    ∀ i, i < A.rows →
      den ((factorRows A).2.getD i []) i ≠ 0 ∧
      ∑ k ∈ Ico (i + 1) N, |den ((factorRows A).2.getD i []) k| ≤ |den ((factorRows A).2.getD i []) i| := by
  intro i
  induction i using Nat.strong_induction_on with
  | _ i ih =>
      intro hi
      have hdom := elim_dom (denU (factorRows A).2) (den (loadRow A i)) N i (by omega) i (le_refl i)
        (fun m hm => ih m hm (by omega))
      have hs := hsdd i hi
      rw [Finset.range_eq_Ico] at hs
      unfold toDense at hs
      have hw : ∀ k, i ≤ k → den ((factorRows A).2.getD i []) k
          = elim (denU (factorRows A).2) i (den (loadRow A i)) k := by
        intro k hk; rw [den_U A i k hi, if_pos hk, den_W A i k (by omega)]
      set w := elim (denU (factorRows A).2) i (den (loadRow A i)) with hwdef
      have h1 : ∑ k ∈ Ico i N, off i w k = ∑ k ∈ Ico (i + 1) N, |den ((factorRows A).2.getD i []) k| := by
        rw [Finset.sum_eq_sum_Ico_succ_bot (by omega)]
        have : off i w i = 0 := by unfold off; simp
        rw [this, zero_add]
        apply Finset.sum_congr rfl
        intro k hk
        have hk' : i + 1 ≤ k := (Finset.mem_Ico.mp hk).1
        unfold off; rw [if_neg (by omega), hw k (by omega)]
      rw [h1, ← hw i (le_refl i)] at hdom
      have hnn : 0 ≤ ∑ k ∈ Ico (i + 1) N, |den ((factorRows A).2.getD i []) k| :=
        Finset.sum_nonneg (fun k _ => abs_nonneg _)
      constructor
      · intro h0
        rw [h0, abs_zero] at hdom
        linarith
      · linarith

end SDD

/-! ## example matrix for the non-vacuity checks of C16 -/
/-- `[[1,1],[1,2]]` with the first row stored out of order: pivots `1, 1` in every field -/
def exA {K : Type} [Field K] : CSR K := CSR.ofTriplets 2 2 [(0,1,1),(0,0,1),(1,0,1),(1,1,1+1)]

end SparseLU
