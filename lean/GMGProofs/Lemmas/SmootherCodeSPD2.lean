import GMGProofs.Props.C06c
/-!
# Helper lemmas for C06d, part 2: the quadratic forms of the stored line matrices are energies of the operator

`dot` as a finite sum, non-zero lists have a non-zero entry, `A_sc^ortho` is linear (vanishes on zero data), and
`Qc (circle matrix) xs = ⟨A e, e⟩` for the field `e` carrying `xs` on the circle.
-/
set_option linter.unusedSectionVars false
namespace SmootherCode
open Stencil Tridiag C06c Finset
variable {K : Type} [_root_.Field K]

/-- `dot` as a sum over indices (`getD` pads with zeros) -/
theorem dot_eq_sum : ∀ (x y : List K) (n : Nat), x.length ≤ n →
    dot x y = ∑ t ∈ range n, x.getD t 0 * y.getD t 0
  | [], y, n, _ => by simp [dot]
  | x :: xs, [], n, _ => by simp [dot]
  | x :: xs, y :: ys, 0, h => by simp at h
  | x :: xs, y :: ys, n + 1, h => by
      rw [Finset.sum_range_succ', dot, dot_eq_sum xs ys n (by simpa using h)]
      simp [add_comm]

/-- a list that is not all zero has a non-zero entry -/
theorem exists_ne_of_not_allZero : ∀ (x : List K), ¬ allZero x → ∃ t, t < x.length ∧ x.getD t 0 ≠ 0
  | [], h => absurd trivial h
  | x :: xs, h => by
      by_cases h0 : x = 0
      · have : ¬ allZero xs := fun hz => h ⟨h0, hz⟩
        obtain ⟨t, ht, hne⟩ := exists_ne_of_not_allZero xs this
        exact ⟨t + 1, by simpa using ht, by simpa using hne⟩
      · exact ⟨0, by simp, by simpa using h0⟩

/-- `temp` of an interior circle vanishes for zero data and zero iterate -/
theorem orthoCircle_zero (o : Op K) (nc i j : Nat) :
    orthoCircle o nc (fun _ _ => 0) (fun _ _ => 0) i j = 0 := by
  unfold orthoCircle diagTerms
  split_ifs <;> simp

/-- `temp` of a radial line vanishes for zero data and zero iterate -/
theorem orthoRadial_zero (o : Op K) (nc i j : Nat) :
    orthoRadial o nc (fun _ _ => 0) (fun _ _ => 0) i j = 0 := by
  unfold orthoRadial diagTerms
  split_ifs <;> simp

/-- the field carrying `xs` on circle `i`, zero elsewhere -/
def circleField (i : Nat) (xs : List K) : Stencil.Field K := withCircle (fun _ _ => 0) i (fun b => xs.getD b 0)

/-- the operator row on the circle is the row of the stored matrix -/
theorem A_circleField (o : Op K) (nc : Nat) (xs : List K) (i j : Nat) (hi0 : 0 < i) (hinc : i < nc)
    (hnc : nc < o.nr) :
    A o (circleField i xs) i j
      = centerValue o i j (i - 1) j * xs.getD j 0 + bottomValue o i j * xs.getD (jm o j) 0
        + topValue o i j * xs.getD (jp o j) 0 := by
  unfold A circleField
  rw [circle_split o nc _ _ _ i j hi0 hinc hnc, orthoCircle_zero]; ring

/-- the quadratic form of the stored circle matrix is the energy of the field supported on the circle -/
theorem circle_Qc_eq_inner (o : Op K) (nc : Nat) (hnt : 3 ≤ o.nt) (i : Nat) (hi0 : 0 < i) (hinc : i < nc)
    (hnc : nc < o.nr) (xs : List K) (hxs : xs.length = o.nt) :
    Qc (circleMain o i) (circleSub o i) (circleCorner o i) xs
      = inner o (A o (circleField i xs)) (circleField i xs) := by
  have hmain : (circleMain o i).length = o.nt := by simp [circleMain]
  have hsub : (circleSub o i).length + 1 = (circleMain o i).length := by simp [circleMain, circleSub]; omega
  have hI : inner o (A o (circleField i xs)) (circleField i xs)
      = ∑ j ∈ range o.nt, A o (circleField i xs) i j * circleField i xs i j := by
    unfold inner
    rw [Finset.sum_eq_single i]
    · intro a _ ha
      apply Finset.sum_eq_zero; intro b _
      have : circleField i xs a b = 0 := by simp [circleField, withCircle, ha]
      rw [this]; ring
    · intro h; exfalso; apply h; simp only [Finset.mem_range]; omega
  rw [hI, ← dot_mulC _ _ _ xs (by rw [hmain, hxs]) hsub, dot_eq_sum xs _ o.nt (by omega)]
  apply Finset.sum_congr rfl; intro j hj
  have hj' : j < o.nt := by simpa using hj
  have := circle_matrix_rows o i (fun b => xs.getD b 0) hnt j hj'
  rw [← list_eq_map_range xs o.nt hxs] at this
  rw [this, A_circleField o nc xs i j hi0 hinc hnc]
  have : circleField i xs i j = xs.getD j 0 := by simp [circleField, withCircle]
  rw [this]; ring

/-- the field supported on an interior circle vanishes on the Dirichlet nodes -/
theorem circleField_V0 (o : Op K) (i : Nat) (xs : List K) (hi0 : 0 < i) (hi : i + 1 < o.nr) :
    V0 o (circleField i xs) := by
  constructor
  · intro j; simp only [circleField, withCircle]; rw [if_neg (by omega)]
  · intro _ j; simp only [circleField, withCircle]; rw [if_neg (by omega)]

end SmootherCode
