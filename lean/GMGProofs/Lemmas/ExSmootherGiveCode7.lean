import GMGProofs.Lemmas.ExSmootherGiveCode6
/-!
# Code-level extrapolated smoother (give), lemmas 7 — the assembled diagonal entries are the gather assembly's

* `expD`: what `ExtrapolatedSmootherTake` stores on the diagonal of row `(a, b)`;
* `diag_value`: the closed form of the scatter assembly (`dsum_all`) equals it (pure algebra; across the origin the angular
  spacing must be antipodally symmetric and `nt` divisible by 4).
-/
set_option linter.unusedSectionVars false
set_option linter.unusedVariables false
set_option linter.unusedSimpArgs false
namespace ExSmootherGiveCode
open Stencil SparseLU SmootherCode Finset
open DirectCode (Pos)
open DirectGiveCode (massValue diagValue nodeOrder)
open ExSmootherCode (innerNnz)
variable {K : Type} [_root_.Field K]

section
variable (T : Tables) (o : Op K) (nc : Nat)

/-- the diagonal entry of row `(a, b)` in the gather assembly: `1` on the Dirichlet rows and at the coarse nodes -/
def expD (a b : Nat) : K :=
  if a + 1 = o.nr ∨ (a = 0 ∧ o.bc = true) ∨ (¬ a % 2 = 1 ∧ ¬ b % 2 = 1) then 1
  else centerValue o a b (if a = 0 then 0 else a - 1) (if a = 0 then ja o b else b)

/-- the closed form of `dsum_all` -/
def giveD (a b : Nat) : K :=
  selfD o a b + (if a + 1 < o.nr then gL o (a + 1) b else 0) + (if 0 < a then gR o (a - 1) b else 0)
    + gB o a (jp o b) + gT o a (jm o b) + (if a = 0 then gA o (ja o b) else 0)

theorem coeff1_ja (hnt : 2 ≤ o.nt) (heven : o.nt % 2 = 0) (hk : ∀ j, j < o.nt → o.k (ja o j) = o.k j)
    {b : Nat} (hb : b < o.nt) : coeff1 o 0 (ja o b) = coeff1 o 0 b := by
  unfold coeff1
  rw [jm_ja o hnt heven hb, hk _ (jm_lt o (by omega) b), hk _ hb]

theorem coeff1_succ (a b : Nat) : coeff1 o (a + 1) b = coeff2 o a b := by
  unfold coeff1 coeff2 h1
  rw [if_neg (by omega), Nat.add_sub_cancel]

theorem coeff2_pred {a : Nat} (b : Nat) (ha : 0 < a) : coeff2 o (a - 1) b = coeff1 o a b := by
  unfold coeff1 coeff2 h1
  rw [if_neg (by omega)]

theorem coeff3_jp (a : Nat) {b : Nat} (hb : b < o.nt) : coeff3 o a (jp o b) = coeff4 o a b := by
  unfold coeff3 coeff4
  rw [jm_jp o hb]

theorem coeff4_jm (a b : Nat) : coeff4 o a (jm o b) = coeff3 o a b := rfl

theorem diag_value (hnr : 4 ≤ o.nr) (hnt : 2 ≤ o.nt) (heven : o.nt % 2 = 0) (h4 : o.bc = false → o.nt % 4 = 0)
    (hk : o.bc = false → ∀ j, j < o.nt → o.k (ja o j) = o.k j) (a b : Nat) (ha : a < o.nr) (hb : b < o.nt) :
    giveD o a b = expD o a b := by
  have hpos : 0 < o.nt := by omega
  have pjp := jp_parity o heven hb
  have pjm := jm_parity o heven hb
  have e1 : jm o (jp o b) = b := jm_jp o hb
  have e2 : jp o (jm o b) = b := jp_jm o hb
  unfold giveD expD
  by_cases hA : a + 1 = o.nr
  · have h1 : ¬ a + 1 < o.nr := by omega
    have h2 : 0 < a := by omega
    have h3 : ¬ a - 1 + 2 < o.nr := by omega
    have h4' : ¬ a = 0 := by omega
    simp [selfD, gL, gR, gB, gT, gA, hA, h1, h2, h3, h4']
  · by_cases hB : a = 0 ∧ o.bc = true
    · obtain ⟨rfl, hbc⟩ := hB
      simp [selfD, gL, gR, gB, gT, gA, hbc]
    · by_cases hC : ¬ a % 2 = 1 ∧ ¬ b % 2 = 1
      · have c1 : (a + 1) % 2 = 1 := by omega
        have c2 : 0 < a → (a - 1) % 2 = 1 := by omega
        have c3 : jp o b % 2 = 1 := by omega
        have c4 : jm o b % 2 = 1 := by omega
        have c5 : a = 0 → ¬ ja o b % 2 = 1 := by
          intro h0
          have hbc : o.bc = false := by
            cases hh : o.bc with
            | true => exact absurd ⟨h0, hh⟩ hB
            | false => rfl
          rw [ja_parity o (h4 hbc) hb]; exact hC.2
        rw [if_pos (Or.inr (Or.inr hC))]
        by_cases h0 : a = 0
        · subst h0
          simp [selfD, gL, gR, gB, gT, gA, hA, hB, hC, c3, c4, c5 rfl]
        · have hp : 0 < a := by omega
          simp [selfD, gL, gR, gB, gT, gA, hA, hB, hC, c1, c2 hp, c3, c4, h0, hp]
      · rw [if_neg (show ¬ (a + 1 = o.nr ∨ (a = 0 ∧ o.bc = true) ∨ (¬ a % 2 = 1 ∧ ¬ b % 2 = 1)) by tauto)]
        have hlt : a + 1 < o.nr := by omega
        have hself : selfD o a b = massValue o a b + diagValue o a b := by
          unfold selfD
          rw [if_neg (by tauto), if_neg hC]
        have hL : gL o (a + 1) b = coeff2 o a b * o.arr (a + 1) b := by
          unfold gL
          rw [if_pos ⟨by omega, by omega, by
            rintro ⟨h1, h2⟩
            exact hB ⟨by omega, h2⟩⟩, coeff1_succ]
        have hBt : gB o a (jp o b) = coeff4 o a b * o.att a (jp o b) := by
          unfold gB
          rw [if_pos ⟨hlt, hB, by omega⟩, coeff3_jp o a hb]
        have hTp : gT o a (jm o b) = coeff3 o a b * o.att a (jm o b) := by
          unfold gT
          rw [if_pos ⟨hlt, hB, by omega⟩, coeff4_jm]
        rw [hself, if_pos hlt, hL, hBt, hTp]
        by_cases h0 : a = 0
        · subst h0
          have hbc : o.bc = false := by
            cases hh : o.bc with
            | true => exact absurd ⟨rfl, hh⟩ hB
            | false => rfl
          have hbo : b % 2 = 1 := by omega
          have hA' : gA o (ja o b) = coeff1 o 0 b * o.arr 0 (ja o b) := by
            unfold gA
            rw [if_pos ⟨hbc, by rw [ja_parity o (h4 hbc) hb]; exact hbo⟩, coeff1_ja o hnt heven (hk hbc) hb]
          rw [if_neg (by omega), if_pos rfl, hA']
          simp only [if_true]
          unfold massValue diagValue centerValue
          ring
        · have hp : 0 < a := by omega
          have hR : gR o (a - 1) b = coeff1 o a b * o.arr (a - 1) b := by
            unfold gR
            rw [if_pos ⟨by omega, by omega⟩, coeff2_pred o b hp]
          rw [if_pos hp, hR, if_neg h0]
          simp only [h0, if_false]
          unfold massValue diagValue centerValue
          ring

end
end ExSmootherGiveCode
