import GMGProofs.Lemmas.TridiagLemmas
import Mathlib.Tactic.Linarith
import Mathlib.Tactic.Positivity
import Mathlib.Algebra.Order.Field.Basic
/-!
# Helper lemmas for C14, part 2: quadratic form, positive definiteness, positive pivots
-/
namespace Tridiag

section Form
variable {K : Type} [Field K]

/-- quadratic form xᵀ T x of the symmetric tridiagonal matrix (diag a, sub-diag b) -/
def Q : List K → List K → List K → K
  | [a], [], [x] => a * x * x
  | a :: as, b :: bs, x :: x' :: xs => a * x * x + 2 * b * x * x' + Q as bs (x' :: xs)
  | _, _, _ => 0

def allZero : List K → Prop
  | [] => True
  | x :: xs => x = 0 ∧ allZero xs

theorem Q_shift_first (a d : K) : ∀ (as bs : List K) (x : K) (xs : List K),
    bs.length = as.length → xs.length = as.length →
    Q ((a + d) :: as) bs (x :: xs) = Q (a :: as) bs (x :: xs) + d * x * x
  | [], [], x, [], _, _ => by simp [Q]; ring
  | a' :: as, b :: bs, x, x' :: xs, _, _ => by simp [Q]; ring
  | [], _ :: _, _, _, h, _ => by simp at h
  | _ :: _, [], _, _, h, _ => by simp at h
  | [], [], _, _ :: _, _, h => by simp at h
  | _ :: _, _ :: _, _, [], _, h => by simp at h

theorem Q_zero_tail (a : K) : ∀ (as bs : List K) (xs : List K), bs.length = as.length →
    xs.length = as.length → allZero xs → ∀ x, Q (a :: as) bs (x :: xs) = a * x * x
  | [], [], [], _, _, _, x => by simp [Q]
  | a' :: as, b :: bs, x' :: xs, hb, hx, hz, x => by
      obtain ⟨h0, hz'⟩ := hz
      subst h0
      have := Q_zero_tail a' as bs xs (by simpa using hb) (by simpa using hx) hz' 0
      simp [Q, this]
  | [], _ :: _, _, h, _, _, _ => by simp at h
  | _ :: _, [], _, h, _, _, _ => by simp at h
  | [], [], _ :: _, _, h, _, _ => by simp at h
  | _ :: _, _ :: _, [], _, h, _, _ => by simp at h

theorem zeros_exist : ∀ n : Nat, ∃ z : List K, z.length = n ∧ allZero z
  | 0 => ⟨[], rfl, trivial⟩
  | n + 1 => by obtain ⟨z, h1, h2⟩ := zeros_exist n; exact ⟨0 :: z, by simp [h1], ⟨rfl, h2⟩⟩

end Form

section Ordered
variable {K : Type} [Field K] [LinearOrder K] [IsStrictOrderedRing K]

/-- positive definiteness on vectors of the right length -/
def SPD (a b : List K) : Prop := ∀ x : List K, x.length = a.length → ¬ allZero x → 0 < Q a b x

def pivotsPos : List K → List K → Prop
  | [a], [] => 0 < a
  | a :: a' :: as, b :: bs => 0 < a ∧ pivotsPos ((a' - b / a * (b / a) * a) :: as) bs
  | _, _ => False

omit [IsStrictOrderedRing K] in
theorem pivotsPos_pivotsOK : ∀ (a b : List K), pivotsPos a b → pivotsOK a b
  | [a], [], h => by simp only [pivotsPos] at h; simp only [pivotsOK]; exact ne_of_gt h
  | a :: a' :: as, b :: bs, h => by
      obtain ⟨h1, h2⟩ := h
      exact ⟨ne_of_gt h1, pivotsPos_pivotsOK _ _ h2⟩
  | [], _, h => by simp [pivotsPos] at h
  | [_], _ :: _, h => by simp [pivotsPos] at h
  | _ :: _ :: _, [], h => by simp [pivotsPos] at h

theorem spd_pivots : ∀ (a b : List K), b.length + 1 = a.length → SPD a b → pivotsPos a b
  | [a], [], _, h => by
      have := h [1] rfl (by simp [allZero])
      simpa [Q, pivotsPos] using this
  | a :: a' :: as, b :: bs, hl, h => by
      have hbl : bs.length = as.length := by simpa using hl
      -- a > 0 : test with e₀
      obtain ⟨z, hz1, hz2⟩ := zeros_exist (K := K) (as.length + 1)
      have ha : 0 < a := by
        have := h (1 :: z) (by simp [hz1]) (by simp [allZero])
        cases z with
        | nil => simp at hz1
        | cons z0 zs =>
            have hq := Q_zero_tail a (a' :: as) (b :: bs) (z0 :: zs) (by simpa using hbl)
              (by simpa using hz1) hz2 1
            rw [hq] at this; simpa using this
      refine ⟨ha, spd_pivots _ _ (by simpa using hbl) ?_⟩
      intro xs hxs hnz
      cases xs with
      | nil => simp at hxs
      | cons x' xs =>
          have hx : xs.length = as.length := by simpa using hxs
          have key := h ((-(b / a) * x') :: x' :: xs) (by simp [hx]) (by
            intro hz; exact hnz hz.2)
          have e : (a' - b / a * (b / a) * a) = a' + (-(b / a * (b / a) * a)) := by ring
          rw [e, Q_shift_first a' _ as bs x' xs hbl hx]
          have : Q (a :: a' :: as) (b :: bs) ((-(b / a) * x') :: x' :: xs)
              = Q (a' :: as) bs (x' :: xs) + -(b / a * (b / a) * a) * x' * x' := by
            simp only [Q]; field_simp; ring
          rw [this] at key; exact key
  | [], _, h, _ => by simp at h
  | [_], _ :: _, h, _ => by simp at h
  | _ :: _ :: _, [], h, _ => by simp at h

end Ordered
end Tridiag
