import GMGProofs.Lemmas.CycleExec
/-!
# The textbook multigrid recursion and the refinement of the buffer-rotating programs to it
core Lean only.
-/
namespace MGCycle
variable {V : Type}

/-! ## specification -/

/-- textbook V/W/F recursion on depth `d` with iterate `u` and right-hand side `f`; `fuel` = `levels - 1 - d` -/
def cyc (o : Ops V) (c : Cfg) : Kind → (fuel d : Nat) → (u f : V) → V
  | _, 0, _, u, _ => u
  | k, fuel + 1, d, u, f =>
      let u1 := iter (fun v => o.smooth d v f) c.nu1 u
      let g := o.restrict d (o.resid d f u1)
      let e :=
        if d + 1 = c.levels - 1 then o.solve (d + 1) g
        else match k with
          | .V => cyc o c .V fuel (d + 1) (o.zero (d + 1)) g
          | .W => cyc o c .W fuel (d + 1) (cyc o c .W fuel (d + 1) (o.zero (d + 1)) g) g
          | .F => cyc o c .V fuel (d + 1) (cyc o c .F fuel (d + 1) (o.zero (d + 1)) g) g
      iter (fun v => o.smooth d v f) c.nu2 (o.add u1 (o.prolong (d + 1) e))

/-- the coarse-grid correction computed recursively on depth `d` (started from zero) for right-hand side `g` -/
def coarse (o : Ops V) (c : Cfg) (k : Kind) (fuel d : Nat) (g : V) : V :=
  match k with
  | .V => cyc o c .V fuel d (o.zero d) g
  | .W => cyc o c .W fuel d (cyc o c .W fuel d (o.zero d) g) g
  | .F => cyc o c .V fuel d (cyc o c .F fuel d (o.zero d) g) g

/-- solve on the coarsest level or recurse -/
def coarseOrSolve (o : Ops V) (c : Cfg) (k : Kind) (fuel d : Nat) (g : V) : V :=
  if d = c.levels - 1 then o.solve d g else coarse o c k fuel d g

@[simp] theorem cyc_zero (o : Ops V) (c : Cfg) (k : Kind) (d : Nat) (u f : V) : cyc o c k 0 d u f = u := by
  cases k <;> rfl

theorem cyc_succ (o : Ops V) (c : Cfg) (k : Kind) (fuel d : Nat) (u f : V) :
    cyc o c k (fuel + 1) d u f =
      iter (fun v => o.smooth d v f) c.nu2
        (o.add (iter (fun v => o.smooth d v f) c.nu1 u)
          (o.prolong (d + 1) (coarseOrSolve o c k fuel (d + 1)
            (o.restrict d (o.resid d f (iter (fun v => o.smooth d v f) c.nu1 u)))))) := by
  cases k <;> rfl

/-- the smoother of the extrapolated cycle on level 0 -/
def exSmF (o : Ops V) (fgs : Bool) (f : V) (v : V) : V := if fgs then o.smooth 0 v f else o.exSmooth 0 v f

/-- the implicitly extrapolated cycle on level 0: iterate `u`, right-hand sides `f` (level 0) and `f1` (level 1) -/
def excyc (o : Ops V) (c : Cfg) (k : Kind) (fgs : Bool) (u f f1 : V) : V :=
  let u1 := iter (exSmF o fgs f) c.nu1 u
  let g := o.lin43 (o.exRestrict 0 (o.resid 0 f u1)) (o.resid 1 f1 (o.inject 0 u1))
  iter (exSmF o fgs f) c.nu2 (o.add u1 (o.exProlong 1 (coarseOrSolve o c k (c.levels - 2) 1 g)))

/-! ## the programs, one level unfolded -/

/-- the recursive calls on depth `d` -/
def coarseProg (c : Cfg) (k : Kind) (fuel d : Nat) : List Instr :=
  match k with
  | .V => plain c .V fuel d (d, .res) (d, .err) (d, .sol)
  | .W => plain c .W fuel d (d, .res) (d, .err) (d, .sol) ++ plain c .W fuel d (d, .res) (d, .err) (d, .sol)
  | .F => plain c .F fuel d (d, .res) (d, .err) (d, .sol) ++ plain c .V fuel d (d, .res) (d, .err) (d, .sol)

@[simp] theorem plain_zero (c : Cfg) (k : Kind) (d : Nat) (x rhs tmp : Ref) : plain c k 0 d x rhs tmp = [] := rfl

theorem plain_succ (c : Cfg) (k : Kind) (fuel d : Nat) (x rhs tmp : Ref) :
    plain c k (fuel + 1) d x rhs tmp =
      List.replicate c.nu1 (.smooth d x rhs tmp) ++ ([.residual d tmp rhs x] ++
      ((if d + 1 = c.levels - 1 then
         [.restrict d (d+1, .res) tmp, .directSolve (d+1) (d+1, .res)]
       else
         [.restrict d (d+1, .err) tmp, .zero (d+1, .res)] ++ coarseProg c k fuel (d + 1)) ++
      ([.prolong (d+1) tmp (d+1, .res), .add x tmp] ++ List.replicate c.nu2 (.smooth d x rhs tmp)))) := by
  cases k <;> simp [plain, coarseProg, List.append_assoc]

theorem extrap_eq (c : Cfg) (k : Kind) (fgs : Bool) (d : Nat) (x rhs tmp : Ref) :
    extrap c k fgs d x rhs tmp =
      List.replicate c.nu1 (exSm fgs d x rhs tmp) ++
      ((if d + 1 = c.levels - 1 then
         [.residual d tmp rhs x, .exRestrict d (d+1, .res) tmp, .inject d (d+1, .sol) x,
          .residual (d+1) (d+1, .err) (d+1, .rhs) (d+1, .sol), .lin43 (d+1, .res) (d+1, .err),
          .directSolve (d+1) (d+1, .res)]
       else
         [.residual d tmp rhs x, .exRestrict d (d+1, .err) tmp, .inject d (d+1, .sol) x,
          .residual (d+1) (d+1, .res) (d+1, .rhs) (d+1, .sol), .lin43 (d+1, .err) (d+1, .res), .zero (d+1, .res)] ++
          coarseProg c k (c.levels - 2 - d) (d + 1)) ++
      ([.exProlong (d+1) tmp (d+1, .res), .add x tmp] ++ List.replicate c.nu2 (exSm fgs d x rhs tmp))) := by
  cases k <;> simp [extrap, coarseProg, List.append_assoc]

/-! ## what the programs write -/

/-- references the cycle on depth `d` may write besides `x` and `tmp`: non-`rhs` buffers of deeper levels -/
def Below (d : Nat) (w : Ref) : Prop := d < w.1 ∧ w.2 ≠ Buf.rhs

theorem plain_writes (c : Cfg) : ∀ (fuel : Nat) (k : Kind) (d : Nat) (x rhs tmp : Ref),
    WritesIn (plain c k fuel d x rhs tmp) (fun w => w = x ∨ w = tmp ∨ Below d w)
  | 0, k, d, x, rhs, tmp => by rw [plain_zero]; exact WritesIn.nil _
  | fuel + 1, k, d, x, rhs, tmp => by
      have IH := plain_writes c fuel
      have hc : WritesIn (coarseProg c k fuel (d + 1)) (fun w => w = x ∨ w = tmp ∨ Below d w) := by
        have h1 : ∀ k', WritesIn (plain c k' fuel (d+1) (d+1, .res) (d+1, .err) (d+1, .sol))
            (fun w => w = x ∨ w = tmp ∨ Below d w) := fun k' =>
          (IH k' (d+1) (d+1, .res) (d+1, .err) (d+1, .sol)).mono (by
            intro w hw
            refine Or.inr (Or.inr ?_)
            rcases hw with h | h | h
            · rw [h]; exact ⟨Nat.lt_succ_self d, by simp⟩
            · rw [h]; exact ⟨Nat.lt_succ_self d, by simp⟩
            · exact ⟨Nat.lt_of_succ_lt h.1, h.2⟩)
        cases k
        · exact h1 _
        · exact (h1 _).append (h1 _)
        · exact (h1 _).append (h1 _)
      have hsm : ∀ n, WritesIn (List.replicate n (Instr.smooth d x rhs tmp)) (fun w => w = x ∨ w = tmp ∨ Below d w) :=
        fun n => WritesIn.replicate n (by intro w hw; simp [writes] at hw; rcases hw with h | h <;> simp [h])
      rw [plain_succ]
      refine (hsm _).append (WritesIn.append ?_ (WritesIn.append ?_ (WritesIn.append ?_ (hsm _))))
      · intro i hi w hw; simp at hi; subst hi; simp [writes] at hw; simp [hw]
      · split
        · intro i hi w hw
          simp at hi
          rcases hi with h | h <;> subst h <;> simp [writes] at hw <;> subst hw <;>
            exact Or.inr (Or.inr ⟨Nat.lt_succ_self d, by simp⟩)
        · refine WritesIn.append ?_ hc
          intro i hi w hw
          simp at hi
          rcases hi with h | h <;> subst h <;> simp [writes] at hw <;> subst hw <;>
            exact Or.inr (Or.inr ⟨Nat.lt_succ_self d, by simp⟩)
      · intro i hi w hw
        simp at hi
        rcases hi with h | h <;> subst h <;> simp [writes] at hw <;> simp [hw]

theorem coarseProg_writes (c : Cfg) (k : Kind) (fuel d : Nat) :
    WritesIn (coarseProg c k fuel d) (fun w => w = (d, .res) ∨ w = (d, .sol) ∨ Below d w) := by
  cases k
  · exact plain_writes c fuel _ d _ _ _
  · exact (plain_writes c fuel _ d _ _ _).append (plain_writes c fuel _ d _ _ _)
  · exact (plain_writes c fuel _ d _ _ _).append (plain_writes c fuel _ d _ _ _)

/-- frame of a plain cycle: references of levels `≤ d` other than `x`, `tmp` keep their value; so does every `rhs` -/
theorem plain_frame (o : Ops V) (c : Cfg) (k : Kind) (fuel d : Nat) (x rhs tmp : Ref) (m : Mem V) (r : Ref)
    (hx : r ≠ x) (ht : r ≠ tmp) (hr : r.1 ≤ d ∨ r.2 = Buf.rhs) :
    exec o (plain c k fuel d x rhs tmp) m r = m r := by
  refine exec_frame o _ m r (plain_writes c fuel k d x rhs tmp) ?_
  rintro (h | h | h)
  · exact hx h
  · exact ht h
  · rcases hr with hr | hr
    · exact Nat.lt_irrefl _ (Nat.lt_of_lt_of_le h.1 hr)
    · exact h.2 hr

theorem coarseProg_frame (o : Ops V) (c : Cfg) (k : Kind) (fuel d : Nat) (m : Mem V) (r : Ref)
    (hx : r ≠ (d, .res)) (ht : r ≠ (d, .sol)) (hr : r.1 ≤ d ∨ r.2 = Buf.rhs) :
    exec o (coarseProg c k fuel d) m r = m r := by
  refine exec_frame o _ m r (coarseProg_writes c k fuel d) ?_
  rintro (h | h | h)
  · exact hx h
  · exact ht h
  · rcases hr with hr | hr
    · exact Nat.lt_irrefl _ (Nat.lt_of_lt_of_le h.1 hr)
    · exact h.2 hr

/-! ## refinement of the plain cycles -/

/-- value statement at a given fuel, for all kinds, depths, buffer triples, memories -/
def PlainVal (o : Ops V) (c : Cfg) (fuel : Nat) : Prop :=
  ∀ (k : Kind) (d : Nat) (x rhs tmp : Ref) (m : Mem V), x.1 = d → rhs.1 = d → tmp.1 = d →
    x ≠ rhs → x ≠ tmp → rhs ≠ tmp →
    exec o (plain c k fuel d x rhs tmp) m x = cyc o c k fuel d (m x) (m rhs)

theorem coarseProg_val (o : Ops V) (c : Cfg) (fuel : Nat) (H : PlainVal o c fuel) (k : Kind) (d : Nat) (m : Mem V)
    (hz : m (d, .res) = o.zero d) :
    exec o (coarseProg c k fuel d) m (d, .res) = coarse o c k fuel d (m (d, .err)) := by
  have hv : ∀ k' (m' : Mem V), exec o (plain c k' fuel d (d, .res) (d, .err) (d, .sol)) m' (d, .res) =
      cyc o c k' fuel d (m' (d, .res)) (m' (d, .err)) := fun k' m' =>
    H k' d (d, .res) (d, .err) (d, .sol) m' rfl rfl rfl (ref_ne_of_buf (by decide)) (ref_ne_of_buf (by decide)) (ref_ne_of_buf (by decide))
  have hf : ∀ k' (m' : Mem V), exec o (plain c k' fuel d (d, .res) (d, .err) (d, .sol)) m' (d, .err) = m' (d, .err) :=
    fun k' m' => plain_frame o c k' fuel d _ _ _ m' _ (ref_ne_of_buf (by decide)) (ref_ne_of_buf (by decide)) (Or.inl (Nat.le_refl d))
  cases k
  · simp only [coarseProg, coarse]; rw [hv, hz]
  · simp only [coarseProg, coarse, exec_append]; rw [hv, hv, hf, hz]
  · simp only [coarseProg, coarse, exec_append]; rw [hv, hv, hf, hz]

theorem plain_val (o : Ops V) (c : Cfg) : ∀ fuel, PlainVal o c fuel
  | 0 => by intro k d x rhs tmp m _ _ _ _ _ _; simp
  | fuel + 1 => by
      intro k d x rhs tmp m hx hr ht hxr hxt hrt
      have IH := plain_val o c fuel
      -- references of the next level differ from the ones of this level
      have lv : ∀ (b : Buf) (r : Ref), r.1 = d → r ≠ ((d + 1, b) : Ref) := fun b r h =>
        ref_ne_of_lt (by rw [h]; exact Nat.lt_succ_self d)
      rw [plain_succ, cyc_succ]
      simp only [exec_append]
      -- pre-smoothing
      have s1 := exec_smooths o d x rhs tmp hxr hrt c.nu1 m
      have f1 : ∀ r, r ≠ x → r ≠ tmp → exec o (List.replicate c.nu1 (.smooth d x rhs tmp)) m r = m r := fun r h1 h2 =>
        exec_frame o _ m r (P := fun w => w = x ∨ w = tmp)
          (WritesIn.replicate _ (by intro w hw; simpa [writes] using hw)) (by simp [h1, h2])
      generalize exec o (List.replicate c.nu1 (.smooth d x rhs tmp)) m = m1 at s1 f1 ⊢
      generalize iter (fun v => o.smooth d v (m rhs)) c.nu1 (m x) = u1 at s1 ⊢
      have m1rhs : m1 rhs = m rhs := f1 rhs hxr.symm hrt
      -- residual
      have m2tmp : exec o [.residual d tmp rhs x] m1 tmp = o.resid d (m rhs) u1 := by simp [stepI, m1rhs, s1]
      have m2fr : ∀ r, r ≠ tmp → exec o [.residual d tmp rhs x] m1 r = m1 r := fun r h => by
        simp [stepI, upd_ne _ _ h]
      generalize exec o [.residual d tmp rhs x] m1 = m2 at m2tmp m2fr ⊢
      -- coarse part
      have hmid : ∀ mid : List Instr, mid = (if d + 1 = c.levels - 1 then
             [.restrict d (d+1, .res) tmp, .directSolve (d+1) (d+1, .res)]
           else [.restrict d (d+1, .err) tmp, .zero (d+1, .res)] ++ coarseProg c k fuel (d + 1)) →
          exec o mid m2 (d+1, .res) = coarseOrSolve o c k fuel (d + 1) (o.restrict d (m2 tmp)) ∧
          ∀ r, r.1 ≤ d → exec o mid m2 r = m2 r := by
        intro mid hmid
        by_cases hl : d + 1 = c.levels - 1
        · rw [if_pos hl] at hmid; subst hmid
          refine ⟨by simp [stepI, coarseOrSolve, hl], fun r hr' => ?_⟩
          have a : r ≠ (d+1, Buf.res) := ref_ne_of_lt (Nat.lt_succ_of_le hr')
          simp [stepI, upd_ne _ _ a]
        · rw [if_neg hl] at hmid; subst hmid
          simp only [exec_append]
          have m3res : exec o [.restrict d (d+1, .err) tmp, .zero (d+1, .res)] m2 (d+1, .res) = o.zero (d+1) := by
            simp [stepI]
          have m3err : exec o [.restrict d (d+1, .err) tmp, .zero (d+1, .res)] m2 (d+1, .err) = o.restrict d (m2 tmp) := by
            have t : tmp ≠ (d+1, Buf.err) := lv _ _ ht
            simp [stepI, upd_ne _ (q := (d+1, Buf.err)) (r := (d+1, Buf.res)) _ (ref_ne_of_buf (by decide))]
          have m3fr : ∀ r, r.1 ≤ d → exec o [.restrict d (d+1, .err) tmp, .zero (d+1, .res)] m2 r = m2 r := by
            intro r hr'
            have a1 : r ≠ (d+1, Buf.res) := ref_ne_of_lt (Nat.lt_succ_of_le hr')
            have a2 : r ≠ (d+1, Buf.err) := ref_ne_of_lt (Nat.lt_succ_of_le hr')
            simp [stepI, upd_ne _ _ a1, upd_ne _ _ a2]
          generalize exec o [.restrict d (d+1, .err) tmp, .zero (d+1, .res)] m2 = m3 at m3res m3err m3fr ⊢
          refine ⟨?_, fun r hr' => ?_⟩
          · rw [coarseProg_val o c fuel IH k (d+1) m3 m3res, m3err]; simp [coarseOrSolve, hl]
          · rw [coarseProg_frame o c k fuel (d+1) m3 r (ref_ne_of_lt (Nat.lt_succ_of_le hr'))
              (ref_ne_of_lt (Nat.lt_succ_of_le hr')) (Or.inl (Nat.le_succ_of_le hr')), m3fr r hr']
      obtain ⟨c1, c2⟩ := hmid _ rfl
      generalize exec o (if d + 1 = c.levels - 1 then
             [.restrict d (d+1, .res) tmp, .directSolve (d+1) (d+1, .res)]
           else [.restrict d (d+1, .err) tmp, .zero (d+1, .res)] ++ coarseProg c k fuel (d + 1)) m2 = m4 at c1 c2 ⊢
      -- prolongation and correction
      have m5x : exec o [.prolong (d+1) tmp (d+1, .res), .add x tmp] m4 x =
          o.add u1 (o.prolong (d+1) (m4 (d+1, .res))) := by
        simp [stepI, upd_ne _ _ hxt, c2 x (Nat.le_of_eq hx), m2fr x hxt, s1]
      have m5rhs : exec o [.prolong (d+1) tmp (d+1, .res), .add x tmp] m4 rhs = m rhs := by
        simp [stepI, upd_ne _ _ hxr.symm, upd_ne _ _ hrt, c2 rhs (Nat.le_of_eq hr), m2fr rhs hrt, m1rhs]
      generalize exec o [.prolong (d+1) tmp (d+1, .res), .add x tmp] m4 = m5 at m5x m5rhs ⊢
      rw [exec_smooths o d x rhs tmp hxr hrt c.nu2 m5, m5x, m5rhs, c1, m2tmp]

/-! ## refinement of the extrapolated cycle on level 0 -/

theorem exSm_zero (fgs : Bool) (x rhs tmp : Ref) :
    exSm fgs 0 x rhs tmp = if fgs then .smooth 0 x rhs tmp else .exSmooth 0 x rhs tmp := by
  cases fgs <;> simp [exSm]

theorem exec_exSm (o : Ops V) (fgs : Bool) (x rhs tmp : Ref) (hxr : x ≠ rhs) (hrt : rhs ≠ tmp) (n : Nat) (m : Mem V) :
    exec o (List.replicate n (exSm fgs 0 x rhs tmp)) m x = iter (exSmF o fgs (m rhs)) n (m x) := by
  rw [exSm_zero]
  cases fgs
  · have e : exSmF o false (m rhs) = fun v => o.exSmooth 0 v (m rhs) := by funext v; simp [exSmF]
    rw [e]; simpa using exec_exSmooths o 0 x rhs tmp hxr hrt n m
  · have e : exSmF o true (m rhs) = fun v => o.smooth 0 v (m rhs) := by funext v; simp [exSmF]
    rw [e]; simpa using exec_smooths o 0 x rhs tmp hxr hrt n m

theorem exSm_writes (fgs : Bool) (d : Nat) (x rhs tmp : Ref) : ∀ w ∈ writes (exSm fgs d x rhs tmp), w = x ∨ w = tmp := by
  intro w hw
  unfold exSm at hw
  split at hw <;> simpa [writes] using hw

/-- the extrapolated cycle on level 0 writes `(0,sol)`, `(0,res)` and non-`rhs` buffers of deeper levels -/
theorem extrap_writes (c : Cfg) (k : Kind) (fgs : Bool) :
    WritesIn (extrap c k fgs 0 (0, .sol) (0, .rhs) (0, .res))
      (fun w => w = (0, .sol) ∨ w = (0, .res) ∨ Below 0 w) := by
  have hsm : ∀ n, WritesIn (List.replicate n (exSm fgs 0 (0, .sol) (0, .rhs) (0, .res)))
      (fun w => w = (0, .sol) ∨ w = (0, .res) ∨ Below 0 w) := fun n =>
    WritesIn.replicate n (by
      intro w hw; rcases exSm_writes fgs 0 _ _ _ w hw with h | h <;> simp [h])
  have hc : WritesIn (coarseProg c k (c.levels - 2 - 0) (0 + 1)) (fun w => w = (0, .sol) ∨ w = (0, .res) ∨ Below 0 w) :=
    (coarseProg_writes c k _ _).mono (by
      intro w hw
      refine Or.inr (Or.inr ?_)
      rcases hw with h | h | h
      · rw [h]; exact ⟨Nat.lt_succ_self 0, by decide⟩
      · rw [h]; exact ⟨Nat.lt_succ_self 0, by decide⟩
      · exact ⟨Nat.lt_of_succ_lt h.1, h.2⟩)
  rw [extrap_eq]
  refine (hsm _).append (WritesIn.append ?_ (WritesIn.append ?_ (hsm _)))
  · split
    · intro i hi w hw
      simp at hi
      rcases hi with h | h | h | h | h | h <;> subst h <;> simp [writes] at hw <;> subst hw <;>
        first | exact Or.inr (Or.inl rfl) | exact Or.inr (Or.inr ⟨Nat.lt_succ_self 0, by decide⟩)
    · refine WritesIn.append ?_ hc
      intro i hi w hw
      simp at hi
      rcases hi with h | h | h | h | h | h <;> subst h <;> simp [writes] at hw <;> subst hw <;>
        first | exact Or.inr (Or.inl rfl) | exact Or.inr (Or.inr ⟨Nat.lt_succ_self 0, by decide⟩)
  · intro i hi w hw
    simp at hi
    rcases hi with h | h <;> subst h <;> simp [writes] at hw <;> simp [hw]

theorem extrap_frame (o : Ops V) (c : Cfg) (k : Kind) (fgs : Bool) (m : Mem V) (r : Ref)
    (hx : r ≠ (0, .sol)) (ht : r ≠ (0, .res)) (hr : r.1 = 0 ∨ r.2 = Buf.rhs) :
    exec o (extrap c k fgs 0 (0, .sol) (0, .rhs) (0, .res)) m r = m r := by
  refine exec_frame o _ m r (extrap_writes c k fgs) ?_
  rintro (h | h | h)
  · exact hx h
  · exact ht h
  · rcases hr with hr | hr
    · have := h.1; rw [hr] at this; exact Nat.lt_irrefl _ this
    · exact h.2 hr

theorem extrap_val (o : Ops V) (c : Cfg) (k : Kind) (fgs : Bool) (m : Mem V) :
    exec o (extrap c k fgs 0 (0, .sol) (0, .rhs) (0, .res)) m (0, .sol) =
      excyc o c k fgs (m (0, .sol)) (m (0, .rhs)) (m (1, .rhs)) := by
  rw [extrap_eq, excyc]
  simp only [exec_append, Nat.zero_add, Nat.sub_zero]
  have s1 := exec_exSm o fgs (0, .sol) (0, .rhs) (0, .res) (by decide) (by decide) c.nu1 m
  have f1 : ∀ r, r ≠ (0, Buf.sol) → r ≠ (0, Buf.res) →
      exec o (List.replicate c.nu1 (exSm fgs 0 (0, .sol) (0, .rhs) (0, .res))) m r = m r := fun r h1 h2 =>
    exec_frame o _ m r (P := fun w => w = (0, Buf.sol) ∨ w = (0, Buf.res))
      (WritesIn.replicate _ (exSm_writes fgs 0 _ _ _)) (by simp [h1, h2])
  generalize exec o (List.replicate c.nu1 (exSm fgs 0 (0, .sol) (0, .rhs) (0, .res))) m = m1 at s1 f1 ⊢
  generalize iter (exSmF o fgs (m (0, .rhs))) c.nu1 (m (0, .sol)) = u1 at s1 ⊢
  have m1rhs : m1 (0, .rhs) = m (0, .rhs) := f1 _ (by decide) (by decide)
  have m1rhs1 : m1 (1, .rhs) = m (1, .rhs) := f1 _ (by decide) (by decide)
  have hmid : ∀ mid : List Instr, mid = (if 1 = c.levels - 1 then
         [.residual 0 (0, .res) (0, .rhs) (0, .sol), .exRestrict 0 (1, .res) (0, .res), .inject 0 (1, .sol) (0, .sol),
          .residual 1 (1, .err) (1, .rhs) (1, .sol), .lin43 (1, .res) (1, .err),
          .directSolve 1 (1, .res)]
       else
         [.residual 0 (0, .res) (0, .rhs) (0, .sol), .exRestrict 0 (1, .err) (0, .res), .inject 0 (1, .sol) (0, .sol),
          .residual 1 (1, .res) (1, .rhs) (1, .sol), .lin43 (1, .err) (1, .res), .zero (1, .res)] ++
          coarseProg c k (c.levels - 2) 1) →
      exec o mid m1 (1, .res) = coarseOrSolve o c k (c.levels - 2) 1
        (o.lin43 (o.exRestrict 0 (o.resid 0 (m (0, .rhs)) u1)) (o.resid 1 (m (1, .rhs)) (o.inject 0 u1))) ∧
      exec o mid m1 (0, .sol) = u1 ∧ exec o mid m1 (0, .rhs) = m (0, .rhs) := by
    intro mid hmid
    by_cases hl : 1 = c.levels - 1
    · rw [if_pos hl] at hmid; subst hmid
      have hl' := hl
      refine ⟨?_, ?_, ?_⟩
      · simp [stepI, upd, coarseOrSolve, ← hl', m1rhs, m1rhs1, s1]
      · simp [stepI, upd, s1]
      · simp [stepI, upd, m1rhs]
    · rw [if_neg hl] at hmid; subst hmid
      have hl' := hl
      simp only [exec_append]
      have a1 : exec o [.residual 0 (0, .res) (0, .rhs) (0, .sol), .exRestrict 0 (1, .err) (0, .res),
          .inject 0 (1, .sol) (0, .sol), .residual 1 (1, .res) (1, .rhs) (1, .sol),
          .lin43 (1, .err) (1, .res), .zero (1, .res)] m1 (1, .res) = o.zero 1 := by
        simp [stepI]
      have a2 : exec o [.residual 0 (0, .res) (0, .rhs) (0, .sol), .exRestrict 0 (1, .err) (0, .res),
          .inject 0 (1, .sol) (0, .sol), .residual 1 (1, .res) (1, .rhs) (1, .sol),
          .lin43 (1, .err) (1, .res), .zero (1, .res)] m1 (1, .err) =
          o.lin43 (o.exRestrict 0 (o.resid 0 (m (0, .rhs)) u1)) (o.resid 1 (m (1, .rhs)) (o.inject 0 u1)) := by
        simp [stepI, upd, m1rhs, m1rhs1, s1]
      have a3 : exec o [.residual 0 (0, .res) (0, .rhs) (0, .sol), .exRestrict 0 (1, .err) (0, .res),
          .inject 0 (1, .sol) (0, .sol), .residual 1 (1, .res) (1, .rhs) (1, .sol),
          .lin43 (1, .err) (1, .res), .zero (1, .res)] m1 (0, .sol) = u1 := by
        simp [stepI, upd, s1]
      have a4 : exec o [.residual 0 (0, .res) (0, .rhs) (0, .sol), .exRestrict 0 (1, .err) (0, .res),
          .inject 0 (1, .sol) (0, .sol), .residual 1 (1, .res) (1, .rhs) (1, .sol),
          .lin43 (1, .err) (1, .res), .zero (1, .res)] m1 (0, .rhs) = m (0, .rhs) := by
        simp [stepI, upd, m1rhs]
      generalize exec o [.residual 0 (0, .res) (0, .rhs) (0, .sol), .exRestrict 0 (1, .err) (0, .res),
          .inject 0 (1, .sol) (0, .sol), .residual 1 (1, .res) (1, .rhs) (1, .sol),
          .lin43 (1, .err) (1, .res), .zero (1, .res)] m1 = m3 at a1 a2 a3 a4 ⊢
      refine ⟨?_, ?_, ?_⟩
      · have := coarseProg_val o c (c.levels - 2) (plain_val o c _) k 1 m3 a1
        rw [this, a2]; simp [coarseOrSolve, hl']
      · rw [coarseProg_frame o c k _ 1 m3 _ (by decide) (by decide) (Or.inl (by decide)), a3]
      · rw [coarseProg_frame o c k _ 1 m3 _ (by decide) (by decide) (Or.inl (by decide)), a4]
  obtain ⟨c1, c2, c3⟩ := hmid _ rfl
  generalize exec o (if 1 = c.levels - 1 then
         [.residual 0 (0, .res) (0, .rhs) (0, .sol), .exRestrict 0 (1, .res) (0, .res), .inject 0 (1, .sol) (0, .sol),
          .residual 1 (1, .err) (1, .rhs) (1, .sol), .lin43 (1, .res) (1, .err),
          .directSolve 1 (1, .res)]
       else
         [.residual 0 (0, .res) (0, .rhs) (0, .sol), .exRestrict 0 (1, .err) (0, .res), .inject 0 (1, .sol) (0, .sol),
          .residual 1 (1, .res) (1, .rhs) (1, .sol), .lin43 (1, .err) (1, .res), .zero (1, .res)] ++
          coarseProg c k (c.levels - 2) 1) m1 = m4 at c1 c2 c3 ⊢
  have m5x : exec o [.exProlong 1 (0, .res) (1, .res), .add (0, .sol) (0, .res)] m4 (0, .sol) =
      o.add u1 (o.exProlong 1 (m4 (1, .res))) := by
    simp [stepI, upd, c2]
  have m5rhs : exec o [.exProlong 1 (0, .res) (1, .res), .add (0, .sol) (0, .res)] m4 (0, .rhs) = m (0, .rhs) := by
    simp [stepI, upd, c3]
  generalize exec o [.exProlong 1 (0, .res) (1, .res), .add (0, .sol) (0, .res)] m4 = m5 at m5x m5rhs ⊢
  rw [exec_exSm o fgs _ _ _ (by decide) (by decide) c.nu2 m5, m5x, m5rhs, c1]

/-! ## one top-level cycle -/

/-- one top-level cycle on level `d` as a function of the iterate, given the right-hand sides `g l` -/
def cycleSpec (o : Ops V) (c : Cfg) (k : Kind) (ex fgs : Bool) (g : Nat → V) (d : Nat) (u : V) : V :=
  if ex then excyc o c k fgs u (g 0) (g 1) else cyc o c k (c.levels - 1 - d) d u (g d)

/-- no cycle writes a right-hand side; besides, only `(d,sol)`, `(d,res)` and deeper levels are written -/
theorem cycleAt_writes (c : Cfg) (k : Kind) (ex fgs : Bool) (d : Nat) (hd : ex = true → d = 0) :
    WritesIn (cycleAt c k ex fgs d) (fun w => w = (d, .sol) ∨ w = (d, .res) ∨ Below d w) := by
  unfold cycleAt
  split
  · rename_i h; rw [hd h]; exact extrap_writes c k fgs
  · exact plain_writes c _ k d _ _ _

theorem cycleAt_frame (o : Ops V) (c : Cfg) (k : Kind) (ex fgs : Bool) (d : Nat) (hd : ex = true → d = 0)
    (m : Mem V) (r : Ref) (hx : r ≠ (d, .sol)) (ht : r ≠ (d, .res)) (hr : r.1 ≤ d ∨ r.2 = Buf.rhs) :
    exec o (cycleAt c k ex fgs d) m r = m r := by
  refine exec_frame o _ m r (cycleAt_writes c k ex fgs d hd) ?_
  rintro (h | h | h)
  · exact hx h
  · exact ht h
  · rcases hr with hr | hr
    · exact Nat.lt_irrefl _ (Nat.lt_of_lt_of_le h.1 hr)
    · exact h.2 hr

theorem cycleAt_val (o : Ops V) (c : Cfg) (k : Kind) (ex fgs : Bool) (d : Nat) (hd : ex = true → d = 0) (m : Mem V) :
    exec o (cycleAt c k ex fgs d) m (d, .sol) = cycleSpec o c k ex fgs (fun l => m (l, .rhs)) d (m (d, .sol)) := by
  unfold cycleAt cycleSpec
  split
  · rename_i h; rw [hd h]; exact extrap_val o c k fgs m
  · exact plain_val o c _ k d _ _ _ m rfl rfl rfl (ref_ne_of_buf (by decide)) (ref_ne_of_buf (by decide)) (ref_ne_of_buf (by decide))

end MGCycle
