import GMGModel.SmootherCode
import GMGProofs.Lemmas.TridiagCyclic
import GMGProofs.Lemmas.SparseLULemmas
import GMGProofs.Lemmas.StencilLemmas1
import Mathlib.Tactic.Ring
/-!
# Helper lemmas for C06c, part 1: entries of the tridiagonal / cyclic / CSR products, lengths
-/
set_option linter.unusedSectionVars false
namespace SmootherCode
open Tridiag
variable {K : Type} [_root_.Field K]

/-! ### entries of `mulT`, `setHead`, `setLast`, `mulC` -/

/-- entry `t` of the tridiagonal product (`p` is the carry into row 0) -/
theorem mulT_getD (a b x : List K) (h1 : a.length = x.length) (h2 : b.length + 1 = a.length) :
    ∀ (p : K) (t : Nat), t < a.length →
      (mulT a b x p).getD t 0
        = (if t = 0 then p else b.getD (t - 1) 0 * x.getD (t - 1) 0) + a.getD t 0 * x.getD t 0
          + (if t + 1 < a.length then b.getD t 0 * x.getD (t + 1) 0 else 0) := by
  refine tri_induction (motive := fun a b x => ∀ (p : K) (t : Nat), t < a.length →
      (mulT a b x p).getD t 0
        = (if t = 0 then p else b.getD (t - 1) 0 * x.getD (t - 1) 0) + a.getD t 0 * x.getD t 0
          + (if t + 1 < a.length then b.getD t 0 * x.getD (t + 1) 0 else 0)) ?_ ?_ a b x h1 h2
  · intro a x p t ht
    have : t = 0 := by simpa using ht
    subst this
    simp [mulT]
  · intro a a' as b bs x x' xs _ _ ih p t ht
    cases t with
    | zero => simp [mulT]
    | succ t =>
      have ht' : t < (a' :: as).length := by simpa using ht
      have := ih (b * x) t ht'
      simp only [mulT, List.getD_cons_succ, this]
      cases t with
      | zero => simp
      | succ s => simp

/-- if the product has full length, so has the vector -/
theorem length_of_mulT_length : ∀ (a b x : List K) (p : K), b.length + 1 = a.length →
    (mulT a b x p).length = a.length → x.length = a.length
  | [a], [], [x], _, _, _ => rfl
  | a :: a' :: as, b :: bs, x :: x' :: xs, p, h2, h => by
      have := length_of_mulT_length (a' :: as) bs (x' :: xs) (b * x) (by simpa using h2)
        (by simpa [mulT] using h)
      simpa using this
  | [], _, _, _, h2, _ => by simp at h2
  | [_], _ :: _, _, _, h2, _ => by simp at h2
  | [_], [], [], _, _, h => by simp [mulT] at h
  | [_], [], _ :: _ :: _, _, _, h => by simp [mulT] at h
  | _ :: _ :: _, [], _, _, h2, _ => by simp at h2
  | _ :: _ :: _, _ :: _, [], _, _, h => by simp [mulT] at h
  | _ :: _ :: _, _ :: _, [_], _, _, h => by simp [mulT] at h

theorem getD_setHead (xs : List K) (f : K → K) (t : Nat) (d : K) :
    (setHead xs f).getD t d = if t = 0 ∧ xs ≠ [] then f (xs.getD 0 d) else xs.getD t d := by
  cases xs with
  | nil => simp [setHead]
  | cons x ys => cases t <;> simp [setHead]

theorem getD_setLast : ∀ (xs : List K) (f : K → K) (t : Nat) (d : K),
    (setLast xs f).getD t d = if t + 1 = xs.length then f (xs.getD t d) else xs.getD t d
  | [], f, t, d => by simp [setLast]
  | [x], f, t, d => by cases t <;> simp [setLast]
  | x :: y :: ys, f, t, d => by
      cases t with
      | zero => simp [setLast]
      | succ t =>
        have := getD_setLast (y :: ys) f t d
        simp only [setLast, List.getD_cons_succ, this, List.length_cons]
        simp

theorem headD_eq_getD (l : List K) (d : K) : l.headD d = l.getD 0 d := by
  cases l <;> simp

theorem getLastD_eq_getD : ∀ (l : List K) (d : K), l.getLastD d = l.getD (l.length - 1) d
  | [], d => by simp
  | [x], d => by simp
  | x :: y :: ys, d => by
      have := getLastD_eq_getD (y :: ys) d
      rw [getLastD_cons_cons, this]
      simp

/-- entry `t` of the cyclic product, dimension `n ≥ 3` -/
theorem mulC_getD (a b : List K) (c : K) (x : List K) (h1 : a.length = x.length) (h2 : b.length + 1 = a.length)
    (hn : 3 ≤ a.length) (t : Nat) (ht : t < a.length) :
    (mulC a b c x).getD t 0
      = a.getD t 0 * x.getD t 0
        + (if t = 0 then c * x.getD (a.length - 1) 0 else b.getD (t - 1) 0 * x.getD (t - 1) 0)
        + (if t + 1 = a.length then c * x.getD 0 0 else b.getD t 0 * x.getD (t + 1) 0) := by
  unfold mulC
  have hl := mulT_length a b x h1 h2 (0 : K)
  have hne : mulT a b x (0 : K) ≠ [] := by
    intro h; rw [h] at hl; simp at hl; omega
  simp only [Scalar.n_zero]
  rw [getD_setLast, getD_setHead, setHead_length, hl, headD_eq_getD, getLastD_eq_getD, ← h1]
  by_cases h0 : t = 0
  · subst h0
    have : ¬ (0 + 1 = a.length) := by omega
    rw [if_neg this, if_pos ⟨rfl, hne⟩, mulT_getD a b x h1 h2 0 0 ht, if_neg this]
    simp only [if_true, Nat.zero_add]
    rw [if_pos (by omega)]
    ring
  · have : ¬ (t = 0 ∧ mulT a b x (0 : K) ≠ []) := fun h => h0 h.1
    rw [if_neg this, mulT_getD a b x h1 h2 0 t ht, if_neg h0, if_neg h0]
    by_cases hlast : t + 1 = a.length
    · rw [if_pos hlast, if_pos hlast, if_neg (by omega)]; ring
    · rw [if_neg hlast, if_neg hlast, if_pos (by omega)]; ring

end SmootherCode
