import GMGModel.Scalar
import Mathlib.Algebra.Field.Basic
/-!
# Every field is a `Scalar`

The single instance through which all C14 theorems are stated: the model's `+ - * / -` become
(definitionally) the field operations and `Scalar.n k` the cast of `k`.
-/

instance instScalarField {K : Type} [Field K] : Scalar K := { ofNat := fun k => (k : K) }

namespace Scalar
variable {K : Type} [Field K]
@[simp] theorem n_zero : (Scalar.n 0 : K) = 0 := by simp [Scalar.n, Scalar.ofNat]
@[simp] theorem n_one : (Scalar.n 1 : K) = 1 := by simp [Scalar.n, Scalar.ofNat]
@[simp] theorem n_eq (k : Nat) : (Scalar.n k : K) = (k : K) := rfl
end Scalar
