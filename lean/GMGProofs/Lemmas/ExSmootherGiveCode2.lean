import GMGProofs.Lemmas.ExSmootherGiveCode1
/-!
# Code-level extrapolated smoother (give), lemmas 2 — the diagonal entries: what one node gives

* `GoodTables`: the two offset tables have the values the lemmas are stated for;
* `diagNode`, `diagOf`: the node whose diagonal entry a slot / a store addresses;
* `selfD`, `gL`, `gR`, `gB`, `gT`, `gA`: what node `(i, j)` stores on its own diagonal entry and gives to the diagonal entries of
  its left / right / bottom / top neighbour and of its antipode (`0` where the code gives nothing: coarse neighbours, Dirichlet
  rows);
* `dsum_node`: uniform description of the diagonal stores of node `(i, j)` as seen from a target node `(a, b)`
  (all 25 leaves of the macro's case distinction).
-/
set_option linter.unusedSectionVars false
set_option linter.unusedVariables false
set_option linter.unusedSimpArgs false
namespace ExSmootherGiveCode
open Stencil SparseLU SmootherCode
open DirectCode (Pos)
open DirectGiveCode (massValue diagValue)
variable {K : Type} [_root_.Field K]

/-- the values of `stencil_center_`, `stencil_center_left_` in `extrapolatedSmootherGive.h` -/
structure GoodTables (T : Tables) : Prop where
  center : T.center = [-1, -1, -1, -1, 0, -1, -1, -1, -1]
  centerLeft : T.centerLeft = [-1, -1, -1, 1, 0, -1, -1, -1, -1]

section
variable (T : Tables) (o : Op K) (nc : Nat)

theorem off_center (hT : GoodTables T) (j : Nat) : off T o j .Center = 0 := by
  unfold off stencilOf
  rw [hT.center, hT.centerLeft]
  split
  · rfl
  · split <;> rfl

theorem off_left (hT : GoodTables T) (j : Nat) (hj : j % 2 = 1) (hb : o.bc = false) : off T o j .Left = 1 := by
  unfold off stencilOf
  rw [hT.center, hT.centerLeft, if_neg (by omega), if_pos hb]
  rfl

/-- the node whose diagonal entry the slot stores -/
def diagNode : Arr → Nat → Option (Nat × Nat)
  | .ctMain k, q => some (2 * k + 1, q)
  | .cd k, q => some (2 * k, q)
  | .rtMain k, t => some (nc + t, 2 * k + 1)
  | .rd k, t => some (nc + t, 2 * k)
  | .inner r, q => if q = 0 then some (0, r) else none
  | _, _ => none

/-- the node whose diagonal entry a store addresses -/
def diagOf (u : Upd K) : Option (Nat × Nat) :=
  match target o nc u with
  | .slot a q => diagNode nc a q
  | _ => none

theorem diagOf_ctri (k r c : Nat) (v : K) :
    diagOf o nc (.ctri k r c v) = if r = c then some (2 * k + 1, r) else none := by
  have ht : target o nc (.ctri k r c v) = triTarget (.ctMain k) (.ctSub k) (.ctCorner k) o.nt r c := rfl
  unfold diagOf
  rw [ht]
  unfold triTarget
  by_cases h1 : r = c
  · simp only [h1, if_true, diagNode]
  · rw [if_neg h1, if_neg h1]
    by_cases h2 : r + 1 = c
    · rw [if_pos h2]; rfl
    · rw [if_neg h2]
      by_cases h3 : r = 0 ∧ c + 1 = o.nt
      · rw [if_pos h3]; rfl
      · rw [if_neg h3]

theorem diagOf_rtri (k r c : Nat) (v : K) :
    diagOf o nc (.rtri k r c v) = if r = c then some (nc + r, 2 * k + 1) else none := by
  have ht : target o nc (.rtri k r c v) = triTarget (.rtMain k) (.rtSub k) (.rtCorner k) (o.nr - nc) r c := rfl
  unfold diagOf
  rw [ht]
  unfold triTarget
  by_cases h1 : r = c
  · simp only [h1, if_true, diagNode]
  · rw [if_neg h1, if_neg h1]
    by_cases h2 : r + 1 = c
    · rw [if_pos h2]; rfl
    · rw [if_neg h2]
      by_cases h3 : r = 0 ∧ c + 1 = o.nr - nc
      · rw [if_pos h3]; rfl
      · rw [if_neg h3]

theorem diagOf_cdiag (k r : Nat) (v : K) : diagOf o nc (.cdiag k r v) = some (2 * k, r) := rfl
theorem diagOf_rdiag (k r : Nat) (v : K) : diagOf o nc (.rdiag k r v) = some (nc + r, 2 * k) := rfl

theorem diagOf_csr (r : Nat) (off : Int) (c : Nat) (v : K) :
    diagOf o nc (.csr r off c v) = if off = 0 then some (0, r) else none := by
  have ht : target o nc (.csr r off c v) = if 0 ≤ off then .slot (.inner r) off.toNat else .oob := rfl
  unfold diagOf
  rw [ht]
  by_cases h : 0 ≤ off
  · rw [if_pos h]
    simp only [diagNode]
    by_cases h0 : off = 0
    · subst h0; simp
    · rw [if_neg h0, if_neg (by omega)]
  · rw [if_neg h, if_neg (by omega)]

/-- own diagonal entry: literal `1.0` on the Dirichlet rows and at the coarse nodes -/
def selfD (i j : Nat) : K :=
  if i + 1 = o.nr ∨ (i = 0 ∧ o.bc = true) then 1
  else if ¬ i % 2 = 1 ∧ ¬ j % 2 = 1 then 1
  else massValue o i j + diagValue o i j

/-- "Fill matrix row of (i-1,j)": nothing to a coarse node, nothing to the inner Dirichlet row -/
def gL (i j : Nat) : K :=
  if 0 < i ∧ ¬ (i % 2 = 1 ∧ ¬ j % 2 = 1) ∧ ¬ (i = 1 ∧ o.bc = true) then coeff1 o i j * o.arr i j else 0

/-- "Fill matrix row of (i+1,j)": nothing to a coarse node, nothing to the outer Dirichlet row -/
def gR (i j : Nat) : K :=
  if i + 2 < o.nr ∧ ¬ (i % 2 = 1 ∧ ¬ j % 2 = 1) then coeff2 o i j * o.arr i j else 0

/-- "Fill matrix row of (i,j-1)" -/
def gB (i j : Nat) : K :=
  if i + 1 < o.nr ∧ ¬ (i = 0 ∧ o.bc = true) ∧ ¬ (¬ i % 2 = 1 ∧ j % 2 = 1) then coeff3 o i j * o.att i j else 0

/-- "Fill matrix row of (i,j+1)" -/
def gT (i j : Nat) : K :=
  if i + 1 < o.nr ∧ ¬ (i = 0 ∧ o.bc = true) ∧ ¬ (¬ i % 2 = 1 ∧ j % 2 = 1) then coeff4 o i j * o.att i j else 0

/-- across the origin: the row of the antipode -/
def gA (j : Nat) : K := if o.bc = false ∧ j % 2 = 1 then coeff1 o 0 j * o.arr 0 j else 0

/-- total value a list of stores addresses to the diagonal entry of node `(a, b)` -/
def dsum (us : List (Upd K)) (a b : Nat) : K :=
  (us.map fun u => if diagOf o nc u = some (a, b) then u.val else 0).sum

@[simp] theorem dsum_nil (a b : Nat) : dsum o nc ([] : List (Upd K)) a b = 0 := rfl
@[simp] theorem dsum_cons (u : Upd K) (l : List (Upd K)) (a b : Nat) :
    dsum o nc (u :: l) a b = (if diagOf o nc u = some (a, b) then u.val else 0) + dsum o nc l a b := by
  simp [dsum]
theorem dsum_append (l l' : List (Upd K)) (a b : Nat) :
    dsum o nc (l ++ l') a b = dsum o nc l a b + dsum o nc l' a b := by
  simp [dsum]

/-- parity of the periodic neighbours (`nt` even) -/
theorem jm_parity (heven : o.nt % 2 = 0) {j : Nat} (hj : j < o.nt) : jm o j % 2 = (j + 1) % 2 := by
  rw [jm_eq o hj]; split <;> omega
theorem jp_parity (heven : o.nt % 2 = 0) {j : Nat} (hj : j < o.nt) : jp o j % 2 = (j + 1) % 2 := by
  rw [jp_eq o hj]; split <;> omega
theorem jm_ne (hnt : 2 ≤ o.nt) {j : Nat} (hj : j < o.nt) : jm o j ≠ j := by
  rw [jm_eq o hj]; split <;> omega
theorem jp_ne (hnt : 2 ≤ o.nt) {j : Nat} (hj : j < o.nt) : jp o j ≠ j := by
  rw [jp_eq o hj]; split <;> omega

end

end ExSmootherGiveCode
