import GMGModel.Cache
import GMGProofs.Lemmas.GridLemmas
import Mathlib.Algebra.Order.Field.Basic
import Mathlib.Algebra.Order.AbsoluteValue.Basic
/-!
# `C10i.InputsOK` — the hypothesis of the end-to-end theorem on the input functions
Kept in a file of its own (importing neither the control-flow IR nor the analysis library) so that both `C10i` (whole-cycle theorems,
namespace `MGCycle` of the model) and `C19i` (the shipped input functions over ℝ, Mathlib's analysis) speak about the same definition;
`C19e` composes the two (the model's namespace was renamed from `Cycle`, which collides with Mathlib's `Cycle`, for that purpose).
-/
namespace C10i
open Cache
variable {K : Type} [_root_.Field K] [LinearOrder K] [IsStrictOrderedRing K]

/-- admissible inputs on one grid: increasing coordinates, `α > 0`, `β ≥ 0`, `det DF ≠ 0` at the nodes, `absF` is the absolute value -/
structure InputsOK (E : Env K) (G : GridData K) : Prop where
  valid : G.g.Valid
  radius_inc : ∀ i, i + 1 < G.g.nr → G.radius i < G.radius (i + 1)
  theta_inc : ∀ j, j < G.g.nt → G.theta j < G.theta (j + 1)
  alpha_pos : ∀ i, i < G.g.nr → 0 < E.alpha (G.radius i)
  beta_nonneg : ∀ i, i < G.g.nr → 0 ≤ E.beta (G.radius i)
  det_ne : ∀ i j, i < G.g.nr → j < G.g.nt →
    let J := E.jac (G.radius i) (G.theta j) (E.sinF (G.theta j)) (E.cosF (G.theta j))
    J.1 * J.2.2.2 - J.2.2.1 * J.2.1 ≠ 0
  abs_is : ∀ x, E.absF x = |x|

end C10i
