import GMGProofs.Lemmas.SmootherGiveCode1
/-!
# Code-level smoother (give), lemmas 2 — what one node gives to one cell

For every kind of cell (`main_diagonal`, `sub_diagonal`, `cyclic_corner_element` of a circle solver, `main_diagonal`,
`sub_diagonal` of a radial solver, the CSR cells of the innermost circle) the total `cval s (nodeUpdates o nc a b)` the node
`(a, b)` addresses to the cell, in a closed form that is uniform over the six position classes of `NODE_BUILD_SMOOTHER_GIVE`
(`cval_cMain … cval_inner3`).  All proofs are the same script: split the position class of `a`, unfold its stores, decide
every condition linear arithmetic decides (`ite_finish`).
-/
set_option linter.unusedSimpArgs false
set_option linter.unusedTactic false
set_option linter.unreachableTactic false
set_option linter.unusedSectionVars false
set_option linter.unusedVariables false
set_option linter.unnecessarySeqFocus false
namespace SmootherGiveCode
open Stencil SmootherCode Finset
variable {K : Type} [_root_.Field K]

theorem jm_ne (o : Op K) (hnt : 2 ≤ o.nt) {b : Nat} (hb : b < o.nt) : jm o b ≠ b := by
  rw [jm_eq o hb]; split <;> omega
theorem jp_ne (o : Op K) (hnt : 2 ≤ o.nt) {b : Nat} (hb : b < o.nt) : jp o b ≠ b := by
  rw [jp_eq o hb]; split <;> omega

/-- resolve every condition `omega` can decide, split the remaining ones, compare -/
macro "ite_finish" : tactic => `(tactic| (
  (try simp (disch := omega) only [if_pos, if_neg, if_true, if_false, ite_self, add_zero, zero_add]) <;>
  (try split_ifs) <;> (first | done | ring1 | (exfalso; omega))))

/-- unfold the stores of a position class and total them for one cell -/
macro "give_simp" "[" ts:Lean.Parser.Tactic.simpLemma,* "]" : tactic => `(tactic|
  simp only [$ts,*, circleInterior, radialInterior, innerDirichlet, innerAcross, radialFirst, radialNextOuter, radialOuter,
    cval_append, cval_tri, cval_ite, cval_csr, cval_nil, and_false, if_false, if_true, and_true, reduceCtorEq, false_and,
    true_and, and_self, Mat.circle.injEq, Mat.radial.injEq, Slot.inner.injEq, add_zero, zero_add, ite_and, ite_self,
    Scalar.n_one])

/-- the position classes of `NODE_BUILD_SMOOTHER_GIVE` -/
theorem classes (o : Op K) (nc : Nat) (hnc : 2 ≤ nc) (hnr : nc + 3 ≤ o.nr) (a : Nat) :
    (0 < a ∧ a < nc) ∨ (nc < a ∧ a + 2 < o.nr) ∨ a = 0 ∨ a = nc ∨ a + 2 = o.nr ∨ a + 1 = o.nr ∨ o.nr ≤ a := by omega

/-- `main_diagonal(j)` of circle `i`: the node itself (mass and diagonal share), its two angular neighbours, the nodes inside
    and outside on the same ray -/
theorem cval_cMain (o : Op K) (nc : Nat) (hnc : 2 ≤ nc) (hnr : nc + 3 ≤ o.nr) (hnt : 3 ≤ o.nt) (i j a b : Nat)
    (hi0 : 0 < i) (hi : i < nc) (hb : b < o.nt) :
    cval (.cMain i j) (nodeUpdates o nc a b) =
      (if a = i ∧ b = j then mass o a b + diag o a b else 0)
      + (if a = i ∧ jm o b = j then coeff3 o a b * o.att a b else 0)
      + (if a = i ∧ jp o b = j then coeff4 o a b * o.att a b else 0)
      + (if a = i + 1 ∧ b = j then coeff1 o a b * o.arr a b else 0)
      + (if a = i - 1 ∧ b = j then coeff2 o a b * o.arr a b else 0) := by
  have hm := jm_ne o (by omega) hb
  have hp := jp_ne o (by omega) hb
  have hm' : b ≠ jm o b := fun h => hm h.symm
  have hp' : b ≠ jp o b := fun h => hp h.symm
  have hab : a = i ∨ a = i + 1 ∨ a + 1 = i ∨ (a ≠ i ∧ a ≠ i + 1 ∧ a + 1 ≠ i) := by omega
  unfold nodeUpdates
  rcases classes o nc hnc hnr a with h | h | h | h | h | h | h
  · simp (disch := omega) only [if_pos, if_neg]
    by_cases hR : a + 1 = nc <;> give_simp [triSlot_cMain, hm, hp, hm', hp', hR] <;>
      rcases hab with h' | h' | h' | h' <;> (try subst h') <;> ite_finish
  · simp (disch := omega) only [if_pos, if_neg]
    give_simp [triSlot_cMain, hm, hp, hm', hp'] <;>
      rcases hab with h' | h' | h' | h' <;> (try subst h') <;> ite_finish
  · subst h
    simp (disch := omega) only [if_pos, if_neg]
    cases hbc' : o.bc <;> give_simp [triSlot_cMain, hm, hp, hm', hp', hbc'] <;>
      rcases hab with h' | h' | h' | h' <;> (try subst h') <;> ite_finish
  · subst h
    simp (disch := omega) only [if_pos, if_neg]
    give_simp [triSlot_cMain, hm, hp, hm', hp'] <;>
      rcases hab with h' | h' | h' | h' <;> (try subst h') <;> ite_finish
  · simp (disch := omega) only [if_pos, if_neg]
    give_simp [triSlot_cMain, hm, hp, hm', hp'] <;>
      rcases hab with h' | h' | h' | h' <;> (try subst h') <;> ite_finish
  · simp (disch := omega) only [if_pos, if_neg]
    give_simp [triSlot_cMain, hm, hp, hm', hp'] <;>
      rcases hab with h' | h' | h' | h' <;> (try subst h') <;> ite_finish
  · simp (disch := omega) only [if_pos, if_neg]
    give_simp [triSlot_cMain, hm, hp, hm', hp'] <;>
      rcases hab with h' | h' | h' | h' <;> (try subst h') <;> ite_finish

/-- `sub_diagonal(j)` of circle `i` (entry `(j, j+1)`): "Top" of node `j` and "Bottom" of node `j + 1`, both stored through
    the row of the smaller index; the twins `(j+1, j)` hit no branch of the macro -/
theorem cval_cSub (o : Op K) (nc : Nat) (hnc : 2 ≤ nc) (hnr : nc + 3 ≤ o.nr) (hnt : 3 ≤ o.nt) (i j a b : Nat)
    (hi0 : 0 < i) (hi : i < nc) (hj : j + 1 < o.nt) (hb : b < o.nt) :
    cval (.cSub i j) (nodeUpdates o nc a b) =
      (if a = i ∧ b = j then -(coeff4 o a b) * o.att a b else 0)
      + (if a = i ∧ b = j + 1 then -(coeff3 o a b) * o.att a b else 0) := by
  have hjm := jm_eq o hb
  have hjp := jp_eq o hb
  have hab : a = i ∨ a = i ∨ a = i ∨ a ≠ i := by omega
  rcases (by omega : b = 0 ∨ b + 1 = o.nt ∨ (b ≠ 0 ∧ b + 1 ≠ o.nt)) with hb0 | hb0 | hb0
  all_goals (first | rw [if_pos hb0] at hjm | rw [if_neg hb0.1] at hjm | rw [if_neg (by omega)] at hjm)
  all_goals (first | rw [if_pos hb0] at hjp | rw [if_neg hb0.2] at hjp | rw [if_neg (by omega)] at hjp)
  all_goals (
    unfold nodeUpdates
    rcases classes o nc hnc hnr a with h | h | h | h | h | h | h
    · simp (disch := omega) only [if_pos, if_neg]
      by_cases hR : a + 1 = nc <;> give_simp [triSlot_cSub, hjm, hjp, hR] <;>
        rcases hab with h' | h' | h' | h' <;> (try subst h') <;> ite_finish
    · simp (disch := omega) only [if_pos, if_neg]
      give_simp [triSlot_cSub, hjm, hjp] <;>
        rcases hab with h' | h' | h' | h' <;> (try subst h') <;> ite_finish
    · subst h
      simp (disch := omega) only [if_pos, if_neg]
      cases hbc' : o.bc <;> give_simp [triSlot_cSub, hjm, hjp, hbc'] <;>
        rcases hab with h' | h' | h' | h' <;> (try subst h') <;> ite_finish
    · subst h
      simp (disch := omega) only [if_pos, if_neg]
      give_simp [triSlot_cSub, hjm, hjp] <;>
        rcases hab with h' | h' | h' | h' <;> (try subst h') <;> ite_finish
    · simp (disch := omega) only [if_pos, if_neg]
      give_simp [triSlot_cSub, hjm, hjp] <;>
        rcases hab with h' | h' | h' | h' <;> (try subst h') <;> ite_finish
    · simp (disch := omega) only [if_pos, if_neg]
      give_simp [triSlot_cSub, hjm, hjp] <;>
        rcases hab with h' | h' | h' | h' <;> (try subst h') <;> ite_finish
    · simp (disch := omega) only [if_pos, if_neg]
      give_simp [triSlot_cSub, hjm, hjp] <;>
        rcases hab with h' | h' | h' | h' <;> (try subst h') <;> ite_finish)

/-- `cyclic_corner_element()` of circle `i` (entry `(0, nt-1)`): "Bottom" of node `0` and "Top" of node `nt - 1` -/
theorem cval_cCorner (o : Op K) (nc : Nat) (hnc : 2 ≤ nc) (hnr : nc + 3 ≤ o.nr) (hnt : 3 ≤ o.nt) (i a b : Nat)
    (hi0 : 0 < i) (hi : i < nc) (hb : b < o.nt) :
    cval (.cCorner i) (nodeUpdates o nc a b) =
      (if a = i ∧ b = 0 then -(coeff3 o a b) * o.att a b else 0)
      + (if a = i ∧ b + 1 = o.nt then -(coeff4 o a b) * o.att a b else 0) := by
  have hjm := jm_eq o hb
  have hjp := jp_eq o hb
  have hab : a = i ∨ a = i ∨ a = i ∨ a ≠ i := by omega
  rcases (by omega : b = 0 ∨ b + 1 = o.nt ∨ (b ≠ 0 ∧ b + 1 ≠ o.nt)) with hb0 | hb0 | hb0
  all_goals (first | rw [if_pos hb0] at hjm | rw [if_neg hb0.1] at hjm | rw [if_neg (by omega)] at hjm)
  all_goals (first | rw [if_pos hb0] at hjp | rw [if_neg hb0.2] at hjp | rw [if_neg (by omega)] at hjp)
  all_goals (
    unfold nodeUpdates
    rcases classes o nc hnc hnr a with h | h | h | h | h | h | h
    · simp (disch := omega) only [if_pos, if_neg]
      by_cases hR : a + 1 = nc <;> give_simp [triSlot_cCorner, hjm, hjp, matCols, hR] <;>
        rcases hab with h' | h' | h' | h' <;> (try subst h') <;> ite_finish
    · simp (disch := omega) only [if_pos, if_neg]
      give_simp [triSlot_cCorner, hjm, hjp, matCols] <;>
        rcases hab with h' | h' | h' | h' <;> (try subst h') <;> ite_finish
    · subst h
      simp (disch := omega) only [if_pos, if_neg]
      cases hbc' : o.bc <;> give_simp [triSlot_cCorner, hjm, hjp, matCols, hbc'] <;>
        rcases hab with h' | h' | h' | h' <;> (try subst h') <;> ite_finish
    · subst h
      simp (disch := omega) only [if_pos, if_neg]
      give_simp [triSlot_cCorner, hjm, hjp, matCols] <;>
        rcases hab with h' | h' | h' | h' <;> (try subst h') <;> ite_finish
    · simp (disch := omega) only [if_pos, if_neg]
      give_simp [triSlot_cCorner, hjm, hjp, matCols] <;>
        rcases hab with h' | h' | h' | h' <;> (try subst h') <;> ite_finish
    · simp (disch := omega) only [if_pos, if_neg]
      give_simp [triSlot_cCorner, hjm, hjp, matCols] <;>
        rcases hab with h' | h' | h' | h' <;> (try subst h') <;> ite_finish
    · simp (disch := omega) only [if_pos, if_neg]
      give_simp [triSlot_cCorner, hjm, hjp, matCols] <;>
        rcases hab with h' | h' | h' | h' <;> (try subst h') <;> ite_finish)

/-- `main_diagonal(t)` of radial line `j` (node `nc + t`): the literal `1.0` on the outer boundary; otherwise the node itself,
    its angular neighbours (not on the outer boundary), the node outside and the node inside (not for the outer boundary row) -/
theorem cval_rMain (o : Op K) (nc : Nat) (hnc : 2 ≤ nc) (hnr : nc + 3 ≤ o.nr) (hnt : 3 ≤ o.nt) (j t a b : Nat)
    (ht : t < o.nr - nc) (ha : a < o.nr) (hb : b < o.nt) :
    cval (.rMain j t) (nodeUpdates o nc a b) =
      (if a = nc + t ∧ b = j then (if a + 1 = o.nr then 1 else mass o a b + diag o a b) else 0)
      + (if a = nc + t ∧ jm o b = j then (if a + 1 = o.nr then 0 else coeff3 o a b * o.att a b) else 0)
      + (if a = nc + t ∧ jp o b = j then (if a + 1 = o.nr then 0 else coeff4 o a b * o.att a b) else 0)
      + (if a = nc + t + 1 ∧ b = j then coeff1 o a b * o.arr a b else 0)
      + (if a = nc + t - 1 ∧ b = j then (if a + 2 < o.nr then coeff2 o a b * o.arr a b else 0) else 0) := by
  have hab : a = nc + t ∨ a = nc + t + 1 ∨ a + 1 = nc + t ∨ (a ≠ nc + t ∧ a ≠ nc + t + 1 ∧ a + 1 ≠ nc + t) := by omega
  unfold nodeUpdates
  rcases classes o nc hnc hnr a with h | h | h | h | h | h | h
  · simp (disch := omega) only [if_pos, if_neg]
    by_cases hR : a + 1 = nc <;> give_simp [triSlot_rMain, hR] <;>
      rcases hab with h' | h' | h' | h' <;> (try subst h') <;> ite_finish
  · simp (disch := omega) only [if_pos, if_neg]
    give_simp [triSlot_rMain] <;>
      rcases hab with h' | h' | h' | h' <;> (try subst h') <;> ite_finish
  · subst h
    simp (disch := omega) only [if_pos, if_neg]
    cases hbc' : o.bc <;> give_simp [triSlot_rMain, hbc'] <;>
      rcases hab with h' | h' | h' | h' <;> (try subst h') <;> ite_finish
  · subst h
    simp (disch := omega) only [if_pos, if_neg]
    give_simp [triSlot_rMain] <;>
      rcases hab with h' | h' | h' | h' <;> (try subst h') <;> ite_finish
  · simp (disch := omega) only [if_pos, if_neg]
    give_simp [triSlot_rMain] <;>
      rcases hab with h' | h' | h' | h' <;> (try subst h') <;> ite_finish
  · simp (disch := omega) only [if_pos, if_neg]
    give_simp [triSlot_rMain] <;>
      rcases hab with h' | h' | h' | h' <;> (try subst h') <;> ite_finish
  · simp (disch := omega) only [if_pos, if_neg]
    give_simp [triSlot_rMain] <;>
      rcases hab with h' | h' | h' | h' <;> (try subst h') <;> ite_finish

/-- `sub_diagonal(t)` of radial line `j` (entry `(t, t+1)`): "Right" of node `nc + t` and "Left" of node `nc + t + 1`; nothing
    towards the outer Dirichlet node -/
theorem cval_rSub (o : Op K) (nc : Nat) (hnc : 2 ≤ nc) (hnr : nc + 3 ≤ o.nr) (hnt : 3 ≤ o.nt) (j t a b : Nat)
    (ht : t + 1 < o.nr - nc) (hb : b < o.nt) :
    cval (.rSub j t) (nodeUpdates o nc a b) =
      (if a = nc + t ∧ b = j then (if a + 2 < o.nr then -(coeff2 o a b) * o.arr a b else 0) else 0)
      + (if a = nc + t + 1 ∧ b = j then (if a + 1 < o.nr then -(coeff1 o a b) * o.arr a b else 0) else 0) := by
  have hab : a = nc + t ∨ a = nc + t + 1 ∨ a = nc + t ∨ (a ≠ nc + t ∧ a ≠ nc + t + 1) := by omega
  unfold nodeUpdates
  rcases classes o nc hnc hnr a with h | h | h | h | h | h | h
  · simp (disch := omega) only [if_pos, if_neg]
    by_cases hR : a + 1 = nc <;> give_simp [triSlot_rSub, hR] <;>
      rcases hab with h' | h' | h' | h' <;> (try subst h') <;> ite_finish
  · simp (disch := omega) only [if_pos, if_neg]
    give_simp [triSlot_rSub] <;>
      rcases hab with h' | h' | h' | h' <;> (try subst h') <;> ite_finish
  · subst h
    simp (disch := omega) only [if_pos, if_neg]
    cases hbc' : o.bc <;> give_simp [triSlot_rSub, hbc'] <;>
      rcases hab with h' | h' | h' | h' <;> (try subst h') <;> ite_finish
  · subst h
    simp (disch := omega) only [if_pos, if_neg]
    give_simp [triSlot_rSub] <;>
      rcases hab with h' | h' | h' | h' <;> (try subst h') <;> ite_finish
  · simp (disch := omega) only [if_pos, if_neg]
    give_simp [triSlot_rSub] <;>
      rcases hab with h' | h' | h' | h' <;> (try subst h') <;> ite_finish
  · simp (disch := omega) only [if_pos, if_neg]
    give_simp [triSlot_rSub] <;>
      rcases hab with h' | h' | h' | h' <;> (try subst h') <;> ite_finish
  · simp (disch := omega) only [if_pos, if_neg]
    give_simp [triSlot_rSub] <;>
      rcases hab with h' | h' | h' | h' <;> (try subst h') <;> ite_finish

/-- Dirichlet inner boundary: the only CSR cell of row `j` holds the literal `1.0` -/
theorem cval_innerD (o : Op K) (nc : Nat) (hnc : 2 ≤ nc) (hnr : nc + 3 ≤ o.nr) (hbc : o.bc = true) (j q a b : Nat) :
    cval (.inner j q) (nodeUpdates o nc a b) = if a = 0 ∧ b = j ∧ q = 0 then 1 else 0 := by
  unfold nodeUpdates
  rcases classes o nc hnc hnr a with h | h | h | h | h | h | h
  · simp (disch := omega) only [if_pos, if_neg]
    by_cases hR : a + 1 = nc <;> give_simp [triSlot_inner, hbc, Bool.not_true, Bool.false_eq_true, hR] <;> ite_finish
  · simp (disch := omega) only [if_pos, if_neg]
    give_simp [triSlot_inner, hbc, Bool.not_true, Bool.false_eq_true] <;> ite_finish
  · subst h
    simp (disch := omega) only [if_pos, if_neg]
    give_simp [triSlot_inner, hbc, Bool.not_true, Bool.false_eq_true] <;> ite_finish
  · subst h
    simp (disch := omega) only [if_pos, if_neg]
    give_simp [triSlot_inner, hbc, Bool.not_true, Bool.false_eq_true] <;> ite_finish
  · simp (disch := omega) only [if_pos, if_neg]
    give_simp [triSlot_inner, hbc, Bool.not_true, Bool.false_eq_true] <;> ite_finish
  · simp (disch := omega) only [if_pos, if_neg]
    give_simp [triSlot_inner, hbc, Bool.not_true, Bool.false_eq_true] <;> ite_finish
  · simp (disch := omega) only [if_pos, if_neg]
    give_simp [triSlot_inner, hbc, Bool.not_true, Bool.false_eq_true] <;> ite_finish

/-- across the origin, CSR cell `0` of row `j` -/
theorem cval_inner0 (o : Op K) (nc : Nat) (hnc : 2 ≤ nc) (hnr : nc + 3 ≤ o.nr) (hbc : o.bc = false) (j a b : Nat) :
    cval (.inner j 0) (nodeUpdates o nc a b) =
      (if a = 0 ∧ b = j then mass o a b + diag o a b else 0)
      + (if a = 0 ∧ ja o b = j then coeff1 o a b * o.arr a b else 0)
      + (if a = 0 ∧ jm o b = j then coeff3 o a b * o.att a b else 0)
      + (if a = 0 ∧ jp o b = j then coeff4 o a b * o.att a b else 0)
      + (if a = 1 ∧ b = j then coeff1 o a b * o.arr a b else 0) := by
  have hab : a = 0 ∨ a = 1 ∨ a = 0 ∨ (a ≠ 0 ∧ a ≠ 1) := by omega
  unfold nodeUpdates
  rcases classes o nc hnc hnr a with h | h | h | h | h | h | h
  · simp (disch := omega) only [if_pos, if_neg]
    by_cases hR : a + 1 = nc <;> give_simp [triSlot_inner, hbc, Bool.not_false, Bool.false_eq_true, hR] <;>
      rcases hab with h' | h' | h' | h' <;> (try subst h') <;> ite_finish
  · simp (disch := omega) only [if_pos, if_neg]
    give_simp [triSlot_inner, hbc, Bool.not_false, Bool.false_eq_true] <;>
      rcases hab with h' | h' | h' | h' <;> (try subst h') <;> ite_finish
  · subst h
    simp (disch := omega) only [if_pos, if_neg]
    give_simp [triSlot_inner, hbc, Bool.not_false, Bool.false_eq_true] <;>
      rcases hab with h' | h' | h' | h' <;> (try subst h') <;> ite_finish
  · subst h
    simp (disch := omega) only [if_pos, if_neg]
    give_simp [triSlot_inner, hbc, Bool.not_false, Bool.false_eq_true] <;>
      rcases hab with h' | h' | h' | h' <;> (try subst h') <;> ite_finish
  · simp (disch := omega) only [if_pos, if_neg]
    give_simp [triSlot_inner, hbc, Bool.not_false, Bool.false_eq_true] <;>
      rcases hab with h' | h' | h' | h' <;> (try subst h') <;> ite_finish
  · simp (disch := omega) only [if_pos, if_neg]
    give_simp [triSlot_inner, hbc, Bool.not_false, Bool.false_eq_true] <;>
      rcases hab with h' | h' | h' | h' <;> (try subst h') <;> ite_finish
  · simp (disch := omega) only [if_pos, if_neg]
    give_simp [triSlot_inner, hbc, Bool.not_false, Bool.false_eq_true] <;>
      rcases hab with h' | h' | h' | h' <;> (try subst h') <;> ite_finish

/-- across the origin, CSR cell `1` of row `j` -/
theorem cval_inner1 (o : Op K) (nc : Nat) (hnc : 2 ≤ nc) (hnr : nc + 3 ≤ o.nr) (hbc : o.bc = false) (j a b : Nat) :
    cval (.inner j 1) (nodeUpdates o nc a b) =
      (if a = 0 ∧ b = j then -(coeff1 o a b) * o.arr a b else 0)
      + (if a = 0 ∧ ja o b = j then -(coeff1 o a b) * o.arr a b else 0) := by
  have hab : a = 0 ∨ a = 1 ∨ a = 0 ∨ (a ≠ 0 ∧ a ≠ 1) := by omega
  unfold nodeUpdates
  rcases classes o nc hnc hnr a with h | h | h | h | h | h | h
  · simp (disch := omega) only [if_pos, if_neg]
    by_cases hR : a + 1 = nc <;> give_simp [triSlot_inner, hbc, Bool.not_false, Bool.false_eq_true, hR] <;>
      rcases hab with h' | h' | h' | h' <;> (try subst h') <;> ite_finish
  · simp (disch := omega) only [if_pos, if_neg]
    give_simp [triSlot_inner, hbc, Bool.not_false, Bool.false_eq_true] <;>
      rcases hab with h' | h' | h' | h' <;> (try subst h') <;> ite_finish
  · subst h
    simp (disch := omega) only [if_pos, if_neg]
    give_simp [triSlot_inner, hbc, Bool.not_false, Bool.false_eq_true] <;>
      rcases hab with h' | h' | h' | h' <;> (try subst h') <;> ite_finish
  · subst h
    simp (disch := omega) only [if_pos, if_neg]
    give_simp [triSlot_inner, hbc, Bool.not_false, Bool.false_eq_true] <;>
      rcases hab with h' | h' | h' | h' <;> (try subst h') <;> ite_finish
  · simp (disch := omega) only [if_pos, if_neg]
    give_simp [triSlot_inner, hbc, Bool.not_false, Bool.false_eq_true] <;>
      rcases hab with h' | h' | h' | h' <;> (try subst h') <;> ite_finish
  · simp (disch := omega) only [if_pos, if_neg]
    give_simp [triSlot_inner, hbc, Bool.not_false, Bool.false_eq_true] <;>
      rcases hab with h' | h' | h' | h' <;> (try subst h') <;> ite_finish
  · simp (disch := omega) only [if_pos, if_neg]
    give_simp [triSlot_inner, hbc, Bool.not_false, Bool.false_eq_true] <;>
      rcases hab with h' | h' | h' | h' <;> (try subst h') <;> ite_finish

/-- across the origin, CSR cell `2` of row `j` -/
theorem cval_inner2 (o : Op K) (nc : Nat) (hnc : 2 ≤ nc) (hnr : nc + 3 ≤ o.nr) (hbc : o.bc = false) (j a b : Nat) :
    cval (.inner j 2) (nodeUpdates o nc a b) =
      (if a = 0 ∧ b = j then -(coeff3 o a b) * o.att a b else 0)
      + (if a = 0 ∧ jp o b = j then -(coeff4 o a b) * o.att a b else 0) := by
  have hab : a = 0 ∨ a = 1 ∨ a = 0 ∨ (a ≠ 0 ∧ a ≠ 1) := by omega
  unfold nodeUpdates
  rcases classes o nc hnc hnr a with h | h | h | h | h | h | h
  · simp (disch := omega) only [if_pos, if_neg]
    by_cases hR : a + 1 = nc <;> give_simp [triSlot_inner, hbc, Bool.not_false, Bool.false_eq_true, hR] <;>
      rcases hab with h' | h' | h' | h' <;> (try subst h') <;> ite_finish
  · simp (disch := omega) only [if_pos, if_neg]
    give_simp [triSlot_inner, hbc, Bool.not_false, Bool.false_eq_true] <;>
      rcases hab with h' | h' | h' | h' <;> (try subst h') <;> ite_finish
  · subst h
    simp (disch := omega) only [if_pos, if_neg]
    give_simp [triSlot_inner, hbc, Bool.not_false, Bool.false_eq_true] <;>
      rcases hab with h' | h' | h' | h' <;> (try subst h') <;> ite_finish
  · subst h
    simp (disch := omega) only [if_pos, if_neg]
    give_simp [triSlot_inner, hbc, Bool.not_false, Bool.false_eq_true] <;>
      rcases hab with h' | h' | h' | h' <;> (try subst h') <;> ite_finish
  · simp (disch := omega) only [if_pos, if_neg]
    give_simp [triSlot_inner, hbc, Bool.not_false, Bool.false_eq_true] <;>
      rcases hab with h' | h' | h' | h' <;> (try subst h') <;> ite_finish
  · simp (disch := omega) only [if_pos, if_neg]
    give_simp [triSlot_inner, hbc, Bool.not_false, Bool.false_eq_true] <;>
      rcases hab with h' | h' | h' | h' <;> (try subst h') <;> ite_finish
  · simp (disch := omega) only [if_pos, if_neg]
    give_simp [triSlot_inner, hbc, Bool.not_false, Bool.false_eq_true] <;>
      rcases hab with h' | h' | h' | h' <;> (try subst h') <;> ite_finish

/-- across the origin, CSR cell `3` of row `j` -/
theorem cval_inner3 (o : Op K) (nc : Nat) (hnc : 2 ≤ nc) (hnr : nc + 3 ≤ o.nr) (hbc : o.bc = false) (j a b : Nat) :
    cval (.inner j 3) (nodeUpdates o nc a b) =
      (if a = 0 ∧ b = j then -(coeff4 o a b) * o.att a b else 0)
      + (if a = 0 ∧ jm o b = j then -(coeff3 o a b) * o.att a b else 0) := by
  have hab : a = 0 ∨ a = 1 ∨ a = 0 ∨ (a ≠ 0 ∧ a ≠ 1) := by omega
  unfold nodeUpdates
  rcases classes o nc hnc hnr a with h | h | h | h | h | h | h
  · simp (disch := omega) only [if_pos, if_neg]
    by_cases hR : a + 1 = nc <;> give_simp [triSlot_inner, hbc, Bool.not_false, Bool.false_eq_true, hR] <;>
      rcases hab with h' | h' | h' | h' <;> (try subst h') <;> ite_finish
  · simp (disch := omega) only [if_pos, if_neg]
    give_simp [triSlot_inner, hbc, Bool.not_false, Bool.false_eq_true] <;>
      rcases hab with h' | h' | h' | h' <;> (try subst h') <;> ite_finish
  · subst h
    simp (disch := omega) only [if_pos, if_neg]
    give_simp [triSlot_inner, hbc, Bool.not_false, Bool.false_eq_true] <;>
      rcases hab with h' | h' | h' | h' <;> (try subst h') <;> ite_finish
  · subst h
    simp (disch := omega) only [if_pos, if_neg]
    give_simp [triSlot_inner, hbc, Bool.not_false, Bool.false_eq_true] <;>
      rcases hab with h' | h' | h' | h' <;> (try subst h') <;> ite_finish
  · simp (disch := omega) only [if_pos, if_neg]
    give_simp [triSlot_inner, hbc, Bool.not_false, Bool.false_eq_true] <;>
      rcases hab with h' | h' | h' | h' <;> (try subst h') <;> ite_finish
  · simp (disch := omega) only [if_pos, if_neg]
    give_simp [triSlot_inner, hbc, Bool.not_false, Bool.false_eq_true] <;>
      rcases hab with h' | h' | h' | h' <;> (try subst h') <;> ite_finish
  · simp (disch := omega) only [if_pos, if_neg]
    give_simp [triSlot_inner, hbc, Bool.not_false, Bool.false_eq_true] <;>
      rcases hab with h' | h' | h' | h' <;> (try subst h') <;> ite_finish

/-- across the origin a row has four cells -/
theorem cval_inner_ge (o : Op K) (nc : Nat) (hnc : 2 ≤ nc) (hnr : nc + 3 ≤ o.nr) (j q a b : Nat) (hq : 4 ≤ q) :
    cval (.inner j q) (nodeUpdates o nc a b) = 0 := by
  have h0 : q ≠ 0 := by omega
  have h1 : q ≠ 1 := by omega
  have h2 : q ≠ 2 := by omega
  have h3 : q ≠ 3 := by omega
  have h0' : 0 ≠ q := by omega
  have h1' : 1 ≠ q := by omega
  have h2' : 2 ≠ q := by omega
  have h3' : 3 ≠ q := by omega
  unfold nodeUpdates
  rcases classes o nc hnc hnr a with h | h | h | h | h | h | h
  · simp (disch := omega) only [if_pos, if_neg]
    by_cases hR : a + 1 = nc <;> give_simp [triSlot_inner, h0, h1, h2, h3, h0', h1', h2', h3', hR] <;> ite_finish
  · simp (disch := omega) only [if_pos, if_neg]
    give_simp [triSlot_inner, h0, h1, h2, h3, h0', h1', h2', h3'] <;> ite_finish
  · subst h
    simp (disch := omega) only [if_pos, if_neg]
    cases hbc' : o.bc <;> give_simp [triSlot_inner, h0, h1, h2, h3, h0', h1', h2', h3', hbc'] <;> ite_finish
  · subst h
    simp (disch := omega) only [if_pos, if_neg]
    give_simp [triSlot_inner, h0, h1, h2, h3, h0', h1', h2', h3'] <;> ite_finish
  · simp (disch := omega) only [if_pos, if_neg]
    give_simp [triSlot_inner, h0, h1, h2, h3, h0', h1', h2', h3'] <;> ite_finish
  · simp (disch := omega) only [if_pos, if_neg]
    give_simp [triSlot_inner, h0, h1, h2, h3, h0', h1', h2', h3'] <;> ite_finish
  · simp (disch := omega) only [if_pos, if_neg]
    give_simp [triSlot_inner, h0, h1, h2, h3, h0', h1', h2', h3'] <;> ite_finish

end SmootherGiveCode
