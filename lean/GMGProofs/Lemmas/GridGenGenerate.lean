import GMGProofs.Lemmas.GridGenDivide
/-!
# `generate`: the parametric constructor after the radial division has been produced
-/
namespace GridGenL
open GridGen

def radiiOf (g : GenIn) (t : List Rat) : List Rat := divideVector (midpointRefine t) g.div
def ntOf (g : GenIn) (t : List Rat) : Nat :=
  (if g.ntExp < 0 then 2 ^ ceilLog2 (midpointRefine t).length else 2 ^ g.ntExp.toNat) * 2 ^ g.div

/-- `checkParameters` applied to the refined/divided radii -/
def finish (g : GenIn) (t : List Rat) : Out (List Rat × Nat) :=
  if (radiiOf g t).length < 2 then .throw "At least two radii are required."
  else if ¬ (radiiOf g t).all (fun r => decide (0 < r)) then .throw "All radii must be greater than zero."
  else if ¬ ((radiiOf g t).zip ((radiiOf g t).drop 1)).all (fun p => decide (p.1 < p.2)) then
    .throw "Radii must be strictly increasing."
  else if ntOf g t + 1 < 3 then .throw "At least two angles are required."
  else if ntOf g t % 2 = 1 then .throw "Each angle must have its opposite in the set"
  else .ok (radiiOf g t, ntOf g t)

theorem generate_eq (g : GenIn) :
    generate g = (if g.aniso = 0 then uniformTemp g.R0 g.Rmax g.nrExp
      else anisoDivision ⟨g.R0, g.Rmax, g.nrExp, g.refr, g.aniso⟩) >>= finish g := by
  unfold generate
  by_cases h : g.aniso = 0
  · rw [if_pos h]; simp only [h, if_true]; rfl
  · rw [if_neg h]; simp only [h, if_false]; rfl

theorem ok_bind {α β} (v : α) (f : α → Out β) : (Out.ok v >>= f) = f v := rfl
theorem throw_bind {α β} (m : String) (f : α → Out β) : (Out.throw m >>= f) = .throw m := rfl
theorem ub_bind {α β} (m : String) (f : α → Out β) : (Out.ub m >>= f) = .ub m := rfl

theorem bind_eq_ok {α β} {o : Out α} {f : α → Out β} {v : β} (h : (o >>= f) = .ok v) :
    ∃ t, o = .ok t ∧ f t = .ok v := by
  cases o with
  | ok t => exact ⟨t, rfl, h⟩
  | throw m => rw [throw_bind] at h; cases h
  | ub w => rw [ub_bind] at h; cases h

theorem finish_ne_ub (g : GenIn) (t : List Rat) (w : String) : finish g t ≠ .ub w := by
  unfold finish
  repeat' split
  all_goals (intro h; cases h)

theorem adjacent_of_strictInc : ∀ (l : List Rat), StrictInc l →
    (l.zip (l.drop 1)).all (fun p => decide (p.1 < p.2)) = true
  | [], _ => by simp
  | [a], _ => by simp
  | a :: b :: t, h => by
    unfold StrictInc at h
    rw [List.pairwise_cons] at h
    have ih := adjacent_of_strictInc (b :: t) h.2
    simp only [List.drop_succ_cons, List.drop_zero, List.zip_cons_cons, List.all_cons, Bool.and_eq_true,
      decide_eq_true_eq] at ih ⊢
    exact ⟨h.1 b (by simp), ih⟩

theorem strictInc_of_adjacent : ∀ (l : List Rat),
    (l.zip (l.drop 1)).all (fun p => decide (p.1 < p.2)) = true → StrictInc l
  | [], _ => by simp [StrictInc]
  | [a], _ => by simp [StrictInc]
  | a :: b :: t, h => by
    simp only [List.drop_succ_cons, List.drop_zero, List.zip_cons_cons, List.all_cons, Bool.and_eq_true,
      decide_eq_true_eq] at h
    have ih := strictInc_of_adjacent (b :: t) (by simpa using h.2)
    unfold StrictInc at ih ⊢
    rw [List.pairwise_cons]
    refine ⟨?_, ih⟩
    intro x hx
    rw [List.pairwise_cons] at ih
    rcases List.mem_cons.mp hx with rfl | hx
    · exact h.1
    · exact lt_trans h.1 (ih.1 x hx)

theorem pow_mod_two (k : Nat) (hk : 2 ≤ 2 ^ k) : 2 ^ k % 2 = 0 := by
  cases k with
  | zero => simp at hk
  | succ k => rw [Nat.pow_succ]; exact Nat.mul_mod_left _ _

theorem ntOf_pow (g : GenIn) (t : List Rat) : ∃ k, ntOf g t = 2 ^ k := by
  unfold ntOf
  split
  · exact ⟨_, (Nat.pow_add _ _ _).symm⟩
  · exact ⟨_, (Nat.pow_add _ _ _).symm⟩

theorem radiiOf_length (g : GenIn) (t : List Rat) (ht : 2 ≤ t.length) :
    (radiiOf g t).length = (2 * t.length - 2) * 2 ^ g.div + 1 := by
  unfold radiiOf
  rw [divideVector_length _ _ (by rw [midpointRefine_length]; omega), midpointRefine_length]
  congr 2

theorem radiiOf_strictInc (g : GenIn) (t : List Rat) (hs : StrictInc t) : StrictInc (radiiOf g t) :=
  divideVector_strictInc _ _ (midpointRefine_strictInc t hs)

theorem radiiOf_first (g : GenIn) (t : List Rat) (ht : 2 ≤ t.length) : (radiiOf g t).getD 0 0 = t.getD 0 0 := by
  unfold radiiOf
  rw [divideVector_first _ _ (by rw [midpointRefine_length]; omega), midpointRefine_first _ (by omega)]

theorem radiiOf_last (g : GenIn) (t : List Rat) (ht : 2 ≤ t.length) :
    (radiiOf g t).getD ((radiiOf g t).length - 1) 0 = t.getD (t.length - 1) 0 := by
  unfold radiiOf
  rw [divideVector_last _ _ (by rw [midpointRefine_length]; omega), midpointRefine_last _ (by omega)]

theorem radiiOf_midpoints (g : GenIn) (t : List Rat) : Midpoints (radiiOf g t) := by
  unfold radiiOf
  cases hd : g.div with
  | zero => rw [divideVector_zero]; exact midpointRefine_midpoints t
  | succ d => exact divideVector_midpoints _ d

theorem radiiOf_odd (g : GenIn) (t : List Rat) (ht : 2 ≤ t.length) : (radiiOf g t).length % 2 = 1 := by
  rw [radiiOf_length g t ht]
  have : (2 * t.length - 2) * 2 ^ g.div = 2 * ((t.length - 1) * 2 ^ g.div) := by
    rw [← Nat.mul_assoc]; congr 1; omega
  omega

theorem finish_ok (g : GenIn) (t : List Rat) (hs : StrictInc t) (ht : 2 ≤ t.length) (h0 : 0 < t.getD 0 0)
    (hnt : 2 ≤ ntOf g t) : finish g t = .ok (radiiOf g t, ntOf g t) := by
  have hlen := radiiOf_length g t ht
  have hpos : 0 < 2 ^ g.div := Nat.pos_of_ne_zero (by positivity)
  have hge : 2 ≤ (2 * t.length - 2) * 2 ^ g.div := by
    calc 2 ≤ 2 * t.length - 2 := by omega
      _ = (2 * t.length - 2) * 1 := by omega
      _ ≤ _ := Nat.mul_le_mul_left _ hpos
  have hinc := radiiOf_strictInc g t hs
  unfold finish
  rw [if_neg (by omega), if_neg, if_neg, if_neg (by omega), if_neg]
  · obtain ⟨k, hk⟩ := ntOf_pow g t
    rw [hk] at hnt ⊢
    rw [pow_mod_two k hnt]; omega
  · rw [adjacent_of_strictInc _ hinc]; simp
  · rw [not_not, List.all_eq_true]
    intro x hx
    rw [decide_eq_true_eq]
    obtain ⟨i, hi, rfl⟩ := List.getElem_of_mem hx
    rw [← getD_eq_getElem _ _ hi]
    rcases Nat.eq_zero_or_pos i with rfl | hi0
    · rw [radiiOf_first g t ht]; exact h0
    · have := hinc.lt hi0 hi
      rw [radiiOf_first g t ht] at this
      linarith

theorem finish_ok_shape {g : GenIn} {t radii : List Rat} {nt : Nat} (h : finish g t = .ok (radii, nt)) :
    2 ≤ radii.length ∧ (∀ r ∈ radii, 0 < r) ∧ StrictInc radii ∧ 2 ≤ nt ∧ nt % 2 = 0 := by
  unfold finish at h
  split at h; · cases h
  split at h; · cases h
  split at h; · cases h
  split at h; · cases h
  split at h; · cases h
  rename_i h1 h2 h3 h4 h5
  injection h with h
  injection h with ha hb
  subst ha; subst hb
  refine ⟨by omega, ?_, strictInc_of_adjacent _ (by simpa using h3), by omega, by omega⟩
  rw [not_not, List.all_eq_true] at h2
  intro r hr
  simpa using h2 r hr

/-! ### `ceilLog2` -/

theorem ceilLog2_spec (n : Nat) (hn : 1 ≤ n) : n ≤ 2 ^ ceilLog2 n ∧ ∀ k, n ≤ 2 ^ k → ceilLog2 n ≤ k := by
  unfold ceilLog2
  split
  · have : n = 1 := by omega
    subst this; simp
  · rename_i h
    have h1 : n - 1 ≠ 0 := by omega
    refine ⟨?_, ?_⟩
    · have := Nat.lt_log2_self (n := n - 1); omega
    · intro k hk
      have : (n - 1).log2 < k := by
        rw [Nat.log2_lt h1]; omega
      omega

theorem ceilLog2_ge_two (n : Nat) (hn : 3 ≤ n) : 2 ≤ ceilLog2 n := by
  unfold ceilLog2
  rw [if_neg (by omega)]
  have : 1 ≤ (n - 1).log2 := by rw [Nat.le_log2 (by omega)]; omega
  omega

theorem ntOf_mod_four (g : GenIn) (t : List Rat)
    (h : 2 ≤ g.ntExp ∨ (g.ntExp < 0 ∧ 2 ≤ t.length)) : ntOf g t % 4 = 0 := by
  unfold ntOf
  have key : ∀ k, 2 ≤ k → (2 ^ k * 2 ^ g.div) % 4 = 0 := by
    intro k hk
    obtain ⟨j, rfl⟩ : ∃ j, k = 2 + j := ⟨k - 2, by omega⟩
    rw [Nat.pow_add, Nat.mul_assoc]
    exact Nat.mul_mod_right _ _
  rcases h with h | ⟨h, hl⟩
  · rw [if_neg (by omega)]; exact key _ (by omega)
  · rw [if_pos h]
    apply key
    apply ceilLog2_ge_two
    rw [midpointRefine_length]; omega

end GridGenL
