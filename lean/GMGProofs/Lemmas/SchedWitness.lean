import GMGProofs.Lemmas.SchedBasic
/-!
# Concrete conflicts (C11): why `nt % 4 = 0` and why the barriers are needed

All footprints are decidable, so a witness (two iterations, a node) is checked by `decide`.
-/
namespace Sched.Lem
open Sched

/-- `nt = 6`: iterations 1 and 5 of loop 7 (`for i_theta = 1; i_theta < ntheta; i_theta += 4`, black pass on the odd lines
    1 and 5) both update `temp` on line `θ = 0` — the right neighbour of line 5 and the left neighbour of line 1. -/
theorem smootherGive_7_7_conflict_nt6 :
    ¬ LoopsRaceFree ⟨5, 6, 2⟩ (Gen.smootherGive.loops.getD 7 default) (Gen.smootherGive.loops.getD 7 default) true := by
  intro H
  exact H 1 5 (by decide) (by decide) (by decide) _ (List.mem_singleton.mpr rfl) _ (List.mem_singleton.mpr rfl)
    .temp 2 0 (by decide) (by decide) (by decide) (by decide) (by decide)

theorem smootherGive_not_raceFree_nt6 : ¬ RegionRaceFree ⟨5, 6, 2⟩ Gen.smootherGive := by
  intro H
  exact smootherGive_7_7_conflict_nt6 (H [6, 7] (by decide) 7 (by decide) 7 (by decide) (Nat.le_refl _))

theorem exSmootherGive_not_raceFree_nt6 : ¬ RegionRaceFree ⟨5, 6, 2⟩ Gen.exSmootherGive := by
  intro H
  have H' := H [6, 7] (by decide) 7 (by decide) 7 (by decide) (Nat.le_refl _)
  exact H' 1 5 (by decide) (by decide) (by decide) _ (List.mem_singleton.mpr rfl) _ (List.mem_singleton.mpr rfl)
    .temp 2 0 (by decide) (by decide) (by decide) (by decide) (by decide)

/-- the barrier between circle sections 0 and 1 of `ResidualGive` is needed: circles 4 and 3 both scatter into row 3 -/
theorem residualGive_0_1_conflict :
    ¬ LoopsRaceFree ⟨8, 8, 5⟩ (Gen.residualGive.loops.getD 0 default) (Gen.residualGive.loops.getD 1 default) false := by
  intro H
  exact H 0 1 (by decide) (by decide) (by decide) _ (List.mem_singleton.mpr rfl) _ (List.mem_singleton.mpr rfl)
    .out 3 0 (by decide) (by decide) (by decide) (by decide) (by decide)

/-- the barrier after the black circle solve of `SmootherGive` (loop 3) is needed: the white circle pass (loop 4) reads `x`
    of the circle the solve writes -/
theorem smootherGive_3_4_conflict :
    ¬ LoopsRaceFree ⟨8, 8, 5⟩ (Gen.smootherGive.loops.getD 3 default) (Gen.smootherGive.loops.getD 4 default) false := by
  intro H
  exact H 0 1 (by decide) (by decide) (by decide) _ (List.mem_singleton.mpr rfl) _ (List.mem_singleton.mpr rfl)
    .x 4 0 (by decide) (by decide) (by decide) (by decide) (by decide)

end Sched.Lem
