import GMGProofs.Lemmas.DirectGiveCode1
/-!
# Code-level direct solver (give), lemmas 2 — offsets, allocated sizes and the initial state with the header's tables

* `addr`: the slot `(row index, offset)` one `UPDATE_MATRIX_ELEMENT` addresses (`none`: table entry `-1` or `getStencil` throws);
  `applyUpd_eq_step`: `DirectGiveCode.applyUpd` is the generic accumulating store of lemmas 1;
* `stencil9 / stencil7 / stencil1`: the three row classes of `getStencil` / `getStencilSize` (`4 ≤ nr`);
* `ValidPos`, `addr_valid`: which positions a row class accepts, the offset they get, and the inverse `slotPos`;
* `initRows_eq`: the zero-initialised state.
-/
set_option linter.unusedSectionVars false
set_option linter.unusedVariables false
namespace DirectGiveCode
open Stencil SparseLU DirectCode
variable {K : Type} [_root_.Field K]

def rowIdx (o : Op K) (u : MUpd K) : Nat := u.1.1 * o.nt + u.1.2
def colIdx (o : Op K) (u : MUpd K) : Nat := u.2.2.1.1 * o.nt + u.2.2.1.2
def val (u : MUpd K) : K := u.2.2.2

section
variable (T : Tables) (o : Op K)

/-- the slot a store addresses -/
def addr (u : MUpd K) : Option (Nat × Nat) :=
  match stencilOf T o u.1.1 with
  | none => none
  | some tbl =>
    if 0 ≤ tbl.getD u.2.1.idx (-1) then some (rowIdx o u, (tbl.getD u.2.1.idx (-1)).toNat) else none

theorem applyUpd_eq_step (rs : State K) (u : MUpd K) :
    applyUpd T o rs u = step (addr T o) (colIdx o) val rs u := by
  unfold applyUpd step addr
  cases stencilOf T o u.1.1 with
  | none => rfl
  | some tbl =>
    simp only
    by_cases h : 0 ≤ tbl.getD u.2.1.idx (-1)
    · simp only [h, true_and, if_true]
      rfl
    · simp only [h, false_and, if_false]

theorem rows_eq_run (nc : Nat) (init : State K) (h : initRows o = some init) :
    rows T o nc = run (addr T o) (colIdx o) val init (allUpdates o nc) := by
  unfold rows run
  rw [h]
  simp only [applyUpd_eq_step]

/-! ### the three row classes -/

theorem stencil9 (hT : GoodTables T) {i : Nat} (hint : 0 < i ∧ i + 1 < o.nr) :
    stencilOf T o i = some [7, 4, 8, 1, 0, 2, 5, 3, 6] ∧ stencilSize o i = some 9 := by
  unfold stencilOf stencilSize
  rw [hT.interior, hT.nextInnerDB, hT.nextOuterDB]
  rcases (by omega : (1 < i ∧ i + 2 < o.nr) ∨ i = 1 ∨ (1 < i ∧ i + 2 = o.nr)) with h | h | h
  · constructor <;> rw [if_pos (Or.inl h)]
  · subst h
    by_cases hb : o.bc = true
    · have e1 : ¬ ((1 < 1 ∧ 1 + 2 < o.nr) ∨ (1 = 1 ∧ o.bc = false)) := by
        rintro (⟨h, _⟩ | ⟨_, h⟩)
        · omega
        · rw [hb] at h; cases h
      have e2 : ¬ (1 = 0 ∧ o.bc = false) := fun h => by omega
      have e3 : ¬ ((1 = 0 ∧ o.bc = true) ∨ 1 + 1 = o.nr) := by rintro (⟨h, _⟩ | h) <;> omega
      constructor <;> rw [if_neg e1, if_neg e2, if_neg e3, if_pos ⟨rfl, hb⟩]
    · have hb' : o.bc = false := by simpa using hb
      constructor <;> rw [if_pos (Or.inr ⟨rfl, hb'⟩)]
  · have e1 : ¬ ((1 < i ∧ i + 2 < o.nr) ∨ (i = 1 ∧ o.bc = false)) := by
      rintro (⟨_, h⟩ | ⟨h, _⟩) <;> omega
    have e2 : ¬ (i = 0 ∧ o.bc = false) := fun h => by omega
    have e3 : ¬ ((i = 0 ∧ o.bc = true) ∨ i + 1 = o.nr) := by rintro (⟨h, _⟩ | h) <;> omega
    have e4 : ¬ (i = 1 ∧ o.bc = true) := fun h => by omega
    constructor <;> rw [if_neg e1, if_neg e2, if_neg e3, if_neg e4, if_pos h.2]

theorem stencil7 (hT : GoodTables T) (hnr : 4 ≤ o.nr) (hb : o.bc = false) :
    stencilOf T o 0 = some [-1, 4, 6, 1, 0, 2, -1, 3, 5] ∧ stencilSize o 0 = some 7 := by
  constructor
  · unfold stencilOf; rw [hT.acrossOrigin]; simp [hb]
  · unfold stencilSize; simp [hb]

theorem stencil1 (hT : GoodTables T) (hnr : 4 ≤ o.nr) {i : Nat} (h : (i = 0 ∧ o.bc = true) ∨ i + 1 = o.nr) :
    stencilOf T o i = some [-1, -1, -1, -1, 0, -1, -1, -1, -1] ∧ stencilSize o i = some 1 := by
  have e1 : ¬ ((1 < i ∧ i + 2 < o.nr) ∨ (i = 1 ∧ o.bc = false)) := by
    rintro (⟨h1, h2⟩ | ⟨h1, _⟩) <;> rcases h with ⟨h, _⟩ | h <;> omega
  have e2 : ¬ (i = 0 ∧ o.bc = false) := by
    rintro ⟨h1, h2⟩
    rcases h with ⟨_, h⟩ | h
    · rw [h] at h2; cases h2
    · omega
  constructor
  · unfold stencilOf; rw [hT.db, if_neg e1, if_neg e2, if_pos h]
  · unfold stencilSize; rw [if_neg e1, if_neg e2, if_pos h]

/-! ### offsets in closed form -/

/-- offset of a position in the 9-point tables -/
def slot9 : Pos → Nat
  | .Center => 0 | .Left => 1 | .Right => 2 | .Bottom => 3 | .Top => 4
  | .BottomLeft => 5 | .BottomRight => 6 | .TopLeft => 7 | .TopRight => 8
/-- … and its inverse -/
def pos9 : Nat → Pos
  | 0 => .Center | 1 => .Left | 2 => .Right | 3 => .Bottom | 4 => .Top
  | 5 => .BottomLeft | 6 => .BottomRight | 7 => .TopLeft | _ => .TopRight
/-- the positions of the across-origin table -/
def seven : Pos → Bool
  | .TopLeft => false | .BottomLeft => false | _ => true
def slot7 : Pos → Nat
  | .Center => 0 | .Left => 1 | .Right => 2 | .Bottom => 3 | .Top => 4 | .BottomRight => 5 | _ => 6
def pos7 : Nat → Pos
  | 0 => .Center | 1 => .Left | 2 => .Right | 3 => .Bottom | 4 => .Top | 5 => .BottomRight | _ => .TopRight

/-- `getStencilSize` in closed form (rows of the grid) -/
def rowSize (i : Nat) : Nat :=
  if 0 < i ∧ i + 1 < o.nr then 9 else if i = 0 ∧ o.bc = false then 7 else 1

/-- the position stored in slot `q` of a row with radial index `i` -/
def slotPos (i q : Nat) : Pos :=
  if 0 < i ∧ i + 1 < o.nr then pos9 q else if i = 0 ∧ o.bc = false then pos7 q else .Center

/-- the positions a row accepts: all nine in a 9-point row, seven across the origin, `Center` in a Dirichlet row -/
def ValidPos (i : Nat) (P : Pos) : Prop :=
  (0 < i ∧ i + 1 < o.nr) ∨ (i = 0 ∧ o.bc = false ∧ seven P = true) ∨
    (¬ (0 < i ∧ i + 1 < o.nr) ∧ ¬ (i = 0 ∧ o.bc = false) ∧ P = .Center)

theorem stencilSize_eq (hnr : 4 ≤ o.nr) {i : Nat} (hi : i < o.nr) : stencilSize o i = some (rowSize o i) := by
  have hT : GoodTables (⟨[7, 4, 8, 1, 0, 2, 5, 3, 6], [-1, 4, 6, 1, 0, 2, -1, 3, 5], [-1, -1, -1, -1, 0, -1, -1, -1, -1],
      [7, 4, 8, 1, 0, 2, 5, 3, 6], [7, 4, 8, 1, 0, 2, 5, 3, 6]⟩ : Tables) := ⟨rfl, rfl, rfl, rfl, rfl⟩
  unfold rowSize
  by_cases h : 0 < i ∧ i + 1 < o.nr
  · rw [if_pos h]; exact (stencil9 _ o hT h).2
  · rw [if_neg h]
    by_cases h0 : i = 0 ∧ o.bc = false
    · rw [if_pos h0]; obtain ⟨rfl, hb⟩ := h0; exact (stencil7 _ o hT hnr hb).2
    · rw [if_neg h0]
      apply (stencil1 _ o hT hnr _).2
      by_cases hi0 : i = 0
      · left; refine ⟨hi0, ?_⟩
        cases hb : o.bc with
        | true => rfl
        | false => exact absurd ⟨hi0, hb⟩ h0
      · right; omega

theorem rowSize_int {i : Nat} (h : 0 < i ∧ i + 1 < o.nr) : rowSize o i = 9 := by unfold rowSize; rw [if_pos h]
theorem slotPos_int {i : Nat} (h : 0 < i ∧ i + 1 < o.nr) (q : Nat) : slotPos o i q = pos9 q := by
  unfold slotPos; rw [if_pos h]
theorem rowSize_origin (hb : o.bc = false) : rowSize o 0 = 7 := by
  unfold rowSize; rw [if_neg (by omega), if_pos ⟨rfl, hb⟩]
theorem slotPos_origin (hb : o.bc = false) (q : Nat) : slotPos o 0 q = pos7 q := by
  unfold slotPos; rw [if_neg (by omega), if_pos ⟨rfl, hb⟩]
theorem rowSize_db {i : Nat} (h1 : ¬ (0 < i ∧ i + 1 < o.nr)) (h2 : ¬ (i = 0 ∧ o.bc = false)) : rowSize o i = 1 := by
  unfold rowSize; rw [if_neg h1, if_neg h2]
theorem slotPos_db {i : Nat} (h1 : ¬ (0 < i ∧ i + 1 < o.nr)) (h2 : ¬ (i = 0 ∧ o.bc = false)) (q : Nat) :
    slotPos o i q = .Center := by
  unfold slotPos; rw [if_neg h1, if_neg h2]

theorem addr_of_stencil (u : MUpd K) (tbl : List Int) (h : stencilOf T o u.1.1 = some tbl) :
    addr T o u = if 0 ≤ tbl.getD u.2.1.idx (-1) then some (rowIdx o u, (tbl.getD u.2.1.idx (-1)).toNat) else none := by
  unfold addr; rw [h]

/-- **an accepted position of a grid row gets an offset below the allocated size**, and `slotPos` inverts it -/
theorem addr_valid (hT : GoodTables T) (hnr : 4 ≤ o.nr) (u : MUpd K) (hi : u.1.1 < o.nr) (hv : ValidPos o u.1.1 u.2.1) :
    ∃ q, addr T o u = some (rowIdx o u, q) ∧ q < rowSize o u.1.1 ∧ slotPos o u.1.1 q = u.2.1 := by
  obtain ⟨⟨i, j⟩, P, c, w⟩ := u
  simp only at hi hv ⊢
  rcases hv with h | ⟨h0, hb, hs⟩ | ⟨h1, h2, hc⟩
  · rw [addr_of_stencil T o _ _ (stencil9 T o hT h).1, rowSize_int o h]
    simp only [slotPos_int o h]
    cases P <;> exact ⟨_, rfl, by decide, rfl⟩
  · subst h0
    rw [addr_of_stencil T o _ _ (stencil7 T o hT hnr hb).1, rowSize_origin o hb]
    simp only [slotPos_origin o hb]
    cases P
    case TopLeft => exact absurd hs (by decide)
    case BottomLeft => exact absurd hs (by decide)
    all_goals exact ⟨_, rfl, by decide, rfl⟩
  · subst hc
    have hcl : (i = 0 ∧ o.bc = true) ∨ i + 1 = o.nr := by
      by_cases hi0 : i = 0
      · left; refine ⟨hi0, ?_⟩
        cases hb : o.bc with
        | true => rfl
        | false => exact absurd ⟨hi0, hb⟩ h2
      · right; omega
    rw [addr_of_stencil T o _ _ (stencil1 T o hT hnr hcl).1, rowSize_db o h1 h2]
    exact ⟨0, rfl, by decide, slotPos_db o h1 h2 0⟩

/-! ### the zero-initialised state -/

/-- `values_data()[i] = 0.0` in rows of the allocated sizes -/
def init : State K :=
  (List.range (o.nr * o.nt)).map fun p => List.replicate (rowSize o (p / o.nt)) (0, Scalar.n 0)

theorem initRows_eq (hnr : 4 ≤ o.nr) : initRows o = some (init o) := by
  unfold initRows init
  have hl : ∀ p ∈ List.range (o.nr * o.nt), p < o.nr * o.nt := fun p hp => List.mem_range.mp hp
  generalize List.range (o.nr * o.nt) = l at hl ⊢
  induction l with
  | nil => rfl
  | cons p l ih =>
    have hp : p / o.nt < o.nr :=
      Nat.div_lt_of_lt_mul (by rw [Nat.mul_comm]; exact hl p (List.mem_cons_self ..))
    rw [List.foldr_cons, ih (fun q hq => hl q (List.mem_cons_of_mem _ hq)), stencilSize_eq o hnr hp]
    rfl

theorem init_length : (init o).length = o.nr * o.nt := by simp [init]

theorem rlen_init {i j : Nat} (hi : i < o.nr) (hj : j < o.nt) : rlen (init o) (i * o.nt + j) = rowSize o i := by
  unfold rlen init
  rw [SparseLU.getD_map_range, if_pos (Direct.idx_lt hi hj)]
  have hpos : 0 < o.nt := by omega
  have h1 : (i * o.nt + j) / o.nt = i := by
    rw [Nat.mul_comm, Nat.mul_add_div hpos, Nat.div_eq_of_lt hj, Nat.add_zero]
  rw [h1, List.length_replicate]

theorem rd_init (r q : Nat) : rd (init o) r q = (0, Scalar.n 0) := by
  unfold rd init
  rw [SparseLU.getD_map_range]
  split
  · rw [List.getD_eq_getElem?_getD, List.getElem?_replicate]
    split <;> rfl
  · rfl

end
end DirectGiveCode
