import GMGModel.Rhs
import GMGProofs.Lemmas.StencilLemmas4
/-!
# Rhs lemmas — row classification and the discrete load of a constant

`constLoad o c` is what `discretize_rhs_f` makes of the data of the constant solution `u ≡ c` of
`-∇·(a∇u) + β u = β c`, `u = c` on the boundary.
-/
set_option linter.unusedSectionVars false
namespace Rhs
open Stencil
variable {K : Type} [_root_.Field K]

/-- undiscretised data of the constant solution `c`: source `β c` at PDE rows, boundary value `c` -/
def constData (o : Op K) (c : K) : Stencil.Field K := fun i _ => if pdeRow o i then o.beta i * c else c

/-- its discrete load -/
def constLoad (o : Op K) (c : K) : Stencil.Field K := discretize o (constData o c)

theorem pdeRow_interior (o : Op K) {i : Nat} (h0 : 0 < i) (h1 : i + 1 < o.nr) : pdeRow o i = true := by
  simp [pdeRow, h0, h1]

theorem pdeRow_origin (o : Op K) (hbc : o.bc = false) : pdeRow o 0 = true := by
  simp [pdeRow, hbc]

theorem pdeRow_inner_dirichlet (o : Op K) (hbc : o.bc = true) : pdeRow o 0 = false := by
  simp [pdeRow, hbc]

theorem pdeRow_outer (o : Op K) {i : Nat} (h0 : 0 < i) (h1 : o.nr ≤ i + 1) : pdeRow o i = false := by
  have : ¬ (i + 1 < o.nr) := by omega
  have : i ≠ 0 := by omega
  simp [pdeRow, *]

/-- `pdeRow` is exactly the row classification of `take` -/
theorem take_of_not_pdeRow (o : Op K) (f x : Stencil.Field K) (i j : Nat) (h : pdeRow o i = false) :
    take o f x i j = f i j - x i j := by
  unfold take
  by_cases hint : 0 < i ∧ i + 1 < o.nr
  · rw [pdeRow_interior o hint.1 hint.2] at h; cases h
  · rw [if_neg hint]
    split
    · rename_i h0; subst h0
      by_cases hbc : o.bc = true
      · rw [if_pos hbc]
      · rw [pdeRow_origin o (by simpa using hbc)] at h; cases h
    · rfl

end Rhs
