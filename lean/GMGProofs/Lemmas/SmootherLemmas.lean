import GMGModel.Smoother
import GMGProofs.Lemmas.StencilLemmas4
/-!
# Smoother lemmas — locality of the row equations, phases, lines

* `take_congr`: the row equation of node `(i, j)` only reads the 3×3 box around it (plus the antipode on
  circle 0 in the across-the-origin mode), and only grid nodes.
* `phase`, `mix` bookkeeping.
* `sameLine nc i j a b`: `(a, b)` lies on the smoother line of `(i, j)`;
  `nbr_class`: every stencil neighbour of a node is on the same line or has a different phase.
* `decoupled`: hence a row equation never reads another line of its own phase.
* `sweep_unique_of_lineInj`: the sweep equations determine the new iterate, by induction over the phases.
-/
set_option linter.unusedSectionVars false
namespace Smoother
open Stencil
variable {K : Type} [_root_.Field K]

/-! ### locality of `take` -/

/-- `take o f w i j` reads `w` only at grid nodes of the 3×3 box around `(i, j)` and, for the
    across-the-origin row, at the antipode `(0, ja j)` -/
theorem take_congr (o : Op K) (f w w' : Stencil.Field K) (i j : Nat) (hnr : 2 ≤ o.nr) (hnt : 0 < o.nt)
    (hi : i < o.nr) (hj : j < o.nt)
    (h : ∀ a b, a < o.nr → b < o.nt → (a = i ∨ a + 1 = i ∨ a = i + 1) →
      (b = j ∨ b = jm o j ∨ b = jp o j ∨ (o.bc = false ∧ i = 0 ∧ a = 0 ∧ b = ja o j)) → w a b = w' a b) :
    take o f w i j = take o f w' i j := by
  have hm := jm_lt o hnt j
  have hp := jp_lt o hnt j
  have hA := ja_lt o hnt j
  unfold take
  split
  · rename_i hint
    obtain ⟨h0, h1⟩ := hint
    have e1 := h i j hi hj (Or.inl rfl) (Or.inl rfl)
    have e2 := h (i-1) j (by omega) hj (Or.inr (Or.inl (by omega))) (Or.inl rfl)
    have e3 := h (i+1) j (by omega) hj (Or.inr (Or.inr rfl)) (Or.inl rfl)
    have e4 := h i (jm o j) hi hm (Or.inl rfl) (Or.inr (Or.inl rfl))
    have e5 := h i (jp o j) hi hp (Or.inl rfl) (Or.inr (Or.inr (Or.inl rfl)))
    have e6 := h (i-1) (jm o j) (by omega) hm (Or.inr (Or.inl (by omega))) (Or.inr (Or.inl rfl))
    have e7 := h (i+1) (jm o j) (by omega) hm (Or.inr (Or.inr rfl)) (Or.inr (Or.inl rfl))
    have e8 := h (i-1) (jp o j) (by omega) hp (Or.inr (Or.inl (by omega))) (Or.inr (Or.inr (Or.inl rfl)))
    have e9 := h (i+1) (jp o j) (by omega) hp (Or.inr (Or.inr rfl)) (Or.inr (Or.inr (Or.inl rfl)))
    simp only [takeInterior, e1, e2, e3, e4, e5, e6, e7, e8, e9]
  · split
    · rename_i h0; subst h0
      split
      · rw [h 0 j hi hj (Or.inl rfl) (Or.inl rfl)]
      · rename_i hbc
        have hbc' : o.bc = false := by simpa using hbc
        have e1 := h 0 j hi hj (Or.inl rfl) (Or.inl rfl)
        have e2 := h 0 (ja o j) hi hA (Or.inl rfl) (Or.inr (Or.inr (Or.inr ⟨hbc', rfl, rfl, rfl⟩)))
        have e3 := h 1 j (by omega) hj (Or.inr (Or.inr rfl)) (Or.inl rfl)
        have e4 := h 0 (jm o j) hi hm (Or.inl rfl) (Or.inr (Or.inl rfl))
        have e5 := h 0 (jp o j) hi hp (Or.inl rfl) (Or.inr (Or.inr (Or.inl rfl)))
        have e6 := h 1 (jm o j) (by omega) hm (Or.inr (Or.inr rfl)) (Or.inr (Or.inl rfl))
        have e7 := h 1 (jp o j) (by omega) hp (Or.inr (Or.inr rfl)) (Or.inr (Or.inr (Or.inl rfl)))
        simp only [takeOrigin, e1, e2, e3, e4, e5, e6, e7]
    · rw [h i j hi hj (Or.inl rfl) (Or.inl rfl)]

/-- fields agreeing on the grid have the same residual on the grid -/
theorem take_congr_grid (o : Op K) (f w w' : Stencil.Field K) (hnr : 2 ≤ o.nr) (hnt : 0 < o.nt)
    (h : ∀ a b, a < o.nr → b < o.nt → w a b = w' a b) (i j : Nat) (hi : i < o.nr) (hj : j < o.nt) :
    take o f w i j = take o f w' i j :=
  take_congr o f w w' i j hnr hnt hi hj (fun a b ha hb _ _ => h a b ha hb)

/-! ### phases and the mixed iterate -/

theorem phase_le_four (nc i j : Nat) : phase nc i j ≤ 4 := by
  unfold phase; split <;> split <;> omega

theorem one_le_phase (nc i j : Nat) : 1 ≤ phase nc i j := by
  unfold phase; split <;> split <;> omega

theorem phase_white_radial {nc i j : Nat} (hi : nc ≤ i) (hj : j % 2 = 1) : phase nc i j = 4 := by
  unfold phase; rw [if_neg (by omega), if_neg (by omega)]

theorem mix_self (nc p : Nat) (u : Stencil.Field K) : mix nc p u u = u := by
  funext i j; unfold mix; split <;> rfl

theorem mix_of_le {nc p i j : Nat} (h : phase nc i j ≤ p) (x y : Stencil.Field K) : mix nc p x y i j = y i j := by
  unfold mix; rw [if_pos h]

theorem mix_of_lt {nc p i j : Nat} (h : p < phase nc i j) (x y : Stencil.Field K) : mix nc p x y i j = x i j := by
  unfold mix; rw [if_neg (by omega)]

theorem mix_four (nc : Nat) (x y : Stencil.Field K) : mix nc 4 x y = y := by
  funext i j; exact mix_of_le (phase_le_four nc i j) x y

/-- all sweep equations hold -/
def IsSweep (o : Op K) (nc : Nat) (f x y : Stencil.Field K) : Prop :=
  ∀ i j, i < o.nr → j < o.nt → defect o nc f x y i j = 0

/-- all equations of the extrapolated sweep hold -/
def IsExSweep (o : Op K) (nc : Nat) (f x y : Stencil.Field K) : Prop :=
  ∀ i j, i < o.nr → j < o.nt → exDefect o nc f x y i j = 0

/-! ### lines -/

/-- `(a, b)` is on the smoother line of `(i, j)`: circle `i` if `i < nc`, else the part `nc ≤ a` of the
    radial line `j` -/
def sameLine (nc i j a b : Nat) : Prop := if i < nc then a = i else (nc ≤ a ∧ b = j)

instance (nc i j a b : Nat) : Decidable (sameLine nc i j a b) := by unfold sameLine; infer_instance

theorem sameLine_refl (nc i j : Nat) : sameLine nc i j i j := by
  unfold sameLine; split <;> omega

theorem sameLine_phase {nc i j a b : Nat} (h : sameLine nc i j a b) : phase nc a b = phase nc i j := by
  unfold sameLine at h; unfold phase
  split at h
  · rename_i hn; subst h; rw [if_pos hn, if_pos hn]
  · obtain ⟨h1, rfl⟩ := h
    rename_i hn
    rw [if_neg (by omega), if_neg hn]

theorem sameLine_congr {nc i j a b : Nat} (h : sameLine nc i j a b) (c d : Nat) :
    sameLine nc a b c d ↔ sameLine nc i j c d := by
  unfold sameLine at *
  split at h
  · rename_i hn; subst h; rw [if_pos hn, if_pos hn]
  · obtain ⟨h1, rfl⟩ := h
    rename_i hn
    rw [if_neg (by omega), if_neg hn]

theorem jm_parity (o : Op K) (heven : o.nt % 2 = 0) {j : Nat} (hj : j < o.nt) : jm o j % 2 ≠ j % 2 := by
  rw [jm_eq o hj]; split <;> omega

theorem jp_parity (o : Op K) (heven : o.nt % 2 = 0) {j : Nat} (hj : j < o.nt) : jp o j % 2 ≠ j % 2 := by
  rw [jp_eq o hj]; split <;> omega

/-- every node of the stencil of `(i, j)` is on the line of `(i, j)` or belongs to another phase -/
theorem nbr_class (o : Op K) (nc : Nat) (hnc : 1 ≤ nc ∨ o.bc = true) (heven : o.nt % 2 = 0)
    (i j a b : Nat) (hj : j < o.nt)
    (ha : a = i ∨ a + 1 = i ∨ a = i + 1)
    (hb : b = j ∨ b = jm o j ∨ b = jp o j ∨ (o.bc = false ∧ i = 0 ∧ a = 0 ∧ b = ja o j)) :
    phase nc a b ≠ phase nc i j ∨ sameLine nc i j a b := by
  have hjm := jm_parity o heven hj
  have hjp := jp_parity o heven hj
  generalize jm o j = m at *
  generalize jp o j = p at *
  rcases hb with rfl | rfl | rfl | ⟨hbc, rfl, rfl, rfl⟩
  · unfold phase sameLine
    rcases ha with rfl | rfl | rfl <;> split_ifs <;> omega
  · unfold phase sameLine
    rcases ha with rfl | rfl | rfl <;> split_ifs <;> omega
  · unfold phase sameLine
    rcases ha with rfl | rfl | rfl <;> split_ifs <;> omega
  · have : 1 ≤ nc := by
      rcases hnc with h | h
      · exact h
      · rw [hbc] at h; cases h
    right; unfold sameLine; rw [if_pos (by omega)]

/-- **decoupling**: the row equation of `(i, j)` does not read a different line of its own phase -/
theorem decoupled (o : Op K) (nc : Nat) (hnc : 1 ≤ nc ∨ o.bc = true) (hnr : 2 ≤ o.nr) (hnt : 2 ≤ o.nt)
    (heven : o.nt % 2 = 0) (f w w' : Stencil.Field K) (i j : Nat) (hi : i < o.nr) (hj : j < o.nt)
    (h : ∀ a b, a < o.nr → b < o.nt → (phase nc a b ≠ phase nc i j ∨ sameLine nc i j a b) → w a b = w' a b) :
    take o f w i j = take o f w' i j :=
  take_congr o f w w' i j hnr (by omega) hi hj
    (fun a b ha hb h1 h2 => h a b ha hb (nbr_class o nc hnc heven i j a b hj h1 h2))

/-! ### uniqueness of the sweep -/

/-- every line block is injective: with the values off the line fixed, the line residuals determine the
    line values -/
def LineInj (o : Op K) (nc : Nat) (f : Stencil.Field K) : Prop :=
  ∀ (w w' : Stencil.Field K) (i j : Nat), i < o.nr → j < o.nt →
    (∀ a b, a < o.nr → b < o.nt → ¬ sameLine nc i j a b → w a b = w' a b) →
    (∀ a b, a < o.nr → b < o.nt → sameLine nc i j a b → take o f w a b = take o f w' a b) →
    ∀ a b, a < o.nr → b < o.nt → sameLine nc i j a b → w a b = w' a b

theorem sweep_unique_of_lineInj (o : Op K) (nc : Nat) (hnc : 1 ≤ nc ∨ o.bc = true) (hnr : 2 ≤ o.nr)
    (hnt : 2 ≤ o.nt) (heven : o.nt % 2 = 0) (f x y y' : Stencil.Field K) (hL : LineInj o nc f)
    (hy : IsSweep o nc f x y) (hy' : IsSweep o nc f x y') :
    ∀ i j, i < o.nr → j < o.nt → y i j = y' i j := by
  have key : ∀ p, ∀ i j, i < o.nr → j < o.nt → phase nc i j = p → y i j = y' i j := by
    intro p
    induction p using Nat.strong_induction_on with
    | _ p ih =>
      intro i j hi hj hp
      -- the two mixed iterates and the hybrid: `w'` on the line of `(i, j)`, `w` elsewhere
      have hww' : ∀ c d, c < o.nr → d < o.nt → phase nc c d ≠ p →
          mix nc p x y c d = mix nc p x y' c d := by
        intro c d hc hd hne
        rcases Nat.lt_or_ge p (phase nc c d) with hlt | hge
        · rw [mix_of_lt hlt, mix_of_lt hlt]
        · rw [mix_of_le hge, mix_of_le hge]
          exact ih (phase nc c d) (by omega) c d hc hd rfl
      have h := hL (mix nc p x y)
        (fun a b => if sameLine nc i j a b then mix nc p x y' a b else mix nc p x y a b) i j hi hj
        (fun a b _ _ hn => by simp only [if_neg hn])
        (fun a b ha hb hs => by
          have hpa : phase nc a b = p := (sameLine_phase hs).trans hp
          have e1 : take o f (mix nc p x y) a b = 0 := by
            have := hy a b ha hb; unfold defect at this; rwa [hpa] at this
          have e2 : take o f (mix nc p x y') a b = 0 := by
            have := hy' a b ha hb; unfold defect at this; rwa [hpa] at this
          rw [e1, ← e2]
          apply decoupled o nc hnc hnr hnt heven f _ _ a b ha hb
          intro c d hc hd hcd
          rcases hcd with hne | hs'
          · rw [hpa] at hne
            have hnl : ¬ sameLine nc i j c d := fun hl => hne ((sameLine_phase hl).trans hp)
            simp only [if_neg hnl]
            exact (hww' c d hc hd hne).symm
          · have : sameLine nc i j c d := (sameLine_congr hs c d).mp hs'
            simp only [if_pos this])
        i j hi hj (sameLine_refl nc i j)
      simp only [if_pos (sameLine_refl nc i j)] at h
      rwa [mix_of_le (by omega), mix_of_le (by omega)] at h
  intro i j hi hj
  exact key _ i j hi hj rfl

end Smoother
