import GMGProofs.Lemmas.Concrete8
/-!
# The coarse-grid correction of the concrete model, operator level
`u += P (solve₁ (R (f − A₀ u)))` returned `some y`: then the coarse solve returned a vector `e` of the size of level 1, `e`
satisfies the coarse system with the right-hand side the CODE restricts (the residual ARRAY read back through `fld`, i.e. zero
outside the fine grid), and `y = u + P e` on the fine grid.
-/
namespace Concrete
open Stencil Scalar MGCycle SparseLU

section Ordered
variable {K : Type} [_root_.Field K] [LinearOrder K] [IsStrictOrderedRing K]

theorem ops_correction (H : Hier K) (u f y : Array K)
    (htab : H.tables = C04c.genTables)
    (hnr1 : 4 ≤ (lvl H 1).op.nr) (hnt1 : 4 ≤ (lvl H 1).op.nt) (heven1 : (lvl H 1).op.nt % 2 = 0)
    (hbc1 : (lvl H 1).op.bc = true) (he1 : Elliptic (lvl H 1).op)
    (hu : u.size = (lvl H 0).op.nr * (lvl H 0).op.nt)
    (hy : (ops H).add (some u) ((ops H).prolong 1 ((ops H).solve 1 ((ops H).restrict 0
      ((ops H).resid 0 (some f) (some u))))) = some y) :
    ∃ e : Array K, e.size = (lvl H 1).op.nr * (lvl H 1).op.nt ∧
      (∀ I J, I < (lvl H 1).op.nr → J < (lvl H 1).op.nt →
        take (lvl H 1).op
          (Interp.restrict (pair H 0) (SmootherCode.fld (lvl H 0).op.nt
            (SmootherCode.ofField (lvl H 0).op.nr (lvl H 0).op.nt
              (take (lvl H 0).op (SmootherCode.fld (lvl H 0).op.nt f) (SmootherCode.fld (lvl H 0).op.nt u)))))
          (SmootherCode.fld (lvl H 1).op.nt e) I J = 0) ∧
      ∀ i j, i < (lvl H 0).op.nr → j < (lvl H 0).op.nt →
        SmootherCode.fld (lvl H 0).op.nt y i j =
          SmootherCode.fld (lvl H 0).op.nt u i j + Interp.prolong (pair H 0) (SmootherCode.fld (lvl H 1).op.nt e) i j := by
  rw [ops_resid_some, ops_restrict_some, ops_solve_some] at hy
  set b : Array K := ofFld H (0 + 1) (Interp.restrict (pair H 0)
    (fld H 0 (ofFld H 0 (take (lvl H 0).op (fld H 0 f) (fld H 0 u))))) with hb
  have hbsz : b.size = (lvl H 1).op.nr * (lvl H 1).op.nt := ofFld_size H 1 _
  cases hs : DirectCode.solve H.tables (lvl H (0 + 1)).op H.tiny b.toList with
  | none => rw [hs] at hy; exact absurd hy (by simp [ops])
  | some r =>
    cases r with
    | none => rw [hs] at hy; exact absurd hy (by simp [ops])
    | some xs =>
      rw [hs] at hy
      have hy' : (ops H).add (some u) ((ops H).prolong (0 + 1) (some xs.toArray)) = some y := hy
      rw [ops_prolong_some, ops_add_some] at hy'
      have hyeq : y = addArr u (ofFld H 0 (Interp.prolong (pair H 0) (fld H (0 + 1) xs.toArray))) :=
        (Option.some.inj hy').symm
      have hlen : xs.length = (lvl H 1).op.nr * (lvl H 1).op.nt := by
        rw [directSolve_length _ _ _ _ _ hs, Array.length_toList, hbsz]
      refine ⟨xs.toArray, by rw [List.size_toArray, hlen], ?_, ?_⟩
      · intro I J hI hJ
        rw [htab] at hs
        have h := C04c.code_solve_inverts_dirichlet (lvl H 1).op hnr1 hnt1 heven1 hbc1 he1 H.tiny b.toList xs
          (by rw [Array.length_toList, hbsz]) hs I J hI hJ
        rw [vget_toList, vget_toArray] at h
        rw [← h]
        apply take_congr_rhs
        exact (fld_ofField_grid _ _ _ I J hI hJ).symm
      · intro i j hi hj
        rw [hyeq, fld_addArr_grid _ _ u _ (by omega) i j hi hj]
        congr 1
        exact fld_ofField_grid _ _ _ i j hi hj

end Ordered
end Concrete
