import GMGProofs.Lemmas.SmootherGiveCode2
/-!
# Code-level smoother (give), lemmas 5 — the scatter kernels of the sweep: what one node subtracts from one entry of `temp`

* `tval p q l`: the total the updates of `l` subtract from `temp(p, q)`; `applyAll_fld`: the array after the updates;
* `circleOrtho_target`, `radialOrtho_target`: every update of a kernel with `smoother_color = c` goes to a line of colour `c`
  of its own section, with a grid angle (the lines of the other colour and of the other section are not touched);
* `tval_circleOrtho`, `tval_radialOrtho`: the share of node `(a, b)` in `temp(p, q)` in a closed form uniform over the
  position classes.
-/
set_option linter.unusedSimpArgs false
set_option linter.unusedTactic false
set_option linter.unreachableTactic false
set_option linter.unusedSectionVars false
set_option linter.unusedVariables false
set_option linter.unnecessarySeqFocus false
namespace SmootherGiveCode
open Stencil SmootherCode Finset
variable {K : Type} [_root_.Field K]

/-- total the updates of `l` subtract from `temp(p, q)` -/
def tval (p q : Nat) (l : List (TUpd K)) : K := (l.map fun u => if u.1 = p ∧ u.2.1 = q then u.2.2 else 0).sum

@[simp] theorem tval_nil (p q : Nat) : tval p q ([] : List (TUpd K)) = 0 := rfl
@[simp] theorem tval_cons (p q : Nat) (u : TUpd K) (l : List (TUpd K)) :
    tval p q (u :: l) = (if u.1 = p ∧ u.2.1 = q then u.2.2 else 0) + tval p q l := by
  simp [tval]
@[simp] theorem tval_append (p q : Nat) (l l' : List (TUpd K)) : tval p q (l ++ l') = tval p q l + tval p q l' := by
  simp [tval]
@[simp] theorem tval_ite (p q : Nat) (c : Prop) [Decidable c] (l l' : List (TUpd K)) :
    tval p q (if c then l else l') = if c then tval p q l else tval p q l' := by
  split <;> rfl

theorem tval_flatMap {β : Type} (p q : Nat) (l : List β) (g : β → List (TUpd K)) :
    tval p q (l.flatMap g) = (l.map fun i => tval p q (g i)).sum := by
  unfold tval
  rw [sum_map_flatMap]

/-! ### the array after a list of `-=` -/

theorem applyT_size (nt : Nat) (t : Array K) (u : TUpd K) : (applyT nt t u).size = t.size := by
  simp [applyT]

theorem applyAll_size (nt : Nat) (us : List (TUpd K)) : ∀ t : Array K, (applyAll nt t us).size = t.size := by
  unfold applyAll
  induction us with
  | nil => intro t; rfl
  | cons u us ih => intro t; rw [List.foldl_cons, ih, applyT_size]

theorem idx_inj {nt p q p' q' : Nat} (hq : q < nt) (hq' : q' < nt) (h : p * nt + q = p' * nt + q') : p = p' ∧ q = q' := by
  have h1 : (p * nt + q) / nt = p := idx_div hq
  have h2 : (p' * nt + q') / nt = p' := idx_div hq'
  have h3 : (p * nt + q) % nt = q := idx_mod hq
  have h4 : (p' * nt + q') % nt = q' := idx_mod hq'
  rw [h] at h1 h3
  exact ⟨by rw [← h1, h2], by rw [← h3, h4]⟩

theorem applyT_fld (nt : Nat) (t : Array K) (u : TUpd K) (hu : u.2.1 < nt) (p q : Nat) (hq : q < nt)
    (hlt : p * nt + q < t.size) :
    fld nt (applyT nt t u) p q = fld nt t p q - (if u.1 = p ∧ u.2.1 = q then u.2.2 else 0) := by
  unfold fld applyT
  simp only [Array.getD_eq_getD_getElem?, Array.getElem?_modify]
  by_cases h : u.1 = p ∧ u.2.1 = q
  · rw [if_pos h, if_pos (by rw [h.1, h.2]), Array.getElem?_eq_getElem hlt]
    simp
  · rw [if_neg h, if_neg]
    · simp
    · intro h'
      exact h (idx_inj hu hq h')

/-- **`temp` after a list of updates with grid angles**: every entry lost the total addressed to it -/
theorem applyAll_fld (nt : Nat) (us : List (TUpd K)) (hus : ∀ u ∈ us, u.2.1 < nt) (p q : Nat) (hq : q < nt) :
    ∀ t : Array K, p * nt + q < t.size → fld nt (applyAll nt t us) p q = fld nt t p q - tval p q us := by
  unfold applyAll
  induction us with
  | nil => intro t _; simp
  | cons u us ih =>
    intro t hlt
    rw [List.foldl_cons, ih (fun w hw => hus w (List.mem_cons_of_mem _ hw)) _ (by rw [applyT_size]; exact hlt),
      applyT_fld nt t u (hus u (List.mem_cons_self ..)) p q hq hlt, tval_cons]
    ring

/-! ### colours -/

theorem circleColour_eq_iff (nc a p : Nat) : circleColour nc a = circleColour nc p ↔ a % 2 = p % 2 := by
  unfold circleColour
  split_ifs <;> simp <;> omega

theorem circleColour_black_iff (nc p : Nat) : circleColour nc p = .black ↔ (nc + p) % 2 = 1 := by
  unfold circleColour
  split_ifs <;> simp <;> omega

theorem circleColour_white_iff (nc p : Nat) : circleColour nc p = .white ↔ (nc + p) % 2 = 0 := by
  unfold circleColour
  split_ifs <;> simp <;> omega

theorem radialColour_eq_iff (b q : Nat) : radialColour b = radialColour q ↔ b % 2 = q % 2 := by
  unfold radialColour
  split_ifs <;> simp <;> omega

theorem radialColour_black_iff (q : Nat) : radialColour q = .black ↔ q % 2 = 0 := by
  unfold radialColour
  split_ifs <;> simp <;> omega

theorem radialColour_white_iff (q : Nat) : radialColour q = .white ↔ q % 2 = 1 := by
  unfold radialColour
  split_ifs <;> simp <;> omega

section
variable (o : Op K) (nc : Nat)

/-- the share of node `(a, b)`, `a ≤ nc`, in `temp(p, q)` during the pass of the colour of circle `p < nc` -/
theorem tval_circleOrtho (hnc : 2 ≤ nc) (x : Stencil.Field K) (p q a b : Nat) (hp : p < nc) (ha : a ≤ nc) :
    tval p q (circleOrtho o nc (circleColour nc p) x a b) =
      (if a = p ∧ b = q then
          (if p = 0 then (if o.bc then 0 else -(coeff2 o a b) * o.arr a b * x (a + 1) b)
           else -(coeff1 o a b) * o.arr a b * x (a - 1) b - coeff2 o a b * o.arr a b * x (a + 1) b) else 0)
      + (if a = p ∧ jm o b = q then
          (if p = 0 then (if o.bc then 0 else -quarter * o.art a b * x (a + 1) b)
           else -quarter * o.art a b * x (a + 1) b + quarter * o.art a b * x (a - 1) b) else 0)
      + (if a = p ∧ jp o b = q then
          (if p = 0 then (if o.bc then 0 else quarter * o.art a b * x (a + 1) b)
           else quarter * o.art a b * x (a + 1) b - quarter * o.art a b * x (a - 1) b) else 0)
      + (if a = p + 1 ∧ b = q then (if p = 0 ∧ o.bc then 0 else (giveLeft o x a b).2.2) else 0)
      + (if a = p - 1 ∧ b = q then (if p = 0 then 0 else (giveRight o x a b).2.2) else 0) := by
  have hab : a = p ∨ a = p + 1 ∨ a + 1 = p ∨ (a ≠ p ∧ a ≠ p + 1 ∧ a + 1 ≠ p) := by omega
  unfold circleOrtho giveLeft giveRight
  rcases (by omega : (0 < a ∧ a < nc) ∨ a = 0 ∨ a = nc) with h | h | h
  · simp (disch := omega) only [if_pos, if_neg]
    cases hbc : o.bc <;>
    simp only [tval_cons, tval_nil, tval_append, tval_ite, circleColour_eq_iff, circleColour_black_iff, ite_and, add_zero,
      Bool.not_true, Bool.not_false, Bool.false_eq_true, or_false, or_true, if_true, if_false, and_true, and_false] <;>
    rcases hab with h' | h' | h' | h' <;> (try subst h') <;> ite_finish
  · subst h
    simp (disch := omega) only [if_pos, if_neg]
    cases hbc : o.bc <;>
    simp only [tval_cons, tval_nil, tval_append, tval_ite, circleColour_eq_iff, circleColour_black_iff, ite_and, add_zero,
      Bool.not_true, Bool.not_false, Bool.false_eq_true, or_false, or_true, if_true, if_false, and_true, and_false] <;>
    rcases hab with h' | h' | h' | h' <;> (try subst h') <;> ite_finish
  · subst h
    simp (disch := omega) only [if_pos, if_neg]
    cases hbc : o.bc <;>
    simp only [tval_cons, tval_nil, tval_append, tval_ite, circleColour_eq_iff, circleColour_black_iff, ite_and, add_zero,
      Bool.not_true, Bool.not_false, Bool.false_eq_true, or_false, or_true, if_true, if_false, and_true, and_false] <;>
    rcases hab with h' | h' | h' | h' <;> (try subst h') <;> ite_finish


/-- the share of node `(a, b)`, `nc - 1 ≤ a < nr`, in `temp(p, q)`, `nc ≤ p < nr`, during the pass of the colour of radial
    line `q` (`nt` even: angular neighbours have the other colour) -/
theorem tval_radialOrtho (hnc : 2 ≤ nc) (hnr : nc + 3 ≤ o.nr) (heven : o.nt % 2 = 0) (f x : Stencil.Field K)
    (p q a b : Nat) (hp : nc ≤ p) (hp' : p < o.nr) (ha : nc - 1 ≤ a) (ha' : a < o.nr) (hb : b < o.nt) :
    tval p q (radialOrtho o nc (radialColour q) f x a b) =
      (if a = p ∧ b = q then
          (if a + 1 = o.nr then 0
           else if a + 2 = o.nr then
             (-(coeff3 o a b) * o.att a b * x a (jm o b) - coeff4 o a b * o.att a b * x a (jp o b))
               + (-(coeff2 o a b) * o.arr a b * f (a + 1) b)
           else if a = nc then
             -(coeff1 o a b) * o.arr a b * x (a - 1) b - coeff3 o a b * o.att a b * x a (jm o b)
               - coeff4 o a b * o.att a b * x a (jp o b)
           else -(coeff3 o a b) * o.att a b * x a (jm o b) - coeff4 o a b * o.att a b * x a (jp o b)) else 0)
      + (if a = p + 1 ∧ b = q then
          (-quarter * o.art a b * x a (jp o b) + quarter * o.art a b * x a (jm o b))
            + (if a + 1 = o.nr then -(coeff1 o a b) * o.arr a b * f a b else 0) else 0)
      + (if a = p - 1 ∧ b = q then
          (if a + 2 = o.nr then 0 else if a + 1 = nc then (giveRight o x a b).2.2
           else quarter * o.art a b * x a (jp o b) - quarter * o.art a b * x a (jm o b)) else 0)
      + (if a = p ∧ jm o b = q then (if a + 1 = o.nr then 0 else (giveBottom o x a b).2.2) else 0)
      + (if a = p ∧ jp o b = q then (if a + 1 = o.nr then 0 else (giveTop o x a b).2.2) else 0) := by
  have hab : a = p ∨ a = p + 1 ∨ a + 1 = p ∨ (a ≠ p ∧ a ≠ p + 1 ∧ a + 1 ≠ p) := by omega
  have hpm : jm o b % 2 ≠ b % 2 := by rw [jm_eq o hb]; split <;> omega
  have hpp : jp o b % 2 ≠ b % 2 := by rw [jp_eq o hb]; split <;> omega
  unfold radialOrtho giveRight giveBottom giveTop
  rcases (by omega : (nc < a ∧ a + 2 < o.nr) ∨ a + 1 = nc ∨ a = nc ∨ a + 2 = o.nr ∨ a + 1 = o.nr) with h | h | h | h | h
  all_goals (
    simp (disch := omega) only [if_pos, if_neg]
    simp only [tval_cons, tval_nil, tval_append, tval_ite, radialColour_eq_iff, ite_and, add_zero,
      if_true, if_false, and_true, and_false] <;>
    rcases hab with h' | h' | h' | h' <;> (try subst h') <;> ite_finish)

/-! ### where the updates of a pass go -/

/-- every update of the circle kernel with `smoother_color = c` goes to a circle of colour `c`, with a grid angle -/
theorem circleOrtho_target (hnc : 2 ≤ nc) (hnt : 0 < o.nt) (c : Colour) (x : Stencil.Field K) (a b : Nat) (ha : a ≤ nc)
    (hb : b < o.nt) : ∀ u ∈ circleOrtho o nc c x a b, u.1 < nc ∧ circleColour nc u.1 = c ∧ u.2.1 < o.nt := by
  have hm := jm_lt o hnt b
  have hp := jp_lt o hnt b
  intro u hu
  unfold circleOrtho giveLeft giveRight at hu
  cases c <;>
  simp only [circleColour_black_iff, circleColour_white_iff, reduceCtorEq, if_true, if_false] at hu ⊢ <;>
  split_ifs at hu <;>
  simp only [List.mem_cons, List.mem_append, List.not_mem_nil, or_false, false_or, List.mem_singleton] at hu <;>
  (try rcases hu with rfl | rfl | rfl) <;> (try rcases hu with rfl | rfl) <;> (try subst hu) <;>
  (first | (exfalso; assumption) | (refine ⟨?_, ?_, ?_⟩ <;> (try dsimp only) <;> (first | assumption | omega)))

/-- every update of the radial kernel with `smoother_color = c` goes to a radial line of colour `c` -/
theorem radialOrtho_target (hnc : 2 ≤ nc) (hnr : nc + 3 ≤ o.nr) (heven : o.nt % 2 = 0) (c : Colour) (f x : Stencil.Field K)
    (a b : Nat) (ha : nc - 1 ≤ a) (ha' : a < o.nr) (hb : b < o.nt) :
    ∀ u ∈ radialOrtho o nc c f x a b, nc ≤ u.1 ∧ u.1 < o.nr ∧ radialColour u.2.1 = c ∧ u.2.1 < o.nt := by
  have hm := jm_lt o (by omega) b
  have hp := jp_lt o (by omega) b
  have hpm : jm o b % 2 ≠ b % 2 := by rw [jm_eq o hb]; split <;> omega
  have hpp : jp o b % 2 ≠ b % 2 := by rw [jp_eq o hb]; split <;> omega
  intro u hu
  unfold radialOrtho giveRight giveBottom giveTop at hu
  cases c <;>
  simp only [radialColour_black_iff, radialColour_white_iff, reduceCtorEq, if_true, if_false] at hu ⊢ <;>
  split_ifs at hu <;>
  simp only [List.mem_cons, List.mem_append, List.not_mem_nil, or_false, false_or, List.mem_singleton] at hu <;>
  (try rcases hu with rfl | rfl | rfl) <;> (try rcases hu with rfl | rfl) <;> (try subst hu) <;>
  (first | (exfalso; assumption) | (refine ⟨?_, ?_, ?_, ?_⟩ <;> (try dsimp only) <;> (first | assumption | omega)))

end
end SmootherGiveCode
