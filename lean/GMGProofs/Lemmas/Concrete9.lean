import GMGProofs.Lemmas.Concrete8
/-!
# Translation invariance of the concrete operators on level 0
If `A₀ w = g` on the grid, then
* the sweep equations for `(f + g, x + w)` are solved by `y + w` when `y` solves them for `(f, x)`; with totality and uniqueness
  (Dirichlet inner boundary, elliptic data) the code-level sweep of `(f + g, x + w)` returns `y + w` as an ARRAY;
* the residual array of `(f + g, x + w)` is the residual array of `(f, x)`;
* `(x + w) += e` is `(x += e) + w`;
hence (`MGCycle.cyc_shift`) one cycle of the concrete model commutes with the shift.
-/
namespace Concrete
open Stencil Scalar MGCycle Smoother

section AnyField
variable {K : Type} [_root_.Field K]

/-- the sweep equations are translation invariant: fields `F`, `X`, `Y` that agree ON THE GRID with `f + g`, `x + w`, `y + w`,
    where `A w = g` on the grid -/
theorem isSweep_shift (o : Op K) (nc : Nat) (hnr : 2 ≤ o.nr) (hnt : 0 < o.nt) (f g x y w F X Y : Stencil.Field K)
    (hF : ∀ i j, i < o.nr → j < o.nt → F i j = f i j + g i j)
    (hX : ∀ i j, i < o.nr → j < o.nt → X i j = x i j + w i j)
    (hY : ∀ i j, i < o.nr → j < o.nt → Y i j = y i j + w i j)
    (hAw : ∀ i j, i < o.nr → j < o.nt → take o g w i j = 0)
    (h : IsSweep o nc f x y) : IsSweep o nc F X Y := by
  intro i j hi hj
  show take o F (mix nc (phase nc i j) X Y) i j = 0
  rw [take_congr_rhs o F (fun a b => f a b + g a b) _ i j (hF i j hi hj),
    Smoother.take_congr_grid o _ _ (fun a b => mix nc (phase nc i j) x y a b + w a b) hnr hnt ?_ i j hi hj,
    take_add, hAw i j hi hj, add_zero]
  · exact h i j hi hj
  · intro a b ha hb
    unfold mix
    split
    · exact hY a b ha hb
    · exact hX a b ha hb

end AnyField

section Ordered
variable {K : Type} [_root_.Field K] [LinearOrder K] [IsStrictOrderedRing K]

/-- the code-level sweep commutes with the shift, as arrays -/
theorem sweep_shift (o : Op K) (nc : Nat) (tiny : K → Bool) (ht : tiny 1 = false)
    (hnr : nc + 3 ≤ o.nr) (hnc : 2 ≤ nc) (hnt : 4 ≤ o.nt) (heven : o.nt % 2 = 0) (hbc : o.bc = true) (he : Elliptic o)
    (f g F : Stencil.Field K) (hF : ∀ i j, i < o.nr → j < o.nt → F i j = f i j + g i j)
    (x w y : Array K) (hx : x.size = o.nr * o.nt)
    (hAw : ∀ i j, i < o.nr → j < o.nt → take o g (SmootherCode.fld o.nt w) i j = 0)
    (hy : SmootherCode.sweep o tiny nc f x = some y) :
    SmootherCode.sweep o tiny nc F (addArr x w) = some (addArr y w) := by
  have hysz : y.size = o.nr * o.nt := by rw [C06c.sweep_size o nc tiny f x y hy, hx]
  have hxw : (addArr x w).size = o.nr * o.nt := by rw [addArr_size, hx]
  obtain ⟨y', hy'⟩ := C06d.code_sweep_total_dirichlet o nc tiny ht F (addArr x w) hbc
  have hy'sz : y'.size = o.nr * o.nt := by rw [C06c.sweep_size o nc tiny F _ y' hy', hxw]
  have hs := C06d.code_sweep_isSweep_dirichlet o nc tiny f x y hnr hnc hnt heven hbc he hx hy
  have hs' := C06d.code_sweep_isSweep_dirichlet o nc tiny F _ y' hnr hnc hnt heven hbc he hxw hy'
  have hsh : IsSweep o nc F (SmootherCode.fld o.nt (addArr x w)) (SmootherCode.fld o.nt (addArr y w)) :=
    isSweep_shift o nc (by omega) (by omega) f g _ _ (SmootherCode.fld o.nt w) F _ _ hF
      (fun i j hi hj => fld_addArr_grid o.nr o.nt x w (by omega) i j hi hj)
      (fun i j hi hj => fld_addArr_grid o.nr o.nt y w (by omega) i j hi hj) hAw hs
  have heq := C06.sweep_unique_dirichlet o nc (by omega) (by omega) heven hbc he F _ _ _ hs' hsh
  rw [hy', array_eq_of_fld o.nr o.nt y' (addArr y w) hy'sz (by rw [addArr_size, hysz]) heq]

/-- the iterate `x'` is the iterate `x` (present, of the size of level 0) shifted by `w` -/
def Shift (H : Hier K) (w : Array K) (x x' : Option (Array K)) : Prop :=
  ∃ a, x = some a ∧ a.size = (lvl H 0).op.nr * (lvl H 0).op.nt ∧ x' = some (addArr a w)

theorem ops_smooth_shift (H : Hier K) (h0 : LevelHyp (lvl H 0)) (ht1 : H.tiny 1 = false) (f g w : Array K)
    (hf : (lvl H 0).op.nr * (lvl H 0).op.nt ≤ f.size)
    (hAw : ∀ i j, i < (lvl H 0).op.nr → j < (lvl H 0).op.nt →
      take (lvl H 0).op (SmootherCode.fld (lvl H 0).op.nt g) (SmootherCode.fld (lvl H 0).op.nt w) i j = 0)
    (x x' : Option (Array K)) (h : Shift H w x x') :
    Shift H w ((ops H).smooth 0 x (some f)) ((ops H).smooth 0 x' (some (addArr f g))) := by
  obtain ⟨hnt, heven, hnc, hnr, hbc, he⟩ := h0
  obtain ⟨a, rfl, ha, rfl⟩ := h
  obtain ⟨y, hy⟩ := C06d.code_sweep_total_dirichlet (lvl H 0).op (lvl H 0).nc H.tiny ht1 (fld H 0 f) a hbc
  refine ⟨y, ?_, ?_, ?_⟩
  · rw [ops_smooth_some, hy]
  · rw [C06c.sweep_size _ _ _ _ a y hy, ha]
  · rw [ops_smooth_some]
    exact sweep_shift (lvl H 0).op (lvl H 0).nc H.tiny ht1 hnr hnc hnt heven hbc he (fld H 0 f) (fld H 0 g) _
      (fun i j hi hj => fld_addArr_grid _ _ f g hf i j hi hj) a w y ha hAw hy

omit [LinearOrder K] [IsStrictOrderedRing K] in
theorem ops_resid_shift (H : Hier K) (h01 : (lvl H 0).op.bc = true ∨ 2 ≤ (lvl H 0).op.nr) (f g w : Array K)
    (hf : (lvl H 0).op.nr * (lvl H 0).op.nt ≤ f.size)
    (hAw : ∀ i j, i < (lvl H 0).op.nr → j < (lvl H 0).op.nt →
      take (lvl H 0).op (SmootherCode.fld (lvl H 0).op.nt g) (SmootherCode.fld (lvl H 0).op.nt w) i j = 0)
    (x x' : Option (Array K)) (h : Shift H w x x') :
    (ops H).resid 0 (some (addArr f g)) x' = (ops H).resid 0 (some f) x := by
  obtain ⟨a, rfl, ha, rfl⟩ := h
  rw [ops_resid_some, ops_resid_some]
  congr 1
  apply ofField_congr
  intro i j hi hj
  have hi' : i < (lvl H 0).op.nr := hi
  have hj' : j < (lvl H 0).op.nt := hj
  show take (lvl H 0).op (SmootherCode.fld (lvl H 0).op.nt (addArr f g)) (SmootherCode.fld (lvl H 0).op.nt (addArr a w)) i j =
    take (lvl H 0).op (SmootherCode.fld (lvl H 0).op.nt f) (SmootherCode.fld (lvl H 0).op.nt a) i j
  rw [take_congr_rhs _ _ (fun p q => SmootherCode.fld (lvl H 0).op.nt f p q + SmootherCode.fld (lvl H 0).op.nt g p q) _ i j
      (fld_addArr_grid _ _ f g hf i j hi' hj'),
    take_congr_grid' (lvl H 0).op _ _
      (fun p q => SmootherCode.fld (lvl H 0).op.nt a p q + SmootherCode.fld (lvl H 0).op.nt w p q) h01
      (fun p q hp hq => fld_addArr_grid _ _ a w (by omega) p q hp hq) i j hi' hj',
    take_add, hAw i j hi' hj', add_zero]

omit [LinearOrder K] [IsStrictOrderedRing K] in
theorem ops_add_shift (H : Hier K) (w b : Array K) (x x' : Option (Array K)) (h : Shift H w x x') :
    Shift H w ((ops H).add x (some b)) ((ops H).add x' (some b)) := by
  obtain ⟨a, rfl, ha, rfl⟩ := h
  refine ⟨addArr a b, ops_add_some H a b, by rw [addArr_size, ha], ?_⟩
  rw [ops_add_some, addArr_comm_right]

/-- **one cycle of the concrete model (any depth, V/W/F, any smoothing counts) commutes with the shift** -/
theorem cyc_translate (H : Hier K) (L nu1 nu2 : Nat) (hL : 2 ≤ L) (k : Kind)
    (h0 : LevelHyp (lvl H 0)) (hbc : ∀ l, l + 1 < L → (lvl H l).op.bc = true) (ht1 : H.tiny 1 = false)
    (M : SparseLU.CSR K) (hM : DirectCode.assemble H.tables (lvl H (L - 1)).op = some M)
    (ht : ∀ r, r < M.rows → H.tiny (SparseLU.den ((SparseLU.factorRows M).2.getD r []) r) = false)
    (f g w : Array K) (hf : (lvl H 0).op.nr * (lvl H 0).op.nt ≤ f.size)
    (hAw : ∀ i j, i < (lvl H 0).op.nr → j < (lvl H 0).op.nt →
      take (lvl H 0).op (SmootherCode.fld (lvl H 0).op.nt g) (SmootherCode.fld (lvl H 0).op.nt w) i j = 0)
    (x x' : Option (Array K)) (h : Shift H w x x') :
    Shift H w (cyc (ops H) ⟨L, nu1, nu2⟩ k (L - 1) 0 x (some f))
      (cyc (ops H) ⟨L, nu1, nu2⟩ k (L - 1) 0 x' (some (addArr f g))) := by
  obtain ⟨n, rfl⟩ : ∃ n, L = n + 2 := ⟨L - 2, by omega⟩
  have I := opsInv H (n + 2) nu1 nu2 hL hbc ht1 M hM ht
  show Shift H w (cyc (ops H) ⟨n + 2, nu1, nu2⟩ k (n + 1) 0 x (some f))
      (cyc (ops H) ⟨n + 2, nu1, nu2⟩ k (n + 1) 0 x' (some (addArr f g)))
  refine cyc_shift (ops H) ⟨n + 2, nu1, nu2⟩ k n (some f) (some (addArr f g)) (Shift H w) (fun e => ∃ b, e = some b)
    (ops_smooth_shift H h0 ht1 f g w hf hAw) (ops_resid_shift H (Or.inl h0.2.2.2.2.1) f g w hf hAw) ?_ ?_ x x' h
  · rintro _ _ ⟨a, rfl, ha, _⟩
    have hq : QF H (0 + 1) ((ops H).restrict 0 ((ops H).resid 0 (some f) (some a))) :=
      I.resid_restrict 0 (some f) (some a) (show 0 < n + 2 - 1 by omega) ⟨f, rfl, fun h => absurd h (Nat.lt_irrefl 0)⟩
        ⟨a, rfl, ha⟩
    obtain ⟨e, he, _⟩ := coarseOrSolve_inv (ops H) ⟨n + 2, nu1, nu2⟩ (PU H) (QF H) I n k 1 _
      (show 1 ≤ n + 2 - 1 by omega) hq
    rw [he]
    exact ⟨_, ops_prolong_some H 0 e⟩
  · rintro y y' _ hy ⟨b, rfl⟩
    exact ops_add_shift H w b y y' hy

end Ordered
end Concrete
