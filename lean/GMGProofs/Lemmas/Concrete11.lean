import GMGProofs.Props.C04g
/-!
# The direct solvers of both strategies hold the SAME CSR container

`C04g.give_take_same_matrix` (same dense entries) and `C04g.give_take_same_pattern` (slot by slot the same column index) are
combined: a row without repeated columns is determined by its column list and its dense reading, hence the stored rows of the
scatter assembly (`DirectGiveCode.finalRows`) ARE the stored rows of the gather assembly (`DirectCode.rowList`), the two
`assemble` functions return the same container and the two `solve` functions the same result (same `none`s).
-/
set_option linter.unusedSectionVars false
set_option linter.unusedVariables false
namespace Concrete
open Stencil SparseLU DirectCode

section AnyField
variable {K : Type} [_root_.Field K]

/-- a row without repeated keys is determined by its key list and its dense reading on its keys -/
theorem row_ext : ∀ (r r' : Row K), r.map (·.1) = r'.map (·.1) → Uniq r → (∀ k ∈ keys r, den r k = den r' k) → r = r'
  | [], [], _, _, _ => rfl
  | [], _ :: _, h, _, _ => by simp at h
  | _ :: _, [], h, _, _ => by simp at h
  | e :: r, e' :: r', h, hu, hd => by
      simp only [List.map_cons, List.cons.injEq] at h
      obtain ⟨h1, h2⟩ := h
      obtain ⟨hn, hu'⟩ := uniq_cons.mp hu
      have hv : e.2 = e'.2 := by
        have := hd e.1 (by simp)
        rw [den_cons, den_cons, if_pos rfl, if_pos h1.symm] at this
        exact this
      have ht : r = r' := by
        apply row_ext r r' h2 hu'
        intro k hk
        have hne : e.1 ≠ k := fun h => hn (h ▸ hk)
        have := hd k (by simp [hk])
        rw [den_cons, den_cons, if_neg hne, if_neg (by rw [← h1]; exact hne)] at this
        exact this
      rw [ht]
      congr 1
      exact Prod.ext h1 hv

/-- **the rows the scatter assembly stores are the rows the gather assembly stores** (columns and values, storage order) -/
theorem finalRows_eq_rowList (o : Op K) (hnr : 4 ≤ o.nr) (hnt : 4 ≤ o.nt) (heven : o.nt % 2 = 0)
    (hk : o.bc = false → ∀ j, j < o.nt → o.k (ja o j) = o.k j) (nc : Nat) :
    DirectGiveCode.finalRows C04g.genTablesGive o nc = rowList o := by
  have hM : DirectGiveCode.assemble C04g.genTablesGive o nc =
      some (csrRows (o.nr * o.nt) (o.nr * o.nt) (DirectGiveCode.finalRows C04g.genTablesGive o nc)) := by
    unfold DirectGiveCode.assemble
    rw [DirectGiveCode.rows_closed C04g.genTablesGive o C04g.genTablesGive_good hnr (fun _ => heven) nc]
    rfl
  unfold DirectGiveCode.finalRows rowList
  apply List.map_congr_left
  intro r hr
  have hr' : r < o.nr * o.nt := List.mem_range.mp hr
  have hpos : 0 < o.nt := by omega
  have hi : r / o.nt < o.nr := Nat.div_lt_of_lt_mul (by rw [Nat.mul_comm]; exact hr')
  have hj : r % o.nt < o.nt := Nat.mod_lt _ hpos
  have hrr : r / o.nt * o.nt + r % o.nt = r := Nat.div_add_mod' r o.nt
  generalize r / o.nt = i at hi hrr
  generalize r % o.nt = j at hj hrr
  subst hrr
  obtain ⟨hlt, hnd⟩ := writes_nodes o hnr hnt heven hi hj
  have e1 : ((List.range (DirectGiveCode.rowSize o i)).map fun q =>
        (DirectGiveCode.slotCol o i j q, DirectGiveCode.slotSum C04g.genTablesGive o nc (i * o.nt + j) q)).map (·.1)
      = (List.range (DirectGiveCode.rowSize o i)).map (DirectGiveCode.slotCol o i j) := by
    rw [List.map_map]; rfl
  have e2 : (nodeRow o (writes o i j)).map (·.1) = (nodes (writes o i j)).map fun c => c.1 * o.nt + c.2 := by
    unfold nodeRow nodes
    rw [List.map_map, List.map_map]; rfl
  have hU := DirectGiveCode.uniq_finalRow C04g.genTablesGive o hnr hnt heven nc hi hj
  apply row_ext _ _ (by rw [e1, DirectGiveCode.slotCols_eq o hnr hi j, ← e2]) hU
  intro k hk'
  -- the key is the index of a grid column
  have hkk : k ∈ (nodes (writes o i j)).map fun c => c.1 * o.nt + c.2 := by
    have : k ∈ ((List.range (DirectGiveCode.rowSize o i)).map fun q =>
        (DirectGiveCode.slotCol o i j q, DirectGiveCode.slotSum C04g.genTablesGive o nc (i * o.nt + j) q)).map (·.1) := hk'
    rw [e1, DirectGiveCode.slotCols_eq o hnr hi j] at this
    exact this
  obtain ⟨c, hc, rfl⟩ := List.mem_map.mp hkk
  have hct : c.2 < o.nt := by
    unfold nodes at hc
    obtain ⟨w, hw, rfl⟩ := List.mem_map.mp hc
    exact hlt w hw
  have hlen : i * o.nt + j < (DirectGiveCode.finalRows C04g.genTablesGive o nc).length := by
    rw [DirectGiveCode.finalRows_length]; exact Direct.idx_lt hi hj
  have hrow := DirectGiveCode.finalRows_getD C04g.genTablesGive o nc hi hj
  have hg := DirectGiveCode.give_entries C04g.genTablesGive o C04g.genTablesGive_good hnr hnt heven hk nc _ hM
    (s := c.1) hi hj hct
  rw [toDense_csrRows _ _ _ _ hlen (by rw [hrow]; exact hU), hrow] at hg
  rw [hg, row_entries o hnr hnt heven hi hj hct]

/-- **both strategies assemble the same CSR container** -/
theorem give_assemble_eq_take (o : Op K) (hnr : 4 ≤ o.nr) (hnt : 4 ≤ o.nt) (heven : o.nt % 2 = 0)
    (hk : o.bc = false → ∀ j, j < o.nt → o.k (ja o j) = o.k j) (nc : Nat) :
    DirectGiveCode.assemble C04g.genTablesGive o nc = DirectCode.assemble C04c.genTables o := by
  unfold DirectGiveCode.assemble DirectCode.assemble
  rw [DirectGiveCode.rows_closed C04g.genTablesGive o C04g.genTablesGive_good hnr (fun _ => heven) nc,
    rows_eq C04c.genTables o C04c.genTables_good hnr, finalRows_eq_rowList o hnr hnt heven hk nc]

/-- **`DirectSolverGiveCustomLU` returns what `DirectSolverTakeCustomLU` returns** (the same list, or the same exit) -/
theorem give_solve_eq_take_solve (o : Op K) (hnr : 4 ≤ o.nr) (hnt : 4 ≤ o.nt) (heven : o.nt % 2 = 0)
    (hk : o.bc = false → ∀ j, j < o.nt → o.k (ja o j) = o.k j) (nc : Nat) (tiny : K → Bool) (b : List K) :
    DirectGiveCode.solve C04g.genTablesGive o nc tiny b = DirectCode.solve C04c.genTables o tiny b := by
  unfold DirectGiveCode.solve DirectCode.solve
  rw [give_assemble_eq_take o hnr hnt heven hk nc]

end AnyField
end Concrete
