import GMGProofs.Lemmas.DirectLemmas
import Mathlib.Tactic.Linarith
/-!
# Smoother energy — a zebra sweep does not increase the energy norm of the error

Dirichlet inner boundary, elliptic data.  `gridErr o v u` is the error `v - u` restricted to the grid.
`energy_step`: if the new error `e'` has zero `A`-image on a node set `S` and the correction `e - e'` is
supported in `S`, then `⟨A e', e'⟩ ≤ ⟨A e, e⟩` (orthogonal projection in the energy inner product).
`sweep_energy`: the four phases chained.
-/
set_option linter.unusedSectionVars false
namespace Smoother
open Stencil Finset Direct
variable {F : Type} [_root_.Field F] [LinearOrder F] [IsStrictOrderedRing F]

/-- error `v - u` restricted to the grid -/
def gridErr (o : Op F) (v u : Stencil.Field F) : Stencil.Field F :=
  fun i j => if i < o.nr ∧ j < o.nt then v i j - u i j else 0

theorem inner_A_add (o : Op F) (a b : Stencil.Field F) :
    inner o (A o (fun i j => a i j + b i j)) (fun i j => a i j + b i j)
      = inner o (A o a) a + inner o (A o a) b + inner o (A o b) a + inner o (A o b) b := by
  unfold inner
  simp only [A_add, ← Finset.sum_add_distrib]
  apply Finset.sum_congr rfl; intro i _
  apply Finset.sum_congr rfl; intro j _
  ring

/-- one orthogonal correction: the energy of the error does not increase -/
theorem energy_step (o : Op F) (hnr : 4 ≤ o.nr) (hnt : 2 ≤ o.nt) (heven : o.nt % 2 = 0)
    (hbc : o.bc = true) (he : Elliptic o) (e e' w : Stencil.Field F) (S : Nat → Nat → Prop)
    (hV : V0 o e') (hW : V0 o w)
    (hsplit : ∀ i j, e i j = e' i j + w i j)
    (hwS : ∀ i j, i < o.nr → j < o.nt → ¬ S i j → w i j = 0)
    (hAS : ∀ i j, i < o.nr → j < o.nt → S i j → A o e' i j = 0) :
    inner o (A o e') e' ≤ inner o (A o e) e ∧
    inner o (A o e) e = inner o (A o e') e' + inner o (A o w) w := by
  have hee : e = fun i j => e' i j + w i j := by funext i j; exact hsplit i j
  have h0 : inner o (A o e') w = 0 := by
    unfold inner
    apply Finset.sum_eq_zero; intro i hi
    apply Finset.sum_eq_zero; intro j hj
    have hi' : i < o.nr := by simpa using hi
    have hj' : j < o.nt := by simpa using hj
    by_cases hS : S i j
    · rw [hAS i j hi' hj' hS]; ring
    · rw [hwS i j hi' hj' hS]; ring
  have h1 : inner o (A o w) e' = 0 := by
    rw [A_symm o hnr hnt heven (fun h => by rw [hbc] at h; cases h) w e' hW hV, inner_comm, h0]
  have h2 : 0 ≤ inner o (A o w) w := A_psd_dirichlet o w hnr hnt heven hbc he hW
  rw [hee, inner_A_add, h0, h1]
  constructor
  · linarith
  · ring

section sweep
variable (o : Op F) (nc : Nat) (f u x y : Stencil.Field F)

/-- at the Dirichlet nodes every mixed iterate carries the boundary data, like the solution -/
theorem mix_dirichlet (hnr : 4 ≤ o.nr) (hbc : o.bc = true)
    (hu : ∀ i j, i < o.nr → j < o.nt → take o f u i j = 0)
    (hxD : ∀ j, j < o.nt → x (o.nr - 1) j = f (o.nr - 1) j ∧ x 0 j = f 0 j)
    (hs : IsSweep o nc f x y) (q j : Nat) (hj : j < o.nt) :
    mix nc q x y (o.nr - 1) j = u (o.nr - 1) j ∧ mix nc q x y 0 j = u 0 j := by
  have hu1 : u (o.nr - 1) j = f (o.nr - 1) j := by
    have := hu (o.nr - 1) j (by omega) hj
    unfold take at this
    rw [if_neg (by omega), if_neg (by omega)] at this
    exact (sub_eq_zero.mp this).symm
  have hu0 : u 0 j = f 0 j := by
    have := hu 0 j (by omega) hj
    unfold take at this
    rw [if_neg (by omega), if_pos rfl, if_pos hbc] at this
    exact (sub_eq_zero.mp this).symm
  have hy1 : y (o.nr - 1) j = f (o.nr - 1) j := by
    have := hs (o.nr - 1) j (by omega) hj
    unfold defect take at this
    rw [if_neg (by omega), if_neg (by omega), mix_of_le (le_refl _)] at this
    exact (sub_eq_zero.mp this).symm
  have hy0 : y 0 j = f 0 j := by
    have := hs 0 j (by omega) hj
    unfold defect take at this
    rw [if_neg (by omega), if_pos rfl, if_pos hbc, mix_of_le (le_refl _)] at this
    exact (sub_eq_zero.mp this).symm
  unfold mix
  constructor
  · split
    · rw [hy1, hu1]
    · rw [(hxD j hj).1, hu1]
  · split
    · rw [hy0, hu0]
    · rw [(hxD j hj).2, hu0]

theorem gridErr_V0 (hnr : 4 ≤ o.nr) (hbc : o.bc = true)
    (hu : ∀ i j, i < o.nr → j < o.nt → take o f u i j = 0)
    (hxD : ∀ j, j < o.nt → x (o.nr - 1) j = f (o.nr - 1) j ∧ x 0 j = f 0 j)
    (hs : IsSweep o nc f x y) (q : Nat) : V0 o (gridErr o (mix nc q x y) u) := by
  constructor
  · intro j
    unfold gridErr
    split
    · rename_i h; rw [(mix_dirichlet o nc f u x y hnr hbc hu hxD hs q j h.2).1]; ring
    · rfl
  · intro _ j
    unfold gridErr
    split
    · rename_i h; rw [(mix_dirichlet o nc f u x y hnr hbc hu hxD hs q j h.2).2]; ring
    · rfl

/-- phase `p` does not increase the energy of the error -/
theorem phase_energy (hnr : 4 ≤ o.nr) (hnt : 2 ≤ o.nt) (heven : o.nt % 2 = 0)
    (hbc : o.bc = true) (he : Elliptic o)
    (hu : ∀ i j, i < o.nr → j < o.nt → take o f u i j = 0)
    (hxD : ∀ j, j < o.nt → x (o.nr - 1) j = f (o.nr - 1) j ∧ x 0 j = f 0 j)
    (hs : IsSweep o nc f x y) (p : Nat) :
    inner o (A o (gridErr o (mix nc (p + 1) x y) u)) (gridErr o (mix nc (p + 1) x y) u)
      ≤ inner o (A o (gridErr o (mix nc p x y) u)) (gridErr o (mix nc p x y) u) := by
  have hV1 := gridErr_V0 o nc f u x y hnr hbc hu hxD hs (p + 1)
  have hV0 := gridErr_V0 o nc f u x y hnr hbc hu hxD hs p
  refine (energy_step o hnr hnt heven hbc he (gridErr o (mix nc p x y) u)
    (gridErr o (mix nc (p + 1) x y) u)
    (fun i j => gridErr o (mix nc p x y) u i j - gridErr o (mix nc (p + 1) x y) u i j)
    (fun i j => phase nc i j = p + 1) hV1 ?_ (fun i j => by ring) ?_ ?_).1
  · constructor
    · intro j; beta_reduce; rw [hV0.1 j, hV1.1 j]; ring
    · intro h j; beta_reduce; rw [hV0.2 h j, hV1.2 h j]; ring
  · intro i j hi hj hne
    simp only [gridErr, if_pos (And.intro hi hj)]
    have : mix nc p x y i j = mix nc (p + 1) x y i j := by
      unfold mix
      by_cases hle : phase nc i j ≤ p
      · rw [if_pos hle, if_pos (by omega)]
      · rw [if_neg hle, if_neg (by omega)]
    rw [this]; ring
  · intro i j hi hj hp
    rw [A_congr_grid o _ (fun a b => mix nc (p + 1) x y a b - u a b) (by omega) (by omega)
      (fun a b ha hb => by simp only [gridErr, if_pos (And.intro ha hb)]) i j hi hj, A_sub]
    have h1 := hs i j hi hj
    unfold defect at h1
    rw [hp, take_eq_sub_A] at h1
    have h2 := hu i j hi hj
    rw [take_eq_sub_A] at h2
    rw [← sub_eq_zero.mp h1, ← sub_eq_zero.mp h2]; ring

/-- **energy**: a full zebra sweep does not increase the energy norm of the error -/
theorem sweep_energy (hnr : 4 ≤ o.nr) (hnt : 2 ≤ o.nt) (heven : o.nt % 2 = 0)
    (hbc : o.bc = true) (he : Elliptic o)
    (hu : ∀ i j, i < o.nr → j < o.nt → take o f u i j = 0)
    (hxD : ∀ j, j < o.nt → x (o.nr - 1) j = f (o.nr - 1) j ∧ x 0 j = f 0 j)
    (hs : IsSweep o nc f x y) :
    inner o (A o (gridErr o y u)) (gridErr o y u) ≤ inner o (A o (gridErr o x u)) (gridErr o x u) := by
  have h1 := phase_energy o nc f u x y hnr hnt heven hbc he hu hxD hs 0
  have h2 := phase_energy o nc f u x y hnr hnt heven hbc he hu hxD hs 1
  have h3 := phase_energy o nc f u x y hnr hnt heven hbc he hu hxD hs 2
  have h4 := phase_energy o nc f u x y hnr hnt heven hbc he hu hxD hs 3
  have m0 : mix nc 0 x y = x := by
    funext i j; exact mix_of_lt (by have := one_le_phase nc i j; omega) x y
  rw [m0] at h1
  simp only [Nat.reduceAdd] at h1 h2 h3 h4
  rw [mix_four] at h4
  linarith

end sweep
end Smoother
