import GMGProofs.Lemmas.ExSmootherGiveCode12
/-!
# Code-level extrapolated smoother (give), lemmas 13 — `temp` of the radial section after one colour phase

* `radial_temp_own`: on a radial line of the phase's colour `temp` is the gather kernel's `rhs - A_sc^ortho x`
  (`ExSmootherCode.orthoRadial`);
* `radial_temp_other`: everywhere else the phase leaves `temp` alone.
-/
set_option linter.unusedSectionVars false
set_option linter.unusedVariables false
set_option linter.unusedSimpArgs false
namespace ExSmootherGiveCode
open Stencil SparseLU SmootherCode Finset
variable {K : Type} [_root_.Field K]

section
variable (o : Op K) (nc : Nat) (black : Bool) (f x : Stencil.Field K)

/-- position class and parity facts about a radial index that `omega` decides -/
macro "rad_facts " i:term ", " nc:term ", " nr:term : tactic => `(tactic| (
  harvest ($nc < $i ∧ $i + 2 < $nr)
  harvest ($i + 1 = $nc)
  harvest ($i = $nc)
  harvest ($i + 2 = $nr)
  harvest ($i + 1 = $nr)
  harvest ($i % 2 = 1)))

set_option maxHeartbeats 4000000 in
/-- **on a radial line of the phase's colour the scattered `temp` is the gather kernel's `rhs - A_sc^ortho x`** -/
theorem radial_temp_own (hnc : 3 ≤ nc) (hnr : nc + 3 ≤ o.nr) (hodd : o.nr % 2 = 1) (hnt : 2 ≤ o.nt)
    (heven : o.nt % 2 = 0) (t : Stencil.Field K) (a b : Nat) (ha0 : nc ≤ a) (ha : a < o.nr) (hb : b < o.nt)
    (hcol : (!decide (b % 2 = 1)) = black) (ht : t a b = initTemp f x a b) :
    ((radialPhase o nc black f x).foldl Stencil.applyUpd t) a b = ExSmootherCode.orthoRadial o nc f x a b := by
  have hpos : 0 < o.nt := by omega
  have pjp := jp_parity o heven hb
  have pjm := jm_parity o heven hb
  have e1 : jm o (jp o b) = b := jm_jp o hb
  have e2 : jp o (jm o b) = b := jp_jm o hb
  have hp0 : 0 < a := by omega
  have k1 := coeff1_succ o a b
  have k2 := coeff2_pred o b hp0
  have k3 := coeff3_jp o a hb
  have k4 := coeff4_jm o a b
  have s1 : a - 1 + 1 = a := by omega
  rw [foldl_applyUpd, radial_phase_recv o nc black f x (by omega) hnr hnt a b ha hb, ht, if_pos hp0]
  subst hcol
  rcases (by omega : (nc < a ∧ a + 2 < o.nr) ∨ a = nc ∨ a + 2 = o.nr ∨ a + 1 = o.nr) with hcl | hcl | hcl | hcl <;>
    by_cases hao : a % 2 = 1 <;> by_cases hbo : b % 2 = 1 <;> by_cases hm : a - 1 = nc <;>
    by_cases hq : a + 3 = o.nr
  all_goals try (exfalso; omega)
  all_goals (
    rad_facts a, nc, o.nr
    rad_facts (a + 1), nc, o.nr
    rad_facts (a - 1), nc, o.nr
    harvest (a + 1 < o.nr)
    harvest (jp o b % 2 = 1)
    harvest (jm o b % 2 = 1)
    harvest (a + 1 + 2 < o.nr)
    harvest (a - 1 + 2 < o.nr)
    harvest (o.nr = nc)
    harvest (nc < a - 1)
    harvest (nc < a + 1)
    clear pjp pjm
    try subst_vars
    simp [-Nat.mod_two_ne_one, *, ExSmootherCode.orthoRadial, initTemp, rC, rL, rR, rB, rT, leftVal, rightVal, bottomVal,
      topVal, crossVal, diagTerms, ExSmootherCode.crossTerms])
  all_goals ring

set_option maxHeartbeats 1000000 in
/-- **a colour phase of the radial section leaves every other `temp` value alone**: the radial lines of the other colour and
    the whole circle section -/
theorem radial_temp_other (hnc : 3 ≤ nc) (hnr : nc + 3 ≤ o.nr) (hnt : 2 ≤ o.nt) (heven : o.nt % 2 = 0)
    (t : Stencil.Field K) (a b : Nat) (ha : a < o.nr) (hb : b < o.nt)
    (h : a < nc ∨ ¬ (!decide (b % 2 = 1)) = black) :
    ((radialPhase o nc black f x).foldl Stencil.applyUpd t) a b = t a b := by
  have pjp := jp_parity o heven hb
  have pjm := jm_parity o heven hb
  rw [foldl_applyUpd, radial_phase_recv o nc black f x (by omega) hnr hnt a b ha hb]
  have z : ∀ v : K, v = 0 → t a b - v = t a b := by intro v hv; rw [hv, sub_zero]
  apply z
  rcases h with h | h
  · -- circle section
    rad_facts a, nc, o.nr
    rad_facts (a + 1), nc, o.nr
    rad_facts (a - 1), nc, o.nr
    harvest (0 < a)
    harvest (a + 1 < o.nr)
    simp [-Nat.mod_two_ne_one, *, rC, rL, rR, rB, rT]
  · -- a radial line of the other colour
    have hown : ¬ ((!decide (b % 2 = 1)) == black) = true := by simpa using h
    have hbl : black = decide (b % 2 = 1) := by
      cases hblk : black <;> by_cases hbo : b % 2 = 1 <;> simp [hblk, hbo] at hown ⊢
    have hj1 : ((!decide (jp o b % 2 = 1)) == black) = true := by
      rw [hbl]
      by_cases hbo : b % 2 = 1
      · have hjn : ¬ jp o b % 2 = 1 := by omega
        simp only [hbo, hjn, decide_true, decide_false, Bool.not_false, beq_self_eq_true]
      · have hjn : jp o b % 2 = 1 := by omega
        simp only [hbo, hjn, decide_true, decide_false, Bool.not_true, beq_self_eq_true]
    have hj2 : ((!decide (jm o b % 2 = 1)) == black) = true := by
      rw [hbl]
      by_cases hbo : b % 2 = 1
      · have hjn : ¬ jm o b % 2 = 1 := by omega
        simp only [hbo, hjn, decide_true, decide_false, Bool.not_false, beq_self_eq_true]
      · have hjn : jm o b % 2 = 1 := by omega
        simp only [hbo, hjn, decide_true, decide_false, Bool.not_true, beq_self_eq_true]
    have c1 : rC o nc black f x a b = 0 := by unfold rC; rw [if_neg hown]
    have c2 : rL o nc black f x (a + 1) b = 0 := by unfold rL; rw [if_neg hown]
    have c3 : rR o nc black x (a - 1) b = 0 := by unfold rR; rw [if_neg hown]
    have c4 : rB o nc black x a (jp o b) = 0 := by unfold rB; rw [if_pos hj1]
    have c5 : rT o nc black x a (jm o b) = 0 := by unfold rT; rw [if_pos hj2]
    rw [c1, c2, c3, c4, c5]
    simp

end
end ExSmootherGiveCode
