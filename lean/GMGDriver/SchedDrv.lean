import GMGModel.Sched
import Generated.Sched
/-! `gmgdriver sched <max_nc> <max_nt>`: search the regenerated schedule for a concrete conflicting pair of iterations on
all small admissible shapes (every residue class of nc mod 2,3,4 and nt mod 3,4 occurs below the default bounds). -/
namespace SchedDrv
open Sched

def main (maxNc maxNt : Nat) : IO UInt32 := do
  let mut shapes := 0
  let mut checked := 0
  let mut found := 0
  for reg in Gen.all do
    let mut regionConf : Option String := none
    for nc in [2:maxNc+1] do
      for len in [3:6] do
        for half in [2:maxNt/2+1] do
          let s : Shape := ⟨(nc + len : Nat), (2 * half : Nat), (nc : Nat)⟩
          -- the smoothers only run on levels with ntheta divisible by 4 (C18.levels_admissible)
          let smoother := (reg.name.splitOn "moothing").length > 1
          if regionConf.isNone ∧ (!smoother ∨ half % 2 == 0) then
            shapes := shapes + 1
            match findConflict s reg with
            | some c => regionConf := some c
            | none => pure ()
    checked := checked + 1
    match regionConf with
    | some c => IO.println s!"ORACLE C11 {c}"; found := found + 1
    | none => IO.println s!"SIG region {reg.name} loops={reg.loops.length} intervals={(intervals reg.loops).length}"
  IO.println s!"SUMMARY kind=sched cases={checked} checks={shapes} diffs=0 rejects=0 regions={checked} shape_region_pairs={shapes} conflicts={found} max_nc={maxNc} max_nt={maxNt}"
  for reg in Gen.all.take 2 do
    IO.println s!"SAMPLE {reg.name}: intervals {(intervals reg.loops)}"
  return (if found == 0 then 0 else 1)

end SchedDrv
