import GMGModel.Cache
import GMGDriver.OpsDrv
import Std.Data.HashMap
/-! `gmgdriver cache`: every array of the real `LevelCache` objects of a level chain (fresh constructor on level 0, sampling
constructor on the coarser levels, all four cache-flag pairs) against `GMGModel/Cache.lean` executed in IEEE double —
bit for bit; plus the run-time instance of `C03c.coarsen_obtain`: what an operator obtains from the sampled cache of a
coarse level is the direct evaluation at the coarse node. -/
namespace CacheDrv
open Drv Cache

structure St where
  stats : Stats := {}
  -- input functions as tables over the finest grid's coordinates (coarse nodes are a subset)
  jac : Std.HashMap (UInt64 × UInt64) (Float × Float × Float × Float) := {}
  alpha : Std.HashMap UInt64 Float := {}
  beta : Std.HashMap UInt64 Float := {}
  prev : Option (LevelCache Float × Grid) := none
  arrays : Nat := 0
  values : Nat := 0
  obtains : Nat := 0
  sample : List String := []
  geo : String := ""
  coef : String := ""

def env (st : St) : Env Float :=
  { sinF := Float.sin, cosF := Float.cos,
    alpha := fun r => (st.alpha.get? r.toBits).getD (0.0 / 0.0),
    beta := fun r => (st.beta.get? r.toBits).getD (0.0 / 0.0),
    jac := fun r th _ _ => (st.jac.get? (r.toBits, th.toBits)).getD (0.0 / 0.0, 0.0 / 0.0, 0.0 / 0.0, 0.0 / 0.0),
    absF := Float.abs }

def sameBits (a b : Array Float) : Bool := a.size == b.size ∧ (List.range a.size).all fun q => (a.getD q 0).toBits == (b.getD q 0).toBits

def tupBits (t : Float × Float × Float × Float × Float × Float × Float) : List UInt64 :=
  [t.1.toBits, t.2.1.toBits, t.2.2.1.toBits, t.2.2.2.1.toBits, t.2.2.2.2.1.toBits, t.2.2.2.2.2.1.toBits, t.2.2.2.2.2.2.toBits]

def step (st : St) (line : String) : IO St := do
  let toks := fields line
  match toks with
  | "LV" :: rest =>
    let nr := toNat! ((kv rest "nr").getD ""); let nt := toNat! ((kv rest "nt").getD "")
    let radii := parseFloatsA ((kv rest "radii").getD ""); let angles := parseFloatsA ((kv rest "angles").getD "")
    let J := parseFloatsA ((kv rest "J").getD "")
    let al := parseFloatsA ((kv rest "alpha").getD ""); let be := parseFloatsA ((kv rest "beta").getD "")
    let mut jac : Std.HashMap (UInt64 × UInt64) (Float × Float × Float × Float) := {}
    let mut am : Std.HashMap UInt64 Float := {}
    let mut bm : Std.HashMap UInt64 Float := {}
    for i in [0:nr] do
      am := am.insert (radii.getD i 0).toBits (al.getD i 0)
      bm := bm.insert (radii.getD i 0).toBits (be.getD i 0)
      for j in [0:nt] do
        let b := 4 * (i * nt + j)
        jac := jac.insert ((radii.getD i 0).toBits, (angles.getD j 0).toBits) (J.getD b 0, J.getD (b+1) 0, J.getD (b+2) 0, J.getD (b+3) 0)
    let geo := (kv rest "geo").getD ""; let coef := (kv rest "coef").getD ""
    IO.println s!"SIG cache nr={nr} nt={nt} geo={geo} coef={coef}"
    let sample := if st.sample.length < 3 then st.sample ++ [s!"LV nr={nr} nt={nt} geo={geo} coef={coef}"] else st.sample
    return { st with jac := jac, alpha := am, beta := bm, prev := none, geo := geo, coef := coef, sample := sample,
                     stats := { st.stats with cases := st.stats.cases + 1 } }
  | "CA" :: rest =>
    let lvl := toNat! ((kv rest "lvl").getD ""); let cc := (kv rest "cc") == some "1"; let cg := (kv rest "cg") == some "1"
    let nr := toNat! ((kv rest "nr").getD ""); let nt := toNat! ((kv rest "nt").getD ""); let nc := toNat! ((kv rest "nc").getD "")
    let radii := parseFloatsA ((kv rest "radii").getD ""); let angles := parseFloatsA ((kv rest "angles").getD "")
    let g : Grid := ⟨nr, nt, nc, Grid.pow2Flag nt⟩
    let G : GridData Float := ⟨g, fun i => radii.getD i 0, fun j => angles.getD j 0⟩
    let E := env st
    let tag := s!"LevelCache lvl={lvl} cacheCoef={cc} cacheGeo={cg} nr={nr} nt={nt} nc={nc} geo={st.geo} coef={st.coef}"
    let get := fun (k : String) => parseFloatsA ((kv rest k).getD "-")
    let model : LevelCache Float := match lvl, st.prev with
      | 0, _ => fresh E G cc cg
      | _, some (p, gF) => coarsen p gF g
      | _, none => fresh E G cc cg
    let mut stats := st.stats
    let mut arrays := 0; let mut values := 0
    for (name, impl, mdl) in [("sin_theta", get "sin", model.sin), ("cos_theta", get "cos", model.cos), ("coeff_alpha", get "alpha", model.alpha),
        ("coeff_beta", get "beta", model.beta), ("arr", get "arr", model.arr), ("att", get "att", model.att), ("art", get "art", model.art), ("detDF", get "det", model.det)] do
      arrays := arrays + 1; values := values + impl.size
      -- arrays that exist but are never filled (no cache of that kind requested) hold unspecified values in the C++: sizes only
      let filled := if name == "coeff_alpha" then cc ∧ !cg else if name == "coeff_beta" then cc
                    else if name == "sin_theta" ∨ name == "cos_theta" then true else cg
      let ok := if filled then sameBits impl mdl else impl.size == mdl.size
      stats ← check stats ok fun _ =>
        let q := ((List.range (max impl.size mdl.size)).find? fun q => (impl.getD q 0).toBits != (mdl.getD q 0).toBits).getD 0
        s!"{tag}: array {name} (size {impl.size}) differs from the model (size {mdl.size}) first at position {q}"
    -- what the operators obtain from this (sampled) cache is the direct evaluation at the node (runtime instance of the theorem)
    let mut okObtain := true
    let mut obtains := 0
    for i in [0:nr] do
      for j in [0:nt] do
        obtains := obtains + 1
        if tupBits (obtain E G model i j) != tupBits (direct E G i j) then okObtain := false
    stats ← check stats okObtain fun _ => s!"{tag}: model obtainValues differs from the direct evaluation at some node"
    return { st with stats := stats, prev := some (model, g), arrays := st.arrays + arrays, values := st.values + values, obtains := st.obtains + obtains }
  | "seed" :: _ => return st
  | ["end"] => return st
  | _ => IO.println s!"REJECT {(line.take 80).toString}"; return { st with stats := { st.stats with rejects := st.stats.rejects + 1 } }

def main : IO UInt32 := do
  let st ← forLines (← IO.getStdin) ({} : St) step
  let s := st.stats
  IO.println s!"SUMMARY kind=cache cases={s.cases} checks={s.checks} diffs={s.diffs} rejects={s.rejects} arrays_compared_bitwise={st.arrays} values={st.values} obtain_vs_direct_nodes={st.obtains}"
  for x in st.sample do IO.println s!"SAMPLE {x}"
  return (if s.diffs == 0 ∧ s.rejects == 0 then 0 else 1)

end CacheDrv
