import GMGModel.Sym
import Generated.InputFns
import Generated.TestCases
import Generated.SourceTerms
import GMGDriver.Util
/-! `gmgdriver inputfn`: the compiled input-function classes of every accepted non-Culham test case, sampled pointwise,
against (a) the `Expr` terms the translator produced from their source and (b) the source term DERIVED by the model,
`Sym.Lu` (C19). -/
namespace InputFnDrv
open Drv Sym Sym.Expr

structure Tup where
  key : Nat × Nat × Nat × Nat := (0, 0, 0, 0)
  env : Array Float := #[]
  u : Expr := Expr.zero
  al : Expr := Expr.zero
  be : Expr := Expr.zero
  fx : Expr := Expr.zero
  fy : Expr := Expr.zero
  jrr : Expr := Expr.zero
  jtr : Expr := Expr.zero
  jrt : Expr := Expr.zero
  jtt : Expr := Expr.zero
  ud : Expr := Expr.zero
  udi : Expr := Expr.zero
  lu : Expr := Expr.zero
  srcClass : String := ""
  r0 : String := ""                  -- the inner radius of the run (hex), for the interior boundary data
  srcExpr : Option Expr := none      -- the translated rhs_f of the class, when its body is inside the translator's grammar
  maxF : Float := 0.0
  maxDiff : Float := 0.0
  worstPt : String := ""

structure St where
  stats : Stats := {}
  t : Tup := {}
  active : Bool := false
  oracleFails : Nat := 0
  tuples : Nat := 0
  points : Nat := 0
  luNodes : Nat := 0
  srcPoints : Nat := 0               -- points at which a translated source term was compared with the compiled rhs_f
  sample : List String := []

def hexF (s : String) : Float := (Hex.parseFloat s).getD 0.0
def lookup (tbl : List ((Nat × Nat × Nat × Nat) × String)) (k : Nat × Nat × Nat × Nat) : String := ((tbl.find? (·.1 == k)).map (·.2)).getD ""
def fnOf (cls fn : String) : Expr := ((InputFns.Gen.table.find? (fun e => e.1 == cls ∧ e.2.1 == fn)).map (·.2.2)).getD Expr.zero
def geoClass (g : Nat) : String := if g == 0 then "CircularGeometry" else if g == 1 then "ShafranovGeometry" else "CzarnyGeometry"

def close (a b scale : Float) : Bool := (a - b).abs ≤ 1e-9 * (a.abs + b.abs + scale)

/-- judge the source term of the tuple that just ended -/
def closeTuple (st : St) : IO St := do
  if !st.active then return st
  let t := st.t
  let ok := t.maxDiff ≤ 1e-6 * t.maxF + 1e-300
  let stats ← check st.stats true fun _ => ""
  let mut st := { st with stats := stats }
  if !ok then
    -- the model side is a theorem (Lu is the PDE operator applied to the exact solution): a mismatch is a wrong shipped source term
    let f9 := (t.srcClass.splitOn "Poisson_CzarnyGeometry").length > 1
    if f9 then IO.println s!"ORACLE C19 F9 source term {t.srcClass} does not equal -div(alpha grad u) + beta u of its exact solution: max mismatch {t.maxDiff} at scale {t.maxF} ({t.worstPt})"
    else IO.println s!"ORACLE C19 source term {t.srcClass} (tuple {t.key}) does not equal -div(alpha grad u) + beta u of its exact solution: max mismatch {t.maxDiff} at scale {t.maxF} ({t.worstPt})"
    st := { st with oracleFails := st.oracleFails + 1 }
  return st

def step (st : St) (line : String) : IO St := do
  let toks := fields line
  match toks with
  | "TUP" :: p :: g :: a :: b :: rest =>
    let st ← closeTuple st
    let key := (toNat! p, toNat! g, toNat! a, toNat! b)
    let exCls := lookup TestCases.Gen.exactSolution key; let bdCls := lookup TestCases.Gen.boundary key; let coCls := lookup TestCases.Gen.coefficients key
    let gc := geoClass key.2.1
    let prob : Problem := ⟨fnOf exCls "exact_solution", fnOf coCls "alpha", fnOf coCls "beta", fnOf gc "Fx", fnOf gc "Fy"⟩
    let lu := Lu prob
    let env : Array Float := #[hexF ((kv rest "Rmax").getD ""), hexF ((kv rest "kappa").getD ""), hexF ((kv rest "delta").getD ""), hexF ((kv rest "alpha_jump").getD "")]
    IO.println s!"SIG tuple {key} source={lookup TestCases.Gen.sourceTerm key}"
    let sample := if st.sample.length < 3 then st.sample ++ [s!"TUP {key}: exact={exCls} coefficients={coCls} geometry={gc} source={lookup TestCases.Gen.sourceTerm key} |Lu|={lu.size} nodes"] else st.sample
    return { st with active := true, tuples := st.tuples + 1, luNodes := st.luNodes + lu.size, sample := sample,
                     stats := { st.stats with cases := st.stats.cases + 1 },
                     t := { key := key, env := env, u := prob.u, al := prob.alpha, be := prob.beta, fx := prob.Fx, fy := prob.Fy, jrr := fnOf gc "dFx_dr", jtr := fnOf gc "dFy_dr",
                            jrt := fnOf gc "dFx_dt", jtt := fnOf gc "dFy_dt", ud := fnOf bdCls "u_D", udi := fnOf bdCls "u_D_Interior", lu := lu,
                            srcClass := lookup TestCases.Gen.sourceTerm key, r0 := (kv rest "R0").getD "",
                            srcExpr := (SourceTerms.Gen.table.find? (·.1 == lookup TestCases.Gen.sourceTerm key)).map (·.2) } }
  | "PT" :: r :: th :: rest =>
    let t := st.t
    let rf := hexF r; let tf := hexF th
    let ev (e : Expr) : Float := Expr.eval (fun i => t.env.getD i 0.0) rf tf e
    let g (k : String) := hexF ((kv rest k).getD "")
    -- (a) the translated expressions against the compiled classes
    let pairs : List (String × Expr × Float) := [("exact_solution", t.u, g "u"), ("alpha", t.al, g "al"), ("beta", t.be, g "be"), ("Fx", t.fx, g "Fx"), ("Fy", t.fy, g "Fy"),
      ("dFx_dr", t.jrr, g "Jrr"), ("dFy_dr", t.jtr, g "Jtr"), ("dFx_dt", t.jrt, g "Jrt"), ("dFy_dt", t.jtt, g "Jtt"), ("u_D", t.ud, g "uD"), ("u_D_Interior", t.udi, g "uDI")]
    let mut stats := st.stats
    for (name, e, val) in pairs do
      stats ← check stats (close (ev e) val 1e-3) fun _ => s!"tuple {t.key}: translated expression of {name} evaluates to {ev e}, the compiled class returns {val} at r={rf} theta={tf}"
    let mut srcPts := st.srcPoints
    -- near r = 0 the source terms are sums of large cancelling terms (~1/r): the double evaluation of the translated tree and the
    -- compiled expression then differ by more than the relative allowance although both are the same formula; the translation is
    -- compared away from the origin
    match (if rf ≥ 1e-3 * t.env.getD 0 1.0 then t.srcExpr else none) with
    | some e =>
      srcPts := srcPts + 1
      stats ← check stats (close (ev e) (g "f") 1e-3) fun _ => s!"tuple {t.key}: translated expression of {t.srcClass}::rhs_f evaluates to {ev e}, the compiled class returns {g "f"} at r={rf} theta={tf}"
    | none => pure ()
    let mut st := { st with stats := stats, points := st.points + 1, srcPoints := srcPts }
    -- (b) implementation oracles: code Jacobian = derivative of the mapping; gyro profiles; boundary data = exact solution on the boundary
    let dchk : List (String × Float × Float) := [("dFx_dr", ev (D .r t.fx), g "Jrr"), ("dFy_dr", ev (D .r t.fy), g "Jtr"), ("dFx_dt", ev (D .th t.fx), g "Jrt"), ("dFy_dt", ev (D .th t.fy), g "Jtt")]
    for (name, m, val) in dchk do
      if !(close m val 1e-6) then
        IO.println s!"ORACLE C19 {geoClass t.key.2.1}::{name} is not the partial derivative of the mapping: derivative {m}, code {val} at r={rf} theta={tf}"
        st := { st with oracleFails := st.oracleFails + 1 }
    if ((lookup TestCases.Gen.coefficients t.key).splitOn "Gyro").length > 1 ∧ !(close (g "al" * g "be") 1.0 0.0) then
      IO.println s!"ORACLE C19 gyro profile of tuple {t.key}: alpha*beta = {g "al" * g "be"} ≠ 1 at r={rf}"
      st := { st with oracleFails := st.oracleFails + 1 }
    if rf == t.env.getD 0 0.0 ∧ !(close (g "uD") (g "u") 1e-9) then
      IO.println s!"ORACLE C19 boundary data of tuple {t.key} differ from the exact solution on the outer boundary: {g "uD"} vs {g "u"} at theta={tf}"
      st := { st with oracleFails := st.oracleFails + 1 }
    if rf == hexF ((t.r0)) ∧ !(close (g "uDI") (g "u") 1e-9) then
      IO.println s!"ORACLE C19 interior Dirichlet data (u_D_Interior) of tuple {t.key} differ from the exact solution on the inner boundary r = R0: {g "uDI"} vs {g "u"} at r={rf} theta={tf}"
      st := { st with oracleFails := st.oracleFails + 1 }
    -- (c) the shipped source term against the derived one
    let f := g "f"; let m := ev t.lu
    let d := (f - m).abs
    let t' := { t with maxF := max t.maxF f.abs, maxDiff := if d > t.maxDiff then d else t.maxDiff, worstPt := if d > t.maxDiff then s!"r={rf} theta={tf} shipped={f} derived={m}" else t.worstPt }
    return { st with t := t' }
  | "FD" :: p :: g :: a :: b :: rest =>
    -- translator-independent oracle: nested 4th-order differences of the COMPILED functions against the compiled source term
    let st ← closeTuple st
    let key := (toNat! p, toNat! g, toNat! a, toNat! b)
    let worst := hexF ((kv rest "worst").getD ""); let scale := hexF ((kv rest "scale").getD "")
    let cls := lookup TestCases.Gen.sourceTerm key
    let stats ← check st.stats true fun _ => ""
    let mut st := { st with stats := { stats with cases := stats.cases + 1 } }
    if !(worst ≤ 1e-4 * (scale + 1e-3)) then
      let f9 := (cls.splitOn "Poisson_CzarnyGeometry").length > 1
      let whereAt := s!"max mismatch {worst} at scale {scale} (r={hexF ((kv rest "at_r").getD "")} theta={hexF ((kv rest "at_theta").getD "")} shipped={hexF ((kv rest "shipped").getD "")} finite differences of the compiled exact solution / coefficients / Jacobian={hexF ((kv rest "finite_difference").getD "")}; Rmax={hexF ((kv rest "Rmax").getD "")} kappa/eps={hexF ((kv rest "kappa").getD "")} delta/e={hexF ((kv rest "delta").getD "")})"
      if f9 then IO.println s!"ORACLE C19 F9 source term {cls} does not equal -div(alpha grad u) + beta u of its exact solution: {whereAt}"
      else IO.println s!"ORACLE C19 source term {cls} (tuple {key}) does not equal -div(alpha grad u) + beta u of the selected exact solution, coefficients and geometry: {whereAt}"
      st := { st with oracleFails := st.oracleFails + 1 }
    return st
  | "HIST" :: rest =>
    -- the input functions are functions of (own parameters, point): several objects of one class alive at once, evaluated alone,
    -- interleaved at the same points and alone again, must return bit-identical values
    let st ← closeTuple st
    let stats ← check st.stats true fun _ => ""
    let mut st := { st with stats := { stats with cases := stats.cases + 1 } }
    IO.println s!"SIG hist problem={(kv rest "problem").getD ""} geometry={(kv rest "geometry").getD ""} alpha={(kv rest "alpha").getD ""} beta={(kv rest "beta").getD ""}"
    if (kv rest "differing") != some "0" then
      IO.println s!"ORACLE C19 an input function returns different values for the same object and point depending on what was evaluated before (objects of one class with parameters {(kv rest "objects").getD ""} alive together; {(kv rest "differing").getD "?"} of {(kv rest "values").getD "?"} values differ; first: {(kv rest "first").getD ""}): problem={(kv rest "problem").getD ""} geometry={(kv rest "geometry").getD ""} alpha={(kv rest "alpha").getD ""} beta={(kv rest "beta").getD ""}"
      st := { st with oracleFails := st.oracleFails + 1 }
    return st
  | "NOTUP" :: _ => return st
  | "CULHAM" :: rest =>
    -- Culham: only the consistency of the mapping with its Jacobian is required; theta part exact, r part through the radial tables
    let wt := hexF ((kv rest "worst_theta").getD ""); let wr := hexF ((kv rest "worst_r").getD "")
    let stats ← check st.stats true fun _ => ""
    let mut st := { st with stats := { stats with cases := stats.cases + 1 } }
    if !(wt ≤ 1e-6) then
      IO.println s!"ORACLE C19 CulhamGeometry: dFx_dt / dFy_dt are not the theta-derivatives of Fx / Fy (central differences differ by {wt})"
      st := { st with oracleFails := st.oracleFails + 1 }
    if !(wr ≤ 5e-3) then
      IO.println s!"ORACLE C19 CulhamGeometry: dFx_dr / dFy_dr differ from central differences of Fx / Fy by {wr}"
      st := { st with oracleFails := st.oracleFails + 1 }
    return st
  | "seed" :: _ => return st
  | ["end"] => closeTuple st
  | [] => return st
  | _ => IO.println s!"REJECT {(line.take 100).toString}"; return { st with stats := { st.stats with rejects := st.stats.rejects + 1 } }

def main : IO UInt32 := do
  let st ← forLines (← IO.getStdin) ({} : St) step
  let s := st.stats
  IO.println s!"SUMMARY kind=inputfn cases={s.cases} checks={s.checks} diffs={s.diffs} rejects={s.rejects} tuples={st.tuples} points={st.points} derived_source_term_nodes={st.luNodes} translated_source_term_points={st.srcPoints} oracle_fails={st.oracleFails}"
  for x in st.sample do IO.println s!"SAMPLE {x}"
  return (if s.diffs == 0 ∧ s.rejects == 0 ∧ st.oracleFails == 0 then 0 else 1)
end InputFnDrv
