import GMGModel.Interp
import GMGDriver.Util
/-! `gmgdriver transfer`: all ten transfer entry points against `Interp.*` in exact rationals (C08, C09 interpolation),
with the implementation oracles: ⟨Px,y⟩ = ⟨x,Ry⟩ for both pairs, copy at coarse nodes, convexity, optimised = reference,
linear reproduction (known finding F5 on non-midpoint nodes). -/
namespace TransferDrv
open Drv Interp

structure St where
  stats : Stats := {}
  p : Pair Rat := ⟨0, 0, fun _ => 0, fun _ => 0, fun _ => 0, fun _ => 0⟩
  pA : Pair AbsQ := ⟨0, 0, fun _ => ⟨0⟩, fun _ => ⟨0⟩, fun _ => ⟨0⟩, fun _ => ⟨0⟩⟩
  radiiF : Array Rat := #[]
  anglesF : Array Rat := #[]
  outs : List (String × String × Array Rat × Array Rat) := []   -- (op, threads, input, output) of the current pair
  oracleFails : Nat := 0
  known : Nat := 0
  worst : Rat := 0
  midpointPairs : Nat := 0
  nonMidpointPairs : Nat := 0
  sample : List String := []

def tol : Rat := Hex.twoPowNeg 40
def fld (nt : Nat) (a : Array Rat) : Field Rat := fun i j => a.getD (i * nt + j) 0
def fldA (nt : Nat) (a : Array Rat) : Field AbsQ := fun i j => absq (a.getD (i * nt + j) 0)

def dot (a b : Array Rat) : Rat := (List.range a.size).foldl (fun s i => s + a.getD i 0 * b.getD i 0) 0
def dotAbs (a b : Array Rat) : Rat := (List.range a.size).foldl (fun s i => s + Hex.rabs (a.getD i 0 * b.getD i 0)) 0

/-- adjointness oracle on the implementation's own outputs -/
def adjointOracle (st : St) (pname rname thr : String) : IO St := do
  match st.outs.find? (fun e => e.1 == pname ∧ e.2.1 == thr), st.outs.find? (fun e => e.1 == rname ∧ e.2.1 == thr) with
  | some (_, _, x, px), some (_, _, y, ry) =>
    let l := dot px y; let r := dot x ry
    let scale := dotAbs px y + dotAbs x ry
    if Hex.rabs (l - r) > tol * scale then
      IO.println s!"ORACLE C08 <{pname} x, y> != <x, {rname} y> threads={thr} nrF={st.p.nrF} ntF={st.p.ntF}"
      return { st with oracleFails := st.oracleFails + 1 }
    return st
  | _, _ => return st

def step (st : St) (line : String) : IO St := do
  let toks := fields line
  match toks with
  | "PAIR" :: rest =>
    let nrF := toNat! ((kv rest "nrF").getD ""); let ntF := toNat! ((kv rest "ntF").getD "")
    let rF := parseFloatsA ((kv rest "radiiF").getD ""); let aF := parseFloatsA ((kv rest "anglesF").getD "")
    let rC := parseFloatsA ((kv rest "radiiC").getD ""); let aC := parseFloatsA ((kv rest "anglesC").getD "")
    let hF := (Array.range (rF.size - 1)).map fun i => floatToRat (rF[i+1]! - rF[i]!)
    let kF := (Array.range (aF.size - 1)).map fun i => floatToRat (aF[i+1]! - aF[i]!)
    let hC := (Array.range (rC.size - 1)).map fun i => floatToRat (rC[i+1]! - rC[i]!)
    let kC := (Array.range (aC.size - 1)).map fun i => floatToRat (aC[i+1]! - aC[i]!)
    let p : Pair Rat := ⟨nrF, ntF, fun i => hF.getD i 0, fun j => kF.getD j 0, fun i => hC.getD i 0, fun j => kC.getD j 0⟩
    let pA : Pair AbsQ := ⟨nrF, ntF, fun i => absq (hF.getD i 0), fun j => absq (kF.getD j 0), fun i => absq (hC.getD i 0), fun j => absq (kC.getD j 0)⟩
    let mid := (List.range (nrF / 2)).all fun I => Hex.rabs (hF.getD (2*I) 0 - hF.getD (2*I+1) 0) ≤ tol * (hF.getD (2*I) 0 + hF.getD (2*I+1) 0)
    IO.println s!"SIG transfer nrF={nrF} ntF={ntF} ncF={(kv rest "ncF").getD ""} ncC={(kv rest "ncC").getD ""} midpoint={mid}"
    let sample := if st.sample.length < 3 then st.sample ++ [s!"PAIR nrF={nrF} ntF={ntF} ncF={(kv rest "ncF").getD ""} ncC={(kv rest "ncC").getD ""} midpoint_radii={mid}"] else st.sample
    return { st with p := p, pA := pA, radiiF := rF.map floatToRat, anglesF := aF.map floatToRat, outs := [], sample := sample,
                     stats := { st.stats with cases := st.stats.cases + 1 },
                     midpointPairs := st.midpointPairs + (if mid then 1 else 0), nonMidpointPairs := st.nonMidpointPairs + (if mid then 0 else 1) }
  | "TRBIG" :: rest =>
    let op := (kv rest "op").getD ""; let thr := (kv rest "threads").getD ""
    let hexF := fun (k : String) => (Hex.parseFloat ((kv rest k).getD "")).getD 0.0
    let dref := hexF "maxdiff_vs_reference"; let d1 := hexF "maxdiff_vs_1thread"; let scale := hexF "scale"
    let tag := s!"op={op} threads={thr} nrF={(kv rest "nrF").getD ""} ntF={(kv rest "ntF").getD ""} ncF={(kv rest "ncF").getD ""} (fine grid above the 10 000-node parallelisation threshold, non-uniform radii and angles)"
    let mut st := st
    -- same weights, at most a different association of three or four products: 2^-40 relative is generous
    if !(dref ≤ 1e-12 * (scale + 1e-300)) then
      IO.println s!"ORACLE C08 optimised transfer differs from its reference implementation on the same input by {dref} (scale {scale}): {tag}"
      st := { st with oracleFails := st.oracleFails + 1 }
    if !(d1 ≤ 1e-12 * (scale + 1e-300)) then
      IO.println s!"ORACLE C12 transfer result depends on the thread count beyond re-association ({d1} vs 1 thread, scale {scale}): {tag}"
      st := { st with oracleFails := st.oracleFails + 1 }
    let stats ← check st.stats true fun _ => ""
    return { st with stats := stats }
  | "TR" :: rest =>
    let op := (kv rest "op").getD ""; let thr := (kv rest "threads").getD ""
    let kind := (kv rest "kind").getD ""
    let x := parseRatsA ((kv rest "x").getD ""); let out := parseRatsA ((kv rest "out").getD "")
    let p := st.p; let pA := st.pA
    let nrC := nrC p; let ntC := ntC p
    let base := if op.endsWith "0" then (op.dropEnd 1).toString else op
    let up := base == "prolong" ∨ base == "exprolong" ∨ base == "fmg"
    let (rows, cols) := if up then (p.nrF, p.ntF) else (nrC, ntC)
    let xin := if up then fld ntC x else fld p.ntF x
    let xinA := if up then fldA ntC x else fldA p.ntF x
    let model : Field Rat := match base with
      | "prolong" => prolong p xin | "exprolong" => exProlong p xin | "fmg" => fmgInterp p xin
      | "restrict" => restrict p xin | "exrestrict" => exRestrict p xin | _ => inject xin
    let mag : Field AbsQ := match base with
      | "prolong" => prolong pA xinA | "exprolong" => exProlong pA xinA | "fmg" => fmgInterp pA xinA
      | "restrict" => restrict pA xinA | "exrestrict" => exRestrict pA xinA | _ => inject xinA
    let mut bad : Option (Nat × Nat) := none
    let mut worst := st.worst
    for i in [0:rows] do
      for j in [0:cols] do
        let d := Hex.rabs (out.getD (i * cols + j) 0 - model i j); let s := (mag i j).v
        if s > 0 ∧ d / s > worst then worst := d / s
        if d > tol * s ∧ bad.isNone then bad := some (i, j)
    let stats ← check st.stats (bad.isNone ∧ out.size == rows * cols) fun _ =>
      let q := bad.getD (0, 0); s!"transfer {op} threads={thr} nrF={p.nrF} ntF={p.ntF}: node ({q.1},{q.2}) differs from the model beyond 2^-40·S"
    let mut st := { st with stats := stats, worst := worst }
    -- implementation-only oracles
    if kind == "cubic_r" then
      -- C09 (theorem C09.fmg_cubic_r on the model): the FMG interpolation of samples of a cubic in r is the cubic, at every fine
      -- node whose radial rule is the four-point one (odd rows 3 … nrF-4) and on the coarse rows; the harness evaluates
      -- p(r) = 1 + r - 2 r² + 3 r³ in double (Horner), so the comparison is against the exact p with a rounding allowance
      let cubic (r : Rat) : Rat := 1 + r * (1 + r * (-2 + 3 * r))
      for i in [0:p.nrF] do
        if i % 2 == 0 ∨ (3 ≤ i ∧ i + 4 ≤ p.nrF) then
          for j in [0:p.ntF] do
            let expect := cubic (st.radiiF.getD i 0)
            let v := out.getD (i * p.ntF + j) 0
            if Hex.rabs (v - expect) > Hex.twoPowNeg 30 * (Hex.rabs expect + 1) ∧ st.oracleFails < 5 then
              IO.println s!"ORACLE C09 FMG interpolation does not reproduce a cubic in r at fine node ({i},{j}) (four-point radial rule): value {v} expected {expect} nrF={p.nrF} ntF={p.ntF} radiiF={st.radiiF.toList.take 12}"
              st := { st with oracleFails := st.oracleFails + 1 }
      return st
    if kind == "cubic_t" then
      -- C09 (theorem C09.fmg_cubic_theta on the model): on the coarse rows (even i) the FMG interpolation of samples of a cubic in theta
      -- is the cubic at every coarse column and at every odd column whose four coarse neighbours j-3, j-1, j+1, j+3 do not wrap
      let cubic (t : Rat) : Rat := 1 + t * (1 + t * (-2 + 3 * t))
      for i in [0:p.nrF] do
        if i % 2 == 0 then
          for j in [0:p.ntF] do
            if j % 2 == 0 ∨ (3 ≤ j ∧ j + 4 ≤ p.ntF) then
              let expect := cubic (st.anglesF.getD j 0)
              let v := out.getD (i * p.ntF + j) 0
              if Hex.rabs (v - expect) > Hex.twoPowNeg 30 * (Hex.rabs expect + 1) ∧ st.oracleFails < 5 then
                IO.println s!"ORACLE C09 FMG interpolation does not reproduce a cubic in theta at fine node ({i},{j}) (four-point angular rule, no wrap): value {v} expected {expect} nrF={p.nrF} ntF={p.ntF} anglesF={st.anglesF.toList.take 12}"
                st := { st with oracleFails := st.oracleFails + 1 }
      return st
    if kind == "linear_r" ∨ kind == "linear_t" then
      for i in [0:p.nrF] do
        for j in [0:p.ntF] do
          let expect := if kind == "linear_r" then st.radiiF.getD i 0 else st.anglesF.getD j 0
          let seam := kind == "linear_t" ∧ j + 1 == p.ntF
          let v := out.getD (i * p.ntF + j) 0
          if !seam ∧ Hex.rabs (v - expect) > Hex.twoPowNeg 36 * (Hex.rabs expect + 1) then
            let h1 := p.hF (i - 1); let h2 := p.hF i
            let nonMid := if kind == "linear_r" then (i % 2 == 1 ∧ Hex.rabs (h1 - h2) > tol * (h1 + h2))
                          else (j % 2 == 1 ∧ Hex.rabs (p.kF (j-1) - p.kF j) > tol * (p.kF (j-1) + p.kF j))
            if nonMid then
              if st.known == 0 then
                IO.println s!"ORACLE C08 F5 prolongation does not reproduce a function linear in {if kind == "linear_r" then "r" else "theta"} at a fine node that is not the midpoint of its coarse neighbours (fine node ({i},{j}), nrF={p.nrF} ntF={p.ntF})"
              st := { st with known := st.known + 1 }
            else
              IO.println s!"ORACLE C08 prolongation does not reproduce {kind} at fine node ({i},{j}) although it is a midpoint/coarse node: value differs nrF={p.nrF} ntF={p.ntF}"
              st := { st with oracleFails := st.oracleFails + 1 }
      return st
    if base == "prolong" ∨ base == "exprolong" ∨ base == "fmg" then
      -- coarse values are copied bit for bit; prolongation is convex (not FMG: negative weights)
      let mn := x.foldl min (x.getD 0 0); let mx := x.foldl max (x.getD 0 0)
      let mut okCopy := true; let mut okConvex := true
      for i in [0:p.nrF] do
        for j in [0:p.ntF] do
          let v := out.getD (i * p.ntF + j) 0
          if i % 2 == 0 ∧ j % 2 == 0 ∧ v != x.getD ((i/2) * ntC + j/2) 0 then okCopy := false
          if base != "fmg" ∧ (v < mn - tol * Hex.rabs mn ∨ v > mx + tol * Hex.rabs mx) then okConvex := false
      if !okCopy then
        IO.println s!"ORACLE C08 {op} does not copy the coarse value at a coarse node nrF={p.nrF} ntF={p.ntF} threads={thr}"
        st := { st with oracleFails := st.oracleFails + 1 }
      if !okConvex then
        IO.println s!"ORACLE C08 {op} creates a new extremum nrF={p.nrF} ntF={p.ntF} threads={thr}"
        st := { st with oracleFails := st.oracleFails + 1 }
    st := { st with outs := st.outs ++ [(op, thr, x, out)] }
    -- optimised = reference
    if op.endsWith "0" then
      match st.outs.find? (fun e => e.1 == base ∧ e.2.1 == thr) with
      | some (_, _, _, o2) =>
        let okr := (List.range out.size).all fun q => Hex.rabs (out.getD q 0 - o2.getD q 0) ≤ 2 * tol * (mag (q / cols) (q % cols)).v
        if !okr then
          IO.println s!"ORACLE C08 optimised {base} differs from the reference {op} nrF={p.nrF} ntF={p.ntF} threads={thr}"
          st := { st with oracleFails := st.oracleFails + 1 }
      | none => pure ()
    if op == "restrict" then st ← adjointOracle st "prolong" "restrict" thr
    if op == "restrict0" then st ← adjointOracle st "prolong0" "restrict0" thr
    if op == "exrestrict" then st ← adjointOracle st "exprolong" "exrestrict" thr
    if op == "exrestrict0" then st ← adjointOracle st "exprolong0" "exrestrict0" thr
    return st
  | "seed" :: _ => return st
  | ["end"] => return st
  | _ => IO.println s!"REJECT {(line.take 80).toString}"; return { st with stats := { st.stats with rejects := st.stats.rejects + 1 } }

def main : IO UInt32 := do
  let st ← forLines (← IO.getStdin) ({} : St) step
  let s := st.stats
  IO.println s!"SUMMARY kind=transfer cases={s.cases} checks={s.checks} diffs={s.diffs} rejects={s.rejects} oracle_fails={st.oracleFails} known_F5_nodes={st.known} midpoint_pairs={st.midpointPairs} non_midpoint_pairs={st.nonMidpointPairs}"
  for x in st.sample do IO.println s!"SAMPLE {x}"
  return (if s.diffs == 0 ∧ s.rejects == 0 ∧ st.oracleFails == 0 then 0 else 1)

end TransferDrv
