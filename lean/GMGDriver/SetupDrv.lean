import GMGModel.Setup
import GMGDriver.TraceDrv
/-! `gmgdriver setup`: what the real `setup()` provided (levels, threads per level, operator objects per level, built
right-hand sides, smoother switch) against the decision table of `GMGModel/Setup.lean`, and the trace of the following real
`solve()` against `Setup.instrOK`: the real solve touches only what the real setup provided (run-time instance of C20s). -/
namespace SetupDrv
open Drv MGCycle Setup TraceDrv

structure St where
  stats : Stats := {}
  oracleFails : Nat := 0
  instrs : Nat := 0
  sample : List String := []

def parseRef (s : String) : Option Ref :=
  match s.splitOn "." with
  | [l, b] =>
    let buf := if b == "sol" then some Buf.sol else if b == "rhs" then some Buf.rhs else if b == "res" then some Buf.res else if b == "err" then some Buf.err else none
    match l.toNat?, buf with
    | some n, some bb => some (n, bb)
    | _, _ => none
  | _ => none

/-- one logged instruction; `none` for the norm / stop-test events (no vector operation) and for anything unparsable -/
def parseInstr (t : String) : Option (Option Instr) :=
  match (t.splitOn " ").filter (· ≠ "") with
  | ["smooth", l, a, b, c] => do let x ← parseRef a; let r ← parseRef b; let tm ← parseRef c; some (some (.smooth l.toNat! x r tm))
  | ["exSmooth", l, a, b, c] => do let x ← parseRef a; let r ← parseRef b; let tm ← parseRef c; some (some (.exSmooth l.toNat! x r tm))
  | ["residual", l, a, b, c] => do let o ← parseRef a; let r ← parseRef b; let x ← parseRef c; some (some (.residual l.toNat! o r x))
  | ["restrict", l, a, b] => do let o ← parseRef a; let i ← parseRef b; some (some (.restrict l.toNat! o i))
  | ["exRestrict", l, a, b] => do let o ← parseRef a; let i ← parseRef b; some (some (.exRestrict l.toNat! o i))
  | ["inject", l, a, b] => do let o ← parseRef a; let i ← parseRef b; some (some (.inject l.toNat! o i))
  | ["prolong", l, a, b] => do let o ← parseRef a; let i ← parseRef b; some (some (.prolong l.toNat! o i))
  | ["exProlong", l, a, b] => do let o ← parseRef a; let i ← parseRef b; some (some (.exProlong l.toNat! o i))
  | ["fmgInterp", l, a, b] => do let o ← parseRef a; let i ← parseRef b; some (some (.fmgInterp l.toNat! o i))
  | ["exResidual", l, a, b] => do let o ← parseRef a; let i ← parseRef b; some (some (.exResidual l.toNat! o i))
  | ["directSolve", l, a] => do let x ← parseRef a; some (some (.directSolve l.toNat! x))
  | ["zero", a] => do let x ← parseRef a; some (some (.zero x))
  | ["add", a, b] => do let x ← parseRef a; let y ← parseRef b; some (some (.add x y))
  | ["lin43", a, b] => do let x ← parseRef a; let y ← parseRef b; some (some (.lin43 x y))
  | ["copy", a, b] => do let x ← parseRef a; let y ← parseRef b; some (some (.copy x y))
  | "norm" :: _ => some none
  | "stoptest" :: _ => some none
  | _ => none

def step (st : St) (line : String) : IO St := do
  let toks := fields line
  match toks with
  | "SETUP" :: rest =>
    let L := toNat! ((kv rest "levels").getD ""); let mode := toNat! ((kv rest "extrap").getD ""); let fmg := (kv rest "fmg") == some "1"
    let T := toNat! ((kv rest "maxThreads").getD ""); let fac := hexF ((kv rest "factor").getD "")
    let scaled := fun (d : Nat) => (Float.floor (T.toFloat * Float.pow fac d.toFloat)).toUInt64.toNat
    let c : Setup.Cfg := ⟨L, mode, fmg, T, scaled⟩
    let tag := s!"setup() levels={L} extrapolation={mode} FMG={fmg} maxThreads={T} nr={(kv rest "nr").getD ""} nt={(kv rest "nt").getD ""}"
    IO.println s!"SIG setup L={L} extrap={mode} fmg={fmg} T={T} factor={(kv rest "factor").getD ""}"
    let mut stats := { st.stats with cases := st.stats.cases + 1 }
    let thr := ((kv rest "threads").getD "").splitOn ","; let ops := ((kv rest "ops").getD "").splitOn ","; let built := ((kv rest "built").getD "").splitOn ","
    stats ← check stats (thr.length == L ∧ ops.length == L ∧ built.length == L) fun _ => s!"{tag}: record has {thr.length}/{ops.length}/{built.length} levels"
    for d in [0:L] do
      stats ← check stats (toNat! (thr.getD d "") == threadsAt c d) fun _ => s!"{tag}: threads_per_level_[{d}] = {thr.getD d ""}, model {threadsAt c d}"
      let o := opsAt c d
      let b (x : Bool) := if x then "1" else "0"
      let want := b o.smoother ++ b o.exSmoother ++ b o.direct ++ b o.residual
      stats ← check stats (ops.getD d "" == want) fun _ => s!"{tag}: operator objects (smoother, extrapolated smoother, direct solver, residual) on level {d}: implementation {ops.getD d ""}, model {want}"
      stats ← check stats ((built.getD d "" == "1") == decide (d < rhsLevels c)) fun _ => s!"{tag}: right-hand side of level {d} built={built.getD d ""}, model builds {rhsLevels c} level(s)"
    stats ← check stats (((kv rest "fgs") == some "1") == fgsAfterSetup mode) fun _ => s!"{tag}: full_grid_smoothing_ after setup is {(kv rest "fgs").getD ""}, model {fgsAfterSetup mode}"
    -- the real solve touches only what the real setup provided
    let impl := splitTrace (afterKey line "trace").trimAscii.toString
    let mut st := st
    let mut n := 0
    for t in impl do
      match parseInstr t with
      | none => stats ← check stats false fun _ => s!"{tag}: unparsable trace entry `{t}`"
      | some none => pure ()
      | some (some i) =>
        n := n + 1
        if !instrOK c i then
          IO.println s!"ORACLE C20 solve() executed `{t}`, which touches an operator object, a level or a level right-hand side that setup() did not provide (or writes a right-hand side): {tag} opts=[{(afterKey line "opts=[").takeWhile (· != ']')}]"
          st := { st with oracleFails := st.oracleFails + 1 }
    let sample := if st.sample.length < 3 then st.sample ++ [tag] else st.sample
    return { st with stats := stats, instrs := st.instrs + n, sample := sample }
  | "seed" :: _ => return st
  | ["end"] => return st
  | "Switching" :: _ => return st     -- unconditional message of the library when COMBINED switches the smoother
  | [] => return st
  | _ => IO.println s!"REJECT {(line.take 80).toString}"; return { st with stats := { st.stats with rejects := st.stats.rejects + 1 } }

def main : IO UInt32 := do
  let st ← forLines (← IO.getStdin) ({} : St) step
  let s := st.stats
  IO.println s!"SUMMARY kind=setup cases={s.cases} checks={s.checks} diffs={s.diffs} rejects={s.rejects} traced_instructions_checked={st.instrs} oracle_fails={st.oracleFails}"
  for x in st.sample do IO.println s!"SAMPLE {x}"
  return (if s.diffs == 0 ∧ s.rejects == 0 ∧ st.oracleFails == 0 then 0 else 1)

end SetupDrv
