import GMGDriver.GridDrv

def main (args : List String) : IO UInt32 := do
  match args with
  | ["grid"] => GridDrv.main
  | _ => do
    IO.eprintln "usage: gmgdriver <grid|...>  (reads the harness line protocol on stdin)"
    return 2
