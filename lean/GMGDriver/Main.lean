import GMGDriver.GridDrv
import GMGDriver.LinalgDrv
import GMGDriver.ObjectsDrv
import GMGDriver.OpsDrv
import GMGDriver.OpsDrv2
import GMGDriver.TransferDrv
import GMGDriver.TraceDrv
import GMGDriver.GridGenDrv
import GMGDriver.SchedDrv
import GMGDriver.ParDrv
import GMGDriver.OptionsDrv
import GMGDriver.InputFnDrv
import GMGDriver.FootDrv
import GMGDriver.OwnerDrv
import GMGDriver.SmCodeDrv
import GMGDriver.CacheDrv
import GMGDriver.SetupDrv
import GMGDriver.ExSmCodeDrv
import GMGDriver.ConcreteDrv

def main (args : List String) : IO UInt32 := do
  match args with
  | ["grid"] => GridDrv.main
  | ["tridiag"] => LinalgDrv.tridiagMain
  | ["lu"] => LinalgDrv.luMain
  | ["objects"] => ObjectsDrv.main
  | ["residual"] => OpsDrv.residualMain
  | ["smooth"] => OpsDrv.smoothMain
  | ["direct"] => OpsDrv.directMain
  | ["matrix"] => OpsDrv.matrixMain
  | ["rhs"] => OpsDrv.rhsMain
  | ["transfer"] => TransferDrv.main
  | ["trace"] => TraceDrv.main
  | ["gridgen"] => GridGenDrv.main
  | ["par"] => ParDrv.main
  | ["options"] => OptionsDrv.main
  | ["inputfn"] => InputFnDrv.main
  | ["foot"] => FootDrv.main
  | ["smcode"] => SmCodeDrv.main
  | ["cache"] => CacheDrv.main
  | ["setup"] => SetupDrv.main
  | ["exsmcode"] => ExSmCodeDrv.main
  | ["concrete"] => ConcreteDrv.main
  | ["owner", a, b] => OwnerDrv.main a.toNat! b.toNat!
  | ["sched", a, b] => SchedDrv.main a.toNat! b.toNat!
  | _ => do
    IO.eprintln "usage: gmgdriver <grid|tridiag|lu|...>  (reads the harness line protocol on stdin)"
    return 2
