import GMGModel.SmootherCode
import GMGDriver.OpsDrv
/-! `gmgdriver smcode`: the code-level smoother model (`GMGModel/SmootherCode.lean`) against what the real SmootherGive /
SmootherTake objects store and compute: every stored entry of every line matrix, `temp = rhs - A_sc^ortho x` line by line,
and the iterate after one sweep (model sweep executed in exact rationals and in IEEE double). -/
namespace SmCodeDrv
open Drv Stencil SmootherCode OpsDrv

structure St where
  stats : Stats := {}
  lvl : Lvl := {}
  oracleFails : Nat := 0
  runs : Nat := 0
  entries : Nat := 0          -- stored matrix entries compared
  entriesBitEq : Nat := 0     -- … of which bit-identical to the model evaluated in double
  takeEntries : Nat := 0
  takeEntriesBitEq : Nat := 0
  temps : Nat := 0
  tempsBitEq : Nat := 0
  outs : Nat := 0             -- take / 1 thread sweeps compared with the double model
  outsBitEq : Nat := 0        -- … of which bit-identical at every node of a tridiagonal line
  worstOut : Rat := 0         -- max |impl - exact model sweep| / max|out|
  worstEntry : Rat := 0
  sample : List String := []

def tol40 : Rat := Hex.twoPowNeg 40
def tol20 : Rat := Hex.twoPowNeg 20

def closeTo (impl exact s : Rat) : Bool := if s == 0 then impl == exact else Hex.rabs (impl - exact) ≤ tol40 * s

/-- "main/sub/corner" -/
def parseTri (s : String) : Array Float × Array Float × Option Float :=
  match s.splitOn "/" with
  | [m, b, c] => (parseFloatsA m, parseFloatsA b, if c == "-" then none else Hex.parseFloat c)
  | _ => (#[], #[], none)

def fieldF (nt : Nat) (a : Array Float) : Field Float := fun i j => a.getD (i * nt + j) 0

def tinyF (d : Float) : Bool := Float.abs d < 1e-12
def tinyQ (d : Rat) : Bool := Hex.rabs d < mkRat 1 1000000000000

def step (st : St) (line : String) : IO St := do
  let toks := fields line
  match toks with
  | "LV" :: rest =>
    let l := parseLevel rest
    IO.println s!"SIG smcode nr={l.nr} nt={l.nt} nc={l.nc} bc={l.bc} geo={l.geo} coef={l.coef}"
    let sample := if st.sample.length < 3 then st.sample ++ [s!"LV nr={l.nr} nt={l.nt} nc={l.nc} bc={l.bc} geo={l.geo} coef={l.coef}"] else st.sample
    return { st with lvl := l, stats := { st.stats with cases := st.stats.cases + 1 }, sample := sample }
  | "SC" :: rest =>
    let l := st.lvl; let o := l.op; let oa := l.opAbs; let oF := l.opF
    let nt := l.nt; let nr := l.nr; let nc := l.nc
    let strat := (kv rest "strat").getD ""; let threads := (kv rest "threads").getD ""
    let tag := s!"smoother {strat} threads={threads} nr={nr} nt={nt} nc={nc} bc={l.bc} geo={l.geo} coef={l.coef}"
    let mut st := st
    let mut stats := st.stats
    let mut firstBad := ""
    let mut nbad := 0
    let mut entries := 0; let mut bitEq := 0
    let mut worstEntry := st.worstEntry
    -- one stored entry: implementation (double), exact model value, magnitude, double model value
    let cmp := fun (what : String) (impl : Float) (exact s : Rat) (mf : Float) (acc : String × Nat × Nat × Nat × Rat) =>
      let (fb, nb, en, be, we) := acc
      let ok := closeTo (floatToRat impl) exact s
      let we' := if s > 0 ∧ Hex.rabs (floatToRat impl - exact) / s > we then Hex.rabs (floatToRat impl - exact) / s else we
      (if ok ∨ !fb.isEmpty then fb else what, if ok then nb else nb + 1, en + 1, if impl.toBits == mf.toBits then be + 1 else be, we')
    let mut acc : String × Nat × Nat × Nat × Rat := ("", 0, 0, 0, worstEntry)
    -- circle matrices 1 … nc-1
    let cms := ((kv rest "cm").getD "").splitOn ";"
    if nc ≥ 2 ∧ cms.length != nc - 1 then
      stats ← check stats false fun _ => s!"{tag}: {cms.length} circle matrices dumped, model has {nc - 1}"
    for i in [1:nc] do
      let (m, b, c) := parseTri (cms.getD (i - 1) "")
      let mm := circleMain o i; let ma := circleMain oa i; let mF := circleMain oF i
      let sm := circleSub o i; let sa := circleSub oa i; let sF := circleSub oF i
      if m.size != mm.length ∨ b.size != sm.length then
        stats ← check stats false fun _ => s!"{tag}: circle {i} matrix has dimension {m.size}/{b.size}, model {mm.length}/{sm.length}"
      for j in [0:m.size] do
        acc := cmp s!"circle {i} main[{j}]" m[j]! (mm.getD j 0) (ma.getD j ⟨0⟩).v (mF.getD j 0) acc
      for j in [0:b.size] do
        acc := cmp s!"circle {i} sub[{j}]" b[j]! (sm.getD j 0) (sa.getD j ⟨0⟩).v (sF.getD j 0) acc
      match c with
      | some cv => acc := cmp s!"circle {i} corner" cv (circleCorner o i) (circleCorner oa i).v (circleCorner oF i) acc
      | none => stats ← check stats false fun _ => s!"{tag}: circle {i} solver is not cyclic"
    -- radial matrices
    let rms := ((kv rest "rm").getD "").splitOn ";"
    if rms.length != nt then
      stats ← check stats false fun _ => s!"{tag}: {rms.length} radial matrices dumped, model has {nt}"
    for j in [0:nt] do
      let (m, b, c) := parseTri (rms.getD j "")
      let mm := radialMain o nc j; let ma := radialMain oa nc j; let mF := radialMain oF nc j
      let sm := radialSub o nc j; let sa := radialSub oa nc j; let sF := radialSub oF nc j
      if m.size != mm.length ∨ b.size != sm.length ∨ c.isSome then
        stats ← check stats false fun _ => s!"{tag}: radial {j} matrix has dimension {m.size}/{b.size} cyclic={c.isSome}, model {mm.length}/{sm.length} non-cyclic"
      for t in [0:m.size] do
        acc := cmp s!"radial {j} main[{t}]" m[t]! (mm.getD t 0) (ma.getD t ⟨0⟩).v (mF.getD t 0) acc
      for t in [0:b.size] do
        acc := cmp s!"radial {j} sub[{t}]" b[t]! (sm.getD t 0) (sa.getD t ⟨0⟩).v (sF.getD t 0) acc
    -- innermost circle, CSR rows in storage order
    let inner := (kv rest "inner").getD "-"
    let ents : List (Nat × Nat × Float) := if inner == "-" then [] else (inner.splitOn ",").map fun e => match e.splitOn ":" with
      | [r, c, v] => (toNat! r, toNat! c, (Hex.parseFloat v).getD 0)
      | _ => (999999, 0, 0)
    for j in [0:nt] do
      let row := ents.filter (·.1 == j)
      let mr := innerRow o j; let ma := innerRow oa j; let mF := innerRow oF j
      if row.length != mr.length then
        stats ← check stats false fun _ => s!"{tag}: inner circle row {j} stores {row.length} entries, model {mr.length}"
      else
        for q in [0:row.length] do
          let e := row.getD q (0, 0, 0); let me := mr.getD q (0, 0)
          if e.2.1 != me.1 then
            stats ← check stats false fun _ => s!"{tag}: inner circle row {j} entry {q} is column {e.2.1}, model column {me.1}"
          acc := cmp s!"inner row {j} entry {q}" e.2.2 me.2 (ma.getD q (0, ⟨0⟩)).2.v (mF.getD q (0, 0)).2 acc
    (firstBad, nbad, entries, bitEq, worstEntry) := acc
    stats ← check stats (nbad == 0) fun _ => s!"{tag}: {nbad} stored line-matrix entries differ from the model beyond 2^-40·S (first: {firstBad})"
    -- temp = rhs - A_sc^ortho x on the input iterate (take only)
    let x := parseRatsA ((kv rest "x").getD ""); let f := parseRatsA ((kv rest "f").getD "")
    let xF := parseFloatsA ((kv rest "x").getD ""); let fF := parseFloatsA ((kv rest "f").getD "")
    let fx := field nt x; let ff := field nt f; let ax := fieldAbs nt x; let af := fieldAbs nt f
    let fxF := fieldF nt xF; let ffF := fieldF nt fF
    let tempS := (kv rest "temp").getD "-"
    let mut temps := 0; let mut tempsBitEq := 0
    if tempS != "-" then
      let tF := parseFloatsA tempS
      let mut badT : Option (Nat × Nat) := none
      for i in [0:nr] do
        for j in [0:nt] do
          let impl := tF.getD (i * nt + j) 0
          let (e, s, mf) := if i < nc then (orthoCircle o nc ff fx i j, (orthoCircle oa nc af ax i j).v, orthoCircle oF nc ffF fxF i j)
                            else (orthoRadial o nc ff fx i j, (orthoRadial oa nc af ax i j).v, orthoRadial oF nc ffF fxF i j)
          temps := temps + 1
          if impl.toBits == mf.toBits then tempsBitEq := tempsBitEq + 1
          if !(closeTo (floatToRat impl) e s) ∧ badT.isNone then badT := some (i, j)
      stats ← check stats badT.isNone fun _ =>
        let q := badT.getD (0, 0); s!"{tag}: temp = rhs - A_sc^ortho x differs from the model at node ({q.1},{q.2}) beyond 2^-40·S"
    -- one sweep: exact model sweep vs implementation
    let outF := parseFloatsA ((kv rest "out").getD "")
    let out := outF.map floatToRat
    let mut worstOut := st.worstOut
    let mut outs := 0; let mut outsBitEq := 0
    let yFo := sweep oF tinyF nc ffF xF
    match sweep o tinyQ nc ff x with
    | none => stats ← check stats false fun _ => s!"{tag}: the model sweep takes the sparse LU's exit branch, the implementation returned"
    | some y =>
      let scale := out.foldl (fun m v => max m (Hex.rabs v)) 0
      let mut badO : Option Nat := none
      for q in [0:nr * nt] do
        let d := Hex.rabs (out.getD q 0 - y.getD q 0)
        -- the model sweep executed in double follows the same operation order and shares the implementation's rounding on
        -- ill-conditioned lines: a node counts as different only if it is far from BOTH executions of the model
        let dF := match yFo with
          | some yF => Hex.rabs (out.getD q 0 - floatToRat (yF.getD q 0))
          | none => d
        if scale > 0 ∧ d / scale > worstOut then worstOut := d / scale
        if d > tol20 * scale ∧ dF > tol20 * scale ∧ badO.isNone then badO := some q
      stats ← check stats badO.isNone fun _ =>
        let q := badO.getD 0; s!"{tag}: sweep result differs from the model sweep (executed in exact rationals and in double) at node ({q / nt},{q % nt}) beyond 2^-20·max|out|"
    if strat == "take" ∧ threads == "1" then
      match yFo with
      | none => pure ()
      | some yF =>
        outs := outs + 1
        -- nodes of the innermost circle go through the hash-map based LU (iteration order unspecified): excluded from the bit comparison
        let allEq := (List.range (nr * nt)).all fun q => q < nt ∨ (outF.getD q 0).toBits == (yF.getD q 0).toBits
        if allEq then outsBitEq := outsBitEq + 1
    return { st with stats := stats, runs := st.runs + 1, entries := st.entries + entries, entriesBitEq := st.entriesBitEq + bitEq, takeEntries := st.takeEntries + (if strat == "take" then entries else 0), takeEntriesBitEq := st.takeEntriesBitEq + (if strat == "take" then bitEq else 0), temps := st.temps + temps, tempsBitEq := st.tempsBitEq + tempsBitEq, outs := st.outs + outs, outsBitEq := st.outsBitEq + outsBitEq, worstOut := worstOut, worstEntry := worstEntry }
  | "seed" :: _ => return st
  | ["end"] => return st
  | _ => IO.println s!"REJECT {(line.take 80).toString}"; return { st with stats := { st.stats with rejects := st.stats.rejects + 1 } }

def main : IO UInt32 := do
  let st ← forLines (← IO.getStdin) ({} : St) step
  let s := st.stats
  IO.println s!"SUMMARY kind=smcode cases={s.cases} checks={s.checks} diffs={s.diffs} rejects={s.rejects} runs={st.runs} matrix_entries={st.entries} matrix_entries_bit_identical_to_double_model={st.entriesBitEq} take_matrix_entries={st.takeEntries} take_matrix_entries_bit_identical={st.takeEntriesBitEq} temp_values={st.temps} temp_values_bit_identical={st.tempsBitEq} take_sweeps={st.outs} take_sweeps_bit_identical_off_inner_circle={st.outsBitEq} worst_entry_error_over_S_in_units_of_2^-53={ratToSci st.worstEntry} worst_sweep_error_rel_in_units_of_2^-53={ratToSci st.worstOut} oracle_fails={st.oracleFails}"
  for x in st.sample do IO.println s!"SAMPLE {x}"
  return (if s.diffs == 0 ∧ s.rejects == 0 ∧ st.oracleFails == 0 then 0 else 1)

end SmCodeDrv
