import GMGModel.SmootherCode
import GMGModel.SmootherGiveCode
import GMGDriver.OpsDrv
/-! `gmgdriver smcode`: the code-level smoother models (`GMGModel/SmootherCode.lean`, gather; `GMGModel/SmootherGiveCode.lean`,
scatter) against what the real SmootherGive / SmootherTake objects store and compute: every stored entry of every line matrix,
`temp = rhs - A_sc^ortho x` line by line, and the iterate after one sweep (model sweep executed in exact rationals and in IEEE
double).  Strategy give is compared with BOTH models: with the gather model within the allowance (its sums associate
differently), with the scatter model (same `+=` in the same order) in double bit for bit when run with one thread. -/
namespace SmCodeDrv
open Drv Stencil SmootherCode OpsDrv

structure St where
  stats : Stats := {}
  lvl : Lvl := {}
  oracleFails : Nat := 0
  runs : Nat := 0
  entries : Nat := 0          -- stored matrix entries compared
  entriesBitEq : Nat := 0     -- … of which bit-identical to the model evaluated in double
  takeEntries : Nat := 0
  takeEntriesBitEq : Nat := 0
  temps : Nat := 0
  tempsBitEq : Nat := 0
  outs : Nat := 0             -- take / 1 thread sweeps compared with the double model
  outsBitEq : Nat := 0        -- … of which bit-identical at every node of a tridiagonal line
  worstOut : Rat := 0         -- max |impl - exact model sweep| / max|out|
  worstEntry : Rat := 0
  -- strategy give against the scatter model `SmootherGiveCode`
  giveEntries1 : Nat := 0       -- stored entries of SmootherGive with 1 thread compared with the scatter model
  giveEntries1BitEq : Nat := 0  -- … of which bit-identical to the scatter model evaluated in double (must be all)
  giveEntries4 : Nat := 0       -- the same with 4 threads (3-coloured order of the `+=`: allowance only)
  giveEntries4BitEq : Nat := 0
  giveWorstEntry : Rat := 0
  giveTemps : Nat := 0          -- values of temp handed to a line solve of the sequential give sweep
  giveTempsBitEq : Nat := 0     -- … of which bit-identical to the scatter kernels of the model run in double on the same iterate
  giveLines : Nat := 0          -- tridiagonal line solves of the replay: model solver on the implementation's temp slice
  giveLinesBitEq : Nat := 0     -- … of which return the implementation's next iterate bit for bit
  giveReplays : Nat := 0        -- replays of smoothingSequential statement by statement that end in the bits of smoothing()
  giveSweeps : Nat := 0         -- give / 1 thread sweeps compared with the double scatter-model sweep
  giveSweepsBitEq : Nat := 0    -- … of which bit-identical at every node off the innermost circle
  giveRatEqTake : Nat := 0      -- Dirichlet cases: exact give-model sweep == exact take-model sweep (as arrays of rationals)
  giveRatCmp : Nat := 0
  cacheKey : String := ""       -- the four records of a case share x and f: the exact model sweeps are computed once
  cacheTake : Option (Option (Array Rat)) := none
  cacheGive : Option (Option (Array Rat)) := none
  sample : List String := []

def tol40 : Rat := Hex.twoPowNeg 40
def tol20 : Rat := Hex.twoPowNeg 20

def closeTo (impl exact s : Rat) : Bool := if s == 0 then impl == exact else Hex.rabs (impl - exact) ≤ tol40 * s

/-- "main/sub/corner" -/
def parseTri (s : String) : Array Float × Array Float × Option Float :=
  match s.splitOn "/" with
  | [m, b, c] => (parseFloatsA m, parseFloatsA b, if c == "-" then none else Hex.parseFloat c)
  | _ => (#[], #[], none)

def fieldF (nt : Nat) (a : Array Float) : Field Float := fun i j => a.getD (i * nt + j) 0

def tinyF (d : Float) : Bool := Float.abs d < 1e-12
def tinyQ (d : Rat) : Bool := Hex.rabs d < mkRat 1 1000000000000


/-! ### strategy give against the scatter model -/

structure Acc where
  nbad : Nat := 0
  first : String := ""
  cnt : Nat := 0
  bitEq : Nat := 0
  firstBits : String := ""
  worst : Rat := 0

/-- one value: implementation (double), exact model value, magnitude, double model value -/
def Acc.cmp (a : Acc) (what : String) (impl : Float) (exact s : Rat) (mf : Float) : Acc :=
  let ir := floatToRat impl
  let ok := closeTo ir exact s
  let e := if s > 0 then Hex.rabs (ir - exact) / s else 0
  let be := impl.toBits == mf.toBits
  { nbad := if ok then a.nbad else a.nbad + 1, first := if ok ∨ !a.first.isEmpty then a.first else what, cnt := a.cnt + 1,
    bitEq := if be then a.bitEq + 1 else a.bitEq, firstBits := if be ∨ !a.firstBits.isEmpty then a.firstBits else what,
    worst := if e > a.worst then e else a.worst }


/-- every stored cell of the SmootherGive object against `SmootherGiveCode.slotVal` of the executed stores; also the column
    indices of the CSR rows.  Returns the accumulator and structural complaints. -/
def giveMatrices (l : Lvl) (cms rms : List String) (ents : List (Nat × Nat × Float)) : Acc × List String := Id.run do
  let nt := l.nt; let nr := l.nr; let nc := l.nc
  let us := SmootherGiveCode.allUpdates l.op nc; let ua := SmootherGiveCode.allUpdates l.opAbs nc; let uF := SmootherGiveCode.allUpdates l.opF nc
  let cell := fun (a : Acc) (what : String) (impl : Float) (s : SmootherGiveCode.Slot) =>
    a.cmp what impl (SmootherGiveCode.slotVal us s) (SmootherGiveCode.slotVal ua s).v (SmootherGiveCode.slotVal uF s)
  let mut acc : Acc := {}
  let mut bad : List String := []
  for i in [1:nc] do
    let (m, b, c) := parseTri (cms.getD (i - 1) "")
    if m.size != nt ∨ b.size + 1 != nt then bad := bad ++ [s!"circle {i} matrix has dimension {m.size}/{b.size}"]
    for j in [0:m.size] do acc := cell acc s!"circle {i} main[{j}]" m[j]! (.cMain i j)
    for j in [0:b.size] do acc := cell acc s!"circle {i} sub[{j}]" b[j]! (.cSub i j)
    match c with
    | some cv => acc := cell acc s!"circle {i} corner" cv (.cCorner i)
    | none => bad := bad ++ [s!"circle {i} solver is not cyclic"]
  for j in [0:nt] do
    let (m, b, _) := parseTri (rms.getD j "")
    if m.size != nr - nc ∨ b.size + 1 != nr - nc then bad := bad ++ [s!"radial {j} matrix has dimension {m.size}/{b.size}"]
    for t in [0:m.size] do acc := cell acc s!"radial {j} main[{t}]" m[t]! (.rMain j t)
    for t in [0:b.size] do acc := cell acc s!"radial {j} sub[{t}]" b[t]! (.rSub j t)
  let w := if l.bc then 1 else 4
  for j in [0:nt] do
    let row := ents.filter (·.1 == j)
    if row.length != w then bad := bad ++ [s!"inner circle row {j} stores {row.length} entries, model {w}"]
    else
      for q in [0:w] do
        let e := row.getD q (0, 0, 0)
        if e.2.1 != SmootherGiveCode.slotCol us (.inner j q) then
          bad := bad ++ [s!"inner circle row {j} entry {q} is column {e.2.1}, model column {SmootherGiveCode.slotCol us (.inner j q)}"]
        acc := cell acc s!"inner row {j} entry {q}" e.2.2 (.inner j q)
  -- no store of the model may address a cell outside the allocated storage
  let inb := fun (s : SmootherGiveCode.Slot) => match s with
    | .cMain i j => 0 < i ∧ i < nc ∧ j < nt
    | .cSub i j => 0 < i ∧ i < nc ∧ j + 1 < nt
    | .cCorner i => 0 < i ∧ i < nc
    | .rMain j t => j < nt ∧ t < nr - nc
    | .rSub j t => j < nt ∧ t + 1 < nr - nc
    | .rCorner _ => false
    | .inner r q => r < nt ∧ q < w
  match us.find? (fun u => !(inb u.1 : Bool)) with
  | some u => bad := bad ++ [s!"the model stores into a cell outside the allocated storage: {repr u.1}"]
  | none => pure ()
  return (acc, bad)

/-- the four scatter passes of `smoothingSequential`, each on the implementation's iterate at the start of the phase (`gx`),
    the solved lines of `temp` replaced by the implementation's next iterate: returns for every node the value of `temp` its
    line solve is given -/
def giveTempChain {α : Type} [Scalar α] (o : Op α) (nc : Nat) (f : Field α) (gx : Array (Array α)) : Array α :=
  let nt := o.nt; let nr := o.nr
  let z : Array α := #[]
  let rowOf := fun (a : Array α) (i : Nat) => (List.range nt).map fun j => a.getD (i * nt + j) (Scalar.n 0)
  let colOf := fun (a : Array α) (j : Nat) => (List.range (nr - nc)).map fun t => a.getD ((nc + t) * nt + j) (Scalar.n 0)
  let t0 := ofField nr nt f
  let t1 := SmootherGiveCode.orthoBlackCircles o nc (gx.getD 0 z) t0
  let t1' := (blackCircles nc).foldl (fun t i => writeCircle nt t i (rowOf (gx.getD 1 z) i)) t1
  let t2 := SmootherGiveCode.orthoWhiteCircles o nc (gx.getD 1 z) t1'
  let t2' := (whiteCircles nc).foldl (fun t i => writeCircle nt t i (rowOf (gx.getD 2 z) i)) t2
  let t3 := SmootherGiveCode.orthoBlackRadials o nc f (gx.getD 2 z) t2'
  let t3' := (blackRadials nt).foldl (fun t j => writeRadial nt nc t j (colOf (gx.getD 3 z) j)) t3
  let t4 := SmootherGiveCode.orthoWhiteRadials o nc f (gx.getD 3 z) t3'
  Array.ofFn (n := nr * nt) fun p =>
    let i := p.val / nt; let j := p.val % nt
    let src := if i < nc then (if (nc - 1 - i) % 2 = 0 then t1 else t2) else (if j % 2 = 0 then t3 else t4)
    src.getD p.val (Scalar.n 0)

def giveTemps (l : Lvl) (f : Array Rat) (fF : Array Float) (gxS gtS : String) : Acc := Id.run do
  let nt := l.nt; let nr := l.nr; let nc := l.nc
  let parts := gxS.splitOn ";"
  let gxF : Array (Array Float) := (parts.map parseFloatsA).toArray
  let gxQ : Array (Array Rat) := gxF.map (·.map floatToRat)
  let gxA : Array (Array AbsQ) := gxQ.map (·.map absq)
  let gt := parseFloatsA gtS
  let mF := giveTempChain l.opF nc (fieldF nt fF) gxF
  let mQ := giveTempChain l.op nc (field nt f) gxQ
  let mA := giveTempChain l.opAbs nc (fieldAbs nt f) gxA
  let mut acc : Acc := {}
  for p in [0:nr * nt] do
    acc := acc.cmp s!"node ({p / nt},{p % nt})" (gt.getD p 0) (mQ.getD p 0) (mA.getD p ⟨0⟩).v (mF.getD p 0)
  return acc

/-- the tridiagonal line solves of the replayed sequential sweep: the model's solver (matrices of the scatter model, in
    double) applied to the implementation's `temp` slice must return the implementation's next iterate on that line, bit for
    bit.  Returns (lines, bit-identical lines, first line that differs). -/
def giveLineSolves (l : Lvl) (gxS gtS : String) (outF : Array Float) : Nat × Nat × String := Id.run do
  let nt := l.nt; let nr := l.nr; let nc := l.nc
  let gxF : Array (Array Float) := ((gxS.splitOn ";").map parseFloatsA).toArray
  let gt := parseFloatsA gtS
  let uF := SmootherGiveCode.allUpdates l.opF nc
  let same := fun (a b : List Float) => a.length == b.length ∧ (a.zip b).all fun (u, v) => u.toBits == v.toBits
  let mut lines := 0; let mut eq := 0; let mut first := ""
  for i in [1:nc] do
    let nxt := if (nc - 1 - i) % 2 = 0 then gxF.getD 1 #[] else gxF.getD 2 #[]
    let sol := (Tridiag.solve (SmootherGiveCode.circleSolverOf uF nt i) (SmootherGiveCode.circleSeg nt gt i)).2
    lines := lines + 1
    if same sol (SmootherGiveCode.circleSeg nt nxt i) then eq := eq + 1 else if first.isEmpty then first := s!"circle {i}"
  for j in [0:nt] do
    let nxt := if j % 2 = 0 then gxF.getD 3 #[] else outF
    let sol := (Tridiag.solve (SmootherGiveCode.radialSolverOf uF (nr - nc) j) (SmootherGiveCode.radialSeg nr nt nc gt j)).2
    lines := lines + 1
    if same sol (SmootherGiveCode.radialSeg nr nt nc nxt j) then eq := eq + 1 else if first.isEmpty then first := s!"radial {j}"
  return (lines, eq, first)

/-- exact LDLᵀ of a small dense symmetric matrix: are all pivots positive?  (implementation oracle for C05's clause "the line
    blocks the smoothers factorise inherit both properties": the matrix handed in is the one the REAL line solver stores) -/
def ldlPos (n : Nat) (a : Nat → Nat → Rat) : Bool := Id.run do
  let mut M : Array (Array Rat) := Array.ofFn (n := n) fun i => Array.ofFn (n := n) fun j => a i.val j.val
  for k in [0:n] do
    let p := M[k]![k]!
    if p ≤ 0 then return false
    for i in [k+1:n] do
      let f := M[i]![k]! / p
      if f != 0 then
        let rk := M[k]!
        let mut ri := M[i]!
        for j in [k+1:n] do
          ri := ri.set! j (ri[j]! - f * rk[j]!)
        M := M.set! i ri
  return true

/-- the symmetric (cyclic) tridiagonal matrix a line solver stores: main diagonal, sub-diagonal, optional corner element -/
def triDense (m b : Array Float) (c : Option Float) (i j : Nat) : Rat :=
  let n := m.size
  if i == j then floatToRat m[i]!
  else if i + 1 == j then floatToRat (b.getD i 0)
  else if j + 1 == i then floatToRat (b.getD j 0)
  else if (i == 0 ∧ j + 1 == n ∨ j == 0 ∧ i + 1 == n) ∧ n > 2 then (match c with | some cv => floatToRat cv | none => 0)
  else 0

def step (st : St) (line : String) : IO St := do
  let toks := fields line
  match toks with
  | "LV" :: rest =>
    let l := parseLevel rest
    IO.println s!"SIG smcode nr={l.nr} nt={l.nt} nc={l.nc} bc={l.bc} geo={l.geo} coef={l.coef}"
    let sample := if st.sample.length < 3 then st.sample ++ [s!"LV nr={l.nr} nt={l.nt} nc={l.nc} bc={l.bc} geo={l.geo} coef={l.coef}"] else st.sample
    return { st with lvl := l, stats := { st.stats with cases := st.stats.cases + 1 }, sample := sample }
  | "SC" :: rest =>
    let l := st.lvl; let o := l.op; let oa := l.opAbs; let oF := l.opF
    let nt := l.nt; let nr := l.nr; let nc := l.nc
    let strat := (kv rest "strat").getD ""; let threads := (kv rest "threads").getD ""
    let tag := s!"smoother {strat} threads={threads} nr={nr} nt={nt} nc={nc} bc={l.bc} geo={l.geo} coef={l.coef}"
    let mut st := st
    let mut stats := st.stats
    let mut firstBad := ""
    let mut nbad := 0
    let mut entries := 0; let mut bitEq := 0
    let mut worstEntry := st.worstEntry
    -- one stored entry: implementation (double), exact model value, magnitude, double model value
    let cmp := fun (what : String) (impl : Float) (exact s : Rat) (mf : Float) (acc : String × Nat × Nat × Nat × Rat) =>
      let (fb, nb, en, be, we) := acc
      let ok := closeTo (floatToRat impl) exact s
      let we' := if s > 0 ∧ Hex.rabs (floatToRat impl - exact) / s > we then Hex.rabs (floatToRat impl - exact) / s else we
      (if ok ∨ !fb.isEmpty then fb else what, if ok then nb else nb + 1, en + 1, if impl.toBits == mf.toBits then be + 1 else be, we')
    let mut acc : String × Nat × Nat × Nat × Rat := ("", 0, 0, 0, worstEntry)
    -- circle matrices 1 … nc-1
    let cms := ((kv rest "cm").getD "").splitOn ";"
    if nc ≥ 2 ∧ cms.length != nc - 1 then
      stats ← check stats false fun _ => s!"{tag}: {cms.length} circle matrices dumped, model has {nc - 1}"
    for i in [1:nc] do
      let (m, b, c) := parseTri (cms.getD (i - 1) "")
      let mm := circleMain o i; let ma := circleMain oa i; let mF := circleMain oF i
      let sm := circleSub o i; let sa := circleSub oa i; let sF := circleSub oF i
      if m.size != mm.length ∨ b.size != sm.length then
        stats ← check stats false fun _ => s!"{tag}: circle {i} matrix has dimension {m.size}/{b.size}, model {mm.length}/{sm.length}"
      for j in [0:m.size] do
        acc := cmp s!"circle {i} main[{j}]" m[j]! (mm.getD j 0) (ma.getD j ⟨0⟩).v (mF.getD j 0) acc
      for j in [0:b.size] do
        acc := cmp s!"circle {i} sub[{j}]" b[j]! (sm.getD j 0) (sa.getD j ⟨0⟩).v (sF.getD j 0) acc
      match c with
      | some cv => acc := cmp s!"circle {i} corner" cv (circleCorner o i) (circleCorner oa i).v (circleCorner oF i) acc
      | none => stats ← check stats false fun _ => s!"{tag}: circle {i} solver is not cyclic"
      if !ldlPos m.size (triDense m b c) then
        IO.println s!"ORACLE C05 the cyclic tridiagonal matrix the real line solver of circle {i} stores is not positive definite (exact LDL^T of the stored entries has a non-positive pivot): {tag}"
        st := { st with oracleFails := st.oracleFails + 1 }
    -- radial matrices
    let rms := ((kv rest "rm").getD "").splitOn ";"
    if rms.length != nt then
      stats ← check stats false fun _ => s!"{tag}: {rms.length} radial matrices dumped, model has {nt}"
    for j in [0:nt] do
      let (m, b, c) := parseTri (rms.getD j "")
      let mm := radialMain o nc j; let ma := radialMain oa nc j; let mF := radialMain oF nc j
      let sm := radialSub o nc j; let sa := radialSub oa nc j; let sF := radialSub oF nc j
      if m.size != mm.length ∨ b.size != sm.length ∨ c.isSome then
        stats ← check stats false fun _ => s!"{tag}: radial {j} matrix has dimension {m.size}/{b.size} cyclic={c.isSome}, model {mm.length}/{sm.length} non-cyclic"
      for t in [0:m.size] do
        acc := cmp s!"radial {j} main[{t}]" m[t]! (mm.getD t 0) (ma.getD t ⟨0⟩).v (mF.getD t 0) acc
      for t in [0:b.size] do
        acc := cmp s!"radial {j} sub[{t}]" b[t]! (sm.getD t 0) (sa.getD t ⟨0⟩).v (sF.getD t 0) acc
      if !ldlPos m.size (triDense m b none) then
        IO.println s!"ORACLE C05 the tridiagonal matrix the real line solver of radial line {j} stores is not positive definite (exact LDL^T of the stored entries has a non-positive pivot): {tag}"
        st := { st with oracleFails := st.oracleFails + 1 }
    -- innermost circle, CSR rows in storage order
    let inner := (kv rest "inner").getD "-"
    let ents : List (Nat × Nat × Float) := if inner == "-" then [] else (inner.splitOn ",").map fun e => match e.splitOn ":" with
      | [r, c, v] => (toNat! r, toNat! c, (Hex.parseFloat v).getD 0)
      | _ => (999999, 0, 0)
    for j in [0:nt] do
      let row := ents.filter (·.1 == j)
      let mr := innerRow o j; let ma := innerRow oa j; let mF := innerRow oF j
      if row.length != mr.length then
        stats ← check stats false fun _ => s!"{tag}: inner circle row {j} stores {row.length} entries, model {mr.length}"
      else
        for q in [0:row.length] do
          let e := row.getD q (0, 0, 0); let me := mr.getD q (0, 0)
          if e.2.1 != me.1 then
            stats ← check stats false fun _ => s!"{tag}: inner circle row {j} entry {q} is column {e.2.1}, model column {me.1}"
          acc := cmp s!"inner row {j} entry {q}" e.2.2 me.2 (ma.getD q (0, ⟨0⟩)).2.v (mF.getD q (0, 0)).2 acc
    (firstBad, nbad, entries, bitEq, worstEntry) := acc
    stats ← check stats (nbad == 0) fun _ => s!"{tag}: {nbad} stored line-matrix entries differ from the model beyond 2^-40·S (first: {firstBad})"
    -- strategy give: the same cells against the scatter model (same `+=` in the same order)
    let mut gE1 := 0; let mut gE1b := 0; let mut gE4 := 0; let mut gE4b := 0; let mut gWorst := st.giveWorstEntry
    if strat == "give" then
      let (ga, gbad) := giveMatrices l cms rms ents
      for m in gbad do
        stats ← check stats false fun _ => s!"{tag}: scatter model: {m}"
      stats ← check stats (ga.nbad == 0) fun _ => s!"{tag}: {ga.nbad} stored line-matrix entries differ from the scatter model beyond 2^-40·S (first: {ga.first})"
      if threads == "1" then
        if ga.bitEq != ga.cnt then IO.println s!"NOTE {tag}: {ga.cnt - ga.bitEq} of {ga.cnt} stored line-matrix entries are not bit-identical to the scatter model evaluated in double (first: {ga.firstBits})"
        gE1 := ga.cnt; gE1b := ga.bitEq
      else
        gE4 := ga.cnt; gE4b := ga.bitEq
      if ga.worst > gWorst then gWorst := ga.worst
    -- temp = rhs - A_sc^ortho x on the input iterate (take only)
    let x := parseRatsA ((kv rest "x").getD ""); let f := parseRatsA ((kv rest "f").getD "")
    let xF := parseFloatsA ((kv rest "x").getD ""); let fF := parseFloatsA ((kv rest "f").getD "")
    let fx := field nt x; let ff := field nt f; let ax := fieldAbs nt x; let af := fieldAbs nt f
    let fxF := fieldF nt xF; let ffF := fieldF nt fF
    let tempS := (kv rest "temp").getD "-"
    let mut temps := 0; let mut tempsBitEq := 0
    if tempS != "-" then
      let tF := parseFloatsA tempS
      let mut badT : Option (Nat × Nat) := none
      for i in [0:nr] do
        for j in [0:nt] do
          let impl := tF.getD (i * nt + j) 0
          let (e, s, mf) := if i < nc then (orthoCircle o nc ff fx i j, (orthoCircle oa nc af ax i j).v, orthoCircle oF nc ffF fxF i j)
                            else (orthoRadial o nc ff fx i j, (orthoRadial oa nc af ax i j).v, orthoRadial oF nc ffF fxF i j)
          temps := temps + 1
          if impl.toBits == mf.toBits then tempsBitEq := tempsBitEq + 1
          if !(closeTo (floatToRat impl) e s) ∧ badT.isNone then badT := some (i, j)
      stats ← check stats badT.isNone fun _ =>
        let q := badT.getD (0, 0); s!"{tag}: temp = rhs - A_sc^ortho x differs from the model at node ({q.1},{q.2}) beyond 2^-40·S"
    -- strategy give, one thread: temp handed to every line solve of smoothingSequential
    let mut gTemps := 0; let mut gTempsBit := 0; let mut gReplays := 0; let mut gLines := 0; let mut gLinesBit := 0
    let gxS := (kv rest "gx").getD "-"; let gtS := (kv rest "gt").getD "-"
    if strat == "give" ∧ threads == "1" then
      stats ← check stats (gxS != "-" ∧ gtS != "-") fun _ => s!"{tag}: the harness did not dump the replay of smoothingSequential"
      let gseq := (kv rest "gseq").getD "-"
      if gseq != "1" then IO.println s!"NOTE {tag}: replaying the statements of smoothingSequential does not reproduce smoothing() bit for bit"
      if gseq == "1" then gReplays := 1
      if gxS != "-" ∧ gtS != "-" then
        let ta := giveTemps l f fF gxS gtS
        stats ← check stats (ta.nbad == 0) fun _ => s!"{tag}: {ta.nbad} values of temp handed to a line solve differ from the scatter model (same iterate) beyond 2^-40·S (first: {ta.first})"
        if ta.bitEq != ta.cnt then IO.println s!"NOTE {tag}: {ta.cnt - ta.bitEq} of {ta.cnt} values of temp handed to a line solve are not bit-identical to the scatter model evaluated in double on the same iterate (first: {ta.firstBits})"
        gTemps := ta.cnt; gTempsBit := ta.bitEq
        let (ln, le, lf) := giveLineSolves l gxS gtS (parseFloatsA ((kv rest "out").getD ""))
        if ln != le then IO.println s!"NOTE {tag}: {ln - le} of {ln} tridiagonal line solves of the replayed sweep are not bit-identical to the model solver applied to the same temp (first: {lf})"
        gLines := ln; gLinesBit := le
    -- one sweep: exact model sweep vs implementation
    let outF := parseFloatsA ((kv rest "out").getD "")
    let out := outF.map floatToRat
    let mut worstOut := st.worstOut
    let mut outs := 0; let mut outsBitEq := 0
    let yFo := sweep oF tinyF nc ffF xF
    -- the records of one case share x and f
    let key := ((kv rest "x").getD "") ++ "|" ++ ((kv rest "f").getD "")
    let mut cTake := if st.cacheKey == key then st.cacheTake else none
    let mut cGive := if st.cacheKey == key then st.cacheGive else none
    let yTake ← match cTake with
      | some y => pure y
      | none => do let y := sweep o tinyQ nc ff x; cTake := some y; pure y
    let scale := out.foldl (fun m v => max m (Hex.rabs v)) 0
    match yTake with
    | none => stats ← check stats false fun _ => s!"{tag}: the model sweep takes the sparse LU's exit branch, the implementation returned"
    | some y =>
      let mut badO : Option Nat := none
      for q in [0:nr * nt] do
        let d := Hex.rabs (out.getD q 0 - y.getD q 0)
        -- the model sweep executed in double follows the same operation order and shares the implementation's rounding on
        -- ill-conditioned lines: a node counts as different only if it is far from BOTH executions of the model
        let dF := match yFo with
          | some yF => Hex.rabs (out.getD q 0 - floatToRat (yF.getD q 0))
          | none => d
        if scale > 0 ∧ d / scale > worstOut then worstOut := d / scale
        if d > tol20 * scale ∧ dF > tol20 * scale ∧ badO.isNone then badO := some q
      stats ← check stats badO.isNone fun _ =>
        let q := badO.getD 0; s!"{tag}: sweep result differs from the model sweep (executed in exact rationals and in double) at node ({q / nt},{q % nt}) beyond 2^-20·max|out|"
    if strat == "take" ∧ threads == "1" then
      match yFo with
      | none => pure ()
      | some yF =>
        outs := outs + 1
        -- nodes of the innermost circle go through the hash-map based LU (iteration order unspecified): excluded from the bit comparison
        let allEq := (List.range (nr * nt)).all fun q => q < nt ∨ (outF.getD q 0).toBits == (yF.getD q 0).toBits
        if allEq then outsBitEq := outsBitEq + 1
    -- strategy give: the scatter model's sequential sweep, in double and in exact rationals
    let mut gSweeps := 0; let mut gSweepsBit := 0; let mut gRatEq := 0; let mut gRatCmp := 0
    if strat == "give" then
      let gFo := SmootherGiveCode.sweep oF nc tinyF ffF xF
      let fresh := cGive.isNone
      let yGive ← match cGive with
        | some y => pure y
        | none => do let y := SmootherGiveCode.sweep o nc tinyQ ff x; cGive := some y; pure y
      match yGive with
      | none => stats ← check stats false fun _ => s!"{tag}: the scatter model's sweep takes the sparse LU's exit branch, the implementation returned"
      | some y =>
        let mut badO : Option Nat := none
        for q in [0:nr * nt] do
          let d := Hex.rabs (out.getD q 0 - y.getD q 0)
          let dF := match gFo with
            | some yF => Hex.rabs (out.getD q 0 - floatToRat (yF.getD q 0))
            | none => d
          if d > tol20 * scale ∧ dF > tol20 * scale ∧ badO.isNone then badO := some q
        stats ← check stats badO.isNone fun _ =>
          let q := badO.getD 0; s!"{tag}: sweep result differs from the scatter model's sweep (executed in exact rationals and in double) at node ({q / nt},{q % nt}) beyond 2^-20·max|out|"
        -- Dirichlet inner boundary: over the rationals both models return the same array (C06g.give_sweep_eq_take_sweep)
        if fresh ∧ l.bc then
          gRatCmp := 1
          let same := match yTake with
            | some yt => y.size == yt.size ∧ (List.range y.size).all fun q => y.getD q 0 == yt.getD q 0
            | none => false
          stats ← check stats same fun _ => s!"{tag}: over the rationals the scatter model's sweep and the gather model's sweep return different arrays (Dirichlet inner boundary)"
          if same then gRatEq := 1
      if threads == "1" then
        match gFo with
        | none => pure ()
        | some yF =>
          gSweeps := 1
          let allEq := (List.range (nr * nt)).all fun q => q < nt ∨ (outF.getD q 0).toBits == (yF.getD q 0).toBits
          if allEq then gSweepsBit := 1
    return { st with stats := stats, runs := st.runs + 1, entries := st.entries + entries, entriesBitEq := st.entriesBitEq + bitEq, takeEntries := st.takeEntries + (if strat == "take" then entries else 0), takeEntriesBitEq := st.takeEntriesBitEq + (if strat == "take" then bitEq else 0), temps := st.temps + temps, tempsBitEq := st.tempsBitEq + tempsBitEq, outs := st.outs + outs, outsBitEq := st.outsBitEq + outsBitEq, worstOut := worstOut, worstEntry := worstEntry, giveEntries1 := st.giveEntries1 + gE1, giveEntries1BitEq := st.giveEntries1BitEq + gE1b, giveEntries4 := st.giveEntries4 + gE4, giveEntries4BitEq := st.giveEntries4BitEq + gE4b, giveWorstEntry := gWorst, giveTemps := st.giveTemps + gTemps, giveTempsBitEq := st.giveTempsBitEq + gTempsBit, giveReplays := st.giveReplays + gReplays, giveLines := st.giveLines + gLines, giveLinesBitEq := st.giveLinesBitEq + gLinesBit, giveSweeps := st.giveSweeps + gSweeps, giveSweepsBitEq := st.giveSweepsBitEq + gSweepsBit, giveRatEqTake := st.giveRatEqTake + gRatEq, giveRatCmp := st.giveRatCmp + gRatCmp, cacheKey := key, cacheTake := cTake, cacheGive := cGive }
  | "seed" :: _ => return st
  | ["end"] => return st
  | _ => IO.println s!"REJECT {(line.take 80).toString}"; return { st with stats := { st.stats with rejects := st.stats.rejects + 1 } }

def main : IO UInt32 := do
  let st ← forLines (← IO.getStdin) ({} : St) step
  let s := st.stats
  IO.println s!"SUMMARY kind=smcode cases={s.cases} checks={s.checks} diffs={s.diffs} rejects={s.rejects} runs={st.runs} matrix_entries={st.entries} matrix_entries_bit_identical_to_double_model={st.entriesBitEq} take_matrix_entries={st.takeEntries} take_matrix_entries_bit_identical={st.takeEntriesBitEq} temp_values={st.temps} temp_values_bit_identical={st.tempsBitEq} take_sweeps={st.outs} take_sweeps_bit_identical_off_inner_circle={st.outsBitEq} worst_entry_error_over_S_in_units_of_2^-53={ratToSci st.worstEntry} worst_sweep_error_rel_in_units_of_2^-53={ratToSci st.worstOut} give1_entries_vs_scatter_model={st.giveEntries1} give1_entries_bit_identical_to_scatter_model={st.giveEntries1BitEq} give4_entries_vs_scatter_model={st.giveEntries4} give4_entries_bit_identical_to_scatter_model={st.giveEntries4BitEq} give_worst_entry_error_over_S_in_units_of_2^-53={ratToSci st.giveWorstEntry} give1_temp_values={st.giveTemps} give1_temp_values_bit_identical={st.giveTempsBitEq} give1_line_solves={st.giveLines} give1_line_solves_bit_identical={st.giveLinesBitEq} give1_sequential_replays_bit_identical={st.giveReplays} give1_sweeps={st.giveSweeps} give1_sweeps_bit_identical_off_inner_circle={st.giveSweepsBitEq} dirichlet_exact_give_sweep_eq_take_sweep={st.giveRatEqTake}/{st.giveRatCmp} oracle_fails={st.oracleFails}"
  for x in st.sample do IO.println s!"SAMPLE {x}"
  return (if s.diffs == 0 ∧ s.rejects == 0 ∧ st.oracleFails == 0 then 0 else 1)

end SmCodeDrv
