import GMGModel.Owner
import Generated.Owner
/-! `gmgdriver owner <max_nc> <max_nt>`: search the regenerated owner-computes regions for two iterations that are not separated
by a barrier and touch a common cell, on all small admissible shapes (`2 ≤ nc`, `nc + 3 ≤ nr`, `nt` even). -/
namespace OwnerDrv
open Owner

def main (maxNc maxNt : Nat) : IO UInt32 := do
  let mut shapes := 0
  let mut found := 0
  let mut regions := 0
  let mut loops := 0
  for reg in Gen.all do
    regions := regions + 1
    loops := loops + reg.loops.length
    let mut conf : Option String := none
    for nc in [2:maxNc+1] do
      for len in [3:6] do
        for half in [1:maxNt/2+1] do
          if conf.isNone then
            let s : Sched.Shape := ⟨(nc + len : Nat), (2 * half : Nat), (nc : Nat)⟩
            shapes := shapes + 1
            conf := findConflict s reg
    match conf with
    | some c => IO.println s!"ORACLE C11 {c}"; found := found + 1
    | none => IO.println s!"SIG owner {reg.name} kinds={reg.loops.map (fun l => repr l.kind)} pairs={pairs reg}"
  IO.println s!"SUMMARY kind=owner cases={regions} checks={shapes} diffs=0 rejects=0 owner_regions={regions} owner_loops={loops} shape_region_pairs={shapes} conflicts={found}"
  return (if found == 0 then 0 else 1)

end OwnerDrv
