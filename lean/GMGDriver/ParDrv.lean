import GMGDriver.Util
/-! `gmgdriver par`: C12 — reproducibility / thread-count independence records of `h_par`, and the vector kernels against
their exact mathematical value (computed in rationals from the input bits). -/
namespace ParDrv
open Drv

structure St where
  stats : Stats := {}
  oracleFails : Nat := 0
  ops : Nat := 0
  vecs : Nat := 0
  a : Array Rat := #[]
  b : Array Rat := #[]
  sample : List String := []
  bitsDependOnThreads : Nat := 0

def hexF (s : String) : Float := (Hex.parseFloat s).getD 0.0
def hexR (s : String) : Rat := (Hex.parseDouble s).getD 0

def step (st : St) (line : String) : IO St := do
  let toks := fields line
  match toks with
  | "PAR" :: rest =>
    let op := (kv rest "op").getD ""
    IO.println s!"SIG par op={op} nr={(kv rest "nr").getD ""} nt={(kv rest "nt").getD ""}"
    let mut st := { st with ops := st.ops + 1, stats := { st.stats with cases := st.stats.cases + 1, checks := st.stats.checks + 1 } }
    let fail (msg : String) (st : St) : IO St := do
      IO.println s!"ORACLE C12 {op} {msg}: {(line.take 400).toString}"
      return { st with oracleFails := st.oracleFails + 1 }
    if (kv rest "repeats_identical") != some "1" then st ← fail "is not bit-for-bit reproducible from run to run at a fixed thread count" st
    -- The property allows a change of the thread count to change the bits by floating-point re-association, so bit-identity
    -- ACROSS thread counts is recorded (it happens to hold for every single operator on the unchanged tree, and fails for whole
    -- solves because the `reduction(+)` norms are chunked differently) but is not an oracle.  [false alarm of the first
    -- thorough run, DESIGN.md R.5]
    if (kv rest "threads_ge2_identical") != some "1" then st := { st with bitsDependOnThreads := st.bitsDependOnThreads + 1 }
    -- across thread counts: re-association only
    let w := hexF ((kv rest "worst_vs_1").getD "")
    let solveLike := (op.splitOn "smoother").length > 1 ∨ (op.splitOn "direct").length > 1 ∨ (op.splitOn "solve").length > 1
    -- two cycles of a whole solve: a thread-count dependent hierarchy or operator shows at 1e-3 … 1e-5, re-association at 1e-12
    let bound : Float := if (op.splitOn "solve-2-cycles").length > 1 then 1e-9 else if solveLike then 1e-6 else 1e-11
    if !(w ≤ bound) then st ← fail s!"differs from the single-threaded result by {w} (relative), more than re-association explains" st
    let sample := if st.sample.length < 3 then st.sample ++ [(line.take 200).toString] else st.sample
    return { st with sample := sample }
  | "VEC" :: rest =>
    let n := toNat! ((kv rest "n").getD "")
    let mut st := st
    if (kv rest "a") != some "-" then
      st := { st with a := parseRatsA ((kv rest "a").getD ""), b := parseRatsA ((kv rest "b").getD "") }
    let a := st.a; let b := st.b
    let idx := List.range n
    let dot := idx.foldl (fun s i => s + a[i]! * b[i]!) (0 : Rat)
    let dotAbs := idx.foldl (fun s i => s + Hex.rabs (a[i]! * b[i]!)) (0 : Rat)
    let l1 := idx.foldl (fun s i => s + Hex.rabs a[i]!) (0 : Rat)
    let l2 := idx.foldl (fun s i => s + a[i]! * a[i]!) (0 : Rat)
    let inf := idx.foldl (fun s i => max s (Hex.rabs a[i]!)) (0 : Rat)
    let eps : Rat := (n : Rat) * Hex.twoPowNeg 52
    let ok := Hex.rabs (hexR ((kv rest "dot").getD "") - dot) ≤ eps * dotAbs ∧ Hex.rabs (hexR ((kv rest "l1").getD "") - l1) ≤ eps * l1 ∧
              Hex.rabs (hexR ((kv rest "l2sq").getD "") - l2) ≤ eps * l2 ∧ hexR ((kv rest "inf").getD "") == inf ∧ (kv rest "elementwise_ok") == some "1"
    IO.println s!"SIG vec n={n} threads={(kv rest "threads").getD ""} shape={(kv rest "shape").getD ""}"
    if !ok then
      IO.println s!"ORACLE C12 vector kernels at n={n} threads={(kv rest "threads").getD ""} on a {(kv rest "shape").getD ""} vector (infinity norm reported {(hexR ((kv rest "inf").getD ""))}, exact {inf}) do not equal their mathematical definition to rounding (dot/l1/l2/inf/elementwise)"
      st := { st with oracleFails := st.oracleFails + 1 }
    return { st with vecs := st.vecs + 1, stats := { st.stats with cases := st.stats.cases + 1, checks := st.stats.checks + 1 } }
  | "VECBEGIN" :: _ => return st
  | "VECCOPY" :: _ =>
    IO.println s!"ORACLE C15 {line.trimAscii}"
    return { st with oracleFails := st.oracleFails + 1 }
  | "Switching" :: _ => return st
  | "seed" :: _ => return st
  | ["end"] => return st
  | [] => return st
  | _ => IO.println s!"REJECT {(line.take 100).toString}"; return { st with stats := { st.stats with rejects := st.stats.rejects + 1 } }

def main : IO UInt32 := do
  let st ← forLines (← IO.getStdin) ({} : St) step
  let s := st.stats
  IO.println s!"SUMMARY kind=par cases={s.cases} checks={s.checks} diffs={s.diffs} rejects={s.rejects} operator_records={st.ops} vector_kernel_records={st.vecs} oracle_fails={st.oracleFails} records_whose_bits_depend_on_the_thread_count={st.bitsDependOnThreads}"
  for x in st.sample do IO.println s!"SAMPLE {x}"
  return (if s.diffs == 0 ∧ s.rejects == 0 ∧ st.oracleFails == 0 then 0 else 1)
end ParDrv
