import GMGModel.ExSmootherCode
import GMGDriver.SmCodeDrv
/-! `gmgdriver exsmcode`: the code-level model of the extrapolated smoother (`GMGModel/ExSmootherCode.lean`) against what the
real ExtrapolatedSmootherGive / ExtrapolatedSmootherTake objects store and compute: every stored entry of every line matrix
(the four solver vectors in vector order, so that the index ↔ line map and the dimension of every element are compared too),
`temp = rhs - A_sc^ortho x` line by line, and the iterate after one sweep (model sweep executed in exact rationals and in
IEEE double).  For the take strategy the stored entries and `temp` must be bit-identical to the model evaluated in double. -/
namespace ExSmCodeDrv
open Drv Stencil ExSmootherCode OpsDrv
open SmCodeDrv (tol40 tol20 closeTo parseTri fieldF tinyF tinyQ)

structure St where
  stats : Stats := {}
  lvl : Lvl := {}
  oracleFails : Nat := 0
  runs : Nat := 0
  entries : Nat := 0          -- stored matrix entries compared
  entriesBitEq : Nat := 0     -- … of which bit-identical to the model evaluated in double
  takeEntries : Nat := 0
  takeEntriesBitEq : Nat := 0
  temps : Nat := 0
  tempsBitEq : Nat := 0
  outs : Nat := 0             -- take / 1 thread sweeps compared with the double model
  outsBitEq : Nat := 0        -- … of which bit-identical at every node off the innermost circle
  outsBitEqAll : Nat := 0     -- … of which bit-identical at every node
  coarse : Nat := 0           -- coarse nodes of the model sweeps compared with the input
  coarseBitEq : Nat := 0
  implCoarse : Nat := 0       -- coarse nodes of the implementation's sweeps compared with the input
  implCoarseBitEq : Nat := 0
  worstOut : Rat := 0         -- max |impl - exact model sweep| / max|out|
  worstEntry : Rat := 0
  sample : List String := []

def splitList (s : String) : List String := if s == "-" ∨ s == "" then [] else s.splitOn ";"

/-- accumulator of the entry comparison: first bad entry, #bad, #entries, #bit-identical, worst error / S, first not bit-identical -/
structure Acc where
  firstBad : String := ""
  nbad : Nat := 0
  entries : Nat := 0
  bitEq : Nat := 0
  worst : Rat := 0
  firstNotBit : String := ""

/-- one stored entry: implementation (double), exact model value, magnitude, double model value -/
def cmp (what : String) (impl : Float) (exact s : Rat) (mf : Float) (a : Acc) : Acc :=
  let ok := closeTo (floatToRat impl) exact s
  let e := Hex.rabs (floatToRat impl - exact)
  let bit := impl.toBits == mf.toBits
  { firstBad := if ok ∨ !a.firstBad.isEmpty then a.firstBad else what
    nbad := if ok then a.nbad else a.nbad + 1
    entries := a.entries + 1
    bitEq := if bit then a.bitEq + 1 else a.bitEq
    worst := if s > 0 ∧ e / s > a.worst then e / s else a.worst
    firstNotBit := if bit ∨ !a.firstNotBit.isEmpty then a.firstNotBit else what }

def cmpList (what : String) (impl : Array Float) (exact : List Rat) (mag : List AbsQ) (mf : List Float) (a : Acc) : Acc := Id.run do
  let mut a := a
  for t in [0:impl.size] do
    a := cmp s!"{what}[{t}]" impl[t]! (exact.getD t 0) (mag.getD t ⟨0⟩).v (mf.getD t 0) a
  return a

def step (st : St) (line : String) : IO St := do
  let toks := fields line
  match toks with
  | "LV" :: rest =>
    let l := parseLevel rest
    IO.println s!"SIG exsmcode nr={l.nr} nt={l.nt} nc={l.nc} bc={l.bc} geo={l.geo} coef={l.coef}"
    let sample := if st.sample.length < 3 then st.sample ++ [s!"LV nr={l.nr} nt={l.nt} nc={l.nc} bc={l.bc} geo={l.geo} coef={l.coef}"] else st.sample
    return { st with lvl := l, stats := { st.stats with cases := st.stats.cases + 1 }, sample := sample }
  | "XC" :: rest =>
    let l := st.lvl; let o := l.op; let oa := l.opAbs; let oF := l.opF
    let nt := l.nt; let nr := l.nr; let nc := l.nc
    let strat := (kv rest "strat").getD ""; let threads := (kv rest "threads").getD ""
    let tag := s!"ex-smoother {strat} threads={threads} nr={nr} nt={nt} nc={nc} bc={l.bc} geo={l.geo} coef={l.coef}"
    let mut stats := st.stats
    let mut acc : Acc := { worst := st.worstEntry }
    -- circle_tridiagonal_solver_[k] is circle 2k+1
    let cts := splitList ((kv rest "ct").getD "-")
    stats ← check stats (cts.length == nc / 2) fun _ => s!"{tag}: circle_tridiagonal_solver_ has {cts.length} elements, model {nc / 2}"
    for k in [0:cts.length] do
      let i := 2 * k + 1
      let (m, b, c) := parseTri (cts.getD k "")
      let mm := circleTriMain o i; let sm := circleTriSub o i
      if m.size != mm.length ∨ b.size != sm.length then
        stats ← check stats false fun _ => s!"{tag}: circle {i} tridiagonal matrix has dimension {m.size}/{b.size}, model {mm.length}/{sm.length}"
      acc := cmpList s!"circle {i} main" m mm (circleTriMain oa i) (circleTriMain oF i) acc
      acc := cmpList s!"circle {i} sub" b sm (circleTriSub oa i) (circleTriSub oF i) acc
      match c with
      | some cv => acc := cmp s!"circle {i} corner" cv (circleTriCorner o i) (circleTriCorner oa i).v (circleTriCorner oF i) acc
      | none => stats ← check stats false fun _ => s!"{tag}: circle {i} solver is not cyclic"
    -- circle_diagonal_solver_[k] is circle 2k; [0] stays default-constructed
    let cdsRaw := ((kv rest "cd").getD "-").splitOn ";"
    stats ← check stats (cdsRaw.length == nc - nc / 2) fun _ => s!"{tag}: circle_diagonal_solver_ has {cdsRaw.length} elements, model {nc - nc / 2}"
    stats ← check stats (cdsRaw.getD 0 "" == "-") fun _ => s!"{tag}: circle_diagonal_solver_[0] is not default-constructed"
    for k in [1:cdsRaw.length] do
      let i := 2 * k
      let d := parseFloatsA (if cdsRaw.getD k "-" == "-" then "" else cdsRaw.getD k "")
      let md := circleDiag o i
      if d.size != md.length then
        stats ← check stats false fun _ => s!"{tag}: circle {i} diagonal matrix has dimension {d.size}, model {md.length}"
      acc := cmpList s!"circle {i} diag" d md (circleDiag oa i) (circleDiag oF i) acc
    -- radial_tridiagonal_solver_[k] is radial line 2k+1
    let rts := splitList ((kv rest "rt").getD "-")
    stats ← check stats (rts.length == nt / 2) fun _ => s!"{tag}: radial_tridiagonal_solver_ has {rts.length} elements, model {nt / 2}"
    for k in [0:rts.length] do
      let j := 2 * k + 1
      let (m, b, c) := parseTri (rts.getD k "")
      let mm := radialTriMain o nc j; let sm := radialTriSub o nc j
      if m.size != mm.length ∨ b.size != sm.length ∨ c.isSome then
        stats ← check stats false fun _ => s!"{tag}: radial {j} tridiagonal matrix has dimension {m.size}/{b.size} cyclic={c.isSome}, model {mm.length}/{sm.length} non-cyclic"
      acc := cmpList s!"radial {j} main" m mm (radialTriMain oa nc j) (radialTriMain oF nc j) acc
      acc := cmpList s!"radial {j} sub" b sm (radialTriSub oa nc j) (radialTriSub oF nc j) acc
    -- radial_diagonal_solver_[k] is radial line 2k
    let rds := splitList ((kv rest "rd").getD "-")
    stats ← check stats (rds.length == nt / 2) fun _ => s!"{tag}: radial_diagonal_solver_ has {rds.length} elements, model {nt / 2}"
    for k in [0:rds.length] do
      let j := 2 * k
      let d := parseFloatsA (if rds.getD k "-" == "-" then "" else rds.getD k "")
      let md := radialDiag o nc j
      if d.size != md.length then
        stats ← check stats false fun _ => s!"{tag}: radial {j} diagonal matrix has dimension {d.size}, model {md.length}"
      acc := cmpList s!"radial {j} diag" d md (radialDiag oa nc j) (radialDiag oF nc j) acc
    -- innermost circle, CSR rows in storage order
    let inner := (kv rest "inner").getD "-"
    let ents : List (Nat × Nat × Float) := if inner == "-" then [] else (inner.splitOn ",").map fun e => match e.splitOn ":" with
      | [r, c, v] => (toNat! r, toNat! c, (Hex.parseFloat v).getD 0)
      | _ => (999999, 0, 0)
    let csr := innerCSR o
    stats ← check stats (ents.length == csr.values.length ∧ csr.rowPtr.getLastD 0 == ents.length) fun _ =>
      s!"{tag}: inner circle matrix stores {ents.length} entries, model {csr.values.length} (row_start_indices end {csr.rowPtr.getLastD 0})"
    for j in [0:nt] do
      let row := ents.filter (·.1 == j)
      let mr := innerRow o j; let ma := innerRow oa j; let mF := innerRow oF j
      if row.length != mr.length ∨ innerNnz o j != mr.length then
        stats ← check stats false fun _ => s!"{tag}: inner circle row {j} stores {row.length} entries, model {mr.length} (nnz_per_row {innerNnz o j})"
      else
        for q in [0:row.length] do
          let e := row.getD q (0, 0, 0); let me := mr.getD q (0, 0)
          if e.2.1 != me.1 then
            stats ← check stats false fun _ => s!"{tag}: inner circle row {j} entry {q} is column {e.2.1}, model column {me.1}"
          acc := cmp s!"inner row {j} entry {q}" e.2.2 me.2 (ma.getD q (0, ⟨0⟩)).2.v (mF.getD q (0, 0)).2 acc
    stats ← check stats (acc.nbad == 0) fun _ => s!"{tag}: {acc.nbad} stored line-matrix entries differ from the model beyond 2^-40·S (first: {acc.firstBad})"
    if strat == "take" then
      -- bit identity with the double execution of the model is reported (SUMMARY), not required: a re-association of the C++ that stays
      -- within the allowance is not a disagreement about the property
      if acc.bitEq != acc.entries then
        IO.println s!"NOTE {tag}: {acc.entries - acc.bitEq} stored line-matrix entries are not bit-identical to the model evaluated in double (first: {acc.firstNotBit})"
    -- temp = rhs - A_sc^ortho x on the input iterate (take only)
    let x := parseRatsA ((kv rest "x").getD ""); let f := parseRatsA ((kv rest "f").getD "")
    let xF := parseFloatsA ((kv rest "x").getD ""); let fF := parseFloatsA ((kv rest "f").getD "")
    let fx := field nt x; let ff := field nt f; let ax := fieldAbs nt x; let af := fieldAbs nt f
    let fxF := fieldF nt xF; let ffF := fieldF nt fF
    let tempS := (kv rest "temp").getD "-"
    let mut temps := 0; let mut tempsBitEq := 0
    if tempS != "-" then
      let tF := parseFloatsA tempS
      let mut badT : Option (Nat × Nat) := none
      let mut badB : Option (Nat × Nat) := none
      for i in [0:nr] do
        for j in [0:nt] do
          let impl := tF.getD (i * nt + j) 0
          let (e, s, mf) := if i < nc then (orthoCircle o nc ff fx i j, (orthoCircle oa nc af ax i j).v, orthoCircle oF nc ffF fxF i j)
                            else (orthoRadial o nc ff fx i j, (orthoRadial oa nc af ax i j).v, orthoRadial oF nc ffF fxF i j)
          temps := temps + 1
          if impl.toBits == mf.toBits then tempsBitEq := tempsBitEq + 1
          else if badB.isNone then badB := some (i, j)
          if !(closeTo (floatToRat impl) e s) ∧ badT.isNone then badT := some (i, j)
      stats ← check stats badT.isNone fun _ =>
        let q := badT.getD (0, 0); s!"{tag}: temp = rhs - A_sc^ortho x differs from the model at node ({q.1},{q.2}) beyond 2^-40·S"
      stats ← check stats badB.isNone fun _ =>
        let q := badB.getD (0, 0); s!"{tag}: temp = rhs - A_sc^ortho x is not bit-identical to the model evaluated in double at node ({q.1},{q.2}) ({temps - tempsBitEq} nodes)"
    -- one sweep: exact model sweep vs implementation
    let outF := parseFloatsA ((kv rest "out").getD "")
    let out := outF.map floatToRat
    let mut worstOut := st.worstOut
    let mut outs := 0; let mut outsBitEq := 0; let mut outsBitEqAll := 0
    let mut coarse := 0; let mut coarseBitEq := 0; let mut implCoarse := 0; let mut implCoarseBitEq := 0
    let yFo := sweep oF tinyF nc ffF xF
    let isCoarse := fun (q : Nat) => Smoother.coarseNode (q / nt) (q % nt)
    match sweep o tinyQ nc ff x with
    | none => stats ← check stats false fun _ => s!"{tag}: the model sweep takes the sparse LU's exit branch, the implementation returned"
    | some y =>
      let scale := out.foldl (fun m v => max m (Hex.rabs v)) 0
      let mut badO : Option Nat := none
      let mut badC : Option Nat := none
      for q in [0:nr * nt] do
        let d := Hex.rabs (out.getD q 0 - y.getD q 0)
        -- the model sweep executed in double follows the same operation order and shares the implementation's rounding on
        -- ill-conditioned lines: a node counts as different only if it is far from BOTH executions of the model
        let dF := match yFo with
          | some yF => Hex.rabs (out.getD q 0 - floatToRat (yF.getD q 0))
          | none => d
        if scale > 0 ∧ d / scale > worstOut then worstOut := d / scale
        if d > tol20 * scale ∧ dF > tol20 * scale ∧ badO.isNone then badO := some q
        -- coarse nodes of the model sweep: the rational run returns the input value, the double run the input bits
        if isCoarse q then
          coarse := coarse + 1
          let okQ : Bool := y.getD q 0 == x.getD q 0
          let okF : Bool := match yFo with
            | some yF => (yF.getD q 0).toBits == (xF.getD q 0).toBits
            | none => false
          if okQ && okF then coarseBitEq := coarseBitEq + 1
          else if badC.isNone then badC := some q
          implCoarse := implCoarse + 1
          if (outF.getD q 0).toBits == (xF.getD q 0).toBits then implCoarseBitEq := implCoarseBitEq + 1
      stats ← check stats badO.isNone fun _ =>
        let q := badO.getD 0; s!"{tag}: sweep result differs from the model sweep (executed in exact rationals and in double) at node ({q / nt},{q % nt}) beyond 2^-20·max|out|"
      stats ← check stats badC.isNone fun _ =>
        let q := badC.getD 0; s!"{tag}: the model sweep moves the coarse node ({q / nt},{q % nt}) (rational run: value, double run: bits)"
      stats ← check stats (implCoarse == implCoarseBitEq) fun _ => s!"{tag}: the implementation's sweep changes the bits of {implCoarse - implCoarseBitEq} coarse nodes"
    if strat == "take" ∧ threads == "1" then
      match yFo with
      | none => pure ()
      | some yF =>
        outs := outs + 1
        -- nodes of the innermost circle go through the hash-map based LU (iteration order unspecified)
        let allEq := (List.range (nr * nt)).all fun q => q < nt ∨ (outF.getD q 0).toBits == (yF.getD q 0).toBits
        if allEq then outsBitEq := outsBitEq + 1
        if (List.range (nr * nt)).all fun q => (outF.getD q 0).toBits == (yF.getD q 0).toBits then outsBitEqAll := outsBitEqAll + 1
    let isTake := strat == "take"
    return { st with stats := stats, runs := st.runs + 1, entries := st.entries + acc.entries, entriesBitEq := st.entriesBitEq + acc.bitEq, takeEntries := st.takeEntries + (if isTake then acc.entries else 0), takeEntriesBitEq := st.takeEntriesBitEq + (if isTake then acc.bitEq else 0), temps := st.temps + temps, tempsBitEq := st.tempsBitEq + tempsBitEq, outs := st.outs + outs, outsBitEq := st.outsBitEq + outsBitEq, outsBitEqAll := st.outsBitEqAll + outsBitEqAll, coarse := st.coarse + coarse, coarseBitEq := st.coarseBitEq + coarseBitEq, implCoarse := st.implCoarse + implCoarse, implCoarseBitEq := st.implCoarseBitEq + implCoarseBitEq, worstOut := worstOut, worstEntry := acc.worst }
  | "seed" :: _ => return st
  | ["end"] => return st
  | _ => IO.println s!"REJECT {(line.take 80).toString}"; return { st with stats := { st.stats with rejects := st.stats.rejects + 1 } }

def main : IO UInt32 := do
  let st ← forLines (← IO.getStdin) ({} : St) step
  let s := st.stats
  IO.println s!"SUMMARY kind=exsmcode cases={s.cases} checks={s.checks} diffs={s.diffs} rejects={s.rejects} runs={st.runs} matrix_entries={st.entries} matrix_entries_bit_identical_to_double_model={st.entriesBitEq} take_matrix_entries={st.takeEntries} take_matrix_entries_bit_identical={st.takeEntriesBitEq} temp_values={st.temps} temp_values_bit_identical={st.tempsBitEq} take_sweeps={st.outs} take_sweeps_bit_identical_off_inner_circle={st.outsBitEq} take_sweeps_bit_identical_everywhere={st.outsBitEqAll} model_coarse_nodes={st.coarse} model_coarse_nodes_bit_identical_to_input={st.coarseBitEq} impl_coarse_nodes={st.implCoarse} impl_coarse_nodes_bit_identical_to_input={st.implCoarseBitEq} worst_entry_error_over_S_in_units_of_2^-53={ratToSci st.worstEntry} worst_sweep_error_rel_in_units_of_2^-53={ratToSci st.worstOut} oracle_fails={st.oracleFails}"
  for x in st.sample do IO.println s!"SAMPLE {x}"
  return (if s.diffs == 0 ∧ s.rejects == 0 ∧ st.oracleFails == 0 then 0 else 1)

end ExSmCodeDrv
