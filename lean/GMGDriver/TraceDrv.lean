import GMGModel.Cycle
import GMGDriver.Util
/-! `gmgdriver trace`: the instruction traces logged by the GMGPOLAR_VERIF hooks against the programs of `GMGModel/Cycle.lean`
(C10 cycles, C09 start-up, C01 solve loop, C13 reuse) and the numeric oracles the harness evaluated on the implementation. -/
namespace TraceDrv
open Drv MGCycle

structure St where
  stats : Stats := {}
  oracleFails : Nat := 0
  cycles : Nat := 0
  fmgs : Nat := 0
  solves : Nat := 0
  reuses : Nat := 0
  stoppedEarly : Nat := 0
  hitMaxit : Nat := 0
  switched : Nat := 0
  sample : List String := []

def kindOf (s : String) : Kind := if s == "1" then .W else if s == "2" then .F else .V
def prog (l : List Instr) : List String := l.map Instr.toString
def hexF (s : String) : Float := (Hex.parseFloat s).getD 0.0

/-- first position where two token lists differ -/
def firstDiff : List String → List String → Nat → Option (Nat × String × String)
  | [], [], _ => none
  | a :: as, b :: bs, n => if a == b then firstDiff as bs (n + 1) else some (n, a, b)
  | a :: _, [], n => some (n, a, "<end>")
  | [], b :: _, n => some (n, "<end>", b)

def cmpTrace (st : St) (label : String) (impl model : List String) : IO St := do
  let d := firstDiff impl model 0
  let stats ← check st.stats d.isNone fun _ =>
    match d with
    | some (n, a, b) => s!"{label}: trace differs at instruction {n}: implementation `{a}` model `{b}` (impl length {impl.length}, model length {model.length})"
    | none => ""
  return { st with stats := stats }

def splitTrace (s : String) : List String := if s.isEmpty then [] else s.splitOn ";"

/-- value of `key=` up to the next space; `trace=` and `opts=[…]` contain spaces and are handled separately -/
def afterKey (line key : String) : String :=
  match line.splitOn (key ++ "=") with
  | _ :: rest :: _ => rest
  | _ => ""

/-- replay of the `while` loop of `solve()` over the logged trace, the logged norms serving as oracle -/
partial def replaySolve (c : Cfg) (k : Kind) (extrapMode : Nat) (maxit : Nat) (absTol relTol : Option Float)
    (toks : List String) (iter : Nat) (fgs : Bool) (norms : List Float) (initial : Float) : Except String (Nat × Bool × List Float × Bool × Nat) :=
  -- returns (iterations, fgs, norms, stoppedEarly, switches)
  if iter ≥ maxit then
    if toks.isEmpty then .ok (iter, fgs, norms, false, 0) else .error s!"trace continues after maxIterations: `{toks.headD ""}`"
  else
    let extrapolated := extrapMode != 0
    let tolOn := absTol.isSome ∨ relTol.isSome
    if tolOn then
      let expect := prog (stopResidual extrapolated)
      let got := toks.take expect.length
      if got != expect then .error s!"iteration {iter}: residual evaluation differs: implementation {got} model {expect}"
      else
        let toks := toks.drop expect.length
        match toks with
        | nt :: stt :: rest =>
          let nf := fields nt; let sf := fields stt
          if nf.headD "" != "norm" ∨ sf.headD "" != "stoptest" then .error s!"iteration {iter}: expected norm/stoptest, got `{nt}` `{stt}`"
          else
            let cur := hexF (nf.getD 2 ""); let size := toNat! (nf.getD 3 "")
            if toNat! (nf.getD 1 "") != iter then .error s!"norm event carries iteration {nf.getD 1 ""}, model is at {iter}"
            else if size != iter + 1 then .error s!"residual_norms_ has {size} entries at iteration {iter} of this solve (history of an earlier solve is still in it)"
            else
              let norms := norms ++ [cur]
              let initial := if iter == 0 then cur else initial
              let rel := if iter == 0 then 1.0 else cur / initial
              let relImpl := hexF (sf.getD 3 "")
              if relImpl.toBits != rel.toBits ∨ (hexF (sf.getD 2 "")).toBits != cur.toBits then .error s!"iteration {iter}: stop test sees ({sf.getD 2 ""},{sf.getD 3 ""}), model relative norm differs"
              else
                let ratio := if iter == 0 then 0.0 else cur / (norms.getD (iter - 1) 1.0)
                let sw := iter > 0 ∧ ratio > 0.7 ∧ extrapMode == 3 ∧ fgs
                let fgs := if sw then false else fgs
                let conv : Bool := (match relTol with | some t => !(rel > t) | none => false) || (match absTol with | some t => !(cur > t) | none => false)
                if conv then
                  if rest.isEmpty then .ok (iter, fgs, norms, true, if sw then 1 else 0) else .error s!"converged at iteration {iter} but the trace continues with `{rest.headD ""}`"
                else
                  let cyc := prog (cycleAt c k extrapolated fgs 0)
                  if rest.take cyc.length != cyc then
                    match firstDiff (rest.take cyc.length) cyc 0 with
                    | some (n, a, b) => .error s!"iteration {iter}: cycle differs at instruction {n}: implementation `{a}` model `{b}`"
                    | none => .error s!"iteration {iter}: cycle differs"
                  else
                    match replaySolve c k extrapMode maxit absTol relTol (rest.drop cyc.length) (iter + 1) fgs norms initial with
                    | .ok (i, f, n, s, w) => .ok (i, f, n, s, w + (if sw then 1 else 0))
                    | .error e => .error e
        | _ => .error s!"iteration {iter}: trace ends before the norm / stop test"
    else
      let cyc := prog (cycleAt c k extrapolated fgs 0)
      if toks.take cyc.length != cyc then .error s!"iteration {iter}: cycle differs (tolerances disabled)"
      else replaySolve c k extrapMode maxit absTol relTol (toks.drop cyc.length) (iter + 1) fgs norms initial

def step (st : St) (line : String) : IO St := do
  let toks := fields line
  match toks with
  | "CYC" :: rest =>
    let L := toNat! ((kv rest "L").getD ""); let nu1 := toNat! ((kv rest "nu1").getD ""); let nu2 := toNat! ((kv rest "nu2").getD "")
    let k := kindOf ((kv rest "kind").getD ""); let ex := (kv rest "extrap") == some "1"; let fgs := (kv rest "fgs") == some "1"
    let model := prog (cycleAt ⟨L, nu1, nu2⟩ k ex fgs 0)
    let impl := splitTrace (afterKey line "trace").trimAscii.toString
    IO.println s!"SIG cycle kind={(kv rest "kind").getD ""} extrap={ex} L={L} nu1={nu1} nu2={nu2} fgs={fgs}"
    let st ← cmpTrace st s!"cycle kind={(kv rest "kind").getD ""} extrap={ex} L={L} nu1={nu1} nu2={nu2} fgs={fgs}" impl model
    let sample := if st.sample.length < 2 then st.sample ++ [s!"CYC kind={(kv rest "kind").getD ""} extrap={ex} L={L} nu1={nu1} nu2={nu2}: {(";".intercalate (model.take 12))};…"] else st.sample
    return { st with cycles := st.cycles + 1, sample := sample, stats := { st.stats with cases := st.stats.cases + 1 } }
  | "FMG" :: rest =>
    let L := toNat! ((kv rest "L").getD ""); let ex := (kv rest "extrap") == some "1"; let fgs := (kv rest "fgs") == some "1"
    let fk := kindOf ((kv rest "fmg_cycle").getD ""); let fi := toNat! ((kv rest "fmg_it").getD "")
    let model := prog (initSolution ⟨L, 1, 1⟩ true fk fi ex fgs (L - 1))
    let impl := splitTrace (afterKey line "trace").trimAscii.toString
    IO.println s!"SIG fmg L={L} extrap={ex} cycle={(kv rest "fmg_cycle").getD ""} it={fi}"
    let mut st ← cmpTrace st s!"FMG start-up L={L} extrap={ex} fmg_cycle={(kv rest "fmg_cycle").getD ""} fmg_it={fi}" impl model
    if (kv rest "stale_dependent") != some "0" then
      IO.println s!"ORACLE C09 the FMG start vector depends on the previous contents of the work vectors (L={L} extrap={ex} fmg_cycle={(kv rest "fmg_cycle").getD ""} fmg_it={fi})"
      st := { st with oracleFails := st.oracleFails + 1 }
    return { st with fmgs := st.fmgs + 1, stats := { st.stats with cases := st.stats.cases + 1 } }
  | "ORC" :: rest =>
    let mut st := st
    let small (key : String) (factor : Float) : Option Bool :=
      (kv rest key).map fun v => hexF v ≤ factor * (hexF ((kv rest "scale").getD "")) + 1e-300
    if (kv rest "rhs_untouched") == some "0" then
      IO.println s!"ORACLE C10 a cycle modified the right-hand side of the finest level ({line.trimAscii})"
      st := { st with oracleFails := st.oracleFails + 1 }
    if small "exact_fixed_change" 1e-7 == some false then
      IO.println s!"ORACLE C10 a cycle started from the exact discrete solution moved it ({line.trimAscii})"
      st := { st with oracleFails := st.oracleFails + 1 }
    if small "textbook_cycle_diff" 1e-9 == some false then
      IO.println s!"ORACLE C10 a cycle (work vectors filled with arbitrary data) differs from the textbook correction scheme composed from the public operators on the same start iterate ({line.trimAscii})"
      st := { st with oracleFails := st.oracleFails + 1 }
    if small "two_level_diff" 1e-8 == some false then
      IO.println s!"ORACLE C10 two-level cycle without smoothing differs from u + P A_c^-1 R (f - A u) ({line.trimAscii})"
      st := { st with oracleFails := st.oracleFails + 1 }
    if small "two_level_ex_diff" 1e-8 == some false then
      IO.println s!"ORACLE C10 extrapolated two-level cycle differs from u + P_ex A_c^-1 (4/3 R_ex r - 1/3 r_c) ({line.trimAscii})"
      st := { st with oracleFails := st.oracleFails + 1 }
    if small "fmg_start_depends_on_extrapolation_diff" 1e-12 == some false then
      IO.println s!"ORACLE C09 the FMG start vector without FMG cycles (coarsest solve + interpolation only) depends on the extrapolation mode ({line.trimAscii})"
      st := { st with oracleFails := st.oracleFails + 1 }
    if small "fmg_two_level_diff" 1e-9 == some false then
      IO.println s!"ORACLE C09 two-level FMG start vector is not the interpolated coarse solution ({line.trimAscii})"
      st := { st with oracleFails := st.oracleFails + 1 }
    match kv rest "reported_error_l2" with
    | some a =>
      let rl2 := hexF a; let cl2 := hexF ((kv rest "recomputed_error_l2").getD ""); let ri := hexF ((kv rest "reported_error_inf").getD ""); let ci := hexF ((kv rest "recomputed_error_inf").getD "")
      -- sin/cos come from the level cache in the library and from libm here: identical values; the norms differ by summation order only
      if !((rl2 - cl2).abs ≤ 1e-9 * (cl2 + 1e-300) ∧ (ri - ci).abs ≤ 1e-9 * (ci + 1e-300)) then
        IO.println s!"ORACLE C20 the error figures reported after solve() are not those of the returned solution (reported l2 {rl2} / inf {ri}, recomputed from solution() {cl2} / {ci}) ({line.trimAscii})"
        st := { st with oracleFails := st.oracleFails + 1 }
    | none => pure ()
    match kv rest "operator_symmetry_defect" with
    | some d =>
      let defect := hexF d; let scale := hexF ((kv rest "scale").getD ""); let energy := hexF ((kv rest "energy").getD "")
      if !(defect ≤ 1e-9 * scale + 1e-300) then
        IO.println s!"ORACLE C05 the operator a solver object holds after this history is not symmetric on the unknowns that are non-Dirichlet in the configured mode: |<Ax,y> - <x,Ay>| = {defect} at scale {scale} ({line.trimAscii})"
        st := { st with oracleFails := st.oracleFails + 1 }
      if !(energy > 0.0) then
        IO.println s!"ORACLE C05 <A x, x> = {energy} is not positive for a non-zero x on the operator a solver object holds ({line.trimAscii})"
        st := { st with oracleFails := st.oracleFails + 1 }
    | none => pure ()
    match kv rest "second_solve_it", kv rest "first_solve_it" with
    | some i2, some i1 =>
      let maxit := toNat! ((kv rest "maxit").getD ""); let it2 := toNat! i2; let it1 := toNat! i1
      let rho2 := hexF ((kv rest "second_solve_rho").getD "")
      -- the first solve converged within the budget; a repeated solve() on the same object must do so too (C01 for object histories)
      if it1 < maxit ∧ (it2 ≥ maxit ∨ !(rho2 < 1.0)) then
        IO.println s!"ORACLE C01 a repeated solve() on the same solver object does not converge within the iteration budget (first solve: {it1} iterations, second: {it2} of {maxit}, mean reduction factor {rho2}) ({line.trimAscii})"
        st := { st with oracleFails := st.oracleFails + 1 }
    | _, _ => pure ()
    match kv rest "fmg_used_object_differs" with
    | some d =>
      if d != "0" then
        IO.println s!"ORACLE C09 the FMG start vector (solve() with maxIterations = 0) of a solver object that has run an earlier solve differs from a fresh object's: it is not a function of the problem data only ({line.trimAscii})"
        st := { st with oracleFails := st.oracleFails + 1 }
    | none => pure ()
    let stats ← check st.stats true fun _ => ""
    return { st with stats := stats }
  | "SOL" :: rest =>
    let L := toNat! ((kv rest "L").getD ""); let exm := toNat! ((kv rest "extrap").getD "")
    let k := kindOf ((kv rest "kind").getD ""); let nu1 := toNat! ((kv rest "nu1").getD ""); let nu2 := toNat! ((kv rest "nu2").getD "")
    let maxit := toNat! ((kv rest "maxit").getD ""); let it := toNat! ((kv rest "it").getD "")
    let fmg := (kv rest "fmg") == some "1"; let fk := kindOf ((kv rest "fmg_cycle").getD ""); let fi := toNat! ((kv rest "fmg_it").getD "")
    let absT := hexF ((kv rest "abstol").getD ""); let relT := hexF ((kv rest "reltol").getD "")
    let absTol := if absT < 0 then none else some absT; let relTol := if relT < 0 then none else some relT
    let c : Cfg := ⟨L, nu1, nu2⟩
    let fgs0 := exm != 1      -- setup(): full grid smoothing except for IMPLICIT_EXTRAPOLATION
    let impl := splitTrace (afterKey line "trace").trimAscii.toString
    let init := prog (initSolution c fmg fk fi (exm != 0) fgs0 (L - 1))
    IO.println s!"SIG solve L={L} extrap={exm} kind={(kv rest "kind").getD ""} fmg={fmg} tol={absTol.isSome}{relTol.isSome} maxit={maxit}"
    let mut st := { st with solves := st.solves + 1, stats := { st.stats with cases := st.stats.cases + 1 } }
    -- implementation oracle, second sentence of C01, independent of the model replay (it must also speak when the trace no longer
    -- matches the model): the run stopped before the iteration limit, so the residual recomputed from the returned solution, the
    -- right-hand sides copied after setup() and freshly built operators has to meet one of the tolerances
    let indep0 := hexF ((kv rest "indep").getD "")
    let n0s := (kv rest "n0").getD "-"
    if it < maxit ∧ n0s != "-" ∧ (absTol.isSome ∨ relTol.isSome) then
      let initial := hexF n0s
      let okAbs : Bool := match absTol with | some t => decide (indep0 ≤ 1.5 * t) | none => false
      let okRel : Bool := match relTol with | some t => decide (indep0 ≤ 1.5 * t * initial) | none => false
      if !(okAbs || okRel) then
        IO.println s!"ORACLE C01 solve() reported convergence after {it} of {maxit} iterations but the independently recomputed residual {indep0} does not meet the tolerance (initial {initial}) L={L} extrap={exm} fmg={fmg} opts={afterKey line "opts"}"
        st := { st with oracleFails := st.oracleFails + 1 }
    if impl.take init.length != init then
      st ← cmpTrace st s!"solve: initial approximation (FMG={fmg})" (impl.take init.length) init
      return st
    match replaySolve c k exm maxit absTol relTol (impl.drop init.length) 0 fgs0 [] 0.0 with
    | .error e =>
      let stats ← check st.stats false fun _ => s!"solve loop L={L} extrap={exm} fmg={fmg} maxit={maxit}: {e}"
      -- the trace no longer replays: the first sentence of C01 is still evaluated on what the implementation reports
      st := { st with stats := stats }
      if exm != 2 ∧ nu1 ≥ 1 ∧ nu2 ≥ 1 ∧ maxit ≥ 150 ∧ (absTol.isSome ∨ relTol.isSome) ∧ it ≥ maxit then
        IO.println s!"ORACLE C01 no convergence within {maxit} iterations (as reported by the implementation; its trace does not replay) opts={afterKey line "opts"}"
        st := { st with oracleFails := st.oracleFails + 1 }
      return st
    | .ok (iters, _, norms, early, sw) =>
      let mut stats ← check st.stats (iters == it) fun _ => s!"solve loop: implementation reports {it} iterations, model replay {iters}"
      -- reported mean reduction factor
      if it > 0 ∧ norms.length > 0 then
        let rho := Float.pow ((norms.getLastD 0.0) / (norms.headD 1.0)) (1.0 / it.toFloat)
        let rhoI := hexF ((kv rest "rho").getD "")
        stats ← check stats ((rho - rhoI).abs ≤ 1e-12 * rho.abs ∨ rho.toBits == rhoI.toBits) fun _ => s!"mean reduction factor: implementation {rhoI} model {rho}"
      st := { st with stats := stats, stoppedEarly := st.stoppedEarly + (if early then 1 else 0), hitMaxit := st.hitMaxit + (if early then 0 else 1), switched := st.switched + sw }
      -- first sentence of C01 (inside its configuration set): convergence within the budget with mean factor < 1
      let inSet := exm != 2 ∧ nu1 ≥ 1 ∧ nu2 ≥ 1 ∧ maxit ≥ 150 ∧ (absTol.isSome ∨ relTol.isSome)
      if inSet ∧ !early then
        let o := afterKey line "opts"
        let f10 := (o.splitOn "--geometry 1").length > 1 ∧ ((o.splitOn "--alpha_coeff 2").length > 1 ∨ (o.splitOn "--alpha_coeff 3").length > 1) ∧ (o.splitOn "--DirBC_Interior 1").length > 1 ∧ exm == 0 ∧ L ≥ 4
        if f10 then IO.println s!"ORACLE C01 F10 no convergence within the budget for the Shafranov / Zoni(-shifted) / Dirichlet-interior / no-extrapolation configuration class with at least four levels opts={o}"
        else IO.println s!"ORACLE C01 no convergence within {maxit} iterations opts={o}"
        st := { st with oracleFails := st.oracleFails + 1 }
      if (kv rest "finite") == some "0" then
        IO.println s!"ORACLE C20 solve() returned a non-finite solution opts={afterKey line "opts"}"
        st := { st with oracleFails := st.oracleFails + 1 }
      return st
  | "REU" :: rest =>
    let same := (kv rest "same") == some "1"
    IO.println s!"SIG reuse hist={(kv rest "hist").getD ""} extrap={(kv rest "extrap").getD ""} fmg={(kv rest "fmg").getD ""}"
    let stats ← check st.stats true fun _ => ""
    let mut st := { st with stats := { stats with cases := stats.cases + 1 }, reuses := st.reuses + 1 }
    if !same then
      IO.println s!"ORACLE C13 a re-used solver object differs from a fresh one: history {(kv rest "hist").getD ""} {line.trimAscii}"
      st := { st with oracleFails := st.oracleFails + 1 }
    return st
  | "ORD" :: rest =>
    -- C02 oracle on the implementation: error ratios between successive uniform refinements
    let e2 := (((kv rest "e2").getD "").splitOn ",").map hexF
    let ei := (((kv rest "einf").getD "").splitOn ",").map hexF
    let ex := (kv rest "extrap") == some "1"
    let ord (e : List Float) : Float := Float.log2 ((e.getD 1 1.0) / (e.getD 2 1.0))
    let o2 := ord e2; let oi := ord ei
    let cfg := s!"geometry={(kv rest "geometry").getD ""} problem={(kv rest "problem").getD ""} alpha={(kv rest "alpha").getD ""} beta={(kv rest "beta").getD ""} dirbc={(kv rest "dirbc").getD ""} strat={(kv rest "strat").getD ""} cachegeo={(kv rest "cachegeo").getD "1"} cachecoef={(kv rest "cachecoef").getD "1"} extrap={ex} base_exp={(kv rest "base_exp").getD ""}"
    IO.println s!"SIG order {cfg}"
    let ok := if ex then o2 ≥ 2.8 ∧ oi ≥ 2.2 else o2 ≥ 1.7 ∧ oi ≥ 1.6
    let stats ← check st.stats true fun _ => ""
    let mut st := { st with stats := { stats with cases := stats.cases + 1 } }
    if !ok then
      let f9 := (kv rest "geometry") == some "2" ∧ (kv rest "alpha") == some "0"
      if f9 then IO.println s!"ORACLE C02 F9 the error does not decrease under refinement for a Poisson-coefficient problem on the Czarny geometry (wrong shipped source term): orders {o2} / {oi} {cfg}"
      else IO.println s!"ORACLE C02 observed order {o2} (weighted Euclidean) / {oi} (maximum norm) on the last refinement pair is below the expected order: {cfg} e2={e2} einf={ei}"
      st := { st with oracleFails := st.oracleFails + 1 }
    return st
  | "SKIP" :: _ => return st
  | "Switching" :: _ => return st      -- unconditional std::cout message of solve()
  | [] => return st
  | "seed" :: _ => return st
  | ["end"] => return st
  | _ => IO.println s!"REJECT {(line.take 100).toString}"; return { st with stats := { st.stats with rejects := st.stats.rejects + 1 } }

def main : IO UInt32 := do
  let st ← forLines (← IO.getStdin) ({} : St) step
  let s := st.stats
  IO.println s!"SUMMARY kind=trace cases={s.cases} checks={s.checks} diffs={s.diffs} rejects={s.rejects} cycles={st.cycles} fmg_startups={st.fmgs} solves={st.solves} reuse_steps={st.reuses} stopped_early={st.stoppedEarly} hit_maxit={st.hitMaxit} smoother_switches={st.switched} oracle_fails={st.oracleFails}"
  for x in st.sample do IO.println s!"SAMPLE {x}"
  return (if s.diffs == 0 ∧ s.rejects == 0 ∧ st.oracleFails == 0 then 0 else 1)

end TraceDrv
