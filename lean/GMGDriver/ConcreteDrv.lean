import GMGModel.Concrete
import GMGModel.Build
import GMGDriver.CacheDrv
import Generated.Stencils
import GMGDriver.TraceDrv
import GMGDriver.OpsDrv
/-! `gmgdriver concrete`: one private multigrid cycle of a real solver object against the SAME cycle executed inside the model
(`GMGModel/Concrete.lean`: the control-flow IR interpreted over the code-level models of smoothers, residual, transfers and the
coarse direct solver), in exact rationals and in IEEE double. -/
namespace ConcreteDrv
open Drv MGCycle Concrete OpsDrv

structure St where
  stats : Stats := {}
  cfgLine : List String := []
  lvls : Array Lvl := #[]
  raw : Array (List String) := #[]      -- the CLV records as received (the hierarchy is BUILT from them by `Build.hier`)
  builtOpsBitEq : Nat := 0
  rhsQ : Array (Array Rat) := #[]
  rhsF : Array (Array Float) := #[]
  cycles : Nat := 0
  exactCycles : Nat := 0
  bitEq : Nat := 0
  worst : Rat := 0
  worstF : Float := 0.0
  sample : List String := []

def tables : DirectCode.Tables :=
  ⟨Stencils.Gen.DirectTake_stencil_interior, Stencils.Gen.DirectTake_stencil_across_origin, Stencils.Gen.DirectTake_stencil_DB,
   Stencils.Gen.DirectTake_stencil_next_inner_DB, Stencils.Gen.DirectTake_stencil_next_outer_DB⟩

def mkPair {α : Type} (f c : Stencil.Op α) : Interp.Pair α := ⟨f.nr, f.nt, f.h, f.k, c.h, c.k⟩

def tinyF (d : Float) : Bool := Float.abs d < 1e-12
def tinyQ (d : Rat) : Bool := Hex.rabs d < mkRat 1 1000000000000

/-- memory of the cycle: start iterate on level 0, the level right-hand sides, zero vectors of the right size elsewhere -/
def mem {α : Type} (zero : α) (sizes : Array Nat) (x0 : Array α) (rhs : Array (Array α)) : Mem (Option (Array α)) := fun r =>
  if r == (0, Buf.sol) then some x0
  else if r.2 == Buf.rhs then some (rhs.getD r.1 #[])
  else some (Array.replicate (sizes.getD r.1 0) zero)

def step (st : St) (line : String) : IO St := do
  let toks := fields line
  match toks with
  | "CON" :: rest => return { st with cfgLine := rest, lvls := #[], raw := #[], rhsQ := #[], rhsF := #[], stats := { st.stats with cases := st.stats.cases + 1 } }
  | "CLV" :: rest =>
    let l := parseLevel rest
    return { st with lvls := st.lvls.push l, raw := st.raw.push rest, rhsQ := st.rhsQ.push (parseRatsA ((kv rest "rhs").getD "")), rhsF := st.rhsF.push (parseFloatsA ((kv rest "rhs").getD "")) }
  | "COUT" :: rest =>
    let c := st.cfgLine
    let L := toNat! ((kv c "L").getD ""); let kind := TraceDrv.kindOf ((kv c "kind").getD ""); let ex := (kv c "extrap") == some "1"; let fgs := (kv c "fgs") == some "1"
    let nu1 := toNat! ((kv c "nu1").getD ""); let nu2 := toNat! ((kv c "nu2").getD "")
    let isFmg := (kv c "fmg") == some "1"; let fmgIt := toNat! ((kv c "fmg_it").getD "0")
    let tag := (if isFmg then s!"FMG start-up fmg_it={fmgIt} " else "") ++ s!"cycle kind={(kv c "kind").getD ""} extrapolated={ex} fgs={fgs} L={L} nu1={nu1} nu2={nu2} strategy={(kv c "strat").getD ""} finest={(st.lvls.getD 0 {}).nr}x{(st.lvls.getD 0 {}).nt}"
    IO.println s!"SIG concrete kind={(kv c "kind").getD ""} extrap={ex} L={L} nu1={nu1} nu2={nu2} fgs={fgs} fmg={isFmg} fmg_it={fmgIt}"
    let mut stats := st.stats
    stats ← check stats (st.lvls.size == L) fun _ => s!"{tag}: {st.lvls.size} level records for {L} levels"
    let cfg : Cfg := ⟨L, nu1, nu2⟩
    let sizes := st.lvls.map fun l => l.nr * l.nt
    let x0Q := parseRatsA ((kv rest "x0").getD ""); let x0F := parseFloatsA ((kv rest "x0").getD "")
    let outF := parseFloatsA ((kv rest "out").getD ""); let outQ := outF.map floatToRat
    let HQ : Hier Rat := ⟨(st.lvls.map fun l => (⟨l.op, l.nc⟩ : LevelData Rat)).toList,
      (List.range (L - 1)).map (fun l => mkPair (st.lvls.getD l {}).op (st.lvls.getD (l + 1) {}).op), tinyQ, tables⟩
    let HF : Hier Float := ⟨(st.lvls.map fun l => (⟨l.opF, l.nc⟩ : LevelData Float)).toList,
      (List.range (L - 1)).map (fun l => mkPair (st.lvls.getD l {}).opF (st.lvls.getD (l + 1) {}).opF), tinyF, tables⟩
    -- the double hierarchy is BUILT inside the model from the raw inputs the way setup() builds it (GMGModel/Build.lean): the input
    -- functions as tables over the finest grid's nodes, `Cache.fresh` on level 0, `Cache.coarsen` (sampling) below, operator data
    -- through `Cache.obtain`; `HF` above (per-level data as the harness evaluated them) is kept as a cross-check of that construction
    let gridsF : List (Cache.GridData Float) := (List.range st.raw.size).map fun l =>
      let t := st.raw.getD l []
      let nr := toNat! ((kv t "nr").getD ""); let nt := toNat! ((kv t "nt").getD ""); let nc := toNat! ((kv t "nc").getD "")
      let radii := parseFloatsA ((kv t "radii").getD ""); let angles := parseFloatsA ((kv t "angles").getD "")
      ⟨⟨nr, nt, nc, Grid.pow2Flag nt⟩, fun i => radii.getD i 0, fun j => angles.getD j 0⟩
    let t0 := st.raw.getD 0 []
    let envF : Cache.Env Float := Id.run do
      let nr := toNat! ((kv t0 "nr").getD ""); let nt := toNat! ((kv t0 "nt").getD "")
      let radii := parseFloatsA ((kv t0 "radii").getD ""); let angles := parseFloatsA ((kv t0 "angles").getD "")
      let J := parseFloatsA ((kv t0 "J").getD ""); let al := parseFloatsA ((kv t0 "alpha").getD ""); let be := parseFloatsA ((kv t0 "beta").getD "")
      let mut jac : Std.HashMap (UInt64 × UInt64) (Float × Float × Float × Float) := {}
      let mut am : Std.HashMap UInt64 Float := {}
      let mut bm : Std.HashMap UInt64 Float := {}
      for i in [0:nr] do
        am := am.insert (radii.getD i 0).toBits (al.getD i 0)
        bm := bm.insert (radii.getD i 0).toBits (be.getD i 0)
        for j in [0:nt] do
          let b := 4 * (i * nt + j)
          jac := jac.insert ((radii.getD i 0).toBits, (angles.getD j 0).toBits) (J.getD b 0, J.getD (b+1) 0, J.getD (b+2) 0, J.getD (b+3) 0)
      return CacheDrv.env { jac := jac, alpha := am, beta := bm }
    let bc0 := (st.lvls.getD 0 {}).bc
    let HB : Hier Float := Build.hier envF gridsF bc0 true true tinyF tables
    -- cross-check: the built operator data against the per-level data, bit for bit at every node
    let mut builtEq := true
    let mut why := ""
    for l in [0:L] do
      let a := (Concrete.lvl HB l).op; let b := (Concrete.lvl HF l).op
      if a.nr != b.nr ∨ a.nt != b.nt ∨ (Concrete.lvl HB l).nc != (Concrete.lvl HF l).nc then builtEq := false; why := s!"shape level {l}"
      for i in [0:a.nr] do
        if (a.h i).toBits != (b.h i).toBits ∧ i + 1 < a.nr ∨ (a.beta i).toBits != (b.beta i).toBits then builtEq := false; why := s!"h/beta level {l} row {i}: {a.h i} {b.h i} {a.beta i} {b.beta i}"
        for j in [0:a.nt] do
          if (a.arr i j).toBits != (b.arr i j).toBits ∨ (a.att i j).toBits != (b.att i j).toBits ∨ (a.art i j).toBits != (b.art i j).toBits
              ∨ (a.det i j).toBits != (b.det i j).toBits ∨ (a.k j).toBits != (b.k j).toBits then builtEq := false; why := s!"level {l} node ({i},{j}): arr {a.arr i j} {b.arr i j} att {a.att i j} {b.att i j} art {a.art i j} {b.art i j} det {a.det i j} {b.det i j} k {a.k j} {b.k j}"
    stats ← check stats builtEq fun _ => s!"{tag}: the hierarchy built inside the model (Build.hier: fresh cache on level 0, sampled caches below) differs from the level data evaluated at each level's own nodes ({why})"
    let yF := if isFmg then Concrete.startL HB cfg true kind fmgIt ex fgs (mem 0.0 sizes x0F st.rhsF) else Concrete.cycleL HB cfg kind ex fgs (mem 0.0 sizes x0F st.rhsF)
    -- exact rationals only for the smallest cases: the numerators grow with every line solve, a whole cycle on three levels or
    -- with several smoothing steps is out of reach; the double execution covers all cases
    let exact := !isFmg ∧ L == 2 ∧ nu1 + nu2 ≤ 2 ∧ (st.lvls.getD 0 {}).nr * (st.lvls.getD 0 {}).nt ≤ 160
    let yQ := if exact then Concrete.cycleL HQ cfg kind ex fgs (mem 0 sizes x0Q st.rhsQ) else yF.map fun a => a.map floatToRat
    let mut bitEq := 0
    let mut worst := st.worst
    match yQ, yF with
    | some yq, some yf =>
      let scale := outQ.foldl (fun m v => max m (Hex.rabs v)) 0
      let tol := Hex.twoPowNeg 20
      let mut bad : Option Nat := none
      for q in [0:outQ.size] do
        let d := Hex.rabs (outQ.getD q 0 - yq.getD q 0)
        let dF := Hex.rabs (outQ.getD q 0 - floatToRat (yf.getD q 0))
        if scale > 0 ∧ d / scale > worst then worst := d / scale
        -- the double execution of the model shares the implementation's rounding on ill-conditioned line / coarse solves: a node counts
        -- as different only if it is far from BOTH executions of the model
        if d > tol * scale ∧ dF > tol * scale ∧ bad.isNone then bad := some q
      stats ← check stats (bad.isNone ∧ yq.size == outQ.size) fun _ =>
        let q := bad.getD 0
        s!"{tag}: the iterate after the cycle differs from the cycle executed inside the model (exact rationals and double) at node ({q / (st.lvls.getD 0 {}).nt},{q % (st.lvls.getD 0 {}).nt}) beyond 2^-20·max|u|"
      if (List.range outF.size).all fun q => (outF.getD q 0).toBits == (yf.getD q 0).toBits then bitEq := 1
    | _, _ => stats ← check stats false fun _ => s!"{tag}: the model cycle ends in an exit / out-of-bounds outcome (rationals: {yQ.isSome}, double: {yF.isSome}), the implementation returned"
    let sample := if st.sample.length < 3 then st.sample ++ [tag] else st.sample
    return { st with stats := stats, builtOpsBitEq := st.builtOpsBitEq + (if builtEq then 1 else 0), cycles := st.cycles + 1, exactCycles := st.exactCycles + (if exact then 1 else 0), bitEq := st.bitEq + bitEq, worst := worst, sample := sample }
  | "SKIP" :: _ => return st
  | "seed" :: _ => return st
  | ["end"] => return st
  | [] => return st
  | _ => IO.println s!"REJECT {(line.take 80).toString}"; return { st with stats := { st.stats with rejects := st.stats.rejects + 1 } }

def main : IO UInt32 := do
  let st ← forLines (← IO.getStdin) ({} : St) step
  let s := st.stats
  IO.println s!"SUMMARY kind=concrete cases={s.cases} checks={s.checks} diffs={s.diffs} rejects={s.rejects} cycles_executed_in_the_model={st.cycles} hierarchies_built_in_the_model_bit_identical_to_level_data={st.builtOpsBitEq} of_which_also_in_exact_rationals={st.exactCycles} bit_identical_to_the_double_execution={st.bitEq} worst_difference_to_exact_execution_rel_in_units_of_2^-53={ratToSci st.worst}"
  for x in st.sample do IO.println s!"SAMPLE {x}"
  return (if s.diffs == 0 ∧ s.rejects == 0 then 0 else 1)

end ConcreteDrv
