import GMGModel.Tridiag
import GMGModel.SparseLU
import GMGDriver.Util
/-! `gmgdriver tridiag` / `gmgdriver lu`: C14 and C16 correspondence + implementation oracle. -/
namespace LinalgDrv
open Drv

def parseFloats (s : String) : List Float :=
  if s == "-" ∨ s.isEmpty then [] else
  (s.splitOn ",").foldl (fun a t => match Hex.parseFloat t with | some f => a ++ [f] | none => a) []
def parseRats (s : String) : List Rat :=
  if s == "-" ∨ s.isEmpty then [] else ((Hex.parseVec s).getD #[]).toList
def parseNats (s : String) : List Nat :=
  if s == "-" ∨ s.isEmpty then [] else (s.splitOn ",").map toNat!

def fclose (a b : Float) : Bool :=
  a == b ∨ (a - b).abs ≤ 9.313225746154785e-10 * (max a.abs b.abs)   -- 2^-30 relative
def fcloseList (a b : List Float) : Bool := a.length == b.length ∧ (a.zip b).all fun p => fclose p.1 p.2
def bitEq (a b : List Float) : Bool := a.length == b.length ∧ (a.zip b).all fun p => p.1.toBits == p.2.toBits

/-- componentwise backward error test `|b - A x|_i ≤ τ (|A||x| + |b|)_i`, everything exact -/
def backwardOK (tau : Rat) (Ax absAx b : List Rat) : Bool :=
  (List.range b.length).all fun i =>
    Hex.rabs (b.getD i 0 - Ax.getD i 0) ≤ tau * (absAx.getD i 0 + Hex.rabs (b.getD i 0))

structure TSt where
  stats : Stats := {}
  n : Nat := 0
  cyc : Bool := false
  wc : Bool := false
  fam : String := ""
  a : List Rat := []
  b : List Rat := []
  c : Rat := 0
  fstate : Tridiag.State Float := Tridiag.mk [] [] 0.0 false
  lastX : String := ""
  oracleFails : Nat := 0
  bitEqual : Nat := 0
  solves : Nat := 0
  exactChecked : Nat := 0
  sample : List String := []

def tau34 : Rat := Hex.twoPowNeg 34

def tridiagStep (st : TSt) (line : String) : IO TSt := do
  let toks := fields line
  match toks with
  | "T" :: n :: cyc :: wc :: rest =>
    let a := parseRats ((kv rest "main").getD ""); let b := parseRats ((kv rest "sub").getD "")
    let c := (Hex.parseDouble ((kv rest "corner").getD "")).getD 0
    let af := parseFloats ((kv rest "main").getD ""); let bf := parseFloats ((kv rest "sub").getD "")
    let cf := (Hex.parseFloat ((kv rest "corner").getD "")).getD 0.0
    let fam := (kv rest "fam").getD "?"
    IO.println s!"SIG tridiag n={n} cyc={cyc} fam={fam}"
    let sample := if st.sample.length < 3 then st.sample ++ [s!"T n={n} cyc={cyc} fam={fam} main={(kv rest "main").getD ""}"] else st.sample
    return { st with n := toNat! n, cyc := cyc == "1", wc := wc == "1", fam := fam, a := a, b := b, c := c,
                     fstate := Tridiag.mk af bf cf (cyc == "1"), lastX := "", sample := sample,
                     stats := { st.stats with cases := st.stats.cases + 1 } }
  | "S" :: rest =>
    let rhsS := (kv rest "rhs").getD ""; let xS := (kv rest "x").getD ""
    let rhs := parseRats rhsS; let x := parseRats xS
    let mut st := st
    -- implementation oracle 1: backward error of the returned x against the matrix that was handed in
    let absx := x.map Hex.rabs
    let Ax := if st.cyc then Tridiag.mulC st.a st.b st.c x else Tridiag.mulT st.a st.b x 0
    let absAx := if st.cyc then Tridiag.mulC (st.a.map Hex.rabs) (st.b.map Hex.rabs) (Hex.rabs st.c) absx
                 else Tridiag.mulT (st.a.map Hex.rabs) (st.b.map Hex.rabs) absx 0
    let okb := x.length == st.n ∧ backwardOK tau34 Ax absAx rhs
    if !okb then
      IO.println s!"ORACLE C14 backward error above 2^-34 n={st.n} cyclic={st.cyc} fam={st.fam} rhs={rhsS} x={xS}"
      st := { st with oracleFails := st.oracleFails + 1 }
    -- implementation oracle 2: a repeated solve with the same right-hand side returns identical bits
    if (kv rest "rep") == some "1" ∧ st.lastX != xS then
      IO.println s!"ORACLE C14 repeated solve differs n={st.n} cyclic={st.cyc} fam={st.fam} first={st.lastX} second={xS}"
      st := { st with oracleFails := st.oracleFails + 1 }
    -- correspondence: the code-like model in IEEE double, same operation order
    let r := Tridiag.solve st.fstate (parseFloats rhsS)
    let xf := parseFloats xS
    let stats ← check st.stats (fcloseList r.2 xf) fun _ => s!"tridiag solve n={st.n} cyclic={st.cyc} fam={st.fam}: model(Float) x differs from implementation beyond 2^-30 rhs={rhsS}"
    let be := if bitEq r.2 xf then 1 else 0
    -- exact model run (the object the theorem speaks about): must solve the system exactly
    let mut stats := stats
    let mut ex := st.exactChecked
    if st.n ≤ 31 then
      let xm := (Tridiag.solve (Tridiag.mk st.a st.b st.c st.cyc) rhs).2
      let Axm := if st.cyc then Tridiag.mulC st.a st.b st.c xm else Tridiag.mulT st.a st.b xm 0
      stats ← check stats (Axm == rhs) fun _ => s!"exact model solve is not exact n={st.n} cyclic={st.cyc} fam={st.fam}"
      ex := ex + 1
    return { st with stats := stats, fstate := r.1, lastX := xS, bitEqual := st.bitEqual + be, solves := st.solves + 1, exactChecked := ex }
  | "P" :: rest =>
    let pm := parseFloats ((kv rest "main").getD ""); let ps := parseFloats ((kv rest "sub").getD "")
    let stats ← check st.stats (fcloseList st.fstate.main pm ∧ fcloseList st.fstate.sub ps) fun _ =>
      s!"stored factorisation differs n={st.n} cyclic={st.cyc} fam={st.fam}"
    return { st with stats := stats }
  | ["E"] => return st
  | "seed" :: _ => return st
  | ["end"] => return st
  | _ => IO.println s!"REJECT {line.trimAscii}"; return { st with stats := { st.stats with rejects := st.stats.rejects + 1 } }

def tridiagMain : IO UInt32 := do
  let st ← forLines (← IO.getStdin) ({} : TSt) tridiagStep
  let s := st.stats
  IO.println s!"SUMMARY kind=tridiag cases={s.cases} checks={s.checks} diffs={s.diffs} rejects={s.rejects} solves={st.solves} bit_equal_solves={st.bitEqual} exact_model_solves={st.exactChecked} oracle_fails={st.oracleFails}"
  for x in st.sample do IO.println s!"SAMPLE {(x.take 200).toString}"
  return (if s.diffs == 0 ∧ s.rejects == 0 ∧ st.oracleFails == 0 then 0 else 1)

/-! ### sparse LU -/

structure LSt where
  stats : Stats := {}
  n : Nat := 0
  fam : String := ""
  A : SparseLU.CSR Rat := ⟨0, 0, [], [], []⟩
  LU : List (SparseLU.Row Rat) × List (SparseLU.Row Rat) := ([], [])
  oracleFails : Nat := 0
  solves : Nat := 0
  fillIn : Nat := 0
  storedZeros : Nat := 0
  unsortedRows : Nat := 0
  sample : List String := []
  known : Nat := 0

def tau30 : Rat := Hex.twoPowNeg 30
/-- the double `1e-12` of `sparseLUSolver.h:229` -/
def tiny12 : Rat := (Hex.parseDouble "3d719799812dea11").getD 0
def tinyTest (d : Rat) : Bool := Hex.rabs d < tiny12

def luStep (st : LSt) (line : String) : IO LSt := do
  let toks := fields line
  match toks with
  | "L" :: n :: rest =>
    let n := toNat! n
    let rp := parseNats ((kv rest "rowptr").getD ""); let cols := parseNats ((kv rest "cols").getD "")
    let vals := parseRats ((kv rest "vals").getD ""); let trows := parseNats ((kv rest "trows").getD "")
    let fam := (kv rest "fam").getD "?"
    let ctor := (kv rest "ctor").getD "?"
    -- the container as the model's own constructor builds it from what the harness handed to the C++ constructor
    let A : SparseLU.CSR Rat :=
      if ctor == "trip" then SparseLU.CSR.ofTriplets n n ((trows.zip (cols.zip vals)))
      else ⟨n, n, vals, cols, rp⟩
    let mut stats := st.stats
    stats ← check stats (A.rowPtr == rp) fun _ => s!"CSR row starts differ ctor={ctor} n={n} impl={rp} model={A.rowPtr}"
    let LU := SparseLU.factorRows A
    let nnzA := vals.length
    let nnzLU := (LU.1.map List.length).sum + (LU.2.map List.length).sum
    let unsorted := (List.range n).any fun i => let r := (SparseLU.loadRow A i).map (·.1); !(r.zip (r.drop 1)).all fun p => p.1 < p.2
    IO.println s!"SIG lu n={n} fam={fam} ctor={ctor} fill={decide (nnzLU > nnzA)}"
    let sample := if st.sample.length < 3 then st.sample ++ [s!"L n={n} fam={fam} ctor={ctor} rowptr={rp} cols={cols}"] else st.sample
    return { st with n := n, fam := fam, A := A, LU := LU, stats := { stats with cases := stats.cases + 1 }, sample := sample,
                     fillIn := st.fillIn + (if nnzLU > nnzA then 1 else 0), storedZeros := st.storedZeros + (if vals.any (· == 0) then 1 else 0),
                     unsortedRows := st.unsortedRows + (if unsorted then 1 else 0) }
  | "LUBIG" :: rest =>
    let be := (Hex.parseFloat ((kv rest "backward_error").getD "")).getD 1.0
    let mut st := st
    if !(be ≤ 9.3e-10) ∨ (kv rest "finite") != some "1" then
      IO.println s!"ORACLE C16 backward error {be} above 2^-30 (or a non-finite entry) for a strictly diagonally dominant lattice system n={(kv rest "n").getD ""} ctor={(kv rest "ctor").getD ""} right-hand side no {(kv rest "rhs_no").getD ""} (VERIF_SEED reproduces the matrix)"
      st := { st with oracleFails := st.oracleFails + 1 }
    let stats ← check st.stats true fun _ => ""
    return { st with stats := stats }
  | "S" :: rest =>
    let rhsS := (kv rest "rhs").getD ""; let xS := (kv rest "x").getD ""
    let rhs := parseRats rhsS; let x := parseRats xS
    let mut st := st
    let absA : SparseLU.CSR Rat := { st.A with values := st.A.values.map Hex.rabs }
    let Ax := SparseLU.mulDense st.A x
    let absAx := SparseLU.mulDense absA (x.map Hex.rabs)
    if !(x.length == st.n ∧ backwardOK tau30 Ax absAx rhs) then
      IO.println s!"ORACLE C16 backward error above 2^-30 n={st.n} fam={st.fam} rowptr={st.A.rowPtr} cols={st.A.colIdx} rhs={rhsS} x={xS}"
      st := { st with oracleFails := st.oracleFails + 1 }
    -- exact model solve: must be exact, and must not take the exit branch
    let mut stats := st.stats
    match SparseLU.solve tinyTest st.LU rhs with
    | some xm =>
      stats ← check stats (SparseLU.mulDense st.A xm == rhs) fun _ => s!"exact model LU solve is not exact n={st.n} fam={st.fam}"
      -- forward agreement with the implementation, scaled by the solution size
      let scale := (xm.map Hex.rabs).foldl max 0
      let okf := (xm.zip x).all fun p => Hex.rabs (p.1 - p.2) ≤ Hex.twoPowNeg 20 * scale
      stats ← check stats okf fun _ => s!"LU solution differs from exact model solution beyond 2^-20 relative n={st.n} fam={st.fam}"
    | none =>
      stats ← check stats false fun _ => s!"model takes the tiny-pivot exit branch but the implementation returned n={st.n}"
    return { st with stats := stats, solves := st.solves + 1 }
  | "X" :: name :: rest =>
    -- probe of the exit branch: model decides from the diagonal alone
    let d := (Hex.parseDouble ((kv rest "diag").getD "")).getD 0
    let modelExit := tinyTest d
    let implExit := rest.contains "exit"
    let stats ← check st.stats (modelExit == implExit) fun _ => s!"exit branch: model={modelExit} impl={implExit} for {name}"
    if implExit then
      IO.println s!"ORACLE C16 F7 solveInPlace calls std::exit for the non-singular matrix {name} (pivot magnitude below 1e-12)"
    return { st with stats := stats, known := st.known + (if implExit then 1 else 0) }
  | ["E"] => return st
  | "seed" :: _ => return st
  | ["end"] => return st
  | _ => IO.println s!"REJECT {line.trimAscii}"; return { st with stats := { st.stats with rejects := st.stats.rejects + 1 } }

def luMain : IO UInt32 := do
  let st ← forLines (← IO.getStdin) ({} : LSt) luStep
  let s := st.stats
  IO.println s!"SUMMARY kind=lu cases={s.cases} checks={s.checks} diffs={s.diffs} rejects={s.rejects} solves={st.solves} with_fill_in={st.fillIn} with_stored_zeros={st.storedZeros} with_unsorted_rows={st.unsortedRows} oracle_fails={st.oracleFails} exit_probes={st.known}"
  for x in st.sample do IO.println s!"SAMPLE {(x.take 200).toString}"
  return (if s.diffs == 0 ∧ s.rejects == 0 ∧ st.oracleFails == 0 then 0 else 1)

end LinalgDrv
