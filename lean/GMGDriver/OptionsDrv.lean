import GMGModel.Options
import Generated.TestCases
import GMGDriver.Util
/-! `gmgdriver options`: the real parser / setup / solve on random option tuples (each in a child process) against the
decision model `Options.decide` (C20): usage exit, exception, or a run; on runs: level count, grid size, defined statistics. -/
namespace OptionsDrv
open Drv Options

structure St where
  stats : Stats := {}
  cur : Option Raw := none
  curLine : String := ""
  oracleFails : Nat := 0
  usage : Nat := 0
  rejected : Nat := 0
  runs : Nat := 0
  sample : List String := []

def optVal (opts key : String) : String :=
  match opts.splitOn ("--" ++ key ++ " ") with
  | _ :: rest :: _ => (rest.splitOn " ").headD ""
  | _ => ""

def hexR (s : String) : Rat := (Hex.parseDouble s).getD 0

def step (st : St) (line : String) : IO St := do
  let toks := fields line
  match toks with
  | "OPT" :: rest =>
    let o := (line.splitOn "opts=[").getD 1 ""
    let i (k : String) : Int := toInt! (optVal o k)
    let r : Raw := { geometry := i "geometry", problem := i "problem", alpha := i "alpha_coeff", beta := i "beta_coeff", extrapolation := i "extrapolation",
                     cycle := i "multigridCycle", fmgCycle := i "FMG_cycle", normType := i "residualNormType", stencil := i "stencilDistributionMethod",
                     cacheCoef := i "cacheDensityProfileCoefficients" != 0, cacheGeo := i "cacheDomainGeometry" != 0,
                     R0 := hexR ((kv rest "R0").getD ""), Rmax := hexR ((kv rest "Rmax").getD ""), alphaJump := hexR ((kv rest "alpha_jump").getD ""),
                     nrExp := i "nr_exp", ntExp := i "ntheta_exp", aniso := i "anisotropic_factor", div := (i "divideBy2").toNat, maxLevels := i "maxLevels" }
    return { st with cur := some r, curLine := (line.take 900).toString, stats := { st.stats with cases := st.stats.cases + 1 } }
  | "LEV" :: rest =>
    -- C18: `chooseNumberOfLevels` on a real grid of the given size against `GridGen.chooseLevels`, and the property's own clause on the
    -- implementation: at least two levels, every level but the coarsest can be coarsened (odd nr so that both boundaries are kept,
    -- ntheta divisible by 4 so that the coarse ntheta is even), the coarsest keeps 5 radial nodes / 4 angular divisions
    let nr := toNat! ((kv rest "nr").getD ""); let nt := toNat! ((kv rest "nt").getD ""); let ml := toInt! ((kv rest "max").getD "")
    let out := (kv rest "out").getD ""
    let model := match GridGen.chooseLevels nr nt ml with | .ok l => toString l | _ => "throw"
    let mut st := st
    let stats ← check st.stats (out == model) fun _ => s!"chooseNumberOfLevels nr={nr} nt={nt} maxLevels={ml}: implementation {out}, model {model}"
    st := { st with stats := { stats with cases := stats.cases + 1 } }
    if out != "throw" then
      let L := toNat! out
      let mut okAll : Bool := decide (L ≥ 2)
      let mut cr := nr; let mut ct := nt
      for _ in [0:L-1] do
        if cr % 2 == 0 ∨ ct % 4 != 0 then okAll := false
        cr := (cr + 1) / 2; ct := ct / 2
      if cr < 5 ∨ ct < 4 then okAll := false
      if !okAll then
        IO.println s!"ORACLE C18 chooseNumberOfLevels returns {L} levels for nr={nr} ntheta={nt} maxLevels={ml}, but the hierarchy is not admissible: some level that has to be coarsened has an even number of radial nodes / an ntheta not divisible by 4, or the coarsest grid is too small (coarsest would be {cr} x {ct})"
        st := { st with oracleFails := st.oracleFails + 1 }
    if nr % 37 == 0 ∧ nt == 16 ∧ ml == -1 then IO.println s!"SIG levels nr={nr} out={out}"
    return st
  | kind :: rest =>
    if kind == "RUN" ∨ kind == "REJECTED" ∨ kind == "ABORT" then
      match st.cur with
      | none => return st
      | some r =>
        let m := classify TestCases.Gen.accepted r
        let implClass := if kind == "RUN" then "runs" else if kind == "REJECTED" then "rejected"
          -- the command-line library prints its usage message and calls exit(1) while the options are parsed; a process exit in
          -- setup() or solve() is not a clean rejection
          else if (kv rest "status") == some "1" ∧ (kv rest "signal") == some "0" ∧ (kv rest "stage").getD "params" == "params" then "usageExit" else "crash"
        let modelClass := match m with | .usageExit => "usageExit" | .rejected _ => "rejected" | .runs _ _ _ => "runs" | .undefined _ => "undefined"
        IO.println s!"SIG options outcome={implClass} stage={(kv rest "stage").getD "-"} nr_exp={r.nrExp} aniso={r.aniso} maxLevels={r.maxLevels} extrap={r.extrapolation}"
        let mut st := st
        if implClass == "crash" then
          IO.println s!"ORACLE C20 an option combination neither ran to completion nor was rejected cleanly (crash / abort / sanitizer report / process exit inside setup() or solve()): {line.trimAscii} for {st.curLine}"
          st := { st with oracleFails := st.oracleFails + 1 }
        let mut stats ← check st.stats (implClass == modelClass) fun _ => s!"options: implementation outcome `{implClass}` ({line.trimAscii}), model `{modelClass}` ({repr m}): {st.curLine}"
        if kind == "RUN" then
          match m with
          | .runs L nr nt =>
            stats ← check stats (toNat! ((kv rest "levels").getD "") == L ∧ toNat! ((kv rest "nr").getD "") == nr ∧ toNat! ((kv rest "nt").getD "") == nt)
              fun _ => s!"options: levels/grid differ: impl {line.trimAscii} model levels={L} nr={nr} nt={nt}"
          | _ => pure ()
          if (kv rest "rho_defined") != some "1" then
            IO.println s!"ORACLE C20 the reported mean reduction factor is not a well-defined number ({line.trimAscii}) for {st.curLine}"
            st := { st with oracleFails := st.oracleFails + 1 }
        let sample := if st.sample.length < 3 then st.sample ++ [s!"{implClass}: {(st.curLine.take 300).toString}"] else st.sample
        return { st with stats := stats, cur := none, sample := sample,
                         usage := st.usage + (if implClass == "usageExit" then 1 else 0), rejected := st.rejected + (if implClass == "rejected" then 1 else 0),
                         runs := st.runs + (if implClass == "runs" then 1 else 0) }
    else if kind == "seed" ∨ kind == "end" then return st
    else do IO.println s!"REJECT {(line.take 100).toString}"; return { st with stats := { st.stats with rejects := st.stats.rejects + 1 } }
  | [] => return st

def main : IO UInt32 := do
  let st ← forLines (← IO.getStdin) ({} : St) step
  let s := st.stats
  IO.println s!"SUMMARY kind=options cases={s.cases} checks={s.checks} diffs={s.diffs} rejects={s.rejects} usage_exits={st.usage} exceptions={st.rejected} completed_runs={st.runs} oracle_fails={st.oracleFails}"
  for x in st.sample do IO.println s!"SAMPLE {x}"
  return (if s.diffs == 0 ∧ s.rejects == 0 ∧ st.oracleFails == 0 then 0 else 1)
end OptionsDrv
