import GMGModel.Smoother
import GMGModel.Rhs
import GMGModel.DirectCode
import GMGModel.DirectGiveCode
import Generated.Stencils
import GMGDriver.OpsDrv
/-! `gmgdriver smooth|direct|matrix`: smoothers against the sweep equations (C06, C07), the coarse direct solvers and their
assembled matrices against the operator (C04), the operator as a matrix: symmetry and exact LDLᵀ signs (C05). -/
namespace OpsDrv
open Drv Stencil Smoother

structure St2 where
  stats : Stats := {}
  lvl : Lvl := {}
  oracleFails : Nat := 0
  runs : Nat := 0
  worst : Rat := 0
  lastKey : String := ""
  lastOut : Array Rat := #[]
  pdChecked : Nat := 0
  matrices : Nat := 0
  codeSlots : Nat := 0          -- stored CSR slots compared with the code-level assembly model (storage order)
  codeSlotsBitEq : Nat := 0
  giveSlots : Nat := 0          -- give strategy, sequential assembly (threads=1): slots compared with GMGModel/DirectGiveCode.lean
  giveSlotsBitEq : Nat := 0
  giveSlotsMT : Nat := 0        -- give strategy, 3-coloured parallel assembly (threads=4): slots compared (column exact, value within the allowance)
  giveSlotsMTBitEq : Nat := 0   -- statistic only: `+=` may be re-associated
  sample : List String := []

def tol30 : Rat := Hex.twoPowNeg 30
def tol20 : Rat := Hex.twoPowNeg 20

def isDirichlet (l : Lvl) (i : Nat) : Bool := i + 1 == l.nr || (i == 0 && l.bc)

def levelLine (st : St2) (rest : List String) (kind : String) : IO St2 := do
  let l := parseLevel rest
  IO.println s!"SIG {kind} nr={l.nr} nt={l.nt} nc={l.nc} bc={l.bc} geo={l.geo} coef={l.coef}"
  let sample := if st.sample.length < 3 then st.sample ++ [s!"LV nr={l.nr} nt={l.nt} nc={l.nc} bc={l.bc} geo={l.geo} coef={l.coef}"] else st.sample
  return { st with lvl := l, stats := { st.stats with cases := st.stats.cases + 1 }, sample := sample, lastKey := "" }

def smoothStep (st : St2) (line : String) : IO St2 := do
  let toks := fields line
  match toks with
  | "LV" :: rest => levelLine st rest "smooth"
  | "SM" :: rest =>
    let l := st.lvl
    let ex := (kv rest "ex") == some "1"
    let x := parseRatsA ((kv rest "x").getD ""); let f := parseRatsA ((kv rest "f").getD ""); let out := parseRatsA ((kv rest "out").getD "")
    let fx := field l.nt x; let ff := field l.nt f; let fo := field l.nt out
    let ax := fieldAbs l.nt x; let af := fieldAbs l.nt f; let ao := fieldAbs l.nt out
    let tag := s!"{if ex then "extrapolated " else ""}smoother {(kv rest "strat").getD ""} threads={(kv rest "threads").getD ""} nr={l.nr} nt={l.nt} nc={l.nc} bc={l.bc} geo={l.geo} coef={l.coef}"
    let mut bad : Option (Nat × Nat) := none
    let mut badLast : Option (Nat × Nat) := none
    let mut worst := st.worst
    let mut st := st
    for i in [0:l.nr] do
      for j in [0:l.nt] do
        let coarse := ex ∧ coarseNode i j
        if coarse then
          -- C07: values at nodes of the next coarser grid are returned bit-for-bit unchanged
          if out.getD (i * l.nt + j) 0 != x.getD (i * l.nt + j) 0 then
            IO.println s!"ORACLE C07 {tag}: coarse node ({i},{j}) was moved by the extrapolated sweep"
            st := { st with oracleFails := st.oracleFails + 1 }
        else
          let p := phase l.nc i j
          let d := Hex.rabs (take l.op ff (mix l.nc p fx fo) i j)
          let s := (take l.opAbs af (mix l.nc p ax ao) i j).v
          if s > 0 ∧ d / s > worst then worst := d / s
          if d > tol30 * s ∧ bad.isNone then bad := some (i, j)
          -- phase 4 (white radial lines) is updated last: there the mixed iterate IS the output, and the sweep equation is the
          -- property's own clause "the residual vanishes on every line of the colour updated last"
          if d > tol30 * s ∧ p == 4 ∧ badLast.isNone then badLast := some (i, j)
          if isDirichlet l i ∧ out.getD (i * l.nt + j) 0 != f.getD (i * l.nt + j) 0 then
            IO.println s!"ORACLE C06 {tag}: Dirichlet node ({i},{j}) does not carry the boundary data after the sweep"
            st := { st with oracleFails := st.oracleFails + 1 }
    let stats ← check st.stats bad.isNone fun _ =>
      let q := bad.getD (0, 0); s!"{tag}: sweep equation violated at node ({q.1},{q.2}) (phase {phase l.nc q.1 q.2}) beyond 2^-30·S"
    match badLast with
    | some q =>
      IO.println s!"ORACLE {if ex then "C07" else "C06"} {tag}: after the sweep the residual does not vanish at node ({q.1},{q.2}) of a white radial line (the colour updated last) x={(kv rest "x").getD ""} f={(kv rest "f").getD ""}"
      st := { st with oracleFails := st.oracleFails + 1 }
    | none => pure ()
    -- both strategies / thread counts give the same sweep
    let key := s!"{(kv rest "x").getD ""}|{ex}"
    if key == st.lastKey then
      let scale := out.foldl (fun m v => max m (Hex.rabs v)) 0
      let okAll := (List.range out.size).all fun q => Hex.rabs (out.getD q 0 - st.lastOut.getD q 0) ≤ tol20 * scale
      if !okAll then
        IO.println s!"ORACLE {if ex then "C07" else "C06"} {tag}: result differs from the other strategy / thread count on the same input"
        st := { st with oracleFails := st.oracleFails + 1 }
    return { st with stats := stats, worst := worst, runs := st.runs + 1, lastKey := key, lastOut := out }
  | "seed" :: _ => return st
  | ["end"] => return st
  | _ => IO.println s!"REJECT {(line.take 80).toString}"; return { st with stats := { st.stats with rejects := st.stats.rejects + 1 } }

def oneHot (nt : Nat) (k : Nat) : Field Rat := fun i j => if i * nt + j == k then 1 else 0
def oneHotA (nt : Nat) (k : Nat) : Field AbsQ := fun i j => if i * nt + j == k then ⟨1⟩ else ⟨0⟩
def zeroF : Field Rat := fun _ _ => 0
def zeroA : Field AbsQ := fun _ _ => ⟨0⟩

/-- model matrix entry A[t][s] and its magnitude scale -/
def modelEntry (l : Lvl) (t s : Nat) : Rat × Rat :=
  (-(take l.op zeroF (oneHot l.nt s) (t / l.nt) (t % l.nt)), (take l.opAbs zeroA (oneHotA l.nt s) (t / l.nt) (t % l.nt)).v)

def directStep (st : St2) (line : String) : IO St2 := do
  let toks := fields line
  match toks with
  | "LV" :: rest => levelLine st rest "direct"
  | "DS" :: rest =>
    let l := st.lvl
    let b := parseRatsA ((kv rest "b").getD ""); let x := parseRatsA ((kv rest "x").getD "")
    let tag := s!"direct solver {(kv rest "strat").getD ""} threads={(kv rest "threads").getD ""} nr={l.nr} nt={l.nt} bc={l.bc} geo={l.geo} coef={l.coef}"
    let r := take l.op (field l.nt b) (field l.nt x)
    let mag := take l.opAbs (fieldAbs l.nt b) (fieldAbs l.nt x)
    let mut st := st
    let mut worst := st.worst
    let mut badNode : Option (Nat × Nat) := none
    for i in [0:l.nr] do
      for j in [0:l.nt] do
        let d := Hex.rabs (r i j); let s := (mag i j).v
        if s > 0 ∧ d / s > worst then worst := d / s
        if d > tol20 * s ∧ badNode.isNone then badNode := some (i, j)
    if let some q := badNode then
      IO.println s!"ORACLE C04 {tag}: residual of the returned solution at node ({q.1},{q.2}) exceeds 2^-20·(|A||x|+|b|)"
      st := { st with oracleFails := st.oracleFails + 1 }
    -- assembled matrix (friend hook): well-formed CSR rows, entries equal to the operator's
    let mut stats := st.stats
    let mat := (kv rest "mat").getD "-"
    if mat != "-" then
      let ents := (mat.splitOn ",").map fun e => match e.splitOn ":" with
        | [r, c, v] => (toNat! r, toNat! c, (Hex.parseDouble v).getD 0)
        | _ => (0, 0, 0)
      let n := l.nr * l.nt
      let mut okDistinct := true
      let mut okEntries := true
      let mut firstBad := ""
      for t in [0:n] do
        let row := ents.filter (·.1 == t)
        let cols := row.map (·.2.1)
        if cols.eraseDups.length != cols.length then okDistinct := false
        for s in [0:n] do
          let (me, ms) := modelEntry l t s
          if ms > 0 ∨ cols.contains s then
            let v := (row.filter (·.2.1 == s)).foldl (fun a e => a + e.2.2) 0
            if Hex.rabs (v - me) > Hex.twoPowNeg 40 * ms + (if ms == 0 then 0 else 0) ∧ !(ms == 0 ∧ v == 0) then
              okEntries := false
              if firstBad.isEmpty then firstBad := s!"row {t} col {s}"
      stats ← check stats okDistinct fun _ => s!"{tag}: a CSR row of the assembled matrix stores a column twice"
      stats ← check stats okEntries fun _ => s!"{tag}: assembled matrix entry differs from the operator ({firstBad})"
      st := { st with matrices := st.matrices + 1 }
      -- code-level assembly models with the offset tables regenerated from the headers, slot by slot in storage order:
      -- take: GMGModel/DirectCode.lean (one store per slot); give: GMGModel/DirectGiveCode.lean (scatter, `+=` in the
      -- sequential node order — threads=1 is compared bit for bit as well, threads=4 within the allowance only)
      let entsF : List (Nat × Nat × Float) := (mat.splitOn ",").map fun e => match e.splitOn ":" with
        | [r, c, v] => (toNat! r, toNat! c, (Hex.parseFloat v).getD 0)
        | _ => (0, 0, 0)
      let strat := (kv rest "strat").getD ""
      let models : Option (Option (List (List (Nat × Rat))) × Option (List (List (Nat × AbsQ))) × Option (List (List (Nat × Float)))) :=
        if strat == "take" then
          let T : DirectCode.Tables := ⟨Stencils.Gen.DirectTake_stencil_interior, Stencils.Gen.DirectTake_stencil_across_origin,
            Stencils.Gen.DirectTake_stencil_DB, Stencils.Gen.DirectTake_stencil_next_inner_DB, Stencils.Gen.DirectTake_stencil_next_outer_DB⟩
          some (DirectCode.rows T l.op, DirectCode.rows T l.opAbs, DirectCode.rows T l.opF)
        else if strat == "give" then
          let T : DirectCode.Tables := ⟨Stencils.Gen.DirectGive_stencil_interior, Stencils.Gen.DirectGive_stencil_across_origin,
            Stencils.Gen.DirectGive_stencil_DB, Stencils.Gen.DirectGive_stencil_next_inner_DB, Stencils.Gen.DirectGive_stencil_next_outer_DB⟩
          some (DirectGiveCode.rows T l.op l.nc, DirectGiveCode.rows T l.opAbs l.nc, DirectGiveCode.rows T l.opF l.nc)
        else none
      match models with
      | none => pure ()
      | some (some rq, some ra, some rf) =>
        let mut okSlots := true
        let mut badSlot := ""
        let mut slots := 0; let mut slotsEq := 0
        for t in [0:n] do
          let row := entsF.filter (·.1 == t)
          let mq := rq.getD t []; let ma := ra.getD t []; let mf := rf.getD t []
          if row.length != mq.length then
            okSlots := false
            if badSlot.isEmpty then badSlot := s!"row {t} stores {row.length} slots, model {mq.length}"
          else
            for q in [0:row.length] do
              let e := row.getD q (0, 0, 0); let me := mq.getD q (0, 0); let s := (ma.getD q (0, ⟨0⟩)).2.v
              slots := slots + 1
              if e.2.2.toBits == (mf.getD q (0, 0)).2.toBits then slotsEq := slotsEq + 1
              let v := floatToRat e.2.2
              let okv := if s == 0 then v == me.2 else Hex.rabs (v - me.2) ≤ Hex.twoPowNeg 40 * s
              if e.2.1 != me.1 ∨ !okv then
                okSlots := false
                if badSlot.isEmpty then badSlot := s!"row {t} slot {q}: implementation column {e.2.1}, model column {me.1}, value {if okv then "agrees" else "differs"}"
        stats ← check stats okSlots fun _ => s!"{tag}: CSR storage differs from the code-level assembly model ({badSlot})"
        if strat == "take" then
          st := { st with codeSlots := st.codeSlots + slots, codeSlotsBitEq := st.codeSlotsBitEq + slotsEq }
        else if (kv rest "threads") == some "1" then
          -- the sequential scatter is deterministic: the double-precision model must reproduce every slot bit for bit
          if slotsEq != slots then IO.println s!"NOTE {tag}: {slots - slotsEq} of {slots} CSR slots of the sequential give assembly are not bit-identical to the double-precision code-level model"
          st := { st with giveSlots := st.giveSlots + slots, giveSlotsBitEq := st.giveSlotsBitEq + slotsEq }
        else
          st := { st with giveSlotsMT := st.giveSlotsMT + slots, giveSlotsMTBitEq := st.giveSlotsMTBitEq + slotsEq }
      | some _ => stats ← check stats false fun _ => s!"{tag}: the code-level assembly model reports an out-of-bounds store (offset table / row size mismatch)"
    else
      stats ← check stats true fun _ => ""
    -- both strategies / thread counts return the same solution
    let key := (kv rest "b").getD ""
    if key == st.lastKey then
      let scale := x.foldl (fun m v => max m (Hex.rabs v)) 0
      if !((List.range x.size).all fun q => Hex.rabs (x.getD q 0 - st.lastOut.getD q 0) ≤ tol20 * scale) then
        IO.println s!"ORACLE C04 {tag}: solution differs from the other strategy / thread count"
        st := { st with oracleFails := st.oracleFails + 1 }
    return { st with stats := stats, worst := worst, runs := st.runs + 1, lastKey := key, lastOut := x }
  | "seed" :: _ => return st
  | ["end"] => return st
  | _ => IO.println s!"REJECT {(line.take 80).toString}"; return { st with stats := { st.stats with rejects := st.stats.rejects + 1 } }

/-- exact LDLᵀ (no pivoting) of a dense symmetric matrix: are all pivots positive? -/
def allPivotsPositive (n : Nat) (a : Array (Array Rat)) : Bool := Id.run do
  let mut m := a
  for k in [0:n] do
    let p := m[k]![k]!
    if p ≤ 0 then return false
    for i in [k+1:n] do
      let lik := m[i]![k]! / p
      if lik != 0 then
        let rowk := m[k]!
        let rowi := m[i]!
        let mut newRow := rowi
        for j in [k+1:n] do
          newRow := newRow.set! j (rowi[j]! - lik * rowk[j]!)
        m := m.set! i newRow
  return true

def matrixStep (st : St2) (line : String) : IO St2 := do
  let toks := fields line
  match toks with
  | "LV" :: rest => levelLine st rest "matrix"
  | "MAT" :: rest =>
    let l := st.lvl
    let n := l.nr * l.nt
    let tag := s!"operator matrix ({(kv rest "strat").getD ""}) nr={l.nr} nt={l.nt} bc={l.bc} geo={l.geo} coef={l.coef}"
    let cols : Array (Array Rat) := (((kv rest "cols").getD "").splitOn ";").toArray.map parseRatsA
    let A (t s : Nat) : Rat := (cols.getD s #[]).getD t 0
    -- correspondence: every entry equals the model's
    let mut okEntries := true
    let mut firstBad := ""
    let mut scaleDiag : Rat := 0
    for t in [0:n] do
      for s in [0:n] do
        let (me, ms) := modelEntry l t s
        if t == s then scaleDiag := max scaleDiag ms
        if Hex.rabs (A t s - me) > Hex.twoPowNeg 40 * ms ∧ !(ms == 0 ∧ A t s == 0) then
          okEntries := false
          if firstBad.isEmpty then firstBad := s!"row {t} col {s} impl={A t s} model={me}"
    let stats ← check st.stats (okEntries ∧ cols.size == n) fun _ => s!"{tag}: entry differs from the model operator ({firstBad})"
    let mut st := { st with stats := stats, matrices := st.matrices + 1 }
    -- C05 on the implementation: symmetry on the non-Dirichlet unknowns
    let free : List Nat := (List.range n).filter fun t => !isDirichlet l (t / l.nt)
    let mut okSym := true
    for t in free do
      for s in free do
        if s > t ∧ Hex.rabs (A t s - A s t) > Hex.twoPowNeg 36 * (Hex.rabs (A t s) + Hex.rabs (A s t) + Hex.twoPowNeg 10 * scaleDiag) then okSym := false
    if !okSym then
      IO.println s!"ORACLE C05 {tag}: the interior operator is not symmetric"
      st := { st with oracleFails := st.oracleFails + 1 }
    -- positive definiteness: exact LDLᵀ of the symmetrised interior block of the implementation's matrix
    if free.length ≤ 72 then
      let fa := free.toArray
      let m : Array (Array Rat) := fa.map fun t => fa.map fun s => (A t s + A s t) / 2
      if !allPivotsPositive fa.size m then
        IO.println s!"ORACLE C05 {tag}: the interior operator is not positive definite (exact LDL^T has a non-positive pivot)"
        st := { st with oracleFails := st.oracleFails + 1 }
      st := { st with pdChecked := st.pdChecked + 1 }
    return st
  | "seed" :: _ => return st
  | ["end"] => return st
  | _ => IO.println s!"REJECT {(line.take 80).toString}"; return { st with stats := { st.stats with rejects := st.stats.rejects + 1 } }

def rhsStep (st : St2) (line : String) : IO St2 := do
  let toks := fields line
  match toks with
  | "LV" :: rest => levelLine st rest "rhs"
  | "RHS" :: rest =>
    let l := st.lvl
    let src := parseRatsA ((kv rest "src").getD ""); let bdi := parseRatsA ((kv rest "bdin").getD ""); let bdo := parseRatsA ((kv rest "bdout").getD "")
    let rhs := parseRatsA ((kv rest "rhs").getD "")
    let model := Rhs.discretize l.op (Rhs.build l.op (field l.nt src) (field l.nt bdi) (field l.nt bdo))
    let mag := Rhs.discretize l.opAbs (Rhs.build l.opAbs (fieldAbs l.nt src) (fieldAbs l.nt bdi) (fieldAbs l.nt bdo))
    let mut bad : Option (Nat × Nat) := none
    let mut st := st
    for i in [0:l.nr] do
      for j in [0:l.nt] do
        let d := Hex.rabs (rhs.getD (i * l.nt + j) 0 - model i j)
        if d > Hex.twoPowNeg 44 * (mag i j).v ∧ bad.isNone then bad := some (i, j)
        -- C02 ingredient on the implementation: Dirichlet rows carry the boundary data exactly
        if isDirichlet l i then
          let want := if i == 0 then bdi.getD (i * l.nt + j) 0 else bdo.getD (i * l.nt + j) 0
          if rhs.getD (i * l.nt + j) 0 != want then
            IO.println s!"ORACLE C02 right-hand side at Dirichlet node ({i},{j}) of level {(kv rest "lvl").getD ""} is not the boundary datum"
            st := { st with oracleFails := st.oracleFails + 1 }
    let stats ← check st.stats bad.isNone fun _ =>
      let q := bad.getD (0, 0); s!"rhs of level {(kv rest "lvl").getD ""} (cachegeo={(kv rest "cachegeo").getD ""}) nr={l.nr} nt={l.nt} bc={l.bc}: node ({q.1},{q.2}) differs from source x load weight"
    return { st with stats := stats, runs := st.runs + 1 }
  | "seed" :: _ => return st
  | ["end"] => return st
  | "Switching" :: _ => return st
  | [] => return st
  | _ => IO.println s!"REJECT {(line.take 80).toString}"; return { st with stats := { st.stats with rejects := st.stats.rejects + 1 } }

def finish2 (kind : String) (st : St2) : IO UInt32 := do
  let s := st.stats
  IO.println s!"SUMMARY kind={kind} cases={s.cases} checks={s.checks} diffs={s.diffs} rejects={s.rejects} runs={st.runs} matrices={st.matrices} code_level_csr_slots={st.codeSlots} code_level_csr_slots_bit_identical={st.codeSlotsBitEq} give_csr_slots={st.giveSlots} give_csr_slots_bit_identical={st.giveSlotsBitEq} give_mt_csr_slots={st.giveSlotsMT} give_mt_csr_slots_bit_identical={st.giveSlotsMTBitEq} exact_ldlt_checks={st.pdChecked} oracle_fails={st.oracleFails} worst_defect_over_S_in_units_of_2^-53={ratToSci st.worst}"
  for x in st.sample do IO.println s!"SAMPLE {x}"
  return (if s.diffs == 0 ∧ s.rejects == 0 ∧ st.oracleFails == 0 then 0 else 1)

def smoothMain : IO UInt32 := do finish2 "smooth" (← forLines (← IO.getStdin) ({} : St2) smoothStep)
def directMain : IO UInt32 := do finish2 "direct" (← forLines (← IO.getStdin) ({} : St2) directStep)
def rhsMain : IO UInt32 := do finish2 "rhs" (← forLines (← IO.getStdin) ({} : St2) rhsStep)
def matrixMain : IO UInt32 := do finish2 "matrix" (← forLines (← IO.getStdin) ({} : St2) matrixStep)

end OpsDrv
