import GMGModel.Grid
import GMGDriver.Util
/-! `gmgdriver grid`: recompute every integer the C++ `PolarGrid` reported (C17 correspondence). -/
namespace GridDrv
open Drv

structure St where
  stats : Stats := {}
  g : Grid := ⟨0, 0, 0, false⟩
  radii : Array Rat := #[]
  angles : Array Rat := #[]
  radiiF : Array Float := #[]
  -- the fine grid a following `C` line refers to
  pow2paths : Nat := 0
  modpaths : Nat := 0
  autoSplits : Nat := 0
  explicitSplits : Nat := 0
  coarsenings : Nat := 0
  maxNr : Nat := 0
  maxNt : Nat := 0
  sample : List String := []
  fmap : Array Nat := #[]       -- implementation's own index table of the current grid (oracle, model-free)
  seen : Array Bool := #[]
  oracleFails : Nat := 0

def parseFloats (s : String) : Array Float :=
  (s.splitOn ",").foldl (fun a t => match Hex.parseFloat t with | some f => a.push f | none => a) #[]

/-- the floating-point criterion of the automatic split (`polargrid.cpp:199-205`), same operation order -/
def autoCrit (nt : Nat) (radiiF : Array Float) (i : Nat) : Bool :=
  let uniformThetaK := (2.0 * M_PI) / nt.toFloat
  let radiusR := radiiF[i]!
  let h := radiiF[i]! - radiiF[i-1]!
  let q := uniformThetaK / h
  q * radiusR > 1.0

def modelNc (split : String) (nr nt : Nat) (radii : Array Rat) (radiiF : Array Float) : Nat :=
  if split == "auto" then Split.autoNc (autoCrit nt radiiF) nr
  else match Hex.parseDouble split with
    | some s => Split.explicitNc (fun a b => decide (a < b)) radii.toList s
    | none => 999999

def header (st : St) (toks : List String) (tag : String) : IO St := do
  match toks with
  | _ :: nr :: nt :: nc :: rest =>
    let nr := toNat! nr; let nt := toNat! nt; let nc := toNat! nc
    let split := (kv rest "split").getD "?"
    let radii := (Hex.parseVec ((kv rest "radii").getD "")).getD #[]
    let angles := (Hex.parseVec ((kv rest "angles").getD "")).getD #[]
    let radiiF := parseFloats ((kv rest "radii").getD "")
    let mut stats := st.stats
    stats ← check stats (radii.size == nr ∧ angles.size == nt + 1) fun _ => s!"{tag} sizes nr={nr} nt={nt}"
    let mnc := modelNc split nr nt radii radiiF
    stats ← check stats (mnc == nc) fun _ => s!"{tag} split={split} nr={nr} nt={nt} impl nc={nc} model nc={mnc}"
    let g : Grid := ⟨nr, nt, nc, Grid.pow2Flag nt⟩
    IO.println s!"SIG nr={nr} nt={nt} nc={nc} pow2={g.pow2} split={if split == "auto" then "auto" else "explicit"}"
    let sample := if st.sample.length < 3 then st.sample ++ [s!"{tag} nr={nr} nt={nt} nc={nc} split={split}"] else st.sample
    return { st with stats := { stats with cases := stats.cases + 1 }, g := g, radii := radii, angles := angles,
                     radiiF := radiiF, fmap := Array.replicate (nr * nt) 0, seen := Array.replicate (nr * nt) false,
                     autoSplits := st.autoSplits + (if split == "auto" then 1 else 0),
                     explicitSplits := st.explicitSplits + (if split == "auto" then 0 else 1),
                     maxNr := max st.maxNr nr, maxNt := max st.maxNt nt, sample := sample }
  | _ => return { st with stats := { st.stats with rejects := st.stats.rejects + 1 } }

def closeTo (impl exact : Rat) : Bool :=
  Hex.rabs (impl - exact) ≤ Hex.twoPowNeg 52 * Hex.rabs exact

def step (st : St) (line : String) : IO St := do
  let toks := fields line
  let g := st.g
  match toks with
  | "G" :: _ => header st toks "G"
  | "C" :: cnr :: cnt :: _ =>
    -- coarse grid: sizes and every second coordinate of the current (fine) grid
    let fine := st
    let mut stats := st.stats
    stats ← check stats (toNat! cnr == g.coarseNr ∧ toNat! cnt == g.coarseNt) fun _ => s!"C shape impl=({cnr},{cnt}) model=({g.coarseNr},{g.coarseNt})"
    let cr := (Hex.parseVec ((kv toks "radii").getD "")).getD #[]
    let ca := (Hex.parseVec ((kv toks "angles").getD "")).getD #[]
    let okr := (List.range cr.size).all fun I => cr[I]! == fine.radii[2*I]!
    let oka := (List.range ca.size).all fun J => ca[J]! == fine.angles[2*J]!
    stats ← check stats (okr ∧ oka ∧ cr.size == g.coarseNr ∧ ca.size == g.coarseNt + 1) fun _ => s!"C coordinates are not every second fine coordinate"
    -- both boundaries kept
    stats ← check stats (cr[0]! == fine.radii[0]! ∧ cr[cr.size-1]! == fine.radii[fine.radii.size-1]!) fun _ => "C boundaries"
    return { st with stats := stats, coarsenings := st.coarsenings + 1 }
  | ["N", n, ncirc, nrad, len] =>
    let stats ← check st.stats (toNat! n == g.numNodes ∧ toNat! ncirc == g.ncirc ∧ toNat! nrad == g.nrad ∧ toNat! len == g.len)
      fun _ => s!"N impl={line.trimAscii} model={g.numNodes} {g.ncirc} {g.nrad} {g.len}"
    return { st with stats := stats }
  | ["X", i, ju, v] =>
    let m := g.index (toNat! i) (toInt! ju)
    let stats ← check st.stats (m == toNat! v) fun _ => s!"index grid={repr g} i={i} ju={ju} impl={v} model={m}"
    -- oracle (implementation only): periodic wrap agrees with the implementation's own fastIndex table
    let jw := ((toInt! ju) % (g.nt : Int)).toNat
    let st ← (if st.fmap[(toNat! i) * g.nt + jw]! == toNat! v then pure st else do
      IO.println s!"ORACLE C17 index({i},{ju})={v} but fastIndex({i},{jw})={st.fmap[(toNat! i) * g.nt + jw]!} nr={g.nr} nt={g.nt} nc={g.nc}: not periodic"
      pure { st with oracleFails := st.oracleFails + 1 })
    return { st with stats := stats, pow2paths := st.pow2paths + (if g.pow2 then 1 else 0), modpaths := st.modpaths + (if g.pow2 then 0 else 1) }
  | ["F", i, j, v, w] =>
    let m := g.fastIndex (toNat! i) (toNat! j)
    let r := g.refIndex (toNat! i) (toNat! j)
    let stats ← check st.stats (m == toNat! v ∧ r == toNat! w) fun _ => s!"fastIndex grid={repr g} i={i} j={j} impl={v},{w} model={m},{r}"
    -- oracle: injective into 0..N-1, fast = reference
    let v' := toNat! v
    let bad := v' ≥ g.numNodes ∨ st.seen[v']! ∨ v != w
    if bad then IO.println s!"ORACLE C17 fastIndex({i},{j})={v} reference={w} nr={g.nr} nt={g.nt} nc={g.nc}: out of range, repeated or fast != reference"
    return { st with stats := stats, fmap := st.fmap.set! ((toNat! i) * g.nt + toNat! j) v', seen := st.seen.set! v' true,
                     oracleFails := st.oracleFails + (if bad then 1 else 0) }
  | ["M", n, i, j, ri, rj] =>
    let m := g.multiIndex (toNat! n)
    let r := g.refMultiIndex (toNat! n)
    let stats ← check st.stats (m == (toNat! i, toNat! j) ∧ r == (toNat! ri, toNat! rj)) fun _ => s!"multiIndex grid={repr g} n={n} impl=({i},{j}),({ri},{rj}) model={m},{r}"
    -- oracle: multiIndex inverts the implementation's own index table
    let bad := !(toNat! i < g.nr ∧ toNat! j < g.nt ∧ st.fmap[(toNat! i) * g.nt + toNat! j]! == toNat! n ∧ i == ri ∧ j == rj)
    if bad then IO.println s!"ORACLE C17 multiIndex({n})=({i},{j}) reference=({ri},{rj}) nr={g.nr} nt={g.nt} nc={g.nc}: not the inverse of index"
    return { st with stats := stats, oracleFails := st.oracleFails + (if bad then 1 else 0) }
  | ["A", i, j, a0, a1, a2, a3, d0, d1, d2, d3] =>
    let a := g.adjacent (toNat! i) (toNat! j)
    let d := g.diagonal (toNat! i) (toNat! j)
    let stats ← check st.stats (a == (toInt! a0, toInt! a1, toInt! a2, toInt! a3) ∧ d == (toInt! d0, toInt! d1, toInt! d2, toInt! d3))
      fun _ => s!"neighbours grid={repr g} i={i} j={j} impl={line.trimAscii} model={a} {d}"
    return { st with stats := stats }
  | ["D", i, j, hm, hp, km, kp] =>
    let i := toNat! i; let j := toNat! j
    let r := st.radii; let t := st.angles
    let ehm : Rat := if i == 0 then 0 else r[i]! - r[i-1]!
    let ehp : Rat := if i + 1 ≥ g.nr then 0 else r[i+1]! - r[i]!
    let jm := g.jm1 j
    let ekm : Rat := t[jm+1]! - t[jm]!
    let ekp : Rat := t[j+1]! - t[j]!
    let ok := match Hex.parseDouble hm, Hex.parseDouble hp, Hex.parseDouble km, Hex.parseDouble kp with
      | some a, some b, some c, some d => closeTo a ehm ∧ closeTo b ehp ∧ closeTo c ekm ∧ closeTo d ekp
      | _, _, _, _ => false
    -- the expected values are differences of the grid's OWN coordinate arrays (no model involved): a disagreement is the property's
    -- clause "neighbour and spacing queries agree with the coordinate arrays" failing on the implementation
    if !ok then
      IO.println s!"ORACLE C17 neighbour distances of node ({i},{j}) do not agree with the grid's own coordinate arrays: reported h-={hm} h+={hp} k-={km} k+={kp} (hex), arrays give {ehm} {ehp} {ekm} {ekp}; grid={repr g} radii={st.radii.toList.take 6}… angles={st.angles.toList.take 6}…"
    let stats ← check st.stats ok fun _ => s!"distances grid={repr g} i={i} j={j}"
    return { st with stats := stats }
  | ["E"] => return st
  | "seed" :: _ => return st
  | ["end"] => return st
  | _ =>
    IO.println s!"REJECT {line.trimAscii}"
    return { st with stats := { st.stats with rejects := st.stats.rejects + 1 } }

def main : IO UInt32 := do
  let stdin ← IO.getStdin
  let st ← forLines stdin ({} : St) step
  let s := st.stats
  IO.println s!"SUMMARY kind=grid cases={s.cases} checks={s.checks} diffs={s.diffs} rejects={s.rejects} pow2_wraps={st.pow2paths} mod_wraps={st.modpaths} auto_splits={st.autoSplits} explicit_splits={st.explicitSplits} coarsenings={st.coarsenings} oracle_fails={st.oracleFails} max_nr={st.maxNr} max_nt={st.maxNt}"
  for x in st.sample do IO.println s!"SAMPLE {x}"
  return (if s.diffs == 0 ∧ s.rejects == 0 ∧ st.oracleFails == 0 then 0 else 1)

end GridDrv
