import GMGModel.Hex
import GMGModel.Scalar
/-! Driver utilities: line protocol parsing, counters. -/
namespace Drv

structure Stats where
  checks : Nat := 0
  diffs : Nat := 0
  rejects : Nat := 0
  cases : Nat := 0
  shown : Nat := 0
  deriving Repr

def fields (line : String) : List String :=
  (line.trimAscii.toString.splitOn " ").filter (· ≠ "")

/-- value of `key=` among tokens -/
def kv (toks : List String) (key : String) : Option String :=
  let pre := key ++ "="
  match toks.find? (·.startsWith pre) with
  | some t => some (t.drop pre.length).toString
  | none => none

def toInt! (s : String) : Int := s.toInt?.getD (-999999999)
def toNat! (s : String) : Nat := s.toNat?.getD 999999999

/-- record one comparison; print the first few disagreements -/
def check (st : Stats) (ok : Bool) (msg : Unit → String) : IO Stats := do
  if ok then return { st with checks := st.checks + 1 }
  else
    if st.shown < 25 then IO.println s!"DIFF {msg ()}"
    return { st with checks := st.checks + 1, diffs := st.diffs + 1, shown := st.shown + 1 }

def M_PI : Float := Float.ofBits 0x400921FB54442D18

partial def forLines (h : IO.FS.Stream) (init : σ) (f : σ → String → IO σ) : IO σ := do
  let line ← h.getLine
  if line.isEmpty then return init
  let s ← f init line
  forLines h s f

end Drv

/-- magnitude semiring: evaluating a kernel over `AbsQ` on absolute values of its inputs gives the sum of the
    magnitudes of all its terms (every subtraction becomes an addition), the scale of the rounding allowance -/
structure AbsQ where
  v : Rat
instance : Scalar AbsQ where
  add a b := ⟨a.v + b.v⟩
  sub a b := ⟨a.v + b.v⟩
  mul a b := ⟨a.v * b.v⟩
  div a b := ⟨a.v / b.v⟩
  neg a := a
  ofNat k := ⟨(k : Rat)⟩

namespace Drv
def absq (q : Rat) : AbsQ := ⟨Hex.rabs q⟩

/-- exact value of a Float (finite) -/
def floatToRat (f : Float) : Rat := (Hex.bitsToRat f.toBits.toNat).getD 0

def parseFloatsA (s : String) : Array Float :=
  if s == "-" ∨ s.isEmpty then #[] else
  (s.splitOn ",").foldl (fun a t => match Hex.parseFloat t with | some f => a.push f | none => a) #[]
def parseRatsA (s : String) : Array Rat :=
  if s == "-" ∨ s.isEmpty then #[] else (Hex.parseVec s).getD #[]
end Drv
