import GMGModel.Stencil
import GMGDriver.Util
import Std.Data.HashMap
/-! `gmgdriver residual`: the real residual operators (give/take, cache variants, level chains) against `Stencil.take`
and `Stencil.give` evaluated in exact rationals (C03). -/
namespace OpsDrv
open Drv Stencil

/-- level record shared by all operator-level drivers -/
structure Lvl where
  nr : Nat := 0
  nt : Nat := 0
  nc : Nat := 0
  bc : Bool := false
  geo : String := ""
  coef : String := ""
  radii : Array Rat := #[]
  angles : Array Rat := #[]
  op : Op Rat := ⟨0, 0, false, 0, fun _ => 0, fun _ => 0, fun _ _ => 0, fun _ _ => 0, fun _ _ => 0, fun _ _ => 0, fun _ => 0⟩
  opAbs : Op AbsQ := ⟨0, 0, false, ⟨0⟩, fun _ => ⟨0⟩, fun _ => ⟨0⟩, fun _ _ => ⟨0⟩, fun _ _ => ⟨0⟩, fun _ _ => ⟨0⟩, fun _ _ => ⟨0⟩, fun _ => ⟨0⟩⟩
  /-- the same data in IEEE double, computed as `LevelCache` computes it (`compute_jacobian_elements`) -/
  opF : Op Float := ⟨0, 0, false, 0, fun _ => 0, fun _ => 0, fun _ _ => 0, fun _ _ => 0, fun _ _ => 0, fun _ _ => 0, fun _ => 0⟩

def field (nt : Nat) (a : Array Rat) : Field Rat := fun i j => a.getD (i * nt + j) 0
def fieldAbs (nt : Nat) (a : Array Rat) : Field AbsQ := fun i j => absq (a.getD (i * nt + j) 0)

/-- the level's operator data in IEEE double -/
def parseLevelF (toks : List String) : Op Float :=
  let nr := toNat! ((kv toks "nr").getD ""); let nt := toNat! ((kv toks "nt").getD "")
  let radiiF := parseFloatsA ((kv toks "radii").getD ""); let anglesF := parseFloatsA ((kv toks "angles").getD "")
  let h : Array Float := (Array.range (nr - 1)).map fun i => radiiF[i+1]! - radiiF[i]!
  let k : Array Float := (Array.range nt).map fun j => anglesF[j+1]! - anglesF[j]!
  let J := parseFloatsA ((kv toks "J").getD "")
  let alpha := parseFloatsA ((kv toks "alpha").getD ""); let beta := parseFloatsA ((kv toks "beta").getD "")
  let el : Array (Float × Float × Float × Float) := (Array.range (nr * nt)).map fun p =>
    jacobianElements Float.abs (J.getD (4*p) 0) (J.getD (4*p+1) 0) (J.getD (4*p+2) 0) (J.getD (4*p+3) 0) (alpha.getD (p / nt) 0)
  let fF (a : Array Float) : Field Float := fun i j => a.getD (i * nt + j) 0
  ⟨nr, nt, (kv toks "bc") == some "1", radiiF.getD 0 0, fun i => h.getD i 0, fun j => k.getD j 0,
    fF (el.map (·.1)), fF (el.map (·.2.1)), fF (el.map (·.2.2.1)), fF (el.map fun e => Float.abs e.2.2.2), fun i => beta.getD i 0⟩

def parseLevel (toks : List String) : Lvl :=
  let nr := toNat! ((kv toks "nr").getD ""); let nt := toNat! ((kv toks "nt").getD "")
  let radiiF := parseFloatsA ((kv toks "radii").getD ""); let anglesF := parseFloatsA ((kv toks "angles").getD "")
  let radii := radiiF.map floatToRat; let angles := anglesF.map floatToRat
  -- spacings as the doubles `initializeDistances` stores (one rounded subtraction each)
  let h : Array Rat := (Array.range (nr - 1)).map fun i => floatToRat (radiiF[i+1]! - radiiF[i]!)
  let k : Array Rat := (Array.range nt).map fun j => floatToRat (anglesF[j+1]! - anglesF[j]!)
  let J := parseRatsA ((kv toks "J").getD "")
  let alpha := parseRatsA ((kv toks "alpha").getD ""); let beta := parseRatsA ((kv toks "beta").getD "")
  let el : Array (Rat × Rat × Rat × Rat) := (Array.range (nr * nt)).map fun p =>
    jacobianElements Hex.rabs (J.getD (4*p) 0) (J.getD (4*p+1) 0) (J.getD (4*p+2) 0) (J.getD (4*p+3) 0) (alpha.getD (p / nt) 0)
  let arr := el.map (·.1); let att := el.map (·.2.1); let art := el.map (·.2.2.1); let det := el.map fun e => Hex.rabs e.2.2.2
  -- magnitudes of the coefficient formulas (products summed without cancellation, divided by the exact |det|)
  let elA : Array (AbsQ × AbsQ × AbsQ × AbsQ) := (Array.range (nr * nt)).map fun p =>
    jacobianElements (fun _ => absq (det.getD p 0)) (absq (J.getD (4*p) 0)) (absq (J.getD (4*p+1) 0)) (absq (J.getD (4*p+2) 0)) (absq (J.getD (4*p+3) 0)) (absq (alpha.getD (p / nt) 0))
  let fA (a : Array AbsQ) : Field AbsQ := fun i j => a.getD (i * nt + j) ⟨0⟩
  let bc := (kv toks "bc") == some "1"
  let op : Op Rat := ⟨nr, nt, bc, radii.getD 0 0, fun i => h.getD i 0, fun j => k.getD j 0, field nt arr, field nt att, field nt art, field nt det, fun i => beta.getD i 0⟩
  let opAbs : Op AbsQ := ⟨nr, nt, bc, absq (radii.getD 0 0), fun i => absq (h.getD i 0), fun j => absq (k.getD j 0), fA (elA.map (·.1)), fA (elA.map (·.2.1)), fA (elA.map (·.2.2.1)), fieldAbs nt det, fun i => absq (beta.getD i 0)⟩
  { nr := nr, nt := nt, nc := toNat! ((kv toks "nc").getD ""), bc := bc, geo := (kv toks "geo").getD "", coef := (kv toks "coef").getD "",
    radii := radii, angles := angles, op := op, opAbs := opAbs, opF := parseLevelF toks }

structure St where
  stats : Stats := {}
  lvl : Lvl := {}
  oracleFails : Nat := 0
  worst : Rat := 0            -- max |impl - exact| / S over all nodes
  giveRuns : Nat := 0
  takeRuns : Nat := 0
  firstOut : Std.HashMap String (Array Rat × String) := {}   -- oracle: give vs take, cached vs uncached on identical inputs
  sample : List String := []

/-- allowance: |impl - exact| ≤ 2^-40 · (sum of magnitudes of all terms) -/
def tol : Rat := Hex.twoPowNeg 40

def residualStep (st : St) (line : String) : IO St := do
  let toks := fields line
  match toks with
  | "LV" :: rest =>
    let l := parseLevel rest
    IO.println s!"SIG residual nr={l.nr} nt={l.nt} bc={l.bc} geo={l.geo} coef={l.coef}"
    let sample := if st.sample.length < 3 then st.sample ++ [s!"LV nr={l.nr} nt={l.nt} nc={l.nc} bc={l.bc} geo={l.geo} coef={l.coef}"] else st.sample
    return { st with lvl := l, stats := { st.stats with cases := st.stats.cases + 1 }, sample := sample }
  | "RES" :: rest =>
    let l := st.lvl
    let x := parseRatsA ((kv rest "x").getD ""); let f := parseRatsA ((kv rest "f").getD ""); let out := parseRatsA ((kv rest "out").getD "")
    let strat := (kv rest "strat").getD ""
    let exact := Stencil.take l.op (field l.nt f) (field l.nt x)
    let mag := Stencil.take l.opAbs (fieldAbs l.nt f) (fieldAbs l.nt x)
    let mut worst := st.worst
    let mut bad : Option (Nat × Nat) := none
    -- runtime instance of the theorem give = take on the exact model (small grids)
    let mut giveOK := true
    if strat == "give" ∧ (kv rest "threads") == some "1" ∧ l.nr * l.nt ≤ 64 then
      let g := Stencil.give l.op (field l.nt f) (field l.nt x)
      for i in [0:l.nr] do
        for j in [0:l.nt] do
          -- exact when the angular spacings are antipodally symmetric; the doubles are so only up to rounding
          if Hex.rabs (g i j - exact i j) > tol * (mag i j).v then giveOK := false
    for i in [0:l.nr] do
      for j in [0:l.nt] do
        let e := exact i j; let s := (mag i j).v; let v := out.getD (i * l.nt + j) 0
        let d := Hex.rabs (v - e)
        if s > 0 ∧ d / s > worst then worst := d / s
        if d > tol * s ∧ bad.isNone then bad := some (i, j)
    let stats ← check st.stats giveOK fun _ => s!"model give != model take on nr={l.nr} nt={l.nt} bc={l.bc}"
    let stats ← check stats bad.isNone fun _ =>
      let p := bad.getD (0, 0)
      s!"residual {strat} cache={(kv rest "cache").getD ""} threads={(kv rest "threads").getD ""} lvl={(kv rest "lvl").getD ""} nr={l.nr} nt={l.nt} bc={l.bc} geo={l.geo} coef={l.coef}: node ({p.1},{p.2}) impl differs from the exact model row beyond 2^-40·S"
    -- implementation oracle: all strategies / cache variants / thread counts on the same inputs agree with each other
    let key := s!"{(kv rest "x").getD ""}|{(kv rest "f").getD ""}|{l.nr}|{l.nt}"
    let mut st := { st with stats := stats, worst := worst, giveRuns := st.giveRuns + (if strat == "give" then 1 else 0), takeRuns := st.takeRuns + (if strat == "take" then 1 else 0) }
    let me := s!"{strat} cache={(kv rest "cache").getD ""} threads={(kv rest "threads").getD ""} lvl={(kv rest "lvl").getD ""}"
    match st.firstOut.get? key with
    | some (first, who) =>
      let mut okAll := true
      for i in [0:l.nr] do
        for j in [0:l.nt] do
          let s := (mag i j).v
          if Hex.rabs (out.getD (i * l.nt + j) 0 - first.getD (i * l.nt + j) 0) > 2 * tol * s then okAll := false
      if !okAll then
        IO.println s!"ORACLE C03 two evaluations of the residual on the same inputs disagree: [{me}] vs [{who}] nr={l.nr} nt={l.nt} bc={l.bc} geo={l.geo} coef={l.coef} x={(kv rest "x").getD ""} f={(kv rest "f").getD ""}"
        st := { st with oracleFails := st.oracleFails + 1 }
      return st
    | none => return { st with firstOut := st.firstOut.insert key (out, me) }
  | ["E"] => return st
  | "seed" :: _ => return st
  | ["end"] => return st
  | _ => IO.println s!"REJECT {(line.take 80).toString}"; return { st with stats := { st.stats with rejects := st.stats.rejects + 1 } }

def ratToSci (q : Rat) : String :=
  -- coarse decimal rendering for the evidence only (never compared)
  -- in units of 2^-53
  let scaled : Int := (q.num * (2 : Int) ^ 73) / (q.den : Int)
  toString ((Float.ofInt scaled) / (2.0 : Float) ^ (20.0 : Float)) ++ "ulp"

def residualMain : IO UInt32 := do
  let st ← forLines (← IO.getStdin) ({} : St) residualStep
  let s := st.stats
  IO.println s!"SUMMARY kind=residual cases={s.cases} checks={s.checks} diffs={s.diffs} rejects={s.rejects} give_runs={st.giveRuns} take_runs={st.takeRuns} oracle_fails={st.oracleFails} worst_error_over_S_in_units_of_2^-53={ratToSci st.worst}"
  for x in st.sample do IO.println s!"SAMPLE {x}"
  return (if s.diffs == 0 ∧ s.rejects == 0 ∧ st.oracleFails == 0 then 0 else 1)

end OpsDrv
