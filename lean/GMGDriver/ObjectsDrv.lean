import GMGModel.Objects
import GMGModel.SparseLU
import GMGDriver.LinalgDrv
/-! `gmgdriver objects`: replay construct/set/solve/copy/move histories on the model (IEEE double instance)
and compare every observable the real classes expose after every step (C15). -/
namespace ObjectsDrv
open Drv LinalgDrv Objects

abbrev F := Float

structure LUo where
  n : Nat := 0
  lu : List (SparseLU.Row F) × List (SparseLU.Row F) := ([], [])

structure St where
  stats : Stats := {}
  h : Nat := 1
  cls : String := ""
  histLog : List String := []       -- the operations of the current history (short form), for the failing-input report
  vec : Array (Vec F) := Array.replicate 4 Vec.default
  diag : Array (Diag F) := Array.replicate 4 Diag.default
  tri : Array (Tri F) := Array.replicate 4 Tri.default
  csr : Array (CSRo F) := Array.replicate 4 CSRo.default
  coo : Array (COO F) := Array.replicate 4 COO.default
  lu : Array LUo := Array.replicate 4 {}
  -- implementation-only oracle bookkeeping
  implObs : Array String := Array.replicate 4 ""
  prevObs : Array String := Array.replicate 4 ""
  lastOp : String := ""
  lastK : Nat := 0
  lastJ : Nat := 0
  oracleFails : Nat := 0
  ops : Nat := 0
  copiesAfterSolve : Nat := 0
  assignDiffSize : Nat := 0
  emptyCopies : Nat := 0
  ub : Nat := 0
  opKinds : List (String × Nat) := []
  sample : List String := []

def setBuf {β : Type} (b : Option (Buf β)) (i : Nat) (v : β) : Option (Buf β) :=
  b.map fun x => { x with data := x.data.set i v }
def fillBuf {β : Type} (b : Option (Buf β)) (d : List β) : Option (Buf β) := b.map fun x => { x with data := d }

def ints (s : String) : List Int := if s == "-" ∨ s.isEmpty then [] else (s.splitOn ",").map toInt!
def bump (l : List (String × Nat)) (k : String) : List (String × Nat) :=
  if l.any (·.1 == k) then l.map fun e => if e.1 == k then (k, e.2 + 1) else e else l ++ [(k, 1)]

/-- apply a copy/move operation with the class's model members; `none` = the model predicts undefined behaviour -/
def copyMove {T : Type} (arr : Array T) (h : Nat) (op : String) (k j : Nat)
    (cc : Nat → T → Option (Nat × T)) (ca : Nat → T → T → Option (Nat × T)) (mc : T → T × T) (ma : T → T → T × T)
    [Inhabited T] : Option (Nat × Array T) :=
  match op with
  | "copyctor" => if k == j then some (h, arr) else (cc h arr[j]!).map fun r => (r.1, arr.set! k r.2)
  | "copyassign" => if k == j then some (h, arr) else (ca h arr[k]! arr[j]!).map fun r => (r.1, arr.set! k r.2)
  | "movector" => if k == j then some (h, arr) else let r := mc arr[j]!; some (h, (arr.set! k r.1).set! j r.2)
  | "moveassign" => if k == j then some (h, arr) else let r := ma arr[k]! arr[j]!; some (h, (arr.set! k r.1).set! j r.2)
  | _ => none

instance : Inhabited (Vec F) := ⟨Vec.default⟩
instance : Inhabited (Diag F) := ⟨Diag.default⟩
instance : Inhabited (Tri F) := ⟨Tri.default⟩
instance : Inhabited (CSRo F) := ⟨CSRo.default⟩
instance : Inhabited (COO F) := ⟨COO.default⟩
instance : Inhabited LUo := ⟨{}⟩

def tinyF (d : F) : Bool := d.abs < 1e-12

def luSolve (o : LUo) (b : List F) : List F := (SparseLU.solve tinyF o.lu b).getD []

def mkCSR (n : Nat) (toks : List String) : SparseLU.CSR F :=
  let tr := parseNats ((kv toks "trows").getD ""); let tc := parseNats ((kv toks "tcols").getD "")
  let tv := parseFloats ((kv toks "tvals").getD "")
  SparseLU.CSR.ofTriplets n n (tr.zip (tc.zip tv))

def opStep (st : St) (toks : List String) : IO St := do
  let st := { st with ops := st.ops + 1, prevObs := st.implObs }
  match toks with
  | "OP" :: cls :: op :: k :: rest =>
    let k := toNat! k
    let st := { st with lastOp := op, lastK := k, lastJ := (rest.head?.map toNat!).getD 0, opKinds := bump st.opKinds s!"{cls}.{op}" }
    if op == "copyctor" ∨ op == "copyassign" ∨ op == "movector" ∨ op == "moveassign" then
      let j := toNat! (rest.headD "0")
      let mut st := st
      -- distribution bookkeeping
      if cls == "tri" ∧ (st.tri[j]!).factorized then st := { st with copiesAfterSolve := st.copiesAfterSolve + 1 }
      let r : Option St := match cls with
        | "vec" => (copyMove st.vec st.h op k j Vec.copyCtor Vec.copyAssign Vec.moveCtor Vec.moveAssign).map fun r => { st with h := r.1, vec := r.2 }
        | "diag" => (copyMove st.diag st.h op k j Diag.copyCtor Diag.copyAssign Diag.moveCtor Diag.moveAssign).map fun r => { st with h := r.1, diag := r.2 }
        | "tri" => (copyMove st.tri st.h op k j Tri.copyCtor Tri.copyAssign Tri.moveCtor Tri.moveAssign).map fun r => { st with h := r.1, tri := r.2 }
        | "csr" => (copyMove st.csr st.h op k j CSRo.copyCtor CSRo.copyAssign CSRo.moveCtor CSRo.moveAssign).map fun r => { st with h := r.1, csr := r.2 }
        | "coo" => (copyMove st.coo st.h op k j COO.copyCtor COO.copyAssign COO.moveCtor COO.moveAssign).map fun r => { st with h := r.1, coo := r.2 }
        | "lu" => if k == j then some st else
            if op == "copyctor" ∨ op == "copyassign" then some { st with lu := st.lu.set! k st.lu[j]! }
            else some { st with lu := (st.lu.set! k st.lu[j]!).set! j {} }
        | _ => none
      match r with
      | some s => return s
      | none =>
        IO.println s!"DIFF model predicts undefined behaviour (out-of-bounds or null access) for {cls} {op} {k} {j} but the implementation ran"
        return { st with ub := st.ub + 1, stats := { st.stats with diffs := st.stats.diffs + 1 } }
    else match cls, op with
    | "vec", "new" => let r := Vec.ofSize (α := F) st.h (toNat! (rest.headD "0")); return { st with h := r.1, vec := st.vec.set! k r.2 }
    | "vec", "set" => let v := st.vec[k]!; return { st with vec := st.vec.set! k { v with values := setBuf v.values (toNat! (rest.headD "0")) ((Hex.parseFloat (rest.getD 1 "")).getD 0.0) } }
    | "diag", "new" => let r := Diag.ofSize (α := F) st.h (toNat! (rest.headD "0")); return { st with h := r.1, diag := st.diag.set! k r.2 }
    | "diag", "set" => let v := st.diag[k]!; return { st with diag := st.diag.set! k { v with diag := setBuf v.diag (toNat! (rest.headD "0")) ((Hex.parseFloat (rest.getD 1 "")).getD 0.0) } }
    | "diag", "solve" =>
      let d := st.diag[k]!; let rhs := parseFloats ((kv rest "rhs").getD ""); let x := parseFloats ((kv rest "x").getD "")
      let xm := (rhs.zip ((bufData d.diag).take d.n)).map fun p => p.1 / p.2
      let stats ← check st.stats (fcloseList xm x) fun _ => s!"diag solve slot {k}"
      return { st with stats := stats }
    | "tri", "new" =>
      let n := toNat! (rest.headD "0")
      let r := Tri.ofSize (α := F) st.h n
      let t := r.2
      let t := { t with cyclic := (kv rest "cyc") == some "1", main := fillBuf t.main (parseFloats ((kv rest "main").getD "")),
                        sub := fillBuf t.sub (parseFloats ((kv rest "sub").getD "")), corner := (Hex.parseFloat ((kv rest "corner").getD "")).getD 0.0 }
      return { st with h := r.1, tri := st.tri.set! k t }
    | "tri", "solve" =>
      let rhs := parseFloats ((kv rest "rhs").getD ""); let x := parseFloats ((kv rest "x").getD "")
      let r := Tri.solve st.tri[k]! rhs
      let stats ← check st.stats (fcloseList r.2 x) fun _ => s!"tri solve slot {k}: model x={r.2} impl x={x}"
      let mut st := { st with stats := stats, tri := st.tri.set! k r.1 }
      if !(fcloseList r.2 x) then
        IO.println s!"ORACLE C15 after this history of constructions, copies, moves and solves the tridiagonal solver in slot {k} no longer returns the solution of the system it was given (as an object that was only ever constructed and filled does): history = [{"; ".intercalate (st.histLog.drop (st.histLog.length - 16))}]"
        st := { st with oracleFails := st.oracleFails + 1 }
      return st
    | "csr", "new" =>
      let n := toNat! (rest.headD "0"); let A := mkCSR n rest
      let (h1, v) := alloc st.h A.values.length (0.0 : F); let (h2, c) := alloc h1 A.values.length (0 : Int); let (h3, r) := alloc h2 (n + 1) (0 : Int)
      let o : CSRo F := ⟨n, n, A.values.length, fillBuf v A.values, fillBuf c (A.colIdx.map Int.ofNat), fillBuf r (A.rowPtr.map Int.ofNat)⟩
      return { st with h := h3, csr := st.csr.set! k o }
    | "csr", "set" => let v := st.csr[k]!; return { st with csr := st.csr.set! k { v with values := setBuf v.values (toNat! (rest.headD "0")) ((Hex.parseFloat (rest.getD 1 "")).getD 0.0) } }
    | "coo", "new" => let n := toNat! (rest.headD "0"); let r := COO.ofSize (α := F) st.h n n (toNat! (rest.getD 1 "0")); return { st with h := r.1, coo := st.coo.set! k r.2 }
    | "coo", "set" =>
      let v := st.coo[k]!; let i := toNat! (rest.headD "0")
      return { st with coo := st.coo.set! k { v with rowIdx := setBuf v.rowIdx i (toInt! (rest.getD 1 "")), colIdx := setBuf v.colIdx i (toInt! (rest.getD 2 "")), values := setBuf v.values i ((Hex.parseFloat (rest.getD 3 "")).getD 0.0) } }
    | "coo", "sym" => let v := st.coo[k]!; return { st with coo := st.coo.set! k { v with symmetric := rest.headD "0" == "1" } }
    | "lu", "new" => let n := toNat! (rest.headD "0"); return { st with lu := st.lu.set! k ⟨n, SparseLU.factorRows (mkCSR n rest)⟩ }
    | "lu", "solve" =>
      let rhs := parseFloats ((kv rest "rhs").getD ""); let x := parseFloats ((kv rest "x").getD "")
      let xm := luSolve st.lu[k]! rhs
      let scale := (x.map Float.abs).foldl max 0.0
      let ok := xm.length == x.length ∧ (xm.zip x).all fun p => (p.1 - p.2).abs ≤ 1e-9 * scale
      let stats ← check st.stats ok fun _ => s!"lu solve slot {k}"
      let mut st := { st with stats := stats }
      if !ok then
        IO.println s!"ORACLE C15 after this history of constructions, copies, moves and solves the sparse LU solver in slot {k} no longer returns the solution of the system it was given: history = [{"; ".intercalate (st.histLog.drop (st.histLog.length - 16))}]"
        st := { st with oracleFails := st.oracleFails + 1 }
      return st
    | _, _ => IO.println s!"REJECT op {toks}"; return { st with stats := { st.stats with rejects := st.stats.rejects + 1 } }
  | _ => return st

def obsStep (st : St) (line : String) (toks : List String) : IO St := do
  match toks with
  | "OBS" :: cls :: k :: rest =>
    let k := toNat! k
    let fl (key : String) := parseFloats ((kv rest key).getD "")
    let nat (key : String) := toNat! ((kv rest key).getD "")
    let ok : Bool := match cls with
      | "vec" => let o := (st.vec[k]!).obs; o.1 == nat "size" ∧ fcloseList o.2 (fl "vals")
      | "diag" => let o := (st.diag[k]!).obs; o.1 == nat "n" ∧ fcloseList o.2 (fl "vals")
      | "tri" =>
        let t := st.tri[k]!
        t.n == nat "n" ∧ (t.cyclic == ((kv rest "cyc") == some "1")) ∧ (t.n == 0 ∨ t.factorized == ((kv rest "fact") == some "1")) ∧
        fcloseList ((bufData t.main).take t.n) (fl "main") ∧ fcloseList ((bufData t.sub).take (t.n - 1)) (fl "sub") ∧
        (!t.cyclic ∨ fcloseList [t.corner] (fl "corner"))
      | "csr" =>
        let o := (st.csr[k]!).obs
        o.1 == nat "rows" ∧ o.2.1 == nat "cols" ∧ o.2.2.1 == nat "nnz" ∧ fcloseList o.2.2.2.1 (fl "vals") ∧
        o.2.2.2.2.1 == ints ((kv rest "colidx").getD "") ∧ o.2.2.2.2.2 == ints ((kv rest "rowptr").getD "")
      | "coo" =>
        let o := (st.coo[k]!).obs
        o.1 == nat "rows" ∧ o.2.1 == nat "cols" ∧ o.2.2.1 == nat "nnz" ∧ o.2.2.2.1 == ints ((kv rest "rowidx").getD "") ∧
        o.2.2.2.2.1 == ints ((kv rest "colidx").getD "") ∧ fcloseList o.2.2.2.2.2.1 (fl "vals") ∧ (o.2.2.2.2.2.2 == ((kv rest "sym") == some "1"))
      | "lu" =>
        let o := st.lu[k]!
        o.n == nat "n" ∧ (o.n == 0 ∨
          (let x := fl "probe"; let xm := luSolve o ((List.range o.n).map fun i => 1.0 + i.toFloat)
           let scale := (x.map Float.abs).foldl max 0.0
           xm.length == x.length ∧ (xm.zip x).all fun p => (p.1 - p.2).abs ≤ 1e-9 * scale))
      | _ => false
    let stats ← check st.stats ok fun _ => s!"observable state differs after `{st.lastOp} {st.lastK} {st.lastJ}`: {line.trimAscii}"
    let payload := " ".intercalate rest
    let mut st := { st with stats := stats, implObs := st.implObs.set! k payload }
    -- implementation-only oracle, evaluated when the last slot has been reported
    if k == 3 then
      let a := st.lastK; let b := st.lastJ
      if a != b ∧ (List.range 4).all (fun q => st.prevObs[q]! != "") then
        if (st.lastOp == "copyctor" ∨ st.lastOp == "copyassign") ∧ st.implObs[a]! != st.implObs[b]! then
          IO.println s!"ORACLE C15 {cls} {st.lastOp}: copy differs from its source: copy=[{st.implObs[a]!}] source=[{st.implObs[b]!}]"
          st := { st with oracleFails := st.oracleFails + 1 }
        if (st.lastOp == "movector" ∨ st.lastOp == "moveassign") ∧ st.implObs[a]! != st.prevObs[b]! then
          IO.println s!"ORACLE C15 {cls} {st.lastOp}: moved-to object differs from the source before the move: new=[{st.implObs[a]!}] old source=[{st.prevObs[b]!}]"
          st := { st with oracleFails := st.oracleFails + 1 }
        if st.lastOp == "copyctor" ∨ st.lastOp == "copyassign" then
          -- the source and all other slots are unchanged by a copy
          for q in [0:4] do
            if q != a ∧ st.implObs[q]! != st.prevObs[q]! then
              IO.println s!"ORACLE C15 {cls} {st.lastOp} {a} {b}: slot {q} changed: before=[{st.prevObs[q]!}] after=[{st.implObs[q]!}]"
              st := { st with oracleFails := st.oracleFails + 1 }
    return st
  | _ => return st

def step (st : St) (line : String) : IO St := do
  let toks := fields line
  match toks with
  | "H" :: n :: cls :: _ =>
    IO.println s!"SIG history class={cls}"
    let sample := if st.sample.length < 3 then st.sample ++ [s!"history {n} class={cls}"] else st.sample
    return { ({} : St) with stats := { st.stats with cases := st.stats.cases + 1 }, cls := cls, oracleFails := st.oracleFails, ops := st.ops, copiesAfterSolve := st.copiesAfterSolve, ub := st.ub, opKinds := st.opKinds, sample := sample }
  | "OP" :: _ =>
    -- before the operation the previous observations become "before" values
    let short := " ".intercalate ((toks.drop 1).take 4 |>.map fun t => (t.take 24).toString)
    opStep { st with histLog := st.histLog ++ [short] } toks
  | "OBS" :: _ => obsStep st line toks
  | "ALIAS" :: _ =>
    IO.println s!"ORACLE C15 two live objects share storage: {line.trimAscii} after `{st.lastOp} {st.lastK} {st.lastJ}`"
    return { st with oracleFails := st.oracleFails + 1 }
  | ["E"] => return st
  | "seed" :: _ => return st
  | ["end"] => return st
  | _ => IO.println s!"REJECT {line.trimAscii}"; return { st with stats := { st.stats with rejects := st.stats.rejects + 1 } }

def main : IO UInt32 := do
  let st ← forLines (← IO.getStdin) ({} : St) step
  let s := st.stats
  let kinds := " ".intercalate (st.opKinds.map fun e => s!"{e.1}:{e.2}")
  IO.println s!"SUMMARY kind=objects cases={s.cases} checks={s.checks} diffs={s.diffs} rejects={s.rejects} ops={st.ops} tri_copies_after_solve={st.copiesAfterSolve} oracle_fails={st.oracleFails}"
  IO.println s!"SAMPLE op distribution: {kinds}"
  for x in st.sample do IO.println s!"SAMPLE {x}"
  for e in st.opKinds do IO.println s!"SIG op {e.1}"
  return (if s.diffs == 0 ∧ s.rejects == 0 ∧ st.oracleFails == 0 then 0 else 1)

end ObjectsDrv
