import GMGModel.GridGen
import GMGDriver.Util
/-! `gmgdriver gridgen`: the parametric PolarGrid constructor (run in a sanitised child process per parameter tuple) against
`GridGen.generate` in exact rationals: outcome class (grid / exception / undefined behaviour), sizes and radii (C18). -/
namespace GridGenDrv
open Drv GridGen

structure St where
  stats : Stats := {}
  cur : Option GenIn := none
  curLine : String := ""
  oks : Nat := 0
  throws : Nat := 0
  ubs : Nat := 0
  oracleFails : Nat := 0
  files : Nat := 0
  badfiles : Nat := 0
  sample : List String := []

def hexR (s : String) : Rat := (Hex.parseDouble s).getD 0

def outcome (o : Out (List Rat × Nat)) : String := match o with | .ok _ => "ok" | .throw _ => "throw" | .ub _ => "ub"

def step (st : St) (line : String) : IO St := do
  let toks := fields line
  match toks with
  | "GEN" :: rest =>
    let g : GenIn := ⟨hexR ((kv rest "R0").getD ""), hexR ((kv rest "Rmax").getD ""), toInt! ((kv rest "nr_exp").getD ""), toInt! ((kv rest "nt_exp").getD ""),
                      hexR ((kv rest "refr").getD ""), toInt! ((kv rest "aniso").getD ""), toNat! ((kv rest "div").getD "")⟩
    return { st with cur := some g, curLine := line.trimAscii.toString, stats := { st.stats with cases := st.stats.cases + 1 } }
  | "OK" :: rest =>
    match st.cur with
    | none => return st
    | some g =>
      let m := generate g
      let radii := parseRatsA ((kv rest "radii").getD "")
      let nr := toNat! ((kv rest "nr").getD ""); let nt := toNat! ((kv rest "nt").getD "")
      let angles := parseRatsA ((kv rest "angles").getD "")
      let mut st := st
      if (kv rest "nested_in_one_halving_less") == some "0" then
        IO.println s!"ORACLE C18 the grid with divideBy2 = d does not contain the grid with d - 1 as its every-second-node subgrid with midpoints in between (r and theta): {st.curLine}"
        st := { st with oracleFails := st.oracleFails + 1 }
      -- implementation oracle (C18 statement): strictly increasing from exactly R0 to exactly Rmax, odd nodes are midpoints, uniform angles
      let strict := (List.range (radii.size - 1)).all fun i => radii[i]! < radii[i+1]!
      let ends : Bool := radii.size == nr ∧ radii[0]! == g.R0 ∧ radii[radii.size-1]! == g.Rmax
      let mids := (List.range ((radii.size - 1) / 2)).all fun I =>
        Hex.rabs (radii[2*I+1]! - (radii[2*I]! + radii[2*I+2]!) / 2) ≤ Hex.twoPowNeg 48 * radii[2*I+2]!
      let uni : Bool := angles.size == nt + 1 ∧ angles[0]! == 0 ∧ (List.range nt).all fun j =>
        Hex.rabs ((angles[j+1]! - angles[j]!) - angles[nt]! / nt) ≤ Hex.twoPowNeg 46 * angles[nt]!
      let coarsenable : Bool := nr % 2 == 1 ∧ nt % 4 == 0
      if !(strict ∧ ends ∧ mids ∧ uni ∧ coarsenable) then
        IO.println s!"ORACLE C18 generated grid is not valid (strict={strict} endpoints={ends} midpoints={mids} uniform_angles={uni} coarsenable={coarsenable}): {st.curLine}"
        st := { st with oracleFails := st.oracleFails + 1 }
      -- `center = floor(nr * percentage)` is discontinuous: when the exact product is (nearly) an integer the double evaluation of the
      -- implementation and the exact evaluation of the model may legitimately land on different sides; such tuples are not compared
      let nEqui : Int := (2 : Int) ^ g.nrExp.toNat - (2 : Int) ^ g.aniso.toNat + (if g.aniso % 2 == 1 then 1 else 0)
      let tprod : Rat := ((nEqui + 1 : Int) : Rat) * ((g.refr - g.R0) / (g.Rmax - g.R0))
      let onTie : Bool := g.aniso > 0 ∧ g.Rmax != g.R0 ∧ Hex.rabs (tprod - (tprod.floor : Rat)) < Hex.twoPowNeg 30 ∨
                          g.aniso > 0 ∧ g.Rmax != g.R0 ∧ Hex.rabs (tprod - ((tprod.floor + 1 : Int) : Rat)) < Hex.twoPowNeg 30
      let stats ← match (if onTie then Out.throw "tie" else m) with
        | .throw "tie" => pure st.stats
        | .ok (mr, mnt) =>
          let close := mr.length == radii.size ∧ (List.range mr.length).all fun i => Hex.rabs (mr.getD i 0 - radii[i]!) ≤ Hex.twoPowNeg 40 * g.Rmax
          check st.stats (mr.length == nr ∧ mnt == nt ∧ close) fun _ => s!"gridgen: sizes/radii differ: impl nr={nr} nt={nt}, model nr={mr.length} nt={mnt}: {st.curLine}"
        | o => check st.stats false fun _ => s!"gridgen: implementation produced a grid, model outcome {outcome o} ({repr o}): {st.curLine}"
      IO.println s!"SIG gen nr_exp={g.nrExp} aniso={g.aniso} div={g.div} outcome=ok"
      let sample := if st.sample.length < 3 then st.sample ++ [st.curLine] else st.sample
      return { st with stats := stats, oks := st.oks + 1, cur := none, sample := sample }
  | "THROW" :: _ =>
    match st.cur with
    | none => return st
    | some g =>
      let m := generate g
      let stats ← check st.stats (outcome m == "throw") fun _ => s!"gridgen: implementation threw, model outcome {outcome m}: {st.curLine}"
      IO.println s!"SIG gen nr_exp={g.nrExp} aniso={g.aniso} outcome=throw"
      return { st with stats := stats, throws := st.throws + 1, cur := none }
  | "ABORT" :: _ =>
    match st.cur with
    | none => return st
    | some g =>
      let m := generate g
      -- a sanitizer abort / crash on an accepted-or-not parameter tuple is a violation of C18 by itself
      IO.println s!"ORACLE C18 grid construction touched memory out of bounds or hit undefined behaviour (sanitizer abort / crash): {st.curLine} [model: {match m with | .ub w => w | o => outcome o}]"
      let stats ← check st.stats (outcome m == "ub") fun _ => s!"gridgen: implementation aborted, model outcome {outcome m}: {st.curLine}"
      return { st with stats := stats, ubs := st.ubs + 1, oracleFails := st.oracleFails + 1, cur := none }
  | "FILE" :: rest =>
    -- round trip up to the written precision: |read(write x) - x| ≤ 10^-p / 2 (+ one ulp)
    let p := toNat! ((kv rest "precision").getD "")
    let bound : Rat := 1 / (2 * (10 : Rat) ^ p) + Hex.twoPowNeg 50
    let ok := (kv rest "same_shape") == some "1" ∧ hexR ((kv rest "dr").getD "") ≤ bound ∧ hexR ((kv rest "dt").getD "") ≤ bound
    let mut st := st
    if !ok then
      IO.println s!"ORACLE C18 grid file round trip exceeds the written precision: {line.trimAscii}"
      st := { st with oracleFails := st.oracleFails + 1 }
    let stats ← check st.stats true fun _ => ""
    return { st with stats := stats, files := st.files + 1 }
  | "FILE-THROW" :: _ =>
    IO.println s!"ORACLE C18 a grid written by writeToFile could not be loaded: {line.trimAscii}"
    return { st with oracleFails := st.oracleFails + 1 }
  | "BADFILE" :: what :: res :: _ =>
    let shouldAccept := what == "good" ∨ what == "good-two-radii" ∨ what == "vector-good"
    -- `throw-not-needed`: the generated grid happened to be strictly increasing, so accepting it is right
    let ok := res == "throw-not-needed" ∨ (res == "accepted") == shouldAccept
    let mut st := st
    if !ok then
      IO.println s!"ORACLE C18 malformed grid file `{what}`: outcome `{res}`"
      st := { st with oracleFails := st.oracleFails + 1 }
    let stats ← check st.stats true fun _ => ""
    return { st with stats := stats, badfiles := st.badfiles + 1 }
  | "FILECASE" :: _ => return st
  | "Error" :: _ => return st     -- "Error opening file" on std::cerr/cout of loadVectorFromFile
  | "seed" :: _ => return st
  | "end" :: _ => return st
  | [] => return st
  | _ => IO.println s!"REJECT {(line.take 100).toString}"; return { st with stats := { st.stats with rejects := st.stats.rejects + 1 } }

def main : IO UInt32 := do
  let st ← forLines (← IO.getStdin) ({} : St) step
  let s := st.stats
  IO.println s!"SUMMARY kind=gridgen cases={s.cases} checks={s.checks} diffs={s.diffs} rejects={s.rejects} grids={st.oks} exceptions={st.throws} aborts={st.ubs} file_roundtrips={st.files} malformed_files={st.badfiles} oracle_fails={st.oracleFails}"
  for x in st.sample do IO.println s!"SAMPLE {(x.take 160).toString}"
  return (if s.diffs == 0 ∧ s.rejects == 0 ∧ st.oracleFails == 0 then 0 else 1)

end GridGenDrv
