import GMGModel.Sched
import Generated.Sched
import GMGDriver.Util
import Std.Data.HashMap
import Std.Data.HashSet
/-! `gmgdriver foot`: footprint correspondence for C11.  The harness `h_foot` calls every vector kernel of the parallel
regions once per line argument / colour on the real classes and reports which nodes of the shared arrays the call wrote
and read.  Here
 * observed writes must lie in the model's `writes`, observed reads in `reads ∪ writes` (an in-place update is a write);
   a cell outside is a `DIFF` (the hand-written footprint of `GMGModel/Sched.lean` no longer covers the code),
 * the conflict search of the *generated* schedule is repeated with the OBSERVED footprints in place of the model's; a
   conflicting pair of iterations is a concrete race (`ORACLE C11`). -/
namespace FootDrv
open Sched Drv

def clsOf : String → Option Cls
  | "ResidualGive" => some .ResidualGive | "ResidualTake" => some .ResidualTake
  | "SmootherGive" => some .SmootherGive | "SmootherTake" => some .SmootherTake
  | "ExSmootherGive" => some .ExSmootherGive | "ExSmootherTake" => some .ExSmootherTake
  | "DirectGive" => some .DirectGive | "DirectTake" => some .DirectTake
  | "SmootherGiveAsc" => some .SmootherGiveAsc | "SmootherTakeAsc" => some .SmootherTakeAsc
  | "ExSmootherGiveAsc" => some .ExSmootherGiveAsc | "ExSmootherTakeAsc" => some .ExSmootherTakeAsc
  | _ => none
def fnOf : String → Option Fn
  | "applyCircleSection" => some .applyCircleSection | "applyRadialSection" => some .applyRadialSection
  | "applyAscOrthoCircleSection" => some .applyAscOrthoCircleSection | "applyAscOrthoRadialSection" => some .applyAscOrthoRadialSection
  | "solveCircleSection" => some .solveCircleSection | "solveRadialSection" => some .solveRadialSection
  | "buildSolverMatrixCircleSection" => some .buildSolverMatrixCircleSection | "buildSolverMatrixRadialSection" => some .buildSolverMatrixRadialSection
  | "buildAscCircleSection" => some .buildAscCircleSection | "buildAscRadialSection" => some .buildAscRadialSection
  | _ => none
def colOf : String → Colour
  | "black" => .black | "white" => .white | _ => .none
def arrOf : String → Option Arr
  | "out" => some .out | "x" => some .x | "temp" => some .temp | _ => none
def arrCode : Arr → Nat
  | .out => 0 | .x => 1 | .temp => 2

def key (k : Call) : String := s!"{repr k.cls}|{repr k.fn}|{k.arg}|{repr k.colour}"

/-- "out:1,2;x:3" → cells (array, row-major node) -/
def parseCells (s : String) : Array (Arr × Nat) := Id.run do
  let mut out := #[]
  if s == "-" then return out
  for part in s.splitOn ";" do
    match part.splitOn ":" with
    | [a, ids] =>
      match arrOf a with
      | some arr => for t in ids.splitOn "," do out := out.push (arr, toNat! t)
      | none => pure ()
    | _ => pure ()
  return out

structure Obs where
  w : Std.HashSet Nat
  r : Std.HashSet Nat

def code (a : Arr) (idx : Nat) : Nat := arrCode a * 1000000 + idx

/-- conflict search of one generated region on the observed footprints; `none` also when a call was not probed -/
def findObsConflict (s : Shape) (reg : Region) (tab : Std.HashMap String Obs) : Option String × Nat := Id.run do
  let loops := reg.loops.toArray
  let mut unprobed := 0
  for iv in intervals reg.loops do
    for ia in iv do
      for ib in iv do
        if ia ≤ ib then
          let l := loops[ia]!; let l' := loops[ib]!
          for t in iterations l s do
            for t' in iterations l' s do
              if ia != ib ∨ t < t' then
                for k in l.body s t do
                  for k' in l'.body s t' do
                    match tab.get? (key k), tab.get? (key k') with
                    | some o, some o' =>
                      for c in o.w.toList do
                        if o'.w.contains c ∨ o'.r.contains c then
                          return (some s!"{reg.name}: loops {ia} (iteration {t}, {repr k.fn} {k.arg}) and {ib} (iteration {t'}, {repr k'.fn} {k'.arg}) both touch array {c / 1000000} node ({(c % 1000000) / s.nt.toNat},{(c % 1000000) % s.nt.toNat}), one of them writing, inside one barrier interval; shape nr={s.nr} nt={s.nt} nc={s.nc} (footprints observed on the real kernels)", unprobed)
                      for c in o'.w.toList do
                        if o.r.contains c then
                          return (some s!"{reg.name}: loops {ia} (iteration {t}, {repr k.fn} {k.arg}) reads and {ib} (iteration {t'}, {repr k'.fn} {k'.arg}) writes array {c / 1000000} node ({(c % 1000000) / s.nt.toNat},{(c % 1000000) % s.nt.toNat}) inside one barrier interval; shape nr={s.nr} nt={s.nt} nc={s.nc} (footprints observed on the real kernels)", unprobed)
                    | _, _ => unprobed := unprobed + 1
  return (none, unprobed)

structure St where
  st : Stats := {}
  shape : Option Shape := none
  tab : Std.HashMap String Obs := {}
  calls : Nat := 0
  obsCells : Nat := 0
  modelOnly : Nat := 0
  regionsSearched : Nat := 0
  unprobed : Nat := 0
  conflicts : Nat := 0
  sigs : Std.HashSet String := {}

def vectorRegions : List Region := Gen.all

def flush (σ : St) : IO St := do
  match σ.shape with
  | none => return σ
  | some s =>
    let mut σ := σ
    for reg in vectorRegions do
      let (c, u) := findObsConflict s reg σ.tab
      σ := { σ with regionsSearched := σ.regionsSearched + 1, unprobed := σ.unprobed + u }
      match c with
      | some msg =>
        if σ.conflicts < 5 then IO.println s!"ORACLE C11 {msg}"
        σ := { σ with conflicts := σ.conflicts + 1 }
      | none => pure ()
    return { σ with shape := none, tab := {} }

def step (σ : St) (line : String) : IO St := do
  let toks := fields line
  match toks with
  | "SHAPE" :: rest =>
    let σ ← flush σ
    let nr := toInt! ((kv rest "nr").getD ""); let nt := toInt! ((kv rest "nt").getD ""); let nc := toInt! ((kv rest "nc").getD "")
    return { σ with shape := some ⟨nr, nt, nc⟩, st := { σ.st with cases := σ.st.cases + 1 } }
  | "FP" :: rest =>
    match σ.shape, clsOf ((kv rest "cls").getD ""), fnOf ((kv rest "fn").getD "") with
    | some s, some cls, some fn =>
      let k : Call := ⟨cls, fn, toInt! ((kv rest "arg").getD ""), colOf ((kv rest "col").getD "")⟩
      let w := parseCells ((kv rest "W").getD "-")
      let r := parseCells ((kv rest "R").getD "-")
      let nt := s.nt.toNat
      let mut st := σ.st
      for (a, idx) in w do
        let ri : Int := (idx / nt : Nat); let ti : Int := (idx % nt : Nat)
        st ← check st (decide (writes s k a ri ti)) fun _ =>
          s!"footprint {repr cls}.{repr fn} arg={k.arg} colour={repr k.colour}: the kernel WRITES {repr a} at node ({ri},{ti}), outside the model's write footprint; shape nr={s.nr} nt={s.nt} nc={s.nc}"
      for (a, idx) in r do
        let ri : Int := (idx / nt : Nat); let ti : Int := (idx % nt : Nat)
        st ← check st (decide (reads s k a ri ti ∨ writes s k a ri ti)) fun _ =>
          s!"footprint {repr cls}.{repr fn} arg={k.arg} colour={repr k.colour}: the kernel READS {repr a} at node ({ri},{ti}), outside the model's footprint; shape nr={s.nr} nt={s.nt} nc={s.nc}"
      -- tightness: model cells never observed
      let wset : Std.HashSet Nat := w.foldl (fun h (a, i) => h.insert (code a i)) {}
      let rset : Std.HashSet Nat := r.foldl (fun h (a, i) => h.insert (code a i)) {}
      let mut only := 0
      for a in [Arr.out, Arr.x, Arr.temp] do
        for (ri, ti) in nodes s do
          let c := code a (ri.toNat * nt + ti.toNat)
          if decide (writes s k a ri ti) ∧ !wset.contains c then only := only + 1
          if decide (reads s k a ri ti) ∧ !rset.contains c ∧ !wset.contains c then only := only + 1
      let sig := s!"{repr cls}.{repr fn} {repr k.colour} w={w.size != 0} r={r.size != 0} edge={decide (k.arg = 0 ∨ k.arg = s.nc - 1 ∨ k.arg = s.nc ∨ k.arg = s.nt - 1)} nc2={s.nc % 2}"
      return { σ with st := st, tab := σ.tab.insert (key k) ⟨wset, rset⟩, calls := σ.calls + 1, obsCells := σ.obsCells + w.size + r.size,
                      modelOnly := σ.modelOnly + only, sigs := σ.sigs.insert sig }
    | _, _, _ => return { σ with st := { σ.st with rejects := σ.st.rejects + 1 } }
  | _ => return σ

def main : IO UInt32 := do
  let stdin ← IO.getStdin
  let σ ← forLines stdin ({} : St) step
  let σ ← flush σ
  for sg in σ.sigs.toList do IO.println s!"SIG {sg}"
  IO.println s!"SUMMARY kind=foot cases={σ.st.cases} checks={σ.st.checks} diffs={σ.st.diffs} rejects={σ.st.rejects} kernel_calls_probed={σ.calls} observed_cells={σ.obsCells} model_cells_never_observed={σ.modelOnly} regions_searched_on_observed_footprints={σ.regionsSearched} pairs_with_unprobed_call={σ.unprobed} observed_conflicts={σ.conflicts}"
  return (if σ.st.diffs == 0 ∧ σ.conflicts == 0 then 0 else 1)

end FootDrv
