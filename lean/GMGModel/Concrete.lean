import GMGModel.Solve
import GMGModel.SmootherCode
import GMGModel.ExSmootherCode
import GMGModel.DirectCode
import GMGModel.Interp
import GMGModel.SmootherGiveCode
import GMGModel.ExSmootherGiveCode
import GMGModel.DirectGiveCode
/-!
# The whole cycle inside the model: the abstract operators of `MGCycle.Ops` instantiated with the code-level models
`Cycle.lean` / `Solve.lean` describe the control flow of the solver over ABSTRACT per-level operators.  Here those operators
are the code-level models of the other modules, so that an instruction list of the IR becomes an executable computation on
the vectors of a level hierarchy:

  smooth      ↦ `SmootherCode.sweep`          (SmootherTake; SmootherGive returns the same array, C06g)
  exSmooth    ↦ `ExSmootherCode.sweep`        (ExtrapolatedSmootherTake; …Give the same, C07g)
  resid       ↦ `Stencil.take`                (ResidualTake; ResidualGive the same, C03)
  solve       ↦ `DirectCode.solve`            (DirectSolverTakeCustomLU; …Give the same matrix, C04g)
  transfers   ↦ `Interp.*`
  zero / add / lin43 / exResid ↦ the vector kernels of `vector_operations.h` and `GMGPolar::extrapolatedResidual`

Vectors are row-major arrays per level (`x[i * nt + j]`); `none` is the outcome "the process left through the sparse LU's
`std::exit` branch / an out-of-bounds store of the assembly".
-/
namespace Concrete
open Stencil Scalar MGCycle
variable {α : Type} [Scalar α]

/-- one level: operator data and the circle/radial split of its grid -/
structure LevelData (α : Type) where
  op : Op α
  nc : Nat

/-- a level hierarchy as `setup()` builds it -/
structure Hier (α : Type) where
  levels : List (LevelData α)            -- level 0 = finest
  pairs : List (Interp.Pair α)           -- pair l: fine level l, coarse level l + 1
  tiny : α → Bool                        -- the sparse LU's `abs(pivot) < 1e-12` test
  tables : DirectCode.Tables             -- offset tables of the direct solver (regenerated from the header)


section
variable (H : Hier α)

def lvl (l : Nat) : LevelData α :=
  H.levels.getD l ⟨⟨0, 0, false, n 0, fun _ => n 0, fun _ => n 0, fun _ _ => n 0, fun _ _ => n 0, fun _ _ => n 0, fun _ _ => n 0, fun _ => n 0⟩, 0⟩
def pair (l : Nat) : Interp.Pair α := H.pairs.getD l ⟨0, 0, fun _ => n 0, fun _ => n 0, fun _ => n 0, fun _ => n 0⟩
def nrOf (l : Nat) : Nat := (lvl H l).op.nr
def ntOf (l : Nat) : Nat := (lvl H l).op.nt

def fld (l : Nat) (a : Array α) : Field α := SmootherCode.fld (ntOf H l) a
def ofFld (l : Nat) (u : Field α) : Array α := SmootherCode.ofField (nrOf H l) (ntOf H l) u

/-- `4.0 / 3.0` and `-1.0 / 3.0` as the compiler folds them -/
def c43 : α := n 4 / n 3
def cm13 : α := -(n 1) / n 3

/-- `GMGPolar::extrapolatedResidual`: `4/3 r` at fine-only nodes, `(4 r - r_next) / 3` at nodes of the next coarser grid -/
def exResidual (l : Nat) (r rNext : Array α) : Array α :=
  ofFld H l fun i j =>
    if i % 2 = 1 ∨ j % 2 = 1 then fld H l r i j * c43
    else (n 4 * fld H l r i j - fld H (l + 1) rNext (i / 2) (j / 2)) / n 3

/-- the operators of the control-flow IR on this hierarchy -/
def ops : Ops (Option (Array α)) where
  smooth l x rhs := x.bind fun x => rhs.bind fun f =>
    SmootherCode.sweep (lvl H l).op H.tiny (lvl H l).nc (fld H l f) x
  smoothTmp _ _ _ tmp := tmp
  exSmooth l x rhs := x.bind fun x => rhs.bind fun f =>
    ExSmootherCode.sweep (lvl H l).op H.tiny (lvl H l).nc (fld H l f) x
  exSmoothTmp _ _ _ tmp := tmp
  resid l rhs x := rhs.bind fun f => x.bind fun x =>
    some (ofFld H l (take (lvl H l).op (fld H l f) (fld H l x)))
  restrict l v := v.map fun a => ofFld H (l + 1) (Interp.restrict (pair H l) (fld H l a))
  exRestrict l v := v.map fun a => ofFld H (l + 1) (Interp.exRestrict (pair H l) (fld H l a))
  inject l v := v.map fun a => ofFld H (l + 1) (Interp.inject (fld H l a))
  prolong l v := v.map fun a => ofFld H (l - 1) (Interp.prolong (pair H (l - 1)) (fld H l a))
  exProlong l v := v.map fun a => ofFld H (l - 1) (Interp.exProlong (pair H (l - 1)) (fld H l a))
  fmgInterp l v := v.map fun a => ofFld H (l - 1) (Interp.fmgInterp (pair H (l - 1)) (fld H l a))
  solve l v := v.bind fun b =>
    (DirectCode.solve H.tables (lvl H l).op H.tiny b.toList).bind fun r => r.map fun xs => xs.toArray
  zero l := some (Array.replicate (nrOf H l * ntOf H l) (n 0))
  add x y := x.bind fun x => y.bind fun y =>
    some (Array.ofFn (n := x.size) fun p => x[p] + y.getD p.val (n 0))
  lin43 x y := x.bind fun x => y.bind fun y =>
    some (Array.ofFn (n := x.size) fun p => c43 * x[p] + cm13 * y.getD p.val (n 0))
  exResid l r rn := r.bind fun r => rn.bind fun rn => some (exResidual H l r rn)

/-- the offset tables of the scatter ("give") variants (regenerated from the headers: `Generated/Stencils.lean`) -/
structure GiveTables where
  direct : DirectCode.Tables                 -- the `DirectGive_*` tables of `directSolverGiveCustomLU.h`
  exSmoother : ExSmootherGiveCode.Tables     -- the two tables of `extrapolatedSmootherGive.h`

/-- the same cycle with the operators of the GIVE strategy: `SmootherGive`, `ExtrapolatedSmootherGive` (matrices assembled by
    scatter, `none` also for an out-of-bounds store of that assembly), `ResidualGive`, `DirectSolverGiveCustomLU`; transfers and
    vector kernels are shared by both strategies.  `C10g`: on admissible hierarchies every cycle over `opsGive` returns what the
    cycle over `ops` returns. -/
def opsGive (G : GiveTables) : Ops (Option (Array α)) :=
  { ops H with
    smooth := fun l x rhs => x.bind fun x => rhs.bind fun f =>
      SmootherGiveCode.sweep (lvl H l).op (lvl H l).nc H.tiny (fld H l f) x
    exSmooth := fun l x rhs => x.bind fun x => rhs.bind fun f =>
      (ExSmootherGiveCode.assemble G.exSmoother (lvl H l).op (lvl H l).nc).bind fun m =>
        ExSmootherGiveCode.sweep (lvl H l).op m H.tiny (lvl H l).nc (fld H l f) x
    resid := fun l rhs x => rhs.bind fun f => x.bind fun x =>
      some (ofFld H l (give (lvl H l).op (fld H l f) (fld H l x)))
    solve := fun l v => v.bind fun b =>
      (DirectGiveCode.solve G.direct (lvl H l).op (lvl H l).nc H.tiny b.toList).bind fun r => r.map fun xs => xs.toArray }

/-- one top-level cycle of `solve()` with the give operators -/
def cycleGive (G : GiveTables) (c : Cfg) (k : Kind) (extrapolated fgs : Bool) (m : Mem (Option (Array α))) : Mem (Option (Array α)) :=
  exec (opsGive H G) (cycleAt c k extrapolated fgs 0) m

/-! ### strict memory for execution
`MGCycle.exec` threads a memory `Ref → V` (a function) through the instruction list — the right object for the theorems, but as
compiled code every read would re-run the whole history.  `execL` is the same interpreter over an association list; the two
agree on every cell (`C10c.execL_eq_exec`). -/

abbrev LMem (V : Type) := List (Ref × V)

def LMem.get {V : Type} (dflt : Ref → V) (m : LMem V) (r : Ref) : V :=
  match m.find? (fun e => e.1 == r) with
  | some e => e.2
  | none => dflt r

def LMem.set {V : Type} (m : LMem V) (r : Ref) (v : V) : LMem V := (r, v) :: m.filter (fun e => e.1 != r)

def stepL {V : Type} (o : Ops V) (d : Ref → V) (m : LMem V) : Instr → LMem V
  | .smooth l x rhs tmp =>
      let vx := o.smooth l (m.get d x) (m.get d rhs); let vt := o.smoothTmp l (m.get d x) (m.get d rhs) (m.get d tmp)
      (m.set tmp vt).set x vx
  | .exSmooth l x rhs tmp =>
      let vx := o.exSmooth l (m.get d x) (m.get d rhs); let vt := o.exSmoothTmp l (m.get d x) (m.get d rhs) (m.get d tmp)
      (m.set tmp vt).set x vx
  | .residual l out rhs x => m.set out (o.resid l (m.get d rhs) (m.get d x))
  | .restrict l out inp => m.set out (o.restrict l (m.get d inp))
  | .exRestrict l out inp => m.set out (o.exRestrict l (m.get d inp))
  | .inject l out inp => m.set out (o.inject l (m.get d inp))
  | .prolong l out inp => m.set out (o.prolong l (m.get d inp))
  | .exProlong l out inp => m.set out (o.exProlong l (m.get d inp))
  | .fmgInterp l out inp => m.set out (o.fmgInterp l (m.get d inp))
  | .directSolve l x => m.set x (o.solve l (m.get d x))
  | .zero x => m.set x (o.zero x.1)
  | .add x y => m.set x (o.add (m.get d x) (m.get d y))
  | .lin43 x y => m.set x (o.lin43 (m.get d x) (m.get d y))
  | .copy x y => m.set x (m.get d y)
  | .exResidual l r nxt => m.set r (o.exResid l (m.get d r) (m.get d nxt))

/-- the interpreter over an association-list memory; cells not yet written read as `d` -/
def execL {V : Type} (o : Ops V) (d : Ref → V) (p : List Instr) (m : LMem V) : LMem V := p.foldl (stepL o d) m

/-- one top-level cycle of `solve()` executed on the hierarchy -/
def cycle (c : Cfg) (k : Kind) (extrapolated fgs : Bool) (m : Mem (Option (Array α))) : Mem (Option (Array α)) :=
  exec (ops H) (cycleAt c k extrapolated fgs 0) m

/-- the FMG start-up / zero start executed on the hierarchy -/
def start (c : Cfg) (fmg : Bool) (fmgKind : Kind) (fmgIters : Nat) (extrapolated fgs : Bool) (m : Mem (Option (Array α))) : Mem (Option (Array α)) :=
  exec (ops H) (initSolution c fmg fmgKind fmgIters extrapolated fgs (c.levels - 1)) m

/-- the same cycle with the strict memory (what the driver runs): the level-0 solution afterwards -/
def cycleL (c : Cfg) (k : Kind) (extrapolated fgs : Bool) (d : Ref → Option (Array α)) : Option (Array α) :=
  (execL (ops H) d (cycleAt c k extrapolated fgs 0) []).get d (0, Buf.sol)

/-- the start-up with the strict memory (what the driver runs): the level-0 solution afterwards -/
def startL (c : Cfg) (fmg : Bool) (fmgKind : Kind) (fmgIters : Nat) (extrapolated fgs : Bool) (d : Ref → Option (Array α)) : Option (Array α) :=
  (execL (ops H) d (initSolution c fmg fmgKind fmgIters extrapolated fgs (c.levels - 1)) []).get d (0, Buf.sol)

end
end Concrete
