import GMGModel.DirectCode
/-!
# Coarse-grid direct solver — code level (give strategy, CustomLU)
mirrors `src/DirectSolver/DirectSolverGiveCustomLU/buildSolverMatrix.cpp` (`NODE_BUILD_SOLVER_MATRIX_GIVE`,
`UPDATE_MATRIX_ELEMENT`: `row_nz_index(row, offset) = col; row_nz_entry(row, offset) += val`, the sequential branch of
`buildSolverMatrix()`: circle sections `i_r = 0 … nc-1` (each `i_theta` ascending), then radial sections
`i_theta = 0 … nt-1` (each `i_r = nc … nr-1` ascending)), `matrixStencil.cpp` (`getStencil`, `getStencilSize`: the same
case distinction as the take class, so `DirectCode.stencilOf` / `DirectCode.stencilSize` are reused) and the offset tables of
`directSolverGiveCustomLU.h`, which are a parameter (`DirectCode.Tables`), instantiated with the `DirectGive_*` tables of
`Generated/Stencils.lean` that `tools/stencil_extract.py` regenerates from the header on every check.

Every node scatters into its own row and into the rows of its neighbours; the offset of a store is looked up in the stencil
table of the ROW's radial index (`getStencil(i_r ± 1)` for the radial neighbours, `CenterStencil` for the angular neighbours
and for the across-origin partner, which all lie on the node's own circle).  What the code does NOT store is transcribed as
well: nothing is given to a Dirichlet row (`i_r = 1` with `DirBC_Interior`: no "Left" block; `i_r = nr-2`: no "Right" block),
but the Dirichlet nodes themselves DO give to their interior neighbour (`i_r = 0` with `DirBC_Interior`: "Right" block;
`i_r = nr-1`: "Left" block), so the boundary columns stay in the matrix; across the origin the mixed terms towards the
antipode are dropped (7-point rows).

Rows and columns are numbered row-major (`i * nt + j`), as in `DirectCode`.  A store through a table entry `-1`, beyond the
row's allocated size or into a row that does not exist is an out-of-bounds store in the C++; the model reports it as `none`.
Same operations in the same order as the single-threaded C++ (the `Float` instance reproduces its rounding); the
multi-threaded path applies the same updates in another order (3-colouring of circles / radial lines).
-/
namespace DirectGiveCode
open Stencil Scalar SmootherCode DirectCode
variable {α : Type} [Scalar α]

/-- one `UPDATE_MATRIX_ELEMENT(solver_matrix, Stencil_of_row[position], row, col, val)`:
    row node, position, column node, value -/
abbrev MUpd (α : Type) := (Nat × Nat) × Pos × (Nat × Nat) × α

section
variable (o : Op α)

/-- `0.25 * (h1 + h2) * (k1 + k2) * coeff_beta * fabs(detDF)` -/
def massValue (i j : Nat) : α :=
  quarter * (h1 o i + o.h i) * (o.k (jm o j) + o.k j) * o.beta i * o.det i j

/-- `(coeff1 + coeff2) * arr + (coeff3 + coeff4) * att` -/
def diagValue (i j : Nat) : α :=
  (coeff1 o i j + coeff2 o i j) * o.arr i j + (coeff3 o i j + coeff4 o i j) * o.att i j

/-- "Fill matrix row of (i,j)"; `l` is the "left" node: `(i-1, j)`, or the antipode `(0, j + nt/2)` across the origin -/
def fillC (i j : Nat) (l : Nat × Nat) : List (MUpd α) :=
  [((i, j), .Center, (i, j), massValue o i j),
   ((i, j), .Left, l, -(coeff1 o i j) * o.arr i j),
   ((i, j), .Right, (i + 1, j), -(coeff2 o i j) * o.arr i j),
   ((i, j), .Bottom, (i, jm o j), -(coeff3 o i j) * o.att i j),
   ((i, j), .Top, (i, jp o j), -(coeff4 o i j) * o.att i j),
   ((i, j), .Center, (i, j), diagValue o i j)]

/-- "Fill matrix row of (i-1,j)" -/
def fillL (i j : Nat) : List (MUpd α) :=
  [((i - 1, j), .Right, (i, j), -(coeff1 o i j) * o.arr i j),
   ((i - 1, j), .Center, (i - 1, j), coeff1 o i j * o.arr i j),
   ((i - 1, j), .TopRight, (i, jp o j), -quarter * o.art i j),
   ((i - 1, j), .BottomRight, (i, jm o j), quarter * o.art i j)]

/-- "Fill matrix row of (i+1,j)" -/
def fillR (i j : Nat) : List (MUpd α) :=
  [((i + 1, j), .Left, (i, j), -(coeff2 o i j) * o.arr i j),
   ((i + 1, j), .Center, (i + 1, j), coeff2 o i j * o.arr i j),
   ((i + 1, j), .TopLeft, (i, jp o j), quarter * o.art i j),
   ((i + 1, j), .BottomLeft, (i, jm o j), -quarter * o.art i j)]

/-- "Fill matrix row of (i,j-1)" -/
def fillB (i j : Nat) : List (MUpd α) :=
  [((i, jm o j), .Top, (i, j), -(coeff3 o i j) * o.att i j),
   ((i, jm o j), .Center, (i, jm o j), coeff3 o i j * o.att i j),
   ((i, jm o j), .TopRight, (i + 1, j), -quarter * o.art i j),
   ((i, jm o j), .TopLeft, (i - 1, j), quarter * o.art i j)]

/-- "Fill matrix row of (i,j+1)" -/
def fillT (i j : Nat) : List (MUpd α) :=
  [((i, jp o j), .Bottom, (i, j), -(coeff4 o i j) * o.att i j),
   ((i, jp o j), .Center, (i, jp o j), coeff4 o i j * o.att i j),
   ((i, jp o j), .BottomRight, (i + 1, j), quarter * o.art i j),
   ((i, jp o j), .BottomLeft, (i - 1, j), -quarter * o.art i j)]

/-- across the origin, "Fill matrix row of (i-1,j)": the row of the antipode, directions rotated by 180 degrees
    ("Right -> Left"); the two mixed terms are "REMOVED DUE TO ARTIFICAL 7 POINT STENCIL" -/
def fillLAcross (j : Nat) : List (MUpd α) :=
  [((0, ja o j), .Left, (0, j), -(coeff1 o 0 j) * o.arr 0 j),
   ((0, ja o j), .Center, (0, ja o j), coeff1 o 0 j * o.arr 0 j)]

/-- across the origin, "Fill matrix row of (i,j-1)" (no `TopLeft`) -/
def fillBAcross (j : Nat) : List (MUpd α) :=
  [((0, jm o j), .Top, (0, j), -(coeff3 o 0 j) * o.att 0 j),
   ((0, jm o j), .Center, (0, jm o j), coeff3 o 0 j * o.att 0 j),
   ((0, jm o j), .TopRight, (1, j), -quarter * o.art 0 j)]

/-- across the origin, "Fill matrix row of (i,j+1)" (no `BottomLeft`) -/
def fillTAcross (j : Nat) : List (MUpd α) :=
  [((0, jp o j), .Bottom, (0, j), -(coeff4 o 0 j) * o.att 0 j),
   ((0, jp o j), .Center, (0, jp o j), coeff4 o 0 j * o.att 0 j),
   ((0, jp o j), .BottomRight, (1, j), quarter * o.art 0 j)]

/-- the Dirichlet rows: `val = 1.0` on the diagonal -/
def fillDirichlet (i j : Nat) : List (MUpd α) := [((i, j), .Center, (i, j), n 1)]

/-- the stores of `NODE_BUILD_SOLVER_MATRIX_GIVE` for node `(i, j)`, in code order; the case distinction is the macro's
    `if (i_r > 1 && i_r < nr-2) … else if (i_r == 0) … else if (i_r == 1) … else if (i_r == nr-2) … else if (i_r == nr-1)` -/
def nodeUpdates (i j : Nat) : List (MUpd α) :=
  if 1 < i ∧ i + 2 < o.nr then
    fillC o i j (i - 1, j) ++ fillL o i j ++ fillR o i j ++ fillB o i j ++ fillT o i j
  else if i = 0 then
    if o.bc then fillDirichlet 0 j ++ fillR o 0 j
    else fillC o 0 j (0, ja o j) ++ fillLAcross o j ++ fillR o 0 j ++ fillBAcross o j ++ fillTAcross o j
  else if i = 1 then
    -- "Don't give to the inner Dirichlet boundary!"
    fillC o i j (i - 1, j) ++ (if o.bc then [] else fillL o i j) ++ fillR o i j ++ fillB o i j ++ fillT o i j
  else if i + 2 = o.nr then
    -- "Don't give to the outer dirichlet boundary!"
    fillC o i j (i - 1, j) ++ fillL o i j ++ fillB o i j ++ fillT o i j
  else if i + 1 = o.nr then
    -- "Give value to the interior nodes!"
    fillDirichlet i j ++ fillL o i j
  else []

/-- the sequential order of `buildSolverMatrix()` (`omp_get_max_threads() == 1`): `buildSolverMatrixCircleSection(i_r)` for
    `i_r < nc = numberSmootherCircles()`, then `buildSolverMatrixRadialSection(i_theta)` for every `i_theta` -/
def nodeOrder (nc : Nat) : List (Nat × Nat) :=
  ((List.range nc).flatMap fun i => (List.range o.nt).map fun j => (i, j)) ++
  ((List.range o.nt).flatMap fun j => (List.range (o.nr - nc)).map fun t => (nc + t, j))

/-- all stores of the assembly in execution order -/
def allUpdates (nc : Nat) : List (MUpd α) := (nodeOrder o nc).flatMap fun p => nodeUpdates o p.1 p.2

/-- `SparseMatrixCSR(n, n, nnz_per_row)` with `nnz_per_row = getStencilSize`, `values_data()[i] = 0.0` (and column
    indices value-initialised); `none` = `getStencilSize` throws -/
def initRows : Option (List (List (Nat × α))) :=
  (List.range (o.nr * o.nt)).foldr (fun p acc => match stencilSize o (p / o.nt), acc with
    | some sz, some rs => some (List.replicate sz (0, n 0) :: rs)
    | _, _ => none) (some [])

end

section
variable (T : Tables) (o : Op α)

/-- one `UPDATE_MATRIX_ELEMENT`: the offset comes from the table of the row's radial index; column stored, value accumulated -/
def applyUpd (rs : List (List (Nat × α))) (u : MUpd α) : Option (List (List (Nat × α))) :=
  match stencilOf T o u.1.1 with
  | none => none
  | some tbl =>
    let off := tbl.getD u.2.1.idx (-1)
    let r := u.1.1 * o.nt + u.1.2
    let row := rs.getD r []
    if 0 ≤ off ∧ off.toNat < row.length then
      some (rs.set r (row.set off.toNat (u.2.2.1.1 * o.nt + u.2.2.1.2, (row.getD off.toNat (0, n 0)).2 + u.2.2.2)))
    else none

/-- all rows in storage order after the sequential assembly -/
def rows (nc : Nat) : Option (List (List (Nat × α))) :=
  (allUpdates o nc).foldl (fun st u => st.bind fun rs => applyUpd T o rs u) (initRows o)

/-- `buildSolverMatrix()`, sequential branch -/
def assemble (nc : Nat) : Option (SparseLU.CSR α) :=
  (rows T o nc).map fun rs =>
    ⟨o.nr * o.nt, o.nr * o.nt, rs.flatMap (·.map (·.2)), rs.flatMap (·.map (·.1)),
      rs.foldl (fun (acc : List Nat × Nat) r => (acc.1 ++ [acc.2 + r.length], acc.2 + r.length)) ([0], 0) |>.1⟩

/-- `DirectSolverGiveCustomLU`: assemble, factorise, `solveInPlace` (outer `none`: out-of-bounds store during assembly;
    inner `none`: the LU's `std::exit` branch) -/
def solve (nc : Nat) (tiny : α → Bool) (b : List α) : Option (Option (List α)) :=
  (assemble T o nc).map fun M => SparseLU.solve tiny (SparseLU.factorRows M) b

end
end DirectGiveCode
