import GMGModel.Cycle
/-!
# Semantics of instruction lists and the `solve()` loop
mirrors `src/GMGPolar/solver.cpp:1-200` (after the `fix:` commits: statistics are cleared and the COMBINED smoother
switch is re-armed at the top of `solve()`).

`Ops V` are abstract per-level operators on an arbitrary vector type `V`; `exec` interprets an instruction list over a
memory `Ref → V`.  The loop is a state machine with explicit fuel `maxit`.
-/
namespace MGCycle

structure Ops (V : Type) where
  smooth : Nat → V → V → V            -- level, x, rhs ↦ new x
  smoothTmp : Nat → V → V → V → V     -- what the scratch vector holds afterwards (arbitrary function of x, rhs, old tmp)
  exSmooth : Nat → V → V → V
  exSmoothTmp : Nat → V → V → V → V
  resid : Nat → V → V → V             -- level, rhs, x
  restrict : Nat → V → V
  exRestrict : Nat → V → V
  inject : Nat → V → V
  prolong : Nat → V → V               -- argument: the coarse level number
  exProlong : Nat → V → V
  fmgInterp : Nat → V → V
  solve : Nat → V → V
  zero : Nat → V                       -- the zero vector of a level
  add : V → V → V
  lin43 : V → V → V
  exResid : Nat → V → V → V

abbrev Mem (V : Type) := Ref → V

def upd {V : Type} (m : Mem V) (r : Ref) (v : V) : Mem V := fun q => if q = r then v else m q

def stepI {V : Type} (o : Ops V) (m : Mem V) : Instr → Mem V
  | .smooth l x rhs tmp => upd (upd m tmp (o.smoothTmp l (m x) (m rhs) (m tmp))) x (o.smooth l (m x) (m rhs))
  | .exSmooth l x rhs tmp => upd (upd m tmp (o.exSmoothTmp l (m x) (m rhs) (m tmp))) x (o.exSmooth l (m x) (m rhs))
  | .residual l out rhs x => upd m out (o.resid l (m rhs) (m x))
  | .restrict l out inp => upd m out (o.restrict l (m inp))
  | .exRestrict l out inp => upd m out (o.exRestrict l (m inp))
  | .inject l out inp => upd m out (o.inject l (m inp))
  | .prolong l out inp => upd m out (o.prolong l (m inp))
  | .exProlong l out inp => upd m out (o.exProlong l (m inp))
  | .fmgInterp l out inp => upd m out (o.fmgInterp l (m inp))
  | .directSolve l x => upd m x (o.solve l (m x))
  | .zero x => upd m x (o.zero x.1)
  | .add x y => upd m x (o.add (m x) (m y))
  | .lin43 x y => upd m x (o.lin43 (m x) (m y))
  | .copy x y => upd m x (m y)
  | .exResidual l r nxt => upd m r (o.exResid l (m r) (m nxt))

def exec {V : Type} (o : Ops V) (p : List Instr) (m : Mem V) : Mem V := p.foldl (stepI o) m

/-- options of one solve -/
structure SolveCfg (R : Type) where
  cyc : Cfg
  kind : Kind
  extrapMode : Nat              -- 0 none, 1 implicit, 2 full-grid smoothing, 3 combined
  fmg : Bool
  fmgKind : Kind
  fmgIters : Nat
  maxit : Nat
  absTol : Option R
  relTol : Option R

/-- arithmetic the stop test needs, abstract (instantiated with IEEE double in the driver, an ordered field in proofs) -/
structure NormOps (V R : Type) where
  norm : V → R
  div : R → R → R
  one : R
  gt : R → R → Bool               -- `a > b`
  ratioGt07 : R → R → Bool        -- `cur / prev > 0.7`

/-- the solver object state that survives between calls -/
structure Obj (V R : Type) where
  mem : Mem V
  fgs : Bool                      -- full_grid_smoothing_
  norms : List R                  -- residual_norms_
  iters : Nat                     -- number_of_iterations_
  stoppedEarly : Bool

def converged {V R : Type} (n : NormOps V R) (c : SolveCfg R) (cur rel : R) : Bool :=
  (match c.relTol with | some t => !(n.gt rel t) | none => false) ||
  (match c.absTol with | some t => !(n.gt cur t) | none => false)

/-- the `while (number_of_iterations_ < max_iterations_)` loop; `fuel` = remaining iterations -/
def loop {V R : Type} (o : Ops V) (n : NormOps V R) (c : SolveCfg R) : Nat → Obj V R → Obj V R
  | 0, s => s
  | fuel + 1, s =>
      let extrapolated := c.extrapMode != 0
      if c.absTol.isSome || c.relTol.isSome then
        let m1 := exec o (stopResidual extrapolated) s.mem
        let cur := n.norm (m1 (0, .res))
        let norms := s.norms ++ [cur]
        let rel := match s.norms.head? with | none => n.one | some initial => n.div cur initial
        let sw := match s.norms.getLast? with
          | some prev => n.ratioGt07 cur prev && c.extrapMode == 3 && s.fgs
          | none => false
        let fgs := if sw then false else s.fgs
        if converged n c cur rel then { s with mem := m1, fgs := fgs, norms := norms, stoppedEarly := true }
        else
          let m2 := exec o (cycleAt c.cyc c.kind extrapolated fgs 0) m1
          loop o n c fuel { mem := m2, fgs := fgs, norms := norms, iters := s.iters + 1, stoppedEarly := false }
      else
        let m2 := exec o (cycleAt c.cyc c.kind extrapolated s.fgs 0) s.mem
        loop o n c fuel { s with mem := m2, iters := s.iters + 1, stoppedEarly := false }

/-- `GMGPolar::solve()` on an object whose `setup()` has been run (level right-hand sides in `mem`) -/
def solve {V R : Type} (o : Ops V) (n : NormOps V R) (c : SolveCfg R) (s : Obj V R) : Obj V R :=
  -- top of solve(): statistics cleared, COMBINED switch re-armed
  let fgs := if c.extrapMode == 3 then true else s.fgs
  let m0 := exec o (initSolution c.cyc c.fmg c.fmgKind c.fmgIters (c.extrapMode != 0) fgs (c.cyc.levels - 1)) s.mem
  loop o n c c.maxit { mem := m0, fgs := fgs, norms := [], iters := 0, stoppedEarly := false }

end MGCycle
