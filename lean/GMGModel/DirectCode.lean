import GMGModel.SmootherCode
/-!
# Coarse-grid direct solver — code level (take strategy, CustomLU)
mirrors `src/DirectSolver/DirectSolverTakeCustomLU/buildSolverMatrix.cpp` (`NODE_BUILD_SOLVER_MATRIX_TAKE`,
`UPDATE_MATRIX_ELEMENT`: `row_nz_index(row, offset) = col; row_nz_entry(row, offset) = val`), `matrixStencil.cpp`
(`getStencil`, `getStencilSize`) and the offset tables of `directSolverTakeCustomLU.h`, which are NOT written here: they are
a parameter (`Tables`), instantiated with `Generated/Stencils.lean` that `tools/stencil_extract.py` regenerates from the
header on every check.

Rows and columns are numbered row-major (`i * nt + j`); the library numbers nodes by `PolarGrid::index` (C17 shows it is a
bijection; the harness maps every stored entry through `multiIndex`).  A write through a table entry `-1` or beyond the
row's allocated size is an out-of-bounds store in the C++; the model reports it as `none`.
-/
namespace DirectCode
open Stencil Scalar SmootherCode
variable {α : Type} [Scalar α]

/-- positions in the order of `enum class StencilPosition` -/
inductive Pos | TopLeft | Top | TopRight | Left | Center | Right | BottomLeft | Bottom | BottomRight
  deriving DecidableEq, Repr

def Pos.idx : Pos → Nat
  | .TopLeft => 0 | .Top => 1 | .TopRight => 2 | .Left => 3 | .Center => 4 | .Right => 5
  | .BottomLeft => 6 | .Bottom => 7 | .BottomRight => 8

/-- the five offset tables of the class -/
structure Tables where
  interior : List Int
  acrossOrigin : List Int
  db : List Int
  nextInnerDB : List Int
  nextOuterDB : List Int

section
variable (T : Tables) (o : Op α)

/-- `getStencil(i_r)` (`none` = `throw std::out_of_range`) -/
def stencilOf (i : Nat) : Option (List Int) :=
  if (1 < i ∧ i + 2 < o.nr) ∨ (i = 1 ∧ o.bc = false) then some T.interior
  else if i = 0 ∧ o.bc = false then some T.acrossOrigin
  else if (i = 0 ∧ o.bc = true) ∨ i + 1 = o.nr then some T.db
  else if i = 1 ∧ o.bc = true then some T.nextInnerDB
  else if i + 2 = o.nr then some T.nextOuterDB
  else none

/-- `getStencilSize(global_index)`: the number of entries allocated for the row -/
def stencilSize (i : Nat) : Option Nat :=
  if (1 < i ∧ i + 2 < o.nr) ∨ (i = 1 ∧ o.bc = false) then some 9
  else if i = 0 ∧ o.bc = false then some 7
  else if (i = 0 ∧ o.bc = true) ∨ i + 1 = o.nr then some 1
  else if i = 1 ∧ o.bc = true then some 9
  else if i + 2 = o.nr then some 9
  else none

/-- `center_value` of the direct solver (mass term minus the four edge values) -/
def centerValueD (i j li lj : Nat) : α :=
  quarter * (h1 o i + o.h i) * (o.k (jm o j) + o.k j) * o.beta i * o.det i j
    - leftValue o i j li lj - rightValue o i j - bottomValue o i j - topValue o i j

/-- the stores of `NODE_BUILD_SOLVER_MATRIX_TAKE` for node `(i, j)`, in code order: position, column node, value -/
def writes (i j : Nat) : List (Pos × (Nat × Nat) × α) :=
  if 0 < i ∧ i + 1 < o.nr then
    [(.Center, (i, j), centerValueD o i j (i - 1) j),
     (.Left, (i - 1, j), leftValue o i j (i - 1) j),
     (.Right, (i + 1, j), rightValue o i j),
     (.Bottom, (i, jm o j), bottomValue o i j),
     (.Top, (i, jp o j), topValue o i j),
     (.BottomLeft, (i - 1, jm o j), -quarter * (o.art (i - 1) j + o.art i (jm o j))),
     (.BottomRight, (i + 1, jm o j), quarter * (o.art (i + 1) j + o.art i (jm o j))),
     (.TopLeft, (i - 1, jp o j), quarter * (o.art (i - 1) j + o.art i (jp o j))),
     (.TopRight, (i + 1, jp o j), -quarter * (o.art (i + 1) j + o.art i (jp o j)))]
  else if i = 0 then
    if o.bc then [(.Center, (0, j), n 1)]
    else
      [(.Center, (0, j), centerValueD o 0 j 0 (ja o j)),
       (.Left, (0, ja o j), leftValue o 0 j 0 (ja o j)),
       (.Right, (1, j), rightValue o 0 j),
       (.Bottom, (0, jm o j), bottomValue o 0 j),
       (.Top, (0, jp o j), topValue o 0 j),
       (.BottomRight, (1, jm o j), quarter * (o.art 1 j + o.art 0 (jm o j))),
       (.TopRight, (1, jp o j), -quarter * (o.art 1 j + o.art 0 (jp o j)))]
  else if i + 1 = o.nr then [(.Center, (i, j), n 1)]
  else []

/-- one row: `size` zero-initialised slots, every store goes to slot `table[position]` -/
def buildRow (tbl : List Int) (size : Nat) (ws : List (Pos × (Nat × Nat) × α)) : Option (List (Nat × α)) :=
  ws.foldl (fun acc w => acc.bind fun slots =>
      let off := tbl.getD w.1.idx (-1)
      if 0 ≤ off ∧ off.toNat < size then some (slots.set off.toNat (w.2.1.1 * o.nt + w.2.1.2, w.2.2)) else none)
    (some (List.replicate size (0, n 0)))

/-- row of node `(i, j)` in storage order -/
def row (i j : Nat) : Option (List (Nat × α)) :=
  match stencilOf T o i, stencilSize o i with
  | some tbl, some sz => buildRow o tbl sz (writes o i j)
  | _, _ => none

/-- all rows, row-major -/
def rows : Option (List (List (Nat × α))) :=
  (List.range (o.nr * o.nt)).foldr (fun p acc => match row T o (p / o.nt) (p % o.nt), acc with
    | some r, some rs => some (r :: rs)
    | _, _ => none) (some [])

/-- `buildSolverMatrix()` -/
def assemble : Option (SparseLU.CSR α) :=
  (rows T o).map fun rs =>
    ⟨o.nr * o.nt, o.nr * o.nt, rs.flatMap (·.map (·.2)), rs.flatMap (·.map (·.1)),
      rs.foldl (fun (acc : List Nat × Nat) r => (acc.1 ++ [acc.2 + r.length], acc.2 + r.length)) ([0], 0) |>.1⟩

/-- `DirectSolverTakeCustomLU`: assemble, factorise, `solveInPlace` (outer `none`: out-of-bounds store during assembly;
    inner `none`: the LU's `std::exit` branch) -/
def solve (tiny : α → Bool) (b : List α) : Option (Option (List α)) :=
  (assemble T o).map fun M => SparseLU.solve tiny (SparseLU.factorRows M) b

end
end DirectCode
