import GMGModel.ExSmootherCode
import GMGModel.DirectGiveCode
/-!
# Extrapolated zebra line smoother — code level (give strategy)
mirrors `src/ExtrapolatedSmoother/ExtrapolatedSmootherGive/buildAscMatrices.cpp` (`NODE_BUILD_SMOOTHER_GIVE` with
`UPDATE_TRIDIAGONAL_ELEMENT`, `UPDATE_DIAGONAL_ELEMENT`, `COO_CSR_UPDATE`: every node ACCUMULATES (`+=`) into the solver
object of its own line and into those of its neighbours; allocation and zero-initialisation of the solver vectors; the
sequential branch of `buildAscMatrices()`), `smootherSolver.cpp` (`NODE_APPLY_ASC_ORTHO_CIRCLE_GIVE`,
`NODE_APPLY_ASC_ORTHO_RADIAL_GIVE`: scatter kernels `temp[…] -= …`, `solveCircleSection`, `solveRadialSection`,
`extrapolatedSmoothingSequential`), `smootherStencil.cpp` (`getStencil`) and the offset tables `stencil_center_`,
`stencil_center_left_` of `extrapolatedSmootherGive.h`, which are a parameter (`Tables`), instantiated with the
`ExSmootherGive_*` tables of `Generated/Stencils.lean` that `tools/stencil_extract.py` regenerates from the header.

Same arithmetic operations in the same order and association as the single-threaded C++ (the `Float` instance reproduces every
stored entry and every `temp` value bit for bit).  The branch structure of the macros is kept as written: the `else if` chain of
position classes in its order, parities through `& 1`, duplicated branches duplicated, the solver object / row / column of every
store as the code names them (`circle_tridiagonal_solver[i_r / 2]`, `left_index`, …) — the slot a store ends up in is decided
by the transcription of the three macros (`target`), not by what the comments say.

What is NOT stored is transcribed too: `UPDATE_TRIDIAGONAL_ELEMENT` has no branch for `row == column + 1` (the lower
off-diagonal) and none for `(nt-1, 0)`; the entry `(nr-2, nr-1)` of an odd radial line is never written and stays `0.0` from
the initialisation; literal `1.0` at the coarse nodes and on the Dirichlet rows; `circle_diagonal_solver_[0]` stays
default-constructed (dimension 0) and `i_r == 1` is guarded so that nothing is stored there.

A store into a slot that was not allocated (vector element that does not exist, index beyond the dimension, table entry `-1`,
offset beyond `nnz_per_row`) is an out-of-bounds store in the C++; the model reports it as `none`.

Memory: a map from the arrays owned by the solver objects (`Arr`) to their contents, every slot a pair (column index — only
used by the CSR rows, `0` elsewhere —, value).  Reused: `SmootherCode.coeff1..4`, `DirectGiveCode.massValue / diagValue`,
`DirectGiveCode.nodeOrder` (circle sections, then radial sections), `ExSmootherCode.innerNnz / diagSolve`,
`Stencil.Upd / applyUpd` (`temp[t] -= v`), `Tridiag`, `SparseLU`.
-/
namespace ExSmootherGiveCode
open Stencil Scalar SmootherCode
open DirectCode (Pos)
open DirectGiveCode (massValue diagValue nodeOrder)
open ExSmootherCode (innerNnz diagSolve)
variable {α : Type} [Scalar α]

/-- the two offset tables of the class (order of `enum class StencilPosition`) -/
structure Tables where
  center : List Int
  centerLeft : List Int

/-- the arrays the solver objects own -/
inductive Arr
  | ctMain (k : Nat) | ctSub (k : Nat) | ctCorner (k : Nat)   -- circle_tridiagonal_solver_[k]
  | cd (k : Nat)                                                -- circle_diagonal_solver_[k]
  | rtMain (k : Nat) | rtSub (k : Nat) | rtCorner (k : Nat)   -- radial_tridiagonal_solver_[k]
  | rd (k : Nat)                                                -- radial_diagonal_solver_[k]
  | inner (row : Nat)                                           -- row of inner_boundary_circle_matrix_
  deriving DecidableEq, Repr

/-- one accumulating store, as the code writes it -/
inductive Upd (α : Type)
  /-- `UPDATE_TRIDIAGONAL_ELEMENT(circle_tridiagonal_solver[k], row, column, value)` -/
  | ctri (k row col : Nat) (v : α)
  /-- `UPDATE_TRIDIAGONAL_ELEMENT(radial_tridiagonal_solver[k], row, column, value)` -/
  | rtri (k row col : Nat) (v : α)
  /-- `UPDATE_DIAGONAL_ELEMENT(circle_diagonal_solver[k], row, column, value)` -/
  | cdiag (k row : Nat) (v : α)
  /-- `UPDATE_DIAGONAL_ELEMENT(radial_diagonal_solver[k], row, column, value)` -/
  | rdiag (k row : Nat) (v : α)
  /-- `COO_CSR_UPDATE(inner_boundary_circle_matrix, ptr, offset, row, col, val)` -/
  | csr (row : Nat) (off : Int) (col : Nat) (v : α)

def Upd.val : Upd α → α
  | .ctri _ _ _ v => v | .rtri _ _ _ v => v | .cdiag _ _ v => v | .rdiag _ _ v => v | .csr _ _ _ v => v

/-- the column index a store writes next to the value (`row_nz_index(row, offset) = col`); the other arrays have none -/
def Upd.col : Upd α → Nat
  | .csr _ _ c _ => c
  | _ => 0

/-- where a store goes: no branch of the macro taken, out of bounds by construction, or slot `q` of an array -/
inductive Tgt
  | skip | oob | slot (a : Arr) (q : Nat)
  deriving DecidableEq, Repr

/-- `UPDATE_TRIDIAGONAL_ELEMENT`: `row == column` main diagonal, `row == column - 1` sub-diagonal,
    `row == 0 && column == columns() - 1` corner element, otherwise nothing -/
def triTarget (main sub corner : Arr) (columns row col : Nat) : Tgt :=
  if row = col then .slot main row
  else if row + 1 = col then .slot sub row
  else if row = 0 ∧ col + 1 = columns then .slot corner 0
  else .skip

section
variable (T : Tables) (o : Op α) (nc : Nat)

/-- the slot a store addresses (`matrix.columns()`: `ntheta` for a circle, `lengthSmootherRadial` for a radial line) -/
def target : Upd α → Tgt
  | .ctri k r c _ => triTarget (.ctMain k) (.ctSub k) (.ctCorner k) o.nt r c
  | .rtri k r c _ => triTarget (.rtMain k) (.rtSub k) (.rtCorner k) (o.nr - nc) r c
  | .cdiag k r _ => .slot (.cd k) r
  | .rdiag k r _ => .slot (.rd k) r
  | .csr r off _ _ => if 0 ≤ off then .slot (.inner r) off.toNat else .oob

/-- `getStencil(0, i_theta)` -/
def stencilOf (j : Nat) : List Int :=
  if j % 2 = 0 then T.center else if o.bc = false then T.centerLeft else T.center

/-- `getStencil(0, i_theta)[position]` -/
def off (j : Nat) (P : Pos) : Int := (stencilOf T o j).getD P.idx (-1)

/-! ### `NODE_BUILD_SMOOTHER_GIVE` -/

/-- the eight stores into the cyclic tridiagonal matrix of the node's own (odd) circle: "Fill matrix row of (i,j)",
    "(i,j-1)", "(i,j+1)" with `center_index = i_theta`, `bottom_index = i_theta_M1`, `top_index = i_theta_P1` -/
def circleTriRows (i j : Nat) : List (Upd α) :=
  [.ctri (i / 2) j j (massValue o i j),
   .ctri (i / 2) j (jm o j) (-(coeff3 o i j) * o.att i j),
   .ctri (i / 2) j (jp o j) (-(coeff4 o i j) * o.att i j),
   .ctri (i / 2) j j (diagValue o i j),
   .ctri (i / 2) (jm o j) j (-(coeff3 o i j) * o.att i j),
   .ctri (i / 2) (jm o j) (jm o j) (coeff3 o i j * o.att i j),
   .ctri (i / 2) (jp o j) j (-(coeff4 o i j) * o.att i j),
   .ctri (i / 2) (jp o j) (jp o j) (coeff4 o i j * o.att i j)]

/-- the stores of node `(i, j)` in code order; the case distinction is the macro's
    `if (i_r > 0 && i_r < nc - 1) … else if (i_r > nc && i_r < nr - 2) … else if (i_r == 0) … else if (i_r == nc - 1) …
     else if (i_r == nc) … else if (i_r == nr - 2) … else if (i_r == nr - 1)` -/
def nodeUpdates (i j : Nat) : List (Upd α) :=
  let c1 := coeff1 o i j; let c2 := coeff2 o i j; let c3 := coeff3 o i j; let c4 := coeff4 o i j
  let arr := o.arr i j; let att := o.att i j
  if 0 < i ∧ i + 1 < nc then
    -- Node in the interior of the Circle Section
    if i % 2 = 1 then
      -- center = circle_tridiagonal_solver[i/2], left = circle_diagonal_solver[(i-1)/2], right = circle_diagonal_solver[(i+1)/2]
      circleTriRows o i j ++
      (if j % 2 = 1 then
        (if i = 1 then
          -- "Only in the case of AcrossOrigin": the row of (0,j) in the inner matrix, offset from getStencil(i_r - 1, i_theta)
          (if o.bc = false then [.csr j (off T o j .Center) j (c1 * arr)] else [])
         else [.cdiag ((i - 1) / 2) j (c1 * arr)]) ++
        [.cdiag ((i + 1) / 2) j (c2 * arr)]
       else [])
    else
      -- center = circle_diagonal_solver[i/2], left = circle_tridiagonal_solver[(i-1)/2], right = circle_tridiagonal_solver[(i+1)/2]
      (if j % 2 = 1 then
        [.cdiag (i / 2) j (massValue o i j), .cdiag (i / 2) j (diagValue o i j)]
       else
        [.cdiag (i / 2) j (n 1), .cdiag (i / 2) (jm o j) (c3 * att), .cdiag (i / 2) (jp o j) (c4 * att)]) ++
      [.ctri ((i - 1) / 2) j j (c1 * arr), .ctri ((i + 1) / 2) j j (c2 * arr)]
  else if nc < i ∧ i + 2 < o.nr then
    -- Node in the interior of the Radial Section: center_index = i - nc, left_index = i - nc - 1, right_index = i - nc + 1
    let ci := i - nc; let li := i - nc - 1; let ri := i - nc + 1
    if j % 2 = 1 then
      -- center = radial_tridiagonal_solver[j/2], bottom = radial_diagonal_solver[jm/2], top = radial_diagonal_solver[jp/2]
      [.rtri (j / 2) ci ci (massValue o i j),
       .rtri (j / 2) ci li (-c1 * arr),
       .rtri (j / 2) ci ri (-c2 * arr),
       .rtri (j / 2) ci ci (diagValue o i j),
       .rtri (j / 2) li ci (-c1 * arr),
       .rtri (j / 2) li li (c1 * arr),
       .rtri (j / 2) ri ci (-c2 * arr),
       .rtri (j / 2) ri ri (c2 * arr)] ++
      (if i % 2 = 1 then [.rdiag (jm o j / 2) ci (c3 * att), .rdiag (jp o j / 2) ci (c4 * att)] else [])
    else
      -- center = radial_diagonal_solver[j/2], bottom = radial_tridiagonal_solver[jm/2], top = radial_tridiagonal_solver[jp/2]
      (if i % 2 = 1 then
        [.rdiag (j / 2) ci (massValue o i j), .rdiag (j / 2) ci (diagValue o i j)]
       else
        [.rdiag (j / 2) ci (n 1), .rdiag (j / 2) li (c1 * arr), .rdiag (j / 2) ri (c2 * arr)]) ++
      [.rtri (jm o j / 2) ci ci (c3 * att), .rtri (jp o j / 2) ci ci (c4 * att)]
  else if i = 0 then
    -- Circle Section: Node in the inner boundary; right_matrix = circle_tridiagonal_solver[(i_r + 1) / 2]
    if o.bc then
      [.csr j (off T o j .Center) j (n 1), .ctri ((i + 1) / 2) j j (c2 * arr)]
    else if j % 2 = 1 then
      -- CenterStencil = getStencil(0, j); "LeftStencil = CenterStencil" for the row of the antipode
      [.csr j (off T o j .Center) j (massValue o i j),
       .csr j (off T o j .Left) (ja o j) (-c1 * arr),
       .csr j (off T o j .Center) j (diagValue o i j),
       .csr (ja o j) (off T o j .Left) j (-c1 * arr),
       .csr (ja o j) (off T o j .Center) (ja o j) (c1 * arr),
       .ctri ((i + 1) / 2) j j (c2 * arr)]
    else
      -- "BottomStencil = CenterStencil", "TopStencil = CenterStencil"
      [.csr j (off T o j .Center) j (n 1),
       .csr (jm o j) (off T o j .Center) (jm o j) (c3 * att),
       .csr (jp o j) (off T o j .Center) (jp o j) (c4 * att),
       .ctri ((i + 1) / 2) j j (c2 * arr)]
  else if i + 1 = nc then
    -- Circle Section: Node next to radial section; right_index = 0
    if i % 2 = 1 then
      if j % 2 = 1 then
        -- center = circle_tridiagonal_solver[i/2], left = circle_diagonal_solver[(i-1)/2], right = radial_tridiagonal_solver[j/2]
        circleTriRows o i j ++ [.cdiag ((i - 1) / 2) j (c1 * arr), .rtri (j / 2) 0 0 (c2 * arr)]
      else
        -- nothing is given to the left / right: both are coarse nodes
        circleTriRows o i j
    else
      if j % 2 = 1 then
        -- center = circle_diagonal_solver[i/2], left = circle_tridiagonal_solver[(i-1)/2], right = radial_tridiagonal_solver[j/2]
        [.cdiag (i / 2) j (massValue o i j), .cdiag (i / 2) j (diagValue o i j),
         .ctri ((i - 1) / 2) j j (c1 * arr), .rtri (j / 2) 0 0 (c2 * arr)]
      else
        -- right = radial_diagonal_solver[j/2]
        [.cdiag (i / 2) j (n 1), .cdiag (i / 2) (jm o j) (c3 * att), .cdiag (i / 2) (jp o j) (c4 * att),
         .ctri ((i - 1) / 2) j j (c1 * arr), .rdiag (j / 2) 0 (c2 * arr)]
  else if i = nc then
    -- Radial Section: Node next to circular section; center_index = 0, left_index = i_theta, right_index = 1
    if j % 2 = 1 then
      if i % 2 = 1 then
        -- center = radial_tridiagonal_solver[j/2], left = circle_diagonal_solver[(i-1)/2]
        [.rtri (j / 2) 0 0 (massValue o i j),
         .rtri (j / 2) 0 1 (-c2 * arr),
         .rtri (j / 2) 0 0 (diagValue o i j),
         .cdiag ((i - 1) / 2) j (c1 * arr),
         .rtri (j / 2) 1 0 (-c2 * arr),
         .rtri (j / 2) 1 1 (c2 * arr),
         .rdiag (jm o j / 2) 0 (c3 * att),
         .rdiag (jp o j / 2) 0 (c4 * att)]
      else
        -- left = circle_tridiagonal_solver[(i-1)/2]; bottom and top are coarse nodes
        [.rtri (j / 2) 0 0 (massValue o i j),
         .rtri (j / 2) 0 1 (-c2 * arr),
         .rtri (j / 2) 0 0 (diagValue o i j),
         .ctri ((i - 1) / 2) j j (c1 * arr),
         .rtri (j / 2) 1 0 (-c2 * arr),
         .rtri (j / 2) 1 1 (c2 * arr)]
    else
      if i % 2 = 1 then
        -- center = radial_diagonal_solver[j/2], bottom / top = radial_tridiagonal_solver[jm/2], [jp/2]; left is a coarse node
        [.rdiag (j / 2) 0 (massValue o i j), .rdiag (j / 2) 0 (diagValue o i j),
         .rtri (jm o j / 2) 0 0 (c3 * att), .rtri (jp o j / 2) 0 0 (c4 * att)]
      else
        -- left = circle_tridiagonal_solver[(i-1)/2]
        [.rdiag (j / 2) 0 (n 1),
         .ctri ((i - 1) / 2) j j (c1 * arr),
         .rdiag (j / 2) 1 (c2 * arr),
         .rtri (jm o j / 2) 0 0 (c3 * att), .rtri (jp o j / 2) 0 0 (c4 * att)]
  else if i + 2 = o.nr then
    -- Radial Section: Node next to outer boundary ("Right is not included here due to the symmetry shift")
    let ci := i - nc; let li := i - nc - 1
    if j % 2 = 1 then
      [.rtri (j / 2) ci ci (massValue o i j),
       .rtri (j / 2) ci li (-c1 * arr),
       .rtri (j / 2) ci ci (diagValue o i j),
       .rtri (j / 2) li ci (-c1 * arr),
       .rtri (j / 2) li li (c1 * arr),
       .rdiag (jm o j / 2) ci (c3 * att),
       .rdiag (jp o j / 2) ci (c4 * att)]
    else
      -- no test of the parity of `i_r` (`assert(i_r % 2 == 1)`)
      [.rdiag (j / 2) ci (massValue o i j), .rdiag (j / 2) ci (diagValue o i j),
       .rtri (jm o j / 2) ci ci (c3 * att), .rtri (jp o j / 2) ci ci (c4 * att)]
  else if i + 1 = o.nr then
    -- Radial Section: Node on the outer boundary
    let ci := i - nc; let li := i - nc - 1
    if j % 2 = 1 then [.rtri (j / 2) ci ci (n 1), .rtri (j / 2) li li (c1 * arr)]
    else [.rdiag (j / 2) ci (n 1), .rdiag (j / 2) li (c1 * arr)]
  else []

/-- all stores of the assembly in the order of the sequential branch of `buildAscMatrices()`:
    `buildAscCircleSection(i_r)` for `i_r < nc`, then `buildAscRadialSection(i_theta)` for every `i_theta` -/
def allUpdates : List (Upd α) := (nodeOrder o nc).flatMap fun p => nodeUpdates T o nc p.1 p.2

/-! ### the solver objects' memory -/

/-- contents of every array: slots of (column index, value) -/
abbrev Mem (α : Type) := Arr → List (Nat × α)

/-- Part 1 of `buildAscMatrices()`: `circle_tridiagonal_solver_.resize(nc / 2)`, `circle_diagonal_solver_.resize(nc - nc / 2)`,
    `radial_*_solver_.resize(ntheta / 2)`; element `idx / 2` is constructed with its dimension for every odd / even index
    `0 < idx < nc` (circles) resp. `idx < ntheta` (radial lines), everything set to `0.0`; the inner matrix has
    `nnz_per_row` entries per row.  `circle_diagonal_solver_[0]` is never constructed (dimension 0). -/
def init : Mem α
  | .ctMain k => if k < nc / 2 then List.replicate o.nt (0, n 0) else []
  | .ctSub k => if k < nc / 2 then List.replicate (o.nt - 1) (0, n 0) else []
  | .ctCorner k => if k < nc / 2 then [(0, n 0)] else []
  | .cd k => if 0 < k ∧ k < nc - nc / 2 then List.replicate o.nt (0, n 0) else []
  | .rtMain k => if k < o.nt / 2 then List.replicate (o.nr - nc) (0, n 0) else []
  | .rtSub k => if k < o.nt / 2 then List.replicate (o.nr - nc - 1) (0, n 0) else []
  | .rtCorner k => if k < o.nt / 2 then [(0, n 0)] else []
  | .rd k => if k < o.nt / 2 then List.replicate (o.nr - nc) (0, n 0) else []
  | .inner r => if r < o.nt then List.replicate (innerNnz o r) (0, n 0) else []

/-- one store: the value is accumulated, the column index overwritten (`none`: the slot does not exist) -/
def applyUpd (m : Mem α) (u : Upd α) : Option (Mem α) :=
  match target o nc u with
  | .skip => some m
  | .oob => none
  | .slot a q =>
    if q < (m a).length then
      let row := (m a).set q (u.col, ((m a).getD q (0, n 0)).2 + u.val)
      some fun b => if b = a then row else m b
    else none

/-- Part 2 of `buildAscMatrices()`, single-threaded -/
def assemble : Option (Mem α) :=
  (allUpdates T o nc).foldl (fun st u => st.bind fun m => applyUpd o nc m u) (some (init o nc))

end

/-! ### what the solver objects hold after the assembly -/

def vals (m : Mem α) (a : Arr) : List α := (m a).map (·.2)

/-- `circle_tridiagonal_solver_[i / 2]` (cyclic) -/
def circleTriSolver (m : Mem α) (i : Nat) : Tridiag.State α :=
  Tridiag.mk (vals m (.ctMain (i / 2))) (vals m (.ctSub (i / 2))) (((m (.ctCorner (i / 2))).getD 0 (0, n 0)).2) true
/-- `circle_diagonal_solver_[i / 2]` -/
def circleDiag (m : Mem α) (i : Nat) : List α := vals m (.cd (i / 2))
/-- `radial_tridiagonal_solver_[j / 2]` (`is_cyclic(false)`; the corner member exists and is never written) -/
def radialTriSolver (m : Mem α) (j : Nat) : Tridiag.State α :=
  Tridiag.mk (vals m (.rtMain (j / 2))) (vals m (.rtSub (j / 2))) (((m (.rtCorner (j / 2))).getD 0 (0, n 0)).2) false
/-- `radial_diagonal_solver_[j / 2]` -/
def radialDiag (m : Mem α) (j : Nat) : List α := vals m (.rd (j / 2))

/-- `inner_boundary_circle_matrix_` as the `nz_per_row` constructor lays it out -/
def innerCSR (o : Op α) (m : Mem α) : SparseLU.CSR α :=
  let rows := (List.range o.nt).map fun r => m (.inner r)
  ⟨o.nt, o.nt, rows.flatMap (·.map (·.2)), rows.flatMap (·.map (·.1)),
    (List.range (o.nt + 1)).map fun j => ((List.range j).map (innerNnz o)).sum⟩

/-! ### `temp -= A_sc^ortho x`, scattered -/

section
variable (o : Op α) (nc : Nat)

/-- circle section: `node_color == SmootherColor::Black` (`isOddNumberSmootherCircles == isOddRadialIndex` is White) -/
def circleNodeBlack (i : Nat) : Bool := !(decide (nc % 2 = 1) == decide (i % 2 = 1))

/-- `NODE_APPLY_ASC_ORTHO_CIRCLE_GIVE` for node `(i, j)` and `smoother_color` (`black`), called with `i ≤ nc` -/
def circleGive (black : Bool) (x : Field α) (i j : Nat) : List (Stencil.Upd α) :=
  let c1 := coeff1 o i j; let c2 := coeff2 o i j; let c3 := coeff3 o i j; let c4 := coeff4 o i j
  let arr := o.arr i j; let att := o.att i j; let art := o.art i j
  let jM := jm o j; let jP := jp o j
  let own := circleNodeBlack nc i == black
  -- "Fill temp(i-1,j)" / "Fill temp(i+1,j)" of the Outside Section Parts
  let giveLeft : Stencil.Upd α := ⟨i - 1, j, -c1 * arr * x i j - quarter * art * x i jP + quarter * art * x i jM⟩
  let giveRight : Stencil.Upd α := ⟨i + 1, j, -c2 * arr * x i j + quarter * art * x i jP - quarter * art * x i jM⟩
  if 0 < i ∧ i < nc then
    if own then
      if i % 2 = 1 then
        if j % 2 = 1 then
          [⟨i, j, -c1 * arr * x (i - 1) j - c2 * arr * x (i + 1) j⟩,
           ⟨i, jM, -quarter * art * x (i + 1) j + quarter * art * x (i - 1) j⟩,
           ⟨i, jP, quarter * art * x (i + 1) j - quarter * art * x (i - 1) j⟩]
        else
          [⟨i, j, -c1 * arr * x (i - 1) j - c2 * arr * x (i + 1) j⟩,
           ⟨i, jM, -quarter * art * x (i + 1) j + quarter * art * x (i - 1) j⟩,
           ⟨i, jP, quarter * art * x (i + 1) j - quarter * art * x (i - 1) j⟩]
      else
        if j % 2 = 1 then
          [⟨i, j, -c1 * arr * x (i - 1) j - c2 * arr * x (i + 1) j - c3 * att * x i jM - c4 * att * x i jP⟩]
        else
          [⟨i, jM, -c3 * att * x i j - quarter * art * x (i + 1) j + quarter * art * x (i - 1) j⟩,
           ⟨i, jP, -c4 * att * x i j + quarter * art * x (i + 1) j - quarter * art * x (i - 1) j⟩]
    else
      if i % 2 = 1 then
        if j % 2 = 1 then
          (if 1 < i ∨ o.bc = false then [giveLeft] else []) ++ (if i + 1 < nc then [giveRight] else [])
        else []
      else
        if j % 2 = 1 then
          (if 1 < i ∨ o.bc = false then [giveLeft] else []) ++ (if i + 1 < nc then [giveRight] else [])
        else
          (if 1 < i ∨ o.bc = false then [giveLeft] else []) ++ (if i + 1 < nc then [giveRight] else [])
  else if i = 0 then
    if o.bc then
      if own then [] else [giveRight]
    else
      if own then
        if j % 2 = 1 then
          -- "Left: Not in Asc_ortho"
          [⟨i, j, -c2 * arr * x (i + 1) j - c3 * att * x i jM - c4 * att * x i jP⟩]
        else
          -- "Top Left" / "Bottom Left": REMOVED DUE TO ARTIFICAL 7 POINT STENCIL
          [⟨i, jM, -c3 * att * x i j - quarter * art * x (i + 1) j⟩,
           ⟨i, jP, -c4 * att * x i j + quarter * art * x (i + 1) j⟩]
      else [giveRight]
  else if i = nc then
    -- Node next to circular section (`assert(node_color == SmootherColor::White)`)
    if black then
      if j % 2 = 1 ∨ ¬ i % 2 = 1 then [giveLeft] else []
    else []
  else []

/-- `NODE_APPLY_ASC_ORTHO_RADIAL_GIVE` for node `(i, j)` and `smoother_color` (`black`), called with `nc - 1 ≤ i < nr`;
    `node_color` is White for odd `i_theta`; `f` is `rhs` (only read for the symmetry shift at the outer boundary) -/
def radialGive (black : Bool) (f x : Field α) (i j : Nat) : List (Stencil.Upd α) :=
  let c1 := coeff1 o i j; let c2 := coeff2 o i j; let c3 := coeff3 o i j; let c4 := coeff4 o i j
  let arr := o.arr i j; let att := o.att i j; let art := o.art i j
  let jM := jm o j; let jP := jp o j
  let own := (!decide (j % 2 = 1)) == black
  -- "Fill temp(i,j-1)" / "Fill temp(i,j+1)" of the Outside Section Parts
  let giveBottom : Stencil.Upd α := ⟨i, jM, -c3 * att * x i j - quarter * art * x (i + 1) j + quarter * art * x (i - 1) j⟩
  let giveTop : Stencil.Upd α := ⟨i, jP, -c4 * att * x i j + quarter * art * x (i + 1) j - quarter * art * x (i - 1) j⟩
  if nc < i ∧ i + 2 < o.nr then
    if own then
      if j % 2 = 1 then
        if i % 2 = 1 then
          [⟨i, j, -c3 * att * x i jM - c4 * att * x i jP⟩,
           ⟨i - 1, j, -quarter * art * x i jP + quarter * art * x i jM⟩,
           ⟨i + 1, j, quarter * art * x i jP - quarter * art * x i jM⟩]
        else
          [⟨i, j, -c3 * att * x i jM - c4 * att * x i jP⟩,
           ⟨i - 1, j, -quarter * art * x i jP + quarter * art * x i jM⟩,
           ⟨i + 1, j, quarter * art * x i jP - quarter * art * x i jM⟩]
      else
        if i % 2 = 1 then
          [⟨i, j, -c1 * arr * x (i - 1) j - c2 * arr * x (i + 1) j - c3 * att * x i jM - c4 * att * x i jP⟩]
        else
          [⟨i - 1, j, -c1 * arr * x i j - quarter * art * x i jP + quarter * art * x i jM⟩,
           ⟨i + 1, j, -c2 * arr * x i j + quarter * art * x i jP - quarter * art * x i jM⟩]
    else
      if j % 2 = 1 then
        if i % 2 = 1 then [giveBottom, giveTop] else []
      else
        if i % 2 = 1 then [giveBottom, giveTop] else [giveBottom, giveTop]
  else if i + 1 = nc then
    if own then
      -- "Dont give to the right when this case occurs!" (i_theta % 2 = 0 and i_r % 2 == 1)
      if ¬ i % 2 = 1 ∨ j % 2 = 1 then
        [⟨i + 1, j, -c2 * arr * x i j + quarter * art * x i jP - quarter * art * x i jM⟩]
      else []
    else []
  else if i = nc then
    if own then
      if j % 2 = 1 then
        if i % 2 = 1 then
          [⟨i, j, -c1 * arr * x (i - 1) j - c3 * att * x i jM - c4 * att * x i jP⟩,
           ⟨i + 1, j, quarter * art * x i jP - quarter * art * x i jM⟩]
        else
          [⟨i, j, -c1 * arr * x (i - 1) j - c3 * att * x i jM - c4 * att * x i jP⟩,
           ⟨i + 1, j, quarter * art * x i jP - quarter * art * x i jM⟩]
      else
        if i % 2 = 1 then
          [⟨i, j, -c1 * arr * x (i - 1) j - c2 * arr * x (i + 1) j - c3 * att * x i jM - c4 * att * x i jP⟩]
        else
          [⟨i + 1, j, -c2 * arr * x i j + quarter * art * x i jP - quarter * art * x i jM⟩]
    else
      -- "Dont give to bottom and up when this case occurs!" (i_theta % 2 == 1 and i_r % 2 == 0)
      if i % 2 = 1 ∨ ¬ j % 2 = 1 then [giveBottom, giveTop] else []
  else if i + 2 = o.nr then
    if own then
      if j % 2 = 1 then
        [⟨i, j, -c3 * att * x i jM - c4 * att * x i jP⟩,
         ⟨i - 1, j, -quarter * art * x i jP + quarter * art * x i jM⟩,
         -- "Right: Symmetry shift!"
         ⟨i, j, -c2 * arr * f (i + 1) j⟩]
      else
        [⟨i, j, -c1 * arr * x (i - 1) j - c2 * arr * x (i + 1) j - c3 * att * x i jM - c4 * att * x i jP⟩]
    else [giveBottom, giveTop]
  else if i + 1 = o.nr then
    if own then
      if j % 2 = 1 then
        [⟨i - 1, j, -quarter * art * x i jP + quarter * art * x i jM⟩,
         ⟨i - 1, j, -c1 * arr * f i j⟩]
      else
        [⟨i - 1, j, -c1 * arr * x i j - quarter * art * x i jP + quarter * art * x i jM⟩]
    else []
  else []

/-- `for i_r in [0, last): applyAscOrthoCircleSection(i_r, color)` -/
def circlePhase (black : Bool) (last : Nat) (x : Field α) : List (Stencil.Upd α) :=
  (List.range last).flatMap fun i => (List.range o.nt).flatMap fun j => circleGive o nc black x i j

/-- `for i_theta: applyAscOrthoRadialSection(i_theta, color)` (`i_r` runs from `nc - 1`) -/
def radialPhase (black : Bool) (f x : Field α) : List (Stencil.Upd α) :=
  (List.range o.nt).flatMap fun j => (List.range (o.nr - (nc - 1))).flatMap fun t => radialGive o nc black f x (nc - 1 + t) j

/-- `temp[index] = (i_r & 1 || i_theta & 1) ? rhs[index] : x[index]` -/
def initTemp (f x : Field α) : Field α := fun i j => if i % 2 = 1 ∨ j % 2 = 1 then f i j else x i j

/-- all four scatter phases on ONE iterate, no solve in between (what the correspondence harness dumps for the give
    strategy: every `temp` value receives the stores of its own phase only) -/
def scatterAll (f x : Field α) : Field α :=
  let t0 := initTemp f x
  let t1 := (circlePhase o nc true (nc + 1) x).foldl Stencil.applyUpd t0
  let t2 := (circlePhase o nc false nc x).foldl Stencil.applyUpd t1
  let t3 := (radialPhase o nc true f x).foldl Stencil.applyUpd t2
  (radialPhase o nc false f x).foldl Stencil.applyUpd t3

end

/-! ### line solves and the sequential sweep -/

section
variable (o : Op α) (m : Mem α)

def circleLine (t : Field α) (i : Nat) : List α := (List.range o.nt).map (t i)
def radialLine (nc : Nat) (t : Field α) (j : Nat) : List α := (List.range (o.nr - nc)).map fun s => t (nc + s) j

/-- `solveCircleSection` on `temp`: sparse LU on the innermost circle (`none` = the solver's `std::exit` branch), cyclic LDLᵀ
    on the odd circles, the diagonal solver on the even circles -/
def solveCircle (tiny : α → Bool) (t : Field α) (i : Nat) : Option (List α) :=
  if i = 0 then SparseLU.solve tiny (SparseLU.factorRows (innerCSR o m)) (circleLine o t 0)
  else if i % 2 = 1 then some (Tridiag.solve (circleTriSolver m i) (circleLine o t i)).2
  else some (diagSolve (circleDiag m i) (circleLine o t i))

/-- `solveRadialSection` on `temp` -/
def solveRadial (nc : Nat) (t : Field α) (j : Nat) : List α :=
  if j % 2 = 1 then (Tridiag.solve (radialTriSolver m j) (radialLine o nc t j)).2
  else diagSolve (radialDiag m j) (radialLine o nc t j)

/-- the state of the sweep: the iterate (row-major array) and `temp` -/
abbrev SwState (α : Type) := Array α × Field α

/-- solve in place on `temp`, then `std::move(temp…, x…)` -/
def circleStep (tiny : α → Bool) (s : Option (SwState α)) (i : Nat) : Option (SwState α) :=
  s.bind fun st => (solveCircle o m tiny st.2 i).map fun v =>
    (writeCircle o.nt st.1 i v, fun a b => if a = i then v.getD b (n 0) else st.2 a b)

def radialStep (nc : Nat) (st : SwState α) (j : Nat) : SwState α :=
  let v := solveRadial o m nc st.2 j
  (writeRadial o.nt nc st.1 j v, fun a b => if nc ≤ a ∧ b = j then v.getD (a - nc) (n 0) else st.2 a b)

/-- `ExtrapolatedSmootherGive::extrapolatedSmoothingSequential`: `temp` initialised on both sections, then
    Asc-ortho(Black) for `i_r = 0 … nc`, black circles solved, Asc-ortho(White) for `i_r = 0 … nc - 1`, white circles solved,
    Asc-ortho(Black) for every radial line, black radial lines solved, Asc-ortho(White), white radial lines solved -/
def sweep (tiny : α → Bool) (nc : Nat) (f : Field α) (x : Array α) : Option (Array α) :=
  let t0 := initTemp f (fld o.nt x)
  let t1 := (circlePhase o nc true (nc + 1) (fld o.nt x)).foldl Stencil.applyUpd t0
  let s1 := (blackCircles nc).foldl (circleStep o m tiny) (some (x, t1))
  let s2 := s1.bind fun st =>
    let t2 := (circlePhase o nc false nc (fld o.nt st.1)).foldl Stencil.applyUpd st.2
    (whiteCircles nc).foldl (circleStep o m tiny) (some (st.1, t2))
  s2.map fun st =>
    let t3 := (radialPhase o nc true f (fld o.nt st.1)).foldl Stencil.applyUpd st.2
    let st3 := (blackRadials o.nt).foldl (radialStep o m nc) (st.1, t3)
    let t4 := (radialPhase o nc false f (fld o.nt st3.1)).foldl Stencil.applyUpd st3.2
    ((whiteRadials o.nt).foldl (radialStep o m nc) (st3.1, t4)).1

end

/-- `ExtrapolatedSmootherGive`: constructor (assembly) followed by one `extrapolatedSmoothing` (outer `none`: out-of-bounds
    store during assembly; inner `none`: the LU's `std::exit` branch) -/
def run (T : Tables) (o : Op α) (tiny : α → Bool) (nc : Nat) (f : Field α) (x : Array α) : Option (Option (Array α)) :=
  (assemble T o nc).map fun m => sweep o m tiny nc f x

end ExSmootherGiveCode
