import GMGModel.Sched
/-!
# Owner-computes parallel regions (C11 / C12)

`tools/omp_owner.py` regenerates `Generated/Owner.lean` from the C++ on every check: every `#pragma omp parallel …` that is
not one of the twelve kernel-dispatch regions of `Generated/Sched.lean`.  The translator admits a loop only when every
store into a shared array has the iteration's *own index* (the work-shared variable itself, or `G.index(row, column)` built
from the work-shared variable and the variable of an enclosing sequential loop), every other occurrence of a stored array
uses that same index, and the bounds are built from the grid sizes.  What a loop iteration can touch is then determined
by the loop's `kind` and bounds alone:

* `flat`      iteration `t` touches cell `(t, 0)` of its arrays,
* `rowOuter`  iteration `t` (a row) touches cells `(t, c)`, `ilo ≤ c < ihi`,
* `colOuter`  iteration `t` (a column) touches cells `(r, t)`, `ilo ≤ r < ihi`,
* `reduce`    touches no shared array (the accumulator sits in a `reduction` clause, checked by the translator).
-/
namespace Owner
open Sched (Shape)

inductive Kind | flat | rowOuter | colOuter | reduce
  deriving DecidableEq, Repr

structure OLoop where
  kind : Kind
  lo : Shape → Int
  hi : Shape → Int
  ilo : Shape → Int
  ihi : Shape → Int
  step : Int
  nowait : Bool
  arrays : List String

instance : Inhabited OLoop := ⟨⟨.reduce, fun _ => 0, fun _ => 0, fun _ => 0, fun _ => 0, 1, false, []⟩⟩

structure ORegion where
  name : String
  loops : List OLoop

/-- iterations of a loop (flat / reduction loops: any index, their bound is an arbitrary vector length) -/
def OLoop.iter (l : OLoop) (s : Shape) (t : Int) : Prop :=
  match l.kind with
  | .flat | .reduce => True
  | .rowOuter | .colOuter => l.lo s ≤ t ∧ t < l.hi s

/-- cells `(r, c)` of array `a` that iteration `t` may touch -/
def OLoop.touches (l : OLoop) (s : Shape) (t : Int) (a : String) (r c : Int) : Prop :=
  a ∈ l.arrays ∧
  match l.kind with
  | .flat => r = t ∧ c = 0
  | .rowOuter => r = t ∧ l.ilo s ≤ c ∧ c < l.ihi s
  | .colOuter => c = t ∧ l.ilo s ≤ r ∧ r < l.ihi s
  | .reduce => False

/-- pairs `(ia, ib)`, `ia < ib`, of loop positions that lie in one barrier interval (no barrier between them):
    every loop from `ia` up to `ib - 1` carries `nowait` -/
def pairsFrom (i : Nat) : List Bool → List (Nat × Nat)
  | [] => []
  | nw :: rest =>
    -- partners of loop i: the following loops while the chain of nowait flags (starting with i's own) is unbroken
    let rec partners (j : Nat) (open_ : Bool) : List Bool → List (Nat × Nat)
      | [] => []
      | nw' :: rest' => if open_ then (i, j) :: partners (j + 1) nw' rest' else []
    partners (i + 1) nw rest ++ pairsFrom (i + 1) rest

def pairs (reg : ORegion) : List (Nat × Nat) := pairsFrom 0 (reg.loops.map (·.nowait))

/-- two different loops of one interval are separated: no shared array, or disjoint cell rectangles -/
def LoopsSep (s : Shape) (l l' : OLoop) : Prop :=
  (∀ a, a ∈ l.arrays → a ∉ l'.arrays) ∨
  match l.kind, l'.kind with
  | .reduce, _ => True
  | _, .reduce => True
  | .rowOuter, .colOuter => l.hi s ≤ l'.ilo s ∨ l'.ihi s ≤ l.lo s ∨ l.ihi s ≤ l'.lo s ∨ l'.hi s ≤ l.ilo s
  | .colOuter, .rowOuter => l'.hi s ≤ l.ilo s ∨ l.ihi s ≤ l'.lo s ∨ l'.ihi s ≤ l.lo s ∨ l.hi s ≤ l'.ilo s
  | .rowOuter, .rowOuter => l.hi s ≤ l'.lo s ∨ l'.hi s ≤ l.lo s ∨ l.ihi s ≤ l'.ilo s ∨ l'.ihi s ≤ l.ilo s
  | .colOuter, .colOuter => l.hi s ≤ l'.lo s ∨ l'.hi s ≤ l.lo s ∨ l.ihi s ≤ l'.ilo s ∨ l'.ihi s ≤ l.ilo s
  | _, _ => False

def Separated (s : Shape) (reg : ORegion) : Prop :=
  ∀ p ∈ pairs reg, LoopsSep s (reg.loops.getD p.1 default) (reg.loops.getD p.2 default)

/-- race freedom of an owner-computes region: two distinct iterations of one loop, or any two iterations of two loops that
    are not separated by a barrier, never touch a common cell of a common array -/
def RaceFree (s : Shape) (reg : ORegion) : Prop :=
  (∀ l ∈ reg.loops, ∀ t t', l.iter s t → l.iter s t' → t ≠ t' → ∀ a r c, ¬ (l.touches s t a r c ∧ l.touches s t' a r c)) ∧
  (∀ p ∈ pairs reg, ∀ t t', (reg.loops.getD p.1 default).iter s t → (reg.loops.getD p.2 default).iter s t' →
      ∀ a r c, ¬ ((reg.loops.getD p.1 default).touches s t a r c ∧ (reg.loops.getD p.2 default).touches s t' a r c))

/-! ### executable conflict search (used when a generated separation lemma no longer checks) -/

def cellsOf (l : OLoop) (s : Shape) (t : Int) : List (Int × Int) :=
  match l.kind with
  | .flat => [(t, 0)]
  | .rowOuter => (List.range (l.ihi s - l.ilo s).toNat).map fun (q : Nat) => (t, l.ilo s + q)
  | .colOuter => (List.range (l.ihi s - l.ilo s).toNat).map fun (q : Nat) => (l.ilo s + q, t)
  | .reduce => []

def itersOf (l : OLoop) (s : Shape) : List Int :=
  match l.kind with
  | .flat | .reduce => []
  | _ => (List.range (l.hi s - l.lo s).toNat).map fun (q : Nat) => l.lo s + q

def findConflict (s : Shape) (reg : ORegion) : Option String := Id.run do
  let loops := reg.loops.toArray
  for (ia, ib) in pairs reg do
    let l := loops[ia]!; let l' := loops[ib]!
    if l.arrays.any (fun a => l'.arrays.contains a) then
      for t in itersOf l s do
        for t' in itersOf l' s do
          for c in cellsOf l s t do
            if (cellsOf l' s t').contains c then
              return some s!"{reg.name}: loop {ia} (iteration {t}) and loop {ib} (iteration {t'}) are not separated by a barrier and both touch cell ({c.1},{c.2}) of {l.arrays.filter (fun a => l'.arrays.contains a)} for shape nr={s.nr} nt={s.nt} nc={s.nc}"
  return none

end Owner
