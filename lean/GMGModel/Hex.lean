/-!
# Exact transport of IEEE doubles

Doubles cross the harness/driver boundary as 16 hex digits of their bit pattern, and are
converted to `Rat` exactly.  Nothing is ever parsed or printed as decimal.
-/
namespace Hex

def hexDigit (c : Char) : Option Nat :=
  if '0' ≤ c ∧ c ≤ '9' then some (c.toNat - '0'.toNat)
  else if 'a' ≤ c ∧ c ≤ 'f' then some (c.toNat - 'a'.toNat + 10)
  else if 'A' ≤ c ∧ c ≤ 'F' then some (c.toNat - 'A'.toNat + 10)
  else none

def parseHex (s : String) : Option Nat :=
  if s.isEmpty then none else
  s.toList.foldl (fun acc c => match acc, hexDigit c with
    | some a, some d => some (a * 16 + d)
    | _, _ => none) (some 0)

/-- value of a finite double given by its bits; `none` for inf / nan -/
def bitsToRat (b : Nat) : Option Rat :=
  let sign := (b >>> 63) % 2
  let e := (b >>> 52) % 2048
  let m := b % (2 ^ 52)
  if e = 2047 then none
  else
    let full : Nat := 2 ^ 52 + m
    let mag : Rat :=
      if e = 0 then mkRat (Int.ofNat m) (2 ^ 1074)
      else if e ≥ 1075 then ((Int.ofNat (full * 2 ^ (e - 1075)) : Int) : Rat)
      else mkRat (Int.ofNat full) (2 ^ (1075 - e))
    some (if sign = 1 then -mag else mag)

def parseDouble (s : String) : Option Rat := do
  let b ← parseHex s
  bitsToRat b

def parseFloat (s : String) : Option Float := do
  let b ← parseHex s
  some (Float.ofBits b.toUInt64)

/-- comma separated list of doubles in hex -/
def parseVec (s : String) : Option (Array Rat) :=
  if s.isEmpty then some #[] else
  (s.splitOn ",").foldl (fun acc t => match acc, parseDouble t with
    | some a, some v => some (a.push v)
    | _, _ => none) (some #[])

def parseIntVec (s : String) : Option (Array Int) :=
  if s.isEmpty then some #[] else
  (s.splitOn ",").foldl (fun acc t => match acc, t.toInt? with
    | some a, some v => some (a.push v)
    | _, _ => none) (some #[])

/-- 2^-k as a rational -/
def twoPowNeg (k : Nat) : Rat := mkRat 1 (2 ^ k)

def rabs (q : Rat) : Rat := if q < 0 then -q else q

end Hex
