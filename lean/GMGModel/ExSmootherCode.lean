import GMGModel.SmootherCode
/-!
# Extrapolated zebra line smoother — code level (take strategy)
mirrors `src/ExtrapolatedSmoother/ExtrapolatedSmootherTake/buildAscMatrices.cpp` (`NODE_BUILD_SMOOTHER_TAKE` with
`UPDATE_TRIDIAGONAL_ELEMENT`, `UPDATE_DIAGONAL_ELEMENT`, `COO_CSR_UPDATE`: what ends up in the
`SymmetricTridiagonalSolver`s of the odd circles / odd radial lines, in the `DiagonalSolver`s of the even circles / even
radial lines and in the CSR matrix of the innermost circle), `smootherSolver.cpp` (`NODE_APPLY_ASC_ORTHO_CIRCLE_TAKE`,
`NODE_APPLY_ASC_ORTHO_RADIAL_TAKE`, `solveCircleSection`, `solveRadialSection`, `extrapolatedSmoothing`),
`smootherStencil.cpp` / `extrapolatedSmootherTake.h` (stencils `stencil_center_`, `stencil_center_left_`: storage order
Center 0, Left 1) and `include/LinearAlgebra/diagonalSolver.h` (`solveInPlace`: `sol_rhs[i] /= diagonal(i)`).

Same arithmetic operations in the same order and association as the C++ (the `Float` instance reproduces the stored entries
and `temp` bit for bit).  The branch structure of the macros is kept as written (parity of `i_r`, `i_theta` via `& 1`,
position classes in the order of the `else if` chain), not simplified to what the comments say it should do.

Storage of the solver vectors: `circle_tridiagonal_solver_[i / 2]` for odd `i`, `circle_diagonal_solver_[i / 2]` for even
`i ≥ 2` (`[0]` stays default-constructed, dimension 0), `radial_tridiagonal_solver_[j / 2]` for odd `j`,
`radial_diagonal_solver_[j / 2]` for even `j`.  (The comments in the header state the opposite parity; the code is as here.)

Reused from `SmootherCode`: `coeff1..4`, `centerValue`, `leftValue`, `rightValue`, `bottomValue`, `topValue`, `diagTerms`,
`fld`, `writeCircle`, `writeRadial`, the colour lists.  The cyclic tridiagonal matrices of the odd circles are the same arrays
as in `SmootherTake` (`SmootherCode.circleMain/Sub/Corner`).
-/
namespace ExSmootherCode
open Stencil Scalar SmootherCode
variable {α : Type} [Scalar α]

section
variable (o : Op α)

/-! ### what `buildAscMatrices` leaves in the solver objects -/

/-- odd circle `0 < i < nc` (`i_r & 1`): cyclic tridiagonal, `main_diagonal(j)` = Center, `sub_diagonal(j)` = Top of node `j`
    (`row == column - 1`), `cyclic_corner_element()` = Bottom of node 0 (`row == 0 && column == columns() - 1`); Bottom of
    the nodes `j ≥ 1` and Top of node `nt - 1` hit no branch of `UPDATE_TRIDIAGONAL_ELEMENT` and are not stored -/
def circleTriMain (i : Nat) : List α := (List.range o.nt).map fun j => centerValue o i j (i - 1) j
def circleTriSub (i : Nat) : List α := (List.range (o.nt - 1)).map fun j => topValue o i j
def circleTriCorner (i : Nat) : α := bottomValue o i 0
def circleTriSolver (i : Nat) : Tridiag.State α :=
  Tridiag.mk (circleTriMain o i) (circleTriSub o i) (circleTriCorner o i) true

/-- even circle `0 < i < nc`: `DiagonalSolver`, `diagonal(j)` = Center for odd `j`, literal `1.0` at the coarse nodes -/
def circleDiag (i : Nat) : List α :=
  (List.range o.nt).map fun j => if j % 2 = 1 then centerValue o i j (i - 1) j else n 1

/-- odd radial line `j`, local index `t = i - nc`, in the order of the `else if` chain:
    interior `nc < i < nr - 2`, next to the circle section `i = nc`, next to the outer boundary `i = nr - 2`, outer
    boundary `i = nr - 1` (identity row) -/
def radialTriMain (nc j : Nat) : List α :=
  (List.range (o.nr - nc)).map fun t =>
    let i := nc + t
    if nc < i ∧ i + 2 < o.nr then centerValue o i j (i - 1) j
    else if i = nc then centerValue o i j (i - 1) j
    else if i + 2 = o.nr then centerValue o i j (i - 1) j
    else if i + 1 = o.nr then n 1
    else n 0
/-- entry `(t, t+1)` ("Right"); at `i = nr - 2` it is stored as `0.0` ("Make tridiagonal matrix symmetric"); "Left"
    `(t, t-1)` hits no branch of `UPDATE_TRIDIAGONAL_ELEMENT` -/
def radialTriSub (nc j : Nat) : List α :=
  (List.range (o.nr - nc - 1)).map fun t =>
    let i := nc + t
    if nc < i ∧ i + 2 < o.nr then rightValue o i j
    else if i = nc then rightValue o i j
    else if i + 2 = o.nr then n 0
    else n 0
def radialTriSolver (nc j : Nat) : Tridiag.State α :=
  Tridiag.mk (radialTriMain o nc j) (radialTriSub o nc j) (n 0) false

/-- even radial line `j`: `DiagonalSolver`; Center for odd `i`, `1.0` for even `i`, except the row `i = nr - 2` which stores
    Center whatever the parity of `i` (the code asserts `i_r % 2 == 1` there) and the row `i = nr - 1` which stores `1.0` -/
def radialDiag (nc j : Nat) : List α :=
  (List.range (o.nr - nc)).map fun t =>
    let i := nc + t
    if nc < i ∧ i + 2 < o.nr then (if i % 2 = 1 then centerValue o i j (i - 1) j else n 1)
    else if i = nc then (if i % 2 = 1 then centerValue o i j (i - 1) j else n 1)
    else if i + 2 = o.nr then centerValue o i j (i - 1) j
    else if i + 1 = o.nr then n 1
    else n 0

/-- stored entries of row `j` of `inner_boundary_circle_matrix_`, in storage order (offsets Center 0, Left 1):
    Dirichlet: identity; across the origin: odd `j` keeps Center and Left (the antipode), even `j` is an identity row -/
def innerRow (j : Nat) : List (Nat × α) :=
  if o.bc then [(j, n 1)]
  else if j % 2 = 1 then [(j, centerValue o 0 j 0 (ja o j)), (ja o j, leftValue o 0 j 0 (ja o j))]
  else [(j, n 1)]

/-- `nnz_per_row` of the constructor call -/
def innerNnz (j : Nat) : Nat := if o.bc then 1 else if j % 2 = 0 then 1 else 2

/-- the CSR container as the `nz_per_row` constructor lays it out (`row_start_indices_[i] = nnz_; nnz_ += nz_per_row(i)`) -/
def innerCSR : SparseLU.CSR α :=
  let rows := (List.range o.nt).map (innerRow o)
  ⟨o.nt, o.nt, rows.flatMap (·.map (·.2)), rows.flatMap (·.map (·.1)),
    (List.range (o.nt + 1)).map fun j => ((List.range j).map (innerNnz o)).sum⟩

/-! ### `temp = rhs - A_sc^ortho x` -/

/-- Left, Right, Bottom, Top of a fine node of a line through coarse nodes: all four are moved to the right-hand side -/
def crossTerms (u : Field α) (i j : Nat) : α :=
  -(coeff1 o i j) * (o.arr i j + o.arr (i - 1) j) * u (i - 1) j
    - coeff2 o i j * (o.arr i j + o.arr (i + 1) j) * u (i + 1) j
    - coeff3 o i j * (o.att i j + o.att i (jm o j)) * u i (jm o j)
    - coeff4 o i j * (o.att i j + o.att i (jp o j)) * u i (jp o j)

/-- `NODE_APPLY_ASC_ORTHO_CIRCLE_TAKE` (only called with `i < nc`; for other `i` no branch assigns `temp`) -/
def orthoCircle (nc : Nat) (f u : Field α) (i j : Nat) : α :=
  if 0 < i ∧ i < nc then
    if i % 2 = 1 then
      f i j - diagTerms o u i j
        (-(coeff1 o i j) * (o.arr i j + o.arr (i - 1) j) * u (i - 1) j
          - coeff2 o i j * (o.arr i j + o.arr (i + 1) j) * u (i + 1) j)
    else if j % 2 = 1 then f i j - diagTerms o u i j (crossTerms o u i j)
    else u i j
  else if i = 0 then
    if o.bc then (if j % 2 = 1 then f 0 j else u 0 j)
    else if j % 2 = 1 then
      f 0 j -
        (-(coeff2 o 0 j) * (o.arr 0 j + o.arr 1 j) * u 1 j
          - coeff3 o 0 j * (o.att 0 j + o.att 0 (jm o j)) * u 0 (jm o j)
          - coeff4 o 0 j * (o.att 0 j + o.att 0 (jp o j)) * u 0 (jp o j)
          + quarter * (o.art 1 j + o.art 0 (jm o j)) * u 1 (jm o j)
          - quarter * (o.art 1 j + o.art 0 (jp o j)) * u 1 (jp o j))
    else u 0 j
  else f i j

/-- `NODE_APPLY_ASC_ORTHO_RADIAL_TAKE` (only called with `nc ≤ i < nr`) -/
def orthoRadial (nc : Nat) (f u : Field α) (i j : Nat) : α :=
  if nc < i ∧ i + 2 < o.nr then
    if j % 2 = 1 then
      f i j - diagTerms o u i j
        (-(coeff3 o i j) * (o.att i j + o.att i (jm o j)) * u i (jm o j)
          - coeff4 o i j * (o.att i j + o.att i (jp o j)) * u i (jp o j))
    else if i % 2 = 1 then f i j - diagTerms o u i j (crossTerms o u i j)
    else u i j
  else if i = nc then
    if j % 2 = 1 then
      f i j - diagTerms o u i j
        (-(coeff1 o i j) * (o.arr i j + o.arr (i - 1) j) * u (i - 1) j
          - coeff3 o i j * (o.att i j + o.att i (jm o j)) * u i (jm o j)
          - coeff4 o i j * (o.att i j + o.att i (jp o j)) * u i (jp o j))
    else if i % 2 = 1 then f i j - diagTerms o u i j (crossTerms o u i j)
    else u i j
  else if i + 2 = o.nr then
    if j % 2 = 1 then
      -- "Right" is shifted to the right-hand side with the boundary datum `rhs[right]`
      f i j - diagTerms o u i j
        (-(coeff2 o i j) * (o.arr i j + o.arr (i + 1) j) * f (i + 1) j
          - coeff3 o i j * (o.att i j + o.att i (jm o j)) * u i (jm o j)
          - coeff4 o i j * (o.att i j + o.att i (jp o j)) * u i (jp o j))
    else
      -- no test of the parity of `i` here (`assert(i_r & 1)`)
      f i j - diagTerms o u i j (crossTerms o u i j)
  else if i + 1 = o.nr then
    if j % 2 = 1 then f i j else u i j
  else f i j

def circleTemp (nc : Nat) (f u : Field α) (i : Nat) : List α := (List.range o.nt).map (orthoCircle o nc f u i)
def radialTemp (nc : Nat) (f u : Field α) (j : Nat) : List α :=
  (List.range (o.nr - nc)).map fun t => orthoRadial o nc f u (nc + t) j

end

/-! ### line solves and the sweep -/

/-- `DiagonalSolver::solveInPlace`: `sol_rhs[i] /= diagonal(i)` -/
def diagSolve : List α → List α → List α
  | d :: ds, y :: ys => (y / d) :: diagSolve ds ys
  | _, _ => []

section
variable (o : Op α)

/-- `solveCircleSection`: sparse LU on the innermost circle (`none` = the solver's `std::exit` branch), cyclic LDLᵀ on the
    odd circles, the diagonal solver on the even circles -/
def solveCircle (tiny : α → Bool) (nc : Nat) (f u : Field α) (i : Nat) : Option (List α) :=
  if i = 0 then SparseLU.solve tiny (SparseLU.factorRows (innerCSR o)) (circleTemp o nc f u 0)
  else if i % 2 = 1 then some (Tridiag.solve (circleTriSolver o i) (circleTemp o nc f u i)).2
  else some (diagSolve (circleDiag o i) (circleTemp o nc f u i))

/-- `solveRadialSection` -/
def solveRadial (nc : Nat) (f u : Field α) (j : Nat) : List α :=
  if j % 2 = 1 then (Tridiag.solve (radialTriSolver o nc j) (radialTemp o nc f u j)).2
  else diagSolve (radialDiag o nc j) (radialTemp o nc f u j)

def circleStep (tiny : α → Bool) (nc : Nat) (f : Field α) (s : Option (Array α)) (i : Nat) : Option (Array α) :=
  s.bind fun a => (solveCircle o tiny nc f (fld o.nt a) i).map (writeCircle o.nt a i)

def radialStep (nc : Nat) (f : Field α) (a : Array α) (j : Nat) : Array α :=
  writeRadial o.nt nc a j (solveRadial o nc f (fld o.nt a) j)

/-- `ExtrapolatedSmootherTake::extrapolatedSmoothing` in its sequential order: black circles (the outermost smoother circle
    `nc - 1` is black), white circles, black radial lines (even `j`), white radial lines (odd `j`) -/
def sweep (tiny : α → Bool) (nc : Nat) (f : Field α) (x : Array α) : Option (Array α) :=
  let s1 := (blackCircles nc).foldl (circleStep o tiny nc f) (some x)
  let s2 := (whiteCircles nc).foldl (circleStep o tiny nc f) s1
  s2.map fun a =>
    let a3 := (blackRadials o.nt).foldl (radialStep o nc f) a
    (whiteRadials o.nt).foldl (radialStep o nc f) a3

end
end ExSmootherCode
