import GMGModel.Solve
/-!
# `GMGPolar::setup()` — what it provides, and what the solve programs need
mirrors `src/GMGPolar/setup.cpp:33-180` (level loop, `threads_per_level_`, `initial_rhs_f_levels`, the per-level operator
choice and the initial value of `full_grid_smoothing_`) and the `if (!op_…) throw "… not initialized"` guards of
`src/Level/level.cpp`.

`provides` is a decision table read off the code; `needs` says which operator object / which level right-hand side an
instruction of the control-flow IR (`Cycle.lean`) touches.  The theorems (C20s) show that every program `solve()` can run
only touches what `setup()` provided — for every level count ≥ 2, mode, cycle type, FMG setting and smoothing counts.
-/
namespace Setup
open MGCycle

structure Cfg where
  levels : Nat            -- number_of_levels_ (result of chooseNumberOfLevels, see GridGen.lean / C18)
  extrapMode : Nat        -- 0 NONE, 1 IMPLICIT_EXTRAPOLATION, 2 IMPLICIT_FULL_GRID_SMOOTHING, 3 COMBINED, other: the `default:` branch
  fmg : Bool
  maxThreads : Nat
  /-- `floor(max_omp_threads_ * pow(thread_reduction_factor_, d))` as computed in double (parameter) -/
  scaled : Nat → Nat

/-- operator objects of one level after `setup()` -/
structure LevelOps where
  smoother : Bool
  exSmoother : Bool
  direct : Bool
  residual : Bool
  deriving DecidableEq, Repr

/-- the `switch (extrapolation_)` on level 0, the coarsest level, the intermediate levels -/
def opsAt (c : Cfg) (d : Nat) : LevelOps :=
  if d = 0 then
    match c.extrapMode with
    | 0 => ⟨true, false, false, true⟩
    | 1 => ⟨false, true, false, true⟩
    | 2 => ⟨true, false, false, true⟩
    | 3 => ⟨true, true, false, true⟩
    | _ => ⟨true, true, false, true⟩
  else if d = c.levels - 1 then ⟨false, false, true, true⟩
  else ⟨true, false, false, true⟩

/-- `full_grid_smoothing_` as `setup()` leaves it -/
def fgsAfterSetup (mode : Nat) : Bool :=
  match mode with
  | 0 => true | 1 => false | 2 => true | 3 => true | _ => false

/-- `initial_rhs_f_levels`: the levels whose right-hand side is built (injected and discretised) -/
def rhsLevels (c : Cfg) : Nat := if c.fmg then c.levels else if c.extrapMode = 0 then 1 else 2

/-- `threads_per_level_[d] = max(1, min(maxThreads, scaled d))` -/
def threadsAt (c : Cfg) (d : Nat) : Nat := max 1 (min c.maxThreads (c.scaled d))

/-- the rhs part of `setup()` as an instruction list over the level right-hand sides (`build` = build_rhs_f on level 0) -/
inductive RhsInstr
  | build (l : Nat)
  | inject (l : Nat)          -- level l → l+1
  | discretize (l : Nat)
  deriving DecidableEq, Repr

def rhsProgram (c : Cfg) : List RhsInstr :=
  [.build 0] ++ (List.range (rhsLevels c)).flatMap fun d =>
    (if d + 1 < rhsLevels c then [.inject d] else []) ++ [.discretize d]

/-! ### what an instruction needs -/

/-- the operator objects an instruction calls (through the `Level` wrappers that throw when the pointer is null) -/
def needsOps (c : Cfg) : Instr → Bool
  | .smooth l _ _ _ => (opsAt c l).smoother
  | .exSmooth l _ _ _ => (opsAt c l).exSmoother
  | .residual l _ _ _ => (opsAt c l).residual
  | .directSolve l _ => (opsAt c l).direct
  | _ => true

/-- every vector an instruction touches belongs to an existing level -/
def refs : Instr → List Ref
  | .smooth _ x r t => [x, r, t]
  | .exSmooth _ x r t => [x, r, t]
  | .residual _ o r x => [o, r, x]
  | .restrict _ o i => [o, i]
  | .exRestrict _ o i => [o, i]
  | .inject _ o i => [o, i]
  | .prolong _ o i => [o, i]
  | .exProlong _ o i => [o, i]
  | .fmgInterp _ o i => [o, i]
  | .directSolve _ x => [x]
  | .zero x => [x]
  | .add x y => [x, y]
  | .lin43 x y => [x, y]
  | .copy x y => [x, y]
  | .exResidual _ r n => [r, n]

/-- the vectors an instruction writes -/
def writes : Instr → List Ref
  | .smooth _ x _ t => [x, t]
  | .exSmooth _ x _ t => [x, t]
  | .residual _ o _ _ => [o]
  | .restrict _ o _ => [o]
  | .exRestrict _ o _ => [o]
  | .inject _ o _ => [o]
  | .prolong _ o _ => [o]
  | .exProlong _ o _ => [o]
  | .fmgInterp _ o _ => [o]
  | .directSolve _ x => [x]
  | .zero x => [x]
  | .add x _ => [x]
  | .lin43 x _ => [x]
  | .copy x _ => [x]
  | .exResidual _ r _ => [r]

/-- an instruction is covered by what `setup()` provided: its operator exists, all its vectors live on existing levels,
    every level right-hand side it touches was built, and it does not write a right-hand side -/
def instrOK (c : Cfg) (i : Instr) : Bool :=
  needsOps c i && (refs i).all (fun r => decide (r.1 < c.levels) && (r.2 != Buf.rhs || decide (r.1 < rhsLevels c)))
    && (writes i).all (fun r => r.2 != Buf.rhs)

def progOK (c : Cfg) (p : List Instr) : Bool := p.all (instrOK c)

/-- the value of `full_grid_smoothing_` is consistent with the mode: only COMBINED changes it at run time -/
def fgsConsistent (mode : Nat) (fgs : Bool) : Bool :=
  match mode with
  | 0 => true | 1 => !fgs | 2 => fgs | _ => true

end Setup
