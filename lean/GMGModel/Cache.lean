import GMGModel.Grid
import GMGModel.Stencil
/-!
# Level caches — code level
mirrors `src/Level/levelCache.cpp` (both constructors: fresh evaluation on a grid, and the coarse-level constructor that
samples the finer cache at even indices) and `LevelCache::obtainValues` of `include/Level/level.h`.

The input functions are parameters (`Env`): the virtual calls `alpha(r)`, `beta(r)`, `dF*_d*(r, θ, sin θ, cos θ)` and the
libm calls `sin`, `cos`.  Node arrays are indexed by `PolarGrid::index` (`Grid.fastIndex`), with the split of the grid
they belong to — the coarse and the fine level have different splits.
-/
namespace Cache
open Stencil
variable {α : Type} [Scalar α]

/-- external functions -/
structure Env (α : Type) where
  sinF : α → α
  cosF : α → α
  alpha : α → α
  beta : α → α
  /-- `(dFx_dr, dFy_dr, dFx_dt, dFy_dt)(r, θ, sin θ, cos θ)` -/
  jac : α → α → α → α → α × α × α × α
  absF : α → α

/-- the part of a `PolarGrid` the cache constructors read -/
structure GridData (α : Type) where
  g : Grid
  radius : Nat → α
  theta : Nat → α

structure LevelCache (α : Type) where
  cacheCoef : Bool          -- cache_density_profile_coefficients_
  cacheGeo : Bool           -- cache_domain_geometry_
  sin : Array α
  cos : Array α
  alpha : Array α           -- coeff_alpha_  (size nr iff cacheCoef ∧ ¬cacheGeo)
  beta : Array α            -- coeff_beta_   (size nr iff cacheCoef)
  arr : Array α             -- size numberOfNodes iff cacheGeo, indexed by PolarGrid::index
  att : Array α
  art : Array α
  det : Array α

/-- `compute_jacobian_elements` at node values -/
def elements (E : Env α) (r th s c a : α) : α × α × α × α :=
  let J := E.jac r th s c
  jacobianElements E.absF J.1 J.2.1 J.2.2.1 J.2.2.2 a

/-- all nodes in the order the constructor's loops visit them: circle section row by row, then radial section line by line -/
def visitOrder (g : Grid) : List (Nat × Nat) :=
  ((List.range g.nc).flatMap fun i => (List.range g.nt).map fun j => (i, j)) ++
  ((List.range g.nt).flatMap fun j => (List.range (g.nr - g.nc)).map fun t => (g.nc + t, j))

/-- `a[index(i, j)] = v(i, j)` for every node, in visit order, on an array of `size` zeros -/
def fillNodes (g : Grid) (size : Nat) (v : Nat → Nat → α) : Array α :=
  (visitOrder g).foldl (fun a p => a.setIfInBounds (g.fastIndex p.1 p.2) (v p.1 p.2)) (Array.replicate size (Scalar.n 0))

/-- first constructor: evaluate everything on the grid -/
def fresh (E : Env α) (G : GridData α) (cacheCoef cacheGeo : Bool) : LevelCache α :=
  let g := G.g
  let sinA := Array.ofFn (n := g.nt) fun j => E.sinF (G.theta j.val)
  let cosA := Array.ofFn (n := g.nt) fun j => E.cosF (G.theta j.val)
  let alphaA := if cacheCoef ∧ ¬ cacheGeo then Array.ofFn (n := g.nr) fun i => E.alpha (G.radius i.val) else #[]
  let betaA := if cacheCoef then Array.ofFn (n := g.nr) fun i => E.beta (G.radius i.val) else #[]
  -- in both node loops the coefficient used is `alpha(r)` itself (the cached-alpha branch of the radial loop is dead:
  -- it requires `¬ cacheGeo` inside `if (cacheGeo)`)
  let el := fun i j => elements E (G.radius i) (G.theta j) (sinA.getD j (Scalar.n 0)) (cosA.getD j (Scalar.n 0)) (E.alpha (G.radius i))
  let size := if cacheGeo then g.numNodes else 0
  { cacheCoef := cacheCoef, cacheGeo := cacheGeo, sin := sinA, cos := cosA, alpha := alphaA, beta := betaA,
    arr := fillNodes g size fun i j => (el i j).1,
    att := fillNodes g size fun i j => (el i j).2.1,
    art := fillNodes g size fun i j => (el i j).2.2.1,
    det := fillNodes g size fun i j => (el i j).2.2.2 }

/-- second constructor: the cache of the next coarser level, sampled from the finer cache at even indices -/
def coarsen (prev : LevelCache α) (gFine gCoarse : Grid) : LevelCache α :=
  let z : α := Scalar.n 0
  let sample := fun (a : Array α) => fillNodes gCoarse (if a.size > 0 then gCoarse.numNodes else 0)
    fun i j => a.getD (gFine.fastIndex (2 * i) (2 * j)) z
  { cacheCoef := prev.cacheCoef, cacheGeo := prev.cacheGeo,
    sin := Array.ofFn (n := gCoarse.nt) fun j => prev.sin.getD (2 * j.val) z,
    cos := Array.ofFn (n := gCoarse.nt) fun j => prev.cos.getD (2 * j.val) z,
    alpha := if prev.alpha.size > 0 then
        Array.ofFn (n := gCoarse.nr) fun i => if prev.cacheCoef ∧ ¬ prev.cacheGeo then prev.alpha.getD (2 * i.val) z else z
      else #[],
    beta := if prev.beta.size > 0 then
        Array.ofFn (n := gCoarse.nr) fun i => if prev.cacheCoef then prev.beta.getD (2 * i.val) z else z
      else #[],
    arr := if prev.cacheGeo then sample prev.arr else Array.replicate (if prev.arr.size > 0 then gCoarse.numNodes else 0) z,
    att := if prev.cacheGeo then sample prev.att else Array.replicate (if prev.att.size > 0 then gCoarse.numNodes else 0) z,
    art := if prev.cacheGeo then sample prev.art else Array.replicate (if prev.art.size > 0 then gCoarse.numNodes else 0) z,
    det := if prev.cacheGeo then sample prev.det else Array.replicate (if prev.det.size > 0 then gCoarse.numNodes else 0) z }

/-- what an operator gets for node `(i, j)`: `(sin θ, cos θ, beta, arr, att, art, detDF)` -/
def obtain (E : Env α) (G : GridData α) (c : LevelCache α) (i j : Nat) : α × α × α × α × α × α × α :=
  let z : α := Scalar.n 0
  let s := c.sin.getD j z
  let co := c.cos.getD j z
  let r := G.radius i
  let b := if c.cacheCoef then c.beta.getD i z else E.beta r
  if c.cacheGeo then
    let idx := G.g.fastIndex i j
    (s, co, b, c.arr.getD idx z, c.att.getD idx z, c.art.getD idx z, c.det.getD idx z)
  else
    let a := if c.cacheCoef then c.alpha.getD i z else E.alpha r
    let e := elements E r (G.theta j) s co a
    (s, co, b, e.1, e.2.1, e.2.2.1, e.2.2.2)

/-- the direct evaluation at the node, no cache involved -/
def direct (E : Env α) (G : GridData α) (i j : Nat) : α × α × α × α × α × α × α :=
  let r := G.radius i; let th := G.theta j
  let s := E.sinF th; let co := E.cosF th
  let e := elements E r th s co (E.alpha r)
  (s, co, E.beta r, e.1, e.2.1, e.2.2.1, e.2.2.2)

end Cache
