import GMGModel.Stencil
/-!
# Right-hand side assembly
mirrors `src/GMGPolar/build_rhs_f.cpp` (`build_rhs_f`: source term at interior / across-origin nodes, boundary data at
Dirichlet nodes; `discretize_rhs_f`: load scaling ¼(h₁+h₂)(k₁+k₂)|det DF|) and `setup.cpp:96-108` (injection to the
next level, then scaling, level by level).
-/
namespace Rhs
open Stencil
variable {α : Type} [Scalar α]

/-- is (i, j) a row with the PDE stencil (as opposed to a Dirichlet identity row)? -/
def pdeRow (o : Op α) (i : Nat) : Bool := (0 < i && i + 1 < o.nr) || (i = 0 && !o.bc)

/-- `build_rhs_f`: `src` = source term at the node, `bdIn` / `bdOut` = boundary data at the inner / outer boundary -/
def build (o : Op α) (src bdIn bdOut : Field α) : Field α := fun i j =>
  if pdeRow o i then src i j else if i = 0 then bdIn i j else bdOut i j

/-- `discretize_rhs_f` -/
def discretize (o : Op α) (f : Field α) : Field α := fun i j =>
  if pdeRow o i then
    let h1 := if i = 0 then Scalar.n 2 * o.r0 else o.h (i - 1)
    let h2 := o.h i
    let k1 := o.k (jm o j); let k2 := o.k j
    f i j * (quarter * (h1 + h2) * (k1 + k2) * o.det i j)
  else f i j

end Rhs
