import GMGModel.Scalar
/-!
# The discrete operator: gather ("take") and scatter ("give") encodings
mirrors `include/common/geometry_helper.h`, `src/Residual/ResidualTake/applyResidualTake.cpp`,
`src/Residual/ResidualGive/applyAGive.cpp` (all five position classes), `residualGive.cpp` (`result = rhs`, then scatter).

Node fields are functions of `(i : Nat) (j : Nat)` with `j < nt`; angular neighbours are wrapped with the
periodic successor / predecessor / antipode below (the code calls `grid.index(i, j ± 1)` which wraps).
-/
namespace Stencil
variable {α : Type} [Scalar α]
open Scalar

def half : α := n 1 / n 2
def quarter : α := n 1 / n 4

/-- `compute_jacobian_elements`: returns (arr, att, art, detDF) -/
def jacobianElements (abs : α → α) (Jrr Jtr Jrt Jtt alpha : α) : α × α × α × α :=
  let det := Jrr * Jtt - Jrt * Jtr
  let arr := half * (Jtt * Jtt + Jrt * Jrt) * alpha / abs det
  let att := half * (Jtr * Jtr + Jrr * Jrr) * alpha / abs det
  let art := (-Jtt * Jtr - Jrt * Jrr) * alpha / abs det
  (arr, att, art, det)

/-- operator data on one level -/
structure Op (α : Type) where
  nr : Nat
  nt : Nat
  bc : Bool                 -- DirBC_Interior
  r0 : α                    -- grid.radius(0)
  h : Nat → α               -- radialSpacing(i) = radius(i+1) - radius(i)
  k : Nat → α               -- angularSpacing(j), 0 ≤ j < nt
  arr : Nat → Nat → α
  att : Nat → Nat → α
  art : Nat → Nat → α
  det : Nat → Nat → α       -- fabs(detDF)
  beta : Nat → α            -- coeff_beta[i_r]

variable (o : Op α)

def jp (j : Nat) : Nat := (j + 1) % o.nt
def jm (j : Nat) : Nat := (j + o.nt - 1) % o.nt
/-- antipode `i_theta + ntheta/2` -/
def ja (j : Nat) : Nat := (j + o.nt / 2) % o.nt

abbrev Field (α : Type) := Nat → Nat → α

/-! ### gather form (`NODE_APPLY_RESIDUAL_TAKE`) -/

def takeInterior (f x : Field α) (i j : Nat) : α :=
  let h1 := o.h (i - 1); let h2 := o.h i
  let k1 := o.k (jm o j); let k2 := o.k j
  let coeff1 := half * (k1 + k2) / h1
  let coeff2 := half * (k1 + k2) / h2
  let coeff3 := half * (h1 + h2) / k1
  let coeff4 := half * (h1 + h2) / k2
  let jM := jm o j; let jP := jp o j
  f i j -
    (quarter * (h1 + h2) * (k1 + k2) * o.beta i * o.det i j * x i j
     - coeff1 * (o.arr i j + o.arr (i-1) j) * (x (i-1) j - x i j)
     - coeff2 * (o.arr i j + o.arr (i+1) j) * (x (i+1) j - x i j)
     - coeff3 * (o.att i j + o.att i jM) * (x i jM - x i j)
     - coeff4 * (o.att i j + o.att i jP) * (x i jP - x i j)
     - quarter * (o.art (i-1) j + o.art i jM) * x (i-1) jM
     + quarter * (o.art (i+1) j + o.art i jM) * x (i+1) jM
     + quarter * (o.art (i-1) j + o.art i jP) * x (i-1) jP
     - quarter * (o.art (i+1) j + o.art i jP) * x (i+1) jP)

def takeOrigin (f x : Field α) (j : Nat) : α :=
  let h1 := n 2 * o.r0; let h2 := o.h 0
  let k1 := o.k (jm o j); let k2 := o.k j
  let coeff1 := half * (k1 + k2) / h1
  let coeff2 := half * (k1 + k2) / h2
  let coeff3 := half * (h1 + h2) / k1
  let coeff4 := half * (h1 + h2) / k2
  let jM := jm o j; let jP := jp o j; let jA := ja o j
  f 0 j -
    (quarter * (h1 + h2) * (k1 + k2) * o.beta 0 * o.det 0 j * x 0 j
     - coeff1 * (o.arr 0 j + o.arr 0 jA) * (x 0 jA - x 0 j)
     - coeff2 * (o.arr 0 j + o.arr 1 j) * (x 1 j - x 0 j)
     - coeff3 * (o.att 0 j + o.att 0 jM) * (x 0 jM - x 0 j)
     - coeff4 * (o.att 0 j + o.att 0 jP) * (x 0 jP - x 0 j)
     + quarter * (o.art 1 j + o.art 0 jM) * x 1 jM
     - quarter * (o.art 1 j + o.art 0 jP) * x 1 jP)

/-- `result = rhs - A x` at node `(i, j)`, gather form -/
def take (f x : Field α) (i j : Nat) : α :=
  if 0 < i ∧ i + 1 < o.nr then takeInterior o f x i j
  else if i = 0 then (if o.bc then f 0 j - x 0 j else takeOrigin o f x j)
  else f i j - x i j

/-! ### scatter form (`NODE_APPLY_A_GIVE`): what node `(i, j)` subtracts from itself and its neighbours -/

/-- one update `result[(ti, tj)] -= v` -/
structure Upd (α : Type) where
  ti : Nat
  tj : Nat
  v : α

section give
variable (x : Field α) (i j : Nat)

/-- spacings and coefficients of node (i,j); `h1` is supplied because it is `2 R0` across the origin -/
def coeffs (h1 : α) : α × α × α × α :=
  let h2 := o.h i
  let k1 := o.k (jm o j); let k2 := o.k j
  (half * (k1 + k2) / h1, half * (k1 + k2) / h2, half * (h1 + h2) / k1, half * (h1 + h2) / k2)

/-- "Fill result(i,j)" with left neighbour `(li, lj)` -/
def fillC (h1 : α) (li lj : Nat) : Upd α :=
  let h2 := o.h i
  let k1 := o.k (jm o j); let k2 := o.k j
  let c := coeffs o i j h1
  ⟨i, j, quarter * (h1 + h2) * (k1 + k2) * o.beta i * o.det i j * x i j
      - c.1 * o.arr i j * x li lj
      - c.2.1 * o.arr i j * x (i+1) j
      - c.2.2.1 * o.att i j * x i (jm o j)
      - c.2.2.2 * o.att i j * x i (jp o j)
      + ((c.1 + c.2.1) * o.arr i j + (c.2.2.1 + c.2.2.2) * o.att i j) * x i j⟩

/-- "Fill result(i-1,j)" -/
def fillL (h1 : α) : Upd α :=
  let c := coeffs o i j h1
  ⟨i - 1, j, -c.1 * o.arr i j * x i j + c.1 * o.arr i j * x (i-1) j
      - quarter * o.art i j * x i (jp o j) + quarter * o.art i j * x i (jm o j)⟩

/-- "Fill result(i+1,j)" -/
def fillR (h1 : α) : Upd α :=
  let c := coeffs o i j h1
  ⟨i + 1, j, -c.2.1 * o.arr i j * x i j + c.2.1 * o.arr i j * x (i+1) j
      + quarter * o.art i j * x i (jp o j) - quarter * o.art i j * x i (jm o j)⟩

/-- "Fill result(i,j-1)" -/
def fillB (h1 : α) : Upd α :=
  let c := coeffs o i j h1
  ⟨i, jm o j, -c.2.2.1 * o.att i j * x i j + c.2.2.1 * o.att i j * x i (jm o j)
      - quarter * o.art i j * x (i+1) j + quarter * o.art i j * x (i-1) j⟩

/-- "Fill result(i,j+1)" -/
def fillT (h1 : α) : Upd α :=
  let c := coeffs o i j h1
  ⟨i, jp o j, -c.2.2.2 * o.att i j * x i j + c.2.2.2 * o.att i j * x i (jp o j)
      + quarter * o.art i j * x (i+1) j - quarter * o.art i j * x (i-1) j⟩

/-- across the origin: the "left" neighbour is the antipode, the mixed terms towards it are dropped -/
def fillLAcross (h1 : α) : Upd α :=
  let c := coeffs o 0 j h1
  ⟨0, ja o j, -c.1 * o.arr 0 j * x 0 j + c.1 * o.arr 0 j * x 0 (ja o j)⟩
def fillBAcross (h1 : α) : Upd α :=
  let c := coeffs o 0 j h1
  ⟨0, jm o j, -c.2.2.1 * o.att 0 j * x 0 j + c.2.2.1 * o.att 0 j * x 0 (jm o j) - quarter * o.art 0 j * x 1 j⟩
def fillTAcross (h1 : α) : Upd α :=
  let c := coeffs o 0 j h1
  ⟨0, jp o j, -c.2.2.2 * o.att 0 j * x 0 j + c.2.2.2 * o.att 0 j * x 0 (jp o j) + quarter * o.art 0 j * x 1 j⟩

/-- the updates node `(i, j)` performs, in code order, five position classes -/
def giveNode : List (Upd α) :=
  if 1 < i ∧ i + 2 < o.nr then
    let h1 := o.h (i - 1)
    [fillC o x i j h1 (i-1) j, fillL o x i j h1, fillR o x i j h1, fillB o x i j h1, fillT o x i j h1]
  else if i = 0 then
    if o.bc then
      [⟨0, j, x 0 j⟩, fillR o x 0 j (n 0)]       -- coeff2 does not involve h1
    else
      let h1 := n 2 * o.r0
      [fillC o x 0 j h1 0 (ja o j), fillLAcross o x j h1, fillR o x 0 j h1, fillBAcross o x j h1, fillTAcross o x j h1]
  else if i = 1 then
    let h1 := o.h 0
    [fillC o x i j h1 (i-1) j] ++ (if o.bc then [] else [fillL o x i j h1]) ++
      [fillR o x i j h1, fillB o x i j h1, fillT o x i j h1]
  else if i + 2 = o.nr then
    let h1 := o.h (i - 1)
    [fillC o x i j h1 (i-1) j, fillL o x i j h1, fillB o x i j h1, fillT o x i j h1]
  else if i + 1 = o.nr then
    [⟨i, j, x i j⟩, fillL o x i j (o.h (i - 1))]
  else []

end give

/-- `result[t] -= v` -/
def applyUpd (res : Field α) (u : Upd α) : Field α :=
  fun a b => if a = u.ti ∧ b = u.tj then res a b - u.v else res a b

/-- all nodes in the sequential code order is a permutation of this list (row-major) -/
def allNodes : List (Nat × Nat) :=
  (List.range o.nr).flatMap fun i => (List.range o.nt).map fun j => (i, j)

/-- `ResidualGive::computeResidual`: `result = rhs`, then every node scatters -/
def give (f x : Field α) : Field α :=
  ((allNodes o).flatMap fun p => giveNode o x p.1 p.2).foldl applyUpd f

end Stencil
