import GMGModel.Smoother
import GMGModel.Tridiag
import GMGModel.SparseLU
/-!
# Zebra line smoother — code level (take strategy)
mirrors `src/Smoother/SmootherTake/buildMatrix.cpp` (`NODE_BUILD_SMOOTHER_TAKE`, `UPDATE_MATRIX_ELEMENT`: what ends up in
`main_diagonal`, `sub_diagonal`, `cyclic_corner_element` of every `SymmetricTridiagonalSolver` and in the CSR matrix of the
innermost circle), `src/Smoother/SmootherTake/smootherSolver.cpp` (`NODE_APPLY_ASC_ORTHO_CIRCLE_TAKE`,
`NODE_APPLY_ASC_ORTHO_RADIAL_TAKE`, `solveCircleSection`, `solveRadialSection`, `smoothing`) and the stencil table
`circle_stencil_across_origin_` of `include/Smoother/SmootherTake/smootherTake.h` (storage order Center, Left, Bottom, Top).

Same arithmetic operations in the same order as the C++ (so that the `Float` instance reproduces the implementation's
rounding on the tridiagonal lines); the line solves are the models of `Tridiag.lean` and `SparseLU.lean`.
The iterate is a row-major array (`x[i * nt + j]`), not the library's node numbering (which is C17's subject).

What is NOT here: the give variant's scatter assembly (tied by the same correspondence records, model of the take
variant), MUMPS, the OpenMP schedule (that is `Sched.lean`).
-/
namespace SmootherCode
open Stencil Scalar
variable {α : Type} [Scalar α]

/-- the iterate as a node field -/
def fld (nt : Nat) (a : Array α) : Field α := fun i j => a.getD (i * nt + j) (n 0)

/-- row-major array of a node field -/
def ofField (nr nt : Nat) (u : Field α) : Array α := Array.ofFn (n := nr * nt) fun p => u (p.val / nt) (p.val % nt)

section
variable (o : Op α)

/-- `h1` of row `i`: `2 * grid.radius(0)` on the innermost circle (across-origin), `radialSpacing(i-1)` otherwise -/
def h1 (i : Nat) : α := if i = 0 then n 2 * o.r0 else o.h (i - 1)

def coeff1 (i j : Nat) : α := half * (o.k (jm o j) + o.k j) / h1 o i
def coeff2 (i j : Nat) : α := half * (o.k (jm o j) + o.k j) / o.h i
def coeff3 (i j : Nat) : α := half * (h1 o i + o.h i) / o.k (jm o j)
def coeff4 (i j : Nat) : α := half * (h1 o i + o.h i) / o.k j

/-- the diagonal value every non-Dirichlet row stores (`value` / `center_value`); `(li, lj)` is the "left" node:
    `(i-1, j)`, or the antipode `(0, j + nt/2)` on the innermost circle -/
def centerValue (i j li lj : Nat) : α :=
  quarter * (h1 o i + o.h i) * (o.k (jm o j) + o.k j) * o.beta i * o.det i j
    + coeff1 o i j * (o.arr i j + o.arr li lj)
    + coeff2 o i j * (o.arr i j + o.arr (i + 1) j)
    + coeff3 o i j * (o.att i j + o.att i (jm o j))
    + coeff4 o i j * (o.att i j + o.att i (jp o j))

def leftValue (i j li lj : Nat) : α := -(coeff1 o i j) * (o.arr i j + o.arr li lj)
def rightValue (i j : Nat) : α := -(coeff2 o i j) * (o.arr i j + o.arr (i + 1) j)
def bottomValue (i j : Nat) : α := -(coeff3 o i j) * (o.att i j + o.att i (jm o j))
def topValue (i j : Nat) : α := -(coeff4 o i j) * (o.att i j + o.att i (jp o j))

/-! ### what `buildAscMatrices` leaves in the solver objects -/

/-- circle `0 < i < nc`: `main_diagonal(j)` -/
def circleMain (i : Nat) : List α := (List.range o.nt).map fun j => centerValue o i j (i - 1) j
/-- `sub_diagonal(j)` holds the entry `(j, j+1)` ("Top" of node `j`); "Bottom" `(j, j-1)` is never stored -/
def circleSub (i : Nat) : List α := (List.range (o.nt - 1)).map fun j => topValue o i j
/-- `cyclic_corner_element()` holds the entry `(0, nt-1)` ("Bottom" of node 0) -/
def circleCorner (i : Nat) : α := bottomValue o i 0
def circleSolver (i : Nat) : Tridiag.State α := Tridiag.mk (circleMain o i) (circleSub o i) (circleCorner o i) true

/-- radial line `j`, local index `t = i - nc`: identity row on the outer boundary -/
def radialMain (nc j : Nat) : List α :=
  (List.range (o.nr - nc)).map fun t => let i := nc + t; if i + 1 = o.nr then n 1 else centerValue o i j (i - 1) j
/-- entry `(t, t+1)` ("Right"); the coupling to the outer Dirichlet node is stored as `0.0` (moved to the right-hand side) -/
def radialSub (nc j : Nat) : List α :=
  (List.range (o.nr - nc - 1)).map fun t => let i := nc + t; if i + 2 = o.nr then n 0 else rightValue o i j
def radialSolver (nc j : Nat) : Tridiag.State α := Tridiag.mk (radialMain o nc j) (radialSub o nc j) (n 0) false

/-- stored entries of row `j` of `inner_boundary_circle_matrix_`, in storage order (offsets Center 0, Left 1, Bottom 2, Top 3) -/
def innerRow (j : Nat) : List (Nat × α) :=
  if o.bc then [(j, n 1)]
  else [(j, centerValue o 0 j 0 (ja o j)), (ja o j, leftValue o 0 j 0 (ja o j)), (jm o j, bottomValue o 0 j), (jp o j, topValue o 0 j)]

/-- the CSR container as the `nnz_per_row` constructor lays it out -/
def innerCSR : SparseLU.CSR α :=
  let rows := (List.range o.nt).map (innerRow o)
  let w := if o.bc then 1 else 4
  ⟨o.nt, o.nt, rows.flatMap (·.map (·.2)), rows.flatMap (·.map (·.1)), (List.range (o.nt + 1)).map (· * w)⟩

/-! ### `temp = rhs - A_sc^ortho x` -/

/-- the four mixed-derivative terms every full 9-point row moves to the right-hand side -/
def diagTerms (u : Field α) (i j : Nat) : α → α := fun acc =>
  acc - quarter * (o.art (i - 1) j + o.art i (jm o j)) * u (i - 1) (jm o j)
      + quarter * (o.art (i + 1) j + o.art i (jm o j)) * u (i + 1) (jm o j)
      + quarter * (o.art (i - 1) j + o.art i (jp o j)) * u (i - 1) (jp o j)
      - quarter * (o.art (i + 1) j + o.art i (jp o j)) * u (i + 1) (jp o j)

/-- `NODE_APPLY_ASC_ORTHO_CIRCLE_TAKE` (only called with `i < nc`) -/
def orthoCircle (nc : Nat) (f u : Field α) (i j : Nat) : α :=
  if 0 < i ∧ i < nc then
    f i j - diagTerms o u i j
      (-(coeff1 o i j) * (o.arr i j + o.arr (i - 1) j) * u (i - 1) j
        - coeff2 o i j * (o.arr i j + o.arr (i + 1) j) * u (i + 1) j)
  else if i = 0 then
    if o.bc then f 0 j
    else f 0 j -
      (-(coeff2 o 0 j) * (o.arr 0 j + o.arr 1 j) * u 1 j
        + quarter * (o.art 1 j + o.art 0 (jm o j)) * u 1 (jm o j)
        - quarter * (o.art 1 j + o.art 0 (jp o j)) * u 1 (jp o j))
  else f i j

/-- `NODE_APPLY_ASC_ORTHO_RADIAL_TAKE` (only called with `nc ≤ i < nr`) -/
def orthoRadial (nc : Nat) (f u : Field α) (i j : Nat) : α :=
  if nc < i ∧ i + 2 < o.nr then
    f i j - diagTerms o u i j
      (-(coeff3 o i j) * (o.att i j + o.att i (jm o j)) * u i (jm o j)
        - coeff4 o i j * (o.att i j + o.att i (jp o j)) * u i (jp o j))
  else if i = nc then
    f i j - diagTerms o u i j
      (-(coeff1 o i j) * (o.arr i j + o.arr (i - 1) j) * u (i - 1) j
        - coeff3 o i j * (o.att i j + o.att i (jm o j)) * u i (jm o j)
        - coeff4 o i j * (o.att i j + o.att i (jp o j)) * u i (jp o j))
  else if i + 2 = o.nr then
    -- "Right" is shifted to the right-hand side with the boundary datum `rhs[right]`
    f i j - diagTerms o u i j
      (-(coeff2 o i j) * (o.arr i j + o.arr (i + 1) j) * f (i + 1) j
        - coeff3 o i j * (o.att i j + o.att i (jm o j)) * u i (jm o j)
        - coeff4 o i j * (o.att i j + o.att i (jp o j)) * u i (jp o j))
  else f i j

def circleTemp (nc : Nat) (f u : Field α) (i : Nat) : List α := (List.range o.nt).map (orthoCircle o nc f u i)
def radialTemp (nc : Nat) (f u : Field α) (j : Nat) : List α :=
  (List.range (o.nr - nc)).map fun t => orthoRadial o nc f u (nc + t) j

/-! ### line solves and the sweep -/

/-- `solveCircleSection`: sparse LU on the innermost circle (`none` = the solver's `std::exit` branch), cyclic LDLᵀ otherwise -/
def solveCircle (tiny : α → Bool) (nc : Nat) (f u : Field α) (i : Nat) : Option (List α) :=
  if i = 0 then SparseLU.solve tiny (SparseLU.factorRows (innerCSR o)) (circleTemp o nc f u 0)
  else some (Tridiag.solve (circleSolver o i) (circleTemp o nc f u i)).2

/-- `solveRadialSection` -/
def solveRadial (nc : Nat) (f u : Field α) (j : Nat) : List α :=
  (Tridiag.solve (radialSolver o nc j) (radialTemp o nc f u j)).2

end

/-- `std::move(temp…, x…)` for circle `i` -/
def writeCircle (nt : Nat) (a : Array α) (i : Nat) (v : List α) : Array α :=
  Array.ofFn (n := a.size) fun p => if p.val / nt = i then v.getD (p.val % nt) (n 0) else a[p]

/-- `std::move(temp…, x…)` for radial line `j` -/
def writeRadial (nt nc : Nat) (a : Array α) (j : Nat) (v : List α) : Array α :=
  Array.ofFn (n := a.size) fun p => if nc ≤ p.val / nt ∧ p.val % nt = j then v.getD (p.val / nt - nc) (n 0) else a[p]

/-- the outermost smoother circle `nc - 1` is black -/
def blackCircles (nc : Nat) : List Nat := (List.range nc).filter fun i => (nc - 1 - i) % 2 = 0
def whiteCircles (nc : Nat) : List Nat := (List.range nc).filter fun i => (nc - 1 - i) % 2 = 1
def blackRadials (nt : Nat) : List Nat := (List.range nt).filter fun j => j % 2 = 0
def whiteRadials (nt : Nat) : List Nat := (List.range nt).filter fun j => j % 2 = 1

section
variable (o : Op α)

def circleStep (tiny : α → Bool) (nc : Nat) (f : Field α) (s : Option (Array α)) (i : Nat) : Option (Array α) :=
  s.bind fun a => (solveCircle o tiny nc f (fld o.nt a) i).map (writeCircle o.nt a i)

def radialStep (nc : Nat) (f : Field α) (a : Array α) (j : Nat) : Array α :=
  writeRadial o.nt nc a j (solveRadial o nc f (fld o.nt a) j)

/-- `SmootherTake::smoothing` in its sequential order: black circles, white circles, black radial lines, white radial lines -/
def sweep (tiny : α → Bool) (nc : Nat) (f : Field α) (x : Array α) : Option (Array α) :=
  let s1 := (blackCircles nc).foldl (circleStep o tiny nc f) (some x)
  let s2 := (whiteCircles nc).foldl (circleStep o tiny nc f) s1
  s2.map fun a =>
    let a3 := (blackRadials o.nt).foldl (radialStep o nc f) a
    (whiteRadials o.nt).foldl (radialStep o nc f) a3

end
end SmootherCode
