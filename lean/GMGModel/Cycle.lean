/-!
# Multigrid control flow as instruction lists ("program = trace")
mirrors `src/GMGPolar/MultigridMethods/*.cpp` (six cycle files), `solver.cpp` (`initializeSolution`, the residual
evaluation of the stop test).

Every vector-level operation the C++ performs at nesting depth 0 is one `Instr`; the recursive C++ functions become
recursive Lean functions producing the instruction list, with the same rotation of the four work vectors per level.
Under the `GMGPOLAR_VERIF` hooks the implementation logs exactly this syntax (`Instr.toString`).
-/
namespace MGCycle

inductive Buf | sol | rhs | res | err
  deriving DecidableEq, Repr

def Buf.toString : Buf → String
  | .sol => "sol" | .rhs => "rhs" | .res => "res" | .err => "err"

/-- a work vector: (level, buffer) -/
abbrev Ref := Nat × Buf
def refStr (r : Ref) : String := s!"{r.1}.{r.2.toString}"

inductive Kind | V | W | F
  deriving DecidableEq, Repr

inductive Instr
  | smooth (l : Nat) (x rhs tmp : Ref)
  | exSmooth (l : Nat) (x rhs tmp : Ref)
  | residual (l : Nat) (out rhs x : Ref)
  | restrict (l : Nat) (out inp : Ref)      -- level l → l+1
  | exRestrict (l : Nat) (out inp : Ref)
  | inject (l : Nat) (out inp : Ref)
  | prolong (l : Nat) (out inp : Ref)       -- level l → l-1   (the code passes the coarse level)
  | exProlong (l : Nat) (out inp : Ref)
  | fmgInterp (l : Nat) (out inp : Ref)
  | directSolve (l : Nat) (x : Ref)
  | zero (x : Ref)                          -- assign(x, 0.0)
  | add (x y : Ref)                         -- x += y
  | lin43 (x y : Ref)                       -- x = 4/3 x - 1/3 y
  | copy (x y : Ref)                        -- x = y
  | exResidual (l : Nat) (res resNext : Ref)
  deriving Repr

def Instr.toString : Instr → String
  | .smooth l x r t => s!"smooth {l} {refStr x} {refStr r} {refStr t}"
  | .exSmooth l x r t => s!"exSmooth {l} {refStr x} {refStr r} {refStr t}"
  | .residual l o r x => s!"residual {l} {refStr o} {refStr r} {refStr x}"
  | .restrict l o i => s!"restrict {l} {refStr o} {refStr i}"
  | .exRestrict l o i => s!"exRestrict {l} {refStr o} {refStr i}"
  | .inject l o i => s!"inject {l} {refStr o} {refStr i}"
  | .prolong l o i => s!"prolong {l} {refStr o} {refStr i}"
  | .exProlong l o i => s!"exProlong {l} {refStr o} {refStr i}"
  | .fmgInterp l o i => s!"fmgInterp {l} {refStr o} {refStr i}"
  | .directSolve l x => s!"directSolve {l} {refStr x}"
  | .zero x => s!"zero {refStr x}"
  | .add x y => s!"add {refStr x} {refStr y}"
  | .lin43 x y => s!"lin43 {refStr x} {refStr y}"
  | .copy x y => s!"copy {refStr x} {refStr y}"
  | .exResidual l r n => s!"exResidual {l} {refStr r} {refStr n}"

structure Cfg where
  levels : Nat          -- number_of_levels_
  nu1 : Nat             -- pre_smoothing_steps_
  nu2 : Nat             -- post_smoothing_steps_

/-- `multigrid_{V,W,F}_Cycle(level_depth = d, solution = x, rhs, residual = tmp)`; `fuel` bounds the recursion depth
    (`fuel = levels - 1 - d` in every call the solver makes) -/
def plain (c : Cfg) (k : Kind) : (fuel : Nat) → (d : Nat) → (x rhs tmp : Ref) → List Instr
  | 0, _, _, _, _ => []
  | fuel + 1, d, x, rhs, tmp =>
      List.replicate c.nu1 (.smooth d x rhs tmp) ++ [.residual d tmp rhs x] ++
      (if d + 1 = c.levels - 1 then
         [.restrict d (d+1, .res) tmp, .directSolve (d+1) (d+1, .res)]
       else
         [.restrict d (d+1, .err) tmp, .zero (d+1, .res)] ++
         (match k with
          | .V => plain c .V fuel (d+1) (d+1, .res) (d+1, .err) (d+1, .sol)
          | .W => plain c .W fuel (d+1) (d+1, .res) (d+1, .err) (d+1, .sol) ++ plain c .W fuel (d+1) (d+1, .res) (d+1, .err) (d+1, .sol)
          | .F => plain c .F fuel (d+1) (d+1, .res) (d+1, .err) (d+1, .sol) ++ plain c .V fuel (d+1) (d+1, .res) (d+1, .err) (d+1, .sol))) ++
      [.prolong (d+1) tmp (d+1, .res), .add x tmp] ++ List.replicate c.nu2 (.smooth d x rhs tmp)

/-- the smoothing call of the extrapolated cycle: `level_depth == 0 && !full_grid_smoothing_` -/
def exSm (fgs : Bool) (d : Nat) (x rhs tmp : Ref) : Instr :=
  if d = 0 ∧ !fgs then .exSmooth d x rhs tmp else .smooth d x rhs tmp

/-- `implicitlyExtrapolatedMultigrid_{V,W,F}_Cycle(level_depth = d, …)` (the solver calls it with `d = 0` only) -/
def extrap (c : Cfg) (k : Kind) (fgs : Bool) (d : Nat) (x rhs tmp : Ref) : List Instr :=
  List.replicate c.nu1 (exSm fgs d x rhs tmp) ++
  (if d + 1 = c.levels - 1 then
     [.residual d tmp rhs x, .exRestrict d (d+1, .res) tmp, .inject d (d+1, .sol) x,
      .residual (d+1) (d+1, .err) (d+1, .rhs) (d+1, .sol), .lin43 (d+1, .res) (d+1, .err), .directSolve (d+1) (d+1, .res)]
   else
     [.residual d tmp rhs x, .exRestrict d (d+1, .err) tmp, .inject d (d+1, .sol) x,
      .residual (d+1) (d+1, .res) (d+1, .rhs) (d+1, .sol), .lin43 (d+1, .err) (d+1, .res), .zero (d+1, .res)] ++
     (let fuel := c.levels - 2 - d
      match k with
      | .V => plain c .V fuel (d+1) (d+1, .res) (d+1, .err) (d+1, .sol)
      | .W => plain c .W fuel (d+1) (d+1, .res) (d+1, .err) (d+1, .sol) ++ plain c .W fuel (d+1) (d+1, .res) (d+1, .err) (d+1, .sol)
      | .F => plain c .F fuel (d+1) (d+1, .res) (d+1, .err) (d+1, .sol) ++ plain c .V fuel (d+1) (d+1, .res) (d+1, .err) (d+1, .sol))) ++
  [.exProlong (d+1) tmp (d+1, .res), .add x tmp] ++ List.replicate c.nu2 (exSm fgs d x rhs tmp)

/-- one top-level cycle of `solve()` on level `d` with the level's own vectors -/
def cycleAt (c : Cfg) (k : Kind) (extrapolated : Bool) (fgs : Bool) (d : Nat) : List Instr :=
  if extrapolated then extrap c k fgs d (d, .sol) (d, .rhs) (d, .res)
  else plain c k (c.levels - 1 - d) d (d, .sol) (d, .rhs) (d, .res)

/-- the residual evaluation of the stop test (`solver.cpp`), `extrapolation_ != NONE` adds the coarse part -/
def stopResidual (extrapolated : Bool) : List Instr :=
  [.residual 0 (0, .res) (0, .rhs) (0, .sol)] ++
  (if extrapolated then [.inject 0 (1, .sol) (0, .sol), .residual 1 (1, .res) (1, .rhs) (1, .sol), .exResidual 0 (0, .res) (1, .res)] else [])

/-- `initializeSolution()`.  `fmgStart` is the level the prolongation loop starts from:
    the code as written has `levels - 2` (`FMG_start_level_depth - 1`). -/
def fmgLoop (c : Cfg) (fmgKind : Kind) (fmgIters : Nat) (extrapolated fgs : Bool) : (cur : Nat) → List Instr
  | 0 => []
  | cur + 1 =>
      -- current_level = cur + 1 (coarse), finer level = cur
      [.fmgInterp (cur + 1) (cur, .sol) (cur + 1, .sol)] ++
      (List.replicate fmgIters (cycleAt c fmgKind (extrapolated ∧ cur = 0) fgs cur)).flatten ++
      fmgLoop c fmgKind fmgIters extrapolated fgs cur

def initSolution (c : Cfg) (fmg : Bool) (fmgKind : Kind) (fmgIters : Nat) (extrapolated fgs : Bool) (fmgStart : Nat) : List Instr :=
  if !fmg then [.zero (0, .sol)]
  else
    [.copy (c.levels - 1, .sol) (c.levels - 1, .rhs), .directSolve (c.levels - 1) (c.levels - 1, .sol)] ++
    fmgLoop c fmgKind fmgIters extrapolated fgs fmgStart

end MGCycle
