/-!
# OpenMP phase structure and kernel footprints

`Region` is what `tools/omp_extract.py` regenerates from the C++ on every check (`Generated/Sched.lean`): the ordered
work-sharing loops of one `#pragma omp parallel` block with their bounds, stride, `nowait` flag and body (kernel calls).
The *footprints* below are hand-written from the kernel sources (DESIGN.md Appendix F): which nodes `(r, θ)` of which shared
array a kernel call may write / read.  Only arrays that are written somewhere in the region matter.

A *barrier interval* is a maximal run of consecutive loops ending at the first loop without `nowait` (an `omp for`
without `nowait` ends with a barrier; the end of the parallel region is a barrier too).
-/
namespace Sched

structure Shape where
  nr : Int
  nt : Int
  nc : Int
  deriving Repr

inductive Colour | black | white | none
  deriving DecidableEq, Repr

inductive Cls
  | ResidualGive | ResidualTake | SmootherGive | SmootherTake | ExSmootherGive | ExSmootherTake
  | DirectGive | DirectTake | SmootherGiveAsc | SmootherTakeAsc | ExSmootherGiveAsc | ExSmootherTakeAsc
  deriving DecidableEq, Repr

inductive Fn
  | applyCircleSection | applyRadialSection
  | applyAscOrthoCircleSection | applyAscOrthoRadialSection | solveCircleSection | solveRadialSection
  | buildSolverMatrixCircleSection | buildSolverMatrixRadialSection | buildAscCircleSection | buildAscRadialSection
  deriving DecidableEq, Repr

structure Call where
  cls : Cls
  fn : Fn
  arg : Int
  colour : Colour
  deriving Repr

structure Loop where
  lo : Shape → Int
  hi : Shape → Int
  step : Int
  nowait : Bool
  body : Shape → Int → List Call

instance : Inhabited Loop := ⟨⟨fun _ => 0, fun _ => 0, 1, false, fun _ _ => []⟩⟩

structure Region where
  name : String
  loops : List Loop

/-- shared arrays (per region only some occur) -/
inductive Arr | out | x | temp
  deriving DecidableEq, Repr

/-- periodic neighbours of an angular index -/
def thM (s : Shape) (j : Int) : Int := if j = 0 then s.nt - 1 else j - 1
def thP (s : Shape) (j : Int) : Int := if j + 1 = s.nt then 0 else j + 1

/-- circle `i` is black iff `nc - 1 - i` is even (the outermost smoother circle is black; row `nc` counts as white) -/
def circleBlack (s : Shape) (i : Int) : Prop := (s.nc - 1 - i) % 2 = 0
instance (s : Shape) (i : Int) : Decidable (circleBlack s i) := by unfold circleBlack; infer_instance
def lineBlack (j : Int) : Prop := j % 2 = 0
instance (j : Int) : Decidable (lineBlack j) := by unfold lineBlack; infer_instance

def colourIs (black : Prop) (c : Colour) : Prop := (c = .black ∧ black) ∨ (c = .white ∧ ¬ black)
instance (black : Prop) [Decidable black] (c : Colour) : Decidable (colourIs black c) := by unfold colourIs; infer_instance

/-- "give" scatter of a circle row: rows i-1 … i+1 -/
def giveCircle (i r : Int) : Prop := i - 1 ≤ r ∧ r ≤ i + 1
/-- "give" scatter of a radial line: lines j-1 … j+1 from row nc, plus the node (nc-1, j) -/
def giveRadial (s : Shape) (j r θ : Int) : Prop :=
  (s.nc ≤ r ∧ (θ = j ∨ θ = thM s j ∨ θ = thP s j)) ∨ (r = s.nc - 1 ∧ θ = j)

/-- nodes of array `a` a call may WRITE -/
def writes (s : Shape) (k : Call) (a : Arr) (r θ : Int) : Prop :=
  match k.cls, k.fn with
  -- scatter kernels: ResidualGive on `result`, the give assemblies on the rows of their matrices
  | .ResidualGive, .applyCircleSection | .DirectGive, .buildSolverMatrixCircleSection
  | .SmootherGiveAsc, .buildAscCircleSection | .ExSmootherGiveAsc, .buildAscCircleSection => a = .out ∧ giveCircle k.arg r
  | .ResidualGive, .applyRadialSection | .DirectGive, .buildSolverMatrixRadialSection
  | .SmootherGiveAsc, .buildAscRadialSection | .ExSmootherGiveAsc, .buildAscRadialSection => a = .out ∧ giveRadial s k.arg r θ
  -- gather kernels: own row / own line
  | .ResidualTake, .applyCircleSection | .DirectTake, .buildSolverMatrixCircleSection
  | .SmootherTakeAsc, .buildAscCircleSection | .ExSmootherTakeAsc, .buildAscCircleSection => a = .out ∧ r = k.arg
  | .ResidualTake, .applyRadialSection | .DirectTake, .buildSolverMatrixRadialSection
  | .SmootherTakeAsc, .buildAscRadialSection | .ExSmootherTakeAsc, .buildAscRadialSection => a = .out ∧ s.nc ≤ r ∧ θ = k.arg
  -- give smoothers: `temp` of the own row if the colour colourIs, of the two neighbouring rows otherwise
  | .SmootherGive, .applyAscOrthoCircleSection | .ExSmootherGive, .applyAscOrthoCircleSection =>
      a = .temp ∧ r < s.nc ∧ 0 ≤ r ∧
        ((colourIs (circleBlack s k.arg) k.colour ∧ r = k.arg) ∨ (¬ colourIs (circleBlack s k.arg) k.colour ∧ (r = k.arg - 1 ∨ r = k.arg + 1)))
  | .SmootherGive, .applyAscOrthoRadialSection | .ExSmootherGive, .applyAscOrthoRadialSection =>
      a = .temp ∧ s.nc ≤ r ∧
        ((colourIs (lineBlack k.arg) k.colour ∧ θ = k.arg) ∨ (¬ colourIs (lineBlack k.arg) k.colour ∧ (θ = thM s k.arg ∨ θ = thP s k.arg)))
  -- take smoothers: assembling the right-hand side and solving are fused per line
  | .SmootherTake, .applyAscOrthoCircleSection | .ExSmootherTake, .applyAscOrthoCircleSection => a = .temp ∧ r = k.arg
  | .SmootherTake, .applyAscOrthoRadialSection | .ExSmootherTake, .applyAscOrthoRadialSection => a = .temp ∧ s.nc ≤ r ∧ θ = k.arg
  | _, .solveCircleSection => (a = .temp ∨ a = .x) ∧ r = k.arg
  | _, .solveRadialSection => (a = .temp ∨ a = .x) ∧ s.nc ≤ r ∧ θ = k.arg
  | _, _ => False

/-- nodes of array `a` a call may READ (only arrays that are written somewhere in the same region are listed) -/
def reads (s : Shape) (k : Call) (a : Arr) (r θ : Int) : Prop :=
  match k.cls, k.fn with
  | .SmootherGive, .applyAscOrthoCircleSection =>
      a = .x ∧ ((colourIs (circleBlack s k.arg) k.colour ∧ (r = k.arg - 1 ∨ r = k.arg + 1)) ∨ (¬ colourIs (circleBlack s k.arg) k.colour ∧ r = k.arg))
  | .SmootherGive, .applyAscOrthoRadialSection =>
      a = .x ∧ ((colourIs (lineBlack k.arg) k.colour ∧ ((s.nc ≤ r ∧ (θ = thM s k.arg ∨ θ = thP s k.arg)) ∨
                   (r = s.nc - 1 ∧ (θ = k.arg ∨ θ = thM s k.arg ∨ θ = thP s k.arg))))
               ∨ (¬ colourIs (lineBlack k.arg) k.colour ∧ s.nc - 1 ≤ r ∧ θ = k.arg))
  | .SmootherTake, .applyAscOrthoCircleSection =>
      a = .x ∧ (r = k.arg - 1 ∨ r = k.arg + 1)
  | .SmootherTake, .applyAscOrthoRadialSection =>
      a = .x ∧ ((s.nc ≤ r ∧ (θ = thM s k.arg ∨ θ = thP s k.arg)) ∨ (r = s.nc - 1 ∧ (θ = k.arg ∨ θ = thM s k.arg ∨ θ = thP s k.arg)))
  -- the extrapolated smoothers additionally read `x` on the OWN line: the coarse nodes of a line are not unknowns of its
  -- line system, their current values go to the right-hand side (found by the footprint probe `h_foot`, not by reading)
  | .ExSmootherGive, .applyAscOrthoCircleSection =>
      a = .x ∧ (r = k.arg ∨ (colourIs (circleBlack s k.arg) k.colour ∧ (r = k.arg - 1 ∨ r = k.arg + 1)))
  | .ExSmootherGive, .applyAscOrthoRadialSection =>
      a = .x ∧ ((s.nc - 1 ≤ r ∧ θ = k.arg) ∨
                (colourIs (lineBlack k.arg) k.colour ∧ s.nc - 1 ≤ r ∧ (θ = thM s k.arg ∨ θ = thP s k.arg)))
  | .ExSmootherTake, .applyAscOrthoCircleSection =>
      a = .x ∧ (r = k.arg - 1 ∨ r = k.arg ∨ r = k.arg + 1)
  | .ExSmootherTake, .applyAscOrthoRadialSection =>
      a = .x ∧ s.nc - 1 ≤ r ∧ (θ = k.arg ∨ θ = thM s k.arg ∨ θ = thP s k.arg)
  | _, .solveCircleSection => a = .temp ∧ r = k.arg
  | _, .solveRadialSection => a = .temp ∧ s.nc ≤ r ∧ θ = k.arg
  | _, _ => False

instance (s : Shape) (k : Call) (a : Arr) (r θ : Int) : Decidable (writes s k a r θ) := by
  unfold writes giveCircle giveRadial; split <;> infer_instance
instance (s : Shape) (k : Call) (a : Arr) (r θ : Int) : Decidable (reads s k a r θ) := by
  unfold reads; split <;> infer_instance

/-- iterations of a loop -/
def Loop.has (l : Loop) (s : Shape) (t : Int) : Prop := l.lo s ≤ t ∧ t < l.hi s ∧ (t - l.lo s) % l.step = 0

/-- two calls conflict at a node: one writes what the other reads or writes -/
def conflictAt (s : Shape) (k k' : Call) (a : Arr) (r θ : Int) : Prop :=
  (writes s k a r θ ∧ (writes s k' a r θ ∨ reads s k' a r θ)) ∨ (writes s k' a r θ ∧ reads s k a r θ)

instance (s : Shape) (k k' : Call) (a : Arr) (r θ : Int) : Decidable (conflictAt s k k' a r θ) := by
  unfold conflictAt; infer_instance

/-- barrier intervals: list of lists of loop indices -/
def intervals (loops : List Loop) : List (List Nat) :=
  let rec go (i : Nat) (cur : List Nat) : List Loop → List (List Nat)
    | [] => if cur.isEmpty then [] else [cur]
    | l :: ls => if l.nowait then go (i + 1) (cur ++ [i]) ls else (cur ++ [i]) :: go (i + 1) [] ls
  go 0 [] loops

/-- race freedom of two loops that may run concurrently (same loop: different iterations) -/
def LoopsRaceFree (s : Shape) (l l' : Loop) (same : Bool) : Prop :=
  ∀ t t', l.has s t → l'.has s t' → (same = true → t ≠ t') →
    ∀ k ∈ l.body s t, ∀ k' ∈ l'.body s t', ∀ a r θ, 0 ≤ r → r < s.nr → 0 ≤ θ → θ < s.nt → ¬ conflictAt s k k' a r θ

/-- every pair of loops of one barrier interval (incl. a loop with itself) is race free -/
def RegionRaceFree (s : Shape) (reg : Region) : Prop :=
  ∀ iv ∈ intervals reg.loops, ∀ ia ∈ iv, ∀ ib ∈ iv, ia ≤ ib →
    LoopsRaceFree s (reg.loops.getD ia default) (reg.loops.getD ib default) (ia == ib)

/-- shapes the smoothers are run on (C17.splitAuto_bounds / C18): at least two circles, three radial nodes, `nt` even ≥ 4 -/
structure Admissible (s : Shape) : Prop where
  nc2 : 2 ≤ s.nc
  len3 : s.nc + 3 ≤ s.nr
  nt4 : 4 ≤ s.nt
  ntEven : s.nt % 2 = 0

/-- shapes of the levels that are smoothed: additionally `nt` divisible by 4 (C18.levels_admissible) -/
structure SmoothAdmissible (s : Shape) : Prop extends Admissible s where
  nt4dvd : s.nt % 4 = 0

/-! ### executable search for a concrete conflict on a given shape (used when an obligation breaks) -/

def iterations (l : Loop) (s : Shape) : List Int :=
  let n := ((l.hi s - l.lo s + l.step - 1) / l.step).toNat
  (List.range n).map fun (q : Nat) => l.lo s + (q : Int) * l.step

def nodes (s : Shape) : List (Int × Int) :=
  (List.range s.nr.toNat).flatMap fun (r : Nat) => (List.range s.nt.toNat).map fun (t : Nat) => ((r : Int), (t : Int))

def findConflict (s : Shape) (reg : Region) : Option String := Id.run do
  let loops := reg.loops.toArray
  for iv in intervals reg.loops do
    for ia in iv do
      for ib in iv do
        if ia ≤ ib then
          let l := loops[ia]!; let l' := loops[ib]!
          for t in iterations l s do
            for t' in iterations l' s do
              if ia != ib ∨ t < t' then
                for k in l.body s t do
                  for k' in l'.body s t' do
                    for a in [Arr.out, Arr.x, Arr.temp] do
                      for (r, θ) in nodes s do
                        if decide (conflictAt s k k' a r θ) then
                          return some s!"{reg.name}: loops {ia} (iteration {t}, {repr k.fn} {k.arg}) and {ib} (iteration {t'}, {repr k'.fn} {k'.arg}) conflict on {repr a} at node ({r},{θ}) for shape nr={s.nr} nt={s.nt} nc={s.nc}"
  return none

end Sched
