import GMGModel.Stencil
/-!
# Zebra line smoothers — spec level
mirrors the phase structure of `src/Smoother/Smoother{Give,Take}/smootherSolver.cpp` and
`src/ExtrapolatedSmoother/*/smootherSolver.cpp` (`…Sequential`: black circles, white circles, black radial lines, white
radial lines; the outermost smoother circle `nc - 1` is black, radial line `j` is black iff `j` is even).

A sweep replaces every line of the current colour by the solution of its line system with all other values taken from the
current iterate.  This is expressed through the *sweep equations*: node `t` of a line of phase `p` satisfies the row
equation of the operator (`Stencil.take … = 0`) for the mixed iterate "new values on lines of phase ≤ p, old values
elsewhere".  The 5 000 lines of C++ (matrix assembly, right-hand side assembly, line solves) are tied to these equations
by the correspondence check; the line solvers themselves are C14 / C16.
-/
namespace Smoother
open Stencil
variable {α : Type} [Scalar α]

/-- phase in which node (i, j) is updated: 1 black circles, 2 white circles, 3 black radial lines, 4 white radial lines -/
def phase (nc i j : Nat) : Nat :=
  if i < nc then (if (nc - 1 - i) % 2 = 0 then 1 else 2) else (if j % 2 = 0 then 3 else 4)

/-- the iterate a line of phase `p` sees: new values `y` on lines of phase ≤ p, old values `x` elsewhere -/
def mix (nc p : Nat) (x y : Field α) : Field α := fun i j => if phase nc i j ≤ p then y i j else x i j

/-- residual of the sweep equation at node (i, j) -/
def defect (o : Op α) (nc : Nat) (f x y : Field α) (i j : Nat) : α :=
  take o f (mix nc (phase nc i j) x y) i j

/-- nodes that also belong to the next coarser grid -/
def coarseNode (i j : Nat) : Bool := i % 2 = 0 && j % 2 = 0

/-- extrapolated smoothing: coarse nodes keep their value, all other nodes satisfy the sweep equation -/
def exDefect (o : Op α) (nc : Nat) (f x y : Field α) (i j : Nat) : α :=
  if coarseNode i j then y i j - x i j else take o f (mix nc (phase nc i j) x y) i j

end Smoother
